import TongoProofs.Lemmas.HashmapEncode
import TongoProofs.Lemmas.HashmapPut
import TongoProofs.Lemmas.HashmapSigned
import TongoProofs.Lemmas.HashmapAug
import TongoProofs.Lemmas.HashmapPruned
import TongoProofs.Lemmas.HashmapSound
import TongoGen.HashmapKeys
import TongoProofs.Lemmas.HashmapCanon
import TongoProofs.Lemmas.HashmapBridge
/-! # Property C05 — dictionaries (Hashmap / HashmapE) preserve their key→value mapping

Model: `TongoModel/Hashmap.lean` (mirror of tlb/hashmap.go after the repairs recorded in known_findings.txt).
Keys are the encoded key bits (width `n` = FixedSize of the key type), values are abstract: `C : Codec V` is what
Marshal/Unmarshal of the value type do at the end of a leaf cell, `pay v` the bits and refs of value `v`.

Hypotheses used below (all satisfiable, see the examples at the end):
* `DecodesValue C pay v` : the value decoder reads back `pay v` (asked only of the values that occur);
* `Fits C pay n v`       : the value encoder produces `pay v`, the leaf has room for it next to a full-width label
                           (a SUFFICIENT size condition, attained by a single mixed-bit key; a leaf below forks has a
                           shorter label and more room), and `DecodesValue C pay v`. Theorems about successful encodings
                           (`marshal_sound`, `marshal_unmarshal_sound`) need no size condition at all: `Encodes`;
* `SortedKV kvs`         : entries listed in strictly ascending order of key bits (`lexLt`);
* `HTree.Valid n t`      : `t` is a TL-B `Hashmap n X` tree, any of hml_short / hml_long / hml_same on any edge.
-/
namespace Tongo.C05
open Tongo Tongo.Hashmap

variable {V : Type}

/-- the HashmapE cell around a dictionary root: `hme_root$1 root:^(Hashmap n X)` -/
def wrapE (root : Cell) : Cell := Cell.ordinary [true] [root]

/-- On a non-empty list of distinct `n`-bit keys in ascending bit order, `encodeMap` succeeds and writes the cell tree of
a valid `Hashmap n X` (with the label forms tongo picks) whose meaning is exactly the list. Covers every shape: single
key, keys differing only in the last bit, `n = 1`, every label length and all three label forms the encoder picks. -/
theorem encode_sorted_tree (C : Codec V) (pay : V → List Bool × List Cell) (n : Nat) (kvs : List (Key × V))
    (hne : kvs ≠ []) (hw : ∀ kv ∈ kvs, kv.1.length = n) (hs : SortedKV kvs) (hfit : ∀ kv ∈ kvs, Fits C pay n kv.2) :
    ∃ t : HTree V, t.Valid n ∧ t.meaning = kvs ∧ encodeMap C (n + 1) kvs (n : Int) = .ok (t.toCell pay n) :=
  encodeMap_sorted C pay n (n + 1) n kvs (Nat.le_refl n) (Nat.lt_succ_self n) hne hw hs hfit

theorem width_lt_of_fits (C : Codec V) (pay : V → List Bool × List Cell) (n : Nat) (v : V) (h : Fits C pay n v) :
    n < 2 ^ 64 := by
  have := h.2.1
  omega

/-- The encoder writes every edge label in the shortest of the three TL-B forms: no other serialisation of the same label
is shorter. (Minimal LENGTH only; that the choice among equally short forms is TON's is part of `reencode_canonical`
below, and that `canonLbl` is TON's rule is checked on real chain dictionaries by the oracle `go.hm.reencode`.) -/
theorem labels_shortest (label : Key) (m : Nat) (l' : Lbl) (h : l'.bits = label) :
    (encLabelBits label (m : Int)).length ≤ (l'.enc m).length :=
  encLabelBits_shortest label m l' h

/-- decode ∘ encode = id on sorted input: `Hashmap.UnmarshalTLB` of what `encodeMap` wrote returns the same keys and
values in the same (ascending key-bit) order. -/
theorem decode_encode_sorted (C : Codec V) (pay : V → List Bool × List Cell) (n : Nat) (kvs : List (Key × V))
    (hne : kvs ≠ []) (hw : ∀ kv ∈ kvs, kv.1.length = n) (hs : SortedKV kvs) (hfit : ∀ kv ∈ kvs, Fits C pay n kv.2) :
    ∃ c, encodeMap C (n + 1) kvs (n : Int) = .ok c ∧ unmarshal C n c = .ok kvs := by
  obtain ⟨t, hv, hm, he⟩ := encode_sorted_tree C pay n kvs hne hw hs hfit
  refine ⟨t.toCell pay n, he, ?_⟩
  obtain ⟨x, hx⟩ := List.exists_mem_of_ne_nil kvs hne
  have hn := width_lt_of_fits C pay n x.2 (hfit x hx)
  unfold unmarshal
  rw [toCell_ty]
  have h0 : ¬ ((0 : Nat) = tyLibrary) := by decide
  simp only [h0, if_false]
  have hdec : ∀ kv ∈ t.meaning, DecodesValue C pay kv.2 := by
    rw [hm]; exact fun kv hkv => (hfit kv hkv).2.2.2
  rw [mapInner_toCell C pay n hn t hdec n [] (n + 1) hv (by simp) (Nat.lt_succ_self n), ← hm]
  simp

/-- Every valid TON dictionary — any mix of the three label forms, e.g. written by another implementation — decodes
(through the `HashmapE` wrapper) to the mapping it represents, listed in strictly ascending order of key bits, every
key of width `n`. -/
theorem decode_any_valid (C : Codec V) (pay : V → List Bool × List Cell) (n : Nat)
    (hn : n < 2 ^ 64) (t : HTree V) (hv : t.Valid n) (hdec : ∀ kv ∈ t.meaning, DecodesValue C pay kv.2) :
    unmarshalE C n (wrapE (t.toCell pay n)) = .ok t.meaning ∧ SortedKV t.meaning ∧
      ∀ kv ∈ t.meaning, kv.1.length = n := by
  refine ⟨?_, meaning_sorted t n hv, meaning_key_length t n hv⟩
  have h0 : ¬ ((0 : Nat) = tyLibrary) := by decide
  have h1 : ¬ ((0 : Nat) = tyPruned) := by decide
  simp only [unmarshalE, wrapE, ty_ordinary, bits_ordinary, refs_ordinary, h0, if_false, unmarshal, toCell_ty, h1]
  rw [mapInner_toCell C pay n hn t hdec n [] (n + 1) hv (by simp) (Nat.lt_succ_self n)]
  simp

/-- the empty dictionary is the single bit 0 and decodes to no entries -/
theorem decode_empty (C : Codec V) (n : Nat) : unmarshalE C n (Cell.ordinary [false] []) = .ok [] := by
  have h0 : ¬ ((0 : Nat) = tyLibrary) := by decide
  simp [unmarshalE, h0]

/-- `HashmapE` round trip for ANY slice order of distinct keys: Marshal (which orders the entries by key bits) followed
by Unmarshal returns the same entries in ascending key-bit order; the empty dictionary is the single bit 0. -/
theorem hashmapE_roundtrip (C : Codec V) (pay : V → List Bool × List Cell) (n : Nat) (kvs : List (Key × V))
    (hnd : (keysOf kvs).Nodup) (hw : ∀ kv ∈ kvs, kv.1.length = n) (hfit : ∀ kv ∈ kvs, Fits C pay n kv.2) :
    (kvs = [] → marshalE C n kvs = .ok (Cell.ordinary [false] [])) ∧
    ∃ c, marshalE C n kvs = .ok c ∧ unmarshalE C n c = .ok (sortKV kvs) ∧ SortedKV (sortKV kvs) := by
  constructor
  · intro h; subst h; rfl
  · have hwk : ∀ k ∈ keysOf kvs, k.length = n := by
      intro k hk
      obtain ⟨x, hx, rfl⟩ := List.mem_map.mp hk
      exact hw x hx
    have hsorted := sortKV_sorted n kvs hnd hwk
    cases kvs with
    | nil => exact ⟨Cell.ordinary [false] [], rfl, by simpa [sortKV] using decode_empty C n, hsorted⟩
    | cons x rest =>
      have hp := sortKV_perm (x :: rest)
      have hne : sortKV (x :: rest) ≠ [] := by
        intro h; rw [h] at hp; exact absurd hp.symm (by simp)
      obtain ⟨t, hv, hm, he⟩ := encode_sorted_tree C pay n (sortKV (x :: rest)) hne
        (fun kv hkv => hw kv (hp.mem_iff.mp hkv)) hsorted (fun kv hkv => hfit kv (hp.mem_iff.mp hkv))
      have hn := width_lt_of_fits C pay n x.2 (hfit x (by simp))
      have hmax : maxKeyLen (x :: rest) = n := maxKeyLen_eq n _ (by simp) hw
      refine ⟨wrapE (t.toCell pay n), ?_, ?_, hsorted⟩
      · simp [marshalE, marshal, hmax, he, wrapE]
      · have hdec : ∀ kv ∈ t.meaning, DecodesValue C pay kv.2 := by
          rw [hm]; exact fun kv hkv => (hfit kv (hp.mem_iff.mp hkv)).2.2.2
        rw [(decode_any_valid C pay n hn t hv hdec).1, hm]

/-- `Put` keeps the slice ordered by the key family's `Compare` (strict, hence duplicate-free), and keeps key widths. -/
theorem put_sorted (lt : Key → Key → Bool) (n : Nat) (hlt : StrictTotalOn lt n) (d : List (Key × V)) (k : Key) (v : V)
    (hk : k.length = n) (hs : SortedBy lt d) (hw : ∀ x ∈ keysOf d, x.length = n) :
    SortedBy lt (put lt d k v) ∧ (keysOf (put lt d k v)).Nodup ∧ ∀ x ∈ keysOf (put lt d k v), x.length = n := by
  have h := put_sortedBy lt n hlt d k v hk hs hw
  refine ⟨h, sortedBy_nodup lt hlt.irrefl _ h, ?_⟩
  intro x hx
  rcases (keysOf_put_mem lt d k v x).mp hx with e | e
  · rw [e]; exact hk
  · exact hw x e

/-- the three comparison families of the shipped key types are strict total orders on `n`-bit keys: unsigned numeric
(UintN, bytes.Compare of BitsN, AddressWithWorkchain), two's complement numeric (IntN), and the bit order itself -/
theorem compare_families (n : Nat) : StrictTotalOn ltUnsigned n ∧ StrictTotalOn ltSigned n ∧ StrictTotalOn lexLt n :=
  ⟨strictTotal_ltUnsigned n, strictTotal_ltSigned n, strictTotal_lexLt n⟩

/-- for unsigned / byte-string key families `Compare` order IS the ascending key-bit order (this is also the executable
form `ltUnsignedFast` the model driver runs) -/
theorem unsigned_order_is_bit_order (a b : Key) (h : a.length = b.length) : ltUnsigned a b = lexLt a b :=
  ltUnsigned_eq_fast a b h

/-- the executable signed comparison the model driver runs (sign bit first, then the remaining bits) equals two's
complement numeric order on keys of one width -/
theorem signed_order_fast (a b : Key) (h : a.length = b.length) : ltSigned a b = ltSignedFast a b :=
  ltSigned_eq_fast a b h

/-- building by `Put` from any permutation of distinct entries gives the same slice (Keys()/Values()/Items() do not
depend on insertion order) -/
theorem build_perm (lt : Key → Key → Bool) (n : Nat) (hlt : StrictTotalOn lt n) (ops1 ops2 : List (Key × V))
    (hp : ops1.Perm ops2) (hnd : (keysOf ops1).Nodup) (hw : ∀ k ∈ keysOf ops1, k.length = n) :
    buildPut lt ops1 = buildPut lt ops2 := by
  have hp' := hp.map Prod.fst
  have hnd2 : (keysOf ops2).Nodup := hp'.nodup hnd
  have hw2 : ∀ k ∈ keysOf ops2, k.length = n := fun k hk => hw k (hp'.mem_iff.mpr hk)
  exact sortedBy_perm_eq lt n hlt _ _ (buildPut_sorted lt n hlt ops1 hw).1 (buildPut_sorted lt n hlt ops2 hw2).1
    (((buildPut_perm lt ops1 hnd).trans hp).trans (buildPut_perm lt ops2 hnd2).symm)

/-- the encoding does not depend on insertion order — for any `Compare` whatsoever, because Marshal orders by key bits -/
theorem encode_order_independent (C : Codec V) (n : Nat) (lt : Key → Key → Bool) (ops1 ops2 : List (Key × V))
    (hp : ops1.Perm ops2) (hnd : (keysOf ops1).Nodup) (hw : ∀ k ∈ keysOf ops1, k.length = n) :
    marshalE C n (buildPut lt ops1) = marshalE C n (buildPut lt ops2) := by
  have hp' := hp.map Prod.fst
  have hnd2 : (keysOf ops2).Nodup := hp'.nodup hnd
  have hb : (buildPut lt ops1).Perm (buildPut lt ops2) :=
    ((buildPut_perm lt ops1 hnd).trans hp).trans (buildPut_perm lt ops2 hnd2).symm
  have hb1 := buildPut_perm lt ops1 hnd
  have hnd1 : (keysOf (buildPut lt ops1)).Nodup := (hb1.map Prod.fst).symm.nodup hnd
  have hw1 : ∀ k ∈ keysOf (buildPut lt ops1), k.length = n := fun k hk => hw k ((hb1.map Prod.fst).mem_iff.mp hk)
  have hsort := sortKV_perm_eq n _ _ hb hnd1 hw1
  cases h1 : buildPut lt ops1 with
  | nil =>
    rw [h1] at hb
    rw [List.Perm.nil_eq hb]
  | cons x r =>
    cases h2 : buildPut lt ops2 with
    | nil => rw [h1, h2] at hb; exact absurd hb (by simp)
    | cons y r2 =>
      rw [h1, h2] at hsort
      have hwx : ∀ kv ∈ x :: r, kv.1.length = n := by
        intro kv hkv; rw [← h1] at hkv; exact hw1 kv.1 (List.mem_map.mpr ⟨kv, hkv, rfl⟩)
      have hwy : ∀ kv ∈ y :: r2, kv.1.length = n := by
        intro kv hkv
        rw [← h2] at hkv
        exact hw1 kv.1 (List.mem_map.mpr ⟨kv, hb.mem_iff.mpr hkv, rfl⟩)
      simp [marshalE, marshal, maxKeyLen_eq n _ (by simp) hwx, maxKeyLen_eq n _ (by simp) hwy, hsort]

/-- Signed key types: `Put` keeps the slice in numeric order, i.e. the keys with the sign bit set (`neg`, ascending) before
the others (`nonneg`, ascending). `encodeMap` applied directly to that slice order builds the same tree as on the bit
order, so it decodes to the same entries listed in ascending key-bit order (`nonneg ++ neg`). This is why dictionaries
built only by `Put` encoded correctly even before Marshal ordered the entries itself. -/
theorem decode_encode_signed (C : Codec V) (pay : V → List Bool × List Cell) (n : Nat) (neg nonneg : List (Key × V))
    (hneg : neg ≠ []) (hnn : nonneg ≠ [])
    (h1 : ∀ kv ∈ neg, ∃ k', kv.1 = true :: k') (h0 : ∀ kv ∈ nonneg, ∃ k', kv.1 = false :: k')
    (hw : ∀ kv ∈ neg ++ nonneg, kv.1.length = n) (hs1 : SortedKV neg) (hs0 : SortedKV nonneg)
    (hfit : ∀ kv ∈ neg ++ nonneg, Fits C pay n kv.2) :
    ∃ c, encodeMap C (n + 1) (neg ++ nonneg) (n : Int) = .ok c ∧ unmarshal C n c = .ok (nonneg ++ neg) := by
  rw [encodeMap_signed_order C (n + 1) n neg nonneg hneg hnn h1 h0]
  apply decode_encode_sorted C pay n (nonneg ++ neg) (by simp [hnn])
  · intro kv hkv; exact hw kv (by simp at hkv ⊢; tauto)
  · exact sortedKV_append_signed neg nonneg hs1 hs0 h1 h0
  · intro kv hkv; exact hfit kv (by simp at hkv ⊢; tauto)

/-- The property in one statement: fill a dictionary by `Put` (any `Compare`) from ANY ordering `ops` of distinct `n`-bit
keys; Marshal succeeds, Unmarshal of the result lists exactly the inserted pairs in ascending key-bit order, and the
listing is the same for every ordering (`sortKV ops` depends only on the set, see `encode_order_independent`). -/
theorem build_encode_decode (C : Codec V) (pay : V → List Bool × List Cell) (n : Nat) (lt : Key → Key → Bool)
    (ops : List (Key × V)) (hnd : (keysOf ops).Nodup) (hw : ∀ kv ∈ ops, kv.1.length = n)
    (hfit : ∀ kv ∈ ops, Fits C pay n kv.2) :
    ∃ c, marshalE C n (buildPut lt ops) = .ok c ∧ unmarshalE C n c = .ok (sortKV ops) ∧
      SortedKV (sortKV ops) ∧ (sortKV ops).Perm ops := by
  have hb := buildPut_perm lt ops hnd
  have hndb : (keysOf (buildPut lt ops)).Nodup := (hb.map Prod.fst).symm.nodup hnd
  have hwb : ∀ kv ∈ buildPut lt ops, kv.1.length = n := fun kv h => hw kv (hb.mem_iff.mp h)
  have hfb : ∀ kv ∈ buildPut lt ops, Fits C pay n kv.2 := fun kv h => hfit kv (hb.mem_iff.mp h)
  obtain ⟨c, h1, h2, h3⟩ := (hashmapE_roundtrip C pay n _ hndb hwb hfb).2
  have hs : sortKV (buildPut lt ops) = sortKV ops :=
    sortKV_perm_eq n _ _ hb hndb (by
      intro k hk
      obtain ⟨x, hx, rfl⟩ := List.mem_map.mp hk
      exact hwb x hx)
  rw [hs] at h2 h3
  exact ⟨c, h1, h2, h3, sortKV_perm ops⟩

/-- lookups on a decoded dictionary agree with the mapping of the tree: `Get k` returns `v` exactly when `(k, v)` is an
entry of the meaning (and `none` exactly when `k` is not a key) -/
theorem get_spec (t : HTree V) (n : Nat) (hv : t.Valid n) (k : Key) :
    (∀ v, get t.meaning k = some v ↔ (k, v) ∈ t.meaning) ∧ (get t.meaning k = none ↔ k ∉ keysOf t.meaning) := by
  have hnd := sortedBy_nodup lexLt lexLt_irrefl t.meaning (meaning_sorted t n hv)
  exact ⟨fun v => get_eq_some_iff t.meaning hnd k v, get_eq_none_iff t.meaning k⟩

/-- updates agree with the mapping: after `Put k v` (any slice, any `Compare`) `k ↦ v` and every other key is unchanged -/
theorem put_spec (lt : Key → Key → Bool) (d : List (Key × V)) (k : Key) (v : V) (k' : Key) :
    get (put lt d k v) k' = if k' = k then some v else get d k' :=
  get_put lt d k v k'

/-- `Put` on a DECODED dictionary followed by Marshal / Unmarshal yields the updated mapping in ascending key-bit order —
for every key family, signed ones included (where Put's position by numeric `Compare` is not the bit-order position). -/
theorem decode_then_put_encodes (C : Codec V) (pay : V → List Bool × List Cell) (n : Nat)
    (lt : Key → Key → Bool) (t : HTree V) (hv : t.Valid n) (k : Key) (v : V) (hk : k.length = n)
    (hfit : ∀ kv ∈ t.meaning, Fits C pay n kv.2) (hfv : Fits C pay n v) :
    ∃ c, marshalE C n (put lt t.meaning k v) = .ok c ∧
      unmarshalE C n c = .ok (sortKV (put lt t.meaning k v)) ∧
      SortedKV (sortKV (put lt t.meaning k v)) ∧
      ∀ k', get (sortKV (put lt t.meaning k v)) k' = if k' = k then some v else get t.meaning k' := by
  have hnd0 := sortedBy_nodup lexLt lexLt_irrefl t.meaning (meaning_sorted t n hv)
  have hnd := put_nodup lt t.meaning k v hnd0
  have hw : ∀ kv ∈ put lt t.meaning k v, kv.1.length = n := by
    intro kv hkv
    rcases (keysOf_put_mem lt t.meaning k v kv.1).mp (List.mem_map.mpr ⟨kv, hkv, rfl⟩) with e | e
    · rw [e]; exact hk
    · obtain ⟨x, hx, hxe⟩ := List.mem_map.mp e
      rw [← hxe]; exact meaning_key_length t n hv x hx
  have hf : ∀ kv ∈ put lt t.meaning k v, Fits C pay n kv.2 := by
    intro kv hkv
    rcases mem_put lt t.meaning k v kv hkv with e | e
    · rw [e]; exact hfv
    · exact hfit kv e
  obtain ⟨c, h1, h2, h3⟩ := (hashmapE_roundtrip C pay n _ hnd hw hf).2
  refine ⟨c, h1, h2, h3, ?_⟩
  intro k'
  rw [get_perm _ _ (sortKV_perm _) ((sortKV_perm _).map Prod.fst |>.symm.nodup hnd)]
  exact get_put lt t.meaning k v k'

/-- `HashmapAugE` (decode side only; tongo has no encoder for it): every valid augmented dictionary, any label forms,
decodes to the key→value mapping it represents, together with the tree of per-node extras exactly as stored and the root
extra `y0` of `ahme_root`. `xdec` / `xpay` are the abstract codec of the extras. -/
theorem aug_decode_any_valid {Y : Type} (xdec : XDec Y) (zero : Y)
    (C : Codec V) (pay : V → List Bool × List Cell) (xpay : Y → List Bool × List Cell)
    (hx : DecodesExtra xdec xpay) (n : Nat) (hn : n < 2 ^ 64)
    (t : ATree V Y) (hv : t.Valid n) (hdec : ∀ kv ∈ t.meaning, DecodesValue C pay kv.2) (y0 : Y) :
    unmarshalAugE xdec zero C n (Cell.ordinary (true :: (xpay y0).1) (t.toCell pay xpay n :: (xpay y0).2)) =
      .ok (t.meaning, t.extras, y0) := by
  have h0 : ¬ ((0 : Nat) = tyLibrary) := by decide
  have h1 : ¬ ((0 : Nat) = tyPruned) := by decide
  have hsk := hx y0 [] []
  simp only [List.append_nil] at hsk
  simp only [unmarshalAugE, unmarshalAug, ty_ordinary, bits_ordinary, refs_ordinary, h0, h1, if_false, atree_toCell_ty]
  rw [mapInnerAug_toCell xdec zero C pay xpay hx n hn t hdec n [] (n + 1) hv (by simp) (Nat.lt_succ_self n)]
  simp [hsk]

/-- the empty augmented dictionary `ahme_empty$0 extra:Y` decodes to no entries and its extra -/
theorem aug_decode_empty {Y : Type} (xdec : XDec Y) (zero : Y) (C : Codec V) (xpay : Y → List Bool × List Cell)
    (hx : DecodesExtra xdec xpay) (n : Nat) (y0 : Y) :
    unmarshalAugE xdec zero C n (Cell.ordinary (false :: (xpay y0).1) (xpay y0).2) = .ok ([], .leaf zero, y0) := by
  have h0 : ¬ ((0 : Nat) = tyLibrary) := by decide
  have hsk := hx y0 [] []
  simp only [List.append_nil] at hsk
  simp [unmarshalAugE, h0, hsk]

/-- a bare `HashmapAug n X Y` stored inline (e.g. `AccountBlock.transactions`) -/
theorem aug_inline_decode_any_valid {Y : Type} (xdec : XDec Y) (zero : Y)
    (C : Codec V) (pay : V → List Bool × List Cell) (xpay : Y → List Bool × List Cell)
    (hx : DecodesExtra xdec xpay) (n : Nat) (hn : n < 2 ^ 64)
    (t : ATree V Y) (hv : t.Valid n) (hdec : ∀ kv ∈ t.meaning, DecodesValue C pay kv.2) :
    unmarshalAug xdec zero C n (t.toCell pay xpay n) = .ok (t.meaning, t.extras) := by
  have h0 : ¬ ((0 : Nat) = tyLibrary) := by decide
  simp only [unmarshalAug, atree_toCell_ty, h0, if_false]
  rw [mapInnerAug_toCell xdec zero C pay xpay hx n hn t hdec n [] (n + 1) hv (by simp) (Nat.lt_succ_self n)]
  simp

/-! ## No silent corruption: arbitrary slices, colliding keys, the typed layer -/

/-- what a theorem about SUCCESSFUL encodings needs of the value codec: `enc` produces `pay v` and `dec` reads it back.
No size condition: a value that does not fit makes Marshal fail, and failure is not a wrong tree. -/
def Encodes (C : Codec V) (pay : V → List Bool × List Cell) (v : V) : Prop :=
  C.enc v = .ok (pay v) ∧ DecodesValue C pay v

/-- Soundness of `Hashmap.MarshalTLB` (the root goes into a fresh cell, as under `^`) for ANY non-empty slice of `n`-bit
keys — any order, duplicates allowed, values of any size: whenever it succeeds, the keys were pairwise distinct, the
root is an ordinary cell, and `Hashmap.UnmarshalTLB` of it returns exactly the given entries in ascending key-bit order.
(This is the form the TL-B codec model applies to its `dict` / `dictE` nodes: keys as bit lists of the descriptor's key
width, values through an arbitrary codec.) -/
theorem marshal_unmarshal_sound (C : Codec V) (pay : V → List Bool × List Cell) (n : Nat) (hn : n < 2 ^ 64)
    (kvs : List (Key × V)) (hne : kvs ≠ []) (hw : ∀ kv ∈ kvs, kv.1.length = n)
    (henc : ∀ kv ∈ kvs, Encodes C pay kv.2) (root : Cell) (h : marshal C n kvs = .ok root) :
    (keysOf kvs).Nodup ∧ SortedKV (sortKV kvs) ∧ root.ty = 0 ∧ unmarshal C n root = .ok (sortKV kvs) := by
  have hp := sortKV_perm kvs
  have hmax : maxKeyLen kvs = n := maxKeyLen_eq n _ hne hw
  have hemp : kvs.isEmpty = false := by cases kvs <;> simp_all
  simp only [marshal, hemp, Bool.false_eq_true, if_false, hmax] at h
  have hws : ∀ kv ∈ sortKV kvs, kv.1.length = n := fun kv hkv => hw kv (hp.mem_iff.mp hkv)
  have hs := encodeMap_ok_strict C (n + 1) n _ root hws (sortKV_weak n _ hw) h
  obtain ⟨t, hv, hm, hc⟩ := encodeMap_ok_tree C pay (n + 1) n _ root hws hs
    (fun kv hkv => (henc kv (hp.mem_iff.mp hkv)).1) h
  have hdec : ∀ kv ∈ t.meaning, DecodesValue C pay kv.2 := by
    rw [hm]; exact fun kv hkv => (henc kv (hp.mem_iff.mp hkv)).2
  refine ⟨(hp.map Prod.fst).nodup (sortedBy_nodup lexLt lexLt_irrefl _ hs), hs, by rw [hc]; exact toCell_ty pay t n, ?_⟩
  rw [hc]
  unfold unmarshal
  rw [toCell_ty]
  have h0 : ¬ ((0 : Nat) = tyLibrary) := by decide
  simp only [h0, if_false]
  rw [mapInner_toCell C pay n hn t hdec n [] (n + 1) hv (by simp) (Nat.lt_succ_self n), hm]
  simp

/-- …and Marshal does succeed when the keys are distinct and every value fits (`Fits` is a sufficient size condition). -/
theorem marshal_succeeds (C : Codec V) (pay : V → List Bool × List Cell) (n : Nat) (kvs : List (Key × V))
    (hne : kvs ≠ []) (hnd : (keysOf kvs).Nodup) (hw : ∀ kv ∈ kvs, kv.1.length = n)
    (hfit : ∀ kv ∈ kvs, Fits C pay n kv.2) : ∃ root, marshal C n kvs = .ok root := by
  have hp := sortKV_perm kvs
  have hwk : ∀ k ∈ keysOf kvs, k.length = n := by
    intro k hk; obtain ⟨x, hx, rfl⟩ := List.mem_map.mp hk; exact hw x hx
  have hne' : sortKV kvs ≠ [] := by
    intro h; rw [h] at hp; exact hne (List.Perm.eq_nil hp.symm)
  obtain ⟨t, _, _, he⟩ := encode_sorted_tree C pay n (sortKV kvs) hne'
    (fun kv hkv => hw kv (hp.mem_iff.mp hkv)) (sortKV_sorted n kvs hnd hwk) (fun kv hkv => hfit kv (hp.mem_iff.mp hkv))
  have hemp : kvs.isEmpty = false := by cases kvs <;> simp_all
  exact ⟨_, by simp only [marshal, hemp, Bool.false_eq_true, if_false, maxKeyLen_eq n _ hne hw]; exact he⟩

/-- Soundness of `HashmapE.MarshalTLB` for ANY slice of `n`-bit keys, duplicates allowed (e.g. two typed keys outside their
domain that truncate to the same bits), values of any size: whenever Marshal succeeds the keys were pairwise distinct and
Unmarshal returns exactly the given entries in ascending key-bit order. Colliding keys and oversized values therefore
make Marshal fail; they never overwrite, drop or alter OTHER entries. -/
theorem marshal_sound (C : Codec V) (pay : V → List Bool × List Cell) (n : Nat) (hn : n < 2 ^ 64) (kvs : List (Key × V))
    (hw : ∀ kv ∈ kvs, kv.1.length = n) (henc : ∀ kv ∈ kvs, Encodes C pay kv.2) (c : Cell)
    (h : marshalE C n kvs = .ok c) :
    (keysOf kvs).Nodup ∧ SortedKV (sortKV kvs) ∧ unmarshalE C n c = .ok (sortKV kvs) := by
  cases kvs with
  | nil =>
    simp only [marshalE, List.isEmpty_nil, if_true] at h
    cases h
    exact ⟨by simp [keysOf], by simp [sortKV, SortedKV], by simpa [sortKV] using decode_empty C n⟩
  | cons x rest =>
    simp only [marshalE, List.isEmpty_cons, Bool.false_eq_true, if_false] at h
    cases hm : marshal C n (x :: rest) with
    | ok root =>
      rw [hm] at h
      cases h
      obtain ⟨h1, h2, h3, h4⟩ := marshal_unmarshal_sound C pay n hn (x :: rest) (by simp) hw henc root hm
      refine ⟨h1, h2, ?_⟩
      have h0 : ¬ ((0 : Nat) = tyLibrary) := by decide
      have h1' : ¬ ((0 : Nat) = tyPruned) := by decide
      simp only [unmarshalE, ty_ordinary, bits_ordinary, refs_ordinary, h0, if_false, h3, h1', h4]
    | err e => rw [hm] at h; cases h
    | panic p => rw [hm] at h; cases h

/-- the typed layer, integer keys inside their domain: `WriteInt` writes the two's complement encoding the model uses -/
theorem encIntKey_in_range (n : Nat) (v : Int) (hn : 2 ≤ n) (hlo : -(2 ^ (n - 1) : Int) ≤ v) (hhi : v < (2 ^ (n - 1) : Int)) :
    ∃ k, encIntKey n v = .ok k ∧ k.length = n ∧ Bits.bitsToInt k = v :=
  encIntKey_inRange n v hn hlo hhi

/-- `NewHashmapE(keys, values)` with as many values as keys is the list-of-pairs dictionary of the model; with fewer
values than keys Marshal is an error (never a wrong tree) and Items() panics with an index error -/
theorem slices_agree (C : Codec V) (n : Nat) (keys : List Key) (values : List V) :
    (values.length = keys.length → marshalSlicesE C n keys values = marshalE C n (keys.zip values) ∧
      itemsSlices keys values = .ok (keys.zip values)) ∧
    (values.length < keys.length → (marshalSlicesE C n keys values).isErr = true ∧
      (itemsSlices keys values).isPanic = true) :=
  ⟨slices_eq C n keys values, slices_short C n keys values⟩

/-- BitsN keys: `bytes.Compare` on the Go byte arrays is exactly the ascending bit order of the encoded keys, so for
these types `Put`'s slice order is already the order `encodeMap` needs -/
theorem bytes_compare_is_bit_order (a b : List UInt8) (h : a.length = b.length) :
    ltBytes a b = lexLt (Bits.bytesToBits a) (Bits.bytesToBits b) :=
  ltBytes_eq_lexLt a b h

/-- Re-encoding is the identity on canonical dictionaries: if every label of a valid tree `t` is the form `encodeLabel`
picks for its bits (`HTree.Canonical`: hml_same for an all-equal label of n > 1 bits when k < 2n−1, else hml_long when
k < n, else hml_short — ties included), then Marshal of its entries, in ANY slice order, writes `t` back cell for cell.
So a dictionary decoded from such a tree and encoded again has the same cells, hence the same hash. -/
theorem reencode_canonical (C : Codec V) (pay : V → List Bool × List Cell) (n : Nat) (t : HTree V) (hv : t.Valid n)
    (hc : t.Canonical n) (hfit : ∀ kv ∈ t.meaning, Fits C pay n kv.2) (kvs : List (Key × V))
    (hp : kvs.Perm t.meaning) : marshalE C n kvs = .ok (wrapE (t.toCell pay n)) := by
  have hs := meaning_sorted t n hv
  have hw := meaning_key_length t n hv
  have hnd := sortedBy_nodup lexLt lexLt_irrefl t.meaning hs
  have hwk : ∀ kv ∈ kvs, kv.1.length = n := fun kv hkv => hw kv (hp.mem_iff.mp hkv)
  have hsort : sortKV kvs = t.meaning := by
    rw [sortKV_perm_eq n kvs t.meaning hp ((hp.map Prod.fst).symm.nodup hnd) (by
      intro k hk; obtain ⟨x, hx, rfl⟩ := List.mem_map.mp hk; exact hwk x hx)]
    exact sortKV_of_sorted _ hs
  have hne : kvs ≠ [] := by
    intro h; rw [h] at hp; exact meaning_ne_nil t (List.Perm.eq_nil hp.symm)
  have hemp : kvs.isEmpty = false := by cases kvs <;> simp_all
  simp only [marshalE, marshal, hemp, Bool.false_eq_true, if_false, maxKeyLen_eq n kvs hne hwk, hsort]
  rw [encodeMap_canonical C pay n t (n + 1) n (Nat.le_refl n) (Nat.lt_succ_self n) hv hc hfit]
  rfl

/-! ## Every shipped key type (the regenerated table `TongoGen.HashmapKeys.table`, all 137 types) -/

/-- the model's comparison for a key type of the table: two's complement numeric for IntN, unsigned big-endian order of
the encoding for everything else -/
def ltOf (k : Gen.HashmapKeys.KeyType) : Key → Key → Bool := if k.signed then ltSigned else ltUnsigned

/-- the comparison the model uses for a key type is a strict total order on keys of its FixedSize (true for any
`KeyType` value — the table enters through `every_key_type_family_matches_source`, which is about the regenerated
data) -/
theorem every_key_type_strict_total :
    ∀ k ∈ Gen.HashmapKeys.table, StrictTotalOn (ltOf k) k.fixedSize := by
  intro k _
  unfold ltOf
  split
  · exact strictTotal_ltSigned _
  · exact strictTotal_ltUnsigned _

/-- for EVERY key type of the regenerated table (this is a statement about the data extracted from tlb/*.go): the family
the model assigns to it — `ltSigned` exactly for the types whose codec is WriteInt/ReadInt — agrees with the comparison
kind and the underlying Go kind read off the source: numeric Compare on a signed kind for `ltSigned`; numeric Compare on an
unsigned kind, bytes.Compare, or (uint32 workchain, bytes) for `ltUnsigned`. With `typed_compare_is_model_compare` this
says that `ltOf k` is the Go `Compare` of `k`. -/
theorem every_key_type_family_matches_source :
    Gen.HashmapKeys.table.all (fun k =>
      (k.signed == (k.cmp == .numeric && k.underlying == .signedInt)) &&
      (k.signed || (k.cmp == .numeric && k.underlying == .unsignedInt) || (k.cmp == .bytes && k.underlying == .byteArray)
        || (k.cmp == .wcUint32ThenBytes && k.fixedSize == 288))) = true := by decide

/-- `Put` keeps the slice ordered by `Compare`, duplicate-free and of the right width — instantiated for every key type -/
theorem put_sorted_every_key_type (k : Gen.HashmapKeys.KeyType) (hk : k ∈ Gen.HashmapKeys.table)
    (d : List (Key × V)) (key : Key) (v : V) (hlen : key.length = k.fixedSize) (hs : SortedBy (ltOf k) d)
    (hw : ∀ x ∈ keysOf d, x.length = k.fixedSize) :
    SortedBy (ltOf k) (put (ltOf k) d key v) ∧ (keysOf (put (ltOf k) d key v)).Nodup ∧
      ∀ x ∈ keysOf (put (ltOf k) d key v), x.length = k.fixedSize :=
  put_sorted (ltOf k) k.fixedSize (every_key_type_strict_total k hk) d key v hlen hs hw

/-- …and that comparison IS what each family's Go `Compare` computes on the typed values (the table's `cmp` column:
numeric for UintN / IntN, bytes.Compare for BitsN, (uint32 workchain, bytes) for the address key), for values inside
the type's domain. -/
theorem typed_compare_is_model_compare :
    (∀ n a b, a < 2 ^ n → b < 2 ^ n → ltUnsigned (Bits.natToBits n a) (Bits.natToBits n b) = decide (a < b)) ∧
    (∀ n a b ka kb, encIntKey n a = .ok ka → encIntKey n b = .ok kb → 2 ≤ n →
      -(2 ^ (n - 1) : Int) ≤ a → a < (2 ^ (n - 1) : Int) → -(2 ^ (n - 1) : Int) ≤ b → b < (2 ^ (n - 1) : Int) →
      ltSigned ka kb = decide (a < b)) ∧
    (∀ a b : List UInt8, a.length = b.length →
      ltUnsigned (Bits.bytesToBits a) (Bits.bytesToBits b) = ltBytes a b) ∧
    (∀ (wc1 wc2 : Int) (a1 a2 : List UInt8), a1.length = a2.length →
      ltUnsigned (Bits.intToBits 32 wc1 ++ Bits.bytesToBits a1) (Bits.intToBits 32 wc2 ++ Bits.bytesToBits a2) =
        ltAddr wc1 a1 wc2 a2) := by
  refine ⟨uint_compare_eq, ?_, ?_, ?_⟩
  · intro n a b ka kb ha hb hn la ua lb ub
    obtain ⟨ka', h1, _, h2⟩ := encIntKey_inRange n a hn la ua
    obtain ⟨kb', h3, _, h4⟩ := encIntKey_inRange n b hn lb ub
    rw [ha] at h1; rw [hb] at h3
    cases h1; cases h3
    simp [ltSigned, h2, h4]
  · intro a b h
    have hl : (Bits.bytesToBits a).length = (Bits.bytesToBits b).length := by
      rw [bytesToBits_length, bytesToBits_length, h]
    rw [ltUnsigned_eq_fast _ _ hl, ltBytes_eq_lexLt a b h]; rfl
  · intro wc1 wc2 a1 a2 h
    have hl : (Bits.intToBits 32 wc1 ++ Bits.bytesToBits a1).length =
        (Bits.intToBits 32 wc2 ++ Bits.bytesToBits a2).length := by
      simp only [List.length_append, Bits.intToBits, Bits.natToBits_length, bytesToBits_length, h]
    rw [ltUnsigned_eq_fast _ _ hl, addr_compare_eq wc1 wc2 a1 a2 h]; rfl

/-! ## Cell capacity -/

/-- the size part of `Fits` is monotone in the key width -/
theorem size_fits_mono (n N b : Nat) (hn : n ≤ N) (h : b + N + 2 + minBitsRequired N ≤ 1023) :
    b + n + 2 + minBitsRequired n ≤ 1023 := by
  have := minBits_mono hn
  omega

/-- Marshal never overflows a cell for the key types the library ships: with any key width up to 512 bits (Bits512 is the
widest) every value of at most 499 bits and 4 refs fits; with integer keys (≤ 64 bits) values up to 950 bits fit; with
256-bit keys up to 756. (Sufficient limits: 1023 = 2 + bitlength n + n + value bits is attained by a single
mixed-bit key; leaves below forks have shorter labels and more room — see `marshal_sound` for what happens beyond.) -/
theorem encode_never_overflows (C : Codec V) (pay : V → List Bool × List Cell) (n : Nat) (lt : Key → Key → Bool)
    (ops : List (Key × V)) (hnd : (keysOf ops).Nodup) (hw : ∀ kv ∈ ops, kv.1.length = n)
    (hval : ∀ kv ∈ ops, C.enc kv.2 = .ok (pay kv.2) ∧ (pay kv.2).2.length ≤ 4 ∧ DecodesValue C pay kv.2 ∧
      ((n ≤ 512 ∧ (pay kv.2).1.length ≤ 499) ∨ (n ≤ 256 ∧ (pay kv.2).1.length ≤ 756) ∨
       (n ≤ 64 ∧ (pay kv.2).1.length ≤ 950))) :
    ∃ c, marshalE C n (buildPut lt ops) = .ok c := by
  have hfit : ∀ kv ∈ ops, Fits C pay n kv.2 := by
    intro kv hkv
    obtain ⟨he, hr, hd, hs⟩ := hval kv hkv
    refine ⟨he, ?_, hr, hd⟩
    rcases hs with ⟨h1, h2⟩ | ⟨h1, h2⟩ | ⟨h1, h2⟩
    · exact size_fits_mono n 512 _ h1 (by have : minBitsRequired 512 = 10 := by decide
                                          omega)
    · exact size_fits_mono n 256 _ h1 (by have : minBitsRequired 256 = 9 := by decide
                                          omega)
    · exact size_fits_mono n 64 _ h1 (by have : minBitsRequired 64 = 7 := by decide
                                         omega)
  obtain ⟨c, h, _⟩ := build_encode_decode C pay n lt ops hnd hw hfit
  exact ⟨c, h⟩

/-! ## Dictionaries inside Merkle proofs (pruned subtrees) -/

/-- Decoding a valid dictionary in which some subtrees are replaced by pruned-branch cells (what `mapInner` skips; a
pruned root decodes as the empty dictionary) yields exactly the pairs of the un-pruned part, in order. -/
theorem decode_pruned_valid (C : Codec V) (pay : V → List Bool × List Cell) (n : Nat) (hn : n < 2 ^ 64)
    (p : PTree V) (hv : p.Valid n) (hdec : ∀ kv ∈ p.meaning, DecodesValue C pay kv.2) :
    unmarshalE C n (wrapE (p.toCell pay n)) = .ok p.meaning := by
  have h0 : ¬ ((0 : Nat) = tyLibrary) := by decide
  have h1 : ¬ ((0 : Nat) = tyPruned) := by decide
  have hmi := mapInner_ptoCell C pay n hn p hdec n [] (n + 1) hv (by simp) (Nat.lt_succ_self n)
  cases p with
  | pruned mask bits refs =>
    have e : (Cell.mk tyPruned mask bits refs).ty = tyPruned := rfl
    simp only [unmarshalE, wrapE, ty_ordinary, bits_ordinary, refs_ordinary, h0, if_false, PTree.toCell, e, if_true,
      PTree.meaning]
  | leaf l v =>
    simp only [unmarshalE, wrapE, ty_ordinary, bits_ordinary, refs_ordinary, h0, if_false, unmarshal,
      PTree.toCell, h1] at hmi ⊢
    rw [hmi]; simp
  | fork l lo hi =>
    simp only [unmarshalE, wrapE, ty_ordinary, bits_ordinary, refs_ordinary, h0, if_false, unmarshal,
      PTree.toCell, h1] at hmi ⊢
    rw [hmi]; simp

/-- …and relates to the full dictionary `t` the proof was cut from: the decoded pairs are a sublist (same order) of the
full listing, and `Get k` on the decoded proof agrees with the full dictionary for every key whose path is not pruned —
both for present keys (the value is revealed) and for absent ones (absence is revealed). -/
theorem pruned_agrees_with_full (p : PTree V) (t : HTree V) (h : PTree.Prunes p t) (n : Nat) (hv : t.Valid n) :
    p.Valid n ∧ p.meaning.Sublist t.meaning ∧ ∀ k, p.covers k = true → get p.meaning k = get t.meaning k :=
  ⟨prunes_valid p t h n hv, prunes_sublist p t h, get_prunes p t h⟩

/-! ## Layering: the dictionary model sits on the bit-level reference (`Lemmas/HashmapBridge.lean`) -/

/-- The bit-list operations of the dictionary model ARE the cell primitives the Go code calls, as programs over
`Tlb.Builder` / `Tlb.Slice` (whose operations are `Op.spec` by `Tongo.Bridge.builder_*` / `slice_*` / `cell_addRef_bridge` /
`cell_nextRef_bridge`, and `Op.spec` is refined by the byte-level model of boc.BitString: `C06.op_refines`):
the label writer, leaf and fork assembly with the 1023-bit / 4-ref capacity errors, the label reader with the
capacity-bounded key prefix, and the two `NextRef`s of a fork; and the model's `minBitsRequired` is the reference's and the
regenerated one. -/
theorem dictionary_model_on_cell_primitives (m : Nat) (hm : m < 2 ^ 64) :
    (∀ (label : Key) (b : Tlb.Builder), label.length < 2 ^ 64 →
      Bridge.writeLabelB label m b = b.writeBits (encLabelBits label (m : Int))) ∧
    (∀ (k : Key) (vb : List Bool) (vr : List Cell), k.length < 2 ^ 64 →
      mkCell (encLabelBits k (m : Int) ++ vb) vr =
        (do let b ← Bridge.writeLabelB k m Tlb.Builder.empty
            let b ← b.writeBits vb
            let b ← vr.foldlM (fun b r => b.addRef r) b
            pure b.toCell)) ∧
    (∀ (p : Key) (l r : Cell), p.length < 2 ^ 64 →
      mkCell (encLabelBits p (m : Int)) [l, r] =
        (do let b ← Bridge.writeLabelB p m Tlb.Builder.empty
            let b ← b.addRef l
            let b ← b.addRef r
            pure b.toCell)) ∧
    (∀ (cap : Nat) (pfx : Key) (s : Tlb.Slice),
      Bridge.loadLabelS m cap pfx s =
        match loadLabel (m : Int) cap pfx s.bits with
        | .ok (ln, key, rest) => .ok (ln, key, { s with bits := rest })
        | .err e => .err e
        | .panic e => .panic e) ∧
    minBitsRequired m = BitString.minBitsRequired m ∧
    (∀ x : BitVec 64, minBitsRequired x.toNat = (Gen.MinBits.minBitsRequired x).toNat) :=
  ⟨fun label b hl => Bridge.writeLabelB_eq label m hm hl b,
   fun k vb vr hk => Bridge.leaf_eq_program k m hm hk vb vr,
   fun p l r hp => Bridge.fork_eq_program p m hm hp l r,
   fun cap pfx s => Bridge.loadLabelS_eq m cap hm pfx s,
   Bridge.minBits_eq_reference m hm, Bridge.minBits_eq_regenerated⟩

/-! ## The defect repaired by `fix: Hashmap.MarshalTLB orders entries by their encoded key bits` (DESIGN §9 #10)

`marshalUnsorted` is the encoder as it was before the repair: `encodeMap` applied to the slice order. The witness is
`HashmapE[Int8, Uint32]` with keys {0, 1, −2, −1}: decoded in bit order [0, 1, −2, −1], then `Put(2)` (numeric
`Compare`) appends 2 at the end. Replayed on the Go code by corpus/C05/defects.ops. -/

/-- Uint32-like value codec used by the witnesses and examples: 32 bits, no refs -/
def u32Codec : Codec (List Bool) where
  enc v := .ok (v, [])
  dec bits _ := if bits.length < 32 then .err "not enough bits" else .ok (bits.take 32)

def i8 (v : Int) : Key := Bits.intToBits 8 v
def u32 (v : Nat) : List Bool := Bits.natToBits 32 v

/-- the decoded dictionary {0,1,−2,−1} (bit order) after Put(2) under the signed Compare -/
def witness : List (Key × List Bool) :=
  put ltSigned [(i8 0, u32 100), (i8 1, u32 101), (i8 (-2), u32 98), (i8 (-1), u32 99)] (i8 2) (u32 7)

/-- NEGATION on the pre-repair encoder: `decode_then_put_encodes` was false for signed key types — re-encoding the
witness fails (Go: "not enough bits"). -/
theorem decode_then_put_unsorted_fails : (marshalUnsorted u32Codec 8 witness).isOk = false := by decide

/-- …and on the repaired encoder the same witness encodes and decodes to the updated mapping. -/
theorem decode_then_put_witness_ok :
    (match marshalE u32Codec 8 witness with
     | .ok c => unmarshalE u32Codec 8 c
     | _ => .err "") = .ok [(i8 0, u32 100), (i8 1, u32 101), (i8 2, u32 7), (i8 (-2), u32 98), (i8 (-1), u32 99)] := by
  decide

/-! ## Non-vacuity: the hypotheses are satisfiable by non-trivial values -/

def u32Pay (v : List Bool) : List Bool × List Cell := (v, [])

/-- the example codec decodes what it encodes, for every 32-bit value -/
example : ∀ v : List Bool, v.length = 32 → DecodesValue u32Codec u32Pay v := by
  intro v hv
  simp [DecodesValue, u32Codec, u32Pay, hv, List.take_of_length_le (Nat.le_of_eq hv)]

/-- …so every 32-bit value fits next to an 8-bit key -/
example : ∀ v : List Bool, v.length = 32 → Fits u32Codec u32Pay 8 v := by
  intro v hv
  refine ⟨rfl, ?_, ?_, ?_⟩
  · simp only [u32Pay, hv]; decide
  · simp [u32Pay]
  · simp [DecodesValue, u32Codec, u32Pay, hv, List.take_of_length_le (Nat.le_of_eq hv)]

example : SortedKV [(i8 0, u32 1), (i8 1, u32 2), (i8 (-2), u32 3), (i8 (-1), u32 4)] := by
  unfold SortedKV; decide

/-- a valid `Hashmap 8` tree using all three label forms: hml_same 6 zero bits, then 0 → {hml_long [], hml_short [1]} -/
def exampleTree : HTree (List Bool) :=
  .fork (.same false 6) (.leaf (.long [false]) (u32 10)) (.leaf (.short [true]) (u32 11))

example : exampleTree.Valid 8 := by simp [exampleTree, HTree.Valid, Lbl.bits]

/-- test on literals: the example tree decodes to its meaning (keys 0 and 3) -/
example : unmarshalE u32Codec 8 (wrapE (exampleTree.toCell u32Pay 8)) = .ok [(i8 0, u32 10), (i8 3, u32 11)] := by
  decide

/-- a 32-bit extra (e.g. `uint32`) read as 32 bits satisfies `DecodesExtra` on 32-bit payloads -/
example : ∀ (y : List Bool) (rb : List Bool) (rr : List Cell), y.length = 32 →
    (fun (bits : List Bool) (refs : List Cell) =>
      if bits.length < 32 then (Outcome.err "not enough bits" : Outcome (List Bool × List Bool × List Cell))
      else .ok (bits.take 32, bits.drop 32, refs))
      (y ++ rb) ([] ++ rr) = .ok (y, rb, rr) := by
  intro y rb rr hy
  have h1 : ¬ ((y ++ rb).length < 32) := by simp; omega
  simp only [h1, if_false, List.nil_append]
  rw [List.drop_append_of_le_length (by omega), List.drop_of_length_le (by omega),
    List.take_append_of_le_length (by omega), List.take_of_length_le (by omega)]
  simp

/-- a proof of key 3 in `exampleTree`: the branch of key 0 is pruned; key 3 and every key leaving the tree above the
pruned branch are covered, key 0 is not -/
def examplePruned : PTree (List Bool) :=
  .fork (.same false 6) (.pruned 1 [] []) (.leaf (.short [true]) (u32 11))

example : PTree.Prunes examplePruned exampleTree := by
  unfold examplePruned exampleTree
  exact .fork _ (.pruned _ _ _ _) (.leaf _ _)

example : examplePruned.covers (i8 3) = true ∧ examplePruned.covers (i8 64) = true ∧
    examplePruned.covers (i8 0) = false := by decide

/-- test on literals: the pruned example decodes to the revealed pair only -/
example : unmarshalE u32Codec 8 (wrapE (examplePruned.toCell u32Pay 8)) = .ok [(i8 3, u32 11)] := by decide

/-- a canonical tree under key size 16: root hml_same (9 zero bits: 3 + 5 < 2 + 5 + 9), below it two leaves with
hml_long (6 mixed bits, length field k = 3 < 6) -/
def canonicalExample : HTree (List Bool) :=
  .fork (.same false 9) (.leaf (.long [true, false, true, true, false, true]) (u32 1))
    (.leaf (.long [false, true, true, false, false, true]) (u32 2))

example : canonicalExample.Valid 16 ∧ canonicalExample.Canonical 16 := by
  refine ⟨by simp [canonicalExample, HTree.Valid, Lbl.bits], ?_⟩
  simp only [canonicalExample, HTree.Canonical, Lbl.bits]
  decide

end Tongo.C05
