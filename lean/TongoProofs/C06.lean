import TongoModel.BitOps
/-! Property C06 — bit-string and cell read/write primitives behave like an ideal bit list. -/
namespace Tongo.C06
end Tongo.C06
