import TongoModel.BitOps
import TongoProofs.Lemmas.BitStringRound
import TongoProofs.Lemmas.MinBitsGen
import TongoProofs.Lemmas.GenTiesA
import TongoProofs.Lemmas.BitStringFift
import TongoProofs.Lemmas.BitStringCanon
import TongoProofs.Lemmas.BitStringTopUp
import TongoProofs.Lemmas.BitStringCell
import TongoProofs.Lemmas.BitStringZOps
import TongoProofs.Lemmas.CellSeqSim
import TongoProofs.Lemmas.CellSeqNoPanic2
import TongoProofs.Lemmas.BitStringFiftParse
import TongoGen.BitConsts
/-! Property C06 — bit-string and cell read/write primitives behave like an ideal bit list.
Property theorems only; helper lemmas live in `TongoProofs/Lemmas/BitString*.lean`.

The model (`TongoModel/BitString.lean`) is byte level: `{buf : List UInt8, cap len rCursor : Nat}`, Go's byte
arithmetic, explicit errors and panics, and describes the REPAIRED code (see known_findings.txt).
`abs s = (bytesToBits s.buf).take s.len` is the abstraction, `Inv` the representation invariant
(`len ≤ cap ≤ 8·|buf|`, `rCursor ≤ len`, all buffer bits from `len` on are zero), `nextBits s n` the next `n` unread
bits of `abs s`. `Op` is the vocabulary of operations, `Op.run` its meaning on the byte-level model (what the driver
executes and what is compared with the Go code on every run), `Op.spec` its meaning on an ideal bit list. -/
namespace Tongo.C06
open Tongo Tongo.Bits Tongo.BitString

/-! ## Construction and single-bit write -/

/-- `NewBitString(n)` is empty and satisfies the invariant. -/
theorem new_inv (n : Nat) : Inv (BitString.new n) ∧ abs (BitString.new n) = [] := ⟨inv_new n, abs_new n⟩

/-- A single-bit write that fits appends exactly that bit and keeps the invariant, capacity and cursor. -/
theorem writeBit_refines (v : Bool) (s : BitString) (hi : Inv s) (h : s.len < s.cap) :
    ∃ s', writeBit v s = (.ok (), s') ∧ abs s' = abs s ++ [v] ∧ Inv s' ∧ s'.cap = s.cap ∧ s'.rCursor = s.rCursor := by
  obtain ⟨s', a, b, c, d, e, _⟩ := writeBit_ok v s hi h
  exact ⟨s', a, b, c, d, e⟩

/-- Writing any list of bits: success iff it fits; on overflow the error is returned after the prefix that fits was
appended. In both cases the invariant holds, capacity and cursor are unchanged. -/
theorem writeBits_refines (l : List Bool) (s : BitString) (hi : Inv s) :
    ∃ s', writeBitArray l s = (if s.len + l.length ≤ s.cap then .ok () else .err errOverflow, s') ∧
      abs s' = abs s ++ l.take (s.cap - s.len) ∧ Inv s' ∧ s'.cap = s.cap ∧ s'.rCursor = s.rCursor :=
  writeBitArray_spec l s hi

/-- `write_overflow`: a write that does not fit returns an error and leaves the previously written bits intact
(`abs` restricted to the old length is the old `abs`), never exceeding the capacity. Every write method is such a
bit-list write (theorems `*_is_bits` below). -/
theorem write_overflow (l : List Bool) (s : BitString) (hi : Inv s) (h : s.cap < s.len + l.length) :
    ∃ s', writeBitArray l s = (.err errOverflow, s') ∧ (abs s').take s.len = abs s ∧ Inv s' ∧ s'.len ≤ s.cap := by
  obtain ⟨s', hw, ha, hi', hc, _⟩ := writeBitArray_spec l s hi
  have hnf : ¬ s.len + l.length ≤ s.cap := by omega
  simp only [hnf, if_false] at hw
  refine ⟨s', hw, ?_, hi', ?_⟩
  · rw [ha, List.take_append_of_le_length (by rw [hi.abs_length]), List.take_of_length_le (by rw [hi.abs_length])]
  · have := hi'.1; omega

/-! ## Every write method writes exactly the specified bits -/

/-- `WriteUint(v, n)` writes the `n` low bits of `v`, most significant first. -/
theorem writeUint_is_bits (v n : Nat) : writeUint v n = writeBitArray (natToBits n v) := writeUint_eq v n

/-- `WriteInt(v, n)` for 2 ≤ n ≤ 64 and representable `v` writes the two's complement encoding. -/
theorem writeInt_is_bits (v : Int) (n : Nat) (hn : 2 ≤ n) (h64 : n ≤ 64)
    (hlo : -(2 : Int) ^ (n - 1) ≤ v) (hhi : v < (2 : Int) ^ (n - 1)) :
    writeInt v n = writeBitArray (intToBits n v) := by
  rw [writeInt_eq v n hn, signbit_low_eq_intToBits v n (by omega) hlo hhi h64]

/-- `WriteInt` with width 1 writes the bit for −1 / 0. -/
theorem writeInt_one_is_bits : writeInt (-1) 1 = writeBit true ∧ writeInt 0 1 = writeBit false := by
  constructor <;> simp [writeInt]

/-- `WriteInt` (repaired) rejects width 0 and width-1 values other than 0 and −1, writing nothing. -/
theorem writeInt_rejects (v : Int) (n : Nat) (s : BitString) (h : n = 0 ∨ (n = 1 ∧ v ≠ 0 ∧ v ≠ -1)) :
    ∃ e, writeInt v n s = (.err e, s) := by
  rcases h with rfl | ⟨rfl, h0, h1⟩
  · exact ⟨"integer can't be zero size", by simp [writeInt]⟩
  · exact ⟨"bit length is too small", by simp [writeInt, h0, h1]⟩

/-- `WriteByte` / `WriteBytes` write the bytes bit by bit. -/
theorem writeBytes_is_bits (l : List UInt8) : writeBytes l = writeBitArray (bytesToBits l) := writeBytes_eq l

/-- `WriteBitString(src)` writes the bits of `src` (which must hold its bits: `len ≤ 8·|buf|`). -/
theorem writeBitString_is_bits (src : BitString) (h : src.len ≤ 8 * src.buf.length) :
    writeBitString src = writeBitArray (abs src) := writeBitString_eq src h

/-- `writeBitString_ignores_source_cursor`: `WriteBitString(bs)` receives the source BY VALUE and resets the copy's read
cursor (`bs.rCursor = 0`) before copying `bs.len` bits: a source of which some bits have already been read (or peeked,
or whose counter was reset) is appended in full, and the caller's source is not modified (the model is a function of the
source value; `Append` goes through `WriteBitString`). Removing the reset (audit-3 change B5) appends short / fails. -/
theorem writeBitString_ignores_source_cursor (src : BitString) (k : Nat) :
    writeBitString { src with rCursor := k } = writeBitString src ∧
    BitString.append { src with rCursor := k } = BitString.append src ∧
    (Op.writeBitString { src with rCursor := k }).spec = (Op.writeBitString src).spec := by
  have h : ∀ (i n : Nat), writeBitStringLoop { src with rCursor := k } i n = writeBitStringLoop src i n := by
    intro i n
    induction n generalizing i with
    | zero => rfl
    | succ n ih => simp only [writeBitStringLoop, ih]; rfl
  refine ⟨?_, ?_, rfl⟩
  · simp only [writeBitString, h]
  · simp only [BitString.append, writeBitString, h]

/-- `WriteBigUint(v, n)` for a non-negative `v` of at most `n ≥ 1` bits writes its `n` bits. -/
theorem writeBigUint_is_bits (v : Int) (n : Nat) (hv : 0 ≤ v) (hn : ¬ (n = 0 ∨ bigBitLen v > n)) :
    writeBigUint v n = writeBitArray (natToBits n v.toNat) := by
  simp only [writeBigUint, hn, if_false, writeBigBits_eq v n hv]

/-- `WriteBigInt(v, n)` for every width n ≥ 1 (1..257 and beyond) and representable `v` writes the two's complement
encoding. -/
theorem writeBigInt_is_bits (v : Int) (n : Nat) (hn : 1 ≤ n) (hlo : -(2 : Int) ^ (n - 1) ≤ v)
    (hhi : v < (2 : Int) ^ (n - 1)) : writeBigInt v n = writeBitArray (intToBits n v) :=
  writeBigInt_eq v n hn hlo hhi

/-- `WriteUnary(n)` writes `n` ones and a zero (both the `< 63` fast path and the loop). -/
theorem writeUnary_is_bits (n : Nat) : writeUnary n = writeBitArray (List.replicate n true ++ [false]) :=
  writeUnary_eq n

/-- `WriteUnary(n)` for every `uint` n that does not fit — 2^63 and beyond included — is the overflow error after the ones
that fit, with the previously written bits intact (repaired code: the loop counter is a `uint`). -/
theorem writeUnary_overflow (n : Nat) (s : BitString) (hi : Inv s) (h : s.cap < s.len + (n + 1)) :
    ∃ s', writeUnary n s = (.err errOverflow, s') ∧ (abs s').take s.len = abs s ∧ Inv s' ∧ s'.len ≤ s.cap := by
  rw [writeUnary_eq]
  exact write_overflow _ s hi (by simpa using h)

/-- Witness of the old behaviour (replayed on Go: corpus/C06/defects.ops): before the repair the loop bound `int(n)` was
negative for `n ≥ 2^63`, no one was written, and the call succeeded after writing a single 0 — the encoding of 0. -/
theorem writeUnaryOld_witness :
    (writeUnaryOld (2 ^ 63) (BitString.new 8)).1 = .ok () ∧
    abs (writeUnaryOld (2 ^ 63) (BitString.new 8)).2 = [false] := by
  decide +kernel

/-- `minBitsRequired_eq`: the de Bruijn multiplication and table lookup equals the bit length for every uint64. -/
theorem minBitsRequired_eq (v : Nat) (hv : v < 2 ^ 64) : minBitsRequired v = Ideal.bitLength v :=
  minBitsRequired_eq_bitLength v hv

/-- tie: the definition of `minBitsRequired` REGENERATED from boc/bitString.go on every run (translator X4, `BitVec 64`,
table `tab64` and multiplier included) computes the hand model — a change of the table, the multiplier or the shifts in
the Go source breaks this equation. -/
theorem gen_minBitsRequired (x : BitVec 64) : (Gen.MinBits.minBitsRequired x).toNat = minBitsRequired x.toNat :=
  gen_minBitsRequired_eq x

/-- hence the Go function, as regenerated, is the bit length for all 2^64 arguments -/
theorem gen_minBitsRequired_is_bitLength (x : BitVec 64) :
    (Gen.MinBits.minBitsRequired x).toNat = Ideal.bitLength x.toNat := by
  rw [gen_minBitsRequired_eq, minBitsRequired_eq_bitLength _ x.isLt]

/-- tie (X4, regenerated from boc/bitString.go): the width `ln := minBitsRequired(uint64(n))` read by `ReadLimUint(n)`,
as REGENERATED on every run, is the model's `minBitsRequired` (the width `readLimUint` passes to `readUint`). -/
theorem gen_readLimUintWidth (n : BitVec 64) :
    (Gen.MinBits.readLimUintWidth n).toNat = minBitsRequired n.toNat :=
  GenTies.gen_readLimUintWidth n

/-- tie (X4, regenerated from boc/bitString.go): the width written by `WriteLimUint(val, n)`, as REGENERATED on every
run, is the model's `minBitsRequired` (the width `writeLimUint` passes to `writeUint`). -/
theorem gen_writeLimUintWidth (n : BitVec 64) :
    (Gen.MinBits.writeLimUintWidth n).toNat = minBitsRequired n.toNat :=
  GenTies.gen_writeLimUintWidth n

/-- `WriteLimUint(v, n)` writes `v` on `bitlen n` bits. -/
theorem writeLimUint_is_bits (v n : Nat) (hn : n < 2 ^ 64) :
    writeLimUint v n = writeBitArray (natToBits (Ideal.bitLength n) v) := by
  rw [writeLimUint, writeUint_eq, minBitsRequired_eq_bitLength n hn]

/-! ## Reads -/

/-- The byte-aligned path of `ReadUint` in isolation: `copy(buf[8-l:], s.buf[c:c+l]); BigEndian.Uint64(buf)` — the
big-endian value of the `n/8` buffer bytes at byte `rCursor/8`, left-padded with zero bytes — is the value of the next
`n` bits (cursor and width multiples of 8). -/
theorem readUint_aligned (n : Nat) (s : BitString) (h : s.rCursor + n ≤ s.len) (hc : s.rCursor % 8 = 0)
    (hn : n % 8 = 0) :
    beNat (List.replicate (8 - n / 8) 0 ++ (s.buf.drop (s.rCursor / 8)).take (n / 8)) = bitsToNat (nextBits s n) :=
  readUint_aligned_value s n h hc hn

/-- The shifted 8-byte load of `ReadUint` in isolation: load up to 8 bytes from byte `rCursor/8` (zero padded when the
buffer ends earlier), `>> (64 − n − off) & (2^n − 1)` is the value of the next `n` bits whenever `off + n ≤ 64` — this
is why the guard `n < 57` (and also `n < 58`) is safe for every offset 0..7, and why `n < 59` (seed C06-1) is not. -/
theorem readUint_lt57 (n : Nat) (s : BitString) (hi : Inv s) (h : s.rCursor + n ≤ s.len)
    (hn : s.rCursor % 8 + n ≤ 64) :
    let b := (s.buf.drop (s.rCursor / 8)).take 8
    (beNat (b ++ List.replicate (8 - b.length) 0) >>> (64 - n - s.rCursor % 8)) &&& ((1 <<< n) - 1)
      = bitsToNat (nextBits s n) :=
  readUint_shift_value s n hi.len_le_buf h hn

/-- The bit loop of `ReadUint` in isolation (`for i := n−1 … 0 { if mustReadBit() { res |= 1 << i } }`, any width). -/
theorem readUint_loop (n : Nat) (s : BitString) (hi : Inv s) (h : s.rCursor + n ≤ s.len) :
    readUintLoop n 0 s = (.ok (bitsToNat (nextBits s n)), { s with rCursor := s.rCursor + n }) := by
  have := readUintLoop_ok n 0 s hi.len_le_buf h (by simp)
  simpa using this

/-- `readUint_refines`: for every cursor offset and every width 0..64, `ReadUint(n)` returns the big-endian value of
the next `n` bits and advances the cursor by `n` (all three code paths). -/
theorem readUint_refines (n : Nat) (s : BitString) (hi : Inv s) (hn : n ≤ 64) (h : s.rCursor + n ≤ s.len) :
    readUint n s = (.ok (bitsToNat (nextBits s n)), { s with rCursor := s.rCursor + n }) :=
  readUint_ok n s hi.len_le_buf hn h

/-- `ReadInt(n)`, 1 ≤ n ≤ 64: the two's complement value of the next `n` bits (64-bit wrap-around included). -/
theorem readInt_refines (n : Nat) (s : BitString) (hi : Inv s) (h1 : 1 ≤ n) (h64 : n ≤ 64) (h : s.rCursor + n ≤ s.len) :
    readInt n s = (.ok (bitsToInt (nextBits s n)), { s with rCursor := s.rCursor + n }) :=
  readInt_ok n s hi.len_le_buf h1 h64 h

/-- `ReadByte` (aligned index / 16-bit window) and `ReadBytes(k)` (sub-slice / byte loop). -/
theorem readBytes_refines (k : Nat) (s : BitString) (hi : Inv s) :
    (s.rCursor + 8 ≤ s.len →
      readByte s = (.ok (UInt8.ofNat (bitsToNat (nextBits s 8))), { s with rCursor := s.rCursor + 8 })) ∧
    (s.rCursor + k * 8 ≤ s.len →
      readBytes k s = (.ok (bitsToBytes (nextBits s (k * 8))), { s with rCursor := s.rCursor + k * 8 })) :=
  ⟨readByte_ok s hi.len_le_buf, readBytes_ok k s hi.len_le_buf⟩

/-- `ReadBits(n)` (repaired) on both paths returns a bit string of capacity and length `n` holding the next `n` bits
that itself satisfies the invariant (clean tail: it hashes like the same bits written one by one). -/
theorem readBits_refines (n : Nat) (s : BitString) (hi : Inv s) (h : s.rCursor + n ≤ s.len) :
    ∃ r, readBits n s = (.ok r, { s with rCursor := s.rCursor + n }) ∧ abs r = nextBits s n ∧ Inv r ∧
      r.cap = n ∧ r.len = n ∧ r.rCursor = 0 :=
  readBits_ok n s hi.len_le_buf h

/-- `ReadBigUint(n)` (repaired) and `ReadBigInt(n)` for every width, 1..257 included. -/
theorem bigint_refines (n : Nat) (s : BitString) (hi : Inv s) (h : s.rCursor + n ≤ s.len) :
    readBigUint n s = (.ok (bitsToNat (nextBits s n)), { s with rCursor := s.rCursor + n }) ∧
    readBigInt n s = (.ok (bitsToInt (nextBits s n)), { s with rCursor := s.rCursor + n }) :=
  ⟨readBigUint_ok n s hi.len_le_buf h, readBigInt_ok n s hi.len_le_buf h⟩

/-- `read_underflow`: every fixed-width reader asked for more bits than are left returns an error and leaves the state
(cursor included) unchanged. (`ReadUnary` running off the end also errs but has consumed the ones: see `ops_sequence`.) -/
theorem read_underflow (n : Nat) (s : BitString) (h : s.len < s.rCursor + n) :
    (n ≤ 64 → readUint n s = (.err errNotEnough, s)) ∧
    (1 ≤ n → n ≤ 64 → readInt n s = (.err errNotEnough, s)) ∧
    (n = 8 → readByte s = (.err errNotEnough, s)) ∧
    (∀ k, n = k * 8 → readBytes k s = (.err errNotEnough, s)) ∧
    readBits n s = (.err errNotEnough, s) ∧
    readBigUint n s = (.err errNotEnough, s) ∧
    readBigInt n s = (.err errNotEnough, s) :=
  ⟨fun hn => BitString.readUint_underflow n s hn h, fun h1 h64 => readInt_underflow n s h1 h64 h,
   fun h8 => readByte_underflow s (h8 ▸ h), fun k hk => readBytes_underflow k s (hk ▸ h),
   readBits_underflow n s h, readBigUint_underflow n s h, readBigInt_underflow n s h⟩

/-! ## Round trips -/

/-- `writeUint_readUint`: at every alignment, what `WriteUint(v, n)` wrote is what `ReadUint(n)` placed at the old
write position reads back (`v mod 2^n`). -/
theorem writeUint_readUint (v n : Nat) (s : BitString) (hi : Inv s) (hn : n ≤ 64) (hfit : s.len + n ≤ s.cap) :
    ∃ s', writeUint v n s = (.ok (), s') ∧ (readUint n { s' with rCursor := s.len }).1 = .ok (v % 2 ^ n) := by
  obtain ⟨s', hw, ha, hi', _, _⟩ := writeBitArray_spec (natToBits n v) s hi
  have hl : (natToBits n v).length = n := natToBits_length n v
  rw [hl] at hw
  simp only [hfit, if_true] at hw
  rw [List.take_of_length_le (by omega)] at ha
  refine ⟨s', by rw [writeUint_eq]; exact hw, ?_⟩
  have hlen' : s'.len = s.len + n := by have := hi'.abs_length; rw [ha, List.length_append, hi.abs_length, hl] at this; omega
  have hnb := nextBits_after_write s s' _ hi.abs_length ha
  rw [hl] at hnb
  rw [readUint_ok n { s' with rCursor := s.len } hi'.len_le_buf hn (by simp; omega), hnb, bitsToNat_natToBits]

/-- `writeInt_readInt`: for every width 1..64 and every representable value, at every alignment. -/
theorem writeInt_readInt (v : Int) (n : Nat) (s : BitString) (hi : Inv s) (h1 : 1 ≤ n) (h64 : n ≤ 64)
    (hlo : -(2 : Int) ^ (n - 1) ≤ v) (hhi : v < (2 : Int) ^ (n - 1)) (hfit : s.len + n ≤ s.cap) :
    ∃ s', writeInt v n s = (.ok (), s') ∧ (readInt n { s' with rCursor := s.len }).1 = .ok v := by
  have hwb : writeInt v n = writeBitArray (intToBits n v) := by
    by_cases hn1 : n = 1
    · subst hn1
      have hv : v = -1 ∨ v = 0 := by simp at hlo hhi; omega
      rcases hv with rfl | rfl
      · have : intToBits 1 (-1) = [true] := by decide
        rw [this, writeBitArray_single]; simp [writeInt]
      · have : intToBits 1 0 = [false] := by decide
        rw [this, writeBitArray_single]; simp [writeInt]
    · exact writeInt_is_bits v n (by omega) h64 hlo hhi
  obtain ⟨s', hw, ha, hi', _, _⟩ := writeBitArray_spec (intToBits n v) s hi
  have hl : (intToBits n v).length = n := by simp [intToBits]
  rw [hl] at hw
  simp only [hfit, if_true] at hw
  rw [List.take_of_length_le (by omega)] at ha
  refine ⟨s', by rw [hwb]; exact hw, ?_⟩
  have hlen' : s'.len = s.len + n := by have := hi'.abs_length; rw [ha, List.length_append, hi.abs_length, hl] at this; omega
  have hnb := nextBits_after_write s s' _ hi.abs_length ha
  rw [hl] at hnb
  rw [readInt_ok n { s' with rCursor := s.len } hi'.len_le_buf h1 h64 (by simp; omega), hnb,
    bitsToInt_intToBits n v h1 hlo hhi]

/-- `bigint_roundtrip`: `WriteBigInt` then `ReadBigInt` for every width n ≥ 1 (1..257 included) and representable `v`. -/
theorem bigint_roundtrip (v : Int) (n : Nat) (s : BitString) (hi : Inv s) (h1 : 1 ≤ n)
    (hlo : -(2 : Int) ^ (n - 1) ≤ v) (hhi : v < (2 : Int) ^ (n - 1)) (hfit : s.len + n ≤ s.cap) :
    ∃ s', writeBigInt v n s = (.ok (), s') ∧ (readBigInt n { s' with rCursor := s.len }).1 = .ok v := by
  obtain ⟨s', hw, ha, hi', _, _⟩ := writeBitArray_spec (intToBits n v) s hi
  have hl : (intToBits n v).length = n := by simp [intToBits]
  rw [hl] at hw
  simp only [hfit, if_true] at hw
  rw [List.take_of_length_le (by omega)] at ha
  refine ⟨s', by rw [writeBigInt_eq v n h1 hlo hhi]; exact hw, ?_⟩
  have hlen' : s'.len = s.len + n := by have := hi'.abs_length; rw [ha, List.length_append, hi.abs_length, hl] at this; omega
  have hnb := nextBits_after_write s s' _ hi.abs_length ha
  rw [hl] at hnb
  rw [readBigInt_ok n { s' with rCursor := s.len } hi'.len_le_buf (by simp; omega), hnb,
    bitsToInt_intToBits n v h1 hlo hhi]

/-- `biguint_roundtrip`: `WriteBigUint` then `ReadBigUint`, every width n ≥ 1, every `0 ≤ v < 2^n`. -/
theorem biguint_roundtrip (v n : Nat) (s : BitString) (hi : Inv s) (h1 : 1 ≤ n) (hv : v < 2 ^ n)
    (hfit : s.len + n ≤ s.cap) :
    ∃ s', writeBigUint (v : Int) n s = (.ok (), s') ∧ (readBigUint n { s' with rCursor := s.len }).1 = .ok v := by
  obtain ⟨s', hw, ha, hi', _, _⟩ := writeBitArray_spec (natToBits n v) s hi
  have hl : (natToBits n v).length = n := natToBits_length n v
  rw [hl] at hw
  simp only [hfit, if_true] at hw
  rw [List.take_of_length_le (by omega)] at ha
  have hbl : ¬ (n = 0 ∨ bigBitLen (v : Int) > n) := by
    have := bigBitLen_le (v : Int) n (by omega) (by exact_mod_cast hv)
    omega
  refine ⟨s', by rw [writeBigUint_is_bits (v : Int) n (by omega) hbl]; exact hw, ?_⟩
  have hlen' : s'.len = s.len + n := by have := hi'.abs_length; rw [ha, List.length_append, hi.abs_length, hl] at this; omega
  have hnb := nextBits_after_write s s' _ hi.abs_length ha
  rw [hl] at hnb
  rw [readBigUint_ok n { s' with rCursor := s.len } hi'.len_le_buf (by simp; omega), hnb, bitsToNat_natToBits,
    Nat.mod_eq_of_lt hv]

/-! ## The lifted statement: operation sequences -/

/-- `op_refines`: each of the 28 operations (all write methods, all read/peek/skip methods, reset, grow, append, copy),
started in related states, returns the same outcome as its specification on the ideal bit list — value, error
(overflow, underflow, bad width) or "no panic" — and leaves related states. -/
theorem op_refines (op : Op) (hwf : op.WF) (s : BitString) (t : Ideal) (hR : R s t) :
    normO (op.run s).1 = (op.spec t).1 ∧ R (op.run s).2 (op.spec t).2 :=
  Tongo.op_refines op hwf s t hR

/-- `ops_sequence` — the property as stated: for every capacity and every list of well-formed operations, running the
byte-level implementation model from `NewBitString cap` and the specification from the empty ideal bit list gives the
same list of outcomes (returned bit strings compared by their bits), and the final states are related (same bits, same
capacity, same cursor, invariant). In particular no operation panics. -/
theorem ops_sequence (cap : Nat) (ops : List Op) (hwf : ∀ op ∈ ops, op.WF) :
    (Op.runAll ops (BitString.new cap)).1.map normO = (Op.specAll ops ⟨[], cap, 0⟩).1 ∧
    R (Op.runAll ops (BitString.new cap)).2 (Op.specAll ops ⟨[], cap, 0⟩).2 :=
  runAll_refines ops (BitString.new cap) ⟨[], cap, 0⟩ hwf ⟨inv_new cap, abs_new cap, rfl, rfl⟩

/-- `inv_all_ops`: every well-formed operation preserves the invariant (clean tail included). -/
theorem inv_all_ops (op : Op) (hwf : op.WF) (s : BitString) (hi : Inv s) : Inv (op.run s).2 :=
  (Tongo.op_refines op hwf s ⟨abs s, s.cap, s.rCursor⟩ ⟨hi, rfl, rfl, rfl⟩).2.1

/-- the specification never panics, hence neither does any well-formed operation on a state satisfying the invariant -/
theorem no_panic (op : Op) (hwf : op.WF) (s : BitString) (hi : Inv s) : ∀ p, (op.run s).1 ≠ .panic p := by
  intro p hp
  have h := (Tongo.op_refines op hwf s ⟨abs s, s.cap, s.rCursor⟩ ⟨hi, rfl, rfl, rfl⟩).1
  rw [hp] at h
  exact spec_ne_panic op _ p h.symm

/-- `canonical_buffer`: under the invariant the first ⌈len/8⌉ buffer bytes are exactly the packing of the written bits
with zero padding — the bytes `Buffer()` / `bocReprWithoutRefs` expose and the cell hash consumes depend only on the
abstract bits. Together with `inv_all_ops` and `readBits_refines`: equal bits ⇒ equal data bytes. -/
theorem canonical_buffer (s : BitString) (hi : Inv s) : s.buf.take ((s.len + 7) / 8) = bitsToBytes (abs s) :=
  buf_take_eq_bitsToBytes s hi

/-! ## Go `int` arguments of any sign, and the direct bit primitives -/

/-- `zop_refines`: the vocabulary with Go `int` parameters as integers. A negative count is an error for `Skip`, every
reader, `WriteInt` and `WriteBigUint` (state untouched); `WriteUint` with a negative width writes nothing; `WriteBigInt`
with width ≤ 0 writes its sign bit (if it fits) and fails; `WriteLimUint`/`ReadLimUint` see the uint64 image. Nothing is
assumed about the sign of an `int` argument (`ZOp.WF` only keeps the uint64/int64 value ranges and representability). -/
theorem zop_refines (z : ZOp) (hwf : z.WF) (s : BitString) (t : Ideal) (hR : R s t) :
    normO (z.run s).1 = (z.spec t).1 ∧ R (z.run s).2 (z.spec t).2 :=
  Tongo.zop_refines z hwf s t hR

/-- `zops_sequence`: `ops_sequence` for operation lists whose `int` arguments may be negative. -/
theorem zops_sequence (cap : Nat) (ops : List ZOp) (hwf : ∀ z ∈ ops, z.WF) :
    (ZOp.runAll ops (BitString.new cap)).1.map normO = (ZOp.specAll ops ⟨[], cap, 0⟩).1 ∧
    R (ZOp.runAll ops (BitString.new cap)).2 (ZOp.specAll ops ⟨[], cap, 0⟩).2 :=
  zrunAll_refines ops (BitString.new cap) ⟨[], cap, 0⟩ hwf ⟨inv_new cap, abs_new cap, rfl, rfl⟩

/-- a negative `Skip` or read is an error that leaves the state (cursor included) unchanged — a read never moves the
cursor backwards or invents data (before the repair `Skip(-1)` at cursor 0 made the next `ReadBit` return bit 7 of the
first byte or panic: corpus/C06/defects.ops) -/
theorem negative_read_errs (n : Int) (hn : n < 0) (s : BitString) :
    (ZOp.skip n).run s = (.err errNegative, s) ∧ (ZOp.readUint n).run s = (.err errNegative, s) ∧
    (ZOp.readInt n).run s = (.err errNegative, s) ∧ (ZOp.readBytes n).run s = (.err errNegative, s) ∧
    (ZOp.readBits n).run s = (.err errNegative, s) ∧ (ZOp.readBigUint n).run s = (.err errNegative, s) ∧
    (ZOp.readBigInt n).run s = (.err errNegative, s) ∧ (ZOp.pickUint n).run s = (.err errNegative, s) := by
  simp only [ZOp.run, hn, if_true, ZOp.failNeg, unitOut_run, throwErr_run, and_self]

/-- `onOff_refines`: `On(n)` / `Off(n)` with `n < 0` or `n ≥ cap` return the overflow error and change nothing; for a
position inside the written data they set / clear exactly that bit (invariant kept). -/
theorem onOff_refines (v : Bool) (n : Int) (s : BitString) (t : Ideal) (hR : R s t) :
    ((n < 0 ∨ n.toNat ≥ s.cap) → ZOp.onOff v n s = (.err errOverflow, s)) ∧
    (0 ≤ n → n.toNat < s.len →
      ∃ s', ZOp.onOff v n s = (.ok .unit, s') ∧ R s' { t with bits := t.bits.set n.toNat v }) :=
  onOff_refines' v n s t hR

/-- Limit (witness): `On` at a position between the written length and the capacity is accepted and dirties the buffer
tail — the invariant (hence the canonical buffer the cell hash relies on) is lost. Callers must not do that; none in
tongo does (`On`/`Off` are only used by `WriteBit` at position `len` and by `SetTopUppedArray`). -/
theorem on_beyond_len_witness :
    let s := (writeUint 0xAB 8 (BitString.new 16)).2
    Inv s ∧ (ZOp.onOff true 12 s).1 = .ok .unit ∧ ¬ Inv (ZOp.onOff true 12 s).2 := by decide +kernel

/-! ## Topped-up arrays and parsed cells -/

/-- `GetTopUppedArray()` returns the canonical topped-up bytes of the written bits (data, then the completion tag
`1 0…0` up to a byte boundary, nothing when aligned) whenever the tag fits into the capacity. -/
theorem getTopUppedArray_spec (s : BitString) (hi : Inv s) (hroom : (s.len + 7) / 8 * 8 ≤ s.cap) :
    getTopUppedArray s = .ok (toppedUp (abs s)) := getTopUppedArray_eq s hi hroom

/-- `SetTopUppedArray` inverts it: from the canonical topped-up bytes of `l` it recovers exactly `l`. -/
theorem setTopUppedArray_spec (l : List Bool) (s0 : BitString) :
    ∃ s', BitString.setTopUppedArray (toppedUp l) (l.length % 8 == 0) s0 = (.ok (), s') ∧ s'.len = l.length ∧
      (bytesToBits s'.buf).take s'.len = l := by
  obtain ⟨s', hs, hl, _, _, _, hb⟩ := setTopUppedArray_toppedUp l s0
  exact ⟨s', hs, hl, by rw [hb, hl, List.take_append_of_le_length (Nat.le_refl _), List.take_length]⟩

/-- `parsed_cell_inv` (the repair of defect 8 in general): the repaired `Cell.setTopUppedArray` applied to the canonical
data bytes of any ≤ 1023 bits succeeds, recovers the bits and establishes the invariant with capacity 1023 — hence by
`no_panic` / `ops_sequence` every operation on a parsed cell behaves like on the ideal bit list. -/
theorem parsed_cell_inv (l : List Bool) (hl : l.length ≤ 1023) :
    (MCell.setTopUppedArray (toppedUp l) (l.length % 8 == 0)).1 = .ok () ∧
    abs (MCell.setTopUppedArray (toppedUp l) (l.length % 8 == 0)).2 = l ∧
    Inv (MCell.setTopUppedArray (toppedUp l) (l.length % 8 == 0)).2 ∧
    (MCell.setTopUppedArray (toppedUp l) (l.length % 8 == 0)).2.cap = 1023 :=
  MCell.setTopUppedArray_inv l hl

/-- `SetTopUppedArray(arr, false)` in general (not only canonical arrays): if the bits of `arr` are `l` followed by the
tag `1` and at most six zeros, the result holds exactly `l`. -/
theorem setTopUppedArray_tagged_spec (arr : List UInt8) (l : List Bool) (j : Nat) (hj : j ≤ 6)
    (hb : bytesToBits arr = l ++ true :: List.replicate j false) (s0 : BitString) :
    ∃ s', BitString.setTopUppedArray arr false s0 = (.ok (), s') ∧ s'.len = l.length ∧
      (bytesToBits s'.buf).take s'.len = l :=
  setTopUppedArray_tagged arr l j hj hb s0

/-- the error path: a non-empty array whose last seven bits are all zero carries no completion tag and is rejected. -/
theorem setTopUppedArray_rejects (arr : List UInt8) (s0 : BitString) (hne : arr ≠ [])
    (hz : ∀ i, i < 7 → (bytesToBits arr)[8 * arr.length - 1 - i]? = some false) :
    ∃ s', BitString.setTopUppedArray arr false s0 = (.err "incorrect topUppedArray", s') :=
  setTopUppedArray_no_tag arr s0 hne hz

/-! ## Fift hex -/

/-- `fifthex_parse_spec`: `BitStringFromFiftHex` accepts exactly the language of `fiftParse` — hex digits of either case,
optionally followed by one digit of the completion table (4 C c 2 6 A a E e 1 3 5 7 9 B b D d F f) and `_` — and
returns exactly the bits that text denotes, in a bit string of that capacity satisfying the invariant; every other text
(a non-hex character anywhere, `_` not at the end, a lone `_`, `8_`, `0_`, …) is rejected with an error. (Texts are
lists of characters each standing for one byte; since the repair non-ASCII input is iterated byte-wise and rejected.) -/
theorem fifthex_parse_spec (txt : List Char) :
    (∀ l, fiftParse txt = some l → ∃ s', fromFiftHex txt = .ok s' ∧ abs s' = l ∧ Inv s' ∧ s'.cap = l.length) ∧
    (fiftParse txt = none → ∃ e, fromFiftHex txt = .err e) :=
  fromFiftHex_spec txt

/-- tests on literals: lower case, completion digits, and malformed texts -/
example : fiftParse "a5c_".toList = some [true, false, true, false, false, true, false, true, true] ∧
    fiftParse "A5C_".toList = fiftParse "a5c_".toList ∧ fiftParse "".toList = some [] ∧
    fiftParse "8_".toList = none ∧ fiftParse "_".toList = none ∧ fiftParse "A_5".toList = none ∧
    fiftParse "0g".toList = none ∧ fiftParse "4__".toList = none := by decide +kernel

/-- `ToFiftHex` returns the Fift hex text of the written bits: one upper-case hex digit per four bits; when the length is
not a multiple of four, the last group is completed by `1 0…` and the text ends with `_`. It never panics or fails on a
state satisfying the invariant (it pads a grown copy). -/
theorem toFiftHex_spec (s : BitString) (hi : Inv s) : toFiftHex s = .ok (fiftSpec (abs s)) := toFiftHex_eq s hi

/-- `fifthex_roundtrip`: for every bit string (every length, 0..1023 included, every content),
`BitStringFromFiftHex (ToFiftHex s)` succeeds and yields the same bits (in a bit string of exactly that capacity
satisfying the invariant). -/
theorem fifthex_roundtrip (s : BitString) (hi : Inv s) :
    ∃ txt s', toFiftHex s = .ok txt ∧ fromFiftHex txt = .ok s' ∧ abs s' = abs s ∧ Inv s' ∧ s'.cap = s.len := by
  obtain ⟨s', h1, h2, h3, h4⟩ := fromFiftHex_fiftSpec (abs s)
  exact ⟨_, s', toFiftHex_eq s hi, h1, h2, h3, by rw [h4, hi.abs_length]⟩

/-- Non-vacuity (test on a literal): 5 bits 10110 print as `B4_` and parse back. -/
example : let s := (writeBitArray [true, false, true, true, false] (BitString.new 9)).2
    Inv s ∧ toFiftHex s = .ok ['B', '4', '_'] ∧
    (match fromFiftHex ['B', '4', '_'] with | .ok r => abs r | _ => []) = [true, false, true, true, false] := by
  decide +kernel

/-! ## References of a cell -/

/-- `ref_overflow`: `AddRef` succeeds while fewer than four references are set and fails on the fifth, leaving the cell
unchanged; `NextRef` beyond the last reference is an error. -/
theorem ref_overflow (c r : MCell) :
    (c.refs.length < 4 → (c.addRef r).1.isOk = true ∧ (c.addRef r).2.refs = c.refs ++ [r]) ∧
    (4 ≤ c.refs.length → (c.addRef r).1.isErr = true ∧ (c.addRef r).2.refs = c.refs) ∧
    (c.refs.length ≤ c.refCursor → (c.nextRef).1.isErr = true) := by
  cases c with
  | mk b rs k =>
    simp only [MCell.refs, MCell.refCursor]
    refine ⟨?_, ?_, ?_⟩
    · intro h; simp [MCell.addRef, MCell.refs, MCell.refCursor, MCell.bits, h, Outcome.isOk]
    · intro h
      have : ¬ rs.length < 4 := by omega
      simp [MCell.addRef, MCell.refs, this, Outcome.isErr]
    · intro h
      simp only [MCell.nextRef, MCell.refs, MCell.refCursor, List.getElem?_eq_none h]
      by_cases hk : k > 3 <;> simp [hk, Outcome.isErr]

/-- `copyRemaining_spec`: `CopyRemaining` of a cell (≤ 4 references, reference cursor within them, data satisfying the
invariant, unread bits fitting a cell) returns a new cell holding exactly the unread bits (from the bit cursor on, at
every alignment; clean tail) and exactly the unread references (from the reference cursor on, in order, each with its
counters reset as `NextRef` does), with both cursors of the copy at 0. The source keeps its bits, bit cursor and
reference cursor; its references are the same cells (the unread ones had their counters reset, being shared). -/
theorem copyRemaining_spec (c : MCell) (hi : Inv c.bits) (hfit : c.bits.len - c.bits.rCursor ≤ MCell.cellBits)
    (h4 : c.refs.length ≤ 4) (hk : c.refCursor ≤ c.refs.length) :
    ∃ b, (c.copyRemaining).1 = .ok (MCell.mk b ((c.refs.drop c.refCursor).map MCell.resetCounters) 0) ∧
      abs b = (abs c.bits).drop c.bits.rCursor ∧ Inv b ∧ b.rCursor = 0 ∧
      (c.copyRemaining).2 =
        MCell.mk c.bits (c.refs.take c.refCursor ++ (c.refs.drop c.refCursor).map MCell.resetCounters) c.refCursor :=
  MCell.copyRemaining_ok c hi hfit h4 hk

/-- `ResetCounters` then `CopyRemaining` copies everything: all bits and all references. -/
theorem copyRemaining_after_reset (c : MCell) (hi : Inv c.bits) (hfit : c.bits.len ≤ MCell.cellBits)
    (h4 : c.refs.length ≤ 4) :
    ∃ b, (c.resetCounters.copyRemaining).1 = .ok (MCell.mk b (c.refs.map MCell.resetCounters) 0) ∧ abs b = abs c.bits := by
  cases c with
  | mk b0 rs k =>
    have hi' : Inv (MCell.resetCounters (MCell.mk b0 rs k)).bits := by
      obtain ⟨a1, a2, _, a4⟩ := hi
      exact ⟨a1, a2, Nat.zero_le _, a4⟩
    obtain ⟨b, h1, h2, _⟩ := MCell.copyRemaining_ok (MCell.resetCounters (MCell.mk b0 rs k)) hi'
      (by simpa [MCell.resetCounters, MCell.bits] using hfit) (by simpa [MCell.resetCounters, MCell.refs] using h4)
      (by simp [MCell.resetCounters, MCell.refCursor])
    exact ⟨b, by simpa [MCell.resetCounters, MCell.refs, MCell.refCursor] using h1,
      by simpa [MCell.resetCounters, MCell.bits, abs_cursor] using h2⟩

/-- Non-vacuity and the seeded mistake (test on literals): three references, one consumed by `NextRef`, two bits
skipped — the copy holds the last two references (not the first two) and the unread bits. -/
example :
    let child (n : Nat) := MCell.mk (writeUint n 4 (BitString.new 1023)).2 [] 0
    let c := MCell.mk { (writeUint 0b10110 5 (BitString.new 1023)).2 with rCursor := 2 } [child 1, child 2, child 3] 1
    (match c.copyRemaining.1 with
      | .ok c2 => (abs c2.bits, c2.refs.map (fun r => abs r.bits), c2.refCursor)
      | _ => ([], [], 9)) =
      ([true, true, false], [natToBits 4 2, natToBits 4 3], 0) ∧ c.copyRemaining.2.refCursor = 1 := by
  decide +kernel

/-! ## Cell-level operation sequences over a heap of cells (aliasing explicit) -/

open CellSeq in
/-- `cell_ops_sequence` — the lifted statement at cell level. Cells live in a heap and reference each other by index
(so sharing, self-reference and the pointer semantics of `AddRef`/`NextRef`/`CopyRemaining` are explicit). For every
list of (target cell, operation) pairs — every bit-string method through the `Cell` wrappers with `int` arguments of
any sign, `NewCell`, `AddRef`, `NewRef`, `NextRef`, `ResetCounters`, `CopyRemaining`, `RefsSize`,
`RefsAvailableForRead`, `BitsAvailableForRead/Write` — started from `NewCell()`, the model of the Go code (byte-level
bit strings) and the ideal specification (bit list + cursor, reference list + cursor per cell) produce the same list of
outcomes (values, errors and panics alike), and afterwards every cell's data satisfies the invariant and abstracts to
the ideal cell's bits with the same references and cursors. -/
theorem cell_ops_sequence (ops : List (Nat × CellOp)) (hwf : ∀ p ∈ ops, p.2.WF) :
    (runAll implI ops initImpl).1.map normO = (runAll specI ops initSpec).1 ∧
    HeapRel R (runAll implI ops initImpl).2 (runAll specI ops initSpec).2 :=
  runAll_sim sim_impl_spec ops init_rel hwf

open CellSeq in
/-- `cell_no_panic`: with the operations a `Cell` offers (no `Grow`/`Append`), no operation of any sequence started from
`NewCell()` panics — neither in the ideal specification nor in the model of the Go code: every bit-string method stays
inside its buffer, `NewCellWithBits` inside `CopyRemaining` always gets ≤ 1023 bits, and the two `panic(err)` calls in
its reference loop are unreachable, also with shared and self-referencing cells. -/
theorem cell_no_panic (ops : List (Nat × CellOp)) (hwf : ∀ p ∈ ops, p.2.WF)
    (hng : ∀ q ∈ ops, CellOp.noGrow q.2 = true) :
    (∀ r ∈ (runAll specI ops initSpec).1, ∀ p, r ≠ .panic p) ∧
    (∀ r ∈ (runAll implI ops initImpl).1, ∀ p, r ≠ .panic p) := by
  have hspec := spec_runAll_no_panic ops init_spec_ok.1 init_spec_ok.2 hng
  refine ⟨hspec, ?_⟩
  intro r hr p hp
  subst hp
  have heq := (runAll_sim sim_impl_spec ops init_rel hwf).1
  have hm : normO (.panic p) ∈ (runAll implI ops initImpl).1.map normO := List.mem_map_of_mem hr
  rw [heq] at hm
  exact hspec _ hm p rfl

open CellSeq in
/-- one cell-level step from related heaps (any heap, not only reachable ones) -/
theorem cell_step_refines {h : List (GCell BitString)} {g : List (GCell Ideal)} (hr : HeapRel R h g) (t : Nat)
    (op : CellOp) (hwf : op.WF) :
    normO (step implI h t op).1 = (step specI g t op).1 ∧ HeapRel R (step implI h t op).2 (step specI g t op).2 :=
  step_sim sim_impl_spec hr t op hwf

open CellSeq in
/-- the fifth `AddRef` is an error and changes nothing; `NextRef` at or beyond the last reference is an error and
changes nothing (for either representation of the bits) -/
theorem cell_ref_limits {β : Type} (I : BitsI β) (h : List (GCell β)) (t : Nat) (c : GCell β) (hc : h[t]? = some c) :
    (∀ child, child < h.length → 4 ≤ c.refs.length → step I h t (.addRef child) = (.err errTooManyRefs, h)) ∧
    (c.refs.length ≤ c.refCursor → step I h t .nextRef = (.err errNotEnoughRefs, h)) := by
  constructor
  · intro child hch h4
    have h1 : ¬ child ≥ h.length := by omega
    have h2 : ¬ c.refs.length < 4 := by omega
    simp only [step, addRefH, hc, h1, h2, if_false]
  · intro hk
    simp only [step, nextRefH, hc, List.getElem?_eq_none hk]
    by_cases h3 : c.refCursor > 3 <;> simp [h3]

open CellSeq in
/-- `NextRef` returns the referenced cell and resets THE CHILD's counters in the heap (`ref.ResetCounters()`): after the
call the returned cell has reference cursor 0 and reset bits — also when the child is shared, and also when it is the
target itself (then the target's own cursor is 0 again, not advanced). -/
theorem cell_nextRef_resets_child {β : Type} (I : BitsI β) (h : List (GCell β)) (t id : Nat) (c : GCell β)
    (hc : h[t]? = some c) (h3 : c.refCursor ≤ 3) (hid : c.refs[c.refCursor]? = some id) :
    ∃ h', step I h t .nextRef = (.ok (.nat id), h') ∧
      ∀ ch, h'[id]? = some ch → ch.refCursor = 0 ∧ ∃ b, ch.bits = I.reset b := by
  have h3' : ¬ c.refCursor > 3 := by omega
  simp only [step, nextRefH, hc, h3', if_false, hid]
  cases hch : (h.set t { c with refCursor := c.refCursor + 1 })[id]? with
  | none =>
    refine ⟨_, rfl, ?_⟩
    intro ch hch'
    rw [hch] at hch'
    cases hch'
  | some ch0 =>
    refine ⟨_, rfl, ?_⟩
    intro ch hch'
    have hlt : id < (h.set t { c with refCursor := c.refCursor + 1 }).length :=
      (List.getElem?_eq_some_iff.mp hch).1
    simp only [List.getElem?_set, hlt, if_true] at hch'
    cases hch'
    exact ⟨rfl, _, rfl⟩

/-! ## Constants regenerated from the Go source (translator `BitConsts`) -/

/-- tie: `CellBits`, the width limits and the byte-offset masks found in the current Go source are the ones the model is
built on. The two fast-path limits are stated as the semantic bounds that make the fast paths correct — the shifted
8-byte load of `ReadUint` needs `(limit − 1) + 7 ≤ 64`, the `WriteUint` path of `WriteUnary` needs `limit − 1 ≤ 64` —
so a harmless change (`< 58`) passes and a harmful one (`< 59`, seeded defect C06-1) breaks this obligation. -/
theorem gen_bit_constants :
    Gen.BitConsts.cellBits = MCell.cellBits ∧ Gen.BitConsts.cellBits = CellSeq.cellBits ∧
    Gen.BitConsts.readUintMaxBits = 64 ∧ Gen.BitConsts.readIntMaxBits = 64 ∧
    Gen.BitConsts.readUintShiftLimit - 1 + 7 ≤ 64 ∧ Gen.BitConsts.writeUnaryFastLimit - 1 ≤ 64 ∧
    Gen.BitConsts.binaryMasks.all (· == 7) = true := by decide

/-- tie: every entry of the Go table `suffixToBits` is an entry of the model's table with the same bits … -/
theorem gen_suffixToBits_sound :
    Gen.BitConsts.suffixToBits.all (fun kv =>
      match kv.1.toList with
      | [c, '_'] => suffixToBits c == Bits.ofBinString? kv.2 && (suffixToBits c).isSome
      | _ => false) = true := by decide +kernel

/-- … and the model's table has no entry the Go table lacks. -/
theorem gen_suffixToBits_complete (c : Char) (e : List Bool) (h : suffixToBits c = some e) :
    (String.ofList [c, '_'], Bits.toBinString e) ∈ Gen.BitConsts.suffixToBits := by
  unfold suffixToBits at h
  split at h <;> first | (cases h; decide +kernel) | cases h

/-! ## Witnesses of the repaired defects (each replayed on the Go code: corpus/C06/defects.ops) -/

/-- Before the repair `ReadBigUint` dropped the leading partial byte: −3 written on 7 bits (1111101) read back as 0
unsigned, i.e. `ReadBigInt(7)` gave −64. The repaired reader returns 61 = 0b111101 for the same 6 bits. -/
theorem readBigUintOld_witness :
    let s := { (writeBigInt (-3) 7 (BitString.new 7)).2 with rCursor := 1 }
    (readBigUintOld 6 s).1 = .ok 0 ∧ (readBigUint 6 s).1 = .ok 61 := by decide +kernel

/-- Before the repair the byte-aligned path of `ReadBits` returned a bit string violating the invariant (dirty tail). -/
theorem readBitsOld_witness :
    let s := (writeBytes [0xFF] (BitString.new 8)).2
    (∀ r, (readBitsOld 5 s).1 = .ok r → ¬ Inv r) ∧ (∀ r, (readBits 5 s).1 = .ok r → r.buf = [0xF8]) := by
  refine ⟨?_, ?_⟩
  · intro r hr
    have : (readBitsOld 5 (writeBytes [0xFF] (BitString.new 8)).2).1
        = .ok { buf := [0xFF], cap := 5, len := 5, rCursor := 0 } := by decide +kernel
    rw [this] at hr
    cases hr
    decide +kernel
  · intro r hr
    have : (readBits 5 (writeBytes [0xFF] (BitString.new 8)).2).1
        = .ok { buf := [0xF8], cap := 5, len := 5, rCursor := 0 } := by decide +kernel
    rw [this] at hr
    cases hr
    rfl

/-- Before the repair a parsed cell had capacity 1023 over a one-byte buffer: the invariant fails and an in-capacity
`WriteUint(0xCD, 8)` panics; after the repair the same write succeeds. -/
theorem setTopUppedArrayOld_witness :
    ¬ Inv (MCell.setTopUppedArrayOld [0xAA] true).2 ∧
    (writeUint 0xCD 8 (MCell.setTopUppedArrayOld [0xAA] true).2).1 = .panic panicIndex ∧
    Inv (MCell.setTopUppedArray [0xAA] true).2 ∧
    (writeUint 0xCD 8 (MCell.setTopUppedArray [0xAA] true).2).1 = .ok () := by decide +kernel

/-- Before the repair `WriteInt(0, 0)` wrote one bit without error (while `ReadInt(0)` is an error), `WriteInt(−1, 0)`
panicked, and `WriteInt(5, 1)` returned success without writing. -/
theorem writeIntOld_witness :
    (writeIntOld 0 0 (BitString.new 8)).1 = .ok () ∧ (writeIntOld 0 0 (BitString.new 8)).2.len = 1 ∧
    (writeIntOld (-1) 0 (BitString.new 8)).1 = .panic "negative shift amount" ∧
    (writeIntOld 5 1 (BitString.new 8)) = (.ok (), BitString.new 8) ∧
    (readInt 0 (BitString.new 8)).1 = .err "integer can't be zero size" := by decide +kernel

/-! ## Non-vacuity (tests on literals, not proofs of the property) -/

/-- a reachable state satisfying the hypotheses of the read theorems -/
example : let s := (writeUint 0x2ABCD 18 (BitString.new 20)).2
    Inv s ∧ s.rCursor + 18 ≤ s.len ∧ (readUint 18 s).1 = .ok 0x2ABCD := by decide +kernel

/-- a well-formed operation list exercising errors: overflow, underflow, width 0 -/
example : (∀ op ∈ [Op.writeUint 5 3, .writeInt (-2) 4, .readUint 9, .writeBytes [1, 2], .readInt 0, .readBits 3], op.WF) ∧
    (Op.specAll [Op.writeUint 5 3, .writeInt (-2) 4, .readUint 9, .writeBytes [1, 2], .readInt 0, .readBits 3]
      ⟨[], 20, 0⟩).1.map Outcome.tag = ["ok", "ok", "err", "err", "err", "ok"] := by decide +kernel

end Tongo.C06
