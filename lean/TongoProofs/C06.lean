import TongoModel.BitOps
import TongoProofs.Lemmas.BitStringUint
/-! Property C06 — bit-string and cell read/write primitives behave like an ideal bit list.
Property theorems only; helper lemmas live in `TongoProofs/Lemmas/BitString*.lean`.

`abs s = (bytesToBits s.buf).take s.len` is the abstraction, `Inv` the representation invariant
(`len ≤ cap ≤ 8·|buf|`, `rCursor ≤ len`, all buffer bits from `len` on are zero), `nextBits s n` the next `n` unread
bits of `abs s`. -/
namespace Tongo.C06
open Tongo Tongo.Bits Tongo.BitString

/-- `NewBitString(n)` is empty and satisfies the invariant. -/
theorem new_inv (n : Nat) : Inv (BitString.new n) ∧ abs (BitString.new n) = [] := ⟨inv_new n, abs_new n⟩

/-- A single-bit write that fits appends exactly that bit and keeps the invariant, capacity and cursor. -/
theorem writeBit_refines (v : Bool) (s : BitString) (hi : Inv s) (h : s.len < s.cap) :
    ∃ s', writeBit v s = (.ok (), s') ∧ abs s' = abs s ++ [v] ∧ Inv s' ∧ s'.cap = s.cap ∧ s'.rCursor = s.rCursor := by
  obtain ⟨s', a, b, c, d, e, _⟩ := writeBit_ok v s hi h
  exact ⟨s', a, b, c, d, e⟩

/-- Writing any list of bits (`WriteBitArray`): success iff it fits; on overflow the error is returned after the prefix
that fits was appended — in both cases the previously written bits are intact and the invariant holds. -/
theorem writeBits_refines (l : List Bool) (s : BitString) (hi : Inv s) :
    ∃ s', writeBitArray l s = (if s.len + l.length ≤ s.cap then .ok () else .err errOverflow, s') ∧
      abs s' = abs s ++ l.take (s.cap - s.len) ∧ Inv s' ∧ s'.cap = s.cap ∧ s'.rCursor = s.rCursor :=
  writeBitArray_spec l s hi

/-- `WriteUint(v, n)` writes exactly the `n` low bits of `v`, most significant first. -/
theorem writeUint_is_bits (v n : Nat) : writeUint v n = writeBitArray (natToBits n v) := writeUint_eq v n

/-- `ReadUint` on the byte-aligned path (cursor and width multiples of 8). -/
theorem readUint_aligned (n : Nat) (s : BitString) (hi : Inv s) (hn : n ≤ 64) (h : s.rCursor + n ≤ s.len)
    (_ha : s.rCursor % 8 = 0 ∧ n % 8 = 0) :
    readUint n s = (.ok (bitsToNat (nextBits s n)), { s with rCursor := s.rCursor + n }) :=
  readUint_ok n s hi.len_le_buf hn h

/-- `ReadUint` on the shifted 8-byte load path (`n < 57`, not both aligned), including loads that reach the end of the
buffer (zero padded). -/
theorem readUint_lt57 (n : Nat) (s : BitString) (hi : Inv s) (hn : n < 57) (h : s.rCursor + n ≤ s.len)
    (_ha : ¬ (s.rCursor % 8 = 0 ∧ n % 8 = 0)) :
    readUint n s = (.ok (bitsToNat (nextBits s n)), { s with rCursor := s.rCursor + n }) :=
  readUint_ok n s hi.len_le_buf (by omega) h

/-- `ReadUint` on the bit-loop path (57..64 bits, not both aligned). -/
theorem readUint_loop (n : Nat) (s : BitString) (hi : Inv s) (hn : 57 ≤ n ∧ n ≤ 64) (h : s.rCursor + n ≤ s.len)
    (_ha : ¬ (s.rCursor % 8 = 0 ∧ n % 8 = 0)) :
    readUint n s = (.ok (bitsToNat (nextBits s n)), { s with rCursor := s.rCursor + n }) :=
  readUint_ok n s hi.len_le_buf hn.2 h

/-- `ReadUint(n)` for every cursor offset and every width 0..64: the big-endian value of the next `n` bits, cursor
advanced by `n` (all three code paths). -/
theorem readUint_refines (n : Nat) (s : BitString) (hi : Inv s) (hn : n ≤ 64) (h : s.rCursor + n ≤ s.len) :
    readUint n s = (.ok (bitsToNat (nextBits s n)), { s with rCursor := s.rCursor + n }) :=
  readUint_ok n s hi.len_le_buf hn h

/-- A `ReadUint` beyond the written length is an error and leaves the state (cursor included) unchanged. -/
theorem readUint_underflow (n : Nat) (s : BitString) (hn : n ≤ 64) (h : s.len < s.rCursor + n) :
    readUint n s = (.err errNotEnough, s) := BitString.readUint_underflow n s hn h

/-- Non-vacuity (a test on literals, not a proof of the property): a reachable state satisfying the hypotheses. -/
example : let s := (writeUint 0x2ABCD 18 (BitString.new 20)).2
    Inv s ∧ s.rCursor + 18 ≤ s.len ∧ (readUint 18 s).1 = .ok 0x2ABCD := by decide +kernel

end Tongo.C06
