import TongoGen.TlbTypes
import TongoModel.Tlb.Enc
import TongoProofs.Lemmas.Wallet
/-! Property C15, tie to the regenerated TL-B descriptors: the hand-written data-cell layouts of `TongoModel/Wallet.lean`
are what the reflection codec model (`Tlb.encode`, property C03/C04) produces from the descriptors that translator X1
regenerates from wallet/*.go on every run (`TongoGen/TlbTypes.lean`). A field swapped, added, removed or resized in a
`wallet.Data…` struct changes the regenerated descriptor and breaks the corresponding obligation here. -/
namespace Tongo.C15Tlb
open Tongo Tongo.Tlb Tongo.Bits Tongo.Wallet TongoGen.TlbTypes

theorem natToBits_mod64_pow (n v : Nat) (hn : n ≤ 64) : natToBits n (v % 2 ^ 64) = natToBits n v := by
  rw [← natToBits_mod n (v % 2 ^ 64), ← natToBits_mod n v, Nat.mod_mod_of_dvd _ (Nat.pow_dvd_pow 2 hn)]

theorem natToBits_mod64 (n v : Nat) (hn : n ≤ 64) : natToBits n (v % 18446744073709551616) = natToBits n v :=
  natToBits_mod64_pow n v hn

/-- `wallet.DataV1V2{Seqno, PublicKey}` -/
theorem dataV1V2_eq_desc (v : Version) (hf : v.family = .v1v2) (seqno : Nat) (pk : List UInt8) (o : Opts) :
    desc_wallet_DataV1V2 = (.struct (.cons "Seqno" .plain (.uint 32) (.cons "PublicKey" .plain (.bytes 32) .nil))) ∧
    encode env 10 desc_wallet_DataV1V2 (Val.list [.int seqno, .bytes (pkBytes pk)]) Builder.empty =
      .ok { bits := dataBitsSeq v seqno pk o, refs := [] } := by
  refine ⟨rfl, ?_⟩
  simp [desc_wallet_DataV1V2, encode, encodeFields, encodeField, Val.list, dictParts, keyWidth, Builder.writeUint, Builder.writeBits,
    Builder.writeBytes, Builder.empty, cellBits, bind, Outcome.bind, natToBits_mod64, dataBitsSeq, hf, pkBits]

/-- `wallet.DataV3{Seqno, SubWalletId, PublicKey}` -/
theorem dataV3_eq_desc (v : Version) (hf : v.family = .v3) (seqno : Nat) (pk : List UInt8) (o : Opts) :
    desc_wallet_DataV3 = (.struct (.cons "Seqno" .plain (.uint 32) (.cons "SubWalletId" .plain (.uint 32) (.cons "PublicKey" .plain (.bytes 32) .nil)))) ∧
    encode env 10 desc_wallet_DataV3 (Val.list [.int seqno, .int o.subDefault, .bytes (pkBytes pk)]) Builder.empty =
      .ok { bits := dataBitsSeq v seqno pk o, refs := [] } := by
  refine ⟨rfl, ?_⟩
  simp [desc_wallet_DataV3, encode, encodeFields, encodeField, Val.list, dictParts, keyWidth, Builder.writeUint, Builder.writeBits,
    Builder.writeBytes, Builder.empty, cellBits, bind, Outcome.bind, natToBits_mod64, dataBitsSeq, hf, pkBits]

/-- `wallet.DataV4{Seqno, SubWalletId, PublicKey, PluginDict}` with the empty plugin dictionary -/
theorem dataV4_eq_desc (v : Version) (hf : v.family = .v4) (seqno : Nat) (pk : List UInt8) (o : Opts) :
    desc_wallet_DataV4 = (.struct (.cons "Seqno" .plain (.uint 32) (.cons "SubWalletId" .plain (.uint 32) (.cons "PublicKey" .plain (.bytes 32) (.cons "PluginDict" .plain (.dictE (.bytes 33) (.prim .any)) .nil))))) ∧
    encode env 10 desc_wallet_DataV4 (Val.list [.int seqno, .int o.subDefault, .bytes (pkBytes pk), .nil]) Builder.empty =
      .ok { bits := dataBitsSeq v seqno pk o, refs := [] } := by
  refine ⟨rfl, ?_⟩
  simp [desc_wallet_DataV4, encode, encodeFields, encodeField, Val.list, dictParts, keyWidth, Builder.writeUint, Builder.writeBits, Builder.writeBit,
    Builder.writeBytes, Builder.empty, cellBits, bind, Outcome.bind, natToBits_mod64, dataBitsSeq, hf, pkBits]

/-- `wallet.DataV5R1{IsSignatureAllowed, Seqno, WalletID, PublicKey, Extensions}` with signature auth on, no extensions -/
theorem dataV5R1_eq_desc (v : Version) (hf : v.family = .v5r1) (seqno : Nat) (pk : List UInt8) (o : Opts) :
    desc_wallet_DataV5R1 = (.struct (.cons "IsSignatureAllowed" .plain .bool (.cons "Seqno" .plain (.uint 32) (.cons "WalletID" .plain (.uint 32) (.cons "PublicKey" .plain (.bytes 32) (.cons "Extensions" .plain (.dictE (.bytes 32) (.uint 1)) .nil)))))) ∧
    encode env 10 desc_wallet_DataV5R1
        (Val.list [.bool true, .int seqno, .int (walletIdV5R1 o), .bytes (pkBytes pk), .nil]) Builder.empty =
      .ok { bits := dataBitsSeq v seqno pk o, refs := [] } := by
  refine ⟨rfl, ?_⟩
  simp [desc_wallet_DataV5R1, encode, encodeFields, encodeField, Val.list, dictParts, keyWidth, Builder.writeUint, Builder.writeBits, Builder.writeBit,
    Builder.writeBytes, Builder.empty, cellBits, bind, Outcome.bind, natToBits_mod64, dataBitsSeq, hf, pkBits]

/-- `wallet.DataHighloadV2{SubWalletId, LastCleanedTime, PublicKey, Queries}` of a fresh wallet -/
theorem dataHighloadV2_eq_desc (v : Version) (hf : v.family = .highload) (seqno : Nat) (pk : List UInt8) (o : Opts) :
    desc_wallet_DataHighloadV2 = (.struct (.cons "SubWalletId" .plain (.uint 32) (.cons "LastCleanedTime" .plain (.uint 64) (.cons "PublicKey" .plain (.bytes 32) (.cons "Queries" .plain (.dictE (.uint 64) (.prim .any)) .nil))))) ∧
    encode env 10 desc_wallet_DataHighloadV2 (Val.list [.int o.subDefault, .int 0, .bytes (pkBytes pk), .nil]) Builder.empty =
      .ok { bits := dataBitsSeq v seqno pk o, refs := [] } := by
  refine ⟨rfl, ?_⟩
  simp [desc_wallet_DataHighloadV2, encode, encodeFields, encodeField, Val.list, dictParts, keyWidth, Builder.writeUint, Builder.writeBits,
    Builder.writeBit, Builder.writeBytes, Builder.empty, cellBits, bind, Outcome.bind, natToBits_mod64, dataBitsSeq, hf, pkBits]

/-- `wallet.WalletV5ID{NetworkGlobalID, Workchain, WalletVersion, SubWalletID}` -/
theorem walletV5ID_eq_desc (net wc ver sub : Nat) (b : Builder) (hb : b.bits.length + 80 ≤ 1023) :
    desc_wallet_WalletV5ID = (.struct (.cons "NetworkGlobalID" .plain (.uint 32) (.cons "Workchain" .plain (.uint 8)
        (.cons "WalletVersion" .plain (.uint 8) (.cons "SubWalletID" .plain (.uint 32) .nil))))) ∧
    encode env 15 desc_wallet_WalletV5ID (Val.list [.int net, .int wc, .int ver, .int sub]) b =
      .ok { b with bits := b.bits ++ (natToBits 32 net ++ natToBits 8 wc ++ natToBits 8 ver ++ natToBits 32 sub) } := by
  refine ⟨rfl, ?_⟩
  have h1 : b.bits.length + 32 ≤ 1023 := by omega
  have h2 : b.bits.length + 32 + 8 ≤ 1023 := by omega
  have h3 : b.bits.length + 32 + 8 + 8 ≤ 1023 := by omega
  have h4 : b.bits.length + 32 + 8 + 8 + 32 ≤ 1023 := by omega
  simp [desc_wallet_WalletV5ID, encode, encodeFields, encodeField, Val.list, dictParts, keyWidth, Builder.writeUint, Builder.writeBits,
    cellBits, bind, Outcome.bind, natToBits_mod64, h1, h2, h3, h4, Nat.add_assoc]

set_option maxRecDepth 100000 in
/-- `wallet.DataV5Beta{Seqno Uint33, WalletID WalletV5ID, PublicKey, Extensions}` of a wallet without extensions -/
theorem dataV5Beta_eq_desc (v : Version) (hf : v.family = .v5beta) (seqno : Nat) (pk : List UInt8) (o : Opts) :
    encode env 20 desc_wallet_DataV5Beta
        (Val.list [.int seqno, Val.list [.int (toU32 o.netOr), .int (toU8 o.wc), .int 0, .int (o.subWallet.getD 0)],
          .bytes (pkBytes pk), .nil]) Builder.empty =
      .ok { bits := dataBitsSeq v seqno pk o, refs := [] } := by
  obtain ⟨id, hd, he⟩ : ∃ id, desc_wallet_DataV5Beta = (.struct (.cons "Seqno" .plain (.uint 33) (.cons "WalletID" .plain (.named id)
      (.cons "PublicKey" .plain (.bytes 32) (.cons "Extensions" .plain (.dictE (.bytes 32) (.uint 8)) .nil))))) ∧
      env id = some desc_wallet_WalletV5ID := ⟨_, rfl, rfl⟩
  rw [hd]
  simp [encode, encodeFields, encodeField, Val.list, dictParts, keyWidth, he, desc_wallet_WalletV5ID, Builder.writeUint, Builder.writeBits,
    Builder.writeBit, Builder.writeBytes, Builder.empty, cellBits, bind, Outcome.bind, natToBits_mod64, dataBitsSeq, hf, pkBits]

end Tongo.C15Tlb
