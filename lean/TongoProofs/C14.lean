import TongoProofs.Lemmas.WalletMsg
import TongoProofs.Lemmas.HighloadDict
import TongoProofs.Lemmas.WalletExt
import TongoProofs.Lemmas.WalletInt
import TongoProofs.Lemmas.WalletExtra
import TongoProofs.Lemmas.SigIdeal
import TongoProofs.Lemmas.HashTree
import TongoProofs.Lemmas.CellOrdSpec
import TongoGen.WalletInts
import TongoProofs.Lemmas.GenTiesWallet
/-! Property C14 — wallet-built messages carry the requested transfers under a valid signature.

Model: `TongoModel/WalletMsg.lean` (bodies per version, signature placement, external-message envelope, verifiers,
decoders), `TongoModel/WalletSend.lean` (the message-count guard of RawSendV2), `TongoModel/WalletInt.lean` (the
outgoing internal messages of `wallet.Message` / `SimpleTransfer` / `ContractDeploy`, with their state init). `H`, `sign`, `verify` are parameters;
`SigCorrect` is an explicit premise; "verifies against no other key / stops verifying when a bit changes" reduce, by
`signed_digest_is_body` and `body_repr_injective`, to unforgeability of the signature scheme and collision-freedom of
the hash on the two representations — named idealisations, exercised with real Ed25519 on every run.
Property theorems only. -/
namespace Tongo.C14
open Tongo Tongo.Wallet Tongo.Bits

variable (H : List UInt8 → List UInt8)

/-- signature correctness: what the key pair signs, its public key verifies -/
def SigCorrect (sign : List UInt8 → List UInt8 → List UInt8) (verify : List UInt8 → List UInt8 → List UInt8 → Bool)
    (pub : List UInt8 → List UInt8) : Prop := ∀ sk m, verify (pub sk) m (sign sk m) = true

/-! ### the builders never overflow a cell -/

/-- v3, v4 (at most 4 messages), v5r1, v5 beta (any number of messages): the signed cell is the written-out layout
(`signedLayout`: v3 96 bits + 8 per message and one ref per message; v4 104 + 8n; v5r1 130 bits and one ref holding the
nested action list; v5 beta 177 bits and that ref), the signature (64 bytes) is attached in front of it (v3/v4) or
behind it (v5) without overflowing 1023 bits / 4 refs, and the envelope for a 32-byte address fits as well. -/
theorem fits_in_cell (sign : List UInt8 → List UInt8 → List UInt8) (hsl : ∀ sk m, (sign sk m).length = 64) (sk : List UInt8)
    (v : Version) (hf : v.family = .v3 ∨ v.family = .v4 ∨ v.family = .v5r1 ∨ v.family = .v5beta)
    (ids : BodyIds) (op seqno vu rnd : Nat) (msgs : List RawMsg) (hn : (v.family = .v3 ∨ v.family = .v4) → msgs.length ≤ 4)
    (hdep : (signedLayout v ids op seqno vu msgs).depthO ≤ maxDepth) (self : Address) (hh : self.hash.length = 32) (init : Option Cell) :
    createSignedBody H sign sk v ids op seqno vu rnd msgs =
        .ok (attached v (sign sk ((signedLayout v ids op seqno vu msgs).hashO H)) (signedLayout v ids op seqno vu msgs))
    ∧ (attached v (sign sk ((signedLayout v ids op seqno vu msgs).hashO H)) (signedLayout v ids op seqno vu msgs)).bits.length ≤ 1023
    ∧ (attached v (sign sk ((signedLayout v ids op seqno vu msgs).hashO H)) (signedLayout v ids op seqno vu msgs)).refs.length ≤ 4
    ∧ ∀ body, extMessage self body init = .ok (envelope self body init) := by
  obtain ⟨hb, hr, _, _⟩ := signedLayout_size v ids op seqno vu msgs hn
  refine ⟨?_, ?_, ?_, fun body => extMessage_ok self hh body init⟩
  · unfold createSignedBody
    rw [signedCell_ok v ids op seqno vu rnd msgs hf hn]
    simp only [bind, Outcome.bind, Cell.hashO?, hdep, ↓reduceIte]
    rw [attachSignature_ok v _ (hsl _ _) _ hb hr]
    rfl
  · rw [(attached_size v _ _).1, hsl]; omega
  · rw [(attached_size v _ _).2]; exact hr

/-- The highload wallet, 0..254 messages (modes are bytes): the dictionary of the messages (keys 0..n-1 on 16 bits,
value `mode ‖ ^msg`; the shared dictionary model of C05, `Hashmap.marshal`, with canonical labels) always builds; the signed cell is `sub-wallet id (32) ‖ query id (64) ‖ 1` with one ref to that
dictionary, or `… ‖ 0` without ref for no message; the query id is `validUntil · 2³² + rnd (mod 2⁶⁴)`. -/
theorem fits_in_cell_highload (ids : BodyIds) (op seqno vu rnd : Nat) (msgs : List RawMsg) (hn : msgs.length ≤ 254)
    (hm : ∀ m ∈ msgs, m.mode < 256) :
    ∃ layout, signedCell .highloadV2R2 ids op seqno vu rnd msgs = .ok layout
      ∧ layout.bits = natToBits 32 ids.subWallet ++ natToBits 64 ((vu * 4294967296 + rnd) % 18446744073709551616) ++ [!msgs.isEmpty]
      ∧ layout.refs.length ≤ 1 ∧ layout.ty = 0 ∧ layout.mask = 0
      ∧ (msgs ≠ [] → ∃ d, highloadDict msgs = .ok d ∧ layout.refs = [d]) := by
  cases hmsgs : msgs with
  | nil =>
    refine ⟨.ordinary (natToBits 32 ids.subWallet ++ natToBits 64 ((vu * 4294967296 + rnd) % 18446744073709551616) ++ [false]) [],
      ?_, rfl, by simp, rfl, rfl, by simp⟩
    simp [signedCell, Version.family, payloadHighload, bind, Outcome.bind, pure, CellB.writeUint, CellB.write, CellB.empty,
      CellB.toCell]
  | cons m ms =>
    rw [← hmsgs]
    have hlen : 1 ≤ msgs.length := by rw [hmsgs]; simp
    obtain ⟨d, hd, _, _⟩ := highloadDict_roundtrip msgs hlen (by omega) hm
    have hemp : msgs.isEmpty = false := by rw [hmsgs]; rfl
    refine ⟨.ordinary (natToBits 32 ids.subWallet ++ natToBits 64 ((vu * 4294967296 + rnd) % 18446744073709551616) ++ [true]) [d],
      ?_, by simp [hemp], by simp, rfl, rfl, fun _ => ⟨d, hd, rfl⟩⟩
    simp [signedCell, Version.family, payloadHighload, bind, Outcome.bind, pure, CellB.writeUint, CellB.write, CellB.empty,
      CellB.toCell, CellB.addRef, hd, hemp, Nat.not_lt.mpr hn]

/-! ### what is signed -/

/-- The byte string handed to `sign` (by the builder) and to `verify` (by the verifier of the version) is the
representation hash of exactly the cell holding the wallet id / sub-wallet id, expiry, seqno, [op] and the messages —
`signedLayout` — and nothing else: for v3/v4 the body without its leading 512 bits, for v5 the body without its
trailing 512 bits, with the same refs. -/
theorem signed_digest_is_body (sign : List UInt8 → List UInt8 → List UInt8) (hsl : ∀ sk m, (sign sk m).length = 64) (sk : List UInt8)
    (v : Version) (hf : v.family = .v3 ∨ v.family = .v4 ∨ v.family = .v5r1 ∨ v.family = .v5beta)
    (ids : BodyIds) (op seqno vu rnd : Nat) (msgs : List RawMsg) (hn : (v.family = .v3 ∨ v.family = .v4) → msgs.length ≤ 4)
    (hdep : (signedLayout v ids op seqno vu msgs).depthO ≤ maxDepth) (b : Cell)
    (hb : createSignedBody H sign sk v ids op seqno vu rnd msgs = .ok b) :
    b = attached v (sign sk ((signedLayout v ids op seqno vu msgs).hashO H)) (signedLayout v ids op seqno vu msgs)
    ∧ verifierOf v = some (!sigFirst v)
    ∧ splitSignature H (!sigFirst v) b =
        .ok ((signedLayout v ids op seqno vu msgs).hashO H, sign sk ((signedLayout v ids op seqno vu msgs).hashO H)) := by
  have hfit := (fits_in_cell H sign hsl sk v hf ids op seqno vu rnd msgs hn hdep ⟨0, List.replicate 32 0⟩ (by simp) none).1
  rw [hfit] at hb
  simp only [Outcome.ok.injEq] at hb
  obtain ⟨_, _, hty, hmask⟩ := signedLayout_size v ids op seqno vu msgs hn
  refine ⟨hb.symm, ?_, ?_⟩
  · unfold verifierOf sigFirst
    rcases hf with h | h | h | h <;> simp [h]
  · rw [← hb]
    exact splitSignature_attached H (sigFirst v) _ (hsl _ _) _ hty hmask hdep

/-- The digest of the model (`Cell.hashO`, the level-0 formula) IS the hash of the shared line-by-line model of
boc/immutable_cell.go (`Cell.reprHash`, property C02) on the signed cell whenever the outgoing messages are trees of
level-0, non-pruned cells (ordinary cells and library cells): then the whole signed layout is such a tree. For outgoing
messages containing pruned branches or cells of a higher level the two formulas differ and the theorems of this file,
stated with `hashO`, do not describe Go's `Cell.Hash` (outside the model; listed in `assumptions`). -/
theorem signed_digest_is_cell_hash (v : Version) (hf : v.family = .v3 ∨ v.family = .v4 ∨ v.family = .v5r1 ∨ v.family = .v5beta)
    (ids : BodyIds) (op seqno vu : Nat) (msgs : List RawMsg) (hl : ∀ m ∈ msgs, m.msg.lvl0 = true)
    (hd : (signedLayout v ids op seqno vu msgs).depthO ≤ maxDepth) :
    (signedLayout v ids op seqno vu msgs).lvl0 = true ∧
    Cell.reprHash H (signedLayout v ids op seqno vu msgs) = .ok ((signedLayout v ids op seqno vu msgs).hashO H) := by
  have hcellsG : ∀ l : List RawMsg, (∀ m ∈ l, m.msg.lvl0 = true) → Cell.lvl0List (msgCells l) = true := by
    intro l
    induction l with
    | nil => intro _; rfl
    | cons m ms ih =>
      intro hl
      simp only [msgCells, List.map_cons, Cell.lvl0List, Bool.and_eq_true]
      exact ⟨hl m (by simp), ih (fun x hx => hl x (by simp [hx]))⟩
  have hactG : ∀ l : List RawMsg, (∀ m ∈ l, m.msg.lvl0 = true) → (actionsCell l).lvl0 = true := by
    intro l
    induction l with
    | nil => intro _; rfl
    | cons m ms ih =>
      intro hl
      simp only [actionsCell, Cell.ordinary, Cell.lvl0, Cell.lvl0List, Bool.and_eq_true]
      exact ⟨⟨by decide, by decide⟩, ih (fun x hx => hl x (by simp [hx])), hl m (by simp), trivial⟩
  have hcells := hcellsG msgs hl
  have hact := hactG msgs hl
  have h0 : (signedLayout v ids op seqno vu msgs).lvl0 = true := by
    unfold signedLayout
    rcases hf with h | h | h | h <;> simp only [h, Cell.ordinary, Cell.lvl0, Cell.lvl0List, Bool.and_eq_true]
    · exact ⟨⟨by decide, by decide⟩, hcells⟩
    · exact ⟨⟨by decide, by decide⟩, hcells⟩
    · exact ⟨⟨by decide, by decide⟩, hact, trivial⟩
    · exact ⟨⟨by decide, by decide⟩, hact, trivial⟩
  exact ⟨h0, Cell.reprHash_lvl0 H _ h0 hd⟩

/-- Two ordinary cells (≤ 1023 bits, ≤ 4 refs) with the same representation have the same bits, the same number of
refs and refs with the same hashes: changing any bit of the signed cell, or any bit of any cell below it (which
changes that ref's hash unless `H` collides), changes the representation. -/
theorem body_repr_injective (hlen : ∀ x, (H x).length = 32) (bits bits' : List Bool) (refs refs' : List Cell)
    (hb : bits.length ≤ 1023) (hb' : bits'.length ≤ 1023) (hr : refs.length ≤ 4) (hr' : refs'.length ≤ 4)
    (h : (Cell.ordinary bits refs).reprO H = (Cell.ordinary bits' refs').reprO H) :
    bits = bits' ∧ refs.length = refs'.length ∧ refs.map (Cell.hashO H) = refs'.map (Cell.hashO H) :=
  let r := Cell.reprO_ordinary_inj H hlen bits bits' refs refs' hb hb' hr hr' h
  ⟨r.1, r.2.1, r.2.2.1⟩

/-- Hence two signed cells that differ in a bit or in a ref hash have different digests unless `H` collides on their
two representations: a signature on one of them is a signature on a different message than the other's digest, and
accepting it would be a forgery. -/
theorem different_body_different_digest (hlen : ∀ x, (H x).length = 32) (bits bits' : List Bool) (refs refs' : List Cell)
    (hb : bits.length ≤ 1023) (hb' : bits'.length ≤ 1023) (hr : refs.length ≤ 4) (hr' : refs'.length ≤ 4)
    (cf : CollisionFree H [(Cell.ordinary bits refs).reprO H, (Cell.ordinary bits' refs').reprO H])
    (hne : bits ≠ bits' ∨ refs.map (Cell.hashO H) ≠ refs'.map (Cell.hashO H)) :
    (Cell.ordinary bits refs).hashO H ≠ (Cell.ordinary bits' refs').hashO H := by
  intro h
  rw [Cell.hashO_eq_H_reprO, Cell.hashO_eq_H_reprO] at h
  have := body_repr_injective H hlen bits bits' refs refs' hb hb' hr hr' (cf.pair h)
  rcases hne with h1 | h1
  · exact h1 this.1
  · exact h1 this.2.2

/-! ### the wallet's own key verifies -/

/-- Signature correctness ⇒ the external message built by the wallet (any of v3, v4, v5r1, v5 beta; any ids, seqno,
expiry; messages within the version's payload limit; with or without the wallet's state-init attached) verifies
against the wallet's public key through `VerifySignature`. -/
theorem verify_own_key (sign : List UInt8 → List UInt8 → List UInt8) (verify : List UInt8 → List UInt8 → List UInt8 → Bool)
    (pub : List UInt8 → List UInt8) (hsc : SigCorrect sign verify pub) (hsl : ∀ sk m, (sign sk m).length = 64)
    (sk : List UInt8) (hpk : (pub sk).length = 32)
    (v : Version) (hf : v.family = .v3 ∨ v.family = .v4 ∨ v.family = .v5r1 ∨ v.family = .v5beta)
    (ids : BodyIds) (op seqno vu rnd : Nat) (msgs : List RawMsg) (hn : (v.family = .v3 ∨ v.family = .v4) → msgs.length ≤ 4)
    (self : Address) (hh : self.hash.length = 32) (code data : Cell) (withInit : Bool) (body msg : Cell)
    (hbody : createSignedBody H sign sk v ids op seqno vu rnd msgs = .ok body)
    (hmsg : extMessage self body (if withInit then some (stateInitCell code data) else none) = .ok msg)
    (hdep : msg.depthO ≤ maxDepth) (hdepL : (signedLayout v ids op seqno vu msgs).depthO ≤ maxDepth) :
    verifySignature H verify v msg (pub sk) = .ok true := by
  obtain ⟨hb, hver, hsplit⟩ := signed_digest_is_body H sign hsl sk v hf ids op seqno vu rnd msgs hn hdepL body hbody
  rw [extMessage_ok self hh] at hmsg
  simp only [Outcome.ok.injEq] at hmsg
  subst hmsg
  have hbo : Cell.ordinary body.bits body.refs = body := by
    rw [hb]; unfold attached; split <;> rfl
  have hdec := decodeExtMessage_envelope self hh body (if withInit then some (stateInitCell code data) else none)
    (by
      intro si hsi
      cases withInit with
      | false => simp at hsi
      | true =>
        simp only [↓reduceIte, Option.some.injEq] at hsi
        subst hsi
        exact ⟨by simp [stateInitCell, Cell.ordinary, Cell.ty, tyLibrary], _, skipStateInit_stateInitCell code data⟩) hdep
  unfold verifySignature
  rw [hver, hdec]
  simp only [bind, Outcome.bind, hbo, hsplit]
  simp [edVerify, hpk, hsc sk]

/-! ### no other key, no changed bit — under the ideal signature scheme and a collision-free hash

The negative clauses of the property. `Sig.Ideal sign verify pub` (`TongoProofs/Lemmas/SigIdeal.lean`: `SigCorrect` and
`SigSound` — a genuine signature verifies, among HONESTLY GENERATED keys `pub sk'` and 32-byte digests, only for its
signer's key and its own digest) and `CollisionFree H` on the representations of the cells of the two body trees are
LOCAL hypotheses, idealisations (DESIGN §5.3), stated for honestly generated keys only: "no other key" reads "no other
honestly generated key". For other 32-byte strings nothing is claimed and nothing holds of the real scheme (Go's Ed25519
accepts a fixed signature for every message under the small-order key `01 00 … 00`: oracle `go.ed.smallorder`;
`Sig.toy_dishonest_key_accepts_all`). `verified_was_signed` alone additionally uses `SigUnforgeable` (strong
unforgeability + deterministic signer, under honest keys). The accept-all verifier does not satisfy the hypotheses
(`Sig.accept_all_violates`), a toy scheme does (`Sig.toy_ideal`, instantiated at the end of this file). -/

/-- The shape of every built message (v3, v4, v5r1, v5 beta): the envelope around the signed layout with the signature
of its hash attached where the version puts it (in front for v3/v4, in the LAST 512 bits for v5). -/
theorem built_message_is_attached (sign : List UInt8 → List UInt8 → List UInt8) (hsl : ∀ sk m, (sign sk m).length = 64) (sk : List UInt8)
    (v : Version) (hf : v.family = .v3 ∨ v.family = .v4 ∨ v.family = .v5r1 ∨ v.family = .v5beta)
    (ids : BodyIds) (op seqno vu rnd : Nat) (msgs : List RawMsg) (hn : (v.family = .v3 ∨ v.family = .v4) → msgs.length ≤ 4)
    (self : Address) (hh : self.hash.length = 32) (init : Option Cell) (body msg : Cell)
    (hbody : createSignedBody H sign sk v ids op seqno vu rnd msgs = .ok body) (hmsg : extMessage self body init = .ok msg)
    (hdepL : (signedLayout v ids op seqno vu msgs).depthO ≤ maxDepth) :
    msg = envelope self (attached v (sign sk ((signedLayout v ids op seqno vu msgs).hashO H)) (signedLayout v ids op seqno vu msgs)) init
    ∧ (signedLayout v ids op seqno vu msgs).ty = 0 ∧ (signedLayout v ids op seqno vu msgs).mask = 0 := by
  obtain ⟨hb, _, _⟩ := signed_digest_is_body H sign hsl sk v hf ids op seqno vu rnd msgs hn hdepL body hbody
  obtain ⟨_, _, hty, hmask⟩ := signedLayout_size v ids op seqno vu msgs hn
  rw [extMessage_ok self hh] at hmsg
  simp only [Outcome.ok.injEq] at hmsg
  exact ⟨by rw [← hmsg, hb], hty, hmask⟩

/-- … and of every built highload message: the signed cell is `sub-wallet ‖ query id ‖ dictionary`. -/
theorem built_message_is_attached_highload (sign : List UInt8 → List UInt8 → List UInt8) (hsl : ∀ sk m, (sign sk m).length = 64)
    (sk : List UInt8) (ids : BodyIds) (op seqno vu rnd : Nat) (msgs : List RawMsg) (hn : msgs.length ≤ 254) (hm : ∀ m ∈ msgs, m.mode < 256)
    (self : Address) (hh : self.hash.length = 32) (init : Option Cell) (body msg : Cell)
    (hbody : createSignedBody H sign sk .highloadV2R2 ids op seqno vu rnd msgs = .ok body) (hmsg : extMessage self body init = .ok msg) :
    ∃ layout, signedCell .highloadV2R2 ids op seqno vu rnd msgs = .ok layout ∧ layout.ty = 0 ∧ layout.mask = 0 ∧
      layout.depthO ≤ maxDepth ∧ msg = envelope self (attached .highloadV2R2 (sign sk (layout.hashO H)) layout) init := by
  obtain ⟨layout, hl, hbits, hrefs, hty, hmask, _⟩ := fits_in_cell_highload ids op seqno vu rnd msgs hn hm
  unfold createSignedBody at hbody
  rw [hl] at hbody
  simp only [bind, Outcome.bind] at hbody
  cases hdig : layout.hashO? H with
  | err e => simp [hdig] at hbody
  | panic e => simp [hdig] at hbody
  | ok digest =>
    have hdc : layout.depthO ≤ maxDepth := by
      unfold Cell.hashO? at hdig
      split at hdig
      · assumption
      · cases hdig
    have hdg : digest = layout.hashO H := by
      unfold Cell.hashO? at hdig
      simp only [hdc, ↓reduceIte, Outcome.ok.injEq] at hdig
      exact hdig.symm
    simp only [hdig] at hbody
    rw [attachSignature_ok .highloadV2R2 _ (hsl _ _) layout (by rw [hbits]; simp) (by omega)] at hbody
    simp only [Outcome.ok.injEq] at hbody
    rw [extMessage_ok self hh] at hmsg
    simp only [Outcome.ok.injEq] at hmsg
    subst hmsg hbody hdg
    exact ⟨layout, hl, hty, hmask, hdc, rfl⟩

/-- What `VerifySignature` accepts under an HONESTLY GENERATED key was signed: if the envelope around ANY body — any
64-byte string `sig` attached to any ordinary cell `c`, which is what every ordinary body cell with at least 512 bits is
(`body_is_attached`) — verifies against `pub sk0`, then `sig` is the signature of the hash of `c` under a secret key of
that public key. For every version, including v5 (signature in the last 512 bits) and highload. (Uses `SigUnforgeable`,
the strongest idealisation; false of the real scheme for keys that are not honestly generated, see `Lemmas/SigIdeal.lean`.) -/
theorem verified_was_signed (sign : List UInt8 → List UInt8 → List UInt8) (verify : List UInt8 → List UInt8 → List UInt8 → Bool)
    (pub : List UInt8 → List UInt8) (hu : Sig.SigUnforgeable sign verify pub)
    (v : Version) (hv : v.family ≠ .v1v2) (sig : List UInt8) (hs : sig.length = 64)
    (c : Cell) (hty : c.ty = 0) (hmask : c.mask = 0) (hdc : c.depthO ≤ maxDepth)
    (self : Address) (hh : self.hash.length = 32) (code data : Cell) (withInit : Bool)
    (hdep : (envelope self (attached v sig c) (if withInit then some (stateInitCell code data) else none)).depthO ≤ maxDepth)
    (sk0 : List UInt8) (hpk : (pub sk0).length = 32)
    (hok : verifySignature H verify v (envelope self (attached v sig c) (if withInit then some (stateInitCell code data) else none)) (pub sk0) = .ok true) :
    ∃ sk, pub sk = pub sk0 ∧ sig = sign sk (c.hashO H) := by
  rw [verifySignature_envelope H verify v hv sig hs c hty hmask hdc self hh code data withInit hdep (pub sk0) hpk] at hok
  simp only [Outcome.ok.injEq] at hok
  exact hu sk0 _ sig hok

/-- **No other key.** The envelope around a cell `c` signed with `sk` (any version but v1/v2; this is the shape of
every built message, `built_message_is_attached(_highload)`) is REJECTED (`ErrBadSignature`) by `VerifySignature` for
every other HONESTLY GENERATED 32-byte key (`pk' = pub sk'` for some `sk'`, `pk' ≠ pub sk`). -/
theorem verify_rejects_other_key_attached (hlen : ∀ x, (H x).length = 32) (sign : List UInt8 → List UInt8 → List UInt8)
    (verify : List UInt8 → List UInt8 → List UInt8 → Bool) (pub : List UInt8 → List UInt8) (I : Sig.Ideal sign verify pub)
    (hsl : ∀ sk m, (sign sk m).length = 64) (sk : List UInt8)
    (v : Version) (hv : v.family ≠ .v1v2) (c : Cell) (hty : c.ty = 0) (hmask : c.mask = 0) (hdc : c.depthO ≤ maxDepth)
    (self : Address) (hh : self.hash.length = 32) (code data : Cell) (withInit : Bool)
    (hdep : (envelope self (attached v (sign sk (c.hashO H)) c) (if withInit then some (stateInitCell code data) else none)).depthO ≤ maxDepth)
    (pk' : List UInt8) (hpk' : pk'.length = 32) (hhon : Sig.Honest pub pk') (hne : pk' ≠ pub sk) :
    verifySignature H verify v
      (envelope self (attached v (sign sk (c.hashO H)) c) (if withInit then some (stateInitCell code data) else none)) pk' = .ok false := by
  rw [verifySignature_envelope H verify v hv _ (hsl _ _) c hty hmask hdc self hh code data withInit hdep pk' hpk']
  cases hvf : verify pk' (c.hashO H) (sign sk (c.hashO H)) with
  | false => rfl
  | true =>
    have hd : (c.hashO H).length = 32 := by rw [Cell.hashO_eq_H_reprO]; exact hlen _
    exact absurd (I.verify_sound sk pk' _ _ hhon hd hd hvf).1 hne

/-- **No other key**, on the message the wallet builds (v3, v4, v5r1, v5 beta; any ids, seqno, expiry, messages within
the limit, with or without state init): `VerifySignature` answers `ErrBadSignature` for every other honestly generated
32-byte key. -/
theorem verify_rejects_other_key (hlen : ∀ x, (H x).length = 32) (sign : List UInt8 → List UInt8 → List UInt8)
    (verify : List UInt8 → List UInt8 → List UInt8 → Bool) (pub : List UInt8 → List UInt8) (I : Sig.Ideal sign verify pub)
    (hsl : ∀ sk m, (sign sk m).length = 64) (sk : List UInt8)
    (v : Version) (hf : v.family = .v3 ∨ v.family = .v4 ∨ v.family = .v5r1 ∨ v.family = .v5beta)
    (ids : BodyIds) (op seqno vu rnd : Nat) (msgs : List RawMsg) (hn : (v.family = .v3 ∨ v.family = .v4) → msgs.length ≤ 4)
    (self : Address) (hh : self.hash.length = 32) (code data : Cell) (withInit : Bool) (body msg : Cell)
    (hbody : createSignedBody H sign sk v ids op seqno vu rnd msgs = .ok body)
    (hmsg : extMessage self body (if withInit then some (stateInitCell code data) else none) = .ok msg)
    (hdep : msg.depthO ≤ maxDepth) (hdepL : (signedLayout v ids op seqno vu msgs).depthO ≤ maxDepth)
    (pk' : List UInt8) (hpk' : pk'.length = 32) (hhon : Sig.Honest pub pk') (hne : pk' ≠ pub sk) :
    verifySignature H verify v msg pk' = .ok false := by
  obtain ⟨hm, hty, hmask⟩ := built_message_is_attached H sign hsl sk v hf ids op seqno vu rnd msgs hn self hh _ body msg hbody hmsg hdepL
  have hv : v.family ≠ .v1v2 := by rcases hf with h | h | h | h <;> simp [h]
  subst hm
  exact verify_rejects_other_key_attached H hlen sign verify pub I hsl sk v hv _ hty hmask hdepL self hh code data withInit hdep pk' hpk' hhon hne

/-- **No other key**, highload wallet. -/
theorem verify_rejects_other_key_highload (hlen : ∀ x, (H x).length = 32) (sign : List UInt8 → List UInt8 → List UInt8)
    (verify : List UInt8 → List UInt8 → List UInt8 → Bool) (pub : List UInt8 → List UInt8) (I : Sig.Ideal sign verify pub)
    (hsl : ∀ sk m, (sign sk m).length = 64) (sk : List UInt8) (ids : BodyIds) (op seqno vu rnd : Nat) (msgs : List RawMsg)
    (hn : msgs.length ≤ 254) (hm : ∀ m ∈ msgs, m.mode < 256)
    (self : Address) (hh : self.hash.length = 32) (code data : Cell) (withInit : Bool) (body msg : Cell)
    (hbody : createSignedBody H sign sk .highloadV2R2 ids op seqno vu rnd msgs = .ok body)
    (hmsg : extMessage self body (if withInit then some (stateInitCell code data) else none) = .ok msg)
    (hdep : msg.depthO ≤ maxDepth) (pk' : List UInt8) (hpk' : pk'.length = 32) (hhon : Sig.Honest pub pk') (hne : pk' ≠ pub sk) :
    verifySignature H verify .highloadV2R2 msg pk' = .ok false := by
  obtain ⟨layout, _, hty, hmask, hdc, hmsg'⟩ :=
    built_message_is_attached_highload H sign hsl sk ids op seqno vu rnd msgs hn hm self hh _ body msg hbody hmsg
  subst hmsg'
  exact verify_rejects_other_key_attached H hlen sign verify pub I hsl sk .highloadV2R2 (by decide) layout hty hmask hdc self hh code data
    withInit hdep pk' hpk' hhon hne

/-- **No changed bit.** Take the signature the wallet made for the signed cell `c` and attach it to ANY other tree of
ordinary cells `c'` — one that differs from `c` in a bit, in the number of refs, or in any bit of any cell at any depth
below it: the envelope is REJECTED under the wallet's own key, for every version (signature in front or in the last 512
bits; highload's dictionary included: `c`, `c'` are arbitrary trees). Through `Cell.hashO_tree_inj` (collision-freedom on
the representations of the cells of the two trees) and `SigSound` (the wallet's own key is honestly generated). -/
theorem verify_rejects_changed_body (hlen : ∀ x, (H x).length = 32) (sign : List UInt8 → List UInt8 → List UInt8)
    (verify : List UInt8 → List UInt8 → List UInt8 → Bool) (pub : List UInt8 → List UInt8) (I : Sig.Ideal sign verify pub)
    (hsl : ∀ sk m, (sign sk m).length = 64) (sk : List UInt8) (hpk : (pub sk).length = 32)
    (v : Version) (hv : v.family ≠ .v1v2) (c c' : Cell) (hw : c.wfOrd = true) (hw' : c'.wfOrd = true)
    (cf : CollisionFree H (Cell.reprs H c ++ Cell.reprs H c')) (hne : c' ≠ c) (hdc' : c'.depthO ≤ maxDepth)
    (self : Address) (hh : self.hash.length = 32) (code data : Cell) (withInit : Bool)
    (hdep : (envelope self (attached v (sign sk (c.hashO H)) c') (if withInit then some (stateInitCell code data) else none)).depthO ≤ maxDepth) :
    verifySignature H verify v
      (envelope self (attached v (sign sk (c.hashO H)) c') (if withInit then some (stateInitCell code data) else none)) (pub sk) = .ok false := by
  have hty' : c'.ty = 0 ∧ c'.mask = 0 := by
    cases c'; simp only [Cell.wfOrd, Bool.and_eq_true, beq_iff_eq] at hw'; exact ⟨hw'.1.1.1.1, hw'.1.1.1.2⟩
  rw [verifySignature_envelope H verify v hv _ (hsl _ _) c' hty'.1 hty'.2 hdc' self hh code data withInit hdep (pub sk) hpk]
  cases hvf : verify (pub sk) (c'.hashO H) (sign sk (c.hashO H)) with
  | false => rfl
  | true =>
    have hd : (c.hashO H).length = 32 := by rw [Cell.hashO_eq_H_reprO]; exact hlen _
    have hd' : (c'.hashO H).length = 32 := by rw [Cell.hashO_eq_H_reprO]; exact hlen _
    have heq := (I.verify_sound sk (pub sk) _ _ ⟨sk, rfl⟩ hd hd' hvf).2
    exact absurd (Cell.hashO_inj_of_collisionFree H hlen c c' hw hw' cf heq.symm).symm hne

/-- **No changed bit**, on the message the wallet builds (v3, v4, v5r1, v5 beta): the built message is the envelope
around `attached v sig layout`; replacing the signed part by any other tree of ordinary cells while keeping the
signature gives a message that `VerifySignature` rejects under the wallet's key. (Highload: the same with
`built_message_is_attached_highload`.) -/
theorem built_message_rejects_changed_body (hlen : ∀ x, (H x).length = 32) (sign : List UInt8 → List UInt8 → List UInt8)
    (verify : List UInt8 → List UInt8 → List UInt8 → Bool) (pub : List UInt8 → List UInt8) (I : Sig.Ideal sign verify pub)
    (hsl : ∀ sk m, (sign sk m).length = 64) (sk : List UInt8) (hpk : (pub sk).length = 32)
    (v : Version) (hf : v.family = .v3 ∨ v.family = .v4 ∨ v.family = .v5r1 ∨ v.family = .v5beta)
    (ids : BodyIds) (op seqno vu rnd : Nat) (msgs : List RawMsg) (hn : (v.family = .v3 ∨ v.family = .v4) → msgs.length ≤ 4)
    (self : Address) (hh : self.hash.length = 32) (code data : Cell) (withInit : Bool) (body msg : Cell)
    (hbody : createSignedBody H sign sk v ids op seqno vu rnd msgs = .ok body)
    (hmsg : extMessage self body (if withInit then some (stateInitCell code data) else none) = .ok msg)
    (hdepL : (signedLayout v ids op seqno vu msgs).depthO ≤ maxDepth)
    (hw : (signedLayout v ids op seqno vu msgs).wfOrd = true)
    (c' : Cell) (hw' : c'.wfOrd = true) (hne : c' ≠ signedLayout v ids op seqno vu msgs) (hdc' : c'.depthO ≤ maxDepth)
    (cf : CollisionFree H (Cell.reprs H (signedLayout v ids op seqno vu msgs) ++ Cell.reprs H c'))
    (hdep : (envelope self (attached v (sign sk ((signedLayout v ids op seqno vu msgs).hashO H)) c')
      (if withInit then some (stateInitCell code data) else none)).depthO ≤ maxDepth) :
    msg = envelope self (attached v (sign sk ((signedLayout v ids op seqno vu msgs).hashO H)) (signedLayout v ids op seqno vu msgs))
        (if withInit then some (stateInitCell code data) else none)
    ∧ verifySignature H verify v (envelope self (attached v (sign sk ((signedLayout v ids op seqno vu msgs).hashO H)) c')
        (if withInit then some (stateInitCell code data) else none)) (pub sk) = .ok false := by
  have hv : v.family ≠ .v1v2 := by rcases hf with h | h | h | h <;> simp [h]
  exact ⟨(built_message_is_attached H sign hsl sk v hf ids op seqno vu rnd msgs hn self hh _ body msg hbody hmsg hdepL).1,
    verify_rejects_changed_body H hlen sign verify pub I hsl sk hpk v hv _ c' hw hw' cf hne hdc' self hh code data withInit hdep⟩

/-! ### decoding returns what was requested -/

/-- Decoding the external message built by the wallet returns the same sub-wallet / wallet id fields, seqno, expiry
and exactly the requested messages with their modes, in order (v3, v4, v5r1, v5 beta; field values within their Go
types; for v5 the outgoing messages are not library or pruned-branch cells, which the v5 decoder refuses or drops). -/
theorem decode_build (v : Version) (hf : v.family = .v3 ∨ v.family = .v4 ∨ v.family = .v5r1 ∨ v.family = .v5beta)
    (ids : BodyIds) (hids : ids.WF) (op seqno vu : Nat) (hop : op = opSignedExternal ∨ op = opSignedInternal)
    (hseq : seqno < 4294967296) (hvu : vu < 4294967296) (msgs : List RawMsg)
    (hn : (v.family = .v3 ∨ v.family = .v4) → msgs.length ≤ 4) (hm : ∀ m ∈ msgs, m.mode < 256)
    (ht : (v.family = .v5r1 ∨ v.family = .v5beta) → ∀ m ∈ msgs, m.msg.ty ≠ tyLibrary ∧ m.msg.ty ≠ tyPruned)
    (sig : List UInt8) (hs : sig.length = 64) (self : Address) (hh : self.hash.length = 32) (code data : Cell) (withInit : Bool)
    (hdep : (envelope self (attached v sig (signedLayout v ids op seqno vu msgs))
        (if withInit then some (stateInitCell code data) else none)).depthO ≤ maxDepth) :
    decodeMessage v (envelope self (attached v sig (signedLayout v ids op seqno vu msgs))
        (if withInit then some (stateInitCell code data) else none)) =
      .ok { ids := ids.restrict v, seqno := seqno, validUntil := vu, msgs := msgs } := by
  have hbo : Cell.ordinary (attached v sig (signedLayout v ids op seqno vu msgs)).bits
      (attached v sig (signedLayout v ids op seqno vu msgs)).refs = attached v sig (signedLayout v ids op seqno vu msgs) := by
    unfold attached; split <;> rfl
  have hdec := decodeExtMessage_envelope self hh (attached v sig (signedLayout v ids op seqno vu msgs))
    (if withInit then some (stateInitCell code data) else none)
    (by
      intro si hsi
      cases withInit with
      | false => simp at hsi
      | true =>
        simp only [↓reduceIte, Option.some.injEq] at hsi
        subst hsi
        exact ⟨by simp [stateInitCell, Cell.ordinary, Cell.ty, tyLibrary], _, skipStateInit_stateInitCell code data⟩) hdep
  unfold decodeMessage
  rw [hdec]
  simp only [bind, Outcome.bind, hbo]
  exact decodeBody_attached v hf ids hids op seqno vu hop hseq hvu msgs hn hm ht sig hs

/-- the ids a wallet derives from its options are exactly the fields its body carries -/
theorem bodyIds_restrict (v : Version) (o : Opts) : (bodyIds v o).restrict v = bodyIds v o := by
  unfold bodyIds BodyIds.restrict
  cases v.family <;> rfl

/-- The highload wallet (0..254 messages, uint32 sub-wallet id and expiry, `rnd` a uint32): decoding the external
message built by the wallet returns the sub-wallet id, the expiry as the high half of the query id, and exactly the
requested messages with their modes in order — the dictionary with keys 0..n-1 reads back in key order. -/
theorem decode_build_highload (ids : BodyIds) (hsub : ids.subWallet < 4294967296) (op seqno vu rnd : Nat)
    (hvu : vu < 4294967296) (hrnd : rnd < 4294967296) (msgs : List RawMsg) (hn : msgs.length ≤ 254)
    (hm : ∀ m ∈ msgs, m.mode < 256) (sig : List UInt8) (hs : sig.length = 64) (self : Address) (hh : self.hash.length = 32)
    (code data : Cell) (withInit : Bool) (layout : Cell) (hl : signedCell .highloadV2R2 ids op seqno vu rnd msgs = .ok layout)
    (hdep : (envelope self (attached .highloadV2R2 sig layout) (if withInit then some (stateInitCell code data) else none)).depthO ≤ maxDepth) :
    decodeMessage .highloadV2R2 (envelope self (attached .highloadV2R2 sig layout)
        (if withInit then some (stateInitCell code data) else none)) =
      .ok { ids := { subWallet := ids.subWallet }, seqno := 0, validUntil := vu, queryId := vu * 4294967296 + rnd, msgs := msgs } := by
  obtain ⟨layout', hl', hbits, _, hty, hmask, hrefs⟩ := fits_in_cell_highload ids op seqno vu rnd msgs hn hm
  rw [hl] at hl'
  simp only [Outcome.ok.injEq] at hl'
  subst hl'
  have hq : (vu * 4294967296 + rnd) % 18446744073709551616 = vu * 4294967296 + rnd := by omega
  obtain ⟨lty, lmask, lbits, lrefs⟩ := layout
  simp only [Cell.bits, Cell.refs, Cell.ty, Cell.mask] at hbits hty hmask hrefs
  subst hty hmask hbits
  have hdec := decodeExtMessage_envelope self hh (attached .highloadV2R2 sig (Cell.mk 0 0 _ lrefs))
    (if withInit then some (stateInitCell code data) else none) (envelope_init_ok code data withInit) hdep
  have hlsig : (bytesToBits sig).length = 512 := by simp [hs]
  unfold decodeMessage
  rw [hdec]
  simp only [bind, Outcome.bind, attached_ordinary]
  unfold decodeBody attached sigFirst
  simp only [Version.family, ↓reduceIte, Cell.ordinary, Cell.ty, tyLibrary, CellR.ofCell, Cell.bits, Cell.refs, hq]
  rw [if_neg (by decide)]
  simp only [List.append_assoc, bind, Outcome.bind, pure]
  rw [CellR.readBits_append _ _ _ 512 hlsig]; simp only []
  rw [CellR.readUint_append 32 _ _ _ hsub]; simp only []
  rw [CellR.readUint_append 64 _ _ _ (by omega)]; simp only []
  have hdiv : (vu * 4294967296 + rnd) / 4294967296 = vu := by omega
  cases hmsgs : msgs with
  | nil =>
    simp [Hashmap.unmarshalE, Cell.ordinary, Cell.ty, Cell.bits, tyLibrary, hdiv]
  | cons m ms =>
    have hne : msgs ≠ [] := by rw [hmsgs]; simp
    obtain ⟨d, hd, hr⟩ := hrefs hne
    obtain ⟨d', hd', _, hrt⟩ := highloadDict_roundtrip msgs (by rw [hmsgs]; simp) (by omega) hm
    rw [hd] at hd'
    simp only [Outcome.ok.injEq] at hd'
    subst hd'
    have hemp : msgs.isEmpty = false := by rw [hmsgs]; rfl
    rw [← hmsgs, hr]
    simp only [hemp, Bool.not_false, List.singleton_append]
    have := hrt [] []
    simp only [Cell.ordinary] at this
    rw [this]
    simp [hdiv, highloadKvs_values]

/-- Signature correctness ⇒ the highload wallet's own message (0..254 messages) verifies against its public key. -/
theorem verify_own_key_highload (sign : List UInt8 → List UInt8 → List UInt8) (verify : List UInt8 → List UInt8 → List UInt8 → Bool)
    (pub : List UInt8 → List UInt8) (hsc : SigCorrect sign verify pub) (hsl : ∀ sk m, (sign sk m).length = 64)
    (sk : List UInt8) (hpk : (pub sk).length = 32) (ids : BodyIds) (op seqno vu rnd : Nat) (msgs : List RawMsg)
    (hn : msgs.length ≤ 254) (hm : ∀ m ∈ msgs, m.mode < 256)
    (self : Address) (hh : self.hash.length = 32) (code data : Cell) (withInit : Bool) (body msg : Cell)
    (hbody : createSignedBody H sign sk .highloadV2R2 ids op seqno vu rnd msgs = .ok body)
    (hmsg : extMessage self body (if withInit then some (stateInitCell code data) else none) = .ok msg)
    (hdep : msg.depthO ≤ maxDepth) :
    verifySignature H verify .highloadV2R2 msg (pub sk) = .ok true := by
  obtain ⟨layout, hl, hbits, hrefs, hty, hmask, _⟩ := fits_in_cell_highload ids op seqno vu rnd msgs hn hm
  unfold createSignedBody at hbody
  rw [hl] at hbody
  simp only [bind, Outcome.bind] at hbody
  cases hdig : layout.hashO? H with
  | err e => simp [hdig] at hbody
  | panic e => simp [hdig] at hbody
  | ok digest =>
    have hdc : layout.depthO ≤ maxDepth := by
      unfold Cell.hashO? at hdig
      split at hdig
      · assumption
      · cases hdig
    have hdg : digest = layout.hashO H := by
      unfold Cell.hashO? at hdig
      simp only [hdc, ↓reduceIte, Outcome.ok.injEq] at hdig
      exact hdig.symm
    simp only [hdig] at hbody
    rw [attachSignature_ok .highloadV2R2 _ (hsl _ _) layout (by rw [hbits]; simp) (by omega)] at hbody
    simp only [Outcome.ok.injEq] at hbody
    rw [extMessage_ok self hh] at hmsg
    simp only [Outcome.ok.injEq] at hmsg
    subst hmsg hbody hdg
    exact verifySignature_attached H sign verify pub hsc hsl sk hpk .highloadV2R2 (by decide) layout hty hmask hdc self hh code data
      withInit hdep

/-! ### v5 extended actions -/

/-- the signed cell of a v5r1 message with send actions and a non-empty list of extended actions, written out: the
first extended action follows the two `Maybe` bits inline, the others hang off it as a chain of references -/
def v5ExtLayout (ids : BodyIds) (op seqno vu : Nat) (msgs : List RawMsg) (a : ExtAction) (tl : List ExtAction) : Cell :=
  .ordinary (natToBits 32 op ++ natToBits 32 ids.walletId ++ natToBits 32 vu ++ natToBits 32 seqno ++ [true] ++ [true] ++
      extActionBits a)
    ([actionsCell msgs] ++ (if tl = [] then [] else [extChainCell tl]))

/-- `W5ExtendedActions` round trip: what `MarshalTLB` writes at a position of a cell (first action inline, the rest as a
chain of cells), `UnmarshalTLB` reads back — the same actions in the same order — leaving the reader behind the first
action. Actions are well-formed: standard addresses (`int8` workchain, 32-byte hash) or `addr_none`. -/
theorem ext_actions_roundtrip (a : ExtAction) (tl : List ExtAction) (hw : ∀ x ∈ a :: tl, x.WF) (b : CellB)
    (hb : b.bits.length + 275 ≤ 1023) (hr : b.refs = []) (rest : List Bool) :
    ∃ b', writeExtActions b (a :: tl) = .ok b' ∧ b'.bits = b.bits ++ extActionBits a ∧
      readExtActions { bits := b'.bits.drop b.bits.length ++ rest, refs := b'.refs } = .ok (a :: tl, { bits := rest, refs := [] }) := by
  refine ⟨_, writeExtActions_ok a tl b hb (by simp [hr]), rfl, ?_⟩
  simp only [hr, List.nil_append, List.drop_left']
  exact readExtActions_ok a tl hw rest

/-- v5r1 with extended actions: the builder returns `v5ExtLayout`, and decoding the external message around the
signed body returns the wallet id, seqno, expiry, exactly the requested messages (what `ExtractRawMessages` yields)
AND exactly the requested extended actions, in order. -/
theorem decode_build_v5_ext (ids : BodyIds) (hids : ids.WF) (op seqno vu : Nat) (hop : op = opSignedExternal ∨ op = opSignedInternal)
    (hseq : seqno < 4294967296) (hvu : vu < 4294967296) (msgs : List RawMsg) (hm : ∀ m ∈ msgs, m.mode < 256)
    (ht : ∀ m ∈ msgs, m.msg.ty ≠ tyLibrary ∧ m.msg.ty ≠ tyPruned) (a : ExtAction) (tl : List ExtAction) (hw : ∀ x ∈ a :: tl, x.WF)
    (sig : List UInt8) (hs : sig.length = 64) (self : Address) (hh : self.hash.length = 32) (code data : Cell) (withInit : Bool)
    (hdep : (envelope self (attached .v5r1 sig (v5ExtLayout ids op seqno vu msgs a tl))
        (if withInit then some (stateInitCell code data) else none)).depthO ≤ maxDepth) :
    signedCellV5Ext ids op seqno vu msgs (some (a :: tl)) = .ok (v5ExtLayout ids op seqno vu msgs a tl)
    ∧ decodeMessage .v5r1 (envelope self (attached .v5r1 sig (v5ExtLayout ids op seqno vu msgs a tl))
        (if withInit then some (stateInitCell code data) else none)) =
      .ok { ids := { walletId := ids.walletId }, seqno := seqno, validUntil := vu, msgs := msgs, ext := a :: tl } := by
  obtain ⟨_, h2, _, _⟩ := hids
  have hl : (bytesToBits sig).length = 512 := by simp [hs]
  have hop32 : op < 2 ^ 32 := by rcases hop with h | h <;> subst h <;> decide
  have hopx : op ≠ opExtension := by rcases hop with h | h <;> subst h <;> decide
  have hops : ¬ (op ≠ opSignedInternal ∧ op ≠ opSignedExternal) := by rcases hop with h | h <;> subst h <;> decide
  constructor
  · unfold signedCellV5Ext v5ExtLayout writeExtField
    simp only [bind, Outcome.bind, pure, w5Actions_ok]
    rw [CellB.writeUint_ok _ _ _ (by simp [CellB.empty])]; simp only []
    rw [CellB.writeUint_ok _ _ _ (by simp [CellB.empty])]; simp only []
    rw [CellB.writeUint_ok _ _ _ (by simp [CellB.empty])]; simp only []
    rw [CellB.writeUint_ok _ _ _ (by simp [CellB.empty])]; simp only []
    rw [CellB.write_ok _ _ (by simp [CellB.empty])]; simp only []
    rw [CellB.addRef_ok _ _ (by simp [CellB.empty])]; simp only []
    rw [CellB.write_ok _ _ (by simp [CellB.empty])]; simp only []
    rw [writeExtActions_ok a tl _ (by simp [CellB.empty]) (by simp [CellB.empty])]
    simp [CellB.toCell, CellB.empty, Cell.ordinary]
  · have hdec := decodeExtMessage_envelope self hh (attached .v5r1 sig (v5ExtLayout ids op seqno vu msgs a tl))
      (if withInit then some (stateInitCell code data) else none) (envelope_init_ok code data withInit) hdep
    unfold decodeMessage
    rw [hdec]
    simp only [bind, Outcome.bind, attached_ordinary]
    unfold decodeBody attached sigFirst v5ExtLayout
    simp only [Version.family, Bool.false_eq_true, ↓reduceIte, Cell.ordinary, Cell.ty, Cell.bits, Cell.refs, CellR.ofCell, tyLibrary]
    rw [if_neg (by decide), if_neg (by simp)]
    simp only [List.append_assoc, bind, Outcome.bind, pure, List.cons_append, List.nil_append]
    rw [CellR.readUint_append 32 _ _ _ hop32]; simp only []
    rw [if_neg hopx, if_neg hops]
    rw [CellR.readUint_append 32 _ _ _ h2]; simp only []
    rw [CellR.readUint_append 32 _ _ _ hvu]; simp only []
    rw [CellR.readUint_append 32 _ _ _ hseq]; simp only [CellR.readBit_cons, readActionsRefIf, ↓reduceIte]
    rw [readActionsRef_ok msgs _ _ hm ht]
    simp only [CellR.readBit_cons, ↓reduceIte]
    rw [readExtActions_ok a tl hw (bytesToBits sig)]
    simp only []
    rw [CellR.readBits_exact _ _ 512 hl]
    simp [actionsToMsgs_map]

/-- The `extension_action` form (sent by an extension; no signature): the body marshalled from `wallet.MessageV5`
decodes to its query id, its send actions and its extended actions — and `ExtractRawMessages` returns NO messages for
it (`MessageV5.RawMessages()` has no case for `ExtensionAction`; modelled as the code is). -/
theorem decode_extension_action (q : Nat) (hq : q < 18446744073709551616) (msgs : List RawMsg) (hm : ∀ m ∈ msgs, m.mode < 256)
    (ht : ∀ m ∈ msgs, m.msg.ty ≠ tyLibrary ∧ m.msg.ty ≠ tyPruned) (a : ExtAction) (tl : List ExtAction) (hw : ∀ x ∈ a :: tl, x.WF) :
    ∃ body, extensionBody q (some msgs) (some (a :: tl)) = .ok body ∧
      decodeBody .v5r1 body =
        .ok { ids := {}, seqno := 0, validUntil := 0, queryId := q, msgs := [], ext := a :: tl, extnActions := msgs } := by
  refine ⟨.ordinary (natToBits 32 opExtension ++ natToBits 64 q ++ [true] ++ [true] ++ extActionBits a)
    ([actionsCell msgs] ++ (if tl = [] then [] else [extChainCell tl])), ?_, ?_⟩
  · unfold extensionBody writeActionsField writeExtField
    simp only [bind, Outcome.bind, pure, w5Actions_ok]
    rw [CellB.writeUint_ok _ _ _ (by simp [CellB.empty])]; simp only []
    rw [CellB.writeUint_ok _ _ _ (by simp [CellB.empty])]; simp only []
    rw [CellB.write_ok _ _ (by simp [CellB.empty])]; simp only []
    rw [CellB.addRef_ok _ _ (by simp [CellB.empty])]; simp only []
    rw [CellB.write_ok _ _ (by simp [CellB.empty])]; simp only []
    rw [writeExtActions_ok a tl _ (by simp [CellB.empty]) (by simp [CellB.empty])]
    simp [CellB.toCell, CellB.empty, Cell.ordinary]
  · unfold decodeBody
    simp only [Version.family, Cell.ordinary, Cell.ty, Cell.bits, Cell.refs, CellR.ofCell, tyLibrary]
    rw [if_neg (by decide), if_neg (by simp)]
    simp only [List.append_assoc, bind, Outcome.bind, pure, List.cons_append, List.nil_append]
    rw [CellR.readUint_append 32 opExtension _ _ (by decide)]; simp only [↓reduceIte]
    rw [CellR.readUint_append 64 _ _ _ hq]; simp only [CellR.readBit_cons, readActionsRefIf, ↓reduceIte]
    rw [readActionsRef_ok msgs _ _ hm ht]
    simp only [CellR.readBit_cons, readExtField, ↓reduceIte]
    have := readExtActions_ok a tl hw []
    rw [List.append_nil] at this
    rw [this]
    simp [actionsToMsgs_map]

/-! ### too many messages -/

/-- A send with more messages than the version allows is refused by RawSendV2 before anything is built or sent; and
the payload marshalers themselves refuse more than 4 (v1..v4) / 254 (highload) messages. -/
theorem too_many_refused (loop : Nat → Nat → List Poll → Bool) (v : Version) (self : Address) (seqno : Nat) (init : Bool)
    (n : Nat) (sc : Script) (wait : Nat) (hn : n > maxMessages v) :
    (rawSendV2 loop v self seqno init n sc wait).sent = none
    ∧ (∃ e, (rawSendV2 loop v self seqno init n sc wait).outcome = .err e)
    ∧ (∀ b msgs, msgs.length > 4 → ∃ e, payloadV1toV4 b msgs = .err e)
    ∧ (∀ b msgs, msgs.length > 254 → ∃ e, payloadHighload b msgs = .err e) := by
  refine ⟨by simp [rawSendV2, hn], ⟨"too many messages", by simp [rawSendV2, hn]⟩, ?_, ?_⟩
  · intro b msgs h; exact payloadV1toV4_too_many b msgs h
  · intro b msgs h; exact ⟨"PayloadHighload supports only up to 254 messages", by simp [payloadHighload, h]⟩

/-! ### defects repaired, as negations about the code before the repair -/

/-- **Extra currencies** (`SimpleTransfer.ExtraCurrency`): what `ToInternal` puts into the value of the outgoing message —
`hme_empty$0` for none, otherwise `hme_root$1` and a dictionary `HashmapE 32 (VarUInteger 32)` keyed by `uint32(id)` — is
read back by the `ExtraCurrencyCollection` decoder at that position as exactly the requested (id, amount) pairs, in
ascending id order; the builder can only succeed when the ids are pairwise distinct. (Field-level composition through
the dictionary theorems of C05; the whole-message layout theorems `internal_message_layout` / `carried_init_is_requested`
are stated for messages WITHOUT extra currencies; with them the whole message is compared with Go by `m.int` /
`m.intdec` and the oracle `go.m.modes` on every run.) -/
theorem extra_currencies_carried (b : CellB) (extra : List (Nat × Nat)) (hne : extra ≠ []) (hid : ∀ p ∈ extra, p.1 < 2 ^ 32)
    (hamt : ∀ p ∈ extra, byteLen p.2 ≤ 31) (b' : CellB) (h : writeExtra b extra = .ok b') (rest : List Bool) (refs : List Cell) :
    ∃ d, b' = { bits := b.bits ++ [true], refs := b.refs ++ [d] } ∧
      (Hashmap.keysOf (extraKvs extra)).Nodup ∧
      readExtra { bits := true :: rest, refs := d :: refs } =
        .ok ((Hashmap.sortKV (extraKvs extra)).map (fun kv => (bitsToNat kv.1, kv.2)), { bits := rest, refs := refs }) := by
  obtain ⟨d, hd, hb, hr⟩ := (extra_currencies_roundtrip b extra hid hamt b' h rest refs).2 hne
  exact ⟨d, hb, (extra_dict_roundtrip extra hne hid hamt d hd).1, hr⟩

/-- Both sides of the boundary: a batch of EXACTLY the version's maximum (4 for v3/v4, 254 for v5 beta and highload,
255 for v5r1) — and every smaller one — passes the guard and is sent (one message, to the wallet's own address); one
more is refused with nothing sent. -/
theorem limit_boundary (loop : Nat → Nat → List Poll → Bool) (v : Version) (hv : v.family ≠ .v1v2) (self : Address) (seqno : Nat)
    (init : Bool) (n : Nat) (sc : Script) (hs : sc.sendErr = false) :
    (n ≤ maxMessages v → (rawSendV2 loop v self seqno init n sc 0).outcome = .ok () ∧
        (rawSendV2 loop v self seqno init n sc 0).sent =
          some { destWc := toI8 self.workchain, destHash := self.hash, init := init, seqno := seqno })
    ∧ (rawSendV2 loop v self seqno init (maxMessages v + 1) sc 0).sent = none
    ∧ (maxMessages v = match v.family with | .v5r1 => 255 | .v5beta | .highload => 254 | _ => 4) := by
  refine ⟨fun hn => ?_, by simp [rawSendV2], by cases v <;> rfl⟩
  unfold rawSendV2
  rw [if_neg (by omega)]
  cases hf : v.family <;> simp_all

/-- Before the repair a highload message with no transfers could not be decoded by the library's own decoder: the
payload was `1 ^<empty cell>`, and the dictionary reader fails on the empty cell. -/
theorem highload_empty_undecodable_before_fix :
    ∃ b, payloadHighloadV0 CellB.empty [] = .ok b ∧
      ∃ e, readHashmapE (fun r => Outcome.ok r) 16 (CellR.ofCell b.toCell) = .err e := by
  refine ⟨{ bits := [true], refs := [.ordinary [] []] }, rfl, "not enough bits", rfl⟩

/-- Before the repair `VerifySignature` refused every v5 beta message, so a v5 beta message built by the wallet did
not verify against its own key. -/
theorem v5beta_unverifiable_before_fix (verify : List UInt8 → List UInt8 → List UInt8 → Bool) (pk : List UInt8) (c : Cell) :
    verifySignatureV0 H verify .v5beta c pk = .err "wallet version is not supported" := by
  simp [verifySignatureV0]

/-! ### outgoing messages and the state init they carry -/

/-- `ToInternal` + marshalling of a requested message (32-byte address, `uint64` amount, no extra currencies) never overflows a cell and
returns the written-out layout: the state init is attached, by reference, exactly when code AND data are given. -/
theorem internal_message_layout (m : OutMsg) (hh : m.dest.hash.length = 32) (ha : m.amount < 2 ^ 64) (hx : m.extra = []) :
    internalMsg m = .ok (internalLayout m) ∧ (internalLayout m).refs.length = m.init.toList.length + m.body.toList.length := by
  refine ⟨internalMsg_ok m hh ha hx, ?_⟩
  simp [internalLayout, Cell.ordinary, Cell.refs]
  cases m.body <;> simp

/-- Requested vs. extracted: the message built for a request with code `c` and data `d` is read back (by the
`tlb.Message` decoder) with a state init whose code is `c` and whose data is `d` — BOTH present —, with no library, the
referenced cell being exactly `StateInit{code, data}`; bounce flag, amount and destination come back as requested. -/
theorem carried_init_is_requested (m : OutMsg) (c d : Cell) (hc : m.code = some c) (hd : m.data = some d)
    (hh : m.dest.hash.length = 32) (ha : m.amount < 2 ^ 64) (hdep : (internalLayout m).depthO ≤ maxDepth) :
    ∃ x, decodeInternal (internalLayout m) = .ok x ∧ x.hasInit = true ∧ x.init.cell = some (stateInitCell c d) ∧
      x.init.code = some c ∧ x.init.data = some d ∧ x.bounce = m.bounce ∧ x.amount = m.amount ∧
      x.dest = some (bitsToInt (intToBits 8 (toI8 m.dest.workchain)), bytesToBits m.dest.hash) := by
  have hi : m.init = some (stateInitCell c d) := by simp [OutMsg.init, hc, hd]
  refine ⟨_, decodeInternal_layout m hh ha hdep, ?_⟩
  simp [OutMsg.initRead, hi, hc, hd]

/-- Without both code and data no state init is sent (and none is read back). -/
theorem no_init_without_code_and_data (m : OutMsg) (h : m.code = none ∨ m.data = none)
    (hh : m.dest.hash.length = 32) (ha : m.amount < 2 ^ 64) (hdep : (internalLayout m).depthO ≤ maxDepth) :
    ∃ x, decodeInternal (internalLayout m) = .ok x ∧ x.hasInit = false ∧ x.init.code = none ∧ x.init.data = none := by
  have hi : m.init = none := by
    unfold OutMsg.init
    rcases h with h | h
    · simp [h]
    · cases m.code <;> simp [h]
  refine ⟨_, decodeInternal_layout m hh ha hdep, ?_⟩
  simp [OutMsg.initRead, hi]

/-- `ContractDeploy`: the message is addressed to the hash of the state init it CARRIES — the destination read back
from the built message is the representation hash of the state-init cell read back from the same message, and that
state init holds the requested code and data. -/
theorem deploy_address_is_carried_init_hash (hlen : ∀ x, (H x).length = 32) (wc : Int) (c d : Cell) (body : Option Cell) (amount : Nat)
    (ha : amount < 2 ^ 64) (m : OutMsg) (hm : contractDeploy H wc (some c) (some d) body amount = .ok m)
    (hdep : (internalLayout m).depthO ≤ maxDepth) :
    internalMsg m = .ok (internalLayout m) ∧ m.mode = 3 ∧
    ∃ x si, decodeInternal (internalLayout m) = .ok x ∧ x.init.cell = some si ∧ x.init.code = some c ∧ x.init.data = some d ∧
      si.hashO? H = .ok m.dest.hash ∧ x.dest = some (bitsToInt (intToBits 8 (toI8 wc)), bytesToBits m.dest.hash) := by
  unfold contractDeploy at hm
  simp only [bind] at hm
  obtain ⟨h, hh, hm⟩ := Outcome.bind_eq_ok.mp hm
  simp only [pure, Outcome.ok.injEq] at hm
  subst hm
  have hl : h.length = 32 := by
    unfold Cell.hashO? at hh
    split at hh
    · simp only [Outcome.ok.injEq] at hh
      rw [← hh]; simp [stateInitCell, Cell.ordinary, Cell.hashO, hlen]
    · simp at hh
  obtain ⟨x, hx, _, hcell, hcode, hdata, _, _, hdest⟩ :=
    carried_init_is_requested ⟨true, ⟨wc, h⟩, amount, body, some c, some d, 3, []⟩ c d rfl rfl hl ha hdep
  exact ⟨internalMsg_ok _ hl ha rfl, rfl, x, _, hx, hcell, hcode, hdata, hh, hdest⟩

/-- Only one of code / data: `ContractDeploy` refuses. -/
theorem deploy_needs_code_and_data (wc : Int) (code data body : Option Cell) (amount : Nat) (h : code = none ∨ data = none) :
    contractDeploy H wc code data body amount = .err "code and data must be set" := by
  rcases h with h | h
  · simp [contractDeploy, h]
  · cases code <;> simp [contractDeploy, h]

/-! ### the hypotheses are satisfiable -/

/-- non-vacuity of `SigCorrect` and the length premises: the toy scheme `pub = id`, `sign sk m = (sk ++ m)` padded or
cut to 64 bytes, `verify pk m s = (s == sign pk m)` -/
example : SigCorrect (fun sk m => (sk ++ m ++ List.replicate 64 0).take 64) (fun pk m s => s == (pk ++ m ++ List.replicate 64 0).take 64) id ∧
    ∀ sk m : List UInt8, ((sk ++ m ++ List.replicate 64 0).take 64).length = 64 := by
  constructor
  · intro sk m; simp
  · intro sk m; simp; omega

/-- non-vacuity of the negative clauses: the toy ideal scheme (`Sig.toy_ideal`: correct, sound, 64-byte
signatures, 32-byte keys — and accepting everything under a key that is not honestly generated), the "hash" `pad32` (32-byte outputs) which is collision-free on the representations of two
one-bit cells that differ in that bit, both trees of ordinary cells -/
example : Sig.Ideal Sig.toySign Sig.toyVerify Sig.toyPub ∧ (∀ sk m, (Sig.toySign sk m).length = 64) ∧
    (∀ x, (Sig.pad32 x).length = 32) ∧
    (Cell.ordinary [true] []).wfOrd = true ∧ (Cell.ordinary [false] []).wfOrd = true ∧
    Cell.ordinary [false] [] ≠ Cell.ordinary [true] [] ∧
    CollisionFree Sig.pad32 (Cell.reprs Sig.pad32 (Cell.ordinary [true] []) ++ Cell.reprs Sig.pad32 (Cell.ordinary [false] [])) := by
  refine ⟨Sig.toy_ideal.1, Sig.toy_ideal.2.2.1, Sig.pad32_length, by decide, by decide, by simp [Cell.ordinary], ?_⟩
  intro x hx y hy h
  simp only [Cell.reprs, Cell.ordinary, Cell.reprsList, List.append_nil, List.cons_append, List.nil_append, List.mem_cons,
    List.not_mem_nil, or_false] at hx hy
  rcases hx with rfl | rfl <;> rcases hy with rfl | rfl
  · rfl
  · exfalso; revert h
    simp [Sig.pad32, Sig.pad, reprNoRefs, toppedUp, addTag, bitsToBytes, d1, d2, bitsToNat, Cell.depthsO, Cell.hashesO]
  · exfalso; revert h
    simp [Sig.pad32, Sig.pad, reprNoRefs, toppedUp, addTag, bitsToBytes, d1, d2, bitsToNat, Cell.depthsO, Cell.hashesO]
  · rfl

/-- the accept-all verifier, which satisfies `SigCorrect`, is excluded by the hypotheses of the negative clauses -/
example (sign : List UInt8 → List UInt8 → List UInt8) (pub : List UInt8 → List UInt8) :
    SigCorrect sign (fun _ _ _ => true) pub ∧ ¬ Sig.Ideal sign (fun _ _ _ => true) pub :=
  ⟨fun _ _ => rfl, fun I => Sig.accept_all_violates sign pub I.sound⟩

/-- non-vacuity of `decode_build`'s premises: a v4r2 wallet, two messages -/
example : (Version.v4r2).family = .v4 ∧ ({ subWallet := 698983191 } : BodyIds).WF ∧
    ([⟨3, .ordinary [true] []⟩, ⟨128, .ordinary [] []⟩] : List RawMsg).length ≤ 4 := by
  refine ⟨rfl, by unfold BodyIds.WF; decide, by decide⟩

/-- non-vacuity of `deploy_address_is_carried_init_hash`'s premises: a deploy with a toy 32-byte hash -/
example : ∃ m, contractDeploy (fun _ => List.replicate 32 0) 0 (some (.ordinary [true] [])) (some (.ordinary [] [])) none 5 = .ok m ∧
    (internalLayout m).depthO ≤ maxDepth ∧ m.dest.hash.length = 32 := by
  refine ⟨_, rfl, by decide, by decide⟩
/-! ### the highload query id and the default send mode: regenerated Go code against the model -/

/-- tie (X4, regenerated from wallet/wallet_highload_v2.go): the Go expression
`uint64(msgConfig.ValidUntil.UTC().Unix()<<32) + uint64(rand.Uint32())` of `createSignedMsgBodyCell` (64-bit shift and
wrapping add on `BitVec`, `Gen.WalletInts.highloadQueryID`) is the value
`(validUntil * 4294967296 + rnd) % 18446744073709551616` that the model's highload `bodyCell` writes on 64 bits, for
every non-negative `int64` unix time and every `uint32` random word. -/
theorem gen_highloadQueryID (validUntil rnd : Nat) (hv : validUntil < 2 ^ 63) (hr : rnd < 2 ^ 32) :
    (Gen.WalletInts.highloadQueryID (BitVec.ofNat 64 validUntil) (BitVec.ofNat 32 rnd)).toNat
      = (validUntil * 4294967296 + rnd) % 18446744073709551616 :=
  GenTies.gen_highloadQueryID validUntil rnd hv hr

/-- tie (X4, regenerated from wallet/wallet_highload_v2.go): for `validUntil < 2^32` (every date until 2106) the
regenerated query id does not wrap: its high half is `validUntil` (what the parse side reads back as
`q / 4294967296`) and its low half is the random word. -/
theorem gen_highloadQueryID_unpack (validUntil rnd : Nat) (hv : validUntil < 2 ^ 32) (hr : rnd < 2 ^ 32) :
    (Gen.WalletInts.highloadQueryID (BitVec.ofNat 64 validUntil) (BitVec.ofNat 32 rnd)).toNat / 4294967296
        = validUntil ∧
      (Gen.WalletInts.highloadQueryID (BitVec.ofNat 64 validUntil) (BitVec.ofNat 32 rnd)).toNat % 4294967296
        = rnd :=
  ⟨GenTies.gen_highloadQueryID_div validUntil rnd hv hr, GenTies.gen_highloadQueryID_mod validUntil rnd hv hr⟩

/-- tie (X4, regenerated from wallet/models.go): the send mode returned by `SimpleTransfer.ToInternal`
(`DefaultMessageMode`) is `3 = 1 + 2`: pay transfer fees separately (1) + ignore errors of the action phase (2). -/
theorem gen_defaultMessageMode : Gen.WalletInts.defaultMessageMode = 3#8 :=
  GenTies.gen_defaultMessageMode

end Tongo.C14
