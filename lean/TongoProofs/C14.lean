import TongoProofs.Lemmas.WalletMsg
/-! Property C14 — wallet-built messages carry the requested transfers under a valid signature.

Model: `TongoModel/WalletMsg.lean` (bodies per version, signature placement, external-message envelope, verifiers,
decoders), `TongoModel/WalletSend.lean` (the message-count guard of RawSendV2). `H`, `sign`, `verify` are parameters;
`SigCorrect` is an explicit premise; "verifies against no other key / stops verifying when a bit changes" reduce, by
`signed_digest_is_body` and `body_repr_injective`, to unforgeability of the signature scheme and collision-freedom of
the hash on the two representations — named idealisations, exercised with real Ed25519 on every run.
Property theorems only. -/
namespace Tongo.C14
open Tongo Tongo.Wallet Tongo.Bits

variable (H : List UInt8 → List UInt8)

/-- signature correctness: what the key pair signs, its public key verifies -/
def SigCorrect (sign : List UInt8 → List UInt8 → List UInt8) (verify : List UInt8 → List UInt8 → List UInt8 → Bool)
    (pub : List UInt8 → List UInt8) : Prop := ∀ sk m, verify (pub sk) m (sign sk m) = true

/-! ### the builders never overflow a cell -/

/-- v3, v4 (at most 4 messages), v5r1, v5 beta (any number of messages): the signed cell is the written-out layout
(`signedLayout`: v3 96 bits + 8 per message and one ref per message; v4 104 + 8n; v5r1 130 bits and one ref holding the
nested action list; v5 beta 177 bits and that ref), the signature (64 bytes) is attached in front of it (v3/v4) or
behind it (v5) without overflowing 1023 bits / 4 refs, and the envelope for a 32-byte address fits as well. -/
theorem fits_in_cell (sign : List UInt8 → List UInt8 → List UInt8) (hsl : ∀ sk m, (sign sk m).length = 64) (sk : List UInt8)
    (v : Version) (hf : v.family = .v3 ∨ v.family = .v4 ∨ v.family = .v5r1 ∨ v.family = .v5beta)
    (ids : BodyIds) (op seqno vu rnd : Nat) (msgs : List RawMsg) (hn : (v.family = .v3 ∨ v.family = .v4) → msgs.length ≤ 4)
    (hdep : (signedLayout v ids op seqno vu msgs).depthO ≤ maxDepth) (self : Address) (hh : self.hash.length = 32) (init : Option Cell) :
    createSignedBody H sign sk v ids op seqno vu rnd msgs =
        .ok (attached v (sign sk ((signedLayout v ids op seqno vu msgs).hashO H)) (signedLayout v ids op seqno vu msgs))
    ∧ (attached v (sign sk ((signedLayout v ids op seqno vu msgs).hashO H)) (signedLayout v ids op seqno vu msgs)).bits.length ≤ 1023
    ∧ (attached v (sign sk ((signedLayout v ids op seqno vu msgs).hashO H)) (signedLayout v ids op seqno vu msgs)).refs.length ≤ 4
    ∧ ∀ body, extMessage self body init = .ok (envelope self body init) := by
  obtain ⟨hb, hr, _, _⟩ := signedLayout_size v ids op seqno vu msgs hn
  refine ⟨?_, ?_, ?_, fun body => extMessage_ok self hh body init⟩
  · unfold createSignedBody
    rw [signedCell_ok v ids op seqno vu rnd msgs hf hn]
    simp only [bind, Outcome.bind, Cell.hashO?, hdep, ↓reduceIte]
    rw [attachSignature_ok v _ (hsl _ _) _ hb hr]
    rfl
  · rw [(attached_size v _ _).1, hsl]; omega
  · rw [(attached_size v _ _).2]; exact hr

/-- The highload wallet: the signed cell is `sub-wallet id (32) ‖ query id (64) ‖ 1` with one ref to the dictionary of
the messages (keys 0..n-1 on 16 bits, value `mode ‖ ^msg`), or `… ‖ 0` without ref for no message; the query id is
`validUntil · 2³² + rnd (mod 2⁶⁴)`. (That `highloadDict` succeeds for every n ≤ 254 is checked by the
correspondence, not proved.) -/
theorem fits_in_cell_highload (ids : BodyIds) (op seqno vu rnd : Nat) (msgs : List RawMsg) (hn : msgs.length ≤ 254) :
    (msgs = [] → signedCell .highloadV2R2 ids op seqno vu rnd msgs =
        .ok (.ordinary (natToBits 32 ids.subWallet ++ natToBits 64 ((vu * 4294967296 + rnd) % 18446744073709551616) ++ [false]) []))
    ∧ (∀ d, msgs ≠ [] → highloadDict msgs = .ok d → signedCell .highloadV2R2 ids op seqno vu rnd msgs =
        .ok (.ordinary (natToBits 32 ids.subWallet ++ natToBits 64 ((vu * 4294967296 + rnd) % 18446744073709551616) ++ [true]) [d])) := by
  constructor
  · intro he
    subst he
    simp [signedCell, Version.family, payloadHighload, bind, Outcome.bind, pure, CellB.writeUint, CellB.write, CellB.empty,
      CellB.toCell]
  · intro d hne hd
    have hemp : msgs.isEmpty = false := by cases msgs <;> simp_all
    simp [signedCell, Version.family, payloadHighload, bind, Outcome.bind, pure, CellB.writeUint, CellB.write, CellB.empty,
      CellB.toCell, CellB.addRef, hd, hemp, Nat.not_lt.mpr hn]

/-! ### what is signed -/

/-- The byte string handed to `sign` (by the builder) and to `verify` (by the verifier of the version) is the
representation hash of exactly the cell holding the wallet id / sub-wallet id, expiry, seqno, [op] and the messages —
`signedLayout` — and nothing else: for v3/v4 the body without its leading 512 bits, for v5 the body without its
trailing 512 bits, with the same refs. -/
theorem signed_digest_is_body (sign : List UInt8 → List UInt8 → List UInt8) (hsl : ∀ sk m, (sign sk m).length = 64) (sk : List UInt8)
    (v : Version) (hf : v.family = .v3 ∨ v.family = .v4 ∨ v.family = .v5r1 ∨ v.family = .v5beta)
    (ids : BodyIds) (op seqno vu rnd : Nat) (msgs : List RawMsg) (hn : (v.family = .v3 ∨ v.family = .v4) → msgs.length ≤ 4)
    (hdep : (signedLayout v ids op seqno vu msgs).depthO ≤ maxDepth) (b : Cell)
    (hb : createSignedBody H sign sk v ids op seqno vu rnd msgs = .ok b) :
    b = attached v (sign sk ((signedLayout v ids op seqno vu msgs).hashO H)) (signedLayout v ids op seqno vu msgs)
    ∧ verifierOf v = some (!sigFirst v)
    ∧ splitSignature H (!sigFirst v) b =
        .ok ((signedLayout v ids op seqno vu msgs).hashO H, sign sk ((signedLayout v ids op seqno vu msgs).hashO H)) := by
  have hfit := (fits_in_cell H sign hsl sk v hf ids op seqno vu rnd msgs hn hdep ⟨0, List.replicate 32 0⟩ (by simp) none).1
  rw [hfit] at hb
  simp only [Outcome.ok.injEq] at hb
  obtain ⟨_, _, hty, hmask⟩ := signedLayout_size v ids op seqno vu msgs hn
  refine ⟨hb.symm, ?_, ?_⟩
  · unfold verifierOf sigFirst
    rcases hf with h | h | h | h <;> simp [h]
  · rw [← hb]
    exact splitSignature_attached H (sigFirst v) _ (hsl _ _) _ hty hmask hdep

/-- Two ordinary cells (≤ 1023 bits, ≤ 4 refs) with the same representation have the same bits, the same number of
refs and refs with the same hashes: changing any bit of the signed cell, or any bit of any cell below it (which
changes that ref's hash unless `H` collides), changes the representation. -/
theorem body_repr_injective (hlen : ∀ x, (H x).length = 32) (bits bits' : List Bool) (refs refs' : List Cell)
    (hb : bits.length ≤ 1023) (hb' : bits'.length ≤ 1023) (hr : refs.length ≤ 4) (hr' : refs'.length ≤ 4)
    (h : (Cell.ordinary bits refs).reprO H = (Cell.ordinary bits' refs').reprO H) :
    bits = bits' ∧ refs.length = refs'.length ∧ refs.map (Cell.hashO H) = refs'.map (Cell.hashO H) :=
  let r := Cell.reprO_ordinary_inj H hlen bits bits' refs refs' hb hb' hr hr' h
  ⟨r.1, r.2.1, r.2.2.1⟩

/-- Hence two signed cells that differ in a bit or in a ref hash have different digests unless `H` collides on their
two representations: a signature on one of them is a signature on a different message than the other's digest, and
accepting it would be a forgery. -/
theorem different_body_different_digest (hlen : ∀ x, (H x).length = 32) (bits bits' : List Bool) (refs refs' : List Cell)
    (hb : bits.length ≤ 1023) (hb' : bits'.length ≤ 1023) (hr : refs.length ≤ 4) (hr' : refs'.length ≤ 4)
    (cf : CollisionFree H [(Cell.ordinary bits refs).reprO H, (Cell.ordinary bits' refs').reprO H])
    (hne : bits ≠ bits' ∨ refs.map (Cell.hashO H) ≠ refs'.map (Cell.hashO H)) :
    (Cell.ordinary bits refs).hashO H ≠ (Cell.ordinary bits' refs').hashO H := by
  intro h
  rw [Cell.hashO_eq_H_reprO, Cell.hashO_eq_H_reprO] at h
  have := body_repr_injective H hlen bits bits' refs refs' hb hb' hr hr' (cf.pair h)
  rcases hne with h1 | h1
  · exact h1 this.1
  · exact h1 this.2.2

/-! ### the wallet's own key verifies -/

/-- Signature correctness ⇒ the external message built by the wallet (any of v3, v4, v5r1, v5 beta; any ids, seqno,
expiry; messages within the version's payload limit; with or without the wallet's state-init attached) verifies
against the wallet's public key through `VerifySignature`. -/
theorem verify_own_key (sign : List UInt8 → List UInt8 → List UInt8) (verify : List UInt8 → List UInt8 → List UInt8 → Bool)
    (pub : List UInt8 → List UInt8) (hsc : SigCorrect sign verify pub) (hsl : ∀ sk m, (sign sk m).length = 64)
    (sk : List UInt8) (hpk : (pub sk).length = 32)
    (v : Version) (hf : v.family = .v3 ∨ v.family = .v4 ∨ v.family = .v5r1 ∨ v.family = .v5beta)
    (ids : BodyIds) (op seqno vu rnd : Nat) (msgs : List RawMsg) (hn : (v.family = .v3 ∨ v.family = .v4) → msgs.length ≤ 4)
    (self : Address) (hh : self.hash.length = 32) (code data : Cell) (withInit : Bool) (body msg : Cell)
    (hbody : createSignedBody H sign sk v ids op seqno vu rnd msgs = .ok body)
    (hmsg : extMessage self body (if withInit then some (stateInitCell code data) else none) = .ok msg)
    (hdep : msg.depthO ≤ maxDepth) (hdepL : (signedLayout v ids op seqno vu msgs).depthO ≤ maxDepth) :
    verifySignature H verify v msg (pub sk) = .ok true := by
  obtain ⟨hb, hver, hsplit⟩ := signed_digest_is_body H sign hsl sk v hf ids op seqno vu rnd msgs hn hdepL body hbody
  rw [extMessage_ok self hh] at hmsg
  simp only [Outcome.ok.injEq] at hmsg
  subst hmsg
  have hbo : Cell.ordinary body.bits body.refs = body := by
    rw [hb]; unfold attached; split <;> rfl
  have hdec := decodeExtMessage_envelope self hh body (if withInit then some (stateInitCell code data) else none)
    (by
      intro si hsi
      cases withInit with
      | false => simp at hsi
      | true =>
        simp only [↓reduceIte, Option.some.injEq] at hsi
        subst hsi
        exact ⟨by simp [stateInitCell, Cell.ordinary, Cell.ty, tyLibrary], _, skipStateInit_stateInitCell code data⟩) hdep
  unfold verifySignature
  rw [hver, hdec]
  simp only [bind, Outcome.bind, hbo, hsplit]
  simp [edVerify, hpk, hsc sk]

/-! ### decoding returns what was requested -/

/-- Decoding the external message built by the wallet returns the same sub-wallet / wallet id fields, seqno, expiry
and exactly the requested messages with their modes, in order (v3, v4, v5r1, v5 beta; field values within their Go
types; for v5 the outgoing messages are not library or pruned-branch cells, which the v5 decoder refuses or drops). -/
theorem decode_build (v : Version) (hf : v.family = .v3 ∨ v.family = .v4 ∨ v.family = .v5r1 ∨ v.family = .v5beta)
    (ids : BodyIds) (hids : ids.WF) (op seqno vu : Nat) (hop : op = opSignedExternal ∨ op = opSignedInternal)
    (hseq : seqno < 4294967296) (hvu : vu < 4294967296) (msgs : List RawMsg)
    (hn : (v.family = .v3 ∨ v.family = .v4) → msgs.length ≤ 4) (hm : ∀ m ∈ msgs, m.mode < 256)
    (ht : (v.family = .v5r1 ∨ v.family = .v5beta) → ∀ m ∈ msgs, m.msg.ty ≠ tyLibrary ∧ m.msg.ty ≠ tyPruned)
    (sig : List UInt8) (hs : sig.length = 64) (self : Address) (hh : self.hash.length = 32) (code data : Cell) (withInit : Bool)
    (hdep : (envelope self (attached v sig (signedLayout v ids op seqno vu msgs))
        (if withInit then some (stateInitCell code data) else none)).depthO ≤ maxDepth) :
    decodeMessage v (envelope self (attached v sig (signedLayout v ids op seqno vu msgs))
        (if withInit then some (stateInitCell code data) else none)) =
      .ok { ids := ids.restrict v, seqno := seqno, validUntil := vu, msgs := msgs } := by
  have hbo : Cell.ordinary (attached v sig (signedLayout v ids op seqno vu msgs)).bits
      (attached v sig (signedLayout v ids op seqno vu msgs)).refs = attached v sig (signedLayout v ids op seqno vu msgs) := by
    unfold attached; split <;> rfl
  have hdec := decodeExtMessage_envelope self hh (attached v sig (signedLayout v ids op seqno vu msgs))
    (if withInit then some (stateInitCell code data) else none)
    (by
      intro si hsi
      cases withInit with
      | false => simp at hsi
      | true =>
        simp only [↓reduceIte, Option.some.injEq] at hsi
        subst hsi
        exact ⟨by simp [stateInitCell, Cell.ordinary, Cell.ty, tyLibrary], _, skipStateInit_stateInitCell code data⟩) hdep
  unfold decodeMessage
  rw [hdec]
  simp only [bind, Outcome.bind, hbo]
  exact decodeBody_attached v hf ids hids op seqno vu hop hseq hvu msgs hn hm ht sig hs

/-- the ids a wallet derives from its options are exactly the fields its body carries -/
theorem bodyIds_restrict (v : Version) (o : Opts) : (bodyIds v o).restrict v = bodyIds v o := by
  unfold bodyIds BodyIds.restrict
  cases v.family <;> rfl

/-! ### too many messages -/

/-- A send with more messages than the version allows is refused by RawSendV2 before anything is built or sent; and
the payload marshalers themselves refuse more than 4 (v1..v4) / 254 (highload) messages. -/
theorem too_many_refused (loop : Nat → Nat → List Poll → Bool) (v : Version) (self : Address) (seqno : Nat) (init : Bool)
    (n : Nat) (sc : Script) (wait : Nat) (hn : n > maxMessages v) :
    (rawSendV2 loop v self seqno init n sc wait).sent = none
    ∧ (∃ e, (rawSendV2 loop v self seqno init n sc wait).outcome = .err e)
    ∧ (∀ b msgs, msgs.length > 4 → ∃ e, payloadV1toV4 b msgs = .err e)
    ∧ (∀ b msgs, msgs.length > 254 → ∃ e, payloadHighload b msgs = .err e) := by
  refine ⟨by simp [rawSendV2, hn], ⟨"too many messages", by simp [rawSendV2, hn]⟩, ?_, ?_⟩
  · intro b msgs h; exact payloadV1toV4_too_many b msgs h
  · intro b msgs h; exact ⟨"PayloadHighload supports only up to 254 messages", by simp [payloadHighload, h]⟩

/-! ### defects repaired, as negations about the code before the repair -/

/-- Before the repair a highload message with no transfers could not be decoded by the library's own decoder: the
payload was `1 ^<empty cell>`, and the dictionary reader fails on the empty cell. -/
theorem highload_empty_undecodable_before_fix :
    ∃ b, payloadHighloadV0 CellB.empty [] = .ok b ∧
      ∃ e, readHashmapE (fun r => Outcome.ok r) 16 (CellR.ofCell b.toCell) = .err e := by
  refine ⟨{ bits := [true], refs := [.ordinary [] []] }, rfl, "not enough bits", rfl⟩

/-- Before the repair `VerifySignature` refused every v5 beta message, so a v5 beta message built by the wallet did
not verify against its own key. -/
theorem v5beta_unverifiable_before_fix (verify : List UInt8 → List UInt8 → List UInt8 → Bool) (pk : List UInt8) (c : Cell) :
    verifySignatureV0 H verify .v5beta c pk = .err "wallet version is not supported" := by
  simp [verifySignatureV0]

/-! ### the hypotheses are satisfiable -/

/-- non-vacuity of `SigCorrect` and the length premises: the toy scheme `pub = id`, `sign sk m = (sk ++ m)` padded or
cut to 64 bytes, `verify pk m s = (s == sign pk m)` -/
example : SigCorrect (fun sk m => (sk ++ m ++ List.replicate 64 0).take 64) (fun pk m s => s == (pk ++ m ++ List.replicate 64 0).take 64) id ∧
    ∀ sk m : List UInt8, ((sk ++ m ++ List.replicate 64 0).take 64).length = 64 := by
  constructor
  · intro sk m; simp
  · intro sk m; simp; omega

/-- non-vacuity of `decode_build`'s premises: a v4r2 wallet, two messages -/
example : (Version.v4r2).family = .v4 ∧ ({ subWallet := 698983191 } : BodyIds).WF ∧
    ([⟨3, .ordinary [true] []⟩, ⟨128, .ordinary [] []⟩] : List RawMsg).length ≤ 4 := by
  refine ⟨rfl, by unfold BodyIds.WF; decide, by decide⟩

end Tongo.C14
