import TongoProofs.Lemmas.CellHashTree
import TongoGen.LevelMask
/-! Property C02 — cell hash, depth and level follow the TON representation-hash definition.

Model: `Tongo.Cell.info` = `newImmutableCell` on a whole tree (`computeInfo`/`levelStep` per cell, line by line),
`HashInfo.hashAt`/`depthAt` = `immutableCell.Hash`/`Depth` with their slice arithmetic as partial operations.
Specification: `Tongo.Spec.hashAt`/`depthAt`/`level` (TongoModel/CellHashSpec.lean). `H` (SHA-256 in the driver) is a
parameter of every statement. Property theorems only; helper lemmas live in TongoProofs/Lemmas/CellHash*.lean. -/
namespace Tongo.C02
open Tongo Tongo.CellHashLemmas

/-- **Tie to the source.** The definitions REGENERATED from boc/level_mask.go on every run (translator X4,
`TongoGen/LevelMask.lean`: `bits.LeadingZeros32`, `bits.OnesCount32`, 32-bit shifts with Go semantics) equal the hand
model `Tongo.LevelMask.*` used by the hash model, for all masks 0..7 and levels 0..4: a change to level_mask.go changes
the regenerated file and breaks this obligation. Finite table, kernel evaluation. -/
theorem gen_levelmask : ∀ m : Fin 8, ∀ l : Fin 5,
    (Gen.LevelMask.Level (BitVec.ofNat 32 m.val)).toNat = LevelMask.level m.val ∧
    (Gen.LevelMask.HashIndex (BitVec.ofNat 32 m.val)).toNat = LevelMask.hashIndex m.val ∧
    (Gen.LevelMask.HashesCount (BitVec.ofNat 32 m.val)).toNat = LevelMask.hashesCount m.val ∧
    (Gen.LevelMask.Apply (BitVec.ofNat 32 m.val) (BitVec.ofNat 64 l.val)).toNat = LevelMask.apply m.val l.val ∧
    Gen.LevelMask.IsSignificant (BitVec.ofNat 32 m.val) (BitVec.ofNat 32 l.val) =
      LevelMask.isSignificant m.val l.val := by
  decide +kernel

/-- `levelMask.{Apply, HashIndex, IsSignificant, Level}` (model of boc/level_mask.go) agree with the bit-list
definitions of the specification on every 3-bit mask and every level 0..4: `Apply l` keeps the bits below `l`,
`HashIndex` counts bits, level `l` is significant iff `l = 0` or bit `l-1` is set, `Level` is the bit length.
Finite table, closed by kernel evaluation. -/
theorem levelmask_facts : ∀ m, m < 8 → ∀ l, l < 5 →
    LevelMask.apply m l = Spec.maskBelow m l ∧
    LevelMask.hashIndex m = Spec.popcount m ∧
    LevelMask.hashesCount m = Spec.popcount m + 1 ∧
    LevelMask.isSignificant m l = Spec.significant m l ∧
    LevelMask.level m = Spec.level m := by
  decide +kernel

/-- the same helpers against the bits of the mask: `Apply l` keeps exactly the bits below `l`; the level is 0 only
for the empty mask and exceeds the position of every set bit; `IsSignificant` reads bit `l-1`. Finite table. -/
theorem levelmask_bits : ∀ m, m < 8 → ∀ l, l < 5 →
    (∀ i, i < 3 → (LevelMask.apply m l).testBit i = (decide (i < l) && m.testBit i)) ∧
    (LevelMask.level m = 0 ↔ m = 0) ∧ (∀ i, i < 3 → m.testBit i = true → i < LevelMask.level m) ∧
    (LevelMask.isSignificant m (l + 1) = m.testBit l) := by
  decide +kernel


/-- **Implementation = definition.** For every cell tree satisfying the exotic-cell well-formedness rules (in fact
the weaker `wfSizes`: 3-bit masks, pruned branches childless and long enough) that is not too deep, the model of
`newImmutableCell` succeeds, and `Hash(l)`, `Depth(l)` (l = 0..4; 4 is what a Merkle parent asks for at its level 3)
and `Level()` return exactly the values of the TON definition. Holds for every hash function `H`. -/
theorem impl_eq_spec_sizes (H : List UInt8 → List UInt8) (c : Cell) (hwf : Spec.wfSizes c = true)
    (hd : Spec.tooDeep c = false) :
    ∃ info, Cell.info H c = .ok info ∧
      (∀ l, l ≤ 4 → info.hashAt l = .ok (Spec.hashAt H c l) ∧ info.depthAt l = .ok (Spec.depthAt c l)) ∧
      LevelMask.level info.mask = Spec.cellLevel c := by
  obtain ⟨info, e, _, hmask, _, hmatch⟩ := (good_cell H c hwf).1 hd
  refine ⟨info, e, hmatch, ?_⟩
  have hm : c.mask < 8 := by
    cases c with
    | mk ty mask bits refs =>
      simp only [Spec.wfSizes, Spec.sizesNode, Bool.and_eq_true, decide_eq_true_eq] at hwf
      simp only [Cell.mask]; omega
  rw [hmask, (level_facts c.mask hm).1]
  rfl

/-- `impl_eq_spec_sizes` under the property's own hypothesis `WFExotic`. -/
theorem impl_eq_spec (H : List UInt8 → List UInt8) (c : Cell) (hwf : Spec.WFExotic c) (hd : Spec.tooDeep c = false) :
    ∃ info, Cell.info H c = .ok info ∧
      (∀ l, l ≤ 4 → info.hashAt l = .ok (Spec.hashAt H c l) ∧ info.depthAt l = .ok (Spec.depthAt c l)) ∧
      LevelMask.level info.mask = Spec.cellLevel c :=
  impl_eq_spec_sizes H c (wfExotic_wfSizes c hwf) hd

/-- `Cell.Hash()` (hash at the maximal level 3) is the representation hash of the definition. -/
theorem reprHash_eq_spec (H : List UInt8 → List UInt8) (c : Cell) (hwf : Spec.WFExotic c)
    (hd : Spec.tooDeep c = false) : Cell.reprHash H c = .ok (Spec.reprHash H c) := by
  obtain ⟨info, e, h, _⟩ := impl_eq_spec H c hwf hd
  simp only [Cell.reprHash, e, Outcome.bind_ok]
  exact (h 3 (by omega)).1

/-- **Depth limit.** On well-formed trees hashing returns `ErrDepthIsTooBig` exactly when some cell that is not a
pruned branch would have, at one of the levels 0..3, a depth above 1024 (i.e. one of its children has depth ≥ 1024
at the corresponding child level); otherwise it succeeds. -/
theorem depth_limit (H : List UInt8 → List UInt8) (c : Cell) (hwf : Spec.WFExotic c) :
    (Cell.info H c = .err "depth is too big" ↔ Spec.tooDeep c = true) ∧
    ((Cell.info H c).isOk = true ↔ Spec.tooDeep c = false) := by
  have g := good_cell H c (wfExotic_wfSizes c hwf)
  cases hd : Spec.tooDeep c with
  | true => rw [g.2 hd]; simp [Outcome.isOk]
  | false =>
    obtain ⟨info, e, _⟩ := g.1 hd
    rw [e]; simp [Outcome.isOk]

/-- **No panic.** On well-formed trees neither the construction nor any `Hash(l)`/`Depth(l)` with l ≤ 4 panics
(the slice expressions `bitsBuf[2+index*32 : …]`, `bitsBuf[2+32*offset+index*2:]` and the `hashes[…]` lookups stay in
range). -/
theorem no_panic_wf (H : List UInt8 → List UInt8) (c : Cell) (hwf : Spec.WFExotic c) :
    (Cell.info H c).isPanic = false ∧ (Cell.reprHash H c).isPanic = false ∧
    ∀ info, Cell.info H c = .ok info → ∀ l, l ≤ 4 → (info.hashAt l).isPanic = false ∧ (info.depthAt l).isPanic = false := by
  have g := good_cell H c (wfExotic_wfSizes c hwf)
  cases hd : Spec.tooDeep c with
  | true =>
    have e := g.2 hd
    refine ⟨by rw [e]; rfl, by simp [Cell.reprHash, e, Outcome.isPanic], ?_⟩
    intro info e'; rw [e] at e'; cases e'
  | false =>
    obtain ⟨info, e, _, _, _, hm⟩ := g.1 hd
    refine ⟨by rw [e]; rfl, ?_, ?_⟩
    · simp only [Cell.reprHash, e, Outcome.bind_ok, (hm 3 (by omega)).1]; rfl
    · intro info' e' l hl
      rw [e] at e'; cases e'
      rw [(hm l hl).1, (hm l hl).2]; exact ⟨rfl, rfl⟩

/-- a parent whose child is a pruned branch of mask 1 carrying only its two header bytes -/
def shortPruned : Cell :=
  .mk tyOrdinary 1 [] [.mk tyPruned 1 (Bits.natToBits 16 0x0101) []]

/-- **Without well-formedness the slice operations panic** (witness, relevant to C07): hashing `shortPruned` makes
the parent read the stored depth of its child at `bitsBuf[34:]` of a 2-byte buffer. The witness violates `WFExotic`
only in the length of the pruned branch. -/
theorem panic_without_wf (H : List UInt8 → List UInt8) :
    (Cell.reprHash H shortPruned).isPanic = true ∧ Spec.wfExotic shortPruned = false := by
  constructor
  · have hlen : (parsedBuf (Bits.natToBits 16 0x0101)).length = 2 := by
      rw [parsedBuf, bitsToBytes_length]; rfl
    simp only [Cell.reprHash, shortPruned, Cell.info, Cell.infoList, Outcome.bind_ok]
    rw [computeInfo_pruned H 1 _ _ (by omega)]
    simp only [Outcome.bind_ok, pure]
    generalize hb : parsedBuf (Bits.natToBits 16 0x0101) = buf at *
    generalize H _ = hh
    simp only [computeInfo, show LevelMask.level 1 = 1 from by decide +kernel,
      show tyOrdinary ≠ tyPruned from by decide, if_false]
    simp only [show List.range (1+1) = [0,1] from rfl, List.foldlM_cons]
    simp [levelStep, LevelMask.isSignificant, HashInfo.depthAt, LevelMask.apply,
      show LevelMask.hashIndex 0 = 0 from by decide, show LevelMask.hashIndex 1 = 1 from by decide, hlen,
      tyOrdinary, tyPruned, tyMerkleProof, tyMerkleUpdate]
    rfl
  · decide

end Tongo.C02
