import TongoProofs.Lemmas.CellHashTree
import TongoProofs.Lemmas.CellTable
import TongoProofs.Lemmas.HashMemo
import TongoProofs.Lemmas.CellNoPanic
import TongoProofs.Lemmas.CellErr
import TongoProofs.Lemmas.CellCursor
import TongoProofs.Lemmas.CellHashInj
import TongoProofs.Lemmas.Sha256Len
import TongoProofs.C07
import TongoGen.LevelMask
import TongoGen.CellDesc
import TongoProofs.Lemmas.GenTiesA
import TongoProofs.Lemmas.GenTiesC02
/-! Property C02 — cell hash, depth and level follow the TON representation-hash definition.

Model: `Tongo.Cell.info` = `newImmutableCell` on a whole tree (`computeInfo`/`levelStep` per cell, line by line),
`HashInfo.hashAt`/`depthAt` = `immutableCell.Hash`/`Depth` with their slice arithmetic as partial operations.
Specification: `Tongo.Spec.hashAt`/`depthAt`/`level` (TongoModel/CellHashSpec.lean). `H` (SHA-256 in the driver) is a
parameter of every statement. Property theorems only; helper lemmas live in TongoProofs/Lemmas/CellHash*.lean. -/
namespace Tongo.C02
open Tongo Tongo.CellHashLemmas

/-- **Tie to the source.** The definitions REGENERATED from boc/level_mask.go on every run (translator X4,
`TongoGen/LevelMask.lean`: `bits.LeadingZeros32`, `bits.OnesCount32`, 32-bit shifts with Go semantics) equal the hand
model `Tongo.LevelMask.*` used by the hash model, for all masks 0..7 and levels 0..4: a change to level_mask.go changes
the regenerated file and breaks this obligation. Finite table, kernel evaluation. -/
theorem gen_levelmask : ∀ m : Fin 8, ∀ l : Fin 5,
    (Gen.LevelMask.Level (BitVec.ofNat 32 m.val)).toNat = LevelMask.level m.val ∧
    (Gen.LevelMask.HashIndex (BitVec.ofNat 32 m.val)).toNat = LevelMask.hashIndex m.val ∧
    (Gen.LevelMask.HashesCount (BitVec.ofNat 32 m.val)).toNat = LevelMask.hashesCount m.val ∧
    (Gen.LevelMask.Apply (BitVec.ofNat 32 m.val) (BitVec.ofNat 64 l.val)).toNat = LevelMask.apply m.val l.val ∧
    Gen.LevelMask.IsSignificant (BitVec.ofNat 32 m.val) (BitVec.ofNat 32 l.val) =
      LevelMask.isSignificant m.val l.val := by
  decide +kernel

/-- `levelMask.{Apply, HashIndex, IsSignificant, Level}` (model of boc/level_mask.go) agree with the bit-list
definitions of the specification on every 3-bit mask and every level 0..4: `Apply l` keeps the bits below `l`,
`HashIndex` counts bits, level `l` is significant iff `l = 0` or bit `l-1` is set, `Level` is the bit length.
Finite table, closed by kernel evaluation. -/
theorem levelmask_facts : ∀ m, m < 8 → ∀ l, l < 5 →
    LevelMask.apply m l = Spec.maskBelow m l ∧
    LevelMask.hashIndex m = Spec.popcount m ∧
    LevelMask.hashesCount m = Spec.popcount m + 1 ∧
    LevelMask.isSignificant m l = Spec.significant m l ∧
    LevelMask.level m = Spec.level m := by
  decide +kernel

/-- the same helpers against the bits of the mask: `Apply l` keeps exactly the bits below `l`; the level is 0 only
for the empty mask and exceeds the position of every set bit; `IsSignificant` reads bit `l-1`. Finite table. -/
theorem levelmask_bits : ∀ m, m < 8 → ∀ l, l < 5 →
    (∀ i, i < 3 → (LevelMask.apply m l).testBit i = (decide (i < l) && m.testBit i)) ∧
    (LevelMask.level m = 0 ↔ m = 0) ∧ (∀ i, i < 3 → m.testBit i = true → i < LevelMask.level m) ∧
    (LevelMask.isSignificant m (l + 1) = m.testBit l) := by
  decide +kernel


/-- **Implementation = definition.** For every cell tree satisfying the exotic-cell well-formedness rules (in fact
the weaker `wfSizes`: 3-bit masks, pruned branches childless and long enough) that is not too deep, the model of
`newImmutableCell` succeeds, and `Hash(l)`, `Depth(l)` (l = 0..4; 4 is what a Merkle parent asks for at its level 3)
and `Level()` return exactly the values of the TON definition. Holds for every hash function `H`. -/
theorem impl_eq_spec_sizes (H : List UInt8 → List UInt8) (c : Cell) (hwf : Spec.wfSizes c = true)
    (hd : Spec.tooDeep c = false) :
    ∃ info, Cell.info H c = .ok info ∧
      (∀ l, l ≤ 4 → info.hashAt l = .ok (Spec.hashAt H c l) ∧ info.depthAt l = .ok (Spec.depthAt c l)) ∧
      LevelMask.level info.mask = Spec.cellLevel c := by
  obtain ⟨info, e, _, hmask, _, hmatch⟩ := (good_cell H c hwf).1 hd
  refine ⟨info, e, hmatch, ?_⟩
  have hm : c.mask < 8 := by
    cases c with
    | mk ty mask bits refs =>
      simp only [Spec.wfSizes, Spec.sizesNode, Bool.and_eq_true, decide_eq_true_eq] at hwf
      simp only [Cell.mask]; omega
  rw [hmask, (level_facts c.mask hm).1]
  rfl

/-- `impl_eq_spec_sizes` under the property's own hypothesis `WFExotic`. -/
theorem impl_eq_spec (H : List UInt8 → List UInt8) (c : Cell) (hwf : Spec.WFExotic c) (hd : Spec.tooDeep c = false) :
    ∃ info, Cell.info H c = .ok info ∧
      (∀ l, l ≤ 4 → info.hashAt l = .ok (Spec.hashAt H c l) ∧ info.depthAt l = .ok (Spec.depthAt c l)) ∧
      LevelMask.level info.mask = Spec.cellLevel c :=
  impl_eq_spec_sizes H c (wfExotic_wfSizes c hwf) hd

/-- `Cell.Hash()` (hash at the maximal level 3) is the representation hash of the definition. -/
theorem reprHash_eq_spec (H : List UInt8 → List UInt8) (c : Cell) (hwf : Spec.WFExotic c)
    (hd : Spec.tooDeep c = false) : Cell.reprHash H c = .ok (Spec.reprHash H c) := by
  obtain ⟨info, e, h, _⟩ := impl_eq_spec H c hwf hd
  simp only [Cell.reprHash, e, Outcome.bind_ok]
  exact (h 3 (by omega)).1

/-- **Depth limit.** On well-formed trees hashing returns `ErrDepthIsTooBig` exactly when some cell that is not a
pruned branch would have, at one of the levels 0..3, a depth above 1024 (i.e. one of its children has depth ≥ 1024
at the corresponding child level); otherwise it succeeds. -/
theorem depth_limit (H : List UInt8 → List UInt8) (c : Cell) (hwf : Spec.WFExotic c) :
    (Cell.info H c = .err "depth is too big" ↔ Spec.tooDeep c = true) ∧
    ((Cell.info H c).isOk = true ↔ Spec.tooDeep c = false) := by
  have g := good_cell H c (wfExotic_wfSizes c hwf)
  cases hd : Spec.tooDeep c with
  | true => rw [g.2 hd]; simp [Outcome.isOk]
  | false =>
    obtain ⟨info, e, _⟩ := g.1 hd
    rw [e]; simp [Outcome.isOk]

/-- **No panic.** On well-formed trees neither the construction nor any `Hash(l)`/`Depth(l)` with l ≤ 4 panics
(the slice expressions `bitsBuf[2+index*32 : …]`, `bitsBuf[2+32*offset+index*2:]` and the `hashes[…]` lookups stay in
range). -/
theorem no_panic_wf (H : List UInt8 → List UInt8) (c : Cell) (hwf : Spec.WFExotic c) :
    (Cell.info H c).isPanic = false ∧ (Cell.reprHash H c).isPanic = false ∧
    ∀ info, Cell.info H c = .ok info → ∀ l, l ≤ 4 → (info.hashAt l).isPanic = false ∧ (info.depthAt l).isPanic = false := by
  have g := good_cell H c (wfExotic_wfSizes c hwf)
  cases hd : Spec.tooDeep c with
  | true =>
    have e := g.2 hd
    refine ⟨by rw [e]; rfl, by simp [Cell.reprHash, e, Outcome.isPanic], ?_⟩
    intro info e'; rw [e] at e'; cases e'
  | false =>
    obtain ⟨info, e, _, _, _, hm⟩ := g.1 hd
    refine ⟨by rw [e]; rfl, ?_, ?_⟩
    · simp only [Cell.reprHash, e, Outcome.bind_ok, (hm 3 (by omega)).1]; rfl
    · intro info' e' l hl
      rw [e] at e'; cases e'
      rw [(hm l hl).1, (hm l hl).2]; exact ⟨rfl, rfl⟩

/-- **No panic on any tree with 3-bit masks.** Every Go cell buffer spans the full capacity of 1023 bits (128 bytes:
parsed cells since the repair of `setTopUppedArray`, `NewCell`, `NewCellExotic`), and a pruned branch announces at most
3 stored hashes and depths: `2 + 3·32 ≤ 128`, `2 + 32·3 + 2·2 + 2 ≤ 128`. So the slice expressions of
`immutableCell.Hash/Depth` stay in range whatever the cell types, data lengths and refs are: hashing a tree whose level
masks are ≤ 7 returns a value or `ErrDepthIsTooBig`, never a panic — without any well-formedness of exotic cells. -/
theorem no_panic_any (H : List UInt8 → List UInt8) (c : Cell) (hm : Spec.wfMasks c = true) :
    (Cell.info H c).isPanic = false ∧ (Cell.reprHash H c).isPanic = false ∧
    ∀ info, Cell.info H c = .ok info → ∀ l, (info.hashAt l).isPanic = false ∧ (info.depthAt l).isPanic = false := by
  obtain ⟨hnp, hok⟩ := info_no_panic H c hm
  have hlv : ∀ info, Cell.info H c = .ok info → ∀ l, (info.hashAt l).isPanic = false ∧ (info.depthAt l).isPanic = false := by
    intro info e l
    have io := hok info e
    constructor
    · cases h : info.hashAt l with
      | panic p => exact absurd h (BocHash.hashAt_no_panic info io l p)
      | ok _ => rfl
      | err _ => rfl
    · cases h : info.depthAt l with
      | panic p => exact absurd h (BocHash.depthAt_no_panic info io l p)
      | ok _ => rfl
      | err _ => rfl
  refine ⟨?_, ?_, hlv⟩
  · cases h : Cell.info H c with
    | panic p => exact absurd h (hnp p)
    | ok _ => rfl
    | err _ => rfl
  · simp only [Cell.reprHash]
    cases h : Cell.info H c with
    | panic p => exact absurd h (hnp p)
    | err _ => rfl
    | ok info =>
      simp only [Outcome.bind_ok]
      exact (hlv info h 3).1

/-- a pruned branch of mask 1 carrying only its two header bytes -/
def shortPrunedChild : Cell := .mk tyPruned 1 (Bits.natToBits 16 0x0101) []
/-- an ordinary parent over it -/
def shortPruned : Cell := .mk tyOrdinary 1 [] [shortPrunedChild]

/-- what `newImmutableCell` keeps for `shortPrunedChild` -/
def shortInfo (H : List UInt8 → List UInt8) : HashInfo :=
  { ty := tyPruned, mask := 1, buf := [1, 1] ++ List.replicate 126 0,
    hashes := [H (reprNoRefs tyPruned (Bits.natToBits 16 0x0101) 0 (LevelMask.apply 1 (LevelMask.level 1)) ++ [] ++ [])],
    depths := [0] }

/-- **A malformed pruned branch is hashed from zero padding** (witness; what `panic_without_wf` turned into when the
buffers were widened): the two-byte pruned branch violates `WFExotic`, hashing its parent succeeds, and the "stored"
level-0 hash and depth the parent uses are the zero bytes that follow the data in the 128-byte buffer — not anything
the cell carries. Such cells are outside the property's quantifier and are rejected by the repaired BOC parser; the
definition (`Spec.storedHash`, reading the data only) gives the empty string there, so `impl_eq_spec` does need its
size hypothesis. -/
theorem short_pruned_reads_padding (H : List UInt8 → List UInt8) :
    Spec.wfExotic shortPruned = false ∧ (Cell.reprHash H shortPruned).isPanic = false ∧
    (∃ info, Cell.info H shortPrunedChild = .ok info ∧
      info.hashAt 0 = .ok (List.replicate 32 0) ∧ info.depthAt 0 = .ok 0) ∧
    Spec.hashAt H shortPrunedChild 0 = [] := by
  have hbuf : parsedBuf (Bits.natToBits 16 0x0101) = [1, 1] ++ List.replicate 126 0 := by decide +kernel
  have hb2 : Bits.bitsToBytes (Bits.natToBits 16 0x0101) = [1, 1] := by decide +kernel
  have hchild : Cell.info H shortPrunedChild = .ok (shortInfo H) := by
    simp only [shortPrunedChild, Cell.info, Cell.infoList, Outcome.bind_ok]
    rw [computeInfo_pruned H 1 _ _ (by omega), hbuf]
    rfl
  have e0 : LevelMask.hashIndex (LevelMask.apply 1 0) = 0 := by decide
  have e2 : LevelMask.hashIndex 1 = 1 := by decide
  have h00 : (shortInfo H).hashAt 0 = .ok (List.replicate 32 0) := by
    simp only [shortInfo, HashInfo.hashAt, e0, e2, if_true]
    rw [if_pos (by decide), if_pos (by decide +kernel)]
    decide +kernel
  have h0d : (shortInfo H).depthAt 0 = .ok 0 := by
    simp only [shortInfo, HashInfo.depthAt, e0, e2, if_true]
    rw [if_pos (by decide), if_pos (by decide +kernel)]
    decide +kernel
  have hspec : Spec.hashAt H shortPrunedChild 0 = [] := by
    simp only [shortPrunedChild, Spec.hashAt, Spec.hashLevel, Spec.hashAtL, Spec.depthAtL, Spec.storedHash,
      packBytes_eq _ _ rfl, hb2,
      show Spec.level 1 = 1 from by decide]
    rw [if_pos (by decide)]
    decide
  exact ⟨by decide, (no_panic_any H shortPruned (by decide)).2.1, ⟨_, hchild, h00, h0d⟩, hspec⟩

/-- **Table refines tree.** `Table.infos` — the linear, row-by-row evaluation on a bag-of-cells table that the
compiled model driver runs against the Go code on every check — returns for every row exactly `Cell.info` of the
tree that row unfolds to (the object the theorems above speak about). Sharing in the DAG is therefore irrelevant to
the result. -/
theorem table_refines_tree (H : List UInt8 → List UInt8) (t : Table) (fuel i : Nat) (c : Cell)
    (h : Table.unfold t fuel i = some c) : (Table.infos H t)[i]? = some (Cell.info H c) :=
  infos_refines H t fuel i c h

/-- **The cache is sound.** `newImmutableCell` with a pointer-keyed memo table (`Memo.hashMemo`; the table of a
`boc.Hasher` persists across calls) started from ANY table satisfying `CacheInv` — every entry is the value for the
tree its pointer denotes, i.e. the cells were not mutated since — returns exactly what the plain recursion returns on
the tree the pointer denotes (same value, same error, same panic), and leaves a table that satisfies `CacheInv` again.
In particular the answer is the same as with the empty table (`Cell.Hash()` uses a fresh one). -/
theorem cache_sound (H : List UInt8 → List UInt8) (heap : Memo.Heap) (fuel p : Nat) (cache : Memo.Cache) (c : Cell)
    (hinv : Memo.CacheInv H heap cache) (ht : Memo.tree heap fuel p = some c) :
    Memo.Agrees (Memo.hashMemo H heap fuel p cache) (Cell.info H c) (Memo.CacheInv H heap) ∧
    Memo.Agrees (Memo.hashMemo H heap fuel p []) (Cell.info H c) (Memo.CacheInv H heap) :=
  ⟨Memo.memo_agrees H heap fuel p cache c hinv ht,
   Memo.memo_agrees H heap fuel p [] c (by intro p i h; simp at h) ht⟩

/-- **The Hasher is sound for error outcomes too.** Both entry points of a `boc.Hasher` — `Hash` (memo table of
immutable cells) and `HashString` (second table `cacheHex`) — started from any valid state return exactly what the
uncached `Cell.Hash()` / `Cell.HashString()` return for the tree the pointer denotes: the same value, the SAME ERROR
(`ErrDepthIsTooBig`), the same panic; a successful call leaves a valid state, and an error stores nothing (the model of
`HashString` checks the error before writing `cacheHex`; storing first would make `HexInv` fail). -/
theorem cache_sound_errors (H : List UInt8 → List UInt8) (heap : Memo.Heap) (fuel p : Nat) (st : Memo.HasherState)
    (c : Cell) (hinv : Memo.StateInv H heap st) (ht : Memo.tree heap fuel p = some c) :
    Memo.AgreesSt (Memo.hasherHashSt H heap fuel p st) (Cell.reprHash H c) (Memo.StateInv H heap) ∧
    Memo.AgreesSt (Memo.hasherHashString H heap fuel p st) (Cell.hashString H c) (Memo.StateInv H heap) :=
  ⟨Memo.hasherHashSt_agrees H heap fuel p st c hinv ht, Memo.hasherHashString_agrees H heap fuel p st c hinv ht⟩

/-- **Any sequence of calls on one Hasher**, `Hash` and `HashString` in any order and any number of times on any
pointers (shared sub-trees, trees beyond the depth limit): every answer — value or error — is the answer of the
uncached function on that tree, so repeated calls always agree with each other. -/
theorem hasher_calls_sound (H : List UInt8 → List UInt8) (heap : Memo.Heap) (fuel : Nat) (calls : List Memo.Call)
    (st : Memo.HasherState) (hinv : Memo.StateInv H heap st)
    (hdef : ∀ c ∈ calls, (Memo.plainAnswer H heap fuel c).isSome = true) :
    (Memo.runCalls H heap fuel calls st).map some = calls.map (Memo.plainAnswer H heap fuel) :=
  Memo.runCalls_sound H heap fuel calls st hinv hdef

/-- the empty Hasher (`NewHasher()`) is a valid state -/
theorem new_hasher_valid (H : List UInt8 → List UInt8) (heap : Memo.Heap) : Memo.StateInv H heap ⟨[], []⟩ :=
  ⟨by intro p i h; simp at h, by intro p s h; simp at h⟩

/-- **The hash does not depend on what has been read.** `Cursor.RCell` is a cell tree in which every node carries
agent bits' byte-level `BitString` (buffer, length, read cursor — the model of boc/bitString.go proved against the
ideal bit list in C06) and a reference cursor. After ANY number of reads anywhere in the tree — every read-only
bit-string method (`ReadBit`, `Skip`, `ReadUint`, `PickUint`, `ReadInt`, `ReadBytes`, `ReadBits`, `ReadRemainingBits`,
`ReadBigUint/Int`, `ReadUnary`, `ReadLimUint`, `ResetCounter`) with any well-formed argument, successful or failing, and
any movement of the reference cursors (`NextRef`, `ResetCounters`) — the cell hashing sees (`content`: the bits
`buf[0..len)`, no cursor) is the same, hence so are all hashes, depths, errors. (The byte-level operations really are
modelled with their cursor arithmetic; that they leave `buf`/`len` alone is C06's `op_refines`.) -/
theorem hash_ignores_reads (H : List UInt8 → List UInt8) (a b : Cursor.RCell) (h : Cursor.Reads a b) :
    Cursor.content a = Cursor.content b ∧
    Cell.info H (Cursor.content a) = Cell.info H (Cursor.content b) ∧
    Cell.reprHash H (Cursor.content a) = Cell.reprHash H (Cursor.content b) := by
  have e := Cursor.reads_content h
  exact ⟨e, by rw [e], by rw [e]⟩

/-- **The representation hash determines the tree** (what makes `HashString()` usable as a de-duplication key, C01, and
a Merkle proof binding, C18). For two trees satisfying the exotic-cell rules — all five types, masks ≤ 7, Merkle
proofs with their mask-1 cells and pruned branches included — if `H` has 32-byte digests and is collision-free on the
finite list of byte strings that are hashed for the two trees (`Spec.allReprs`: the representations of the computed
levels of all sub-cells), then equal representation hashes imply equal trees. Induction over the tree and the levels:
the top-level representation carries ref count, exotic flag and the full mask (first descriptor byte), the length
class (second), the hash one level down — down to level 0, which carries the data with its completion tag — and the
children's hashes at the child level, which are the children's own representation hashes because consistent masks
bound a child's level. The exotic type is fixed by the bit lengths the rules prescribe. A pruned branch is identified
by its own data: it is NOT identified with the tree it stands for (pruned cells are cells). -/
theorem reprHash_inj_wfExotic (H : List UInt8 → List UInt8) (hlen : ∀ x, (H x).length = 32) (a b : Cell)
    (ha : Spec.WFExotic a) (hb : Spec.WFExotic b)
    (cf : CollisionFree H (Spec.allReprs H a ++ Spec.allReprs H b))
    (h : Spec.reprHash H a = Spec.reprHash H b) : a = b :=
  CellHashLemmas.reprHash_inj_wfExotic H hlen a b ha hb cf h

/-- the same for the implementation model: if `Cell.Hash()` returns the same bytes for two well-formed trees within
the depth limit, they are the same tree -/
theorem cell_hash_inj (H : List UInt8 → List UInt8) (hlen : ∀ x, (H x).length = 32) (a b : Cell)
    (ha : Spec.WFExotic a) (hb : Spec.WFExotic b) (da : Spec.tooDeep a = false) (db : Spec.tooDeep b = false)
    (cf : CollisionFree H (Spec.allReprs H a ++ Spec.allReprs H b))
    (h : Cell.reprHash H a = Cell.reprHash H b) : a = b := by
  rw [reprHash_eq_spec H a ha da, reprHash_eq_spec H b hb db] at h
  injection h with h
  exact reprHash_inj_wfExotic H hlen a b ha hb cf h

/-- the hash function of the driver has 32-byte digests: the `hlen`/`H32` hypothesis holds for the real SHA-256 -/
theorem sha256_len32 : ∀ x, (sha256 x).length = 32 := Sha256Lemmas.sha256_length

/-- **The hash is structural.** Two pointers — in any two heaps, with any two valid memo tables — that denote the same
tree `(type, mask, bits, refs…)` get the same answer: the result is a function of the tree alone (no read cursor, no
pointer identity, no table content enters it). -/
theorem hash_structural (H : List UInt8 → List UInt8) (heap1 heap2 : Memo.Heap) (f1 f2 p1 p2 : Nat)
    (cache1 cache2 : Memo.Cache) (c : Cell)
    (h1 : Memo.CacheInv H heap1 cache1) (h2 : Memo.CacheInv H heap2 cache2)
    (t1 : Memo.tree heap1 f1 p1 = some c) (t2 : Memo.tree heap2 f2 p2 = some c) :
    ∀ i1 k1, Memo.hashMemo H heap1 f1 p1 cache1 = .ok (i1, k1) →
      ∃ k2, Memo.hashMemo H heap2 f2 p2 cache2 = .ok (i1, k2) := by
  intro i1 k1 e1
  have a1 := Memo.memo_agrees H heap1 f1 p1 cache1 c h1 t1
  have a2 := Memo.memo_agrees H heap2 f2 p2 cache2 c h2 t2
  rw [e1] at a1
  obtain ⟨s1, _⟩ := a1
  cases e2 : Memo.hashMemo H heap2 f2 p2 cache2 with
  | ok r =>
    obtain ⟨i2, k2⟩ := r
    rw [e2] at a2
    obtain ⟨s2, _⟩ := a2
    rw [s1] at s2
    cases s2
    exact ⟨k2, rfl⟩
  | err e => rw [e2] at a2; simp only [Memo.Agrees] at a2; rw [s1] at a2; cases a2
  | panic e => rw [e2] at a2; simp only [Memo.Agrees] at a2; rw [s1] at a2; cases a2


/-- **The other forms of the hash.** On well-formed trees within the depth limit whose hash has 32 bytes (every
SHA-256 digest): `Hash256()` is the representation hash of the definition (as a 32-byte array), `HashString()` is its
lower-case hex, and `Level()` is the bit length of the mask. -/
theorem forms_eq_spec (H : List UInt8 → List UInt8) (c : Cell) (hwf : Spec.WFExotic c)
    (hd : Spec.tooDeep c = false) (hlen : (Spec.reprHash H c).length = 32) :
    Cell.hash256 H c = .ok (Spec.reprHash H c) ∧ Cell.hashString H c = .ok (Hex.encode (Spec.reprHash H c)) ∧
    Cell.level c = Spec.cellLevel c := by
  have e := reprHash_eq_spec H c hwf hd
  have hm : c.mask < 8 := by
    cases c with
    | mk ty mask bits refs =>
      have hwf' : Spec.wfExotic (.mk ty mask bits refs) = true := hwf
      simp only [Spec.wfExotic, Spec.wfNode, Bool.and_eq_true, decide_eq_true_eq] at hwf'
      show mask < 8
      omega
  refine ⟨?_, ?_, ?_⟩
  · simp only [Cell.hash256, e, Outcome.bind_ok, pure, hlen, Nat.sub_self, List.replicate_zero, List.append_nil]
    rw [List.take_of_length_le (by omega)]
  · simp only [Cell.hashString, e, Outcome.bind_ok, pure]
  · simp only [Cell.level, Spec.cellLevel, (level_facts c.mask hm).1]

/-- **Hashing the cells of any parsed bag of cells is total and agrees with the definition** (composition with C07,
agent boc's `parseBoc`/`parse_sound`). For every byte string: if the model of `DeserializeBoc` returns cells, then every
row `i` of the result denotes a finite tree `c` (fuel 1026 suffices), the executable memoised hashing the driver runs
(`Table.infos`) returns for that row exactly `Cell.info H c`, which is a value — whose `Hash(l)`/`Depth(l)` never
panic — or the depth error, never a panic and no other error; and whenever `c` satisfies the exotic-cell rules the
value is the one of the TON definition (`Spec.hashAt`/`depthAt`/`level`), the depth error occurring exactly for
`Spec.tooDeep c`. -/
theorem parsed_cells_hash_total (bs : Boc.Bytes) (hlen : bs.length < Boc.two63) (t : Table) (roots : List Nat)
    (hp : Boc.parseBoc bs = .ok (t, roots)) (H : List UInt8 → List UInt8) :
    ∀ i, i < t.size → ∃ c, Table.unfold t (maxDepth + 2) i = some c ∧
      (Table.infos H t)[i]? = some (Cell.info H c) ∧
      ((∃ info, Cell.info H c = .ok info ∧
          ∀ l, (info.hashAt l).isPanic = false ∧ (info.depthAt l).isPanic = false) ∨
        Cell.info H c = .err "depth is too big") ∧
      (Spec.WFExotic c →
        (Spec.tooDeep c = true → Cell.info H c = .err "depth is too big") ∧
        (Spec.tooDeep c = false → ∃ info, Cell.info H c = .ok info ∧
          (∀ l, l ≤ 4 → info.hashAt l = .ok (Spec.hashAt H c l) ∧ info.depthAt l = .ok (Spec.depthAt c l)) ∧
          LevelMask.level info.mask = Spec.cellLevel c)) := by
  intro i hi
  obtain ⟨hrows, _, ds, _, hrank⟩ := C07.parse_sound bs hlen t roots hp
  have hsome := Boc.unfold_isSome_depth t hrows ds hrank (maxDepth + 2) i hi (by have := (hrank i hi).1; omega)
  obtain ⟨c, hc⟩ := Option.isSome_iff_exists.mp hsome
  have htree := BocHash.unfold_treeOK t hrows _ i c hc
  obtain ⟨hnp, hok⟩ := BocHash.Cell.info_ok H c htree
  refine ⟨c, hc, infos_refines H t _ i c hc, ?_, ?_⟩
  · cases hinfo : Cell.info H c with
    | panic p => exact absurd hinfo (hnp p)
    | err e => right; rw [info_err H c e hinfo]; rfl
    | ok info =>
      left
      refine ⟨info, rfl, fun l => ?_⟩
      have io := hok info hinfo
      constructor
      · cases h : info.hashAt l with
        | panic p => exact absurd h (BocHash.hashAt_no_panic info io l p)
        | ok _ => rfl
        | err _ => rfl
      · cases h : info.depthAt l with
        | panic p => exact absurd h (BocHash.depthAt_no_panic info io l p)
        | ok _ => rfl
        | err _ => rfl
  · intro hwf
    exact ⟨fun hd => (good_cell H c (wfExotic_wfSizes c hwf)).2 hd, fun hd => impl_eq_spec H c hwf hd⟩

/-! ### non-vacuity: a tree over all five cell types with non-zero masks satisfies the hypotheses (test on a literal) -/

def zeros (n : Nat) : List Bool := List.replicate n false
def exPruned : Cell := .mk tyPruned 1 (Bits.natToBits 16 0x0101 ++ zeros 272) []
def exPruned5 : Cell := .mk tyPruned 5 (Bits.natToBits 16 0x0105 ++ zeros 544) []
def exLib : Cell := .mk tyLibrary 0 (Bits.natToBits 8 2 ++ zeros 256) []
def exOrd : Cell := .mk tyOrdinary 5 [true, false, true] [exPruned, exLib, exPruned5]
def exProof : Cell := .mk tyMerkleProof 2 (Bits.natToBits 8 3 ++ zeros 272) [exOrd]
def exUpd : Cell := .mk tyMerkleUpdate 2 (Bits.natToBits 8 4 ++ zeros 544) [exOrd, exPruned]
def exAll : Cell := .mk tyOrdinary 2 [true] [exProof, exUpd]

example : Spec.WFExotic exAll ∧ Spec.tooDeep exAll = false := by decide +kernel
example : Spec.cellLevel exAll = 2 ∧ Spec.cellLevel exOrd = 3 := by decide +kernel

/-- tie (X4, regenerated from boc/cell.go): the descriptor byte `d1` REGENERATED on every run
(`byte(cell.RefsSize() + specBit + 32*int(mask))`, 64-bit `int`, 32-bit `levelMask`; `TongoGen/CellDesc.lean`) is the
`Tongo.d1` hashed by the model, for every reference count, exotic flag and mask in range. -/
theorem gen_d1 (nrefs mask : Nat) (exotic : Bool) (hn : nrefs < 2^62) (hm : mask < 2^32) :
    Gen.CellDesc.d1 (BitVec.ofNat 32 mask) (BitVec.ofNat 64 nrefs) exotic = (Tongo.d1 nrefs exotic mask).toBitVec :=
  GenTies.gen_d1 nrefs mask exotic hn hm

/-- tie (X4, regenerated from boc/cell.go): the descriptor byte `d2` REGENERATED on every run
(`byte((cell.BitSize()+7)/8 + cell.BitSize()/8)`, Go's signed division) is the `Tongo.d2` hashed by the model, for every
bit length below 2⁶². -/
theorem gen_d2 (bitLen : Nat) (h : bitLen < 2^62) :
    Gen.CellDesc.d2 (BitVec.ofNat 64 bitLen) = (Tongo.d2 bitLen).toBitVec :=
  GenTies.gen_d2 bitLen h

/-- tie (X4, regenerated from boc/cell.go): the length `(c.BitSize()+7)/8 + 2` of the slice allocated by
`bocReprWithoutRefs`, REGENERATED on every run (Go's signed division), is the length of the model's `reprNoRefs`
(two descriptor bytes and the topped-up data), for every bit length below 2⁶². -/
theorem gen_reprLen (bits : List Bool) (h : bits.length < 2^62) (ty nrefs mask : Nat) :
    (Tongo.reprNoRefs ty bits nrefs mask).length = (Gen.CellDesc.reprLen (BitVec.ofNat 64 bits.length)).toNat :=
  GenTies.gen_reprLen bits h ty nrefs mask

/-- tie (X4, regenerated from boc/cell.go): the condition `c.BitSize()%8 != 0` of `bocReprWithoutRefs`, REGENERATED
on every run (Go's signed remainder), is `n % 8 ≠ 0`, the condition under which the model's `Bits.addTag` adds the
completion tag. -/
theorem gen_tagNeeded (n : Nat) (h : n < 2^62) :
    Gen.CellDesc.tagNeeded (BitVec.ofNat 64 n) = decide (n % 8 ≠ 0) :=
  GenTies.gen_tagNeeded n h

/-- tie (X4, regenerated from boc/cell.go): the completion tag `1 << (7 - c.BitSize()%8)` OR-ed into the last byte by
`bocReprWithoutRefs`, REGENERATED on every run, is the byte `2^(7 - n % 8)`. -/
theorem gen_tagBit (n : Nat) (h : n < 2^62) :
    Gen.CellDesc.tagBit (BitVec.ofNat 64 n) = BitVec.ofNat 8 (2 ^ (7 - n % 8)) :=
  GenTies.gen_tagBit n h

/-- tie (X4, regenerated from boc/cell.go): the data part of `bocReprWithoutRefs` —
`copy(res[2:], buffer); if c.BitSize()%8 != 0 { res[len(res)-1] |= 1 << (7 - c.BitSize()%8) }` with the REGENERATED
condition and tag byte (`GenTies.orLast` is the `|=` on the last byte), applied to the zero-padded data bytes
`Bits.bitsToBytes bits` — is the `Bits.toppedUp bits` hashed by the model, for every bit length below 2⁶². -/
theorem gen_toppedUp (bits : List Bool) (h : bits.length < 2^62) :
    Bits.toppedUp bits =
      if Gen.CellDesc.tagNeeded (BitVec.ofNat 64 bits.length) then
        GenTies.orLast (Bits.bitsToBytes bits) (Gen.CellDesc.tagBit (BitVec.ofNat 64 bits.length))
      else Bits.bitsToBytes bits :=
  GenTies.gen_toppedUp bits h

/-- tie (X4, regenerated from boc/immutable_cell.go): the two bytes hashed for a child's depth in `newImmutableCell`
(`binary.BigEndian.PutUint16(depthRepr[:], uint16(childDepth))`), REGENERATED on every run, are the model's
`Tongo.be16` (used by `levelStep`), for every non-negative `int` depth. -/
theorem gen_depthBytes (d : Nat) (h : d < 2^63) :
    Gen.CellDesc.depthBytes (BitVec.ofNat 64 d) = (Tongo.be16 d).map UInt8.toBitVec :=
  GenTies.gen_depthBytes d h
/-- non-vacuity of `hash_ignores_reads`: a cell whose data were read (`ReadUint 5`, then a failing `ReadBits 300`)
and whose reference cursor moved -/
example : Cursor.Reads
    (.mk 0 0 ⟨[0xa5, 0xc0], 16, 10, 0⟩ [.mk 0 0 ⟨[0xe0], 8, 3, 0⟩ [] 0] 0)
    (.mk 0 0 ((Op.readBits 300).run ((Op.readUint 5).run ⟨[0xa5, 0xc0], 16, 10, 0⟩).2).2
      [.mk 0 0 ⟨[0xe0], 8, 3, 0⟩ [] 0] 1) :=
  .step (.bits 0 0 _ _ 0 (.readUint 5) rfl (by decide) (by decide +kernel))
    (.step (.bits 0 0 _ _ 0 (.readBits 300) rfl (by decide) (by decide +kernel))
      (.step (.refCursor 0 0 _ _ 0 1) (.refl _)))

/-- non-vacuity of `reprHash_inj_wfExotic` (TEST on literals, real SHA-256 in the kernel): collision-freedom holds on
the representations of a real-shaped pruned branch and an ordinary leaf -/
example : Spec.WFExotic exPruned ∧ Spec.WFExotic (.mk tyOrdinary 0 [true] []) ∧
    CollisionFree sha256 (Spec.allReprs sha256 exPruned ++ Spec.allReprs sha256 (.mk tyOrdinary 0 [true] [])) := by
  refine ⟨by decide +kernel, by decide +kernel, ?_⟩
  unfold CollisionFree
  decide +kernel

/-! Merkle updates with pruned branches on both sides (the `state_update` of a real block): `WFExotic` admits them
(two refs, `04 hash hash depth depth`, mask = (mask₁ ∨ mask₂) >> 1), so `impl_eq_spec` applies. -/

def exOld : Cell := .mk tyOrdinary 1 [true, true] [exPruned, .mk tyOrdinary 0 [false] []]
def exNew : Cell := .mk tyOrdinary 1 [true, false] [.mk tyOrdinary 0 [true] [], exPruned]
/-- old and new state, each with a pruned branch; the update itself has level 0 -/
def exStateUpdate : Cell := .mk tyMerkleUpdate 0 (Bits.natToBits 8 4 ++ zeros 544) [exOld, exNew]
def exBlock : Cell := .mk tyOrdinary 0 [true, false, true, true] [exStateUpdate, exLib]

example : Spec.WFExotic exBlock ∧ Spec.tooDeep exBlock = false := by decide +kernel

/-- `impl_eq_spec` instantiated on it (any hash function): the model of `Cell.Hash()` returns the definition's hash -/
example (H : List UInt8 → List UInt8) : Cell.reprHash H exBlock = .ok (Spec.reprHash H exBlock) :=
  reprHash_eq_spec H exBlock (by decide +kernel) (by decide +kernel)

/-- under the update the children are taken one level up: at level 1 a mask-1 pruned branch answers with its own
hash, so the update's hash does not depend on the hashes the pruned branches store (here: all zero) -/
example : Spec.childLevel tyMerkleUpdate 0 = 1 ∧ Spec.level exOld.mask = 1 := by decide

end Tongo.C02
