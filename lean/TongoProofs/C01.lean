import TongoProofs.Lemmas.BocWriter
import TongoProofs.Lemmas.BocOrderFinal
import TongoProofs.Lemmas.BocOrderCanon
import TongoProofs.Lemmas.BocCellTable
/-! Property C01 — bag-of-cells serialisation round-trips and is canonical.

`parseBoc` is the line-by-line model of the (repaired) Go reader, `emitBoc` the reference writer with every choice a
conforming implementation has (3 magics, index, CRC, cache bits, reference width up to 4, offset width up to 8,
several roots, cells with stored hashes, any topological order = any table whose refs point forward).
`Writer.serializeOrdered` is what Go's `serializeBoc` writes once an order of the cells is fixed; `Order.orderWith`
(TongoModel/BocOrder.lean) is the exact model of the ORDER produced by importCell/reorderCells/revisit, proved valid
for every `special` predicate (`order_valid`), so that the whole writer round-trips (`roundtrip_go_writer`).
Property theorems only. -/
namespace Tongo.C01
open Tongo Tongo.Boc

/-- Reading back what any conforming writer wrote returns exactly the table and the roots it was given: same bits
(every length 0..1023, i.e. every completion-tag position), same exotic type and level mask, same references in the
same order — for ALL admissible header parameters. -/
theorem parse_emit (p : EmitParams) (t : Table) (roots : List Nat)
    (hv : ValidLayout t roots) (hp : ParamsOK p t roots) :
    parseBoc (emitBoc p t roots) = .ok (t, roots) :=
  (parseBocM_emit p t roots hv hp).run

/-- The reference width chosen by serializeBoc (`⌈bits.Len(cellCount)/8⌉`, at least 1) holds the cell count and hence
every cell index; it is the smallest such width; in particular 255 cells take one byte, 256 and 65535 two, 65536
three. -/
theorem ref_width_boundaries :
    (∀ n, n < 256 ^ Writer.refByteSize n) ∧
    (∀ n, 1 < Writer.refByteSize n → 256 ^ (Writer.refByteSize n - 1) ≤ n) ∧
    Writer.refByteSize 255 = 1 ∧ Writer.refByteSize 256 = 2 ∧ Writer.refByteSize 65535 = 2 ∧
    Writer.refByteSize 65536 = 3 ∧ Writer.refByteSize 16777215 = 3 :=
  ⟨Writer.fits, Writer.minimal, by decide, by decide, by decide, by decide, by decide⟩

/-- The offset width chosen by serializeBoc holds the total size and — with cache bits — every doubled index entry
plus its cache bit (false on the code before `fix: off_bytes must hold the doubled index entries`). -/
theorem off_width_sufficient (tot : Nat) (cache : Bool) :
    (if cache then 2 * tot + 1 else tot) < 256 ^ Writer.offByteSize (Writer.maxOffset tot cache) :=
  Writer.maxOffset_fits tot cache

/-- The header arithmetic of serializeBoc is admissible: for a valid order of fewer than 2²⁴ cells whose roots are
cells, the widths, counters, offsets, index entries and cache bits it writes satisfy `ParamsOK` for all 2³ option
sets. (From 2²⁴ cells on, `WriteInt(refByteSize, 3)` would truncate the size field — `Writer.sizeField`.) -/
theorem writer_params_ok (t : Table) (roots : List Nat) (idx crc cache : Bool) (shouldCache : List Bool)
    (hn : t.size < 16777216) (hr1 : 1 ≤ roots.length) (hrn : roots.length ≤ t.size)
    (hlen : (Writer.serializeOrdered t roots idx crc cache shouldCache).length < two63) :
    ParamsOK (Writer.params t idx crc cache shouldCache) t roots :=
  Writer.params_ok t roots idx crc cache shouldCache hn hr1 hrn hlen

/-- Round trip: what serializeBoc writes for a valid order parses back to the same cells, for all 2³ option sets
and any cache-bit assignment. -/
theorem roundtrip (t : Table) (roots : List Nat) (idx crc cache : Bool) (shouldCache : List Bool)
    (hv : ValidLayout t roots) (hn : t.size < 16777216) (hr1 : 1 ≤ roots.length) (hrn : roots.length ≤ t.size)
    (hlen : (Writer.serializeOrdered t roots idx crc cache shouldCache).length < two63) :
    parseBoc (Writer.serializeOrdered t roots idx crc cache shouldCache) = .ok (t, roots) :=
  parse_emit _ t roots hv (Writer.params_ok t roots idx crc cache shouldCache hn hr1 hrn hlen)

/-- The cell ORDER computed by Go (importRoots/importCell, reorderCells, revisit — `Order.orderWith`, an exact
executable model tied to the code by the ops `boc.order` and `boc.serialize`) is valid for EVERY choice of the
`special` predicate (the weight heuristic only instantiates it) and every presentation `t` of a cell DAG (rows = Go's
`*Cell` objects, possibly structurally equal ones) whose de-duplication key identifies the unfolded tree:
the ordering succeeds, the result is a `ValidLayout` in the sense of `parse_emit` (every reference points to a strictly
later position, at most 4 of them, all in range, depth ≤ 1024), it stores every structurally distinct sub-cell exactly
once (`once`, `all`: shared sub-trees are stored once), and its root positions unfold to the input trees. -/
theorem order_valid {K : Type} [BEq K] [Hashable K] [LawfulBEq K] (t : Table) (roots : List Nat)
    (key : Nat → Option K) (special : Array Int → Nat → Bool)
    (hv : ValidLayout t roots) (hk : Order.KeyInjOn t key) :
    ∃ o, Order.orderWith t key special roots = .ok o ∧ Order.OrderValid t roots o :=
  Order.orderWith_valid t roots key special hv hk

/-- Round trip of the whole Go writer: `serializeBocModel` (Go's order, then the header arithmetic of serializeBoc)
succeeds, and the reader applied to its bytes returns the ordered table, whose roots unfold to the input trees — for
all 2³ option sets. (Size conditions: fewer than 2²⁴ distinct cells, at least one root and not more roots than cells —
always true for the single root of the public API —, the output is a Go slice.) -/
theorem roundtrip_go_writer {K : Type} [BEq K] [Hashable K] [LawfulBEq K] (t : Table) (roots : List Nat)
    (key : Nat → Option K) (idx crc cache : Bool) (hv : ValidLayout t roots) (hk : Order.KeyInjOn t key) :
    ∃ o bs, Order.order t key roots = .ok o ∧ Order.serializeBocModel t key roots idx crc cache = .ok bs ∧
      Order.OrderValid t roots o ∧
      (o.table.size < 16777216 → 1 ≤ roots.length → roots.length ≤ o.table.size → bs.length < two63 →
        parseBoc bs = .ok (o.table, o.roots)) := by
  obtain ⟨o, ho, hval⟩ := Order.orderWith_valid t roots key Order.goSpecial hv hk
  have hord : Order.order t key roots = .ok o := ho
  refine ⟨o, Writer.serializeOrdered o.table o.roots idx crc cache o.cacheBits, hord,
    by simp only [Order.serializeBocModel, hord], hval, ?_⟩
  intro hn hr1 hrn hlen
  have hrl : o.roots.length = roots.length := by
    have := congrArg List.length hval.roots_eq
    simpa using this
  exact roundtrip o.table o.roots idx crc cache o.cacheBits hval.valid hn (by omega) (by omega) hlen

/-- `KeyInjOn` holds for Go's actual key — the representation hash `Cell.Hash()` of the cell a row unfolds to
(`Order.goKey`; Go uses its hex string, an injective rendering) — on every valid table of level-0 cells (mask 0, no
pruned branch: what the wallet, the message builders and the TL-B encoders produce), as soon as `H` has 32-byte outputs
and no collision among the representations of the table's cells. (For cells with non-zero level masks the hash does
NOT determine the tree unless the masks are consistent — see `assumptions`; not derived there.) -/
theorem keyInjOn_of_collisionFree (H : List UInt8 → List UInt8) (hlen : ∀ x, (H x).length = 32) (t : Table)
    (roots : List Nat) (hv : ValidLayout t roots) (h0 : Order.Lvl0 t)
    (cf : CollisionFree H (Order.reprsOf H t)) : Order.KeyInjOn t (Order.goKey H t) :=
  Order.keyInjOn_of_collisionFree H hlen t roots hv h0 cf

/-- `roundtrip_go_writer` with collision-freedom as the only hypothesis about the hash: the writer model keyed by the
representation hash round-trips on every valid level-0 table. -/
theorem roundtrip_go_writer_sha (H : List UInt8 → List UInt8) (hlen : ∀ x, (H x).length = 32) (t : Table)
    (roots : List Nat) (idx crc cache : Bool) (hv : ValidLayout t roots) (h0 : Order.Lvl0 t)
    (cf : CollisionFree H (Order.reprsOf H t)) :
    ∃ o bs, Order.order t (Order.goKey H t) roots = .ok o ∧
      Order.serializeBocModel t (Order.goKey H t) roots idx crc cache = .ok bs ∧ Order.OrderValid t roots o ∧
      (o.table.size < 16777216 → 1 ≤ roots.length → roots.length ≤ o.table.size → bs.length < two63 →
        parseBoc bs = .ok (o.table, o.roots)) :=
  roundtrip_go_writer t roots (Order.goKey H t) idx crc cache hv
    (Order.keyInjOn_of_collisionFree H hlen t roots hv h0 cf)

/-- Canonical: two presentations of the same cells (different row order, different sharing, duplicate rows) whose roots
unfold to the same trees — keys identifying the trees in both, and agreeing across the two — are serialised to the
same bytes, for all 2³ option sets. (The import walks the unfolded trees and de-duplicates by key, so the import order,
the weights, the cache flags and hence the final order depend only on the trees.) -/
theorem serialize_canonical {K : Type} [BEq K] [Hashable K] [LawfulBEq K] (t1 t2 : Table) (roots1 roots2 : List Nat)
    (key1 key2 : Nat → Option K) (idx crc cache : Bool)
    (hv1 : ValidLayout t1 roots1) (hv2 : ValidLayout t2 roots2)
    (hk1 : Order.KeyInjOn t1 key1) (hk2 : Order.KeyInjOn t2 key2)
    (hsame : ∀ i1 i2, i1 < t1.size → i2 < t2.size →
      Table.unfold t1 (t1.size + 1) i1 = Table.unfold t2 (t2.size + 1) i2 → key1 i1 = key2 i2)
    (hroots : roots1.map (Table.unfold t1 (t1.size + 1)) = roots2.map (Table.unfold t2 (t2.size + 1))) :
    ∃ bs, Order.serializeBocModel t1 key1 roots1 idx crc cache = .ok bs ∧
      Order.serializeBocModel t2 key2 roots2 idx crc cache = .ok bs := by
  obtain ⟨o1, o2, e1, e2, ht, hr, hc⟩ :=
    Order.orderWith_canonical t1 t2 roots1 roots2 key1 key2 Order.goSpecial hv1 hv2 hk1 hk2 hsame hroots
  have e1' : Order.order t1 key1 roots1 = .ok o1 := e1
  have e2' : Order.order t2 key2 roots2 = .ok o2 := e2
  refine ⟨Writer.serializeOrdered o1.table o1.roots idx crc cache o1.cacheBits, ?_, ?_⟩
  · simp only [Order.serializeBocModel, e1']
  · simp only [Order.serializeBocModel, e2', ht, hr, hc]

/-- Every cell TREE within the limits of the format (`CellOK`: ≤ 1023 bits, ≤ 4 references, 3-bit masks, complete
pruned branches, exotic cells starting with their type byte; depth ≤ 1024) has a table presentation that is a valid
layout and whose root unfolds to the tree. -/
theorem cell_has_presentation (c : Cell) (hok : Order.CellOK c) (hd : Order.cellDepth c ≤ maxDepth) :
    ValidLayout (Order.cellTable c) [0] ∧
    Table.unfold (Order.cellTable c) ((Order.cellTable c).size + 1) 0 = some c :=
  ⟨Order.cellTable_valid c hok hd, Order.cellTable_unfold c⟩

/-- Round trip of the whole Go writer for ONE root (the public API), with every witness pinned and no guard on the
conclusion: the ordering succeeds with result `o`, the writer model returns `bs`, `o` is `OrderValid`, and the reader
applied to `bs` returns exactly `(o.table, o.roots)`. The size conditions are derived from the input: `o` has at most
as many cells as the presentation has rows (`OrderValid.size_le`, a counting argument), which is below 2²⁴, and the
output of fewer than 2²⁴ cells is far shorter than a Go slice may be (`Writer.serializeOrdered_length_lt`). -/
theorem roundtrip_go_writer_single {K : Type} [BEq K] [Hashable K] [LawfulBEq K] (t : Table) (root : Nat)
    (key : Nat → Option K) (idx crc cache : Bool) (hv : ValidLayout t [root]) (hk : Order.KeyInjOn t key)
    (hn : t.size < 16777216) :
    ∃ o bs, Order.order t key [root] = .ok o ∧ Order.serializeBocModel t key [root] idx crc cache = .ok bs ∧
      Order.OrderValid t [root] o ∧ parseBoc bs = .ok (o.table, o.roots) := by
  obtain ⟨o, ho, hval⟩ := Order.orderWith_valid t [root] key Order.goSpecial hv hk
  have hord : Order.order t key [root] = .ok o := ho
  have hrl : o.roots.length = 1 := by
    have := congrArg List.length hval.roots_eq
    simpa using this
  have hpos : 1 ≤ o.table.size := by
    cases hr : o.roots with
    | nil => rw [hr] at hrl; simp at hrl
    | cons r rs =>
      have := hval.valid.1.2.1 r (by rw [hr]; simp)
      omega
  have hsz : o.table.size < 16777216 := Nat.lt_of_le_of_lt hval.size_le hn
  have hlen := Writer.serializeOrdered_length_lt o.table o.roots idx crc cache o.cacheBits
    (fun i h => ⟨(hval.valid.1.1 i h).bits_le, (hval.valid.1.1 i h).refs_le⟩) hsz (by omega)
  exact ⟨o, Writer.serializeOrdered o.table o.roots idx crc cache o.cacheBits, hord,
    by simp only [Order.serializeBocModel, hord], hval,
    roundtrip o.table o.roots idx crc cache o.cacheBits hval.valid hsz (by omega) (by omega) hlen⟩

/-- **Round trip on cells.** For every cell tree `c` within the limits of the format with fewer than 2²⁴ nodes, every
key identifying its cells, every hash function `H` and all 2³ option sets: ordering the (presentation of the) tree
succeeds with result `o`, the writer model returns bytes `bs`, the reader applied to `bs` returns exactly `o`'s table
and root, that root unfolds to `c` — same bits, type, references in the same order — and therefore has the same
representation hash. Every witness is pinned; nothing is guarded. By `serialize_canonical` any other presentation of
the same tree (any sharing) gives the same bytes. -/
theorem roundtrip_cell {K : Type} [BEq K] [Hashable K] [LawfulBEq K] (c : Cell) (key : Nat → Option K)
    (idx crc cache : Bool) (H : List UInt8 → List UInt8) (hok : Order.CellOK c) (hd : Order.cellDepth c ≤ maxDepth)
    (hn : Order.nodes c < 16777216) (hk : Order.KeyInjOn (Order.cellTable c) key) :
    ∃ (o : Order.Ordered) (bs : Bytes), Order.order (Order.cellTable c) key [0] = .ok o ∧
      Order.serializeBocModel (Order.cellTable c) key [0] idx crc cache = .ok bs ∧
      parseBoc bs = .ok (o.table, o.roots) ∧
      o.roots.map (Table.unfold o.table (o.table.size + 1)) = [some c] ∧
      o.roots.map (fun r => (Table.unfold o.table (o.table.size + 1) r).map (Cell.reprHash H)) =
        [some (Cell.reprHash H c)] := by
  have hsz : (Order.cellTable c).size = Order.nodes c := by simp [Order.cellTable, Order.rowsOf_length]
  obtain ⟨o, bs, hord, hser, hval, hparse⟩ :=
    roundtrip_go_writer_single (Order.cellTable c) 0 key idx crc cache (Order.cellTable_valid c hok hd) hk
      (by rw [hsz]; exact hn)
  have hroots : o.roots.map (Table.unfold o.table (o.table.size + 1)) = [some c] := by
    have := hval.roots_eq
    simpa [Order.cellTable_unfold c] using this
  refine ⟨o, bs, hord, hser, hparse, hroots, ?_⟩
  have : o.roots.map (fun r => (Table.unfold o.table (o.table.size + 1) r).map (Cell.reprHash H)) =
      (o.roots.map (Table.unfold o.table (o.table.size + 1))).map (Option.map (Cell.reprHash H)) := by
    rw [List.map_map]; rfl
  rw [this, hroots]
  rfl

/-- Regression (AUDIT2 B2): the earlier statement of `roundtrip_cell` had an unpinned witness and a size guard, so it
followed from "the writer returned some bytes" by choosing a padded table of 2²⁴ rows. With the pinned statement that
shortcut no longer elaborates. -/
example (c : Cell) (key : Nat → Option Nat) (bs : Bytes)
    (hser : Order.serializeBocModel (Order.cellTable c) key [0] false false false = .ok bs) : True := by
  fail_if_success
    (have : ∃ (o : Order.Ordered) (bs' : Bytes), Order.order (Order.cellTable c) key [0] = .ok o ∧
        Order.serializeBocModel (Order.cellTable c) key [0] false false false = .ok bs' ∧
        parseBoc bs' = .ok (o.table, o.roots) := by
      refine ⟨⟨Array.replicate 16777216 default, [0], [], []⟩, bs, ?_, hser, ?_⟩ <;>
        first | rfl | decide | (intro h; omega) | (simp; done))
  trivial

/-- `serialize_canonical` instantiated: the same cell presented with the leaf duplicated (`exDup`, rows 1 and 2) and
with the leaf shared (`exShared`) is serialised to the same bytes. -/
example (idx crc cache : Bool) : ∃ bs,
    Order.serializeBocModel Order.exDup (fun i => some (if i = 2 then 1 else i)) [0] idx crc cache = .ok bs ∧
    Order.serializeBocModel Order.exShared (fun i => some i) [0] idx crc cache = .ok bs :=
  serialize_canonical Order.exDup Order.exShared [0] [0] _ _ idx crc cache Order.exDup_valid Order.exShared_valid
    Order.exDup_key Order.exShared_key Order.exDup_exShared_keys Order.exDup_exShared_roots

/-- The hypotheses of `order_valid` / `roundtrip_go_writer` are satisfiable by a table with sharing (the root refers
twice to the same child), keyed by the row number. -/
example : ∃ (t : Table) (roots : List Nat) (key : Nat → Option Nat),
    ValidLayout t roots ∧ Order.KeyInjOn t key ∧ t.size = 2 :=
  ⟨Order.exT, [0], fun i => some i, Order.exT_valid, Order.exT_key, rfl⟩

/-- … and by a table with two structurally equal rows (rows 1 and 2 are the same cell and share a key): the
de-duplication hit path of importCell is exercised. -/
example : ∃ (t : Table) (roots : List Nat) (key : Nat → Option Nat),
    ValidLayout t roots ∧ Order.KeyInjOn t key ∧ t.size = 3 ∧ key 1 = key 2 :=
  ⟨Order.exDup, [0], fun i => some (if i = 2 then 1 else i), Order.exDup_valid, Order.exDup_key, rfl, rfl⟩

/-- Not vacuous (tests on literals): a two-row table with a shared, non-byte-aligned, child is written by the
reference writer with the idx+crc magic, 2-byte references, 3-byte offsets, and read back. -/
example :
    parseBoc (emitBoc ⟨2, false, false, false, 2, 3, 0, [], []⟩
      #[⟨0, 0, [true, false, true], [1, 1]⟩, ⟨0, 0, [], []⟩] [0])
    = .ok (#[⟨0, 0, [true, false, true], [1, 1]⟩, ⟨0, 0, [], []⟩], [0]) := by decide +kernel

example : Writer.serializeOrdered #[⟨0, 0, [true], []⟩] [0] true false true [true]
    = [0xb5, 0xee, 0x9c, 0x72, 0xa1, 0x01, 0x01, 0x01, 0x00, 0x03, 0x00, 0x07, 0x00, 0x01, 0xc0] := by decide +kernel

end Tongo.C01
