import TongoGen.TlbTypes
import TongoModel.Tlb.Enc
import TongoProofs.Lemmas.WalletMsg
import TongoProofs.C15Tlb
/-! Property C14, tie to the regenerated TL-B descriptors: the hand-written body layouts of `TongoModel/WalletMsg.lean`
(`signedLayout` for v3 / v4, the signed-body wrapper `SignedMsgBody`, one v5 action `W5SendMessageAction`, the nested
action list `W5Actions`) are what the reflection codec model (`Tlb.encode`, C03/C04) produces from the descriptors
that translator X1 regenerates from wallet/*.go on every run. A field swapped or resized in `wallet.MessageV3`,
`MessageV4`, `SignedMsgBody` or `W5SendMessageAction` breaks an obligation here. (`HighloadV2Message`, `MessageV5` and
the unexported v5 builder structs are opaque / not exported for X1; their layouts stay tied by the bit-exact
correspondence and, for the constants, by `WalletConsts`.) -/
namespace Tongo.C14Tlb
open Tongo Tongo.Tlb Tongo.Bits Tongo.Wallet TongoGen.TlbTypes Tongo.C15Tlb

/-- the `PayloadV1toV4` / `W5Actions` value of the codec model for a list of raw messages -/
def payVal (msgs : List RawMsg) : Val := Val.list (msgs.map fun m => Val.list [Val.some (.cell m.msg), .int m.mode])
def actVal (msgs : List RawMsg) : Val := Val.list (msgs.map fun m => Val.list [.magic, .int m.mode, Val.some (.cell m.msg)])

theorem valLen_payVal (msgs : List RawMsg) : Prim.valLen (payVal msgs) = msgs.length := by
  induction msgs with
  | nil => rfl
  | cons m ms ih => simp [payVal, Val.list, Prim.valLen] at ih ⊢; exact ih

theorem encPayloadItems_eq (msgs : List RawMsg) : ∀ (b : Builder), b.bits.length + 8 * msgs.length ≤ 1023 →
    b.refs.length + msgs.length ≤ 4 →
    Prim.encPayloadItems (payVal msgs) b = .ok { b with bits := b.bits ++ modeBits msgs, refs := b.refs ++ msgCells msgs } := by
  induction msgs with
  | nil => intro b _ _; simp [payVal, Val.list, Prim.encPayloadItems, modeBits, msgCells]
  | cons m ms ih =>
    intro b hb hr
    simp only [List.length_cons] at hb hr
    have h1 : b.bits.length + 8 ≤ 1023 := by omega
    have h2 : b.refs.length < 4 := by omega
    have hstep : payVal (m :: ms) = .cons (.cons (.cons (.cell m.msg) .nil) (.cons (.int m.mode) .nil)) (payVal ms) := rfl
    rw [hstep, Prim.encPayloadItems]
    have hw : b.writeUint (Int.toNat (m.mode : Int)) 8 = .ok { b with bits := b.bits ++ natToBits 8 m.mode } := by
      simp [Builder.writeUint, Builder.writeBits, cellBits, h1, natToBits_mod64]
    have ha : ({ b with bits := b.bits ++ natToBits 8 m.mode } : Builder).addRef m.msg =
        .ok { b with bits := b.bits ++ natToBits 8 m.mode, refs := b.refs ++ [m.msg] } := by
      simp [Builder.addRef, cellRefs, h2]
    simp only [hw, ha, bind, Outcome.bind]
    rw [ih _ (by simp; omega) (by simp; omega)]
    simp [modeBits_cons, msgCells_cons]

/-- `wallet.MessageV3{SubWalletId, ValidUntil, Seqno, RawMessages}` = the v3 signed layout -/
theorem bodyV3_eq_desc (v : Version) (hf : v.family = .v3) (ids : BodyIds) (op seqno vu : Nat) (msgs : List RawMsg)
    (hn : msgs.length ≤ 4) :
    desc_wallet_MessageV3 = (.struct (.cons "SubWalletId" .plain (.uint 32) (.cons "ValidUntil" .plain (.uint 32)
        (.cons "Seqno" .plain (.uint 32) (.cons "RawMessages" .plain (.prim .payloadV1toV4) .nil))))) ∧
    (encode env 12 desc_wallet_MessageV3 (Val.list [.int ids.subWallet, .int vu, .int seqno, payVal msgs]) Builder.empty).bind
        (fun b => .ok b.toCell) = .ok (signedLayout v ids op seqno vu msgs) := by
  have hp := encPayloadItems_eq msgs
    { bits := natToBits 32 ids.subWallet ++ (natToBits 32 vu ++ natToBits 32 seqno), refs := [] } (by simp; omega) (by simp; omega)
  refine ⟨rfl, ?_⟩
  simp [desc_wallet_MessageV3, encode, encodeFields, encodeField, Val.list, Builder.writeUint, Builder.writeBits,
    Builder.empty, cellBits, bind, Outcome.bind, natToBits_mod64, Prim.enc, Prim.encPayloadV1toV4, valLen_payVal,
    Nat.not_lt.mpr hn, hp, signedLayout, hf, Builder.toCell, Cell.ordinary]

/-- `wallet.MessageV4{SubWalletId, ValidUntil, Seqno, Op int8 = 0, RawMessages}` = the v4 signed layout -/
theorem bodyV4_eq_desc (v : Version) (hf : v.family = .v4) (ids : BodyIds) (op seqno vu : Nat) (msgs : List RawMsg)
    (hn : msgs.length ≤ 4) :
    desc_wallet_MessageV4 = (.struct (.cons "SubWalletId" .plain (.uint 32) (.cons "ValidUntil" .plain (.uint 32)
        (.cons "Seqno" .plain (.uint 32) (.cons "Op" .plain (.int 8) (.cons "RawMessages" .plain (.prim .payloadV1toV4) .nil)))))) ∧
    (encode env 14 desc_wallet_MessageV4 (Val.list [.int ids.subWallet, .int vu, .int seqno, .int 0, payVal msgs]) Builder.empty).bind
        (fun b => .ok b.toCell) = .ok (signedLayout v ids op seqno vu msgs) := by
  have hp := encPayloadItems_eq msgs
    { bits := natToBits 32 ids.subWallet ++ (natToBits 32 vu ++ (natToBits 32 seqno ++ natToBits 8 0)), refs := [] }
    (by simp; omega) (by simp; omega)
  have hi : Builder.intBitsGo 0 8 = natToBits 8 0 := by decide
  refine ⟨rfl, ?_⟩
  simp [desc_wallet_MessageV4, encode, encodeFields, encodeField, Val.list, Builder.writeUint, Builder.writeInt_wide _ _ 8 (by omega), Builder.writeBits,
    Builder.empty, cellBits, bind, Outcome.bind, natToBits_mod64, Prim.enc, Prim.encPayloadV1toV4, valLen_payVal,
    Nat.not_lt.mpr hn, hi, hp, signedLayout, hf, Builder.toCell, Cell.ordinary]

/-- `wallet.SignedMsgBody{Sign Bits512, Message Any}` = the signature in front of the signed cell's bits and refs
(`attached` for the versions that put the signature first) -/
theorem signedMsgBody_eq_desc (v : Version) (hf : sigFirst v = true) (sig : List UInt8) (hs : sig.length = 64) (c : Cell)
    (hb : c.bits.length + 512 ≤ 1023) (hr : c.refs.length ≤ 4) :
    desc_wallet_SignedMsgBody = (.struct (.cons "Sign" .plain (.bytes 64) (.cons "Message" .plain (.prim .any) .nil))) ∧
    (encode env 8 desc_wallet_SignedMsgBody (Val.list [.bytes sig, .cell c]) Builder.empty).bind (fun b => .ok b.toCell)
      = .ok (attached v sig c) := by
  obtain ⟨ty, mask, bits, refs⟩ := c
  simp only [Cell.bits, Cell.refs] at hb hr
  have hfold : ∀ (rs : List Cell) (b : Builder), b.refs.length + rs.length ≤ 4 →
      rs.foldlM (fun b r => b.addRef r) b = .ok { b with refs := b.refs ++ rs } := by
    intro rs
    induction rs with
    | nil => intro b _; simp [pure]
    | cons r rs ih =>
      intro b h
      simp only [List.length_cons] at h
      have h2 : b.refs.length < 4 := by omega
      have ha : b.addRef r = .ok { b with refs := b.refs ++ [r] } := by simp [Builder.addRef, cellRefs, h2]
      rw [List.foldlM_cons, ha]
      simp only [bind, Outcome.bind]
      rw [ih _ (by simp; omega)]
      simp
  have hl : (bytesToBits sig).length = 512 := by simp [hs]
  have hb' : 512 + bits.length ≤ 1023 := by omega
  have := hfold refs { bits := bytesToBits sig ++ bits, refs := [] } (by simp; omega)
  simp only [List.nil_append] at this
  refine ⟨rfl, ?_⟩
  simp [desc_wallet_SignedMsgBody, encode, encodeFields, encodeField, Val.list, Builder.writeBytes, Builder.writeBits,
    Builder.empty, cellBits, bind, Outcome.bind, Prim.enc, hs, hl, hb', this, attached, hf, Builder.toCell, Cell.ordinary,
    Cell.bits, Cell.refs]

/-- `wallet.W5SendMessageAction{Magic #0ec3c86d, Mode uint8, Msg ^Cell}` and `W5Actions.MarshalTLB`: the nested action
list of the codec model equals `actionsCell` (magic, mode, reference to the rest, reference to the message; the first
message outermost) -/
theorem w5Actions_eq_desc (msgs : List RawMsg) :
    (Prim.encW5Actions (actVal msgs) Builder.empty).bind (fun b => .ok b.toCell) = .ok (actionsCell msgs)
    ∧ desc_wallet_W5SendMessageAction =
        .struct (.cons "Magic" .plain (.magic (some ⟨32, actionSendMsgTag⟩)) (.cons "Mode" .plain (.uint 8)
          (.cons "Msg" .ref (.ptr false .cell) .nil))) := by
  refine ⟨?_, rfl⟩
  induction msgs with
  | nil => rfl
  | cons m ms ih =>
    cases hrest : Prim.encW5Actions (actVal ms) Builder.empty with
    | ok br =>
      simp only [hrest, Outcome.bind, Outcome.ok.injEq] at ih
      have hstep : actVal (m :: ms) =
          .cons (.cons .magic (.cons (.int m.mode) (.cons (.cons (.cell m.msg) .nil) .nil))) (actVal ms) := rfl
      rw [hstep, Prim.encW5Actions]
      simp only [Builder.empty] at hrest
      simp only [Builder.toCell] at ih
      simp [hrest, Builder.writeUint, Builder.writeBits, Builder.addRef, Builder.empty, cellBits,
        cellRefs, bind, Outcome.bind, natToBits_mod64, Prim.w5Magic, actionsCell, actionSendMsgTag, ih, Builder.toCell,
        Cell.ordinary]
    | err e => simp [hrest, Outcome.bind] at ih
    | panic e => simp [hrest, Outcome.bind] at ih

end Tongo.C14Tlb
