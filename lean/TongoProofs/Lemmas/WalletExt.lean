import TongoProofs.Lemmas.WalletMsg
/-! v5 extended actions: what `writeExtActions` writes (`extChainCell`), and `readExtActions` / `readExtChain` read it
back. Well-formed actions: standard addresses with an `int8` workchain and a 32-byte hash. -/
namespace Tongo.Wallet
open Tongo Tongo.Bits

def ExtAddr.WF : ExtAddr → Prop
  | .none => True
  | .std wc hash => -128 ≤ wc ∧ wc ≤ 127 ∧ hash.length = 32

def ExtAction.WF : ExtAction → Prop
  | .addExtension a => a.WF
  | .removeExtension a => a.WF
  | .setSignatureAllowed _ => True

set_option maxRecDepth 100000 in
theorem int8_roundtrip_fin : ∀ w : Fin 256, bitsToInt (intToBits 8 ((w.val : Int) - 128)) = (w.val : Int) - 128 := by decide

theorem int8_roundtrip (wc : Int) (h1 : -128 ≤ wc) (h2 : wc ≤ 127) : bitsToInt (intToBits 8 (toI8 wc)) = wc := by
  have ht : toI8 wc = wc := by unfold toI8; omega
  have := int8_roundtrip_fin ⟨(wc + 128).toNat, by omega⟩
  have e : (((wc + 128).toNat : Nat) : Int) - 128 = wc := by omega
  simp only [e] at this
  rw [ht]; exact this

@[simp] theorem extAddrBits_length (a : ExtAddr) : (extAddrBits a).length = match a with | .none => 2 | .std _ _ => 267 := by
  cases a <;> simp [extAddrBits, intToBits]
  omega

theorem extActionBits_length_le (a : ExtAction) : (extActionBits a).length ≤ 275 := by
  cases a with
  | addExtension x => cases x <;> simp [extActionBits]
  | removeExtension x => cases x <;> simp [extActionBits]
  | setSignatureAllowed b => simp [extActionBits]

theorem extActionBits_length_ge (a : ExtAction) : 8 ≤ (extActionBits a).length := by
  cases a <;> simp [extActionBits]

theorem readExtAddr_bits (a : ExtAddr) (hw : a.WF) (rest : List Bool) (refs : List Cell) :
    readExtAddr { bits := extAddrBits a ++ rest, refs := refs } = .ok (a, { bits := rest, refs := refs }) := by
  cases a with
  | none => simp [readExtAddr, extAddrBits, readUint2_cons, bind, Outcome.bind, pure]
  | std wc hash =>
    obtain ⟨h1, h2, h3⟩ := hw
    have hpad : hash.take 32 ++ List.replicate (32 - hash.length) 0 = hash := by
      rw [h3, List.take_of_length_le (by omega)]; simp
    have hl8 : (intToBits 8 (toI8 wc)).length = 8 := by simp [intToBits]
    have hl256 : (bytesToBits hash).length = 256 := by simp [h3]
    simp only [readExtAddr, extAddrBits, hpad, List.cons_append, List.nil_append, List.append_assoc, readUint2_cons, bind,
      Outcome.bind, pure, Bool.toNat_true, Bool.toNat_false, CellR.readBit_cons]
    rw [if_neg (by decide), if_pos (by decide)]
    simp only [Bool.false_eq_true, ↓reduceIte]
    rw [CellR.readBits_append _ _ _ 8 hl8]; simp only []
    rw [CellR.readBits_append _ _ _ 256 hl256]
    simp [int8_roundtrip wc h1 h2, bitsToBytes_bytesToBits_co]

theorem readExtAction_bits (a : ExtAction) (hw : a.WF) (rest : List Bool) (refs : List Cell) :
    readExtAction { bits := extActionBits a ++ rest, refs := refs } = .ok (a, { bits := rest, refs := refs }) := by
  have hlen : ¬ ((extActionBits a ++ rest).length < 8) := by
    have := extActionBits_length_ge a
    simp only [List.length_append]; omega
  unfold readExtAction
  simp only [hlen, ↓reduceIte, bind, Outcome.bind, pure]
  cases a with
  | addExtension x =>
    simp only [extActionBits, List.append_assoc]
    rw [CellR.readUint_append 8 2 _ _ (by decide)]
    simp only [↓reduceIte]
    rw [readExtAddr_bits x hw]
  | removeExtension x =>
    simp only [extActionBits, List.append_assoc]
    rw [CellR.readUint_append 8 3 _ _ (by decide)]
    simp only []
    rw [if_neg (by decide), if_pos trivial, readExtAddr_bits x hw]
  | setSignatureAllowed b =>
    simp only [extActionBits, List.append_assoc, List.cons_append, List.nil_append]
    rw [CellR.readUint_append 8 4 _ _ (by decide)]
    simp only []
    rw [if_neg (by decide), if_neg (by decide), if_pos trivial]
    simp [CellR.readBit]

/-- the cell chain `W5ExtendedActions.MarshalTLB` hangs off the cell holding the first action -/
def extChainCell : List ExtAction → Cell
  | [] => .ordinary [] []
  | [a] => .ordinary (extActionBits a) []
  | a :: b :: rest => .ordinary (extActionBits a) [extChainCell (b :: rest)]

theorem writeExtActions_ok : ∀ (a : ExtAction) (rest : List ExtAction) (b : CellB), b.bits.length + 275 ≤ 1023 → b.refs.length < 4 →
    writeExtActions b (a :: rest) =
      .ok { bits := b.bits ++ extActionBits a, refs := b.refs ++ (if rest = [] then [] else [extChainCell rest]) }
  | a, [], b, hb, _ => by
    have := extActionBits_length_le a
    simp [writeExtActions, CellB.write_ok _ _ (by omega : b.bits.length + (extActionBits a).length ≤ 1023)]
  | a, c :: rest, b, hb, hr => by
    have hla := extActionBits_length_le a
    have ih := writeExtActions_ok c rest CellB.empty (by simp [CellB.empty]) (by simp [CellB.empty])
    rw [writeExtActions.eq_3 _ _ _ (by simp), CellB.write_ok _ _ (by omega : b.bits.length + (extActionBits a).length ≤ 1023)]
    simp only [bind, Outcome.bind, ih]
    rw [CellB.addRef_ok _ _ (by simpa using hr)]
    cases rest with
    | nil => simp [CellB.toCell, CellB.empty, extChainCell]
    | cons d rest' => simp [CellB.toCell, CellB.empty, extChainCell]

theorem extChainCell_ty (l : List ExtAction) : (extChainCell l).ty = 0 := by
  match l with
  | [] => rfl
  | [_] => rfl
  | _ :: _ :: _ => rfl

theorem depthO_extChainCell : ∀ (l : List ExtAction), l.length ≤ (extChainCell l).depthO + 1
  | [] => by simp
  | [_] => by simp
  | a :: b :: rest => by
    have := depthO_extChainCell (b :: rest)
    simp only [extChainCell, Cell.ordinary, Cell.depthO, Cell.maxDepthO, List.length_cons, List.isEmpty_cons,
      Bool.false_eq_true, ↓reduceIte] at this ⊢
    omega

theorem readExtChain_ok : ∀ (l : List ExtAction) (fuel : Nat), l ≠ [] → l.length < fuel + 1 → (∀ a ∈ l, a.WF) →
    readExtChain fuel (extChainCell l) = .ok l
  | [], _, h, _, _ => absurd rfl h
  | [a], fuel, _, hf, hw => by
    cases fuel with
    | zero => simp at hf
    | succ f =>
      have := readExtAction_bits a (hw a (by simp)) [] []
      rw [List.append_nil] at this
      simp [readExtChain, extChainCell, Cell.ordinary, Cell.ty, tyLibrary, CellR.ofCell, Cell.bits, Cell.refs, this, bind,
        Outcome.bind, pure]
  | a :: b :: rest, fuel, _, hf, hw => by
    cases fuel with
    | zero => simp at hf
    | succ f =>
      have h1 := readExtAction_bits a (hw a (by simp)) [] [extChainCell (b :: rest)]
      rw [List.append_nil] at h1
      have ih := readExtChain_ok (b :: rest) f (by simp) (by simp at hf ⊢; omega) (fun x hx => hw x (by simp [hx]))
      simp [readExtChain, extChainCell, Cell.ordinary, Cell.ty, tyLibrary, CellR.ofCell, Cell.bits, Cell.refs, h1, ih, bind,
        Outcome.bind, pure]

/-- `readExtActions` at the position where `writeExtActions` wrote: the actions come back, the reader stands behind
the first action and past the chain reference -/
theorem readExtActions_ok (a : ExtAction) (tl : List ExtAction) (hw : ∀ x ∈ a :: tl, x.WF) (rest : List Bool) :
    readExtActions { bits := extActionBits a ++ rest, refs := if tl = [] then [] else [extChainCell tl] } =
      .ok (a :: tl, { bits := rest, refs := [] }) := by
  cases tl with
  | nil => simp [readExtActions, readExtAction_bits a (hw a (by simp)), bind, Outcome.bind, pure]
  | cons b tl' =>
    have hc := readExtChain_ok (b :: tl') ((extChainCell (b :: tl')).depthO + 2) (by simp)
      (by have := depthO_extChainCell (b :: tl'); omega) (fun x hx => hw x (by simp [hx]))
    simp [readExtActions, readExtAction_bits a (hw a (by simp)), hc, bind, Outcome.bind, pure]

end Tongo.Wallet
