import TongoProofs.Lemmas.BocSpec
import TongoProofs.Lemmas.Bits
/-! Byte-level facts for the bag-of-cells round trip: big-endian integers, little-endian checksum, bit packing and
the completion tag. -/
namespace Tongo.Boc
open Tongo

/-! ### big-endian integers -/

@[simp] theorem toBytesBE_length (w n : Nat) : (toBytesBE w n).length = w := by
  induction w with
  | zero => rfl
  | succ w ih => simp [toBytesBE, ih]

theorem ofBytesBE_foldl (b : Bytes) (acc : Nat) :
    b.foldl (fun a x => a * 256 + x.toNat) acc = acc * 256 ^ b.length + ofBytesBE b := by
  induction b generalizing acc with
  | nil => simp [ofBytesBE]
  | cons x t ih =>
    simp only [List.foldl_cons, List.length_cons, ofBytesBE]
    rw [ih, ih (0 * 256 + x.toNat)]
    rw [Nat.pow_succ]
    simp only [Nat.zero_mul, Nat.zero_add]
    rw [Nat.add_mul, Nat.mul_assoc, Nat.mul_comm 256 (256 ^ t.length), Nat.add_assoc]

theorem ofBytesBE_cons (x : UInt8) (t : Bytes) : ofBytesBE (x :: t) = x.toNat * 256 ^ t.length + ofBytesBE t := by
  have := ofBytesBE_foldl t (0 * 256 + x.toNat)
  simp only [ofBytesBE, List.foldl_cons] at *
  simpa using this

theorem ofBytesBE_lt (b : Bytes) : ofBytesBE b < 256 ^ b.length := by
  induction b with
  | nil => simp [ofBytesBE]
  | cons x t ih =>
    rw [ofBytesBE_cons, List.length_cons, Nat.pow_succ]
    have hx : x.toNat < 256 := x.toNat_lt
    have : x.toNat * 256 ^ t.length ≤ 255 * 256 ^ t.length := Nat.mul_le_mul_right _ (by omega)
    omega

/-- header integers: `ofBytesBE (toBytesBE w n) = n` for `n < 256^w` -/
theorem ofBytesBE_toBytesBE (w n : Nat) (h : n < 256 ^ w) : ofBytesBE (toBytesBE w n) = n := by
  induction w generalizing n with
  | zero => simp at h; subst h; rfl
  | succ w ih =>
    rw [toBytesBE, ofBytesBE_cons, toBytesBE_length]
    have hq : n / 256 ^ w < 256 := by
      rw [Nat.div_lt_iff_lt_mul (Nat.pow_pos (by omega))]
      rwa [Nat.pow_succ, Nat.mul_comm] at h
    have hb : (UInt8.ofNat (n / 256 ^ w % 256)).toNat = n / 256 ^ w := by
      rw [Nat.mod_eq_of_lt hq]
      simp [UInt8.toNat_ofNat, Nat.mod_eq_of_lt hq]
    rw [hb]
    have hr : toBytesBE w n = toBytesBE w (n % 256 ^ w) := by
      clear ih hq hb h
      induction w generalizing n with
      | zero => rfl
      | succ v ihv =>
        simp only [toBytesBE]
        congr 1
        · congr 1
          have : n % 256 ^ (v + 1) / 256 ^ v % 256 = n / 256 ^ v % 256 := by
            rw [Nat.pow_succ, Nat.mod_mul_right_div_self, Nat.mod_mod_of_dvd _ (Nat.dvd_refl _)]
          rw [this]
        · rw [ihv n, ihv (n % 256 ^ (v + 1))]
          congr 1
          rw [Nat.pow_succ, Nat.mod_mul_right_mod]
    rw [hr, ih _ (Nat.mod_lt _ (Nat.pow_pos (by omega)))]
    rw [Nat.mul_comm]
    exact Nat.div_add_mod n (256 ^ w)

/-- `readNBytesUIntFromArray` reads back what `toBytesBE` wrote (no wrap-around below 2⁶⁴) -/
theorem readN_append (b rest : Bytes) (acc : Nat) (h : acc * 256 ^ b.length + ofBytesBE b < two64) :
    readN b.length (b ++ rest) acc = .ok (acc * 256 ^ b.length + ofBytesBE b) := by
  induction b generalizing acc with
  | nil => simp [readN, ofBytesBE]
  | cons x t ih =>
    simp only [List.length_cons, List.cons_append, readN]
    rw [ofBytesBE_cons, List.length_cons, Nat.pow_succ] at h
    have hpos : 0 < 256 ^ t.length := Nat.pow_pos (by omega)
    have hstep : (acc * 256 + x.toNat) * 256 ^ t.length + ofBytesBE t < two64 := by
      rw [Nat.add_mul, Nat.mul_assoc, Nat.mul_comm 256]; omega
    have hlt : acc * 256 + x.toNat < two64 := by
      have : acc * 256 + x.toNat ≤ (acc * 256 + x.toNat) * 256 ^ t.length := Nat.le_mul_of_pos_right _ hpos
      omega
    rw [Nat.mod_eq_of_lt hlt, ih _ hstep]
    congr 1
    rw [ofBytesBE_cons, Nat.pow_succ, Nat.add_mul, Nat.mul_assoc, Nat.mul_comm 256]
    omega

theorem pow256_8 (w : Nat) (h : w ≤ 8) : 256 ^ w ≤ two64 := by
  have : 256 ^ w ≤ 256 ^ 8 := Nat.pow_le_pow_right (by omega) h
  unfold two64; simpa using this

theorem readN_toBytesBE (w n : Nat) (rest : Bytes) (hw : w ≤ 8) (hn : n < 256 ^ w) :
    readN w (toBytesBE w n ++ rest) 0 = .ok n := by
  have h := readN_append (toBytesBE w n) rest 0 (by
    rw [ofBytesBE_toBytesBE w n hn]; have := pow256_8 w hw; omega)
  rw [toBytesBE_length, ofBytesBE_toBytesBE w n hn] at h
  simpa using h

/-! ### little-endian checksum -/

theorem le32_toBytesLE32 (v : Nat) (rest : Bytes) (h : v < 4294967296) : le32 (toBytesLE32 v ++ rest) = .ok v := by
  simp only [toBytesLE32, List.cons_append, le32, List.nil_append]
  congr 1
  have h0 : (UInt8.ofNat (v % 256)).toNat = v % 256 := by simp
  have h1 : (UInt8.ofNat (v / 256 % 256)).toNat = v / 256 % 256 := by simp
  have h2 : (UInt8.ofNat (v / 65536 % 256)).toNat = v / 65536 % 256 := by simp
  have h3 : (UInt8.ofNat (v / 16777216 % 256)).toNat = v / 16777216 % 256 := by simp
  rw [h0, h1, h2, h3]
  omega

end Tongo.Boc
