import TongoModel.PoolSM
/-! Inductive invariants of the wait-list transition system `PoolSM` (helper lemmas for C13).
Every invariant is proved by case analysis over the 17 actions; the cases are closed by `grind`. -/
namespace Tongo.PoolSM

/-- reachable states: from any initial state (any number of connections, waiters, setters; setters name existing
connections) by any sequence of enabled actions -/
inductive Reachable (v : Variant) : State → Prop where
  | init (heads : List Nat) (best : Option Nat) (targets : List Nat) (pubs : List (Nat × Nat))
      (strategy : PoolSelect.Strategy) (rtts : List Int)
      (hp : ∀ p ∈ pubs, p.1 < heads.length ∧ p.2 < 2 ^ 32) (hh : ∀ h ∈ heads, h < 2 ^ 32)
      (hb : ∀ c, best = some c → c < heads.length) :
      Reachable v (mkInit heads best targets pubs strategy rtts)
  | step {s s' : State} {a : Action} : Reachable v s → step v s a = some s' → Reachable v s'

/-- subscribed and not yet unsubscribed -/
def WPc.registered : WPc → Bool
  | .sel => true
  | .leave _ => true
  | _ => false

/-- Run holds the pool's write lock (inside updateBest) -/
def _root_.Tongo.PoolSM.RunPc.lockW : RunPc → Bool
  | .ubRead _ _ _ => true
  | .ubSel _ _ _ _ => true
  | .nLoop sw _ _ => sw
  | .nPut sw _ _ _ _ => sw
  | _ => false

/-- Run holds the pool's read lock (inside notifySubscribers) -/
def _root_.Tongo.PoolSM.RunPc.lockR : RunPc → Bool
  | .nCheck _ _ => true
  | .nLoop sw _ _ => !sw
  | .nPut sw _ _ _ _ => !sw
  | _ => false

macro "step_cases" hs:ident : tactic =>
  `(tactic| (simp only [step] at $hs:ident <;> (repeat' split at $hs:ident) <;> (try cases $hs:ident)))

attribute [local grind =] List.mem_filter List.mem_append List.mem_map
attribute [local grind →] List.mem_of_mem_erase

/-! ### Group A: lock ownership, well-formedness of the wait list and of Run's iteration, fresh waiters -/

structure InvA (s : State) : Prop where
  l1 : ∀ (i : Nat) (w : Waiter), s.waiters[i]? = some w → (w.pc = .subRead ↔ s.rw = .wrW i)
  l2 : ∀ i, s.rw = .wrW i → ∃ w, s.waiters[i]? = some w
  l3 : s.rw = .wrRun ↔ s.run.lockW = true
  l4 : s.rw = .rd ↔ s.run.lockR = true
  vWl : ∀ e ∈ s.waitList, ∃ x, s.waiters[e.2]? = some x ∧ x.wid = e.1 ∧ x.pc.registered = true
  vLoop : ∀ sw h todo, s.run = .nLoop sw h todo → ∀ w ∈ todo, ∃ x, s.waiters[w]? = some x ∧ x.pc.registered = true
  vPut : ∀ sw h h' w todo, s.run = .nPut sw h h' w todo →
    (∃ x, s.waiters[w]? = some x ∧ x.pc.registered = true) ∧
    ∀ w' ∈ todo, ∃ x, s.waiters[w']? = some x ∧ x.pc.registered = true
  fresh : ∀ (i : Nat) (w : Waiter), s.waiters[i]? = some w → (w.pc = .start ∨ w.pc = .subRead) →
    w.offered = none ∧ w.buf = [] ∧ w.received = [] ∧ w.fired = false
  cap1 : ∀ (i : Nat) (w : Waiter), s.waiters[i]? = some w → w.buf.length ≤ 1

theorem invA_l1 {v s a s'} (h : InvA s) (hs : step v s a = some s') :
    ∀ (i : Nat) (w : Waiter), s'.waiters[i]? = some w → (w.pc = .subRead ↔ s'.rw = .wrW i) := by
  obtain ⟨l1, l2, l3, l4, vWl, vLoop, vPut, fresh, cap1⟩ := h
  cases a <;> step_cases hs <;> grind [State.setW, State.setS, RunPc.lockW, RunPc.lockR]

theorem invA_l2 {v s a s'} (h : InvA s) (hs : step v s a = some s') :
    ∀ i, s'.rw = .wrW i → ∃ w, s'.waiters[i]? = some w := by
  obtain ⟨l1, l2, l3, l4, vWl, vLoop, vPut, fresh, cap1⟩ := h
  cases a <;> step_cases hs <;> grind [State.setW, State.setS, RunPc.lockW, RunPc.lockR]

theorem invA_l3 {v s a s'} (h : InvA s) (hs : step v s a = some s') :
    s'.rw = .wrRun ↔ s'.run.lockW = true := by
  obtain ⟨l1, l2, l3, l4, vWl, vLoop, vPut, fresh, cap1⟩ := h
  cases a <;> step_cases hs <;> grind [State.setW, State.setS, RunPc.lockW, RunPc.lockR]

theorem invA_l4 {v s a s'} (h : InvA s) (hs : step v s a = some s') :
    s'.rw = .rd ↔ s'.run.lockR = true := by
  obtain ⟨l1, l2, l3, l4, vWl, vLoop, vPut, fresh, cap1⟩ := h
  cases a <;> step_cases hs <;> grind [State.setW, State.setS, RunPc.lockW, RunPc.lockR]

theorem invA_vWl {v s a s'} (h : InvA s) (hs : step v s a = some s') :
    ∀ e ∈ s'.waitList, ∃ x, s'.waiters[e.2]? = some x ∧ x.wid = e.1 ∧ x.pc.registered = true := by
  obtain ⟨l1, l2, l3, l4, vWl, vLoop, vPut, fresh, cap1⟩ := h
  cases a <;> step_cases hs <;> grind [State.setW, State.setS, WPc.registered, RunPc.lockW, RunPc.lockR]

theorem invA_vLoop {v s a s'} (h : InvA s) (hs : step v s a = some s') :
    ∀ sw h todo, s'.run = .nLoop sw h todo → ∀ w ∈ todo, ∃ x, s'.waiters[w]? = some x ∧ x.pc.registered = true := by
  obtain ⟨l1, l2, l3, l4, vWl, vLoop, vPut, fresh, cap1⟩ := h
  cases a <;> step_cases hs <;> grind [State.setW, State.setS, WPc.registered, RunPc.lockW, RunPc.lockR]

theorem invA_vPut {v s a s'} (h : InvA s) (hs : step v s a = some s') :
    ∀ sw h h' w todo, s'.run = .nPut sw h h' w todo →
    (∃ x, s'.waiters[w]? = some x ∧ x.pc.registered = true) ∧
    ∀ w' ∈ todo, ∃ x, s'.waiters[w']? = some x ∧ x.pc.registered = true := by
  obtain ⟨l1, l2, l3, l4, vWl, vLoop, vPut, fresh, cap1⟩ := h
  cases a <;> step_cases hs <;> grind [State.setW, State.setS, WPc.registered, RunPc.lockW, RunPc.lockR]

theorem invA_fresh {v s a s'} (h : InvA s) (hs : step v s a = some s') :
    ∀ (i : Nat) (w : Waiter), s'.waiters[i]? = some w → (w.pc = .start ∨ w.pc = .subRead) →
    w.offered = none ∧ w.buf = [] ∧ w.received = [] ∧ w.fired = false := by
  obtain ⟨l1, l2, l3, l4, vWl, vLoop, vPut, fresh, cap1⟩ := h
  cases a <;> step_cases hs <;> grind [State.setW, State.setS, WPc.registered, RunPc.lockW, RunPc.lockR]

theorem invA_cap1 {v s a s'} (h : InvA s) (hs : step v s a = some s') :
    ∀ (i : Nat) (w : Waiter), s'.waiters[i]? = some w → w.buf.length ≤ 1 := by
  obtain ⟨l1, l2, l3, l4, vWl, vLoop, vPut, fresh, cap1⟩ := h
  cases a <;> step_cases hs <;> grind [State.setW, State.setS, RunPc.lockW, RunPc.lockR]

theorem invA_step {v s a s'} (h : InvA s) (hs : step v s a = some s') : InvA s' :=
  ⟨invA_l1 h hs, invA_l2 h hs, invA_l3 h hs, invA_l4 h hs, invA_vWl h hs, invA_vLoop h hs, invA_vPut h hs,
   invA_fresh h hs, invA_cap1 h hs⟩

theorem mkInit_waiter {heads best targets pubs st rtts} {i : Nat} {w : Waiter}
    (h : (mkInit heads best targets pubs st rtts).waiters[i]? = some w) :
    w.pc = .start ∧ w.buf = [] ∧ w.received = [] ∧ w.fired = false ∧ w.offered = none ∧ w.wid = 0 := by
  simp only [mkInit, List.getElem?_map, Option.map_eq_some_iff] at h
  obtain ⟨t, _, rfl⟩ := h
  simp

theorem invA_init (heads best targets pubs st rtts) : InvA (mkInit heads best targets pubs st rtts) := by
  constructor
  · intro i w h; have := mkInit_waiter h; simp [this.1, mkInit]
  · intro i h; simp [mkInit] at h
  · simp [mkInit, RunPc.lockW]
  · simp [mkInit, RunPc.lockR]
  · intro e he; simp [mkInit] at he
  · intro sw h todo hr; simp [mkInit] at hr
  · intro sw h h' w todo hr; simp [mkInit] at hr
  · intro i w h _; have := mkInit_waiter h; simp [this]
  · intro i w h; have := mkInit_waiter h; simp [this]

theorem reachable_invA {v s} (h : Reachable v s) : InvA s := by
  induction h with
  | init heads best targets pubs st rtts hp hh hb => exact invA_init ..
  | step _ hs ih => exact invA_step ih hs

end Tongo.PoolSM
