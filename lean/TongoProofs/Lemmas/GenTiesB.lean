import TongoGen.TlLength
import TongoGen.WalletV5Id
import TongoModel.Tl.Codec
import TongoModel.Wallet
/-! Ties ("gen_eq_model") between definitions REGENERATED from the Go source by translator X4 on `BitVec`
(`TongoGen/TlLength.lean` from tl/encoder.go and liteclient/client.go, `TongoGen/WalletV5Id.lean` from
wallet/wallet_v5.go) and the hand models on `Nat`/`Int` (`Tongo.Tl.encLen` in TongoModel/Tl/Codec.lean,
`Tongo.Wallet.genContextID` / `walletIdV5R1` in TongoModel/Wallet.lean). Helper lemmas; the property files C10 and C15
restate the results. Core Lean only (no Mathlib import, directly or through other lemma files: C10 is Mathlib-free
and its `simp` calls depend on that). -/
namespace Tongo.GenTies
open Tongo Tongo.Bits

/-! ### TL length prefix (tl/encoder.go `EncodeLength`, liteclient/client.go `encodeLength`) -/

/-- `UInt8.ofNat` is the 8-bit truncation -/
theorem u8_ofNat_toBitVec (m : Nat) : (UInt8.ofNat m).toBitVec = BitVec.ofNat 8 m := rfl

/-- Go's signed `i >= 254` on a non-negative `int` is the comparison of the naturals -/
theorem sle_254 (n : Nat) (h : n < 2 ^ 63) : BitVec.sle 254#64 (BitVec.ofNat 64 n) = decide (254 ≤ n) := by
  have h1 : (BitVec.ofNat 64 n).toInt = (n : Int) := by
    rw [BitVec.toInt_eq_toNat_cond, BitVec.toNat_ofNat]
    have : n % 2 ^ 64 = n := Nat.mod_eq_of_lt (by omega)
    rw [this]; split <;> omega
  have h2 : (254#64 : BitVec 64).toInt = 254 := by decide
  rw [BitVec.sle_eq_decide, h1, h2]
  congr 1
  exact propext ⟨fun h => by omega, fun h => by omega⟩

/-- The Go `tl.EncodeLength` (as regenerated: `int` = `BitVec 64`, signed comparison `i >= 254`, `uint32(i<<8)` stored
little-endian and byte 0 overwritten by 254) produces, on every non-negative `int`, exactly the bytes of the model's
`Tl.encLen`: the single byte `n` below 254, otherwise `254` followed by the three low bytes of `n`, least significant
first. -/
theorem gen_EncodeLength (n : Nat) (h : n < 2 ^ 63) :
    Gen.TlLength.EncodeLength (BitVec.ofNat 64 n) = (Tl.encLen n).map UInt8.toBitVec := by
  unfold Gen.TlLength.EncodeLength Tl.encLen
  rw [sle_254 n h]
  by_cases hn : n < 254
  · have h1 : ¬ 254 ≤ n := by omega
    simp only [h1, decide_false, Bool.false_eq_true, if_false, hn, if_true, List.map_cons, List.map_nil]
    congr 1
    apply BitVec.eq_of_toNat_eq
    simp only [BitVec.toNat_setWidth, BitVec.toNat_ofNat, u8_ofNat_toBitVec]
    omega
  · have h1 : 254 ≤ n := by omega
    simp only [h1, decide_true, if_true, hn, if_false, Tl.le, List.map_cons, List.map_nil]
    have e0 : (254 : UInt8).toBitVec = 254#8 := rfl
    rw [e0]
    simp only [List.cons.injEq, and_true, true_and]
    refine ⟨?_, ?_, ?_⟩ <;>
    · apply BitVec.eq_of_toNat_eq
      simp only [BitVec.toNat_setWidth, BitVec.toNat_ushiftRight, BitVec.toNat_shiftLeft, BitVec.toNat_ofNat,
        u8_ofNat_toBitVec, Nat.shiftLeft_eq, Nat.shiftRight_eq_div_pow]
      omega

/-- liteclient's private copy `encodeLength` is the same function as `tl.EncodeLength` (the regenerated bodies are
identical terms), on every `int`, negative ones included. -/
theorem gen_encodeLength_liteclient (i : BitVec 64) :
    Gen.TlLength.encodeLengthLiteclient i = Gen.TlLength.EncodeLength i := rfl

/-! ### wallet v5r1 context id and wallet id (wallet/wallet_v5.go `genContextID`, `NewWalletV5R1`) -/

/-- value of the regenerated `genContextID` on the 256 possible low bytes of the workchain (kernel evaluation) -/
theorem gen_genContextID_byte : ∀ k : Fin 256,
    (Gen.WalletV5Id.genContextID (BitVec.ofNat 32 k.val)).toNat = 2 ^ 31 + k.val * 2 ^ 23 := by
  decide +kernel

/-- the regenerated `genContextID` only looks at the low byte of its argument (`WriteUint(uint64(workchain), 8)`) -/
theorem gen_genContextID_low (w : BitVec 32) :
    Gen.WalletV5Id.genContextID w = Gen.WalletV5Id.genContextID (BitVec.ofNat 32 (w.toNat % 256)) := by
  have e : ∀ v : BitVec 32, BitVec.setWidth 64 v &&& 255#64 = BitVec.ofNat 64 (v.toNat % 256) := by
    intro v
    apply BitVec.eq_of_toNat_eq
    have h255 : (255#64 : BitVec 64).toNat = 2 ^ 8 - 1 := by decide
    rw [BitVec.toNat_and, h255, Nat.and_two_pow_sub_one_eq_mod, BitVec.toNat_setWidth, BitVec.toNat_ofNat]
    omega
  unfold Gen.WalletV5Id.genContextID
  simp only [e, BitVec.toNat_ofNat]
  have : w.toNat % 256 % 2 ^ 32 % 256 = w.toNat % 256 := by omega
  rw [this]

/-- closed form of the regenerated `genContextID`: bit 31 set, the low byte of the workchain in bits 23..30 -/
theorem gen_genContextID_toNat (w : BitVec 32) :
    (Gen.WalletV5Id.genContextID w).toNat = 2 ^ 31 + (w.toNat % 256) * 2 ^ 23 := by
  rw [gen_genContextID_low]
  exact gen_genContextID_byte ⟨w.toNat % 256, Nat.mod_lt _ (by decide)⟩

/-- `natToBits 8` (WriteUint on 8 bits) only looks at the low byte -/
theorem natToBits8_mod (v : Nat) : natToBits 8 v = natToBits 8 (v % 256) := by
  have h : ∀ i, i < 8 → (v % 2 ^ 8).testBit i = v.testBit i := by
    intro i hi
    rw [Nat.testBit_mod_two_pow]
    simp [hi]
  have e : natToBits 8 v = natToBits 8 (v % 2 ^ 8) := by
    simp only [natToBits]
    rw [h 7 (by decide), h 6 (by decide), h 5 (by decide), h 4 (by decide), h 3 (by decide), h 2 (by decide),
      h 1 (by decide), h 0 (by decide)]
  exact e

/-- value of the model's bit list `1 ++ k:8 ++ 0:8 ++ 0:15` on the 256 possible bytes (kernel evaluation) -/
theorem model_genContextID_byte : ∀ k : Fin 256,
    bitsToNat ([true] ++ natToBits 8 k.val ++ natToBits 8 0 ++ natToBits 15 0) = 2 ^ 31 + k.val * 2 ^ 23 := by
  decide +kernel

/-- closed form of the model's `genContextID` (bit list `1 ++ wc:8 ++ 0:8 ++ 0:15` read as a number) -/
theorem model_genContextID (wc : Int) :
    Wallet.genContextID wc = 2 ^ 31 + (Wallet.toU32 wc % 256) * 2 ^ 23 := by
  unfold Wallet.genContextID
  rw [natToBits8_mod]
  exact model_genContextID_byte ⟨Wallet.toU32 wc % 256, Nat.mod_lt _ (by decide)⟩

/-- The Go `genContextID(uint32(workchain))` (as regenerated; `boc.Cell.WriteUint`/`ReadUint` on a fresh cell rendered
by the translator as shift-or on a 64-bit accumulator) equals the model's `Wallet.genContextID`, for every integer
workchain (`BitVec.ofInt 32 wc` is Go's `uint32(wc)`). -/
theorem gen_genContextID (wc : Int) :
    (Gen.WalletV5Id.genContextID (BitVec.ofInt 32 wc)).toNat = Wallet.genContextID wc := by
  rw [gen_genContextID_toNat, model_genContextID, BitVec.toNat_ofInt]
  rfl

/-- Go `uint32(x)` of an `int64`/`int` holding the integer `z` (mod 2^64) is `uint32` of `z` -/
theorem setWidth32_ofInt64 (z : Int) : BitVec.setWidth 32 (BitVec.ofInt 64 z) = BitVec.ofInt 32 z := by
  apply BitVec.eq_of_toNat_eq
  simp only [BitVec.toNat_setWidth, BitVec.toNat_ofInt]
  omega

/-- `gen_walletID` without the range hypotheses (they are not needed: every conversion involved is a truncation) -/
theorem gen_walletID_all (wc net : Int) :
    (Gen.WalletV5Id.walletID (BitVec.ofInt 64 wc) (BitVec.ofInt 64 net)).toNat
      = Wallet.genContextID wc ^^^ Wallet.toU32 net := by
  unfold Gen.WalletV5Id.walletID
  have e : ∀ v : BitVec 32, BitVec.setWidth 32 (BitVec.setWidth 64 v) = v := by
    intro v
    apply BitVec.eq_of_toNat_eq
    simp only [BitVec.toNat_setWidth]
    omega
  have hn : (BitVec.ofInt 32 net).toNat = Wallet.toU32 net := by rw [BitVec.toNat_ofInt]; rfl
  rw [BitVec.setWidth_xor, setWidth32_ofInt64, setWidth32_ofInt64, e, BitVec.toNat_xor, gen_genContextID, hn]

/-- The block of `NewWalletV5R1` computing the wallet id (as regenerated:
`contextID := int64(genContextID(uint32(workchain))); walletID := contextID ^ networkGlobalID`, stored as
`uint32(walletID)`), on a Go `int` workchain `wc` and the `int64` of an `int32` network id `net`, equals the model's
`genContextID wc ^^^ toU32 net`. -/
theorem gen_walletID (wc net : Int) (_hw : -(2 : Int) ^ 63 ≤ wc ∧ wc < 2 ^ 63) (_hn : -(2 : Int) ^ 31 ≤ net ∧ net < 2 ^ 31) :
    (Gen.WalletV5Id.walletID (BitVec.ofInt 64 wc) (BitVec.ofInt 64 net)).toNat
      = Wallet.genContextID wc ^^^ Wallet.toU32 net :=
  gen_walletID_all wc net

/-- corollary: on the options of a wallet (workchain a Go `int`, network id an `int32`), the regenerated block yields
the model's `walletIdV5R1` -/
theorem gen_walletIdV5R1 (o : Wallet.Opts) (hw : -(2 : Int) ^ 63 ≤ o.wc ∧ o.wc < 2 ^ 63)
    (hn : -(2 : Int) ^ 31 ≤ o.netOr ∧ o.netOr < 2 ^ 31) :
    (Gen.WalletV5Id.walletID (BitVec.ofInt 64 o.wc) (BitVec.ofInt 64 o.netOr)).toNat = Wallet.walletIdV5R1 o :=
  gen_walletID o.wc o.netOr hw hn

end Tongo.GenTies
