import TongoModel.BocToString
/-! The visit budget of `toStringImpl` bounds the output: every expanded cell costs one unit of budget and prints at
most four children. -/
namespace Tongo.Boc.Str
open Tongo

/-- potential argument: lines + 4 · (budget left) ≤ 4 · budget + 1 for a cell, + (number of references) for a list -/
theorem strCell_potential (t : Table) (h4 : ∀ i : Nat, (t[i]!).refs.length ≤ 4) :
    ∀ fuel i ident l, (strCell t fuel i ident l).lines + 4 * (strCell t fuel i ident l).limit ≤ 4 * l + 1 := by
  intro fuel
  induction fuel with
  | zero => intro i ident l; simp only [strCell]; omega
  | succ fuel ih =>
    have hrefs : ∀ (rs : List Nat) ident l,
        (strRefs (strCell t fuel) ident rs l).lines + 4 * (strRefs (strCell t fuel) ident rs l).limit
          ≤ 4 * l + rs.length := by
      intro rs
      induction rs with
      | nil => intro ident l; simp only [strRefs, List.length_nil]; omega
      | cons r rs ihr =>
        intro ident l
        simp only [strRefs, List.length_cons]
        have h1 := ih r ident l
        have h2 := ihr ident (strCell t fuel r ident l).limit
        omega
    intro i ident l
    simp only [strCell]
    split
    · simp only; omega
    · simp only
      have h1 := hrefs (t[i]!).refs (ident + 1) (l - 1)
      have h2 := h4 i
      omega

/-- the number of lines `Cell.ToString()` emits is bounded by the visit budget, whatever the table (even a DAG whose
unfolding is exponential): at most 4 · 65536 + 1 -/
theorem toString_lines_le (t : Table) (h4 : ∀ i : Nat, (t[i]!).refs.length ≤ 4) (fuel i : Nat) :
    (toStringOut t fuel i).lines ≤ 4 * bocSizeLimit + 1 := by
  have := strCell_potential t h4 fuel i 0 bocSizeLimit
  unfold toStringOut
  omega

end Tongo.Boc.Str
