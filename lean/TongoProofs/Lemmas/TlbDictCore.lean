import TongoProofs.C05
/-! Glue between C05's dictionary theorems and the TL-B codec model: congruence of the dictionary encoder / decoder in
the value codec, and the round trip with separate encoder-side and decoder-side value codecs. -/
namespace Tongo.Hashmap
open Tongo

variable {V : Type}

theorem encodeMap_congr (C1 C2 : Codec V) (h : ∀ v, C1.enc v = C2.enc v) :
    ∀ fuel, encodeMap C1 fuel = encodeMap C2 fuel
  | 0 => by funext kvs ks; simp [encodeMap]
  | fuel + 1 => by
    funext kvs ks
    have ih := encodeMap_congr C1 C2 h fuel
    cases kvs with
    | nil => simp [encodeMap]
    | cons x rest =>
      cases rest with
      | nil => obtain ⟨k, v⟩ := x; simp [encodeMap, h]
      | cons y more => obtain ⟨k, v⟩ := x; simp [encodeMap, ih]

theorem marshal_congr (C1 C2 : Codec V) (h : ∀ v, C1.enc v = C2.enc v) (n : Nat) (kvs : List (Key × V)) :
    marshal C1 n kvs = marshal C2 n kvs := by
  unfold marshal
  rw [encodeMap_congr C1 C2 h]

theorem mapInner_congr (C1 C2 : Codec V) (h : ∀ bs rs, C1.dec bs rs = C2.dec bs rs) (n : Nat) :
    ∀ fuel, mapInner C1 n fuel = mapInner C2 n fuel
  | 0 => by funext l c p; simp [mapInner]
  | fuel + 1 => by
    funext l c p
    have ih := mapInner_congr C1 C2 h n fuel
    obtain ⟨ty, mask, bits, refs⟩ := c
    simp only [mapInner, ih, h]

theorem unmarshal_congr (C1 C2 : Codec V) (h : ∀ bs rs, C1.dec bs rs = C2.dec bs rs) (n : Nat) (c : Cell) :
    unmarshal C1 n c = unmarshal C2 n c := by
  unfold unmarshal
  rw [mapInner_congr C1 C2 h]

/-- the dictionary round trip with separate encoder-side and decoder-side value codecs (as the TL-B model uses them) -/
theorem dict_roundtrip (Ce Cd : Codec V) (pay : V → List Bool × List Cell) (n : Nat) (kvs : List (Key × V))
    (hne : kvs ≠ []) (hw : ∀ kv ∈ kvs, kv.1.length = n) (hs : SortedKV kvs)
    (hfit : ∀ kv ∈ kvs, Ce.enc kv.2 = .ok (pay kv.2) ∧
      (pay kv.2).1.length + n + 2 + minBitsRequired n ≤ 1023 ∧ (pay kv.2).2.length ≤ 4 ∧
      Cd.dec (pay kv.2).1 (pay kv.2).2 = .ok kv.2) :
    ∃ root, marshal Ce n kvs = .ok root ∧ root.ty = 0 ∧ unmarshal Cd n root = .ok kvs := by
  let C : Codec V := ⟨Ce.enc, Cd.dec⟩
  have hF : ∀ kv ∈ kvs, Fits C pay n kv.2 := fun kv hkv => hfit kv hkv
  obtain ⟨t, hv, hm, he⟩ := C05.encode_sorted_tree C pay n kvs hne hw hs hF
  obtain ⟨c, hc1, hc2⟩ := C05.decode_encode_sorted C pay n kvs hne hw hs hF
  rw [he] at hc1
  cases hc1
  refine ⟨t.toCell pay n, ?_, toCell_ty pay t n, ?_⟩
  · rw [marshal_congr Ce C (fun _ => rfl)]
    unfold marshal
    have : kvs.isEmpty = false := by cases kvs <;> simp_all
    rw [this, maxKeyLen_eq n kvs hne hw, sortKV_of_sorted kvs hs]
    exact he
  · rw [unmarshal_congr Cd C (fun _ _ => rfl)]
    exact hc2

end Tongo.Hashmap

/-! ### the encoder is monotone in the value codec, on the values it is given -/
namespace Tongo.Hashmap
open Tongo
variable {V : Type}

theorem splitKeys_vals (l : Nat) : ∀ (kvs L R : List (Key × V)), splitKeys l kvs = .ok (L, R) →
    ∀ x, x ∈ L ∨ x ∈ R → ∃ y ∈ kvs, y.2 = x.2
  | [], L, R, h, x, hx => by
    simp only [splitKeys] at h
    cases h
    simp at hx
  | (k, v) :: rest, L, R, h, x, hx => by
    simp only [splitKeys] at h
    split at h
    · cases h
    · split at h
      · cases h
      · rename_i b k' _
        cases hr : splitKeys l rest with
        | ok p =>
          obtain ⟨L0, R0⟩ := p
          rw [hr] at h
          simp only at h
          have ih := splitKeys_vals l rest L0 R0 hr
          cases b
          · simp only [Bool.false_eq_true, ↓reduceIte, Outcome.ok.injEq, Prod.mk.injEq] at h
            obtain ⟨rfl, rfl⟩ := h
            rcases hx with hx | hx
            · rcases List.mem_cons.1 hx with rfl | hx
              · exact ⟨(k, v), List.mem_cons_self .., rfl⟩
              · obtain ⟨y, hy, e⟩ := ih x (Or.inl hx)
                exact ⟨y, List.mem_cons_of_mem _ hy, e⟩
            · obtain ⟨y, hy, e⟩ := ih x (Or.inr hx)
              exact ⟨y, List.mem_cons_of_mem _ hy, e⟩
          · simp only [↓reduceIte, Outcome.ok.injEq, Prod.mk.injEq] at h
            obtain ⟨rfl, rfl⟩ := h
            rcases hx with hx | hx
            · obtain ⟨y, hy, e⟩ := ih x (Or.inl hx)
              exact ⟨y, List.mem_cons_of_mem _ hy, e⟩
            · rcases List.mem_cons.1 hx with rfl | hx
              · exact ⟨(k, v), List.mem_cons_self .., rfl⟩
              · obtain ⟨y, hy, e⟩ := ih x (Or.inr hx)
                exact ⟨y, List.mem_cons_of_mem _ hy, e⟩
        | err e => rw [hr] at h; cases h
        | panic e => rw [hr] at h; cases h

theorem encodeMap_mono_on (C1 C2 : Codec V) : ∀ (fuel : Nat) (kvs : List (Key × V)) (ks : Int) (r : Cell),
    (∀ kv ∈ kvs, ∀ c, C1.enc kv.2 = .ok c → C2.enc kv.2 = .ok c) →
    encodeMap C1 fuel kvs ks = .ok r → encodeMap C2 fuel kvs ks = .ok r
  | 0, _, _, _, _, h => by simp [encodeMap] at h
  | fuel + 1, kvs, ks, r, hon, h => by
    cases kvs with
    | nil => simp [encodeMap] at h
    | cons x rest =>
      cases rest with
      | nil =>
        obtain ⟨k, v⟩ := x
        simp only [encodeMap] at h ⊢
        cases h1 : C1.enc v with
        | ok c =>
          rw [hon (k, v) (List.mem_cons_self ..) c h1]
          rw [h1] at h
          exact h
        | err e => rw [h1] at h; cases h
        | panic e => rw [h1] at h; cases h
      | cons y more =>
        obtain ⟨k, v⟩ := x
        simp only [encodeMap, encodeFork] at h ⊢
        split at h
        · rename_i label hl
          try simp only [hl]
          split at h
          · rename_i L R hs
            try simp only [hs]
            have hv := splitKeys_vals label.length _ L R hs
            have honL : ∀ kv ∈ L, ∀ c, C1.enc kv.2 = .ok c → C2.enc kv.2 = .ok c := by
              intro kv hkv c hc
              obtain ⟨y, hy, e⟩ := hv kv (Or.inl hkv)
              rw [← e] at hc ⊢
              exact hon y hy c hc
            have honR : ∀ kv ∈ R, ∀ c, C1.enc kv.2 = .ok c → C2.enc kv.2 = .ok c := by
              intro kv hkv c hc
              obtain ⟨y, hy, e⟩ := hv kv (Or.inr hkv)
              rw [← e] at hc ⊢
              exact hon y hy c hc
            split at h
            · rename_i l hl1
              rw [encodeMap_mono_on C1 C2 fuel L _ l honL hl1]
              simp only
              split at h
              · rename_i r' hr1
                rw [encodeMap_mono_on C1 C2 fuel R _ r' honR hr1]
                exact h
              · rename_i e he
                exact (he _ h).elim
            · rename_i e he
              exact (he _ h).elim
          · cases h
          · cases h
        · cases h
        · cases h

/-- the decoder looks at the type of the root cell only to tell a pruned branch / a library cell -/
theorem unmarshal_root_irrel (C : Codec V) (n : Nat) (ty m ty' m' : Nat) (bits : List Bool) (refs : List Cell)
    (h1 : ty ≠ tyPruned) (h2 : ty ≠ tyLibrary) (h1' : ty' ≠ tyPruned) (h2' : ty' ≠ tyLibrary) :
    unmarshal C n (.mk ty m bits refs) = unmarshal C n (.mk ty' m' bits refs) := by
  unfold unmarshal
  simp only [Cell.ty, h2, h2', ↓reduceIte]
  simp only [mapInner, h1, h1', h2, h2', ↓reduceIte]

theorem mem_insertKV (x : Key × V) : ∀ (l : List (Key × V)) (y), y ∈ insertKV x l → y = x ∨ y ∈ l
  | [], y, h => by simpa [insertKV] using h
  | z :: zs, y, h => by
    simp only [insertKV] at h
    split at h
    · rcases List.mem_cons.1 h with rfl | h
      · exact Or.inr (List.mem_cons_self ..)
      · rcases mem_insertKV x zs y h with rfl | h
        · exact Or.inl rfl
        · exact Or.inr (List.mem_cons_of_mem _ h)
    · rcases List.mem_cons.1 h with rfl | h
      · exact Or.inl rfl
      · exact Or.inr h

theorem mem_sortKV : ∀ (l : List (Key × V)) (y), y ∈ sortKV l → y ∈ l
  | [], y, h => by simpa [sortKV] using h
  | x :: xs, y, h => by
    simp only [sortKV, List.foldr_cons] at h
    rcases mem_insertKV x _ y h with rfl | h
    · exact List.mem_cons_self ..
    · exact List.mem_cons_of_mem _ (mem_sortKV xs y h)

theorem marshal_mono_on (C1 C2 : Codec V) (n : Nat) (kvs : List (Key × V)) (r : Cell)
    (hon : ∀ kv ∈ kvs, ∀ c, C1.enc kv.2 = .ok c → C2.enc kv.2 = .ok c) (h : marshal C1 n kvs = .ok r) :
    marshal C2 n kvs = .ok r := by
  unfold marshal at h ⊢
  split at h
  · rename_i he; rw [if_pos he]; exact h
  · rename_i he; rw [if_neg he]
    exact encodeMap_mono_on C1 C2 _ _ _ r (fun kv hkv => hon kv (mem_sortKV kvs kv hkv)) h

end Tongo.Hashmap
