import TongoProofs.C05
/-! Glue between C05's dictionary theorems and the TL-B codec model: congruence of the dictionary encoder / decoder in
the value codec, and the round trip with separate encoder-side and decoder-side value codecs. -/
namespace Tongo.Hashmap
open Tongo

variable {V : Type}

theorem encodeMap_congr (C1 C2 : Codec V) (h : ∀ v, C1.enc v = C2.enc v) :
    ∀ fuel, encodeMap C1 fuel = encodeMap C2 fuel
  | 0 => by funext kvs ks; simp [encodeMap]
  | fuel + 1 => by
    funext kvs ks
    have ih := encodeMap_congr C1 C2 h fuel
    cases kvs with
    | nil => simp [encodeMap]
    | cons x rest =>
      cases rest with
      | nil => obtain ⟨k, v⟩ := x; simp [encodeMap, h]
      | cons y more => obtain ⟨k, v⟩ := x; simp [encodeMap, ih]

theorem marshal_congr (C1 C2 : Codec V) (h : ∀ v, C1.enc v = C2.enc v) (n : Nat) (kvs : List (Key × V)) :
    marshal C1 n kvs = marshal C2 n kvs := by
  unfold marshal
  rw [encodeMap_congr C1 C2 h]

theorem mapInner_congr (C1 C2 : Codec V) (h : ∀ bs rs, C1.dec bs rs = C2.dec bs rs) (n : Nat) :
    ∀ fuel, mapInner C1 n fuel = mapInner C2 n fuel
  | 0 => by funext l c p; simp [mapInner]
  | fuel + 1 => by
    funext l c p
    have ih := mapInner_congr C1 C2 h n fuel
    obtain ⟨ty, mask, bits, refs⟩ := c
    simp only [mapInner, ih, h]

theorem unmarshal_congr (C1 C2 : Codec V) (h : ∀ bs rs, C1.dec bs rs = C2.dec bs rs) (n : Nat) (c : Cell) :
    unmarshal C1 n c = unmarshal C2 n c := by
  unfold unmarshal
  rw [mapInner_congr C1 C2 h]

/-- the dictionary round trip with separate encoder-side and decoder-side value codecs (as the TL-B model uses them) -/
theorem dict_roundtrip (Ce Cd : Codec V) (pay : V → List Bool × List Cell) (n : Nat) (kvs : List (Key × V))
    (hne : kvs ≠ []) (hw : ∀ kv ∈ kvs, kv.1.length = n) (hs : SortedKV kvs)
    (hfit : ∀ kv ∈ kvs, Ce.enc kv.2 = .ok (pay kv.2) ∧
      (pay kv.2).1.length + n + 9 + minBitsRequired n ≤ 1023 ∧ (pay kv.2).2.length ≤ 4 ∧
      Cd.dec (pay kv.2).1 (pay kv.2).2 = .ok kv.2) :
    ∃ root, marshal Ce n kvs = .ok root ∧ root.ty = 0 ∧ unmarshal Cd n root = .ok kvs := by
  let C : Codec V := ⟨Ce.enc, Cd.dec⟩
  have hF : ∀ kv ∈ kvs, Fits C pay n kv.2 := fun kv hkv => hfit kv hkv
  obtain ⟨t, hv, hm, he⟩ := C05.encode_sorted_tree C pay n kvs hne hw hs hF
  obtain ⟨c, hc1, hc2⟩ := C05.decode_encode_sorted C pay n kvs hne hw hs hF
  rw [he] at hc1
  cases hc1
  refine ⟨t.toCell pay n, ?_, toCell_ty pay t n, ?_⟩
  · rw [marshal_congr Ce C (fun _ => rfl)]
    unfold marshal
    have : kvs.isEmpty = false := by cases kvs <;> simp_all
    rw [this, maxKeyLen_eq n kvs hne hw, sortKV_of_sorted kvs hs]
    exact he
  · rw [unmarshal_congr Cd C (fun _ _ => rfl)]
    exact hc2

end Tongo.Hashmap
