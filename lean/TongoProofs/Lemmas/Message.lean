import TongoModel.Message
import TongoProofs.Lemmas.Bits
/-! Lemmas for C16: the message decoder reads back what the layout writers wrote (addresses, VarUInteger 16,
StateInit, the whole external-in message). -/
namespace Tongo.Message
open Tongo Tongo.Bits Tongo.Json

variable {α : Type}

/-! ### bit level -/

theorem readBits_append (a rest : List Bool) (refs : List α) :
    readBits a.length (⟨a ++ rest, refs⟩ : Slice α) = .ok (a, ⟨rest, refs⟩) := by
  simp [readBits]

theorem readBits_append' (n : Nat) (a rest : List Bool) (refs : List α) (h : a.length = n) :
    readBits n (⟨a ++ rest, refs⟩ : Slice α) = .ok (a, ⟨rest, refs⟩) := by
  subst h; exact readBits_append a rest refs

theorem readUint_natToBits (n v : Nat) (hv : v < 2 ^ n) (rest : List Bool) (refs : List α) :
    readUint n (⟨natToBits n v ++ rest, refs⟩ : Slice α) = .ok (v, ⟨rest, refs⟩) := by
  unfold readUint
  rw [readBits_append' n _ _ _ (natToBits_length n v)]
  simp [Outcome.bind, bitsToNat_natToBits, Nat.mod_eq_of_lt hv]

theorem readBit_cons (b : Bool) (rest : List Bool) (refs : List α) :
    readBit (⟨b :: rest, refs⟩ : Slice α) = .ok (b, ⟨rest, refs⟩) := rfl

theorem nextRef_cons (r : α) (rs : List α) (bits : List Bool) :
    nextRef (⟨bits, r :: rs⟩ : Slice α) = .ok (r, ⟨bits, rs⟩) := rfl

theorem testBit_of_lt (u k : Nat) (h : u < 2 ^ k) : u.testBit k = false := Nat.testBit_lt_two_pow h

theorem testBit_top (u k : Nat) (h1 : 2 ^ k ≤ u) (h2 : u < 2 ^ (k + 1)) : u.testBit k = true := by
  rw [Nat.testBit_eq_decide_div_mod_eq]
  have : u / 2 ^ k = 1 := by
    apply Nat.div_eq_of_lt_le
    · simpa using h1
    · rw [Nat.pow_succ] at h2; omega
  simp [this]

/-- two's complement on `k+1` bits is read back as the same integer -/
theorem bitsToInt_intToBits (k : Nat) (v : Int) (hlo : -(2 ^ k : Int) ≤ v) (hhi : v < (2 ^ k : Int)) :
    bitsToInt (intToBits (k + 1) v) = v := by
  have hpos : (0 : Int) < 2 ^ k := by
    have := Nat.two_pow_pos k
    exact_mod_cast this
  have hcast : ((2 ^ k : Nat) : Int) = (2 ^ k : Int) := by norm_cast
  have hcast1 : ((2 ^ (k + 1) : Nat) : Int) = (2 ^ (k + 1) : Int) := by norm_cast
  have hdouble : (2 ^ (k + 1) : Int) = 2 * 2 ^ k := by rw [pow_succ]; ring
  have hdoubleN : 2 ^ (k + 1) = 2 * 2 ^ k := by rw [Nat.pow_succ]; omega
  unfold intToBits
  rw [natToBits]
  by_cases hv : 0 ≤ v
  · have hmod : v % (2 ^ (k + 1) : Int) = v := Int.emod_eq_of_lt hv (by omega)
    rw [hmod]
    have hu : v.toNat < 2 ^ k := by omega
    rw [testBit_of_lt _ _ hu]
    simp only [bitsToInt, Bool.false_eq_true, if_false, bitsToNat_natToBits, Nat.mod_eq_of_lt hu]
    omega
  · have hmod : v % (2 ^ (k + 1) : Int) = v + 2 ^ (k + 1) := by
      rw [← Int.add_emod_right]
      exact Int.emod_eq_of_lt (by omega) (by omega)
    rw [hmod]
    have hu1 : 2 ^ k ≤ (v + 2 ^ (k + 1)).toNat := by omega
    have hu2 : (v + 2 ^ (k + 1)).toNat < 2 ^ (k + 1) := by omega
    rw [testBit_top _ _ hu1 hu2]
    simp only [bitsToInt, if_true, bitsToNat_natToBits, natToBits_length]
    have : (v + 2 ^ (k + 1)).toNat % 2 ^ k = (v + 2 ^ (k + 1)).toNat - 2 ^ k := by
      rw [Nat.mod_eq_sub_mod hu1]
      exact Nat.mod_eq_of_lt (by omega)
    rw [this]
    omega

theorem intToBits_length (n : Nat) (v : Int) : (intToBits n v).length = n := by simp [intToBits]

theorem readInt_intToBits (k : Nat) (v : Int) (hlo : -(2 ^ k : Int) ≤ v) (hhi : v < (2 ^ k : Int))
    (rest : List Bool) (refs : List α) :
    readInt (k + 1) (⟨intToBits (k + 1) v ++ rest, refs⟩ : Slice α) = .ok (v, ⟨rest, refs⟩) := by
  unfold readInt
  rw [readBits_append' (k + 1) _ _ _ (intToBits_length _ _)]
  simp [Outcome.bind, bitsToInt_intToBits k v hlo hhi]

/-! ### bytes -/

theorem byteToBits_length (b : UInt8) : (byteToBits b).length = 8 := by simp [byteToBits]

theorem bytesToBits_cons (b : UInt8) (t : List UInt8) : bytesToBits (b :: t) = byteToBits b ++ bytesToBits t := by
  simp [bytesToBits]

theorem bytesToBits_length (bs : List UInt8) : (bytesToBits bs).length = 8 * bs.length := by
  induction bs with
  | nil => rfl
  | cons b t ih => rw [bytesToBits_cons, List.length_append, byteToBits_length, ih]; simp; omega

theorem bitsToBytes_bytesToBits (bs : List UInt8) : bitsToBytes (bytesToBits bs) = bs := by
  induction bs with
  | nil => simp [bytesToBits, bitsToBytes]
  | cons b t ih =>
    rw [bytesToBits_cons]
    have hl := byteToBits_length b
    match hb : byteToBits b, hl with
    | [b0, b1, b2, b3, b4, b5, b6, b7], _ =>
      simp only [List.cons_append, List.nil_append]
      rw [bitsToBytes]
      simp only [List.take_succ_cons, List.take_zero, List.length_cons, List.length_nil, List.drop_succ_cons,
        List.drop_zero, Nat.sub_self, List.replicate_zero, List.append_nil, ih]
      congr 1
      rw [← hb]
      simp [byteToBits, bitsToNat_natToBits]

/-! ### addresses -/

/-- well-formed addresses (what TL-B can represent): lengths fit 9 bits, workchains their integer types, anycast
depth 1..31 (5 bits, `depth ≥ 1`) with a prefix of that many bits -/
def AnyWF : Option Anycast → Prop
  | none => True
  | some a => 1 ≤ a.depth ∧ a.depth < 32 ∧ a.pfx < 2 ^ a.depth

def AddrWF : MsgAddr → Prop
  | .none => True
  | .extern b => b.length < 512
  | .std any wc addr => AnyWF any ∧ -128 ≤ wc ∧ wc < 128 ∧ addr.length = 32
  | .var any wc b => AnyWF any ∧ -(2 ^ 31 : Int) ≤ wc ∧ wc < (2 ^ 31 : Int) ∧ b.length < 512

theorem decodeAnycast_encode (any : Option Anycast) (h : AnyWF any) (rest : List Bool) (refs : List α) :
    decodeAnycast (⟨encodeAnycast any ++ rest, refs⟩ : Slice α) = .ok (any, ⟨rest, refs⟩) := by
  cases any with
  | none => simp [decodeAnycast, encodeAnycast, readBit, Outcome.bind]
  | some a =>
    obtain ⟨h1, h2, h3⟩ := h
    unfold decodeAnycast encodeAnycast
    simp only [List.cons_append, readBit_cons, Outcome.bind, Bool.not_true, Bool.false_eq_true, if_false,
      List.append_assoc]
    rw [readUint_natToBits 5 a.depth (by omega)]
    have : ¬ a.depth < 1 := by omega
    simp only [this, if_false]
    rw [readUint_natToBits a.depth a.pfx h3]

theorem decodeAddr_encode (a : MsgAddr) (h : AddrWF a) (rest : List Bool) (refs : List α) :
    decodeAddr (⟨encodeAddr a ++ rest, refs⟩ : Slice α) = .ok (a, ⟨rest, refs⟩) := by
  have tag : ∀ (t : Nat) (ht : t < 4) (tl : List Bool),
      readUint 2 (⟨natToBits 2 t ++ tl, refs⟩ : Slice α) = .ok (t, ⟨tl, refs⟩) :=
    fun t ht tl => readUint_natToBits 2 t (by omega) tl refs
  cases a with
  | none =>
    have := tag 0 (by omega) rest
    unfold decodeAddr encodeAddr
    rw [show ([false, false] ++ rest) = natToBits 2 0 ++ rest from rfl, this]
    rfl
  | extern b =>
    have := tag 1 (by omega) (natToBits 9 b.length ++ b ++ rest)
    unfold decodeAddr encodeAddr
    rw [show ([false, true] ++ natToBits 9 b.length ++ b ++ rest) = natToBits 2 1 ++ (natToBits 9 b.length ++ b ++ rest)
      from rfl, this]
    simp only [Outcome.bind, List.append_assoc]
    rw [readUint_natToBits 9 b.length (show b.length < 2 ^ 9 from h)]
    simp only [readBits_append]
    rfl
  | std any wc addr =>
    obtain ⟨ha, hlo, hhi, hlen⟩ := h
    have := tag 2 (by omega) (encodeAnycast any ++ intToBits 8 wc ++ bytesToBits addr ++ rest)
    unfold decodeAddr encodeAddr
    rw [show ([true, false] ++ encodeAnycast any ++ intToBits 8 wc ++ bytesToBits addr ++ rest) =
      natToBits 2 2 ++ (encodeAnycast any ++ intToBits 8 wc ++ bytesToBits addr ++ rest) from rfl, this]
    simp only [Outcome.bind, List.append_assoc]
    rw [decodeAnycast_encode any ha]
    simp only []
    rw [readInt_intToBits 7 wc (by simpa using hlo) (by simpa using hhi)]
    simp only []
    rw [readBits_append' 256 _ _ _ (by rw [bytesToBits_length, hlen])]
    simp [bitsToBytes_bytesToBits]
  | var any wc b =>
    obtain ⟨ha, hlo, hhi, hlen⟩ := h
    have := tag 3 (by omega) (encodeAnycast any ++ natToBits 9 b.length ++ intToBits 32 wc ++ b ++ rest)
    unfold decodeAddr encodeAddr
    rw [show ([true, true] ++ encodeAnycast any ++ natToBits 9 b.length ++ intToBits 32 wc ++ b ++ rest) =
      natToBits 2 3 ++ (encodeAnycast any ++ natToBits 9 b.length ++ intToBits 32 wc ++ b ++ rest)
      from rfl, this]
    simp only [Outcome.bind, List.append_assoc]
    rw [decodeAnycast_encode any ha]
    simp only []
    rw [readUint_natToBits 9 b.length (show b.length < 2 ^ 9 from hlen)]
    simp only []
    rw [readInt_intToBits 31 wc (by simpa using hlo) (by simpa using hhi)]
    simp only [readBits_append]
    rfl

/-- the address encoding is injective on well-formed addresses -/
theorem encodeAddr_injective (a b : MsgAddr) (ha : AddrWF a) (hb : AddrWF b) (h : encodeAddr a = encodeAddr b) : a = b := by
  have h1 := decodeAddr_encode (α := Unit) a ha [] []
  have h2 := decodeAddr_encode (α := Unit) b hb [] []
  rw [h] at h1
  rw [h1] at h2
  injection h2 with h2
  exact (Prod.mk.inj h2).1

/-! ### VarUInteger 16 -/

theorem natBytes_spec (v : Nat) (hv : v < 2 ^ 120) : natBytes v < 16 ∧ v < 2 ^ (8 * natBytes v) := by
  unfold natBytes
  split
  · rename_i h; subst h; simp
  · rename_i h
    have hlog : Nat.log2 v < 120 := (Nat.log2_lt h).mpr hv
    constructor
    · omega
    · have h1 : v < 2 ^ (Nat.log2 v + 1) := Nat.lt_log2_self
      have h2 : Nat.log2 v + 1 ≤ 8 * (Nat.log2 v / 8 + 1) := by omega
      exact Nat.lt_of_lt_of_le h1 (Nat.pow_le_pow_right (by omega) h2)

theorem decodeVarUInt16_encode (v : Nat) (hv : v < 2 ^ 120) (rest : List Bool) (refs : List α) :
    decodeVarUInt16 (⟨encodeVarUInt16 v ++ rest, refs⟩ : Slice α) = .ok (v, ⟨rest, refs⟩) := by
  obtain ⟨h1, h2⟩ := natBytes_spec v hv
  unfold decodeVarUInt16 encodeVarUInt16
  rw [List.append_assoc, readUint_natToBits 4 (natBytes v) (by omega)]
  simp only [Outcome.bind]
  exact readUint_natToBits _ v h2 rest refs

/-! ### StateInit and the whole external-in message -/

theorem readBits_two (a b : Bool) (tl : List Bool) (rs : List α) :
    readBits 2 (⟨a :: b :: tl, rs⟩ : Slice α) = .ok ([a, b], ⟨tl, rs⟩) := by
  simp [readBits]

def StateInitWF (si : StateInit α) : Prop := ∀ d, si.splitDepth = some d → d < 32

theorem decodeStateInit_encode (si : StateInit α) (h : StateInitWF si) (rest : List Bool) (rrest : List α) :
    decodeStateInit (⟨(encodeStateInit si).1 ++ rest, (encodeStateInit si).2 ++ rrest⟩ : Slice α) =
      .ok (si, ⟨rest, rrest⟩) := by
  obtain ⟨sd, sp, code, data, lib⟩ := si
  have hsd : ∀ d, sd = some d → ∀ (tl : List Bool) (rs : List α),
      readUint 5 (⟨natToBits 5 d ++ tl, rs⟩ : Slice α) = .ok (d, ⟨tl, rs⟩) :=
    fun d hd tl rs => readUint_natToBits 5 d (h d hd) tl rs
  cases sd with
  | none =>
    cases sp with
    | none =>
      cases code <;> cases data <;> cases lib <;>
        simp [decodeStateInit, encodeStateInit, readBit, nextRef, Outcome.bind]
    | some ab =>
      obtain ⟨a, b⟩ := ab
      cases code <;> cases data <;> cases lib <;>
        simp [decodeStateInit, encodeStateInit, readBit, readBits_two, nextRef, Outcome.bind]
  | some d =>
    have hd := hsd d rfl
    cases sp with
    | none =>
      cases code <;> cases data <;> cases lib <;>
        simp [decodeStateInit, encodeStateInit, readBit, nextRef, Outcome.bind, hd]
    | some ab =>
      obtain ⟨a, b⟩ := ab
      cases code <;> cases data <;> cases lib <;>
        simp [decodeStateInit, encodeStateInit, readBit, readBits_two, nextRef, Outcome.bind, hd]

/-- well-formed parts of an external-in message -/
def PartsWF (p : ExtInParts) : Prop :=
  AddrWF p.src ∧ AddrWF p.dest ∧ p.importFee < 2 ^ 120 ∧
  (∀ si, p.init = InitForm.inline si → StateInitWF si)

theorem decodeInfo_extIn (src dest : MsgAddr) (fee : Nat) (hs : AddrWF src) (hd : AddrWF dest) (hf : fee < 2 ^ 120)
    (rest : List Bool) (refs : List α) :
    decodeInfo (⟨[true, false] ++ (encodeAddr src ++ (encodeAddr dest ++ (encodeVarUInt16 fee ++ rest))), refs⟩ : Slice α) =
      .ok (.extIn src dest fee, ⟨rest, refs⟩) := by
  unfold decodeInfo
  simp only [List.cons_append, List.nil_append, readBit_cons, Outcome.bind, Bool.not_true, Bool.false_eq_true, if_false,
    Bool.not_false, List.append_assoc]
  rw [decodeAddr_encode src hs]
  simp only []
  rw [decodeAddr_encode dest hd]
  simp only []
  rw [decodeVarUInt16_encode fee hf]
  simp

/-- decoding the encoded external-in message gives the parts back; the body value is the same whether it was stored
inline or in a reference -/
theorem decodeMsg_encodeExtInRaw (p : ExtInParts) (h : PartsWF p) :
    decodeMsg treeStore ⟨(encodeExtInRaw p).1, (encodeExtInRaw p).2⟩ =
      .ok ⟨.extIn p.src p.dest p.importFee, p.init, p.bodyForm == .ref, ⟨p.body.bits, p.body.refs⟩⟩ := by
  obtain ⟨hs, hd, hf, hsi⟩ := h
  obtain ⟨src, dest, fee, init, form, body⟩ := p
  simp only at hs hd hf hsi
  unfold decodeMsg decodeMsgS
  cases init with
  | absent =>
    cases form with
    | inline =>
      simp only [encodeExtInRaw, encodeInit, List.append_assoc]
      rw [decodeInfo_extIn src dest fee hs hd hf]
      simp [Outcome.bind, readBit]
    | ref =>
      simp only [encodeExtInRaw, encodeInit, List.append_assoc]
      rw [decodeInfo_extIn src dest fee hs hd hf]
      simp [Outcome.bind, readBit, nextRef, treeStore]
  | ref r =>
    cases form with
    | inline =>
      simp only [encodeExtInRaw, encodeInit, List.append_assoc]
      rw [decodeInfo_extIn src dest fee hs hd hf]
      simp [Outcome.bind, readBit, nextRef]
    | ref =>
      simp only [encodeExtInRaw, encodeInit, List.append_assoc]
      rw [decodeInfo_extIn src dest fee hs hd hf]
      simp [Outcome.bind, readBit, nextRef, treeStore]
  | inline si =>
    have hw := hsi si rfl
    cases form with
    | inline =>
      simp only [encodeExtInRaw, encodeInit, List.append_assoc]
      rw [decodeInfo_extIn src dest fee hs hd hf]
      simp only [Outcome.bind, List.cons_append, readBit_cons, Bool.not_true, Bool.false_eq_true, if_false]
      rw [decodeStateInit_encode si hw]
      simp [readBit]
    | ref =>
      simp only [encodeExtInRaw, encodeInit, List.append_assoc]
      rw [decodeInfo_extIn src dest fee hs hd hf]
      simp only [Outcome.bind, List.cons_append, readBit_cons, Bool.not_true, Bool.false_eq_true, if_false]
      rw [decodeStateInit_encode si hw]
      simp [readBit, nextRef, treeStore]

/-! ### all three kinds of CommonMsgInfo -/

theorem decodeGrams_encode (v : Nat) (hv : v < 2 ^ 64) (rest : List Bool) (refs : List α) :
    decodeGrams (⟨encodeVarUInt16 v ++ rest, refs⟩ : Slice α) = .ok (v, ⟨rest, refs⟩) := by
  obtain ⟨h1, h2⟩ := natBytes_spec v (by omega)
  have h8 : natBytes v ≤ 8 := by
    unfold natBytes
    split
    · omega
    · rename_i h
      have hlog : Nat.log2 v < 64 := (Nat.log2_lt h).mpr hv
      omega
  unfold decodeGrams encodeVarUInt16
  rw [List.append_assoc, readUint_natToBits 4 (natBytes v) (by omega)]
  have : ¬ natBytes v > 8 := by omega
  simp only [Outcome.bind, this, if_false]
  exact readUint_natToBits _ v h2 rest refs

/-- well-formed CommonMsgInfo: addresses well formed, Grams fields below 2^64, import fee below 2^120, the time
fields in their widths, no extra currencies -/
def InfoWF : Info → Prop
  | .int _ _ _ src dest grams hasExtra ihrFee fwdFee lt at_ =>
    AddrWF src ∧ AddrWF dest ∧ grams < 2 ^ 64 ∧ hasExtra = false ∧ ihrFee < 2 ^ 64 ∧ fwdFee < 2 ^ 64 ∧
      lt < 2 ^ 64 ∧ at_ < 2 ^ 32
  | .extIn src dest fee => AddrWF src ∧ AddrWF dest ∧ fee < 2 ^ 120
  | .extOut src dest lt at_ => AddrWF src ∧ AddrWF dest ∧ lt < 2 ^ 64 ∧ at_ < 2 ^ 32

theorem readBits_three (a b c : Bool) (tl : List Bool) (rs : List α) :
    readBits 3 (⟨a :: b :: c :: tl, rs⟩ : Slice α) = .ok ([a, b, c], ⟨tl, rs⟩) := by
  simp [readBits]

theorem decodeInfo_encode (i : Info) (h : InfoWF i) (rest : List Bool) (refs : List α) :
    decodeInfo (⟨encodeInfo i ++ rest, refs⟩ : Slice α) = .ok (i, ⟨rest, refs⟩) := by
  cases i with
  | extIn src dest fee =>
    obtain ⟨hs, hd, hf⟩ := h
    unfold encodeInfo
    simp only [List.append_assoc]
    exact decodeInfo_extIn src dest fee hs hd hf rest refs
  | extOut src dest lt at_ =>
    obtain ⟨hs, hd, hl, ha⟩ := h
    unfold decodeInfo encodeInfo
    simp only [List.cons_append, List.nil_append, readBit_cons, Outcome.bind, Bool.not_true, Bool.false_eq_true, if_false,
      List.append_assoc]
    rw [decodeAddr_encode src hs]
    simp only []
    rw [decodeAddr_encode dest hd]
    simp only []
    rw [readUint_natToBits 64 lt hl]
    simp only []
    rw [readUint_natToBits 32 at_ ha]
  | int ihr bnc bnd src dest grams hasExtra ihrFee fwdFee lt at_ =>
    obtain ⟨hs, hd, hg, hx, hi, hf, hl, ha⟩ := h
    subst hx
    unfold decodeInfo encodeInfo
    simp only [List.cons_append, List.nil_append, readBit_cons, Outcome.bind, Bool.not_false, if_true,
      List.append_assoc, readBits_three]
    rw [decodeAddr_encode src hs]
    simp only []
    rw [decodeAddr_encode dest hd]
    simp only []
    rw [decodeGrams_encode grams hg]
    simp only [readBit_cons, Bool.false_eq_true, if_false]
    rw [decodeGrams_encode ihrFee hi]
    simp only []
    rw [decodeGrams_encode fwdFee hf]
    simp only []
    rw [readUint_natToBits 64 lt hl]
    simp only []
    rw [readUint_natToBits 32 at_ ha]
    simp

def MsgPartsWF (p : MsgParts) : Prop :=
  InfoWF p.info ∧ (∀ si, p.init = InitForm.inline si → StateInitWF si)

/-- decoding the encoded message of ANY kind gives the parts back; the body value does not depend on its placement -/
theorem decodeMsg_encodeMsgRaw (p : MsgParts) (h : MsgPartsWF p) :
    decodeMsg treeStore ⟨(encodeMsgRaw p).1, (encodeMsgRaw p).2⟩ =
      .ok ⟨p.info, p.init, p.bodyForm == .ref, ⟨p.body.bits, p.body.refs⟩⟩ := by
  obtain ⟨hi, hsi⟩ := h
  obtain ⟨info, init, form, body⟩ := p
  simp only at hi hsi
  unfold decodeMsg decodeMsgS
  cases init with
  | absent =>
    cases form with
    | inline =>
      simp only [encodeMsgRaw, encodeInit, List.append_assoc]
      rw [decodeInfo_encode info hi]
      simp [Outcome.bind, readBit]
    | ref =>
      simp only [encodeMsgRaw, encodeInit, List.append_assoc]
      rw [decodeInfo_encode info hi]
      simp [Outcome.bind, readBit, nextRef, treeStore]
  | ref r =>
    cases form with
    | inline =>
      simp only [encodeMsgRaw, encodeInit, List.append_assoc]
      rw [decodeInfo_encode info hi]
      simp [Outcome.bind, readBit, nextRef]
    | ref =>
      simp only [encodeMsgRaw, encodeInit, List.append_assoc]
      rw [decodeInfo_encode info hi]
      simp [Outcome.bind, readBit, nextRef, treeStore]
  | inline si =>
    have hw := hsi si rfl
    cases form with
    | inline =>
      simp only [encodeMsgRaw, encodeInit, List.append_assoc]
      rw [decodeInfo_encode info hi]
      simp only [Outcome.bind, List.cons_append, readBit_cons, Bool.not_true, Bool.false_eq_true, if_false]
      rw [decodeStateInit_encode si hw]
      simp [readBit]
    | ref =>
      simp only [encodeMsgRaw, encodeInit, List.append_assoc]
      rw [decodeInfo_encode info hi]
      simp only [Outcome.bind, List.cons_append, readBit_cons, Bool.not_true, Bool.false_eq_true, if_false]
      rw [decodeStateInit_encode si hw]
      simp [readBit, nextRef, treeStore]

theorem encodeMsg_cell (p : MsgParts) (c : Cell) (e : encodeMsg p = .ok c) :
    c = Cell.ordinary (encodeMsgRaw p).1 (encodeMsgRaw p).2 := by
  unfold encodeMsg at e
  simp only [] at e
  split at e
  · cases e
  · split at e
    · cases e
    · injection e with e; exact e.symm

theorem encodeExtInRaw_eq (p : ExtInParts) : encodeExtInRaw p = encodeMsgRaw p.toMsgParts := by
  obtain ⟨src, dest, fee, init, form, body⟩ := p
  cases form <;> simp [encodeExtInRaw, encodeMsgRaw, ExtInParts.toMsgParts, encodeInfo]

/-- length of an encoded well-formed address -/
theorem encodeAddr_length_le (a : MsgAddr) (h : AddrWF a) : (encodeAddr a).length ≤ 600 := by
  have hany : ∀ any, AnyWF any → (encodeAnycast any).length ≤ 37 := by
    intro any ha
    cases any with
    | none => simp [encodeAnycast]
    | some x => obtain ⟨_, h2, _⟩ := ha; simp [encodeAnycast]; omega
  cases a with
  | none => simp [encodeAddr]
  | extern b => have : b.length < 512 := h; simp [encodeAddr]; omega
  | std any wc addr =>
    obtain ⟨ha, _, _, hl⟩ := h
    have := hany any ha
    simp [encodeAddr, intToBits_length, bytesToBits_length, hl]; omega
  | var any wc b =>
    obtain ⟨ha, _, _, hl⟩ := h
    have := hany any ha
    simp [encodeAddr, intToBits_length]; omega

theorem encodeExtIn_cell (p : ExtInParts) (c : Cell) (e : encodeExtIn p = .ok c) :
    c = Cell.ordinary (encodeExtInRaw p).1 (encodeExtInRaw p).2 := by
  unfold encodeExtIn at e
  simp only [] at e
  split at e
  · cases e
  · split at e
    · cases e
    · injection e with e; exact e.symm

/-- the canonical cell determines the encoded destination and the body -/
theorem normCell_inj (d1 d2 : MsgAddr) (b1 b2 : Cell) (h : normCell d1 b1 = normCell d2 b2) :
    encodeAddr (normDest d1) = encodeAddr (normDest d2) ∧ b1 = b2 := by
  unfold normCell Cell.ordinary at h
  injection h with _ _ hbits hrefs
  constructor
  · unfold normBits at hbits
    simp only [List.append_assoc, List.cons_append, List.nil_append, List.cons.injEq, true_and] at hbits
    exact List.append_cancel_right hbits
  · simpa using hrefs

theorem normDest_wf (d : MsgAddr) (h : AddrWF d) : AddrWF (normDest d) := by
  cases d with
  | std any wc addr => exact ⟨trivial, h.2.1, h.2.2.1, h.2.2.2⟩
  | none => exact h
  | extern b => exact h
  | var any wc b => exact h

/-! ### the Transaction variable as a state machine -/

theorem captureTx_ok (H : List UInt8 → List UInt8) (c : Cell) (t : TxCapture) (h : captureTx H c = .ok t) :
    t.source = c ∧ c.reprHash H = .ok t.hash := by
  unfold captureTx at h
  cases hh : c.reprHash H with
  | ok x => rw [hh] at h; simp only [Outcome.bind] at h; injection h with h; subst h; exact ⟨rfl, rfl⟩
  | err e => rw [hh] at h; cases h
  | panic e => rw [hh] at h; cases h

theorem run_append (H : List UInt8 → List UInt8) (v : TxVar) (a b : List TxOp) :
    TxVar.run H v (a ++ b) = TxVar.run H (TxVar.run H v a) b := by
  simp [TxVar.run, List.foldl_append]

/-- after any script, the variable holds the capture of the last successfully decoded cell (or is unchanged when the
script decodes nothing) -/
theorem run_lastDecoded (H : List UInt8 → List UInt8) (ops : List TxOp) (v : TxVar) :
    (match lastDecoded H ops with
     | some c => ∃ t, TxVar.run H v ops = some t ∧ t.source = c ∧ c.reprHash H = .ok t.hash
     | none => TxVar.run H v ops = v) := by
  induction ops generalizing v with
  | nil => rfl
  | cons op rest ih =>
    have hrun : TxVar.run H v (op :: rest) = TxVar.run H (TxVar.step H v op) rest := rfl
    rw [hrun]
    have ih' := ih (TxVar.step H v op)
    simp only [lastDecoded]
    cases hl : lastDecoded H rest with
    | some c => rw [hl] at ih'; exact ih'
    | none =>
      rw [hl] at ih'
      simp only at ih' ⊢
      rw [ih']
      cases op with
      | sourceBoc => rfl
      | hash => rfl
      | decode c =>
        cases hc : captureTx H c with
        | ok t =>
          obtain ⟨h1, h2⟩ := captureTx_ok H c t hc
          simp only [Outcome.isOk, if_true, TxVar.step, hc]
          exact ⟨t, rfl, h1, h2⟩
        | err e => simp [Outcome.isOk, TxVar.step, hc]
        | panic e => simp [Outcome.isOk, TxVar.step, hc]

theorem normDest_idem (d : MsgAddr) : normDest (normDest d) = normDest d := by cases d <;> rfl

end Tongo.Message
