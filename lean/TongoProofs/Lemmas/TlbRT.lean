import TongoModel.Tlb.Wf
import TongoProofs.Lemmas.TlbPrim
/-! The round-trip relation between what an encoder appends to a builder (a chunk of bits and references) and what
the decoder reads back from any slice that starts with that chunk; builder/slice algebra; the leaf cases. -/
namespace Tongo.Tlb
open Tongo Tongo.Bits

/-- `RT dec ng v xs rs`: from every ordinary (non-library) slice that starts with the chunk `(xs, rs)`, `dec` returns
`v`; when the type is known not to be greedy (`ng`) it leaves exactly the rest, otherwise the chunk must be the
tail of the cell. -/
def RT (dec : Slice → Outcome (Val × Slice)) (ng : Prop) (v : Val) (xs : List Bool) (rs : List Cell) : Prop :=
  ∀ s : Slice, s.isLibrary = false → (ng ∨ (s.bits = [] ∧ s.refs = [] ∧ s.isPruned = false)) →
    ∃ s', dec (s.prepend xs rs) = .ok (v, s') ∧ (ng → s' = s)

/-- the strong form: the decoder consumes exactly the chunk, whatever follows -/
def RTs (dec : Slice → Outcome (Val × Slice)) (v : Val) (xs : List Bool) (rs : List Cell) : Prop :=
  ∀ s : Slice, s.isLibrary = false → dec (s.prepend xs rs) = .ok (v, s)

theorem RTs.toRT {dec v xs rs} (h : RTs dec v xs rs) (ng : Prop) : RT dec ng v xs rs :=
  fun s hs _ => ⟨s, h s hs, fun _ => rfl⟩

@[simp] theorem Slice.prepend_nil (s : Slice) : s.prepend [] [] = s := by
  cases s; simp [Slice.prepend]

theorem Slice.prepend_prepend (s : Slice) (xs ys : List Bool) (rs ts : List Cell) :
    (s.prepend ys ts).prepend xs rs = s.prepend (xs ++ ys) (rs ++ ts) := by
  cases s; simp [Slice.prepend]

@[simp] theorem Slice.prepend_isLibrary (s : Slice) (xs : List Bool) (rs : List Cell) :
    (s.prepend xs rs).isLibrary = s.isLibrary := rfl

@[simp] theorem Builder.app_nil (b : Builder) : b.app [] [] = b := by
  cases b; simp [Builder.app]

theorem Builder.app_app (b : Builder) (xs ys : List Bool) (rs ts : List Cell) :
    (b.app xs rs).app ys ts = b.app (xs ++ ys) (rs ++ ts) := by
  cases b; simp [Builder.app]

theorem Builder.writeBits_ok {b b' : Builder} {xs : List Bool} (h : b.writeBits xs = .ok b') : b' = b.app xs [] := by
  unfold Builder.writeBits at h
  split at h
  · cases h; simp [Builder.app]
  · cases h

theorem Builder.addRef_ok {b b' : Builder} {c : Cell} (h : b.addRef c = .ok b') : b' = b.app [] [c] := by
  unfold Builder.addRef at h
  split at h
  · cases h; simp [Builder.app]
  · cases h

theorem Slice.readBits_prepend (s : Slice) (xs ys : List Bool) (rs : List Cell) :
    (s.prepend (xs ++ ys) rs).readBits xs.length = .ok (xs, s.prepend ys rs) := by
  unfold Slice.readBits Slice.prepend
  simp

theorem Slice.readBit_prepend (s : Slice) (x : Bool) (ys : List Bool) (rs : List Cell) :
    (s.prepend (x :: ys) rs).readBit = .ok (x, s.prepend ys rs) := by
  simp [Slice.readBit, Slice.prepend]

theorem Slice.nextRef_prepend (s : Slice) (xs : List Bool) (c : Cell) (rs : List Cell) :
    (s.prepend xs (c :: rs)).nextRef = .ok (c, s.prepend xs rs) := by
  simp [Slice.nextRef, Slice.prepend]

theorem Slice.readUint_prepend (s : Slice) (n v : Nat) (ys : List Bool) (rs : List Cell) (hn : n ≤ 64) :
    (s.prepend (natToBits n v ++ ys) rs).readUint n = .ok (v % 2 ^ n, s.prepend ys rs) := by
  unfold Slice.readUint
  rw [if_neg (by omega)]
  have := Slice.readBits_prepend s (natToBits n v) ys rs
  rw [natToBits_length] at this
  simp only [this, bind, Outcome.bind, pure, bitsToNat_natToBits]

theorem Slice.readInt_prepend (s : Slice) (n : Nat) (v : Int) (ys : List Bool) (rs : List Cell) (h1 : 1 ≤ n) (hn : n ≤ 64)
    (lo : -(2 ^ (n - 1) : Int) ≤ v) (hi : v < (2 ^ (n - 1) : Int)) :
    (s.prepend (Builder.intBitsGo v n ++ ys) rs).readInt n = .ok (v, s.prepend ys rs) := by
  unfold Slice.readInt
  rw [if_neg (by omega), if_neg (by omega), intBitsGo_eq n v h1 hn lo hi]
  have := Slice.readBits_prepend s (intToBits n v) ys rs
  rw [intToBits_length] at this
  simp only [this, bind, Outcome.bind, pure, bitsToInt_intToBits n v h1 lo hi]

/-! ### bytes -/
theorem byte_roundtrip (b : UInt8) : UInt8.ofNat (bitsToNat (natToBits 8 b.toNat)) = b := by
  rw [bitsToNat_natToBits]
  have : b.toNat % 2 ^ 8 = b.toNat := Nat.mod_eq_of_lt (by have := b.toNat_lt; omega)
  rw [this]
  exact UInt8.ofNat_toNat

theorem bytesOfBits_bytesToBits (bs : List UInt8) (ys : List Bool) :
    bytesOfBits bs.length (bytesToBits bs ++ ys) = bs := by
  induction bs with
  | nil => rfl
  | cons b t ih =>
    have hl : (byteToBits b).length = 8 := by simp [byteToBits]
    simp only [bytesToBits, List.flatMap_cons, List.length_cons, bytesOfBits, List.append_assoc]
    rw [List.take_left' hl, List.drop_left' hl]
    have hb : UInt8.ofNat (bitsToNat (byteToBits b)) = b := byte_roundtrip b
    rw [hb]
    exact congrArg _ ih

theorem bytesToBits_length (bs : List UInt8) : (bytesToBits bs).length = bs.length * 8 := by
  induction bs with
  | nil => rfl
  | cons b t ih =>
    simp only [bytesToBits, List.flatMap_cons, List.length_append, List.length_cons] at *
    rw [ih]; simp [byteToBits]; omega

theorem Slice.readBytes_prepend (s : Slice) (bs : List UInt8) (ys : List Bool) (rs : List Cell) :
    (s.prepend (bytesToBits bs ++ ys) rs).readBytes bs.length = .ok (bs, s.prepend ys rs) := by
  unfold Slice.readBytes
  have := Slice.readBits_prepend s (bytesToBits bs) ys rs
  rw [bytesToBits_length] at this
  simp only [this, bind, Outcome.bind, pure]
  have h := bytesOfBits_bytesToBits bs []
  rw [List.append_nil] at h
  rw [h]

end Tongo.Tlb
