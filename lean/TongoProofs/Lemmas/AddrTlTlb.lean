import TongoModel.Address
/-! Round trips of the TL and TL-B (struct level and bit level) forms of an account id. Core Lean only. -/
namespace Tongo.Address
open Tongo

/-! ### TL -/

theorem le32_join (w : BitVec 32) :
    w.extractLsb' 24 8 ++ w.extractLsb' 16 8 ++ w.extractLsb' 8 8 ++ w.extractLsb' 0 8 = w := by
  apply BitVec.eq_of_getLsbD_eq
  intro i hi
  simp only [BitVec.getLsbD_append, BitVec.getLsbD_extractLsb']
  repeat' split
  all_goals (rw [decide_eq_true (by omega), Bool.true_and]; congr 1; omega)

theorem tl_roundtrip (a : AccountID) (h : a.WF) (rest : List Byte) : fromTL (toTL a ++ rest) = .ok a := by
  cases a with
  | mk wc addr =>
    simp only [AccountID.WF] at h
    have h1 : ¬ (32 + rest.length + 1 + 1 + 1 + 1 < 4) := by omega
    have h2 : ¬ (32 + rest.length < 32) := by omega
    simp [fromTL, toTL, le32, h, le32_join, h1, h2]

/-! ### TL-B, struct level -/

theorem tlb_workchain_truncated (a : AccountID) :
    fromTlb (toMsgAddress a) = .ok (some ⟨(a.wc.setWidth 8).signExtend 32, a.addr⟩) := rfl

theorem tlb_roundtrip (a : AccountID) (_h : a.WF) (hw : a.wc = (a.wc.setWidth 8).signExtend 32) :
    fromTlb (toMsgAddress a) = .ok (some a) := by
  rw [tlb_workchain_truncated, ← hw]

/-! ### TL-B, bit level -/

theorem natOfBits_snoc (bs : List Bool) (b : Bool) :
    natOfBits (bs ++ [b]) = 2 * natOfBits bs + (if b then 1 else 0) := by
  simp [natOfBits, List.foldl_append]

theorem natOfBits_range {n : Nat} (v : BitVec n) (k : Nat) (hk : k ≤ n) :
    natOfBits ((List.range k).map (fun i => v.getMsbD i)) = v.toNat / 2 ^ (n - k) := by
  induction k with
  | zero =>
    simp [natOfBits]
    rw [Nat.div_eq_of_lt v.isLt]
  | succ k ih =>
    rw [List.range_succ, List.map_append, List.map_singleton, natOfBits_snoc, ih (by omega)]
    have e : n - k = (n - (k + 1)) + 1 := by omega
    rw [e, Nat.pow_succ, ← Nat.div_div_eq_div_mul]
    have : v.getMsbD k = (v.toNat / 2 ^ (n - (k+1)) % 2 == 1) := by
      rw [BitVec.getMsbD, BitVec.getLsbD, Nat.testBit_eq_decide_div_mod_eq]
      have : n - 1 - k = n - (k+1) := by omega
      have hkn : k < n := by omega
      simp [this, hkn]
      by_cases hq : v.toNat / 2 ^ (n - (k + 1)) % 2 = 1 <;> simp [hq]
    rw [this]
    generalize v.toNat / 2 ^ (n - (k+1)) = q
    by_cases hq : q % 2 = 1 <;> simp [hq] <;> omega

theorem natOfBits_bitsMsb {n : Nat} (v : BitVec n) : natOfBits (bitsMsb v) = v.toNat := by
  rw [bitsMsb, natOfBits_range v n (Nat.le_refl _)]; simp

theorem bitsMsb_length {n : Nat} (v : BitVec n) : (bitsMsb v).length = n := by simp [bitsMsb]

theorem bytesOfBits_flatMap (addr : List Byte) (rest : List Bool) :
    bytesOfBits addr.length (addr.flatMap bitsMsb ++ rest) = addr := by
  induction addr with
  | nil => simp [bytesOfBits]
  | cons b t ih =>
    simp only [List.length_cons, bytesOfBits, List.flatMap_cons, List.append_assoc]
    rw [List.take_left' (bitsMsb_length b), List.drop_left' (bitsMsb_length b), ih, natOfBits_bitsMsb]
    simp

theorem flatMap_bitsMsb_length (addr : List Byte) : (addr.flatMap bitsMsb).length = 8 * addr.length := by
  induction addr with
  | nil => simp
  | cons b t ih => simp [List.flatMap_cons, bitsMsb_length, ih]; omega

theorem tlb_bits_roundtrip (a : AccountID) (h : a.WF) (rest : List Bool) :
    ∃ bs, tlbBits (toMsgAddress a) = some bs ∧ bs.length = 267 ∧
      parseTlbBits (bs ++ rest) = .ok (toMsgAddress a) := by
  have h' : a.addr.length = 32 := h
  refine ⟨_, rfl, ?_, ?_⟩
  · simp only [List.length_append, List.length_cons, List.length_nil, bitsMsb_length,
      flatMap_bitsMsb_length, h']
  · simp only [toMsgAddress, List.cons_append, List.nil_append, List.append_assoc, parseTlbBits]
    have hl : ¬ ((bitsMsb (BitVec.setWidth 8 a.wc) ++ (List.flatMap bitsMsb a.addr ++ rest)).length < 264) := by
      simp only [List.length_append, bitsMsb_length, flatMap_bitsMsb_length, h']; omega
    rw [if_neg hl, List.take_left' (bitsMsb_length _), List.drop_left' (bitsMsb_length _), natOfBits_bitsMsb]
    have := bytesOfBits_flatMap a.addr rest
    rw [h'] at this
    rw [this]; congr 2; apply BitVec.eq_of_toNat_eq; simp

end Tongo.Address
