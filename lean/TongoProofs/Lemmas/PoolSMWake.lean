import TongoProofs.Lemmas.PoolSMTimer
import TongoProofs.Lemmas.PoolSMSelect
/-! No lost wake-up: whenever the best connection is at or beyond a registered waiter's target, a head `≥ target` is
in the waiter's channel or on its way to it (helper lemmas for C13.no_lost_wakeup). -/
namespace Tongo.PoolSM

attribute [local grind =] List.mem_filter List.mem_append List.mem_map List.mem_cons
attribute [local grind →] List.mem_of_mem_erase

/-! ### wait-list ids: positive, unique, and every registered waiter is in the list -/

structure InvR (s : State) : Prop where
  idLe : ∀ (i : Nat) (w : Waiter), s.waiters[i]? = some w → w.wid ≤ s.nextId
  uniq : ∀ (i k : Nat) (wi wk : Waiter), s.waiters[i]? = some wi → s.waiters[k]? = some wk → wi.wid ≠ 0 →
    wi.wid = wk.wid → i = k
  reg : ∀ (i : Nat) (w : Waiter), s.waiters[i]? = some w → w.pc.registered = true → w.wid ≠ 0 →
    (w.wid, i) ∈ s.waitList
  unreg : ∀ (i : Nat) (w : Waiter), s.waiters[i]? = some w → (w.pc = .start ∨ w.pc = .subRead) → w.wid = 0
  regPos : ∀ (i : Nat) (w : Waiter), s.waiters[i]? = some w → w.wid ≠ 0 → 0 < w.target

theorem invR_idLe {v s a s'} (h : InvR s) (hs : step v s a = some s') :
    ∀ (i : Nat) (w : Waiter), s'.waiters[i]? = some w → w.wid ≤ s'.nextId := by
  obtain ⟨idLe, uniq, reg, unreg, regPos⟩ := h
  cases a <;> step_cases hs <;> grind [State.setW, State.setS]

theorem invR_uniq {v s a s'} (h : InvR s) (hs : step v s a = some s') :
    ∀ (i k : Nat) (wi wk : Waiter), s'.waiters[i]? = some wi → s'.waiters[k]? = some wk → wi.wid ≠ 0 →
    wi.wid = wk.wid → i = k := by
  obtain ⟨idLe, uniq, reg, unreg, regPos⟩ := h
  cases a <;> step_cases hs <;> grind [State.setW, State.setS]

theorem invR_reg {v s a s'} (h : InvR s) (hs : step v s a = some s') :
    ∀ (i : Nat) (w : Waiter), s'.waiters[i]? = some w → w.pc.registered = true → w.wid ≠ 0 →
    (w.wid, i) ∈ s'.waitList := by
  obtain ⟨idLe, uniq, reg, unreg, regPos⟩ := h
  cases a <;> step_cases hs <;> grind [State.setW, State.setS, WPc.registered]

theorem invR_unreg {v s a s'} (h : InvR s) (hs : step v s a = some s') :
    ∀ (i : Nat) (w : Waiter), s'.waiters[i]? = some w → (w.pc = .start ∨ w.pc = .subRead) → w.wid = 0 := by
  obtain ⟨idLe, uniq, reg, unreg, regPos⟩ := h
  cases a <;> step_cases hs <;> grind [State.setW, State.setS]

theorem invR_regPos {v s a s'} (h : InvR s) (hs : step v s a = some s') :
    ∀ (i : Nat) (w : Waiter), s'.waiters[i]? = some w → w.wid ≠ 0 → 0 < w.target := by
  obtain ⟨idLe, uniq, reg, unreg, regPos⟩ := h
  cases a <;> step_cases hs <;> grind [State.setW, State.setS]

theorem invR_step {v s a s'} (h : InvR s) (hs : step v s a = some s') : InvR s' :=
  ⟨invR_idLe h hs, invR_uniq h hs, invR_reg h hs, invR_unreg h hs, invR_regPos h hs⟩

theorem invR_init (heads best targets pubs st rtts) : InvR (mkInit heads best targets pubs st rtts) := by
  constructor
  · intro i w h; have := mkInit_waiter h; simp [this.2.2.2.2.2]
  · intro i k wi wk hi hk hne _; have := mkInit_waiter hi; exact absurd this.2.2.2.2.2 hne
  · intro i w h hr; have := mkInit_waiter h; simp [this.1, WPc.registered] at hr
  · intro i w h _; exact (mkInit_waiter h).2.2.2.2.2
  · intro i w h hne; exact absurd (mkInit_waiter h).2.2.2.2.2 hne

theorem reachable_invR {v s} (h : Reachable v s) : InvR s := by
  induction h with
  | init heads best targets pubs st rtts hp hh hb => exact invR_init ..
  | step _ hs ih => exact invR_step ih hs

/-- the repaired SetMasterHead is never at the send while holding the connection mutex -/
theorem noSendLocked_step {v s a s'} (hp : v.pubUnlocked = true)
    (h : ∀ (j : Nat) (x : Setter), s.setters[j]? = some x → x.pc ≠ .sendLocked) (hs : step v s a = some s') :
    ∀ (j : Nat) (x : Setter), s'.setters[j]? = some x → x.pc ≠ .sendLocked := by
  cases a <;> step_cases hs <;> grind [State.setW, State.setS]

theorem noSendLocked_of {v s} (hp : v.pubUnlocked = true) (h : Reachable v s) :
    ∀ (j : Nat) (x : Setter), s.setters[j]? = some x → x.pc ≠ .sendLocked := by
  induction h with
  | init heads best targets pubs st rtts hp' hh hb =>
    intro j x hx
    simp only [mkInit, List.getElem?_map, Option.map_eq_some_iff] at hx
    obtain ⟨p, _, rfl⟩ := hx
    simp
  | step _ hs ih => exact noSendLocked_step hp ih hs

/-! ### heads are uint32 values -/

def Bound32 (s : State) : Prop :=
  (∀ k, s.heads.getD k 0 < 2 ^ 32) ∧ ∀ (j : Nat) (x : Setter), s.setters[j]? = some x → x.head < 2 ^ 32

theorem bound32_step {v s a s'} (h : Bound32 s) (hs : step v s a = some s') : Bound32 s' := by
  obtain ⟨h1, h2⟩ := h
  constructor
  · intro k
    cases a <;> step_cases hs <;> first | exact h1 k | skip
    all_goals
      simp only [State.setS, List.getD_eq_getElem?_getD, List.getElem?_set]
      split
      · split
        · rename_i x _ _ _ _ _; simp; exact h2 _ _ (by assumption)
        · simp
      · simpa [List.getD_eq_getElem?_getD] using h1 k
  · cases a <;> step_cases hs <;> grind [State.setW, State.setS]

theorem bound32_init (heads best targets pubs st rtts) (hp : ∀ p ∈ pubs, p.2 < 2 ^ 32) (hh : ∀ h ∈ heads, h < 2 ^ 32) :
    Bound32 (mkInit heads best targets pubs st rtts) := by
  constructor
  · intro k
    simp only [mkInit, List.getD_eq_getElem?_getD]
    cases hk : heads[k]? with
    | none => simp
    | some x => simpa using hh x (List.mem_of_getElem? hk)
  · intro j x hx
    simp only [mkInit, List.getElem?_map, Option.map_eq_some_iff] at hx
    obtain ⟨p, hp', rfl⟩ := hx
    exact hp p (List.mem_of_getElem? hp')

theorem reachable_bound32 {v s} (h : Reachable v s) : Bound32 s := by
  induction h with
  | init heads best targets pubs st rtts hp hh hb =>
    exact bound32_init heads best targets pubs st rtts (fun p h => (hp p h).2) hh
  | step _ hs ih => exact bound32_step ih hs

/-! ### pending reports of a connection -/

/-- a SetMasterHead caller has stored a head `≥ t` of connection `c` and has not published it yet -/
def pendSetL (l : List Setter) (c t : Nat) : Prop :=
  ∃ (j : Nat) (x : Setter), l[j]? = some x ∧ (x.pc = .sendUnlocked ∨ x.pc = .sendLocked) ∧ x.conn = c ∧ t ≤ x.head

/-- a head `≥ t` of connection `c` is in `masterHeadUpdatedCh` -/
def pendUpdL (u : List (Nat × Nat)) (c t : Nat) : Prop := ∃ e ∈ u, e.1 = c ∧ t ≤ e.2

theorem pendSetL_set_start {l : List Setter} {j : Nat} {x y : Setter} {c t : Nat} (hx : l[j]? = some x)
    (hp : x.pc = .start) (h : pendSetL l c t) : pendSetL (l.set j y) c t := by
  obtain ⟨j0, x0, h0, hpc, hc, ht⟩ := h
  have hne : j ≠ j0 := by
    intro heq; subst heq; rw [hx] at h0; cases h0; rcases hpc with h | h <;> (rw [hp] at h; cases h)
  exact ⟨j0, x0, by rw [List.getElem?_set_ne hne]; exact h0, hpc, hc, ht⟩

theorem pendSetL_set_new {l : List Setter} {j : Nat} {x y : Setter} {c t : Nat} (hx : l[j]? = some x)
    (hp : y.pc = .sendUnlocked ∨ y.pc = .sendLocked) (hc : y.conn = c) (ht : t ≤ y.head) :
    pendSetL (l.set j y) c t :=
  ⟨j, y, by rw [List.getElem?_set_self (List.getElem?_eq_some_iff.mp hx).1], hp, hc, ht⟩

/-- the publication moves the report from the caller into the channel -/
theorem pend_send {l : List Setter} {u : List (Nat × Nat)} {j : Nat} {x y : Setter} {c t : Nat}
    (hx : l[j]? = some x) (h : pendSetL l c t ∨ pendUpdL u c t) :
    pendSetL (l.set j y) c t ∨ pendUpdL (u ++ [(x.conn, x.head)]) c t := by
  rcases h with ⟨j0, x0, h0, hpc, hc, ht⟩ | ⟨e, he, hc, ht⟩
  · by_cases hj : j = j0
    · subst hj; rw [hx] at h0; cases h0
      exact Or.inr ⟨(x.conn, x.head), by simp, hc, ht⟩
    · exact Or.inl ⟨j0, x0, by rw [List.getElem?_set_ne hj]; exact h0, hpc, hc, ht⟩
  · exact Or.inr ⟨e, by simp [he], hc, ht⟩

theorem pendUpdL_cons {c' h' : Nat} {rest : List (Nat × Nat)} {c t : Nat} (h : pendUpdL ((c', h') :: rest) c t) :
    pendUpdL rest c t ∨ (c' = c ∧ t ≤ h') := by
  obtain ⟨e, he, hc, ht⟩ := h
  rcases List.mem_cons.mp he with rfl | hm
  · exact Or.inr ⟨hc, ht⟩
  · exact Or.inl ⟨e, hm, hc, ht⟩

/-- `Run` has received a head `≥ t` of connection `c` and is about to look at the best connection -/
def pendRun (r : RunPc) (c t : Nat) : Bool :=
  match r with
  | .nWant c' h => c' == c && decide (t ≤ h)
  | .nCheck c' h => c' == c && decide (t ≤ h)
  | _ => false

/-- **no lost wake-up** (state invariant): waiter registered and in its select, best connection at or beyond its
target ⇒ a head `≥ target` is in its channel, carried by `Run` for it, being handed out with the waiter not served
yet, or still in the pipeline SetMasterHead → channel → `Run` for the best connection -/
def Woken (s : State) : Prop :=
  ∀ (i : Nat) (w : Waiter) (c : Nat), s.waiters[i]? = some w → w.pc = .sel → w.wid ≠ 0 → s.best = some c →
    w.target ≤ s.heads.getD c 0 →
    (bufGe w || carriedGe s.run i w.target || preGe s.run i w.target) = true ∨
    pendSetL s.setters c w.target ∨ pendUpdL s.upd c w.target ∨ pendRun s.run c w.target = true

/-- the heads the running refresh has read so far -/
def runSeqs : RunPc → Option (List (BitVec 32))
  | .ubRead _ seqs _ => some seqs
  | .ubSel _ seqs _ _ => some seqs
  | _ => none

/-- while a refresh runs: whatever a member has stored beyond the head the refresh read from it is still in the
pipeline (`Run`, the only receiver, is busy with the refresh) -/
def Fresh (s : State) : Prop :=
  ∀ seqs, runSeqs s.run = some seqs →
    ∀ (k : Nat) (q : BitVec 32) (t : Nat), seqs[k]? = some q → q.toNat < t → t ≤ s.heads.getD k 0 →
      pendSetL s.setters k t ∨ pendUpdL s.upd k t

theorem toNat_ofNat_lt {h : Nat} (hh : h < 2 ^ 32) : (BitVec.ofNat 32 h).toNat = h := by
  simp [BitVec.toNat_ofNat, Nat.mod_eq_of_lt hh]

theorem getD_set_eq_or (l : List Nat) (k c v : Nat) :
    (l.set c v).getD k 0 = l.getD k 0 ∨ (k = c ∧ (l.set c v).getD k 0 = v) := by
  simp only [List.getD_eq_getElem?_getD, List.getElem?_set]
  split
  · split
    · right; subst_vars; exact ⟨rfl, by simp⟩
    · left; subst_vars; simp [List.getElem?_eq_none (by omega : l.length ≤ c)]
  · left; rfl

theorem fresh_step {v s a s'} (hB : Bound32 s) (hL : InvL s) (h : Fresh s) (hs : step v s a = some s') : Fresh s' := by
  unfold Fresh at *
  obtain ⟨hb1, hb2⟩ := hB
  have hro := hL.readOk
  cases a with
  | sLock j =>
    simp only [step] at hs
    split at hs
    · rename_i x hx
      split at hs
      · rename_i hst
        split at hs
        · rename_i hlt
          have key : ∀ (l' : List Setter) (y : Setter), l' = s.setters.set j y →
              (y.pc = .sendUnlocked ∨ y.pc = .sendLocked) → y.conn = x.conn → y.head = x.head →
              ∀ seqs, runSeqs s.run = some seqs → ∀ (k : Nat) (q : BitVec 32) (t : Nat), seqs[k]? = some q →
                q.toNat < t → t ≤ (s.heads.set x.conn x.head).getD k 0 → pendSetL l' k t ∨ pendUpdL s.upd k t := by
            intro l' y hl' hyp hyc hyh seqs hrs k q t hq hlt' hle
            subst hl'
            rcases getD_set_eq_or s.heads k x.conn x.head with heq | ⟨hk, heq⟩
            · rw [heq] at hle
              rcases h seqs hrs k q t hq hlt' hle with hp | hp
              · exact Or.inl (pendSetL_set_start hx hst.1 hp)
              · exact Or.inr hp
            · rw [heq] at hle
              exact Or.inl (pendSetL_set_new hx hyp (by rw [hyc, hk]) (by rw [hyh]; exact hle))
          split at hs <;> cases hs
          · exact key _ _ rfl (Or.inl rfl) rfl rfl
          · exact key _ _ rfl (Or.inr rfl) rfl rfl
        · cases hs
          intro seqs hrs k q t hq hlt' hle
          rcases h seqs hrs k q t hq hlt' hle with hp | hp
          · exact Or.inl (pendSetL_set_start hx hst.1 hp)
          · exact Or.inr hp
      · cases hs
    · cases hs
  | sSend j =>
    simp only [step] at hs
    split at hs
    · rename_i x hx
      split at hs
      · split at hs <;> (try cases hs) <;>
          (intro seqs hrs k q t hq hlt' hle; exact pend_send hx (h seqs hrs k q t hq hlt' hle))
      · cases hs
    · cases hs
  | _ =>
    unfold pendSetL pendUpdL at *
    step_cases hs <;> grind [State.setW, State.setS, runSeqs, toNat_ofNat_lt]

theorem fresh_init (heads best targets pubs st rtts) : Fresh (mkInit heads best targets pubs st rtts) := by
  intro seqs h; simp [mkInit, runSeqs] at h

/-- the part of `Woken` that does not look at the pipeline -/
def here (s : State) (i : Nat) (w : Waiter) : Bool :=
  bufGe w || carriedGe s.run i w.target || preGe s.run i w.target

theorem woken_sLock {v s s'} (j : Nat) (h : Woken s) (hs : step v s (.sLock j) = some s') : Woken s' := by
  unfold Woken at *
  simp only [step] at hs
  split at hs
  · rename_i x hx
    split at hs
    · rename_i hst
      split at hs
      · have key : ∀ (y : Setter), (y.pc = .sendUnlocked ∨ y.pc = .sendLocked) → y.conn = x.conn →
            y.head = x.head → ∀ (i : Nat) (w : Waiter) (c : Nat), s.waiters[i]? = some w → w.pc = .sel →
            w.wid ≠ 0 → s.best = some c → w.target ≤ (s.heads.set x.conn x.head).getD c 0 →
            (bufGe w || carriedGe s.run i w.target || preGe s.run i w.target) = true ∨
            pendSetL (s.setters.set j y) c w.target ∨ pendUpdL s.upd c w.target ∨
            pendRun s.run c w.target = true := by
          intro y hyp hyc hyh i w c hw hp hwid hb hle
          rcases getD_set_eq_or s.heads c x.conn x.head with heq | ⟨hk, heq⟩
          · rw [heq] at hle
            rcases h i w c hw hp hwid hb hle with h1 | h2 | h3
            · exact Or.inl h1
            · exact Or.inr (Or.inl (pendSetL_set_start hx hst.1 h2))
            · exact Or.inr (Or.inr h3)
          · rw [heq] at hle
            exact Or.inr (Or.inl (pendSetL_set_new hx hyp (by rw [hyc, hk]) (by rw [hyh]; exact hle)))
        split at hs <;> cases hs
        · exact key _ (Or.inl rfl) rfl rfl
        · exact key _ (Or.inr rfl) rfl rfl
      · cases hs
        intro i w c hw hp hwid hb hle
        rcases h i w c hw hp hwid hb hle with h1 | h2 | h3
        · exact Or.inl h1
        · exact Or.inr (Or.inl (pendSetL_set_start hx hst.1 h2))
        · exact Or.inr (Or.inr h3)
    · cases hs
  · cases hs


theorem woken_sSend {v s s'} (j : Nat) (h : Woken s) (hs : step v s (.sSend j) = some s') : Woken s' := by
  unfold Woken at *
  simp only [step] at hs
  split at hs
  · rename_i x hx
    split at hs
    · split at hs <;> (try cases hs) <;>
        (intro i w c hw hp hwid hb hle
         rcases h i w c hw hp hwid hb hle with h1 | h2 | h2 | h3
         · exact Or.inl h1
         · rcases pend_send (y := _) (u := s.upd) hx (Or.inl h2) with q | q
           · exact Or.inr (Or.inl q)
           · exact Or.inr (Or.inr (Or.inl q))
         · rcases pend_send (y := _) (l := s.setters) hx (Or.inr h2) with q | q
           · exact Or.inr (Or.inl q)
           · exact Or.inr (Or.inr (Or.inl q))
         · exact Or.inr (Or.inr (Or.inr h3)))
    · cases hs
  · cases hs


theorem woken_recv {v s s'} (h : Woken s) (hs : step v s .recv = some s') : Woken s' := by
  unfold Woken at *
  simp only [step] at hs
  split at hs
  · rename_i c' h' rest hrun hupd
    cases hs
    intro i w c hw hp hwid hb hle
    rcases h i w c hw hp hwid hb hle with h1 | h2 | h2 | h3
    · left
      simp only [Bool.or_eq_true] at h1 ⊢
      rcases h1 with (h1 | h1) | h1
      · exact Or.inl (Or.inl h1)
      · simp [hrun, carriedGe] at h1
      · simp [hrun, preGe] at h1
    · exact Or.inr (Or.inl h2)
    · rw [hupd] at h2
      rcases pendUpdL_cons h2 with q | ⟨q1, q2⟩
      · exact Or.inr (Or.inr (Or.inl q))
      · exact Or.inr (Or.inr (Or.inr (by simp [pendRun, q1, q2])))
    · simp [hrun, pendRun] at h3
  · cases hs


theorem woken_tick {v s s'} (hn : v.nbNotify = true) (hA : InvA s) (hE : InvE s) (hR : InvR s) (h : Woken s)
    (hs : step v s .tick = some s') : Woken s' := by
  unfold Woken at *
  obtain ⟨l1, l2, l3, l4, vWl, vLoop, vPut, fresh, cap1⟩ := hA
  obtain ⟨putEmpty, kept⟩ := hE
  obtain ⟨idLe, uniq, reg, unreg, regPos⟩ := hR
  step_cases hs <;>
    grind [State.setW, State.setS, RunPc.lockW, RunPc.lockR, preGe, carriedGe, bufGe, pendRun, mem_erase_of_ne',
      WPc.registered]

theorem woken_ubLock {v s s'} (hn : v.nbNotify = true) (hA : InvA s) (hE : InvE s) (hR : InvR s) (h : Woken s)
    (hs : step v s .ubLock = some s') : Woken s' := by
  unfold Woken at *
  obtain ⟨l1, l2, l3, l4, vWl, vLoop, vPut, fresh, cap1⟩ := hA
  obtain ⟨putEmpty, kept⟩ := hE
  obtain ⟨idLe, uniq, reg, unreg, regPos⟩ := hR
  step_cases hs <;>
    grind [State.setW, State.setS, RunPc.lockW, RunPc.lockR, preGe, carriedGe, bufGe, pendRun, mem_erase_of_ne',
      WPc.registered]

theorem woken_ubRead {v s s'} (hn : v.nbNotify = true) (hA : InvA s) (hE : InvE s) (hR : InvR s) (h : Woken s)
    (hs : step v s .ubRead = some s') : Woken s' := by
  unfold Woken at *
  obtain ⟨l1, l2, l3, l4, vWl, vLoop, vPut, fresh, cap1⟩ := hA
  obtain ⟨putEmpty, kept⟩ := hE
  obtain ⟨idLe, uniq, reg, unreg, regPos⟩ := hR
  step_cases hs <;>
    grind [State.setW, State.setS, RunPc.lockW, RunPc.lockR, preGe, carriedGe, bufGe, pendRun, mem_erase_of_ne',
      WPc.registered]

theorem woken_ubSel {v s s'} (hn : v.nbNotify = true) (hA : InvA s) (hE : InvE s) (hR : InvR s) (h : Woken s)
    (hs : step v s .ubSel = some s') : Woken s' := by
  unfold Woken at *
  obtain ⟨l1, l2, l3, l4, vWl, vLoop, vPut, fresh, cap1⟩ := hA
  obtain ⟨putEmpty, kept⟩ := hE
  obtain ⟨idLe, uniq, reg, unreg, regPos⟩ := hR
  step_cases hs <;>
    grind [State.setW, State.setS, RunPc.lockW, RunPc.lockR, preGe, carriedGe, bufGe, pendRun, mem_erase_of_ne',
      WPc.registered]

theorem woken_nRLock {v s s'} (hn : v.nbNotify = true) (hA : InvA s) (hE : InvE s) (hR : InvR s) (h : Woken s)
    (hs : step v s .nRLock = some s') : Woken s' := by
  unfold Woken at *
  obtain ⟨l1, l2, l3, l4, vWl, vLoop, vPut, fresh, cap1⟩ := hA
  obtain ⟨putEmpty, kept⟩ := hE
  obtain ⟨idLe, uniq, reg, unreg, regPos⟩ := hR
  step_cases hs <;>
    grind [State.setW, State.setS, RunPc.lockW, RunPc.lockR, preGe, carriedGe, bufGe, pendRun, mem_erase_of_ne',
      WPc.registered]

theorem woken_nCheck {v s s'} (hn : v.nbNotify = true) (hA : InvA s) (hE : InvE s) (hR : InvR s) (h : Woken s)
    (hs : step v s .nCheck = some s') : Woken s' := by
  unfold Woken at *
  obtain ⟨l1, l2, l3, l4, vWl, vLoop, vPut, fresh, cap1⟩ := hA
  obtain ⟨putEmpty, kept⟩ := hE
  obtain ⟨idLe, uniq, reg, unreg, regPos⟩ := hR
  step_cases hs <;>
    grind [State.setW, State.setS, RunPc.lockW, RunPc.lockR, preGe, carriedGe, bufGe, pendRun, mem_erase_of_ne',
      WPc.registered]

theorem woken_nSend {v s s'} (k : Nat) (hn : v.nbNotify = true) (hA : InvA s) (hE : InvE s) (hR : InvR s) (h : Woken s)
    (hs : step v s (.nSend k) = some s') : Woken s' := by
  unfold Woken at *
  obtain ⟨l1, l2, l3, l4, vWl, vLoop, vPut, fresh, cap1⟩ := hA
  obtain ⟨putEmpty, kept⟩ := hE
  obtain ⟨idLe, uniq, reg, unreg, regPos⟩ := hR
  step_cases hs <;>
    grind [State.setW, State.setS, RunPc.lockW, RunPc.lockR, preGe, carriedGe, bufGe, pendRun, mem_erase_of_ne',
      WPc.registered]

theorem woken_nDone {v s s'} (hn : v.nbNotify = true) (hA : InvA s) (hE : InvE s) (hR : InvR s) (h : Woken s)
    (hs : step v s .nDone = some s') : Woken s' := by
  unfold Woken at *
  obtain ⟨l1, l2, l3, l4, vWl, vLoop, vPut, fresh, cap1⟩ := hA
  obtain ⟨putEmpty, kept⟩ := hE
  obtain ⟨idLe, uniq, reg, unreg, regPos⟩ := hR
  step_cases hs <;>
    grind [State.setW, State.setS, RunPc.lockW, RunPc.lockR, preGe, carriedGe, bufGe, pendRun, mem_erase_of_ne',
      WPc.registered]

theorem woken_wLock {v s s'} (k : Nat) (hn : v.nbNotify = true) (hA : InvA s) (hE : InvE s) (hR : InvR s) (h : Woken s)
    (hs : step v s (.wLock k) = some s') : Woken s' := by
  unfold Woken at *
  obtain ⟨l1, l2, l3, l4, vWl, vLoop, vPut, fresh, cap1⟩ := hA
  obtain ⟨putEmpty, kept⟩ := hE
  obtain ⟨idLe, uniq, reg, unreg, regPos⟩ := hR
  step_cases hs <;>
    grind [State.setW, State.setS, RunPc.lockW, RunPc.lockR, preGe, carriedGe, bufGe, pendRun, mem_erase_of_ne',
      WPc.registered]

theorem woken_wSub {v s s'} (k : Nat) (hn : v.nbNotify = true) (hA : InvA s) (hE : InvE s) (hR : InvR s) (h : Woken s)
    (hs : step v s (.wSub k) = some s') : Woken s' := by
  unfold Woken at *
  obtain ⟨l1, l2, l3, l4, vWl, vLoop, vPut, fresh, cap1⟩ := hA
  obtain ⟨putEmpty, kept⟩ := hE
  obtain ⟨idLe, uniq, reg, unreg, regPos⟩ := hR
  step_cases hs <;>
    grind [State.setW, State.setS, RunPc.lockW, RunPc.lockR, preGe, carriedGe, bufGe, pendRun, mem_erase_of_ne',
      WPc.registered]

theorem woken_wDeadline {v s s'} (k : Nat) (hn : v.nbNotify = true) (hA : InvA s) (hE : InvE s) (hR : InvR s) (h : Woken s)
    (hs : step v s (.wDeadline k) = some s') : Woken s' := by
  unfold Woken at *
  obtain ⟨l1, l2, l3, l4, vWl, vLoop, vPut, fresh, cap1⟩ := hA
  obtain ⟨putEmpty, kept⟩ := hE
  obtain ⟨idLe, uniq, reg, unreg, regPos⟩ := hR
  step_cases hs <;>
    grind [State.setW, State.setS, RunPc.lockW, RunPc.lockR, preGe, carriedGe, bufGe, pendRun, mem_erase_of_ne',
      WPc.registered]

theorem woken_wFire {v s s'} (k : Nat) (hn : v.nbNotify = true) (hA : InvA s) (hE : InvE s) (hR : InvR s) (h : Woken s)
    (hs : step v s (.wFire k) = some s') : Woken s' := by
  unfold Woken at *
  obtain ⟨l1, l2, l3, l4, vWl, vLoop, vPut, fresh, cap1⟩ := hA
  obtain ⟨putEmpty, kept⟩ := hE
  obtain ⟨idLe, uniq, reg, unreg, regPos⟩ := hR
  step_cases hs <;>
    grind [State.setW, State.setS, RunPc.lockW, RunPc.lockR, preGe, carriedGe, bufGe, pendRun, mem_erase_of_ne',
      WPc.registered]

theorem woken_wCancel {v s s'} (k : Nat) (hn : v.nbNotify = true) (hA : InvA s) (hE : InvE s) (hR : InvR s) (h : Woken s)
    (hs : step v s (.wCancel k) = some s') : Woken s' := by
  unfold Woken at *
  obtain ⟨l1, l2, l3, l4, vWl, vLoop, vPut, fresh, cap1⟩ := hA
  obtain ⟨putEmpty, kept⟩ := hE
  obtain ⟨idLe, uniq, reg, unreg, regPos⟩ := hR
  step_cases hs <;>
    grind [State.setW, State.setS, RunPc.lockW, RunPc.lockR, preGe, carriedGe, bufGe, pendRun, mem_erase_of_ne',
      WPc.registered]

theorem woken_wUnsub {v s s'} (k : Nat) (hn : v.nbNotify = true) (hA : InvA s) (hE : InvE s) (hR : InvR s) (h : Woken s)
    (hs : step v s (.wUnsub k) = some s') : Woken s' := by
  unfold Woken at *
  obtain ⟨l1, l2, l3, l4, vWl, vLoop, vPut, fresh, cap1⟩ := hA
  obtain ⟨putEmpty, kept⟩ := hE
  obtain ⟨idLe, uniq, reg, unreg, regPos⟩ := hR
  step_cases hs <;>
    grind [State.setW, State.setS, RunPc.lockW, RunPc.lockR, preGe, carriedGe, bufGe, pendRun, mem_erase_of_ne',
      WPc.registered]

theorem woken_setAlive {v s s'} (k : Nat) (b : Bool) (hn : v.nbNotify = true) (hA : InvA s) (hE : InvE s) (hR : InvR s) (h : Woken s)
    (hs : step v s (.setAlive k b) = some s') : Woken s' := by
  unfold Woken at *
  obtain ⟨l1, l2, l3, l4, vWl, vLoop, vPut, fresh, cap1⟩ := hA
  obtain ⟨putEmpty, kept⟩ := hE
  obtain ⟨idLe, uniq, reg, unreg, regPos⟩ := hR
  step_cases hs <;>
    grind [State.setW, State.setS, RunPc.lockW, RunPc.lockR, preGe, carriedGe, bufGe, pendRun, mem_erase_of_ne',
      WPc.registered]

theorem woken_setRtt {v s s'} (k : Nat) (r : Int) (hn : v.nbNotify = true) (hA : InvA s) (hE : InvE s) (hR : InvR s) (h : Woken s)
    (hs : step v s (.setRtt k r) = some s') : Woken s' := by
  unfold Woken at *
  obtain ⟨l1, l2, l3, l4, vWl, vLoop, vPut, fresh, cap1⟩ := hA
  obtain ⟨putEmpty, kept⟩ := hE
  obtain ⟨idLe, uniq, reg, unreg, regPos⟩ := hR
  step_cases hs <;>
    grind [State.setW, State.setS, RunPc.lockW, RunPc.lockR, preGe, carriedGe, bufGe, pendRun, mem_erase_of_ne',
      WPc.registered]

/-- an action that touches neither the pipeline nor the choice and keeps every waiter that is in its select in its
select with the same id and target: `Woken` is carried over by the stage lemma `good_step` -/
theorem woken_via_good {v s a s'} (hn : v.nbNotify = true) (hA : InvA s) (hE : InvE s) (h : Woken s)
    (hs : step v s a = some s') (hne : ∀ i, a ≠ .wFire i ∧ a ≠ .wCancel i)
    (hfr : s'.setters = s.setters ∧ s'.upd = s.upd ∧ s'.heads = s.heads ∧ s'.best = s.best ∧
      ∀ c t, pendRun s'.run c t = pendRun s.run c t)
    (hback : ∀ (i : Nat) (w' : Waiter), s'.waiters[i]? = some w' → w'.pc = .sel →
      ∃ w, s.waiters[i]? = some w ∧ w.pc = .sel ∧ w.wid = w'.wid ∧ w.target = w'.target) : Woken s' := by
  obtain ⟨f1, f2, f3, f4, f5⟩ := hfr
  intro i w' c hw' hp' hwid' hb' hle'
  obtain ⟨w, hw, hp, hwid, htg⟩ := hback i w' hw' hp'
  rw [f4] at hb'; rw [f3, ← htg] at hle'
  rcases h i w c hw hp (by rw [hwid]; exact hwid') hb' hle' with h1 | h2
  · left
    have hg : Good s i := by
      intro w0 hw0
      rw [hw] at hw0; cases hw0
      refine Or.inl ⟨hp, ?_⟩
      simp only [Bool.or_eq_true] at h1 ⊢
      rcases h1 with (h1 | h1) | h1
      · exact Or.inr h1
      · exact Or.inl (Or.inr h1)
      · exact Or.inl (Or.inl h1)
    rcases good_step hn hA hE i hg hs (hne i) w' hw' with ⟨_, hst⟩ | hl | hd
    · rw [← htg]
      simp only [Bool.or_eq_true] at hst ⊢
      rw [htg]
      rcases hst with (h1 | h1) | h1
      · exact Or.inr h1
      · exact Or.inl (Or.inr h1)
      · exact Or.inl (Or.inl h1)
    · rw [hp'] at hl; cases hl
    · rw [hp'] at hd; cases hd
  · right
    rw [f1, f2, f5, ← htg]
    exact h2

theorem woken_nDrain {v s s'} (k : Nat) (hn : v.nbNotify = true) (hA : InvA s) (hE : InvE s) (h : Woken s)
    (hs : step v s (.nDrain k) = some s') : Woken s' := by
  refine woken_via_good hn hA hE h hs (fun i => ⟨by simp, by simp⟩) ?_ ?_
  · step_cases hs <;> simp_all [State.setW, pendRun]
  · step_cases hs <;> grind [State.setW]

theorem woken_nPut {v s s'} (hn : v.nbNotify = true) (hA : InvA s) (hE : InvE s) (h : Woken s)
    (hs : step v s .nPut = some s') : Woken s' := by
  refine woken_via_good hn hA hE h hs (fun i => ⟨by simp, by simp⟩) ?_ ?_
  · step_cases hs <;> simp_all [State.setW, pendRun]
  · step_cases hs <;> grind [State.setW]

theorem woken_wRecv {v s s'} (k : Nat) (hn : v.nbNotify = true) (hA : InvA s) (hE : InvE s) (h : Woken s)
    (hs : step v s (.wRecv k) = some s') : Woken s' := by
  refine woken_via_good hn hA hE h hs (fun i => ⟨by simp, by simp⟩) ?_ ?_
  · step_cases hs <;> simp [State.setW]
  · step_cases hs <;> grind [State.setW]

/-- the store step of a refresh: nothing changes, or the choice moves to a member whose (snapshot) head is offered
to every registered waiter; what the member stored after the snapshot is still in the pipeline (`Fresh`) -/
theorem woken_ubSet {v s s'} (hsw : v.notifySwitch = true) (hone : v.oneSnapshot = true)
    (hR : InvR s) (hL : InvL s) (hS : InvS s) (hF : Fresh s) (h : Woken s)
    (hs : step v s .ubSet = some s') : Woken s' := by
  simp only [step] at hs
  split at hs
  · rename_i n seqs rts acc hrun
    have hcar : ∀ i t, carriedGe s.run i t = false := by intro i t; simp [hrun, carriedGe]
    have hpre : ∀ i t, preGe s.run i t = false := by intro i t; simp [hrun, preGe]
    have hprn : ∀ c t, pendRun s.run c t = false := by intro c t; simp [hrun, pendRun]
    -- with an unchanged choice nothing that `Woken` looks at changes
    have same : ∀ (r : RunPc) (rw : RW), (∀ i t, carriedGe r i t = false) → (∀ i t, preGe r i t = false) →
        (∀ c t, pendRun r c t = false) → Woken { s with run := r, rw := rw } := by
      intro r rw h1 h2 h3 i w c hw hp hwid hb hle
      rcases h i w c hw hp hwid hb hle with hh | hh | hh | hh
      · left; simpa [hcar, hpre, h1, h2] using hh
      · exact Or.inr (Or.inl hh)
      · exact Or.inr (Or.inr (Or.inl hh))
      · rw [hprn] at hh; cases hh
    split at hs
    · split at hs
      · cases hs
        exact same .idle .free (by intro i t; rfl) (by intro i t; rfl) (by intro c t; rfl)
      · rename_i c hsel
        -- the chosen member and what the refresh read from it
        obtain ⟨k, hk⟩ := List.mem_iff_getElem?.mp (selectWith_mem hsel)
        have hid : c.id = k := ((hL.selOk n seqs rts acc hrun).2.2 k c hk).1
        have hsq : seqs[k]? = some c.seqno := (hS.selLen n seqs rts acc hrun).2.2 k c hk
        -- a registered waiter whose target the new choice has reached but the snapshot has not
        have late : ∀ (i : Nat) (w : Waiter), s.waiters[i]? = some w → c.seqno.toNat < w.target →
            w.target ≤ s.heads.getD k 0 → pendSetL s.setters k w.target ∨ pendUpdL s.upd k w.target :=
          fun i w _ hlt hle => hF seqs (by simp [hrun, runSeqs]) k c.seqno w.target hsq hlt hle
        by_cases hbest : s.best = some c.id
        · -- no switch
          have : s' = { s with run := .idle, rw := .free } ∨
              s' = { s with best := some c.id, run := .idle, rw := .free } := by
            split at hs <;> cases hs
            · rename_i hc; exact absurd hbest hc.2.1
            · exact Or.inr rfl
          have hs' : s' = { s with run := .idle, rw := .free } := by
            rcases this with h1 | h1
            · exact h1
            · rw [h1]; cases s; simp_all
          rw [hs']
          exact same .idle .free (by intro i t; rfl) (by intro i t; rfl) (by intro c t; rfl)
        · split at hs
          · -- switch with notification: Run starts handing the snapshot head out
            cases hs
            intro i w c0 hw hp hwid hb hle
            simp only [Option.some.injEq] at hb
            subst hb
            rw [hid] at hle ⊢
            by_cases hge : w.target ≤ c.seqno.toNat
            · left
              have hmem : i ∈ s.waitList.map (·.2) :=
                List.mem_map.mpr ⟨(w.wid, i), hR.reg i w hw (by simp [hp, WPc.registered]) hwid, rfl⟩
              simp [preGe, hmem, hge]
            · rcases late i w hw (by omega) hle with q | q
              · exact Or.inr (Or.inl q)
              · exact Or.inr (Or.inr (Or.inl q))
          · -- switch without notification: the snapshot head is 0
            rename_i hnn
            cases hs
            have hz : c.seqno.toNat = 0 := by
              have : ¬ (0 < c.seqno.toNat) := fun hpos => hnn ⟨hsw, hbest, hpos⟩
              omega
            intro i w c0 hw hp hwid hb hle
            simp only [Option.some.injEq] at hb
            subst hb
            rw [hid] at hle ⊢
            have hpos := hR.regPos i w hw hwid
            rcases late i w hw (by omega) hle with q | q
            · exact Or.inr (Or.inl q)
            · exact Or.inr (Or.inr (Or.inl q))
    · cases hs
  · cases hs

/-- **no lost wake-up is an invariant** of the repaired code -/
theorem woken_step {v s a s'} (hn : v.nbNotify = true) (hsw : v.notifySwitch = true) (hone : v.oneSnapshot = true)
    (hA : InvA s) (hE : InvE s) (hR : InvR s) (hL : InvL s) (hS : InvS s) (hF : Fresh s)
    (h : Woken s) (hs : step v s a = some s') : Woken s' := by
  cases a with
  | tick => exact woken_tick hn hA hE hR h hs
  | ubLock => exact woken_ubLock hn hA hE hR h hs
  | ubRead => exact woken_ubRead hn hA hE hR h hs
  | ubSel => exact woken_ubSel hn hA hE hR h hs
  | ubSet => exact woken_ubSet hsw hone hR hL hS hF h hs
  | recv => exact woken_recv h hs
  | nRLock => exact woken_nRLock hn hA hE hR h hs
  | nCheck => exact woken_nCheck hn hA hE hR h hs
  | nSend k => exact woken_nSend k hn hA hE hR h hs
  | nDrain k => exact woken_nDrain k hn hA hE h hs
  | nPut => exact woken_nPut hn hA hE h hs
  | nDone => exact woken_nDone hn hA hE hR h hs
  | wLock k => exact woken_wLock k hn hA hE hR h hs
  | wSub k => exact woken_wSub k hn hA hE hR h hs
  | wRecv k => exact woken_wRecv k hn hA hE h hs
  | wDeadline k => exact woken_wDeadline k hn hA hE hR h hs
  | wFire k => exact woken_wFire k hn hA hE hR h hs
  | wCancel k => exact woken_wCancel k hn hA hE hR h hs
  | wUnsub k => exact woken_wUnsub k hn hA hE hR h hs
  | sLock j => exact woken_sLock j h hs
  | sSend j => exact woken_sSend j h hs
  | setAlive k b => exact woken_setAlive k b hn hA hE hR h hs
  | setRtt k r => exact woken_setRtt k r hn hA hE hR h hs

theorem woken_init (heads best targets pubs st rtts) : Woken (mkInit heads best targets pubs st rtts) := by
  intro i w c hw hp
  have := mkInit_waiter hw
  rw [this.1] at hp; cases hp

/-- all the invariants `Woken` needs, together -/
theorem reachable_woken {v s} (hn : v.nbNotify = true) (hsw : v.notifySwitch = true) (hone : v.oneSnapshot = true)
    (h : Reachable v s) : Woken s ∧ Fresh s := by
  induction h with
  | init heads best targets pubs st rtts hp hh hb =>
    exact ⟨woken_init heads best targets pubs st rtts, fresh_init heads best targets pubs st rtts⟩
  | step hr hs ih =>
    exact ⟨woken_step hn hsw hone (reachable_invA hr) (reachable_invE hr) (reachable_invR hr) (reachable_invL hr)
      (reachable_invS hone hr) ih.2 ih.1 hs, fresh_step (reachable_bound32 hr) (reachable_invL hr) ih.2 hs⟩

end Tongo.PoolSM
