import TongoProofs.Lemmas.CellSeqSim
/-! The reference structure of a heap is well formed under all cell-level operations, and `CopyRemaining`'s two internal
`panic(err)` calls cannot fire — also with sharing and self references. Generic in the bit representation. -/
namespace Tongo.CellSeq
open Tongo

variable {β : Type}

/-- well-formed reference structure: at most four references per cell, cursor within them, references point into the heap -/
def WFH (h : List (GCell β)) : Prop :=
  ∀ (i : Nat) (c : GCell β), h[i]? = some c →
    c.refs.length ≤ 4 ∧ c.refCursor ≤ c.refs.length ∧ ∀ id ∈ c.refs, id < h.length

theorem WFH.set {h : List (GCell β)} (hw : WFH h) (i : Nat) (c : GCell β)
    (hc : c.refs.length ≤ 4 ∧ c.refCursor ≤ c.refs.length ∧ ∀ id ∈ c.refs, id < h.length) : WFH (h.set i c) := by
  intro j d hd
  rw [List.getElem?_set] at hd
  rw [List.length_set]
  by_cases hij : i = j
  · simp only [hij, if_true] at hd
    split at hd
    · cases hd; exact hc
    · cases hd
  · simp only [hij, if_false] at hd
    exact hw j d hd

theorem WFH.append {h : List (GCell β)} (hw : WFH h) (c : GCell β) (hc : c.refs = []) (hk : c.refCursor = 0) :
    WFH (h ++ [c]) := by
  intro j d hd
  rw [List.getElem?_append] at hd
  rw [List.length_append]
  by_cases hj : j < h.length
  · simp only [hj, if_true] at hd
    obtain ⟨a, b, e⟩ := hw j d hd
    exact ⟨a, b, fun id hid => by have := e id hid; omega⟩
  · simp only [hj, if_false] at hd
    cases hk' : j - h.length with
    | zero =>
      rw [hk'] at hd; simp at hd; subst hd
      simp [hc, hk]
    | succ k => rw [hk'] at hd; simp at hd

variable (I : BitsI β)

theorem addRefH_wf {h : List (GCell β)} (hw : WFH h) (t child : Nat) :
    WFH (addRefH h t child).2 ∧ (addRefH h t child).2.length = h.length := by
  unfold addRefH
  cases hc : h[t]? with
  | none => exact ⟨hw, rfl⟩
  | some c =>
    simp only
    by_cases h1 : child ≥ h.length
    · rw [if_pos h1]; exact ⟨hw, rfl⟩
    · rw [if_neg h1]
      by_cases h2 : c.refs.length < 4
      · rw [if_pos h2]
        obtain ⟨a, b, e⟩ := hw t c hc
        refine ⟨hw.set t _ ⟨by simp; omega, by simp; omega, ?_⟩, by simp⟩
        intro id hid
        simp only [List.mem_append, List.mem_singleton] at hid
        rcases hid with hid | hid
        · exact e id hid
        · omega
      · rw [if_neg h2]; exact ⟨hw, rfl⟩

theorem nextRefH_wf {h : List (GCell β)} (hw : WFH h) (t : Nat) :
    WFH (nextRefH I h t).2 ∧ (nextRefH I h t).2.length = h.length := by
  unfold nextRefH
  cases hc : h[t]? with
  | none => exact ⟨hw, rfl⟩
  | some c =>
    simp only
    obtain ⟨a, b, e⟩ := hw t c hc
    by_cases h1 : c.refCursor > 3
    · rw [if_pos h1]; exact ⟨hw, rfl⟩
    · rw [if_neg h1]
      cases hid : c.refs[c.refCursor]? with
      | none => exact ⟨hw, rfl⟩
      | some id =>
        simp only
        have hlt : c.refCursor < c.refs.length := (List.getElem?_eq_some_iff.mp hid).1
        have hw1 : WFH (h.set t { c with refCursor := c.refCursor + 1 }) :=
          hw.set t _ ⟨a, by simp only; omega, e⟩
        cases hch : (h.set t { c with refCursor := c.refCursor + 1 })[id]? with
        | none => exact ⟨hw1, by simp⟩
        | some ch =>
          simp only
          obtain ⟨a', b', e'⟩ := hw1 id ch hch
          exact ⟨hw1.set id _ ⟨a', Nat.zero_le _, e'⟩, by simp⟩

/-- the reference loop of `CopyRemaining` never reaches its panics -/
theorem copyLoop_ok (k : Nat) : ∀ (h : List (GCell β)) (t newId : Nat) (c n : GCell β), WFH h →
    h[t]? = some c → h[newId]? = some n → t ≠ newId → newId ∉ c.refs →
    k ≤ c.refs.length - c.refCursor → n.refs.length + k ≤ 4 →
    (copyLoop I k h t newId).1 = .ok () ∧ WFH (copyLoop I k h t newId).2 ∧
      (copyLoop I k h t newId).2.length = h.length ∧
      ∃ c', (copyLoop I k h t newId).2[t]? = some c' ∧ c'.refs = c.refs := by
  induction k with
  | zero => intro h t newId c n hw hc _ _ _ _ _; exact ⟨rfl, hw, rfl, c, hc, rfl⟩
  | succ k ih =>
    intro h t newId c n hw hc hn hne hnot hk hn4
    obtain ⟨a, b, e⟩ := hw t c hc
    have hlt : c.refCursor < c.refs.length := by omega
    have h3 : ¬ c.refCursor > 3 := by omega
    have hid : c.refs[c.refCursor]? = some c.refs[c.refCursor] := List.getElem?_eq_getElem hlt
    generalize hidv : c.refs[c.refCursor] = id at hid
    have hidmem : id ∈ c.refs := by rw [← hidv]; exact List.getElem_mem hlt
    have hidlt : id < h.length := e id hidmem
    have hidne : id ≠ newId := fun h' => hnot (h' ▸ hidmem)
    have htlt : t < h.length := (List.getElem?_eq_some_iff.mp hc).1
    -- the heap after NextRef
    have hnr := nextRefH_wf I hw t
    have hnext : nextRefH I h t = (.ok id,
        match (h.set t { c with refCursor := c.refCursor + 1 })[id]? with
        | some ch => (h.set t { c with refCursor := c.refCursor + 1 }).set id { ch with bits := I.reset ch.bits, refCursor := 0 }
        | none => h.set t { c with refCursor := c.refCursor + 1 }) := by
      simp only [nextRefH, hc, h3, if_false, hid]
      rfl
    rw [hnext] at hnr
    simp only at hnr
    have hch : ∃ ch, (h.set t { c with refCursor := c.refCursor + 1 })[id]? = some ch :=
      ⟨_, List.getElem?_eq_getElem (by simp; exact hidlt)⟩
    obtain ⟨ch, hch⟩ := hch
    rw [hch] at hnext hnr
    simp only at hnext hnr
    generalize hh1 : ((h.set t { c with refCursor := c.refCursor + 1 }).set id
      { ch with bits := I.reset ch.bits, refCursor := 0 }) = h1 at hnext hnr
    -- the target and the new cell in h1
    have ht1 : ∃ c1, h1[t]? = some c1 ∧ c1.refs = c.refs ∧ k ≤ c1.refs.length - c1.refCursor := by
      rw [← hh1, List.getElem?_set]
      by_cases hit : id = t
      · subst hit
        have hch' : ch = { c with refCursor := c.refCursor + 1 } := by
          rw [List.getElem?_set] at hch
          simp only [if_true, htlt] at hch
          cases hch; rfl
        simp only [if_true, List.length_set, htlt]
        exact ⟨_, rfl, by rw [hch'], by rw [hch']; simp only; omega⟩
      · simp only [hit, if_false, List.getElem?_set, if_true, htlt]
        exact ⟨_, rfl, rfl, by simp only; omega⟩
    have hn1 : h1[newId]? = some n := by
      rw [← hh1, List.getElem?_set]
      have : ¬ id = newId := hidne
      simp only [this, if_false, List.getElem?_set, hne, hn]
    obtain ⟨c1, hc1, hrefs1, hk1⟩ := ht1
    -- AddRef on the new cell
    have hidlt1 : ¬ id ≥ h1.length := by rw [hnr.2]; omega
    have hn4' : n.refs.length < 4 := by omega
    have hadd : addRefH h1 newId id = (.ok (), h1.set newId { n with refs := n.refs ++ [id] }) := by
      simp only [addRefH, hn1, hidlt1, if_false, hn4', if_true]
    have haw := addRefH_wf hnr.1 newId id
    rw [hadd] at haw
    simp only at haw
    simp only [copyLoop, hnext, hadd]
    have hc2 : (h1.set newId { n with refs := n.refs ++ [id] })[t]? = some c1 := by
      rw [List.getElem?_set]
      have : ¬ newId = t := fun h' => hne h'.symm
      simp only [this, if_false, hc1]
    have hn2 : (h1.set newId { n with refs := n.refs ++ [id] })[newId]? = some { n with refs := n.refs ++ [id] } := by
      rw [List.getElem?_set]
      have : newId < h1.length := (List.getElem?_eq_some_iff.mp hn1).1
      simp only [if_true, this]
    obtain ⟨r1, r2, r3, c', r4, r5⟩ := ih _ t newId c1 _ haw.1 hc2 hn2 hne (by rw [hrefs1]; exact hnot) hk1
      (by simp only [List.length_append, List.length_singleton]; omega)
    exact ⟨r1, r2, by rw [r3, haw.2, hnr.2], c', r4, by rw [r5, hrefs1]⟩

/-- one step never panics and keeps the reference structure well formed, provided the bit operation does not panic and
the unread bits fit into a cell -/
theorem step_no_panic {h : List (GCell β)} (hw : WFH h) (t : Nat) (op : CellOp)
    (hbit : ∀ z c, op = .bit z → h[t]? = some c → ∀ p, (I.runOp z c.bits).1 ≠ .panic p)
    (hlen : ∀ c, h[t]? = some c → ∃ b, I.remaining c.bits = .ok b ∧ I.len b ≤ cellBits) :
    (∀ p, (step I h t op).1 ≠ .panic p) ∧ WFH (step I h t op).2 := by
  have onCell_ok : ∀ (f : GCell β → Outcome Out × GCell β),
      (∀ c, h[t]? = some c → (∀ p, (f c).1 ≠ .panic p) ∧ (f c).2.refs = c.refs ∧ (f c).2.refCursor ≤ c.refs.length) →
      (∀ p, (onCell h t f).1 ≠ .panic p) ∧ WFH (onCell h t f).2 := by
    intro f hf
    unfold onCell
    cases hc : h[t]? with
    | none => exact ⟨(fun p hp => by cases hp), hw⟩
    | some c =>
      obtain ⟨a, b, e⟩ := hw t c hc
      obtain ⟨f1, f2, f3⟩ := hf c hc
      exact ⟨f1, hw.set t _ ⟨by rw [f2]; exact a, by rw [f2]; exact f3, by rw [f2]; exact e⟩⟩
  cases op with
  | bit z =>
    simp only [step]
    apply onCell_ok
    intro c hc
    exact ⟨hbit z c rfl hc, rfl, (hw t c hc).2.1⟩
  | newCell =>
    simp only [step]
    exact ⟨(fun p hp => by cases hp), hw.append (freshCell I) rfl rfl⟩
  | addRef child =>
    simp only [step]
    have := addRefH_wf hw t child
    rcases ha : addRefH h t child with ⟨r, h'⟩
    rw [ha] at this
    cases r with
    | ok u => exact ⟨(fun p hp => by cases hp), this.1⟩
    | err e => exact ⟨(fun p hp => by cases hp), this.1⟩
    | panic p =>
      exfalso
      unfold addRefH at ha
      cases hc : h[t]? with
      | none => rw [hc] at ha; cases ha
      | some c =>
        rw [hc] at ha
        simp only at ha
        split at ha
        · cases ha
        · split at ha <;> cases ha
  | newRef =>
    simp only [step]
    cases hc : h[t]? with
    | none => exact ⟨(fun p hp => by cases hp), hw⟩
    | some c =>
      simp only
      have hw0 : WFH (h ++ [freshCell I]) := hw.append (freshCell I) rfl rfl
      have := addRefH_wf hw0 t h.length
      rcases ha : addRefH (h ++ [freshCell I]) t h.length with ⟨r, h'⟩
      rw [ha] at this
      cases r with
      | ok u => exact ⟨(fun p hp => by cases hp), this.1⟩
      | err e => exact ⟨(fun p hp => by cases hp), this.1⟩
      | panic p =>
        exfalso
        unfold addRefH at ha
        cases hc' : (h ++ [freshCell I])[t]? with
        | none => rw [hc'] at ha; cases ha
        | some c' =>
          rw [hc'] at ha
          simp only at ha
          split at ha
          · cases ha
          · split at ha <;> cases ha
  | nextRef =>
    simp only [step]
    have := nextRefH_wf I hw t
    rcases ha : nextRefH I h t with ⟨r, h'⟩
    rw [ha] at this
    cases r with
    | ok u => exact ⟨(fun p hp => by cases hp), this.1⟩
    | err e => exact ⟨(fun p hp => by cases hp), this.1⟩
    | panic p =>
      exfalso
      unfold nextRefH at ha
      cases hc : h[t]? with
      | none => rw [hc] at ha; cases ha
      | some c =>
        rw [hc] at ha
        simp only at ha
        split at ha
        · cases ha
        · split at ha <;> cases ha
  | resetCounters =>
    simp only [step]
    apply onCell_ok
    intro c _
    exact ⟨(fun p hp => by cases hp), rfl, Nat.zero_le _⟩
  | copyRemaining =>
    simp only [step]
    unfold copyRemainingH
    cases hc : h[t]? with
    | none => exact ⟨(fun p hp => by cases hp), hw⟩
    | some c =>
      simp only
      obtain ⟨rb, hrb, hl⟩ := hlen c hc
      rw [hrb]
      simp only
      have hnl : ¬ I.len rb > cellBits := by omega
      rw [if_neg hnl]
      obtain ⟨a, b, e⟩ := hw t c hc
      have htlt : t < h.length := (List.getElem?_eq_some_iff.mp hc).1
      have hw0 : WFH (h ++ [{ bits := rb, refs := [], refCursor := 0 }]) := hw.append _ rfl rfl
      have hc0 : (h ++ [{ bits := rb, refs := [], refCursor := 0 }])[t]? = some c := by
        rw [List.getElem?_append_left htlt]; exact hc
      have hn0 : (h ++ [{ bits := rb, refs := [], refCursor := 0 }])[h.length]?
          = some { bits := rb, refs := [], refCursor := 0 } := by
        rw [List.getElem?_append_right (Nat.le_refl _)]; simp
      obtain ⟨r1, r2, r3, c', r4, r5⟩ := copyLoop_ok I (c.refs.length - c.refCursor) _ t h.length c _ hw0 hc0 hn0
        (by omega) (fun hm => by have := e _ hm; omega) (Nat.le_refl _) (by simp only [List.length_nil]; omega)
      obtain ⟨r, h1, hl1⟩ : ∃ r h1, copyLoop I (c.refs.length - c.refCursor)
        (h ++ [{ bits := rb, refs := [], refCursor := 0 }]) t h.length = (r, h1) := ⟨_, _, rfl⟩
      rw [hl1] at r1 r2 r3 r4
      simp only at r1 r2 r3 r4
      subst r1
      simp only [hl1, r4]
      obtain ⟨a', b', e'⟩ := r2 t c' r4
      exact ⟨(fun p hp => by cases hp), r2.set t _ ⟨a', by rw [r5]; exact b, e'⟩⟩
  | refsSize =>
    simp only [step]
    apply onCell_ok
    intro c hc
    exact ⟨(fun p hp => by cases hp), rfl, (hw t c hc).2.1⟩
  | refsAvailableForRead =>
    simp only [step]
    apply onCell_ok
    intro c hc
    exact ⟨(fun p hp => by cases hp), rfl, (hw t c hc).2.1⟩
  | bitsAvailableForRead =>
    simp only [step]
    apply onCell_ok
    intro c hc
    exact ⟨(fun p hp => by cases hp), rfl, (hw t c hc).2.1⟩
  | bitsAvailableForWrite =>
    simp only [step]
    apply onCell_ok
    intro c hc
    exact ⟨(fun p hp => by cases hp), rfl, (hw t c hc).2.1⟩

end Tongo.CellSeq
