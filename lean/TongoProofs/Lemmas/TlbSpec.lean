import TongoModel.Tlb.Agree
import TongoProofs.Lemmas.TlbPrims
/-! C04: the implementation model writes what the schema prescribes. Fuel monotonicity of the spec encoder, the
primitive facts, and the soundness of the descriptor/schema matcher. -/
namespace Tongo.Tlb.Spec
open Tongo Tongo.Tlb Tongo.Bits

theorem map_some_inv {α β} {o : Option α} {g : α → β} {c : β} (h : o.map g = some c) : ∃ a, o = some a ∧ g a = c := by
  cases o with
  | none => cases h
  | some a => exact ⟨a, rfl, by simpa using h⟩

/-! one-step unfoldings of the spec encoder at the recursive nodes, for values of the right shape -/
theorem specChunk_maybe_some (senv : SEnv) (f : Nat) (t : SType) (x : Val) :
    specChunk senv (f + 1) (.maybe t) (.cons x .nil) = (specChunk senv f t x).map fun c => (true :: c.1, c.2) := rfl
theorem specChunk_maybe_none (senv : SEnv) (f : Nat) (t : SType) :
    specChunk senv (f + 1) (.maybe t) .none = some ([false], []) := rfl
theorem specChunk_either_R (senv : SEnv) (f : Nat) (l r : SType) (x : Val) :
    specChunk senv (f + 1) (.either l r) (Val.ctor "R" x) = (specChunk senv f r x).map fun c => (true :: c.1, c.2) := by
  simp [specChunk, Val.ctor]
theorem specChunk_either_L (senv : SEnv) (f : Nat) (l r : SType) (x : Val) :
    specChunk senv (f + 1) (.either l r) (Val.ctor "L" x) = (specChunk senv f l x).map fun c => (false :: c.1, c.2) := by
  simp [specChunk, Val.ctor]
theorem specChunk_ref (senv : SEnv) (f : Nat) (t : SType) (v : Val) :
    specChunk senv (f + 1) (.ref t) v = (specChunk senv f t v).map fun c => ([], [Cell.mk 0 0 c.1 c.2]) := rfl
theorem specChunk_seq (senv : SEnv) (f : Nat) (fs : SFields) (v : Val) :
    specChunk senv (f + 1) (.seq fs) v = specFields senv f fs v := rfl
theorem specChunk_sum (senv : SEnv) (f : Nat) (cs : SCtors) (name : String) (x : Val) :
    specChunk senv (f + 1) (.sum cs) (Val.ctor name x) =
      (match cs.find name with
      | some (tg, t) => (specChunk senv f t x).map fun c => (tg ++ c.1, c.2)
      | none => none) := rfl
theorem specChunk_named (senv : SEnv) (f : Nat) (n : String) (v : Val) :
    specChunk senv (f + 1) (.named n) v = (match senv n with
      | some t => specChunk senv f t v
      | none => none) := rfl
theorem specChunk_goPtr (senv : SEnv) (f : Nat) (t : SType) (x : Val) :
    specChunk senv (f + 1) (.goPtr t) (.cons x .nil) = specChunk senv f t x := rfl
theorem specChunk_chain_cons (senv : SEnv) (f : Nat) (t : SType) (x rest : Val) :
    specChunk senv (f + 1) (.chainOf t) (.cons x rest) =
      chainStep (specChunk senv f t x) rest (specChunk senv f (.chainOf t) rest) := rfl
theorem specFields_cons (senv : SEnv) (f : Nat) (n : String) (t : SType) (rest : SFields) (x vs : Val) :
    specFields senv (f + 1) (.cons n t rest) (.cons x vs) =
      (match specChunk senv f t x, specFields senv f rest vs with
      | some a, some b => some (a.app b)
      | _, _ => none) := rfl

/-- more fuel never changes a result of the spec encoder -/
theorem mapMOpt_mono {α β} (f g : α → Option β) : ∀ (l : List α) (r : List β),
    (∀ a ∈ l, ∀ b, f a = some b → g a = some b) → mapMOpt f l = some r → mapMOpt g l = some r
  | [], r, _, h => by simpa [mapMOpt] using h
  | a :: as, r, hon, h => by
    simp only [mapMOpt] at h ⊢
    cases h1 : f a with
    | none => simp [h1] at h
    | some b =>
      cases h2 : mapMOpt f as with
      | none => simp [h1, h2] at h
      | some bs =>
        rw [hon a (List.mem_cons_self ..) b h1,
          mapMOpt_mono f g as bs (fun a' ha' => hon a' (List.mem_cons_of_mem _ ha')) h2]
        simpa [h1, h2] using h

theorem specCodec_mono (vf vf' : Val → Option Chunk) (x : Val) (hv : ∀ c, vf x = some c → vf' x = some c)
    (c : Chunk) (h : (specCodec vf).enc x = .ok c) : (specCodec vf').enc x = .ok c := by
  simp only [specCodec] at h ⊢
  cases h1 : vf x with
  | none => simp [h1] at h
  | some c' =>
    rw [h1] at h
    rw [hv c' h1]
    exact h

theorem keyBits_mono (n : Nat) (o o' : Option Chunk) (h : ∀ c, o = some c → o' = some c) (kb : Hashmap.Key)
    (hk : keyBits n o = some kb) : keyBits n o' = some kb := by
  cases o with
  | none => simp [keyBits] at hk
  | some c => rw [h c rfl]; exact hk

theorem specDict_mono (n : Nat) (kf kf' vf vf' : Val → Option Chunk) (v : Val) (c : Chunk)
    (hk : ∀ x c, kf x = some c → kf' x = some c) (hv : ∀ x c, vf x = some c → vf' x = some c)
    (h : specDict n kf vf v = some c) : specDict n kf' vf' v = some c := by
  unfold specDict at h ⊢
  cases hp : dictParts v with
  | none => simp [hp] at h
  | some p =>
    obtain ⟨ks, vs⟩ := p
    simp only [hp] at h ⊢
    split at h
    · rename_i he; rw [if_pos he]; exact h
    · rename_i he; rw [if_neg he]
      cases hm : mapMOpt (fun kv => keyBits n (kf kv)) ks with
      | none => simp [hm] at h
      | some kbits =>
        rw [mapMOpt_mono _ (fun kv => keyBits n (kf' kv)) ks kbits
          (fun a _ b hb => keyBits_mono n _ _ (hk a) b hb) hm]
        simp only [hm] at h ⊢
        cases hz : zipKV kbits vs with
        | none => simp [hz] at h
        | some kvs =>
          simp only [hz] at h ⊢
          cases hmar : Hashmap.marshal (specCodec vf) n kvs with
          | ok root =>
            rw [Hashmap.marshal_mono_on (specCodec vf) (specCodec vf') n kvs root
              (fun kv _ c hc => specCodec_mono vf vf' kv.2 (hv kv.2) c hc) hmar]
            simpa [hmar] using h
          | err e => simp [hmar] at h
          | panic e => simp [hmar] at h

theorem spec_mono (senv : SEnv) : ∀ f : Nat,
    (∀ S v c, specChunk senv f S v = some c → specChunk senv (f + 1) S v = some c) ∧
    (∀ fs v c, specFields senv f fs v = some c → specFields senv (f + 1) fs v = some c)
  | 0 => ⟨fun S v c h => by simp [specChunk] at h, fun fs v c h => by simp [specFields] at h⟩
  | f + 1 => by
    obtain ⟨ihC, ihF⟩ := spec_mono senv f
    refine ⟨?_, ?_⟩
    · intro S v c h
      cases S with
      | maybe t =>
        simp only [specChunk] at h
        split at h
        · rw [specChunk_maybe_none]; exact h
        · obtain ⟨a, ha, hc⟩ := map_some_inv h
          rw [specChunk_maybe_some, ihC _ _ _ ha]; simpa using hc
        · cases h
      | either l r =>
        simp only [specChunk] at h
        split at h
        · rename_i side x
          split at h
          · rename_i hs; subst hs
            obtain ⟨a, ha, hc⟩ := map_some_inv h
            have := specChunk_either_R senv (f + 1) l r x
            simp only [Val.ctor] at this
            rw [this, ihC _ _ _ ha]; simpa using hc
          · split at h
            · rename_i hs; subst hs
              obtain ⟨a, ha, hc⟩ := map_some_inv h
              have := specChunk_either_L senv (f + 1) l r x
              simp only [Val.ctor] at this
              rw [this, ihC _ _ _ ha]; simpa using hc
            · cases h
        · cases h
      | ref t =>
        rw [specChunk_ref] at h ⊢
        obtain ⟨a, ha, hc⟩ := map_some_inv h
        rw [ihC _ _ _ ha]; simpa using hc
      | seq fs =>
        rw [specChunk_seq] at h ⊢
        exact ihF _ _ _ h
      | sum cs =>
        simp only [specChunk] at h
        split at h
        · rename_i name x
          have := specChunk_sum senv (f + 1) cs name x
          simp only [Val.ctor] at this
          rw [this]
          split at h
          · rename_i heq
            obtain ⟨a, ha, hc⟩ := map_some_inv h
            rw [heq]
            simp only
            rw [ihC _ _ _ ha]; simpa using hc
          · cases h
        · cases h
      | named n =>
        rw [specChunk_named] at h ⊢
        split at h
        · exact ihC _ _ _ h
        · cases h
      | goPtr t =>
        simp only [specChunk] at h
        split at h
        · rw [specChunk_goPtr]; exact ihC _ _ _ h
        · cases h
      | chainOf t =>
        cases v <;> try (simp [specChunk] at h; done)
        rename_i x rest
        rw [specChunk_chain_cons] at h ⊢
        cases hx : specChunk senv f t x with
        | none => simp [hx, chainStep] at h
        | some c0 =>
          rw [ihC _ _ _ hx]
          simp only [hx, chainStep] at h ⊢
          split at h
          · rename_i hr; rw [if_pos hr]; exact h
          · rename_i hr; rw [if_neg hr]
            obtain ⟨a, ha, hc⟩ := map_some_inv h
            rw [ihC _ _ _ ha]; simpa using hc
      | highloadDict =>
        simp only [specChunk] at h ⊢
        split at h
        · exact ihC _ _ _ h
        · cases h
      | hashmapE n sk st =>
        simp only [specChunk] at h ⊢
        exact specDict_mono n _ _ _ _ v c (fun x c hx => ihC _ _ _ hx) (fun x c hx => ihC _ _ _ hx) h
      | _ => simpa only [specChunk] using h
    · intro fs v c h
      cases fs with
      | nil =>
        cases v <;> simp only [specFields] at h ⊢ <;> first | exact h | cases h
      | cons n t rest =>
        cases v <;> try (simp [specFields] at h; done)
        rename_i x vs
        rw [specFields_cons] at h ⊢
        cases h1 : specChunk senv f t x with
        | none => simp [h1] at h
        | some a =>
          cases h2 : specFields senv f rest vs with
          | none => simp [h1, h2] at h
          | some b =>
            rw [ihC _ _ _ h1, ihF _ _ _ h2]
            simpa [h1, h2] using h

theorem specChunk_mono {senv : SEnv} {f g : Nat} (hfg : f ≤ g) {S v c} (h : specChunk senv f S v = some c) :
    specChunk senv g S v = some c := by
  induction hfg with
  | refl => exact h
  | step _ ih => exact (spec_mono senv _).1 _ _ _ ih

theorem specFields_mono {senv : SEnv} {f g : Nat} (hfg : f ≤ g) {fs v c} (h : specFields senv f fs v = some c) :
    specFields senv g fs v = some c := by
  induction hfg with
  | refl => exact h
  | step _ ih => exact (spec_mono senv _).2 _ _ _ ih

/-! ### primitive facts (C04): what the bit-level writers emit, for all widths and values -/

/-- **writeUint_spec**: `n` bits, big-endian, of the value (mod 2^n), for every width up to 64 -/
theorem writeUint_spec (b b' : Builder) (v n : Nat) (hn : n ≤ 64) (h : b.writeUint v n = .ok b') :
    b' = b.app (natToBits n v) [] := by
  have := Builder.writeBits_ok h
  rwa [natToBits_mod64 n v hn] at this

/-- **writeInt_spec**: two's complement, for every width 1..64 and every representable value -/
theorem writeInt_spec (b b' : Builder) (v : Int) (n : Nat) (h1 : 1 ≤ n) (hn : n ≤ 64)
    (lo : -(2 ^ (n - 1) : Int) ≤ v) (hi : v < (2 ^ (n - 1) : Int)) (h : b.writeInt v n = .ok b') :
    b' = b.app (intToBits n v) [] := by
  rw [Builder.writeInt_repr _ _ _ h1 lo hi] at h
  have := Builder.writeBits_ok h
  rwa [intBitsGo_eq n v h1 hn lo hi] at this

theorem intToBits_nonneg (n : Nat) (v : Int) (h0 : 0 ≤ v) (h1 : v < 2 ^ n) : intToBits n v = natToBits n v.toNat := by
  unfold intToBits
  rw [Int.emod_eq_of_lt h0 h1]

/-- **writeBigUint_spec**: every width, every value below 2^n -/
theorem writeBigUint_spec (b b' : Builder) (v : Int) (n : Nat) (h0 : 0 ≤ v) (h1 : v < 2 ^ n)
    (h : b.writeBigUint v n = .ok b') : b' = b.app (natToBits n v.toNat) [] := by
  simp only [Builder.writeBigUint] at h
  split at h
  · cases h
  · have := Builder.writeBits_ok h
    rwa [intToBits_nonneg n v h0 h1] at this

/-- **writeBigInt_spec**: two's complement for every width (1..257 and beyond) -/
theorem writeBigInt_spec (b b' : Builder) (v : Int) (m : Nat) (hd : -(2 ^ m : Int) ≤ v ∧ v < 2 ^ m)
    (h : b.writeBigInt v (m + 1) = .ok b') : b' = b.app (intToBits (m + 1) v) [] := by
  simp only [Builder.writeBigInt] at h
  by_cases hm : m = 0
  · subst hm
    have hi : v = -1 ∨ v = 0 := by
      have l2 : -(1 : Int) ≤ v := by simpa using hd.1
      have h2 : v < (1 : Int) := by simpa using hd.2
      omega
    rcases hi with rfl | rfl
    · have : b.writeBit true = .ok b' := by simpa using h
      exact Builder.writeBits_ok this
    · have : b.writeBit false = .ok b' := by simpa using h
      exact Builder.writeBits_ok this
  · rw [if_neg (by omega)] at h
    simp only [Nat.add_sub_cancel] at h
    have hlow : ∀ w : Int, natToBits m (w % (2 ^ m : Int)).toNat = natToBits m (v % (2 ^ m : Int)).toNat →
        intToBits m w = natToBits m (v % (2 ^ (m + 1) : Int)).toNat := by
      intro w hw
      unfold intToBits
      rw [hw, natToBits_emod v m (m + 1) (by omega)]
    unfold intToBits
    rw [natToBits, testBit_top m v hd.1 hd.2]
    by_cases hneg : v < 0
    · rw [if_pos hneg] at h
      obtain ⟨b1, hb1, he2⟩ := bind_ok_inv h
      have hb1' := Builder.writeBits_ok hb1
      simp only [Builder.writeBigUint] at he2
      split at he2
      · cases he2
      · have hb := Builder.writeBits_ok he2
        rw [hb, hb1', Builder.app_app]
        have : intToBits m (2 ^ m + v) = natToBits m (v % (2 ^ (m + 1) : Int)).toNat := by
          apply hlow
          congr 2
          rw [Int.add_comm, Int.add_emod_right]
        simp [hneg, this]
    · rw [if_neg hneg] at h
      obtain ⟨b1, hb1, he2⟩ := bind_ok_inv h
      have hb1' := Builder.writeBits_ok hb1
      simp only [Builder.writeBigUint] at he2
      split at he2
      · cases he2
      · have hb := Builder.writeBits_ok he2
        rw [hb, hb1', Builder.app_app]
        have : intToBits m v = natToBits m (v % (2 ^ (m + 1) : Int)).toNat := hlow v rfl
        simp [hneg, this]

/-- **limUint_width**: `#<= n` is written on `bitWidth n` bits (the bit length of `n`) -/
theorem limUint_width (b b' : Builder) (v n : Nat) (hn : n < 2 ^ 64) (h : b.writeLimUint v n = .ok b') :
    b' = b.app (natToBits (bitWidth n) v) [] := by
  unfold Builder.writeLimUint at h
  have hw : Builder.limBits n = bitWidth n := rfl
  rw [hw] at h
  exact writeUint_spec b b' v (bitWidth n) (by rw [← hw]; exact bitLen_le_of_lt hn) h

/-- **unary_spec**: `n` ones followed by a zero -/
theorem unary_spec (b b' : Builder) (n : Nat) (h : b.writeUnary n = .ok b') :
    b' = b.app (List.replicate n true ++ [false]) [] := by
  unfold Builder.writeUnary at h
  split at h
  · cases h; simp [Builder.app]
  · cases h

/-- **sumtag_spec**: a constructor tag is written as exactly its `len` bits, most significant first -/
theorem sumtag_spec (b b' : Builder) (tg : Tag) (hok : tg.ok = true) (h : encodeTag (some tg) b = .ok b') :
    b' = b.app (natToBits tg.len tg.val) [] := by
  simp only [Tag.ok, Bool.and_eq_true, decide_eq_true_eq] at hok
  exact writeUint_spec b b' tg.val tg.len hok.1 h

/-- **varuint_minimal**: `VarUInteger n` writes the MINIMAL byte length on `bitWidth (n-1)` bits, then that many
bytes, big-endian -/
theorem varuint_minimal (n : Nat) (i : Int) (b b' : Builder) (hn : n - 1 < 2 ^ 64) (h0 : 0 ≤ i)
    (h : Prim.encVarUint n i b = .ok b') :
    b' = b.app (natToBits (bitWidth (n - 1)) (minBytes i.toNat) ++ natToBits (minBytes i.toNat * 8) i.toNat) [] := by
  have habs : i.natAbs = i.toNat := by omega
  simp only [Prim.encVarUint, habs] at h
  obtain ⟨b1, hb1, he2⟩ := bind_ok_inv h
  have e1 := limUint_width b b1 _ _ hn hb1
  have e2 := Builder.writeBits_ok he2
  rw [e2, e1, Builder.app_app]
  rfl


/-- the implementation appended exactly the chunk the schema prescribes -/
def SpecOK (senv : SEnv) (S : SType) (v : Val) (b b' : Builder) : Prop :=
  ∃ g c, specChunk senv g S v = some c ∧ b' = b.app c.1 c.2

theorem SpecOK.leaf {senv : SEnv} {S : SType} {v : Val} {b b' : Builder} {xs : List Bool} {rs : List Cell}
    (h1 : specChunk senv 1 S v = some (xs, rs)) (h2 : b' = b.app xs rs) : SpecOK senv S v b b' :=
  ⟨1, (xs, rs), h1, h2⟩

section
variable {env : Env} {senv : SEnv}

structure SInv (env : Env) (senv : SEnv) (f : Nat) : Prop where
  enc : ∀ k T S v b b', agreeb env senv k T S = true → inDom env f T v = true →
    encode env f T v b = .ok b' → SpecOK senv S v b b'
  field : ∀ k ft T S v b b', agreeField env senv k ft T S = true → inDomField env f ft T v = true →
    encodeField env f ft T v b = .ok b' → SpecOK senv S v b b'
  fields : ∀ k fs sfs v b b', agreeFields env senv k fs sfs = true → inDomFields env f fs v = true →
    encodeFields env f fs v b = .ok b' → ∃ g c, specFields senv g sfs v = some c ∧ b' = b.app c.1 c.2

theorem SInv.zero : SInv env senv 0 :=
  ⟨fun _ _ _ _ _ _ _ hd => by simp [inDom] at hd, fun _ _ _ _ _ _ _ _ hd => by simp [inDomField] at hd,
   fun _ _ _ _ _ _ _ hd => by simp [inDomFields] at hd⟩

theorem agree_uint {f k n : Nat} {S v b b'} (ha : agreeb env senv (k + 1) (.uint n) S = true)
    (hd : inDom env (f + 1) (.uint n) v = true) (he : encode env (f + 1) (.uint n) v b = .ok b') :
    SpecOK senv S v b b' := by
  cases S <;> simp only [agreeb, Bool.false_eq_true] at ha
  rename_i m
  simp only [Bool.and_eq_true, beq_iff_eq, decide_eq_true_eq] at ha
  obtain ⟨rfl, hn⟩ := ha
  cases v <;> simp only [inDom, Bool.false_eq_true] at hd
  rename_i i
  simp only [Bool.and_eq_true, decide_eq_true_eq] at hd
  simp only [encode] at he
  refine SpecOK.leaf ?_ (writeUint_spec b b' _ n hn he)
  simp [specChunk, hd.1, hd.2]

theorem agree_int {f k n : Nat} {S v b b'} (ha : agreeb env senv (k + 1) (.int n) S = true)
    (hd : inDom env (f + 1) (.int n) v = true) (he : encode env (f + 1) (.int n) v b = .ok b') :
    SpecOK senv S v b b' := by
  cases S <;> simp only [agreeb, Bool.false_eq_true] at ha
  rename_i m
  simp only [Bool.and_eq_true, beq_iff_eq, decide_eq_true_eq] at ha
  obtain ⟨⟨rfl, h1⟩, hn⟩ := ha
  cases v <;> simp only [inDom, Bool.false_eq_true] at hd
  rename_i i
  simp only [Bool.and_eq_true, decide_eq_true_eq] at hd
  simp only [encode] at he
  refine SpecOK.leaf ?_ (writeInt_spec b b' i n h1 hn hd.1 hd.2 he)
  simp [specChunk, hd.1, hd.2, h1]

theorem agree_bool {f k : Nat} {S v b b'} (ha : agreeb env senv (k + 1) .bool S = true)
    (hd : inDom env (f + 1) .bool v = true) (he : encode env (f + 1) .bool v b = .ok b') :
    SpecOK senv S v b b' := by
  cases S <;> simp only [agreeb, Bool.false_eq_true] at ha
  cases v <;> simp only [inDom, Bool.false_eq_true] at hd
  rename_i x
  simp only [encode, Builder.writeBit] at he
  exact SpecOK.leaf (by simp [specChunk]) (Builder.writeBits_ok he)

theorem agree_bytes {f k n : Nat} {S v b b'} (ha : agreeb env senv (k + 1) (.bytes n) S = true)
    (hd : inDom env (f + 1) (.bytes n) v = true) (he : encode env (f + 1) (.bytes n) v b = .ok b') :
    SpecOK senv S v b b' := by
  cases S <;> simp only [agreeb, Bool.false_eq_true] at ha
  rename_i m
  simp only [beq_iff_eq] at ha
  cases v <;> simp only [inDom, Bool.false_eq_true] at hd
  rename_i bs
  simp only [beq_iff_eq] at hd
  simp only [encode, hd, ↓reduceIte, Builder.writeBytes] at he
  refine SpecOK.leaf ?_ (Builder.writeBits_ok he)
  simp [specChunk, hd, ha]

theorem app_bit_app (b : Builder) (x : Bool) (xs : List Bool) (rs : List Cell) :
    (b.app [x] []).app xs rs = b.app (x :: xs) rs := by
  rw [Builder.app_app]; simp

theorem agree_ptr {f k : Nat} (h : SInv env senv f) {m t S v b b'}
    (ha : agreeb env senv (k + 1) (.ptr m t) S = true)
    (hd : inDom env (f + 1) (.ptr m t) v = true) (he : encode env (f + 1) (.ptr m t) v b = .ok b') :
    SpecOK senv S v b b' := by
  cases S <;> simp only [agreeb, Bool.false_eq_true] at ha
  rename_i s
  simp only [inDom] at hd
  split at hd
  · rename_i x
    simp only [Bool.and_eq_true] at hd
    simp only [encode] at he
    obtain ⟨g, c, hc, hb⟩ := h.enc k t s x b b' ha hd.1 he
    exact ⟨g + 1, c, by rw [specChunk_goPtr]; exact hc, hb⟩
  · cases hd

theorem agree_named {f k : Nat} (h : SInv env senv f) {id S v b b'}
    (ha : agreeb env senv (k + 1) (.named id) S = true)
    (hd : inDom env (f + 1) (.named id) v = true) (he : encode env (f + 1) (.named id) v b = .ok b') :
    SpecOK senv S v b b' := by
  cases S <;> simp only [agreeb, Bool.false_eq_true] at ha
  rename_i n
  cases hid : env id with
  | none => simp [hid] at ha
  | some t =>
    cases hn : senv n with
    | none => simp [hid, hn] at ha
    | some s =>
      simp only [hid, hn] at ha
      simp only [inDom, hid] at hd
      simp only [encode, hid] at he
      obtain ⟨g, c, hc, hb⟩ := h.enc k t s v b b' ha hd he
      exact ⟨g + 1, c, by rw [specChunk_named, hn]; exact hc, hb⟩

theorem agree_maybe {f k : Nat} (h : SInv env senv f) {t S v b b'}
    (ha : agreeb env senv (k + 1) (.maybe t) S = true)
    (hd : inDom env (f + 1) (.maybe t) v = true) (he : encode env (f + 1) (.maybe t) v b = .ok b') :
    SpecOK senv S v b b' := by
  cases S <;> simp only [agreeb, Bool.false_eq_true] at ha
  rename_i s
  simp only [inDom] at hd
  simp only [encode] at he
  split at hd
  · simp only [Builder.writeBit] at he
    exact ⟨1, ([false], []), rfl, Builder.writeBits_ok he⟩
  · rename_i x
    obtain ⟨b1, hb1, he2⟩ := bind_ok_inv he
    have hb1' := Builder.writeBits_ok hb1
    obtain ⟨g, c, hc, hb⟩ := h.enc k t s x b1 b' ha hd he2
    refine ⟨g + 1, (true :: c.1, c.2), by rw [specChunk_maybe_some, hc]; rfl, ?_⟩
    rw [hb, hb1', app_bit_app]
  · cases hd

theorem agree_either {f k : Nat} (h : SInv env senv f) {l r S v b b'}
    (ha : agreeb env senv (k + 1) (.either l r) S = true)
    (hd : inDom env (f + 1) (.either l r) v = true) (he : encode env (f + 1) (.either l r) v b = .ok b') :
    SpecOK senv S v b b' := by
  cases S <;> simp only [agreeb, Bool.false_eq_true] at ha
  rename_i sl sr
  simp only [Bool.and_eq_true] at ha
  simp only [inDom] at hd
  simp only [encode] at he
  split at hd
  · rename_i side x
    by_cases hside : side = "R"
    · subst hside
      simp only [beq_self_eq_true, ↓reduceIte] at hd he
      obtain ⟨b1, hb1, he2⟩ := bind_ok_inv he
      have hb1' := Builder.writeBits_ok hb1
      obtain ⟨g, c, hc, hb⟩ := h.enc k r sr x b1 b' ha.2 hd he2
      have := specChunk_either_R senv g sl sr x
      simp only [Val.ctor] at this
      refine ⟨g + 1, (true :: c.1, c.2), by rw [this, hc]; rfl, ?_⟩
      rw [hb, hb1', app_bit_app]
    · have hne : (side == "R") = false := by simpa using hside
      simp only [hne, Bool.false_eq_true, ↓reduceIte, Bool.and_eq_true, beq_iff_eq] at hd
      obtain ⟨rfl, hdx⟩ := hd
      simp only [hside, ↓reduceIte] at he
      obtain ⟨b1, hb1, he2⟩ := bind_ok_inv he
      have hb1' := Builder.writeBits_ok hb1
      obtain ⟨g, c, hc, hb⟩ := h.enc k l sl x b1 b' ha.1 hdx he2
      have := specChunk_either_L senv g sl sr x
      simp only [Val.ctor] at this
      refine ⟨g + 1, (false :: c.1, c.2), by rw [this, hc]; rfl, ?_⟩
      rw [hb, hb1', app_bit_app]
  · cases hd


/-- the child cell written through a reference: what `^T` / `^Cell` prescribes -/
theorem ref_spec {f k : Nat} (h : SInv env senv f) {t : Ty} {S : SType} {v : Val} {child : Builder}
    (ha : agreeRef env senv k t S = true)
    (hd : inDom env f t v = true) (he : encode env f t v Builder.empty = .ok child) :
    ∃ g, specChunk senv g S v = some ([], [child.toCell]) := by
  cases k with
  | zero => simp [agreeRef] at ha
  | succ k =>
  simp only [agreeRef] at ha
  cases S <;> simp only [Bool.false_eq_true] at ha
  · -- ^T
    rename_i s
    obtain ⟨g, c, hc, hb⟩ := h.enc k t s v _ child ha hd he
    refine ⟨g + 1, ?_⟩
    rw [specChunk_ref, hc, hb]
    simp [Builder.empty, Builder.app, Builder.toCell]
  · -- ^Cell
    cases t <;> simp only [Ty.isCell, Bool.false_eq_true] at ha
    cases f with
    | zero => simp [inDom] at hd
    | succ f =>
      simp only [inDom] at hd
      split at hd
      · rename_i c
        simp only [encode] at he
        cases he
        exact ⟨1, by simp [specChunk, toCell_ofCell]⟩
      · cases hd

theorem agree_refT {f k : Nat} (h : SInv env senv f) {t S v b b'}
    (ha : agreeb env senv (k + 1) (.refT t) S = true)
    (hd : inDom env (f + 1) (.refT t) v = true) (he : encode env (f + 1) (.refT t) v b = .ok b') :
    SpecOK senv S v b b' := by
  simp only [agreeb] at ha
  simp only [inDom] at hd
  simp only [encode] at he
  obtain ⟨child, hc, he2⟩ := bind_ok_inv he
  have hb := Builder.addRef_ok he2
  obtain ⟨g, hg⟩ := ref_spec h ha hd hc
  exact ⟨g, _, hg, hb⟩

theorem agree_eitherRef {f k : Nat} (h : SInv env senv f) {t S v b b'}
    (ha : agreeb env senv (k + 1) (.eitherRef t) S = true)
    (hd : inDom env (f + 1) (.eitherRef t) v = true) (he : encode env (f + 1) (.eitherRef t) v b = .ok b') :
    SpecOK senv S v b b' := by
  cases S <;> simp only [agreeb, Bool.false_eq_true] at ha
  rename_i sl sr
  simp only [Bool.and_eq_true] at ha
  simp only [inDom] at hd
  simp only [encode] at he
  split at hd
  · rename_i side x
    simp only [Bool.and_eq_true, Bool.or_eq_true, beq_iff_eq] at hd
    obtain ⟨hside, hdx⟩ := hd
    by_cases hR : side = "R"
    · subst hR
      simp only [↓reduceIte] at he
      obtain ⟨b1, hb1, he2⟩ := bind_ok_inv he
      have hb1' := Builder.writeBits_ok hb1
      split at he2
      · obtain ⟨child, hc, he3⟩ := bind_ok_inv he2
        cases he3
        obtain ⟨g, hg⟩ := ref_spec h ha.2 hdx hc
        have := specChunk_either_R senv g sl sr x
        simp only [Val.ctor] at this
        refine ⟨g + 1, ([true], [child.toCell]), by rw [this, hg]; rfl, ?_⟩
        rw [hb1']; simp [Builder.app]
      · cases he2
    · have hL : side = "L" := by rcases hside with h1 | h1 <;> [exact absurd h1 hR; exact h1]
      subst hL
      simp only [hR, ↓reduceIte] at he
      obtain ⟨b1, hb1, he2⟩ := bind_ok_inv he
      have hb1' := Builder.writeBits_ok hb1
      obtain ⟨g, c, hc, hb⟩ := h.enc k t sl x b1 b' ha.1 hdx he2
      have := specChunk_either_L senv g sl sr x
      simp only [Val.ctor] at this
      refine ⟨g + 1, (false :: c.1, c.2), by rw [this, hc]; rfl, ?_⟩
      rw [hb, hb1', app_bit_app]
  · cases hd

theorem agree_struct {f k : Nat} (h : SInv env senv f) {fs S v b b'}
    (ha : agreeb env senv (k + 1) (.struct fs) S = true)
    (hd : inDom env (f + 1) (.struct fs) v = true) (he : encode env (f + 1) (.struct fs) v b = .ok b') :
    SpecOK senv S v b b' := by
  cases S <;> simp only [agreeb, Bool.false_eq_true] at ha
  rename_i sfs
  simp only [inDom] at hd
  simp only [encode] at he
  obtain ⟨g, c, hc, hb⟩ := h.fields k fs sfs v b b' ha hd he
  exact ⟨g + 1, c, by rw [specChunk_seq]; exact hc, hb⟩


theorem agreeCtors_find : ∀ (k : Nat) (cs : Ctors) (scs : SCtors) {name : String} {tg : Option Tag} {t : Ty},
    agreeCtors env senv k cs scs = true → cs.find name = some (tg, t) →
    ∃ tag bits s k', tg = some tag ∧ scs.find name = some (bits, s) ∧ tagAgrees tag bits = true ∧
      agreeb env senv k' t s = true
  | 0, _, _, _, _, _, ha, _ => by simp [agreeCtors] at ha
  | k + 1, .nil, scs, _, _, _, _, hf => by simp [Ctors.find] at hf
  | k + 1, .cons n tg0 t0 rest, .nil, _, _, _, ha, _ => by simp [agreeCtors] at ha
  | k + 1, .cons n tg0 t0 rest, .cons _ bits g s srest, name, tg, t, ha, hf => by
    simp only [agreeCtors, Bool.and_eq_true, beq_iff_eq] at ha
    obtain ⟨⟨⟨htag, hng⟩, hts⟩, hrest⟩ := ha
    simp only [Ctors.find] at hf
    by_cases hn : n = name
    · rw [if_pos hn] at hf
      cases hf
      cases tg0 with
      | none => simp at htag
      | some tag =>
        refine ⟨tag, bits, s, k, rfl, ?_, by simpa using htag, hts⟩
        simp [SCtors.find, ← hng, hn]
    · rw [if_neg hn] at hf
      obtain ⟨tag, bits', s', k', h1, h2, h3, h4⟩ := agreeCtors_find k rest srest hrest hf
      refine ⟨tag, bits', s', k', h1, ?_, h3, h4⟩
      simp [SCtors.find, ← hng, hn, h2]

theorem agree_sum {f k : Nat} (h : SInv env senv f) {cs S v b b'}
    (ha : agreeb env senv (k + 1) (.sum cs) S = true)
    (hd : inDom env (f + 1) (.sum cs) v = true) (he : encode env (f + 1) (.sum cs) v b = .ok b') :
    SpecOK senv S v b b' := by
  cases S <;> simp only [agreeb, Bool.false_eq_true] at ha
  rename_i scs
  simp only [inDom] at hd
  simp only [encode] at he
  split at hd
  · rename_i name x
    simp only [Bool.and_eq_true, bne_iff_ne, ne_eq] at hd
    obtain ⟨hne, hd2⟩ := hd
    simp only [hne, ↓reduceIte] at he
    cases hfind : cs.find name with
    | none => simp [hfind] at hd2
    | some p =>
      obtain ⟨tg, t⟩ := p
      simp only [hfind] at hd2 he
      obtain ⟨tag, bits, s, k', rfl, hsf, hta, hts⟩ := agreeCtors_find k cs scs ha hfind
      obtain ⟨b1, hb1, he2⟩ := bind_ok_inv he
      simp only [tagAgrees, Bool.and_eq_true, beq_iff_eq] at hta
      have hb1' := sumtag_spec b b1 tag hta.1 hb1
      obtain ⟨g, c, hc, hb⟩ := h.enc k' t s x b1 b' hts hd2 he2
      have := specChunk_sum senv g scs name x
      simp only [Val.ctor] at this
      refine ⟨g + 1, (bits ++ c.1, c.2), by rw [this, hsf]; simp only; rw [hc]; rfl, ?_⟩
      rw [hb, hb1', Builder.app_app, hta.2]; simp
  · cases hd

end

theorem minBytes_eq (v : Nat) : minBytes v = natBytesLen v := rfl

theorem spec_anycast (v : Val) (b b' : Builder) (hd : Prim.anycastDom v = true) (he : Prim.encAnycast v b = .ok b') :
    ∃ xs, specAnycast v = some (xs, []) ∧ b' = b.app xs [] := by
  unfold Prim.anycastDom at hd
  split at hd
  · rename_i d p
    simp only [Bool.and_eq_true, decide_eq_true_eq] at hd
    obtain ⟨⟨⟨hd1, hd30⟩, hp0⟩, hp⟩ := hd
    simp only [Prim.encAnycast] at he
    obtain ⟨b1, hb1, he2⟩ := bind_ok_inv he
    have e1 := limUint_width b b1 _ 30 (by decide) hb1
    have e2 := writeUint_spec b1 b' p.toNat d.toNat (by omega) he2
    refine ⟨natToBits (bitWidth 30) d.toNat ++ natToBits d.toNat p.toNat, ?_, by rw [e2, e1, Builder.app_app]; simp⟩
    simp [specAnycast, hd1, hd30, hp0, hp]
  · cases hd

theorem spec_maybeAnycast (v : Val) (b b' : Builder) (hd : Prim.maybeAnycastDom v = true)
    (he : Prim.encMaybeAnycast v b = .ok b') :
    ∃ xs, specMaybeAnycast v = some (xs, []) ∧ b' = b.app xs [] := by
  unfold Prim.maybeAnycastDom at hd
  split at hd
  · simp only [Prim.encMaybeAnycast, Builder.writeBit] at he
    exact ⟨[false], rfl, Builder.writeBits_ok he⟩
  · rename_i a
    simp only [Prim.encMaybeAnycast, Builder.writeBit] at he
    obtain ⟨b1, hb1, he2⟩ := bind_ok_inv he
    have hb1' := Builder.writeBits_ok hb1
    obtain ⟨xs, hs, hb⟩ := spec_anycast a b1 b' hd he2
    refine ⟨true :: xs, by simp [specMaybeAnycast, hs], by rw [hb, hb1', app_bit_app]⟩
  · cases hd

/-- **impl_eq_spec_MsgAddress**: the hand-written MsgAddress.MarshalTLB writes what the four schema constructors
prescribe -/
theorem spec_msgAddress (v : Val) (b b' : Builder) (hd : Prim.msgAddress.inDom v = true)
    (he : Prim.encMsgAddress v b = .ok b') :
    ∃ xs, specMsgAddress v = some (xs, []) ∧ b' = b.app xs [] := by
  unfold Prim.inDom at hd
  split at hd <;> try (cases hd; done)
  all_goals try (rename_i hp; cases hp; done)
  · simp only [Prim.encMsgAddress] at he
    have e := writeUint_spec b b' 0 2 (by omega) he
    exact ⟨natToBits 2 0, by simp [specMsgAddress]; decide, e⟩
  · rename_i bs _
    simp only [decide_eq_true_eq] at hd
    simp only [Prim.encMsgAddress] at he
    obtain ⟨b1, hb1, he2⟩ := bind_ok_inv he
    rw [if_neg (by omega)] at he2
    obtain ⟨b2, hb2, he3⟩ := bind_ok_inv he2
    have e1 := writeUint_spec b b1 1 2 (by omega) hb1
    have e2 := writeUint_spec b1 b2 bs.length 9 (by omega) hb2
    have e3 := Builder.writeBits_ok he3
    refine ⟨natToBits 2 1 ++ (natToBits 9 bs.length ++ bs), ?_, by
      rw [e3, e2, e1, Builder.app_app, Builder.app_app]; simp⟩
    have : bs.length < 2 ^ 9 := by omega
    simp only [specMsgAddress, this, ↓reduceIte]
    rfl
  · rename_i a wc addr _
    simp only [Bool.and_eq_true, decide_eq_true_eq, beq_iff_eq] at hd
    obtain ⟨⟨⟨hda, hwlo⟩, hwhi⟩, hlen⟩ := hd
    simp only [Prim.encMsgAddress, Builder.writeBytes] at he
    obtain ⟨b1, hb1, he2⟩ := bind_ok_inv he
    obtain ⟨b2, hb2, he3⟩ := bind_ok_inv he2
    obtain ⟨b3, hb3, he4⟩ := bind_ok_inv he3
    have e1 := writeUint_spec b b1 2 2 (by omega) hb1
    obtain ⟨xa, hsa, e2⟩ := spec_maybeAnycast a b1 b2 hda hb2
    have e3 := writeInt_spec b2 b3 wc 8 (by omega) (by omega) (by simpa using hwlo) (by simpa using hwhi) hb3
    have e4 := Builder.writeBits_ok he4
    refine ⟨natToBits 2 2 ++ (xa ++ (intToBits 8 wc ++ bytesToBits addr)), ?_, by
      rw [e4, e3, e2, e1, Builder.app_app, Builder.app_app, Builder.app_app]; simp⟩
    have hc : -(2 ^ 7 : Int) ≤ wc ∧ wc < 2 ^ 7 ∧ addr.length * 8 = 256 := ⟨by omega, by omega, by omega⟩
    simp only [specMsgAddress, hc, and_self, ↓reduceIte, hsa, Option.map_some]
    rfl
  · rename_i a len wc bs _
    simp only [Bool.and_eq_true, decide_eq_true_eq, beq_iff_eq] at hd
    obtain ⟨⟨⟨⟨hda, hl⟩, hl511⟩, hwlo⟩, hwhi⟩ := hd
    subst hl
    simp only [Prim.encMsgAddress, Int.toNat_natCast] at he
    obtain ⟨b1, hb1, he2⟩ := bind_ok_inv he
    obtain ⟨b2, hb2, he3⟩ := bind_ok_inv he2
    obtain ⟨b3, hb3, he4⟩ := bind_ok_inv he3
    obtain ⟨b4, hb4, he5⟩ := bind_ok_inv he4
    have e1 := writeUint_spec b b1 3 2 (by omega) hb1
    obtain ⟨xa, hsa, e2⟩ := spec_maybeAnycast a b1 b2 hda hb2
    have e3 := writeUint_spec b2 b3 bs.length 9 (by omega) hb3
    have e4 := writeInt_spec b3 b4 wc 32 (by omega) (by omega) (by simpa using hwlo) (by simpa using hwhi) hb4
    have e5 := Builder.writeBits_ok he5
    refine ⟨natToBits 2 3 ++ (xa ++ (natToBits 9 bs.length ++ (intToBits 32 wc ++ bs))), ?_, by
      rw [e5, e4, e3, e2, e1, Builder.app_app, Builder.app_app, Builder.app_app, Builder.app_app]; simp⟩
    have hc : bs.length < 2 ^ 9 ∧ -(2 ^ 31 : Int) ≤ wc ∧ wc < 2 ^ 31 := ⟨by omega, hwlo, hwhi⟩
    simp only [specMsgAddress, true_and, hc, and_self, ↓reduceIte, hsa, Option.map_some]
    rfl


theorem tag_w5 : tagBits "#0ec3c86d" = natToBits 32 Prim.w5Magic := by decide

theorem spec_outList : ∀ (v : Val) (b b' : Builder), Prim.w5Dom v = true → Prim.encW5Actions v b = .ok b' →
    ∃ c, specOutList v = some c ∧ b' = b.app c.1 c.2
  | .nil, b, b', _, he => by
    simp only [Prim.encW5Actions] at he; cases he
    exact ⟨([], []), rfl, by simp⟩
  | .cons (.cons .magic (.cons (.int mode) (.cons (.cons (.cell c) .nil) .nil))) rest, b, b', hd, he => by
    simp only [Prim.w5Dom, Bool.and_eq_true, decide_eq_true_eq] at hd
    obtain ⟨⟨⟨⟨_, _⟩, h0⟩, h1⟩, hr⟩ := hd
    simp only [Prim.encW5Actions] at he
    obtain ⟨b1, hb1, he⟩ := bind_ok_inv he
    obtain ⟨b2, hb2, he⟩ := bind_ok_inv he
    obtain ⟨child, hch, he⟩ := bind_ok_inv he
    obtain ⟨b3, hb3, he⟩ := bind_ok_inv he
    have e1 := writeUint_spec b b1 _ 32 (by omega) hb1
    have e2 := writeUint_spec b1 b2 _ 8 (by omega) hb2
    have e3 := Builder.addRef_ok hb3
    have e4 := Builder.addRef_ok he
    obtain ⟨pc, hpc, hcb⟩ := spec_outList rest Builder.empty child hr hch
    refine ⟨(tagBits "#0ec3c86d" ++ natToBits 8 mode.toNat, [Cell.mk 0 0 pc.1 pc.2, c]), ?_, ?_⟩
    · simp only [specOutList, h0, h1, and_self, ↓reduceIte, hpc, Option.map_some]
    · rw [e4, e3, e2, e1, hcb, tag_w5]
      simp [Builder.app, Builder.empty, Builder.toCell]
  | .int _, _, _, hd, _ => by simp [Prim.w5Dom] at hd
  | .bool _, _, _, hd, _ => by simp [Prim.w5Dom] at hd
  | .bytes _, _, _, hd, _ => by simp [Prim.w5Dom] at hd
  | .bits _, _, _, hd, _ => by simp [Prim.w5Dom] at hd
  | .cell _, _, _, hd, _ => by simp [Prim.w5Dom] at hd
  | .sym _, _, _, hd, _ => by simp [Prim.w5Dom] at hd
  | .none, _, _, hd, _ => by simp [Prim.w5Dom] at hd
  | .magic, _, _, hd, _ => by simp [Prim.w5Dom] at hd

theorem spec_payloadItems (v : Val) : ∀ (b b' : Builder), Prim.payloadDom v = true →
    Prim.encPayloadItems v b = .ok b' → ∃ c, specPayloadItems v = some c ∧ b' = b.app c.1 c.2 := by
  fun_induction Prim.payloadDom v with
  | case1 =>
    intro b b' _ he
    simp only [Prim.encPayloadItems] at he; cases he
    exact ⟨([], []), rfl, by simp⟩
  | case2 c mode rest ih =>
    intro b b' hd he
    simp only [Bool.and_eq_true, decide_eq_true_eq] at hd
    obtain ⟨⟨⟨_, hm0⟩, hm1⟩, hrest⟩ := hd
    simp only [Prim.encPayloadItems] at he
    obtain ⟨b1, hb1, he2⟩ := bind_ok_inv he
    obtain ⟨b2, hb2, he3⟩ := bind_ok_inv he2
    have e1 := writeUint_spec b b1 mode.toNat 8 (by omega) hb1
    have e2 := Builder.addRef_ok hb2
    obtain ⟨r, hr, e3⟩ := ih b2 b' hrest he3
    refine ⟨(natToBits 8 mode.toNat ++ r.1, c :: r.2), ?_, ?_⟩
    · simp [specPayloadItems, hm0, hm1, hr]
    · rw [e3, e2, e1, Builder.app_app, Builder.app_app]; simp
  | case3 v h1 h2 =>
    intro b b' hd _
    cases hd


section
variable {env : Env} {senv : SEnv}

theorem agree_prim {f : Nat} {p : Prim} {S v b b'} (ha : agreePrim p S = true)
    (hd : inDom env (f + 1) (.prim p) v = true) (he : encode env (f + 1) (.prim p) v b = .ok b') :
    SpecOK senv S v b b' := by
  simp only [inDom] at hd
  simp only [encode] at he
  unfold agreePrim at ha
  split at ha <;> try (cases ha; done)
  · -- Grams = VarUInteger 16
    rename_i n
    simp only [beq_iff_eq] at ha; subst ha
    cases v <;> simp only [Prim.inDom, Bool.false_eq_true] at hd
    rename_i i
    simp only [Bool.and_eq_true, decide_eq_true_eq] at hd
    simp only [Prim.enc, Prim.encGrams, Int.emod_eq_of_lt hd.1 hd.2] at he
    have e := varuint_minimal 16 i b b' (by decide) hd.1 he
    refine SpecOK.leaf ?_ e
    have hlt : i.toNat < 2 ^ (8 * 8) := by
      have : ((i.toNat : Nat) : Int) < ((2 ^ 64 : Nat) : Int) := by rw [Int.toNat_of_nonneg hd.1]; push_cast; exact hd.2
      exact_mod_cast this
    have hmb : minBytes i.toNat < 16 := by
      have := natBytesLen_le_of_lt (v := i.toNat) (k := 8) hlt
      rw [minBytes_eq]; omega
    simp [specChunk, hd.1, hmb]
  · -- VarUInteger n
    rename_i n m
    simp only [Bool.and_eq_true, beq_iff_eq, decide_eq_true_eq] at ha
    obtain ⟨⟨rfl, hn1⟩, hn32⟩ := ha
    cases v <;> simp only [Prim.inDom, Bool.false_eq_true] at hd
    rename_i i
    simp only [Bool.and_eq_true, decide_eq_true_eq] at hd
    simp only [Prim.enc] at he
    have e := varuint_minimal n i b b' (Nat.lt_of_lt_of_le (by omega : n - 1 < 32) (by decide)) hd.1 he
    refine SpecOK.leaf ?_ e
    have hmb : minBytes i.toNat < n := by rw [minBytes_eq]; omega
    simp [specChunk, hd.1, hmb]
  · -- UintN over big.Int
    rename_i n m
    simp only [Bool.and_eq_true, beq_iff_eq, decide_eq_true_eq] at ha
    obtain ⟨rfl, _⟩ := ha
    cases v <;> simp only [Prim.inDom, Bool.false_eq_true] at hd
    rename_i i
    simp only [Bool.and_eq_true, decide_eq_true_eq] at hd
    simp only [Prim.enc] at he
    refine SpecOK.leaf ?_ (writeBigUint_spec b b' i n hd.1 hd.2 he)
    simp [specChunk, hd.1, hd.2]
  · -- IntN over big.Int
    rename_i n m
    simp only [Bool.and_eq_true, beq_iff_eq, decide_eq_true_eq] at ha
    obtain ⟨rfl, hn1⟩ := ha
    cases v <;> simp only [Prim.inDom, Bool.false_eq_true] at hd
    rename_i i
    simp only [Bool.and_eq_true, decide_eq_true_eq] at hd
    simp only [Prim.enc] at he
    obtain ⟨k, rfl⟩ : ∃ k, n = k + 1 := ⟨n - 1, by omega⟩
    simp only [Nat.add_sub_cancel] at hd
    refine SpecOK.leaf ?_ (writeBigInt_spec b b' i k hd he)
    simp [specChunk, hd.1, hd.2]
  · -- Unary
    cases v <;> simp only [Prim.inDom, Bool.false_eq_true] at hd
    rename_i i
    simp only [decide_eq_true_eq] at hd
    simp only [Prim.enc] at he
    have hfit : i.toNat + 1 ≤ 1023 := by
      unfold Builder.writeUnary at he
      split at he
      · rename_i hle; simp only [cellBits] at hle; omega
      · cases he
    refine SpecOK.leaf ?_ (unary_spec b b' _ he)
    simp [specChunk, hd, hfit]
  · -- Any
    cases v <;> simp only [Prim.inDom, Bool.false_eq_true] at hd
    rename_i c
    obtain ⟨ty, mask, bits, refs⟩ := c
    simp only [Prim.enc] at he
    obtain ⟨b1, hb1, he2⟩ := bind_ok_inv he
    have e1 := Builder.writeBits_ok hb1
    have e2 := foldl_addRef_ok refs b1 b' he2
    refine SpecOK.leaf (xs := bits) (rs := refs) (by simp [specChunk]) ?_
    rw [e2, e1, Builder.app_app]; simp
  · -- Anycast
    have hd' : Prim.anycastDom v = true := by
      cases v <;> first | exact hd | (simp [Prim.inDom] at hd)
    have he' : Prim.encAnycast v b = .ok b' := by
      cases v <;> first | exact he | (simp [Prim.anycastDom] at hd')
    obtain ⟨xs, hs, hb⟩ := spec_anycast v b b' hd' he'
    exact SpecOK.leaf (by simpa [specChunk] using hs) hb
  · -- MsgAddress
    have he' : Prim.encMsgAddress v b = .ok b' := by
      cases v <;> first | exact he | (simp [Prim.inDom] at hd)
    obtain ⟨xs, hs, hb⟩ := spec_msgAddress v b b' hd he'
    exact SpecOK.leaf (by simpa [specChunk] using hs) hb
  · -- wallet payload list
    have hd' : Prim.valLen v ≤ 4 ∧ Prim.payloadDom v = true := by
      cases v <;> simpa [Prim.inDom] using hd
    have he' : Prim.encPayloadV1toV4 v b = .ok b' := by
      cases v <;> first | exact he | (simp [Prim.payloadDom] at hd')
    simp only [Prim.encPayloadV1toV4, if_neg (by omega : ¬ Prim.valLen v > 4)] at he'
    obtain ⟨c, hs, hb⟩ := spec_payloadItems v b b' hd'.2 he'
    exact ⟨1, c, by simp [specChunk, hd'.1, hs], hb⟩
  · -- wallet v5 out-list
    have hd' : Prim.w5Dom v = true := by cases v <;> simpa [Prim.inDom] using hd
    have he' : Prim.encW5Actions v b = .ok b' := by
      cases v <;> first | exact he | (simp [Prim.w5Dom] at hd')
    obtain ⟨c, hs, hb⟩ := spec_outList v b b' hd' he'
    exact ⟨1, c, by simp [specChunk, hs], hb⟩
  · -- AccountStatus
    rename_i cs
    simp only [beq_iff_eq] at ha; subst ha
    cases v <;> simp only [Prim.inDom, Bool.false_eq_true] at hd
    rename_i bs
    simp only [Bool.or_eq_true, beq_iff_eq] at hd
    simp only [Prim.enc] at he
    rcases hd with ((rfl | rfl) | rfl) | rfl
    · exact SpecOK.leaf (by simp only [specChunk]; rfl) (writeUint_spec b b' 0 2 (by omega) (by simpa [Prim.encAccountStatus] using he))
    · exact SpecOK.leaf (by simp only [specChunk]; rfl) (writeUint_spec b b' 1 2 (by omega)
        (by simpa [Prim.encAccountStatus, Prim.s_frozen, Prim.s_uninit] using he))
    · exact SpecOK.leaf (by simp only [specChunk]; rfl) (writeUint_spec b b' 2 2 (by omega)
        (by simpa [Prim.encAccountStatus, Prim.s_frozen, Prim.s_uninit, Prim.s_active] using he))
    · exact SpecOK.leaf (by simp only [specChunk]; rfl) (writeUint_spec b b' 3 2 (by omega)
        (by simpa [Prim.encAccountStatus, Prim.s_frozen, Prim.s_uninit, Prim.s_active, Prim.s_nonexist] using he))
  · -- AccStatusChange
    rename_i cs
    simp only [beq_iff_eq] at ha; subst ha
    cases v <;> simp only [Prim.inDom, Bool.false_eq_true] at hd
    rename_i bs
    simp only [Bool.or_eq_true, beq_iff_eq] at hd
    simp only [Prim.enc] at he
    rcases hd with (rfl | rfl) | rfl
    · simp only [Prim.encAccStatusChange, ↓reduceIte, Builder.writeBit] at he
      exact SpecOK.leaf (by simp only [specChunk]; rfl) (Builder.writeBits_ok he)
    · simp only [Prim.encAccStatusChange, Prim.s_acst_frozen, Prim.s_acst_unchanged, Prim.s_acst_deleted,
        Builder.writeBit] at he
      have he : (b.writeBits [true] >>= fun b1 => b1.writeBits [false]) = .ok b' := by simpa using he
      rw [writeBits_writeBits] at he
      exact SpecOK.leaf (by simp only [specChunk]; rfl) (Builder.writeBits_ok he)
    · simp only [Prim.encAccStatusChange, Prim.s_acst_frozen, Prim.s_acst_unchanged, Prim.s_acst_deleted,
        Builder.writeBit] at he
      have he : (b.writeBits [true] >>= fun b1 => b1.writeBits [true]) = .ok b' := by simpa using he
      rw [writeBits_writeBits] at he
      exact SpecOK.leaf (by simp only [specChunk]; rfl) (Builder.writeBits_ok he)
  · -- ComputeSkipReason
    rename_i cs
    simp only [beq_iff_eq] at ha; subst ha
    cases v <;> simp only [Prim.inDom, Bool.false_eq_true] at hd
    rename_i bs
    simp only [Bool.or_eq_true, beq_iff_eq] at hd
    simp only [Prim.enc] at he
    rcases hd with ((rfl | rfl) | rfl) | rfl
    · exact SpecOK.leaf (by simp only [specChunk]; rfl) (writeUint_spec b b' 0 2 (by omega) (by simpa [Prim.encComputeSkipReason] using he))
    · exact SpecOK.leaf (by simp only [specChunk]; rfl) (writeUint_spec b b' 1 2 (by omega)
        (by simpa [Prim.encComputeSkipReason, Prim.s_cskip_no_state, Prim.s_cskip_bad_state] using he))
    · exact SpecOK.leaf (by simp only [specChunk]; rfl) (writeUint_spec b b' 2 2 (by omega)
        (by simpa [Prim.encComputeSkipReason, Prim.s_cskip_no_state, Prim.s_cskip_bad_state, Prim.s_cskip_no_gas]
          using he))
    · simp only [Prim.encComputeSkipReason, Prim.s_cskip_no_state, Prim.s_cskip_bad_state, Prim.s_cskip_no_gas,
        Prim.s_cskip_suspended, Builder.writeUint] at he
      have he : (b.writeBits (natToBits 2 3) >>= fun b1 => b1.writeBits (natToBits 1 0)) = .ok b' := by
        simpa using he
      rw [writeBits_writeBits] at he
      exact SpecOK.leaf (by simp only [specChunk]; rfl) (Builder.writeBits_ok he)

end

section
variable {env : Env} {senv : SEnv}

/-- a present optional held through a Go pointer: strip the pointer level on both sides -/
theorem ptr_spec {f k : Nat} (h : SInv env senv f) {m : Bool} {t' : Ty} {s' : SType} {v : Val} {b1 b' : Builder}
    (ha : agreeb env senv k t' s' = true) (hd : inDom env f (.ptr m t') v = true)
    (he : encode env f (.ptr m t') v b1 = .ok b') :
    ∃ x g c, v = .cons x .nil ∧ specChunk senv g s' x = some c ∧ b' = b1.app c.1 c.2 := by
  obtain ⟨g, c, hc, hb⟩ := h.enc (k + 1) (.ptr m t') (.goPtr s') v b1 b' (by simpa [agreeb] using ha) hd he
  cases g with
  | zero => simp [specChunk] at hc
  | succ g =>
    cases f with
    | zero => simp [inDom] at hd
    | succ f =>
      simp only [inDom] at hd
      split at hd
      · rename_i x
        rw [specChunk_goPtr] at hc
        exact ⟨x, g, c, rfl, hc, hb⟩
      · cases hd

theorem field_spec {f k : Nat} (h : SInv env senv f) {ft T S v b b'}
    (ha : agreeField env senv (k + 1) ft T S = true) (hd : inDomField env (f + 1) ft T v = true)
    (he : encodeField env (f + 1) ft T v b = .ok b') : SpecOK senv S v b b' := by
  by_cases hT : T.isMagic = true
  · -- Magic field: EncodeTag writes the tag the schema gives to the constructor
    simp only [agreeField, hT, ↓reduceIte] at ha
    unfold magicAgree at ha
    split at ha
    · rename_i g bits
      simp only [tagAgrees, Bool.and_eq_true, beq_iff_eq] at ha
      simp only [encodeField] at he
      have e := sumtag_spec b b' g ha.1 he
      exact SpecOK.leaf (xs := bits) (rs := []) (by simp [specChunk]) (by rw [e, ha.2])
    · cases ha
  · have hT' : T.isMagic = false := by simpa using hT
    simp only [agreeField, hT', Bool.false_eq_true, ↓reduceIte] at ha
    rw [encodeField_notMagic ft T v b hT'] at he
    rw [inDomField_notMagic ft T v hT'] at hd
    cases ft with
    | bad => cases ha
    | plain =>
      simp only at ha he hd
      exact h.enc k T S v b b' ha hd he
    | ref =>
      simp only at ha he hd
      split at he
      · obtain ⟨child, hc, he2⟩ := bind_ok_inv he
        cases he2
        obtain ⟨g, hg⟩ := ref_spec h ha hd hc
        exact ⟨g, _, hg, by simp [Builder.app]⟩
      · cases he
    | maybe =>
      simp only at ha he hd
      split at ha <;> try (cases ha; done)
      rename_i m t'
      split at ha <;> try (cases ha; done)
      rename_i s'
      by_cases hv : v = .none
      · subst hv
        simp only [Builder.writeBit] at he
        exact ⟨1, ([false], []), rfl, Builder.writeBits_ok he⟩
      · have he' : (do let b ← b.writeBit true; encode env f (.ptr m t') v b) = .ok b' := by
          cases v <;> first | exact he | exact absurd rfl hv
        have hd' : inDom env f (.ptr m t') v = true := by
          cases v <;> first | exact hd | exact absurd rfl hv
        obtain ⟨b1, hb1, he2⟩ := bind_ok_inv he'
        have hb1' := Builder.writeBits_ok hb1
        obtain ⟨x, g, c, rfl, hc, hb⟩ := ptr_spec h ha hd' he2
        refine ⟨g + 1, (true :: c.1, c.2), by rw [specChunk_maybe_some, hc]; rfl, ?_⟩
        rw [hb, hb1', app_bit_app]
    | maybeRef =>
      simp only at ha he hd
      split at ha <;> try (cases ha; done)
      rename_i m t'
      split at ha <;> try (cases ha; done)
      rename_i sm
      by_cases hv : v = .none
      · subst hv
        simp only [Builder.writeBit] at he
        exact ⟨1, ([false], []), rfl, Builder.writeBits_ok he⟩
      · have he' : (do
            let b ← b.writeBit true
            if b.refs.length < cellRefs then do
              let child ← encode env f (.ptr m t') v Builder.empty
              pure { b with refs := b.refs ++ [child.toCell] }
            else Outcome.err "too many refs") = .ok b' := by
          cases v <;> first | exact he | exact absurd rfl hv
        have hd' : inDom env f (.ptr m t') v = true := by
          cases v <;> first | exact hd | exact absurd rfl hv
        obtain ⟨b1, hb1, he2⟩ := bind_ok_inv he'
        have hb1' := Builder.writeBits_ok hb1
        split at he2
        · obtain ⟨child, hc, he3⟩ := bind_ok_inv he2
          cases he3
          -- the content of the referenced cell: `^S` or `^Cell`, one pointer level below
          have hchild : ∃ x g, v = .cons x .nil ∧ specChunk senv g sm x = some ([], [child.toCell]) := by
            cases k with
            | zero => simp [agreeRef] at ha
            | succ k =>
              simp only [agreeRef] at ha
              cases sm <;> simp only [Bool.false_eq_true] at ha
              · rename_i s'
                obtain ⟨x, g, c, hx, hcs, hb⟩ := ptr_spec h ha hd' hc
                refine ⟨x, g + 1, hx, ?_⟩
                rw [specChunk_ref, hcs, hb]
                simp [Builder.empty, Builder.app, Builder.toCell]
              · cases t' <;> simp only [Ty.isCell, Bool.false_eq_true] at ha
                cases f with
                | zero => simp [inDom] at hd'
                | succ f =>
                  simp only [inDom] at hd'
                  split at hd'
                  · rename_i x
                    simp only [Bool.and_eq_true] at hd'
                    cases f with
                    | zero => simp [inDom] at hd'
                    | succ f =>
                      have hd1 := hd'.1
                      simp only [inDom] at hd1
                      split at hd1
                      · rename_i c
                        simp only [encode] at hc
                        cases hc
                        exact ⟨_, 1, rfl, by simp [specChunk, toCell_ofCell]⟩
                      · cases hd1
                  · cases hd'
          obtain ⟨x, g, rfl, hg⟩ := hchild
          refine ⟨g + 1, ([true], [child.toCell]), by rw [specChunk_maybe_some, hg]; rfl, ?_⟩
          rw [hb1']; simp [Builder.app]
        · cases he2


theorem fields_spec {f k : Nat} (h : SInv env senv f) {fs sfs v b b'}
    (ha : agreeFields env senv (k + 1) fs sfs = true) (hd : inDomFields env (f + 1) fs v = true)
    (he : encodeFields env (f + 1) fs v b = .ok b') :
    ∃ g c, specFields senv g sfs v = some c ∧ b' = b.app c.1 c.2 := by
  cases fs with
  | nil =>
    cases sfs <;> simp only [agreeFields, Bool.false_eq_true] at ha
    cases v <;> simp only [inDomFields, Bool.false_eq_true] at hd
    simp only [encodeFields] at he
    cases he
    exact ⟨1, ([], []), rfl, by simp⟩
  | cons n ft T rest =>
    cases sfs <;> simp only [agreeFields, Bool.false_eq_true] at ha
    rename_i sn s srest
    simp only [Bool.and_eq_true] at ha
    cases v <;> simp only [inDomFields, Bool.false_eq_true] at hd
    rename_i x vs
    simp only [Bool.and_eq_true] at hd
    simp only [encodeFields] at he
    obtain ⟨b1, he1, he2⟩ := bind_ok_inv he
    cases k with
    | zero => simp [agreeField] at ha
    | succ k =>
      obtain ⟨g1, c1, hc1, hb1⟩ := h.field (k + 1) ft T s x b b1 ha.1.2 hd.1 he1
      obtain ⟨g2, c2, hc2, hb2⟩ := h.fields (k + 1) rest srest vs b1 b' ha.2 hd.2 he2
      refine ⟨max g1 g2 + 1, c1.app c2, ?_, ?_⟩
      · rw [specFields_cons, specChunk_mono (Nat.le_max_left g1 g2) hc1,
          specFields_mono (Nat.le_max_right g1 g2) hc2]
      · rw [hb2, hb1, Builder.app_app]; rfl

theorem common_fuel {α} (P : Nat → α → Prop) (hmono : ∀ g g' a, g ≤ g' → P g a → P g' a) :
    ∀ l : List α, (∀ a ∈ l, ∃ g, P g a) → ∃ G, ∀ a ∈ l, P G a
  | [], _ => ⟨0, fun _ h => by simp at h⟩
  | a :: as, h => by
    obtain ⟨g1, h1⟩ := h a (List.mem_cons_self ..)
    obtain ⟨g2, h2⟩ := common_fuel P hmono as (fun a' ha' => h a' (List.mem_cons_of_mem _ ha'))
    refine ⟨max g1 g2, fun x hx => ?_⟩
    rcases List.mem_cons.1 hx with rfl | hx
    · exact hmono _ _ _ (Nat.le_max_left ..) h1
    · exact hmono _ _ _ (Nat.le_max_right ..) (h2 x hx)

theorem mapM_to_opt {α β} (f : α → Outcome β) (g : α → Option β) : ∀ (l : List α) (r : List β),
    (∀ a ∈ l, ∀ b ∈ r, f a = .ok b → g a = some b) → mapMOutcome f l = .ok r → mapMOpt g l = some r
  | [], r, _, h => by simp only [mapMOutcome] at h; cases h; rfl
  | a :: as, r, hon, h => by
    simp only [mapMOutcome] at h
    obtain ⟨b, hb, h2⟩ := bind_ok_inv h
    obtain ⟨bs, hbs, h3⟩ := bind_ok_inv h2
    cases h3
    have h1 := hon a (List.mem_cons_self ..) b (List.mem_cons_self ..) hb
    have h2 := mapM_to_opt f g as bs
      (fun a' ha' b' hb' => hon a' (List.mem_cons_of_mem _ ha') b' (List.mem_cons_of_mem _ hb')) hbs
    simp only [mapMOpt, h1, h2]

/-- wallet.PayloadHighload -/
theorem agree_highload {f k : Nat} (h : SInv env senv f) {S v b b'}
    (ha : agreeb env senv (k + 1) .highload S = true)
    (hd : inDom env (f + 1) .highload v = true) (he : encode env (f + 1) .highload v b = .ok b') :
    SpecOK senv S v b b' := by
  cases S <;> simp only [agreeb, Bool.false_eq_true] at ha
  simp only [inDom, Bool.and_eq_true, decide_eq_true_eq] at hd
  obtain ⟨⟨hlen, _⟩, hd⟩ := hd
  simp only [encode, if_neg (by omega : ¬ Prim.valLen v > 254)] at he
  cases hdv : hlToDict v with
  | none => simp [hdv] at hd
  | some d =>
    simp only [hdv] at hd he
    have hag : agreeb env senv 2 (.dictE (.uint 16) (.prim .any)) (.hashmapE 16 (.nat 16) .any) = true := by
      simp [agreeb, agreePrim, keyWidth]
    obtain ⟨g, c, hc, hb⟩ := h.enc 2 _ _ d b b' hag hd he
    exact ⟨g + 1, c, by simp only [specChunk, hdv, hc], hb⟩

/-- a reference chain (wallet.W5ExtendedActions) -/
theorem agree_chain {f k : Nat} (h : SInv env senv f) {e S v b b'}
    (ha : agreeb env senv (k + 1) (.chain e) S = true)
    (hd : inDom env (f + 1) (.chain e) v = true) (he : encode env (f + 1) (.chain e) v b = .ok b') :
    SpecOK senv S v b b' := by
  have ha0 := ha
  cases S <;> simp only [agreeb, Bool.false_eq_true] at ha
  rename_i s
  cases v <;> try (simp [inDom] at hd; done)
  rename_i x rest
  simp only [inDom, Bool.and_eq_true, Bool.or_eq_true] at hd
  obtain ⟨hdx, hdr⟩ := hd
  simp only [encode] at he
  obtain ⟨b1, hb1, he⟩ := bind_ok_inv he
  obtain ⟨g1, c1, hc1, hbb1⟩ := h.enc k e s x b b1 ha hdx hb1
  by_cases hr : rest = .nil
  · subst hr
    simp only at he
    cases he
    refine ⟨g1 + 1, c1, ?_, hbb1⟩
    rw [specChunk_chain_cons, hc1]; rfl
  · have hdr' : inDom env f (.chain e) rest = true := by
      rcases hdr with h1 | h1
      · cases rest <;> first | exact absurd rfl hr | simp [Val.isNil] at h1
      · exact h1
    have he' : (encode env f (.chain e) rest Builder.empty >>= fun child => b1.addRef child.toCell) = .ok b' := by
      cases rest <;> first | exact he | exact absurd rfl hr
    obtain ⟨child, hch, he2⟩ := bind_ok_inv he'
    have e2 := Builder.addRef_ok he2
    obtain ⟨g2, c2, hc2, hbb2⟩ := h.enc (k + 1) (.chain e) (.chainOf s) rest _ child ha0 hdr' hch
    refine ⟨max g1 g2 + 1, (c1.1, c1.2 ++ [Cell.mk 0 0 c2.1 c2.2]), ?_, ?_⟩
    · have h1 := specChunk_mono (Nat.le_max_left g1 g2) hc1
      have h2 := specChunk_mono (Nat.le_max_right g1 g2) hc2
      have hn : rest.isNil = false := by cases rest <;> first | exact absurd rfl hr | rfl
      rw [specChunk_chain_cons, h1, h2]
      simp only [chainStep, hn, Bool.false_eq_true, ↓reduceIte, Option.map_some]
    · rw [e2, hbb1, hbb2, Builder.app_app]
      simp [Builder.empty, Builder.app, Builder.toCell]

/-- a dictionary: the keys and the values are written as the schema says, and the tree around them is C05's -/
theorem agree_dictE {f k : Nat} (h : SInv env senv f) {kt t S v b b'}
    (ha : agreeb env senv (k + 1) (.dictE kt t) S = true)
    (hd : inDom env (f + 1) (.dictE kt t) v = true) (he : encode env (f + 1) (.dictE kt t) v b = .ok b') :
    SpecOK senv S v b b' := by
  cases S <;> simp only [agreeb, Bool.false_eq_true] at ha
  rename_i n sk st
  simp only [Bool.and_eq_true, beq_iff_eq] at ha
  obtain ⟨⟨hn, hak⟩, hat⟩ := ha
  simp only [inDom, hn] at hd
  simp only [encode, hn] at he
  cases hp : dictParts v with
  | none => simp [dictDom, hp] at hd
  | some p =>
    obtain ⟨ks, vs⟩ := p
    simp only [dictDom, hp] at hd
    simp only [hp] at he
    simp only [Bool.and_eq_true, beq_iff_eq, List.all_eq_true] at hd
    obtain ⟨⟨⟨⟨⟨⟨hlen, hshape⟩, hkd⟩, hvd⟩, hkr⟩, hkb⟩, hvfit⟩ := hd
    by_cases hemp : ks.isEmpty = true
    · rw [if_pos hemp] at he
      simp only [Builder.writeBit] at he
      refine SpecOK.leaf ?_ (Builder.writeBits_ok he)
      simp only [specChunk, specDict, hp, hemp, ↓reduceIte]
    · rw [if_neg hemp] at he
      obtain ⟨b1, hb1, he⟩ := bind_ok_inv he
      simp only [Builder.writeBit] at hb1
      have hb1 := Builder.writeBits_ok hb1
      obtain ⟨kbits, hkb', he⟩ := bind_ok_inv he
      rw [hkb'] at hkb
      simp only [Bool.and_eq_true, List.all_eq_true, beq_iff_eq] at hkb
      have hklen : kbits.length = vs.length := by rw [mapM_length _ _ _ hkb']; exact hlen
      cases hz : zipKV kbits vs with
      | none => rw [hz] at he; cases he
      | some kvs =>
        simp only [hz] at he
        obtain ⟨root, hm, he⟩ := bind_ok_inv he
        have hb' := Builder.addRef_ok he
        obtain ⟨hk1, hk2⟩ := zipKV_spec kbits vs kvs hklen hz
        -- one fuel for all keys and all values
        obtain ⟨G1, hG1⟩ := common_fuel
          (fun g kv => ∀ kb, encode env f kt kv Builder.empty = .ok kb → specChunk senv g sk kv = some (kb.bits, kb.refs))
          (fun g g' a hgg hP kb hkb => specChunk_mono hgg (hP kb hkb)) ks (by
            intro kv hkv
            cases hek : encode env f kt kv Builder.empty with
            | ok kb =>
              obtain ⟨g, c, hc, hbb⟩ := h.enc k kt sk kv _ kb hak (hkd kv hkv) hek
              refine ⟨g, fun kb' hkb' => ?_⟩
              cases hkb'
              rw [hc, hbb]; simp [Builder.app, Builder.empty]
            | err e => exact ⟨0, fun kb' hkb' => by cases hkb'⟩
            | panic e => exact ⟨0, fun kb' hkb' => by cases hkb'⟩)
        obtain ⟨G2, hG2⟩ := common_fuel
          (fun g x => ∀ vb, encode env f t x Builder.empty = .ok vb → specChunk senv g st x = some (vb.bits, vb.refs))
          (fun g g' a hgg hP vb hvb => specChunk_mono hgg (hP vb hvb)) vs (by
            intro x hx
            cases hex : encode env f t x Builder.empty with
            | ok vb =>
              obtain ⟨g, c, hc, hbb⟩ := h.enc k t st x _ vb hat (hvd x hx) hex
              refine ⟨g, fun vb' hvb' => ?_⟩
              cases hvb'
              rw [hc, hbb]; simp [Builder.app, Builder.empty]
            | err e => exact ⟨0, fun vb' hvb' => by cases hvb'⟩
            | panic e => exact ⟨0, fun vb' hvb' => by cases hvb'⟩)
        refine ⟨max G1 G2 + 1, ([true], [root]), ?_, by rw [hb', hb1]; simp [Builder.app]⟩
        have hkeys : mapMOpt (fun kv => keyBits n (specChunk senv (max G1 G2) sk kv)) ks = some kbits := by
          refine mapM_to_opt _ _ ks kbits ?_ hkb'
          intro kv hkv kb hkbm hkb2
          obtain ⟨kbld, hkbld, hkb3⟩ := bind_ok_inv hkb2
          cases hkb3
          have hr := hkr kv hkv
          rw [hkbld] at hr
          rw [specChunk_mono (Nat.le_max_left G1 G2) (hG1 kv hkv kbld hkbld)]
          simp only [keyBits, hkb.1 _ hkbm, hr, and_self, ↓reduceIte]
        have hmar : Hashmap.marshal (specCodec fun x => specChunk senv (max G1 G2) st x) n kvs = .ok root := by
          refine Hashmap.marshal_mono_on _ _ n kvs root ?_ hm
          intro kv hkv c hc
          have hx : kv.2 ∈ vs := by rw [← hk2]; exact List.mem_map_of_mem hkv
          simp only [valueCodecEnc] at hc
          obtain ⟨vb, hvb, hc⟩ := bind_ok_inv hc
          cases hc
          simp only [specCodec, specChunk_mono (Nat.le_max_right G1 G2) (hG2 kv.2 hx vb hvb)]
        simp only [specChunk, specDict, hp, hemp, Bool.false_eq_true, ↓reduceIte, hkeys, hz, hmar]

theorem SInv.succ {f : Nat} (h : SInv env senv f) : SInv env senv (f + 1) := by
  refine ⟨?_, ?_, ?_⟩
  · intro k T S v b b' ha hd he
    cases k with
    | zero => simp [agreeb] at ha
    | succ k =>
    cases T with
    | uint n => exact agree_uint ha hd he
    | int n => exact agree_int ha hd he
    | bool => exact agree_bool ha hd he
    | bytes n => exact agree_bytes ha hd he
    | ptr m t => exact agree_ptr h ha hd he
    | struct fs => exact agree_struct h ha hd he
    | sum cs => exact agree_sum h ha hd he
    | named id => exact agree_named h ha hd he
    | maybe t => exact agree_maybe h ha hd he
    | either l r => exact agree_either h ha hd he
    | eitherRef t => exact agree_eitherRef h ha hd he
    | refT t => exact agree_refT h ha hd he
    | prim p => exact agree_prim (by simpa [agreeb] using ha) hd he
    | dictE kt t => exact agree_dictE h ha hd he
    | dict kt t => simp [agreeb] at ha
    | chain e => exact agree_chain h ha hd he
    | highload => exact agree_highload h ha hd he
    | dictAugE k t x => simp [agreeb] at ha
    | dictAug k t x => simp [agreeb] at ha
    | binTree t => simp [agreeb] at ha
    | custom id body aux => simp [agreeb] at ha
    | cell => simp [agreeb] at ha
    | magic t => simp [agreeb] at ha
    | vmStack e => simp [agreeb] at ha
    | encErr id => simp [agreeb] at ha
    | «opaque» id => simp [agreeb] at ha
  · intro k ft T S v b b' ha hd he
    cases k with
    | zero => simp [agreeField] at ha
    | succ k => exact field_spec h ha hd he
  · intro k fs sfs v b b' ha hd he
    cases k with
    | zero => simp [agreeFields] at ha
    | succ k => exact fields_spec h ha hd he

theorem SInv.all (env : Env) (senv : SEnv) : ∀ f, SInv env senv f
  | 0 => SInv.zero
  | f + 1 => SInv.succ (SInv.all env senv f)

end

end Tongo.Tlb.Spec
