import TongoModel.Json
import TongoProofs.Lemmas.Dec
import TongoProofs.Lemmas.Json
/-! The printers' outputs pass the transcribed encoding/json syntax scan. -/
namespace Tongo.Json
open Tongo Tongo.Dec

/-- characters that may stand unescaped inside a JSON string -/
def isSafe (c : Char) : Bool := c != '"' && c != '\\' && decide (0x20 ≤ c.toNat)

theorem scanString_safe (s t : Str) (h : ∀ c ∈ s, isSafe c = true) : scanString (s ++ '"' :: t) = some t := by
  unfold scanString
  induction s with
  | nil => simp [scanStr]
  | cons c r ih =>
    have hc := h c (by simp)
    simp only [isSafe, Bool.and_eq_true, bne_iff_ne, ne_eq, decide_eq_true_eq] at hc
    obtain ⟨⟨h1, h2⟩, h3⟩ := hc
    have e1 : (c == '"') = false := by simpa using h1
    have e2 : (c == '\\') = false := by simpa using h2
    have e3 : ¬ c.toNat < 0x20 := by omega
    rw [List.cons_append, scanStr]
    simp only [e1, e2, e3, Bool.false_eq_true, if_false]
    exact ih (fun c hc => h c (by simp [hc]))

theorem skipWs_of_head (c : Char) (r : Str) (h : isWs c = false) : skipWs (c :: r) = c :: r := by
  simp [skipWs, List.dropWhile, h]

theorem valid_quote (s : Str) (h : ∀ c ∈ s, isSafe c = true) : valid (quote s) = true := by
  unfold valid quote
  rw [List.cons_append, skipWs_of_head _ _ (by decide)]
  have : ∀ fuel, scanValue (fuel + 1) ('"' :: (s ++ ['"'])) = scanString (s ++ ['"']) := by
    intro fuel; simp [scanValue, scanJ]
  rw [show 2 * ('"' :: (s ++ ['"'])).length + 2 = (2 * ('"' :: (s ++ ['"'])).length + 1) + 1 from rfl, this,
    scanString_safe s [] h]
  rfl

theorem valid_null : valid nullLit = true := by decide

/-- a value starting with `-` or a digit is scanned as a number -/
theorem scanValue_number (fuel : Nat) (c : Char) (r : Str) (hc : c = '-' ∨ isDigit c = true) :
    scanValue (fuel + 1) (c :: r) = scanNumber (c :: r) := by
  have hne : ∀ x : Char, (x = '-' ∨ isDigit x = true) →
      x ≠ '"' ∧ x ≠ '[' ∧ x ≠ '{' ∧ x ≠ 't' ∧ x ≠ 'f' ∧ x ≠ 'n' := by
    intro x hx
    refine ⟨?_, ?_, ?_, ?_, ?_, ?_⟩ <;> (intro h; subst h; revert hx; decide)
  obtain ⟨n1, n2, n3, n4, n5, n6⟩ := hne c hc
  unfold scanValue scanJ
  split
  · rename_i h; simp only [List.cons.injEq] at h; exact absurd h.1 n1
  · rename_i h; simp only [List.cons.injEq] at h; exact absurd h.1 n2
  · rename_i h; simp only [List.cons.injEq] at h; exact absurd h.1 n3
  · rename_i h; simp only [List.cons.injEq] at h; exact absurd h.1 n4
  · rename_i h; simp only [List.cons.injEq] at h; exact absurd h.1 n5
  · rename_i h; simp only [List.cons.injEq] at h; exact absurd h.1 n6
  · rfl

theorem dropWhile_all_true {α} (p : α → Bool) (l : List α) (h : ∀ c ∈ l, p c = true) : l.dropWhile p = [] := by
  induction l with
  | nil => rfl
  | cons a t ih =>
    rw [List.dropWhile_cons_of_pos (h a (by simp))]
    exact ih (fun c hc => h c (by simp [hc]))

theorem stripMinus_of_head (c : Char) (r : Str) (h : c ≠ '-') : stripMinus (c :: r) = c :: r := by
  unfold stripMinus
  split
  · rename_i h'; simp only [List.cons.injEq] at h'; exact absurd h'.1 h
  · rfl

/-- the integer part of a printed natural number is consumed entirely -/
theorem scanNumber_printNat (n : Nat) : scanNumber (printNat n) = some [] := by
  obtain ⟨c, r, hp, hm, _, _⟩ := printNatB_head 10 (by omega) (by omega) n
  have hp' : printNat n = c :: r := hp
  have hall := printNat_all_digits n
  rw [hp'] at hall
  have hcd : isDigit c = true := hall c (by simp)
  have hr : r.dropWhile isDigit = [] := dropWhile_all_true _ _ (fun x hx => hall x (by simp [hx]))
  rw [hp']
  unfold scanNumber
  rw [stripMinus_of_head c r hm]
  by_cases hz : c = '0'
  · subst hz
    have : r = [] := printNat_leading_zero n r hp'
    subst this
    rfl
  · have hz' : (c == '0') = false := by simpa using hz
    simp [scanIntPart, hz', hcd, hr, scanFrac, scanExp]

theorem valid_printNat (n : Nat) : valid (printNat n) = true := by
  obtain ⟨c, r, hp, _, _, _⟩ := printNatB_head 10 (by omega) (by omega) n
  have hp' : printNat n = c :: r := hp
  have hcd : isDigit c = true := by
    have := printNat_all_digits n c (by rw [hp']; simp)
    exact this
  have hws : isWs c = false := by
    have : ∀ x : Char, isDigit x = true → isWs x = false := by
      intro x hx
      simp only [isWs, Bool.or_eq_false_iff, beq_eq_false_iff_ne, ne_eq]
      refine ⟨⟨⟨?_, ?_⟩, ?_⟩, ?_⟩ <;> (intro h; subst h; revert hx; decide)
    exact this c hcd
  unfold valid
  rw [hp', skipWs_of_head c r hws, show 2 * (c :: r).length + 2 = (2 * (c :: r).length + 1) + 1 from rfl,
    scanValue_number _ c r (Or.inr hcd), ← hp', scanNumber_printNat]
  rfl

theorem valid_printInt (v : Int) : valid (printInt v) = true := by
  unfold printInt
  split
  · unfold valid
    rw [skipWs_of_head _ _ (by decide),
      show 2 * ('-' :: printNat v.natAbs).length + 2 = (2 * ('-' :: printNat v.natAbs).length + 1) + 1 from rfl,
      scanValue_number _ '-' _ (Or.inl rfl)]
    have : scanNumber ('-' :: printNat v.natAbs) = scanNumber (printNat v.natAbs) := by
      obtain ⟨c, r, hp, hm, _, _⟩ := printNatB_head 10 (by omega) (by omega) v.natAbs
      have hp' : printNat v.natAbs = c :: r := hp
      rw [hp']
      unfold scanNumber
      rw [stripMinus_of_head c r hm]
      rfl
    rw [this, scanNumber_printNat]
    rfl
  · exact valid_printNat _

/-! ### alphabets of the printers -/

theorem digit_safe : ∀ d, d < 36 → isSafe (digitChar d) = true := by decide

theorem printNatB_safe (b : Nat) (hb : 2 ≤ b) (hb' : b ≤ 36) (n : Nat) : ∀ c ∈ printNatB b n, isSafe c = true := by
  intro c hc
  obtain ⟨d, hd, rfl⟩ := printNatB_digits b hb n c hc
  exact digit_safe d (by omega)

theorem printInt_safe (v : Int) : ∀ c ∈ printInt v, isSafe c = true := by
  unfold printInt
  split
  · intro c hc
    simp only [List.mem_cons] at hc
    rcases hc with rfl | hc
    · decide
    · exact printNatB_safe 10 (by omega) (by omega) _ c hc
  · exact printNatB_safe 10 (by omega) (by omega) _

theorem lowerHex_safe (c : Char) (h : isLowerHex c = true) : isSafe c = true := by
  simp only [isLowerHex, Bool.or_eq_true, Bool.and_eq_true, decide_eq_true_eq] at h
  simp only [isSafe, Bool.and_eq_true, bne_iff_ne, ne_eq, decide_eq_true_eq]
  refine ⟨⟨?_, ?_⟩, ?_⟩
  · intro e; subst e; revert h; decide
  · intro e; subst e; revert h; decide
  · omega

theorem hexLower_safe (bs : List UInt8) : ∀ c ∈ hexLower bs, isSafe c = true :=
  fun c hc => lowerHex_safe c (hexLower_chars bs c hc)

theorem valid_printUintN (bits v : Nat) : valid (printUintN bits v) = true := by
  unfold printUintN
  split
  · exact valid_quote _ (printNatB_safe 10 (by omega) (by omega) v)
  · exact valid_printNat v

theorem valid_printIntN (bits : Nat) (v : Int) : valid (printIntN bits v) = true := by
  unfold printIntN
  split
  · exact valid_quote _ (printInt_safe v)
  · exact valid_printInt v

theorem valid_printBig (v : Int) : valid (printBig v) = true := valid_quote _ (printInt_safe v)
theorem valid_printBitsN (bs : List UInt8) : valid (printBitsN bs) = true := valid_quote _ (hexLower_safe bs)
theorem valid_printGrams (v : Nat) : valid (printGrams v) = true :=
  valid_quote _ (printNatB_safe 10 (by omega) (by omega) v)
theorem valid_printSignedCoins (v : Int) : valid (printSignedCoins v) = true := valid_quote _ (printInt_safe v)

theorem valid_printMagic (v : Nat) : valid (printMagic v) = true := by
  apply valid_quote
  intro c hc
  simp only [List.mem_cons] at hc
  rcases hc with rfl | rfl | hc
  · decide
  · decide
  · exact printNatB_safe 16 (by omega) (by omega) v c hc

theorem valid_printMaybe {α} (pr : α → Str) (m : Option α) (h : ∀ v, valid (pr v) = true) :
    valid (printMaybe pr m) = true := by
  cases m with
  | none => exact valid_null
  | some v => exact h v

end Tongo.Json
