import TongoProofs.Lemmas.BitStringReadBits
/-! Big integers: `ReadBigUint` (repaired: leading partial byte kept), `ReadBigInt`, `WriteBigUint`, `WriteBigInt`.
Helper lemmas only. -/
namespace Tongo.Bits

/-- unpacking after packing is the identity on whole bytes -/
theorem bytesToBits_bitsToBytes (k : Nat) : ∀ (l : List Bool), l.length = 8 * k → bytesToBits (bitsToBytes l) = l := by
  induction k with
  | zero =>
    intro l hl
    have : l = [] := List.length_eq_zero_iff.mp (by omega)
    subst this; simp [bitsToBytes_nil]
  | succ k ih =>
    intro l hl
    have hsplit : l = l.take 8 ++ l.drop 8 := (List.take_append_drop 8 l).symm
    have ht : (l.take 8).length = 8 := by rw [List.length_take]; omega
    rw [hsplit, bitsToBytes_append8 _ _ ht, bytesToBits_cons, ih _ (by rw [List.length_drop]; omega)]
    congr 1
    rw [byteToBits]
    have : (UInt8.ofNat (bitsToNat (l.take 8))).toNat = bitsToNat (l.take 8) % 2 ^ 8 := by simp
    rw [this, natToBits_mod]
    have := natToBits_bitsToNat (l.take 8)
    rw [ht] at this
    exact this

end Tongo.Bits

namespace Tongo.BitString
open Tongo.Bits

/-- `ReadBigUint(n)` (repaired code) -/
theorem readBigUint_ok (n : Nat) (s : BitString) (h8 : s.len ≤ 8 * s.buf.length) (h : s.rCursor + n ≤ s.len) :
    readBigUint n s = (.ok (bitsToNat (nextBits s n)), { s with rCursor := s.rCursor + n }) := by
  have a1 : ¬ s.len < s.rCursor + n := by omega
  simp only [readBigUint, bind_run, needBits_run, a1, if_false, ite_run]
  by_cases hz : n = 0
  · subst hz; simp [nextBits]
  · simp only [hz, if_false]
    have hn : n = n % 8 + 8 * (n / 8) := by omega
    have hb := readBytes_ok (n / 8) { s with rCursor := s.rCursor + n % 8 } h8 (by simp; omega)
    have hbits : bytesToBits (bitsToBytes (nextBits { s with rCursor := s.rCursor + n % 8 } (n / 8 * 8))) =
        nextBits { s with rCursor := s.rCursor + n % 8 } (n / 8 * 8) :=
      bytesToBits_bitsToBytes (n / 8) _ (by rw [nextBits_length { s with rCursor := s.rCursor + n % 8 } _ h8 (by simp; omega)]; omega)
    by_cases hr : n % 8 = 0
    · simp only [hr, ne_eq, not_true_eq_false, if_false, pure_run]
      rw [hr, Nat.add_zero] at hb hbits
      have e : ({ s with rCursor := s.rCursor } : BitString) = s := rfl
      rw [e] at hb hbits
      rw [hb]
      simp only [List.nil_append]
      rw [beNat_eq_bits, hbits]
      have e2 : n / 8 * 8 = n := by omega
      rw [e2]
    · have hu := readUint_ok (n % 8) s h8 (by omega) (by omega)
      simp only [hr, ne_eq, not_false_eq_true, if_true, hu, pure_run, hb]
      congr 1
      · rw [List.singleton_append, beNat_cons, beNat_eq_bits, hbits]
        have hlt := bitsToNat_lt (nextBits s (n % 8))
        rw [nextBits_length s _ h8 (by omega)] at hlt
        have h256 : bitsToNat (nextBits s (n % 8)) < 256 := by
          have : 2 ^ (n % 8) ≤ 2 ^ 8 := Nat.pow_le_pow_right (by decide) (by omega)
          omega
        have e1 : (UInt8.ofNat (bitsToNat (nextBits s (n % 8)))).toNat = bitsToNat (nextBits s (n % 8)) := by
          simp; omega
        have hlen : (bitsToBytes (nextBits { s with rCursor := s.rCursor + n % 8 } (n / 8 * 8))).length = n / 8 := by
          have := congrArg List.length hbits
          rw [bytesToBits_length, nextBits_length { s with rCursor := s.rCursor + n % 8 } _ h8 (by simp; omega)] at this
          omega
        rw [e1, hlen]
        conv => rhs; rw [hn, nextBits_add, bitsToNat_append, nextBits_length { s with rCursor := s.rCursor + n % 8 } _ h8 (by simp; omega)]
        have e3 : n / 8 * 8 = 8 * (n / 8) := by omega
        rw [e3, Nat.pow_mul]
      · simp only [BitString.mk.injEq, true_and]
        omega

theorem readBigUint_underflow (n : Nat) (s : BitString) (h : s.len < s.rCursor + n) :
    readBigUint n s = (.err errNotEnough, s) := by
  simp only [readBigUint, bind_run, needBits_run, h, if_true]

/-- `ReadBigInt(n)` -/
theorem readBigInt_ok (n : Nat) (s : BitString) (h8 : s.len ≤ 8 * s.buf.length) (h : s.rCursor + n ≤ s.len) :
    readBigInt n s = (.ok (bitsToInt (nextBits s n)), { s with rCursor := s.rCursor + n }) := by
  have a1 : ¬ s.len < s.rCursor + n := by omega
  simp only [readBigInt, bind_run, needBits_run, a1, if_false, ite_run]
  by_cases hz : n = 0
  · subst hz; simp [nextBits, bitsToInt]
  · obtain ⟨k, rfl⟩ : ∃ k, n = k + 1 := ⟨n - 1, by omega⟩
    have hn : s.rCursor < s.len := by omega
    simp only [hz, if_false, mustReadBit_ok s h8 hn]
    rw [nextBits_succ s k h8 hn, bitsToInt_cons]
    generalize (abs s)[s.rCursor]'(by rw [abs_length h8]; exact hn) = b
    by_cases hk : k = 0
    · subst hk
      cases b <;> simp [nextBits]
    · have a4 : ¬ k + 1 = 1 := by omega
      have hr := readBigUint_ok k { s with rCursor := s.rCursor + 1 } h8 (by simp; omega)
      have hlen : (nextBits { s with rCursor := s.rCursor + 1 } k).length = k := nextBits_length _ _ h8 (by simp; omega)
      simp only [a4, if_false, Nat.add_sub_cancel]
      cases b
      · simp only [Bool.false_eq_true, if_false, hr, pure_run]
        simp [Nat.add_assoc, Nat.add_comm 1 k]
      · simp only [if_true, hr, pure_run, hlen]
        simp [Nat.add_assoc, Nat.add_comm 1 k]

theorem readBigInt_underflow (n : Nat) (s : BitString) (h : s.len < s.rCursor + n) :
    readBigInt n s = (.err errNotEnough, s) := by
  simp only [readBigInt, bind_run, needBits_run, h, if_true]

/-! ### writers -/

theorem writeBigBits_eq (v : Int) (n : Nat) (hv : 0 ≤ v) : writeBigBits v n = writeBitArray (natToBits n v.toNat) := by
  obtain ⟨m, rfl⟩ := Int.eq_ofNat_of_zero_le hv
  induction n with
  | zero => rfl
  | succ i ih =>
    simp only [writeBigBits, natToBits, writeBitArray_cons, ih]
    rfl

/-- two's complement of a representable value: sign bit, then the residue mod `2^(n−1)` -/
theorem intToBits_repr (v : Int) (k : Nat) (hlo : -(2 : Int) ^ k ≤ v) (hhi : v < (2 : Int) ^ k) :
    intToBits (k + 1) v = decide (v < 0) :: natToBits k (v % (2 : Int) ^ k).toNat := by
  rw [intToBits, natToBits]
  have hP : (0 : Int) < (2 : Int) ^ k := Int.pow_pos (by decide)
  have hP2 : (2 : Int) ^ (k + 1) = 2 * (2 : Int) ^ k := by rw [pow_succ]; ring
  congr 1
  · rw [Nat.testBit_eq_decide_div_mod_eq]
    by_cases hv : v < 0
    · have e : v % (2 : Int) ^ (k + 1) = v + (2 : Int) ^ (k + 1) := by
        rw [Int.emod_eq_add_self_emod, Int.emod_eq_of_lt (by omega) (by omega)]
      have e2 : (v % (2 : Int) ^ (k + 1)).toNat = 2 ^ k + (v + (2 : Int) ^ k).toNat := by
        rw [e, hP2]
        have : (0 : Int) ≤ v + 2 ^ k := by omega
        have h3 : v + 2 * (2 : Int) ^ k = ((2 ^ k : Nat) : Int) + ((v + (2 : Int) ^ k).toNat : Int) := by
          rw [Int.toNat_of_nonneg this]; push_cast; ring
        rw [h3, ← Int.natCast_add, Int.toNat_natCast]
      have hlt : (v + (2 : Int) ^ k).toNat < 2 ^ k := by
        have : (v + (2 : Int) ^ k) < ((2 ^ k : Nat) : Int) := by push_cast; omega
        omega
      rw [e2, Nat.add_div_left _ (Nat.two_pow_pos k), Nat.div_eq_of_lt hlt]
      simp [hv]
    · have hv0 : 0 ≤ v := by omega
      have e : v % (2 : Int) ^ (k + 1) = v := Int.emod_eq_of_lt hv0 (by omega)
      have hlt : v.toNat < 2 ^ k := by
        have : v < ((2 ^ k : Nat) : Int) := by push_cast; omega
        omega
      rw [e, Nat.div_eq_of_lt hlt]
      simp [hv]
  · rw [← natToBits_mod k ((v % (2 : Int) ^ (k + 1)).toNat)]
    congr 1
    have hd : ((2 : Int) ^ k) ∣ (2 : Int) ^ (k + 1) := pow_dvd_pow 2 (by omega)
    have h0 : 0 ≤ v % (2 : Int) ^ (k + 1) := Int.emod_nonneg _ (Int.ne_of_gt (Int.pow_pos (by decide)))
    rw [← Int.emod_emod_of_dvd v hd, Int.toNat_emod h0 (by omega), two_pow_toNat]

theorem bigBitLen_le (w : Int) (k : Nat) (h0 : 0 ≤ w) (hlt : w < (2 : Int) ^ k) : bigBitLen w ≤ k := by
  obtain ⟨m, rfl⟩ := Int.eq_ofNat_of_zero_le h0
  simp only [bigBitLen, Int.natAbs_natCast]
  split
  · omega
  · rename_i hm
    have hm' : m < 2 ^ k := by
      have : ((m : Nat) : Int) < ((2 ^ k : Nat) : Int) := by push_cast; exact hlt
      omega
    have := (Nat.log2_lt hm).mpr hm'
    omega

/-- `WriteBigInt(v, n)` for n ≥ 1 and representable v writes the two's complement encoding -/
theorem writeBigInt_eq (v : Int) (n : Nat) (hn : 1 ≤ n) (hlo : -(2 : Int) ^ (n - 1) ≤ v) (hhi : v < (2 : Int) ^ (n - 1)) :
    writeBigInt v n = writeBitArray (intToBits n v) := by
  obtain ⟨k, rfl⟩ : ∃ k, n = k + 1 := ⟨n - 1, by omega⟩
  simp only [Nat.add_sub_cancel] at hlo hhi
  have hP : (0 : Int) < (2 : Int) ^ k := Int.pow_pos (by decide)
  rw [intToBits_repr v k hlo hhi]
  by_cases hk : k = 0
  · subst hk
    have hv : v = -1 ∨ v = 0 := by simp at hlo hhi; omega
    rcases hv with rfl | rfl
    · simp only [writeBigInt, if_true]
      have : i64OfNat (u64OfInt (-1)) = -1 := by decide
      simp [this, natToBits, writeBitArray, bind_pure_unit]
    · simp only [writeBigInt, if_true]
      have : i64OfNat (u64OfInt 0) = 0 := by decide
      simp [this, natToBits, writeBitArray, bind_pure_unit]
  · have a1 : ¬ k + 1 = 1 := by omega
    have a2 : ¬ k + 1 = 0 := by omega
    have a3 : ¬ (k = 0 ∨ bigBitLen ((2 : Int) ^ k + v) > k) ∨ 0 ≤ v := by
      by_cases hv : 0 ≤ v
      · exact Or.inr hv
      · left
        have := bigBitLen_le ((2 : Int) ^ k + v) k (by omega) (by omega)
        omega
    simp only [writeBigInt, a1, a2, if_false, Nat.add_sub_cancel]
    by_cases hv : v < 0
    · have hb := bigBitLen_le ((2 : Int) ^ k + v) k (by omega) (by omega)
      have a4 : ¬ (k = 0 ∨ bigBitLen ((2 : Int) ^ k + v) > k) := by omega
      simp only [hv, if_true, decide_true, writeBitArray_cons, writeBigUint, a4, if_false]
      rw [writeBigBits_eq _ _ (by omega)]
      have e : v % (2 : Int) ^ k = (2 : Int) ^ k + v := by
        rw [Int.emod_eq_add_self_emod, Int.emod_eq_of_lt (by omega) (by omega), Int.add_comm]
      rw [e]
    · have hb := bigBitLen_le v k (by omega) hhi
      have a4 : ¬ (k = 0 ∨ bigBitLen v > k) := by omega
      simp only [hv, if_false, decide_false, writeBitArray_cons, writeBigUint, a4]
      rw [writeBigBits_eq _ _ (by omega), Int.emod_eq_of_lt (by omega) hhi]

end Tongo.BitString
