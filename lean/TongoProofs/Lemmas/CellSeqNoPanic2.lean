import TongoProofs.Lemmas.CellSeqNoPanic
import TongoProofs.Lemmas.BitStringRound
/-! A predicate on the bits of every cell is preserved by the cell-level operations; with it: the ideal heap never
panics (capacities stay ≤ 1023 as long as no `Grow`/`Append` is issued), hence neither does the model of the Go code. -/
namespace Tongo
open Tongo.Bits Tongo.BitString

def Op.noGrow : Op → Bool
  | .grow _ | .append _ => false
  | _ => true

def ZOp.noGrow : ZOp → Bool
  | .op o => o.noGrow
  | _ => true

theorem write_cap_len (l : List Bool) (t : Ideal) (hl : t.bits.length ≤ t.cap) :
    (Ideal.write l t).2.cap = t.cap ∧ (Ideal.write l t).2.bits.length ≤ t.cap := by
  unfold Ideal.write
  split
  · simp; omega
  · simp [List.length_take]; omega

theorem read_cap_len (n : Nat) (f : List Bool → Out) (t : Ideal) (hl : t.bits.length ≤ t.cap) :
    (Ideal.read n f t).2.cap = t.cap ∧ (Ideal.read n f t).2.bits.length ≤ t.cap := by
  unfold Ideal.read
  split <;> simp [hl]

theorem fail_cap_len (e : String) (t : Ideal) (hl : t.bits.length ≤ t.cap) :
    (Ideal.fail e t).2.cap = t.cap ∧ (Ideal.fail e t).2.bits.length ≤ t.cap := ⟨rfl, hl⟩

theorem op_spec_cap_len (o : Op) (hng : o.noGrow = true) (t : Ideal) (hl : t.bits.length ≤ t.cap) :
    (o.spec t).2.cap = t.cap ∧ (o.spec t).2.bits.length ≤ t.cap := by
  cases o <;> simp only [Op.spec, Op.noGrow, writeUnary_spec_eq] at hng ⊢ <;> (repeat' split) <;>
    first
    | exact write_cap_len _ t hl
    | exact read_cap_len _ _ t hl
    | exact fail_cap_len _ t hl
    | exact ⟨rfl, hl⟩
    | exact ⟨trivial, hl⟩
    | cases hng

theorem zop_spec_cap_len (z : ZOp) (hng : z.noGrow = true) (t : Ideal) (hl : t.bits.length ≤ t.cap) :
    (z.spec t).2.cap = t.cap ∧ (z.spec t).2.bits.length ≤ t.cap := by
  cases z with
  | op o => exact op_spec_cap_len o hng t hl
  | writeBigInt v n =>
    by_cases hn : n ≤ 0
    · have e : (ZOp.writeBigInt v n).spec = fun t =>
          (match Ideal.write [decide (v < 0)] t with
           | (.ok _, t') => (.err "bit length is too small", t')
           | r => r) := by simp only [ZOp.spec, hn, if_true] <;> rfl
      rw [e]
      simp only
      have := write_cap_len [decide (v < 0)] t hl
      rcases hw : Ideal.write [decide (v < 0)] t with ⟨r, t'⟩
      rw [hw] at this
      cases r <;> exact this
    · have e : (ZOp.writeBigInt v n).spec = (Op.writeBigInt v n.toNat).spec := by simp only [ZOp.spec, hn, if_false] <;> rfl
      rw [e]; exact op_spec_cap_len _ rfl t hl
  | writeLimUint v n => exact op_spec_cap_len _ rfl t hl
  | readLimUint n => exact op_spec_cap_len _ rfl t hl
  | writeUint v n =>
    by_cases hn : n < 0
    · have e : (ZOp.writeUint v n).spec = fun t => (.ok .unit, t) := by simp only [ZOp.spec, hn, if_true] <;> rfl
      rw [e]; exact ⟨rfl, hl⟩
    · have e : (ZOp.writeUint v n).spec = (Op.writeUint v n.toNat).spec := by simp only [ZOp.spec, hn, if_false] <;> rfl
      rw [e]; exact op_spec_cap_len _ rfl t hl
  | writeInt v n =>
    by_cases hn : n < 0
    · have e : (ZOp.writeInt v n).spec = Ideal.fail "integer can't be zero size" := by simp only [ZOp.spec, hn, if_true] <;> rfl
      rw [e]; exact fail_cap_len _ t hl
    · have e : (ZOp.writeInt v n).spec = (Op.writeInt v n.toNat).spec := by simp only [ZOp.spec, hn, if_false] <;> rfl
      rw [e]; exact op_spec_cap_len _ rfl t hl
  | writeBigUint v n =>
    by_cases hn : n < 0
    · have e : (ZOp.writeBigUint v n).spec = Ideal.fail "bit length is too small" := by simp only [ZOp.spec, hn, if_true] <;> rfl
      rw [e]; exact fail_cap_len _ t hl
    · have e : (ZOp.writeBigUint v n).spec = (Op.writeBigUint v n.toNat).spec := by simp only [ZOp.spec, hn, if_false] <;> rfl
      rw [e]; exact op_spec_cap_len _ rfl t hl
  | skip n =>
    by_cases hn : n < 0
    · have e : (ZOp.skip n).spec = Ideal.fail errNegative := by simp only [ZOp.spec, hn, if_true] <;> rfl
      rw [e]; exact fail_cap_len _ t hl
    · have e : (ZOp.skip n).spec = (Op.skip n.toNat).spec := by simp only [ZOp.spec, hn, if_false] <;> rfl
      rw [e]; exact op_spec_cap_len _ rfl t hl
  | readUint n =>
    by_cases hn : n < 0
    · have e : (ZOp.readUint n).spec = Ideal.fail errNegative := by simp only [ZOp.spec, hn, if_true] <;> rfl
      rw [e]; exact fail_cap_len _ t hl
    · have e : (ZOp.readUint n).spec = (Op.readUint n.toNat).spec := by simp only [ZOp.spec, hn, if_false] <;> rfl
      rw [e]; exact op_spec_cap_len _ rfl t hl
  | pickUint n =>
    by_cases hn : n < 0
    · have e : (ZOp.pickUint n).spec = Ideal.fail errNegative := by simp only [ZOp.spec, hn, if_true] <;> rfl
      rw [e]; exact fail_cap_len _ t hl
    · have e : (ZOp.pickUint n).spec = (Op.pickUint n.toNat).spec := by simp only [ZOp.spec, hn, if_false] <;> rfl
      rw [e]; exact op_spec_cap_len _ rfl t hl
  | readInt n =>
    by_cases hn : n < 0
    · have e : (ZOp.readInt n).spec = Ideal.fail errNegative := by simp only [ZOp.spec, hn, if_true] <;> rfl
      rw [e]; exact fail_cap_len _ t hl
    · have e : (ZOp.readInt n).spec = (Op.readInt n.toNat).spec := by simp only [ZOp.spec, hn, if_false] <;> rfl
      rw [e]; exact op_spec_cap_len _ rfl t hl
  | readBytes n =>
    by_cases hn : n < 0
    · have e : (ZOp.readBytes n).spec = Ideal.fail errNegative := by simp only [ZOp.spec, hn, if_true] <;> rfl
      rw [e]; exact fail_cap_len _ t hl
    · have e : (ZOp.readBytes n).spec = (Op.readBytes n.toNat).spec := by simp only [ZOp.spec, hn, if_false] <;> rfl
      rw [e]; exact op_spec_cap_len _ rfl t hl
  | readBits n =>
    by_cases hn : n < 0
    · have e : (ZOp.readBits n).spec = Ideal.fail errNegative := by simp only [ZOp.spec, hn, if_true] <;> rfl
      rw [e]; exact fail_cap_len _ t hl
    · have e : (ZOp.readBits n).spec = (Op.readBits n.toNat).spec := by simp only [ZOp.spec, hn, if_false] <;> rfl
      rw [e]; exact op_spec_cap_len _ rfl t hl
  | readBigUint n =>
    by_cases hn : n < 0
    · have e : (ZOp.readBigUint n).spec = Ideal.fail errNegative := by simp only [ZOp.spec, hn, if_true] <;> rfl
      rw [e]; exact fail_cap_len _ t hl
    · have e : (ZOp.readBigUint n).spec = (Op.readBigUint n.toNat).spec := by simp only [ZOp.spec, hn, if_false] <;> rfl
      rw [e]; exact op_spec_cap_len _ rfl t hl
  | readBigInt n =>
    by_cases hn : n < 0
    · have e : (ZOp.readBigInt n).spec = Ideal.fail errNegative := by simp only [ZOp.spec, hn, if_true] <;> rfl
      rw [e]; exact fail_cap_len _ t hl
    · have e : (ZOp.readBigInt n).spec = (Op.readBigInt n.toNat).spec := by simp only [ZOp.spec, hn, if_false] <;> rfl
      rw [e]; exact op_spec_cap_len _ rfl t hl

/-- the specification with `int` arguments never panics -/
theorem zspec_ne_panic (z : ZOp) (t : Ideal) (p : String) : (z.spec t).1 ≠ .panic p := by
  cases z with
  | op o => exact spec_ne_panic o t p
  | writeBigInt v n =>
    by_cases hn : n ≤ 0
    · have e : (ZOp.writeBigInt v n).spec = fun t =>
          (match Ideal.write [decide (v < 0)] t with
           | (.ok _, t') => (.err "bit length is too small", t')
           | r => r) := by simp only [ZOp.spec, hn, if_true] <;> rfl
      rw [e]
      simp only
      have := write_ne_panic [decide (v < 0)] t
      rcases hw : Ideal.write [decide (v < 0)] t with ⟨r, t'⟩
      rw [hw] at this
      cases r with
      | ok u => simp
      | err e => simp
      | panic q => exact absurd rfl (this q)
    · have e : (ZOp.writeBigInt v n).spec = (Op.writeBigInt v n.toNat).spec := by simp only [ZOp.spec, hn, if_false] <;> rfl
      rw [e]; exact spec_ne_panic _ t p
  | writeLimUint v n => exact spec_ne_panic _ t p
  | readLimUint n => exact spec_ne_panic _ t p
  | writeUint v n =>
    by_cases hn : n < 0
    · have e : (ZOp.writeUint v n).spec = fun t => (.ok .unit, t) := by simp only [ZOp.spec, hn, if_true] <;> rfl
      rw [e]; simp
    · have e : (ZOp.writeUint v n).spec = (Op.writeUint v n.toNat).spec := by simp only [ZOp.spec, hn, if_false] <;> rfl
      rw [e]; exact spec_ne_panic _ t p
  | writeInt v n =>
    by_cases hn : n < 0
    · have e : (ZOp.writeInt v n).spec = Ideal.fail "integer can't be zero size" := by simp only [ZOp.spec, hn, if_true] <;> rfl
      rw [e]; exact fail_ne_panic _ t p
    · have e : (ZOp.writeInt v n).spec = (Op.writeInt v n.toNat).spec := by simp only [ZOp.spec, hn, if_false] <;> rfl
      rw [e]; exact spec_ne_panic _ t p
  | writeBigUint v n =>
    by_cases hn : n < 0
    · have e : (ZOp.writeBigUint v n).spec = Ideal.fail "bit length is too small" := by simp only [ZOp.spec, hn, if_true] <;> rfl
      rw [e]; exact fail_ne_panic _ t p
    · have e : (ZOp.writeBigUint v n).spec = (Op.writeBigUint v n.toNat).spec := by simp only [ZOp.spec, hn, if_false] <;> rfl
      rw [e]; exact spec_ne_panic _ t p
  | skip n =>
    by_cases hn : n < 0
    · have e : (ZOp.skip n).spec = Ideal.fail errNegative := by simp only [ZOp.spec, hn, if_true] <;> rfl
      rw [e]; exact fail_ne_panic _ t p
    · have e : (ZOp.skip n).spec = (Op.skip n.toNat).spec := by simp only [ZOp.spec, hn, if_false] <;> rfl
      rw [e]; exact spec_ne_panic _ t p
  | readUint n =>
    by_cases hn : n < 0
    · have e : (ZOp.readUint n).spec = Ideal.fail errNegative := by simp only [ZOp.spec, hn, if_true] <;> rfl
      rw [e]; exact fail_ne_panic _ t p
    · have e : (ZOp.readUint n).spec = (Op.readUint n.toNat).spec := by simp only [ZOp.spec, hn, if_false] <;> rfl
      rw [e]; exact spec_ne_panic _ t p
  | pickUint n =>
    by_cases hn : n < 0
    · have e : (ZOp.pickUint n).spec = Ideal.fail errNegative := by simp only [ZOp.spec, hn, if_true] <;> rfl
      rw [e]; exact fail_ne_panic _ t p
    · have e : (ZOp.pickUint n).spec = (Op.pickUint n.toNat).spec := by simp only [ZOp.spec, hn, if_false] <;> rfl
      rw [e]; exact spec_ne_panic _ t p
  | readInt n =>
    by_cases hn : n < 0
    · have e : (ZOp.readInt n).spec = Ideal.fail errNegative := by simp only [ZOp.spec, hn, if_true] <;> rfl
      rw [e]; exact fail_ne_panic _ t p
    · have e : (ZOp.readInt n).spec = (Op.readInt n.toNat).spec := by simp only [ZOp.spec, hn, if_false] <;> rfl
      rw [e]; exact spec_ne_panic _ t p
  | readBytes n =>
    by_cases hn : n < 0
    · have e : (ZOp.readBytes n).spec = Ideal.fail errNegative := by simp only [ZOp.spec, hn, if_true] <;> rfl
      rw [e]; exact fail_ne_panic _ t p
    · have e : (ZOp.readBytes n).spec = (Op.readBytes n.toNat).spec := by simp only [ZOp.spec, hn, if_false] <;> rfl
      rw [e]; exact spec_ne_panic _ t p
  | readBits n =>
    by_cases hn : n < 0
    · have e : (ZOp.readBits n).spec = Ideal.fail errNegative := by simp only [ZOp.spec, hn, if_true] <;> rfl
      rw [e]; exact fail_ne_panic _ t p
    · have e : (ZOp.readBits n).spec = (Op.readBits n.toNat).spec := by simp only [ZOp.spec, hn, if_false] <;> rfl
      rw [e]; exact spec_ne_panic _ t p
  | readBigUint n =>
    by_cases hn : n < 0
    · have e : (ZOp.readBigUint n).spec = Ideal.fail errNegative := by simp only [ZOp.spec, hn, if_true] <;> rfl
      rw [e]; exact fail_ne_panic _ t p
    · have e : (ZOp.readBigUint n).spec = (Op.readBigUint n.toNat).spec := by simp only [ZOp.spec, hn, if_false] <;> rfl
      rw [e]; exact spec_ne_panic _ t p
  | readBigInt n =>
    by_cases hn : n < 0
    · have e : (ZOp.readBigInt n).spec = Ideal.fail errNegative := by simp only [ZOp.spec, hn, if_true] <;> rfl
      rw [e]; exact fail_ne_panic _ t p
    · have e : (ZOp.readBigInt n).spec = (Op.readBigInt n.toNat).spec := by simp only [ZOp.spec, hn, if_false] <;> rfl
      rw [e]; exact spec_ne_panic _ t p

namespace CellSeq
variable {β : Type} (I : BitsI β)

/-- every cell's bits satisfy `P` -/
def BitsAll (P : β → Prop) (h : List (GCell β)) : Prop := ∀ (i : Nat) (c : GCell β), h[i]? = some c → P c.bits

theorem BitsAll.set {P : β → Prop} {h : List (GCell β)} (hb : BitsAll P h) (i : Nat) (c : GCell β) (hc : P c.bits) :
    BitsAll P (h.set i c) := by
  intro j d hd
  rw [List.getElem?_set] at hd
  by_cases hij : i = j
  · simp only [hij, if_true] at hd
    split at hd
    · cases hd; exact hc
    · cases hd
  · simp only [hij, if_false] at hd
    exact hb j d hd

theorem BitsAll.append {P : β → Prop} {h : List (GCell β)} (hb : BitsAll P h) (c : GCell β) (hc : P c.bits) :
    BitsAll P (h ++ [c]) := by
  intro j d hd
  rw [List.getElem?_append] at hd
  by_cases hj : j < h.length
  · simp only [hj, if_true] at hd; exact hb j d hd
  · simp only [hj, if_false] at hd
    cases hk : j - h.length with
    | zero => rw [hk] at hd; simp at hd; subst hd; exact hc
    | succ k => rw [hk] at hd; simp at hd

theorem addRefH_bitsAll {P : β → Prop} {h : List (GCell β)} (hb : BitsAll P h) (t child : Nat) :
    BitsAll P (addRefH h t child).2 := by
  unfold addRefH
  cases hc : h[t]? with
  | none => exact hb
  | some c =>
    simp only
    split
    · exact hb
    · split
      · exact hb.set t _ (hb t c hc)
      · exact hb

theorem nextRefH_bitsAll {P : β → Prop} (hreset : ∀ b, P b → P (I.reset b)) {h : List (GCell β)}
    (hb : BitsAll P h) (t : Nat) : BitsAll P (nextRefH I h t).2 := by
  unfold nextRefH
  cases hc : h[t]? with
  | none => exact hb
  | some c =>
    simp only
    split
    · exact hb
    · cases hid : c.refs[c.refCursor]? with
      | none => exact hb
      | some id =>
        simp only
        have hb1 : BitsAll P (h.set t { c with refCursor := c.refCursor + 1 }) := hb.set t _ (hb t c hc)
        cases hch : (h.set t { c with refCursor := c.refCursor + 1 })[id]? with
        | none => exact hb1
        | some ch => exact hb1.set id _ (hreset _ (hb1 id ch hch))

theorem copyLoop_bitsAll {P : β → Prop} (hreset : ∀ b, P b → P (I.reset b)) (k : Nat) :
    ∀ {h : List (GCell β)}, BitsAll P h → ∀ (t newId : Nat), BitsAll P (copyLoop I k h t newId).2 := by
  induction k with
  | zero => intro h hb t newId; exact hb
  | succ k ih =>
    intro h hb t newId
    simp only [copyLoop]
    have h1 := nextRefH_bitsAll I hreset hb t
    rcases hn : nextRefH I h t with ⟨r, h1'⟩
    rw [hn] at h1
    cases r with
    | ok id =>
      simp only
      have h2 := addRefH_bitsAll h1 newId id
      rcases ha : addRefH h1' newId id with ⟨ra, h2'⟩
      rw [ha] at h2
      cases ra with
      | ok u => exact ih h2 t newId
      | err e => exact h2
      | panic p => exact h2
    | err e => exact h1
    | panic p => exact h1

theorem copyRemainingH_bitsAll {P : β → Prop} (hreset : ∀ b, P b → P (I.reset b))
    (hrem : ∀ b b', P b → I.remaining b = .ok b' → P b') {h : List (GCell β)} (hb : BitsAll P h) (t : Nat) :
    BitsAll P (copyRemainingH I h t).2 := by
  unfold copyRemainingH
  cases hc : h[t]? with
  | none => exact hb
  | some c =>
    simp only
    cases hrb : I.remaining c.bits with
    | panic p => exact hb
    | err e => exact hb
    | ok rb =>
    simp only
    by_cases hl : I.len rb > cellBits
    · rw [if_pos hl]; exact hb
    · rw [if_neg hl]
      have hb0 : BitsAll P (h ++ [{ bits := rb, refs := [], refCursor := 0 }]) :=
        hb.append _ (hrem _ _ (hb t c hc) hrb)
      have := copyLoop_bitsAll I hreset (c.refs.length - c.refCursor) hb0 t h.length
      obtain ⟨r, h1, hl1⟩ : ∃ r h1, copyLoop I (c.refs.length - c.refCursor)
        (h ++ [{ bits := rb, refs := [], refCursor := 0 }]) t h.length = (r, h1) := ⟨_, _, rfl⟩
      rw [hl1] at this
      simp only [hl1]
      cases r with
      | ok u =>
        simp only
        cases hc1 : h1[t]? with
        | none => exact this
        | some c1 => exact this.set t _ (this t c1 hc1)
      | err e => exact this
      | panic p => exact this

/-- a step preserves a predicate on the bits that the interface preserves -/
theorem step_bitsAll {P : β → Prop} (hreset : ∀ b, P b → P (I.reset b)) (hfresh : P I.fresh)
    (hrem : ∀ b b', P b → I.remaining b = .ok b' → P b') {h : List (GCell β)} (hb : BitsAll P h) (t : Nat) (op : CellOp)
    (hop : ∀ z, op = .bit z → ∀ b, P b → P (I.runOp z b).2) : BitsAll P (step I h t op).2 := by
  have onCell_ok : ∀ (f : GCell β → Outcome Out × GCell β), (∀ c, P c.bits → P (f c).2.bits) →
      BitsAll P (onCell h t f).2 := by
    intro f hf
    unfold onCell
    cases hc : h[t]? with
    | none => exact hb
    | some c => exact hb.set t _ (hf c (hb t c hc))
  cases op with
  | bit z => simp only [step]; exact onCell_ok _ (fun c hc => hop z rfl c.bits hc)
  | newCell => simp only [step]; exact hb.append (freshCell I) hfresh
  | addRef child =>
    simp only [step]
    have := addRefH_bitsAll hb t child
    rcases ha : addRefH h t child with ⟨r, h'⟩
    rw [ha] at this
    cases r <;> exact this
  | newRef =>
    simp only [step]
    cases hc : h[t]? with
    | none => exact hb
    | some c =>
      simp only
      have := addRefH_bitsAll (hb.append (freshCell I) hfresh) t h.length
      rcases ha : addRefH (h ++ [freshCell I]) t h.length with ⟨r, h'⟩
      rw [ha] at this
      cases r <;> exact this
  | nextRef =>
    simp only [step]
    have := nextRefH_bitsAll I hreset hb t
    rcases ha : nextRefH I h t with ⟨r, h'⟩
    rw [ha] at this
    cases r <;> exact this
  | resetCounters => simp only [step]; exact onCell_ok _ (fun c hc => hreset _ hc)
  | copyRemaining =>
    simp only [step]
    have := copyRemainingH_bitsAll I hreset hrem hb t
    rcases ha : copyRemainingH I h t with ⟨r, h'⟩
    rw [ha] at this
    cases r <;> exact this
  | refsSize => simp only [step]; exact onCell_ok _ (fun c hc => hc)
  | refsAvailableForRead => simp only [step]; exact onCell_ok _ (fun c hc => hc)
  | bitsAvailableForRead => simp only [step]; exact onCell_ok _ (fun c hc => hc)
  | bitsAvailableForWrite => simp only [step]; exact onCell_ok _ (fun c hc => hc)

/-- "no `Grow`/`Append`": the operations a `Cell` offers -/
def CellOp.noGrow : CellOp → Bool
  | .bit z => z.noGrow
  | _ => true

/-- capacity invariant of an ideal cell: the bits fit the capacity, the capacity fits a cell -/
def CapOK (t : Ideal) : Prop := t.bits.length ≤ t.cap ∧ t.cap ≤ cellBits

/-- the ideal heap never panics on cell operations without `Grow`/`Append`, and stays well formed -/
theorem spec_step_no_panic {g : List (GCell Ideal)} (hw : WFH g) (hcap : BitsAll CapOK g) (t : Nat) (op : CellOp)
    (hng : CellOp.noGrow op = true) :
    (∀ p, (step specI g t op).1 ≠ .panic p) ∧ WFH (step specI g t op).2 ∧ BitsAll CapOK (step specI g t op).2 := by
  have h1 := step_no_panic specI hw t op
    (fun z c _ _ p => zspec_ne_panic z c.bits p)
    (fun c hc => by
      obtain ⟨a, b⟩ := hcap t c hc
      refine ⟨_, rfl, ?_⟩
      simp only [specI, List.length_drop]
      omega)
  refine ⟨h1.1, h1.2, ?_⟩
  apply step_bitsAll specI (P := CapOK)
  · intro b hb; exact hb
  · exact ⟨Nat.zero_le _, Nat.le_refl _⟩
  · intro b b' ⟨a, c⟩ hb'
    simp only [specI, Outcome.ok.injEq] at hb'
    subst hb'
    simp only [CapOK, List.length_drop]
    omega
  · exact hcap
  · intro z hz b ⟨a, c⟩
    subst hz
    obtain ⟨e1, e2⟩ := zop_spec_cap_len z hng b a
    exact ⟨by show (ZOp.spec z b).2.bits.length ≤ (ZOp.spec z b).2.cap; rw [e1]; exact e2,
      by show (ZOp.spec z b).2.cap ≤ cellBits; rw [e1]; exact c⟩

theorem spec_runAll_no_panic (ops : List (Nat × CellOp)) : ∀ {g : List (GCell Ideal)}, WFH g → BitsAll CapOK g →
    (∀ q ∈ ops, CellOp.noGrow q.2 = true) → ∀ r ∈ (runAll specI ops g).1, ∀ p, r ≠ .panic p := by
  induction ops with
  | nil => intro g _ _ _ r hr; simp [runAll] at hr
  | cons q rest ih =>
    intro g hw hcap hng r hr p
    obtain ⟨t, op⟩ := q
    obtain ⟨h1, h2, h3⟩ := spec_step_no_panic hw hcap t op (hng (t, op) List.mem_cons_self)
    simp only [runAll] at hr
    rcases hs : step specI g t op with ⟨r0, g'⟩
    rw [hs] at hr h1 h2 h3
    simp only at h1 h2 h3
    cases r0 with
    | panic q => exact absurd rfl (h1 q)
    | ok o =>
      simp only [List.mem_cons] at hr
      rcases hr with rfl | hr
      · simp
      · exact ih h2 h3 (fun q hq => hng q (List.mem_cons_of_mem _ hq)) r hr p
    | err e =>
      simp only [List.mem_cons] at hr
      rcases hr with rfl | hr
      · simp
      · exact ih h2 h3 (fun q hq => hng q (List.mem_cons_of_mem _ hq)) r hr p

theorem init_spec_ok : WFH initSpec ∧ BitsAll CapOK initSpec := by
  constructor
  · intro i c hc
    cases i with
    | zero => simp [initSpec, freshCell] at hc; subst hc; simp
    | succ k => simp [initSpec] at hc
  · intro i c hc
    cases i with
    | zero => simp [initSpec, freshCell, specI] at hc; subst hc; exact ⟨Nat.zero_le _, Nat.le_refl _⟩
    | succ k => simp [initSpec] at hc

end CellSeq
end Tongo
