import TongoProofs.Lemmas.AddrRoundtrip
import TongoProofs.Lemmas.Base64Bits
/-! The root-package parser `tongo.ParseAddress` (model `Address.parseAddress`): the id AND the bounce flag survive
print → parse. Core Lean only. -/
namespace Tongo.Address
open Tongo

/-- where `DecodeString` succeeds, the bytes it returns are the decoded bytes -/
theorem Base64.decodeCoreP_of_decodeCore (url : Bool) (l b : List Byte) (h : Base64.decodeCore url l = some b) :
    Base64.decodeCoreP url l = (b, true) := by
  fun_induction Base64.decodeCore url l generalizing b with
  | case1 => cases h; rfl
  | case2 c0 c1 c2 c3 rest a b' ha hb c hc d hd r hr x y z hj ih =>
    cases h
    simp only [Base64.decodeCoreP, ha, hb, hc, hd, hj, ih r hr]
  | case3 c0 c1 c2 c3 rest a b' ha hb c hc d hd hr =>
    cases h
  | case4 c0 c1 c2 c3 rest a b' ha hb c hc hd hp x y z hj =>
    cases h
    obtain ⟨rfl, rfl⟩ := hp
    simp only [Base64.decodeCoreP, ha, hb, hc, hd, hj, if_true, decide_true]
  | case5 => cases h
  | case6 c0 c1 c2 c3 rest a b' ha hb hc hp x y z hj =>
    cases h
    obtain ⟨rfl, rfl, rfl⟩ := hp
    simp only [Base64.decodeCoreP, ha, hb, hc, hj, and_self, if_true, decide_true]
  | case7 => cases h
  | case8 => cases h
  | case9 => cases h

theorem Base64.decodeP_of_decode (url : Bool) (s b : List Byte) (h : Base64.decode url s = some b) :
    Base64.decodeP url s = (b, true) := Base64.decodeCoreP_of_decodeCore url _ b h

theorem tagByte_bounce (b t : Bool) : ((tagByte b t) &&& 0x40#8 == 0#8) = b := by
  cases b <;> cases t <;> decide

/-- `tongo.ParseAddress` on the friendly form (either alphabet, all four flag combinations, int8 workchains): the same
account id and the SAME bounce flag come back -/
theorem parseAddress_human (url : Bool) (a : AccountID) (b t : Bool) (h : a.WF)
    (hw : a.wc = (a.wc.setWidth 8).signExtend 32) : parseAddress (toHumanAlpha url a b t) = .ok (a, b) := by
  have h' : a.addr.length = 32 := h
  unfold parseAddress
  rw [fromRaw_human_err]
  have hdec : Base64.decodeP true ((toHumanAlpha url a b t).map mapStd) = (humanPayload a b t, true) := by
    apply Base64.decodeP_of_decode
    unfold toHumanAlpha
    rw [map_mapStd_encode, Base64.decode_encode]
  simp only [hdec, humanPayload_length a b t h]
  have hb : (tagByte b t :: a.wc.setWidth 8 :: a.addr).length = 34 := by simp [h']
  have htake : (humanPayload a b t).take 34 = tagByte b t :: a.wc.setWidth 8 :: a.addr := by
    unfold humanPayload; exact List.take_left' hb
  have hdrop : (humanPayload a b t).drop 34 = be16 (Crc16.crc16 (tagByte b t :: a.wc.setWidth 8 :: a.addr)) := by
    unfold humanPayload; exact List.drop_left' hb
  rw [htake, hdrop]
  simp only [and_self, if_true]
  have haddr : ((humanPayload a b t).drop 2).take 32 = a.addr := by
    unfold humanPayload
    simp only [List.cons_append, List.drop_succ_cons, List.drop_zero]
    exact List.take_left' h'
  rw [haddr]
  have h0 : (humanPayload a b t).getD 0 0 = tagByte b t := by simp [humanPayload]
  have h1 : (humanPayload a b t).getD 1 0 = a.wc.setWidth 8 := by simp [humanPayload]
  rw [h0, h1, tagByte_bounce, ← hw]

/-- `tongo.ParseAddress` on the raw form: the id, bounceable -/
theorem parseAddress_raw (a : AccountID) (h : a.WF) : parseAddress (toRaw a) = .ok (a, true) := by
  unfold parseAddress; rw [raw_roundtrip a h]

end Tongo.Address
