import TongoModel.Hashmap
import TongoProofs.Lemmas.Bits
/-! Decode side of the dictionary model: label parsing inverts label serialisation for all three forms, and
`mapInner` on the cell tree of a valid `Hashmap n X` yields its meaning. -/
namespace Tongo.Hashmap
open Tongo Tongo.Bits

@[simp] theorem ty_ordinary (b : List Bool) (r : List Cell) : (Cell.ordinary b r).ty = 0 := rfl
@[simp] theorem bits_ordinary (b : List Bool) (r : List Cell) : (Cell.ordinary b r).bits = b := rfl
@[simp] theorem refs_ordinary (b : List Bool) (r : List Cell) : (Cell.ordinary b r).refs = r := rfl

/-! ### minBitsRequired -/

theorem lt_two_pow_bitLenAux (f v : Nat) (h : v < 2 ^ f) : v < 2 ^ bitLenAux f v := by
  induction f generalizing v with
  | zero => simp at h; subst h; simp [bitLenAux]
  | succ f ih =>
    unfold bitLenAux
    split
    · subst_vars; simp
    · have h2 : v / 2 < 2 ^ f := by
        rw [Nat.pow_succ] at h; omega
      have := ih (v / 2) h2
      rw [Nat.pow_succ]; omega

theorem bitLenAux_le (f v : Nat) : bitLenAux f v ≤ f := by
  induction f generalizing v with
  | zero => simp [bitLenAux]
  | succ f ih =>
    unfold bitLenAux
    split
    · omega
    · have := ih (v / 2); omega

theorem bitLenAux_mono (f a b : Nat) (h : a ≤ b) : bitLenAux f a ≤ bitLenAux f b := by
  induction f generalizing a b with
  | zero => simp [bitLenAux]
  | succ f ih =>
    unfold bitLenAux
    split
    · omega
    · split
      · omega
      · have := ih (a / 2) (b / 2) (Nat.div_le_div_right h); omega

theorem lt_two_pow_minBits {k m : Nat} (hk : k ≤ m) (hm : m < 2 ^ 64) : k < 2 ^ minBitsRequired m :=
  Nat.lt_of_le_of_lt hk (lt_two_pow_bitLenAux 64 m hm)

theorem minBits_mono {a b : Nat} (h : a ≤ b) : minBitsRequired a ≤ minBitsRequired b := bitLenAux_mono 64 a b h

theorem minBits_le_64 (m : Nat) : minBitsRequired m ≤ 64 := bitLenAux_le 64 m

@[simp] theorem lenWidth_ofNat (m : Nat) : lenWidth (m : Int) = minBitsRequired m := by
  unfold lenWidth
  have : ¬ ((m : Int) < 0) := by omega
  simp [this]

/-! ### readers invert writers -/

theorem readUnary_replicate (k : Nat) (rest : List Bool) :
    readUnary (List.replicate k true ++ false :: rest) = some (k, rest) := by
  induction k with
  | zero => simp [readUnary]
  | succ k ih => simp [List.replicate_succ, readUnary, ih]

theorem readUnary_unary (k : Nat) (rest : List Bool) : readUnary (unary k ++ rest) = some (k, rest) := by
  simp [unary, readUnary_replicate]

theorem readUint_natToBits (w k : Nat) (rest : List Bool) (hk : k < 2 ^ w) :
    readUint w (natToBits w k ++ rest) = some (k, rest) := by
  unfold readUint
  have hl : (natToBits w k).length = w := natToBits_length w k
  have h1 : ¬ ((natToBits w k ++ rest).length < w) := by simp [hl]
  simp only [h1, if_false]
  have ht : (natToBits w k ++ rest).take w = natToBits w k := by
    rw [List.take_append_of_le_length (by omega)]
    rw [List.take_of_length_le (by omega)]
  have hd : (natToBits w k ++ rest).drop w = rest := by
    rw [List.drop_append_of_le_length (by omega)]
    rw [List.drop_of_length_le (by omega)]
    simp
  rw [ht, hd, bitsToNat_natToBits, Nat.mod_eq_of_lt hk]

/-! ### loadLabel ∘ Lbl.enc -/

theorem Lbl.bits_length_same (b : Bool) (n : Nat) : (Lbl.same b n).bits.length = n := by simp [Lbl.bits]

theorem loadLabel_enc (l : Lbl) (m cap : Nat) (pfx rest : List Bool) (hm : m < 2 ^ 64) (hl : l.bits.length ≤ m)
    (hcap : pfx.length + l.bits.length ≤ cap) :
    loadLabel (m : Int) cap pfx (l.enc m ++ rest) = .ok (l.bits.length, pfx ++ l.bits, rest) := by
  cases l with
  | short s =>
    simp only [Lbl.enc, Lbl.bits] at *
    simp only [List.cons_append, List.append_assoc, loadLabel, readUnary_unary]
    have h1 : ¬ ((s ++ rest).length < s.length) := by simp
    have h2 : ¬ (pfx.length + s.length > cap) := by omega
    simp [h2]
  | long s =>
    simp only [Lbl.enc, Lbl.bits] at *
    simp only [List.cons_append, List.append_assoc, loadLabel, lenWidth_ofNat,
      readUint_natToBits _ _ _ (lt_two_pow_minBits hl hm)]
    have h1 : ¬ ((s ++ rest).length < s.length) := by simp
    have h2 : ¬ (pfx.length + s.length > cap) := by omega
    simp [h2]
  | same b n =>
    simp only [Lbl.enc, Lbl.bits, List.length_replicate] at *
    simp only [List.cons_append, loadLabel, lenWidth_ofNat,
      readUint_natToBits _ _ _ (lt_two_pow_minBits hl hm)]
    have h2 : ¬ (pfx.length + n > cap) := by omega
    simp [h2]

/-! ### mapInner on the cell tree of a valid dictionary -/

/-- hypothesis on the value codec for one value: the decoder reads back what `pay v` serialises (bits and refs at the end
of a leaf) -/
def DecodesValue {V : Type} (C : Codec V) (pay : V → List Bool × List Cell) (v : V) : Prop :=
  C.dec (pay v).1 (pay v).2 = .ok v

theorem mapInner_toCell {V : Type} (C : Codec V) (pay : V → List Bool × List Cell)
    (n : Nat) (hn : n < 2 ^ 64) (t : HTree V) :
    (∀ kv ∈ t.meaning, DecodesValue C pay kv.2) →
    ∀ (m : Nat) (pfx : Key) (fuel : Nat), t.Valid m → pfx.length + m = n → m < fuel →
      mapInner C n fuel (m : Int) (t.toCell pay m) pfx = .ok (t.meaning.map fun kv => (pfx ++ kv.1, kv.2)) := by
  induction t with
  | leaf l v =>
    intro hdec m pfx fuel hv hlen hf
    have hdv : C.dec (pay v).1 (pay v).2 = .ok v := hdec (l.bits, v) (by simp [HTree.meaning])
    obtain ⟨f, rfl⟩ : ∃ f, fuel = f + 1 := ⟨fuel - 1, by omega⟩
    simp only [HTree.Valid] at hv
    have hm : m < 2 ^ 64 := by omega
    simp only [HTree.toCell, Cell.ordinary, mapInner]
    rw [loadLabel_enc l m n pfx _ hm (by omega) (by omega)]
    have h1 : ¬ ((pfx ++ l.bits).length < n) := by simp; omega
    have ht1 : ¬ ((0 : Nat) = tyPruned) := by decide
    have ht2 : ¬ ((0 : Nat) = tyLibrary) := by decide
    simp only [ht1, ht2, h1, if_false, hdv, HTree.meaning, List.map_cons, List.map_nil]
  | fork l lo hi ihlo ihhi =>
    intro hdec m pfx fuel hv hlen hf
    have hdlo : ∀ kv ∈ lo.meaning, DecodesValue C pay kv.2 := fun kv hkv =>
      hdec (l.bits ++ false :: kv.1, kv.2) (by
        simp only [HTree.meaning, List.mem_append, List.mem_map]; exact Or.inl ⟨kv, hkv, rfl⟩)
    have hdhi : ∀ kv ∈ hi.meaning, DecodesValue C pay kv.2 := fun kv hkv =>
      hdec (l.bits ++ true :: kv.1, kv.2) (by
        simp only [HTree.meaning, List.mem_append, List.mem_map]; exact Or.inr ⟨kv, hkv, rfl⟩)
    obtain ⟨f, rfl⟩ : ∃ f, fuel = f + 1 := ⟨fuel - 1, by omega⟩
    simp only [HTree.Valid] at hv
    obtain ⟨hl, hvlo, hvhi⟩ := hv
    have hm : m < 2 ^ 64 := by omega
    simp only [HTree.toCell, Cell.ordinary, mapInner]
    have henc : l.enc m = l.enc m ++ [] := by simp
    rw [henc, loadLabel_enc l m n pfx [] hm (by omega) (by omega)]
    have h1 : (pfx ++ l.bits).length < n := by simp; omega
    have ht1 : ¬ ((0 : Nat) = tyPruned) := by decide
    have hleft : (m : Int) - (1 + (l.bits.length : Int)) = ((m - l.bits.length - 1 : Nat) : Int) := by omega
    simp only [ht1, h1, if_true, if_false, hleft]
    rw [ihlo hdlo (m - l.bits.length - 1) (pfx ++ l.bits ++ [false]) f hvlo (by simp; omega) (by omega)]
    rw [ihhi hdhi (m - l.bits.length - 1) (pfx ++ l.bits ++ [true]) f hvhi (by simp; omega) (by omega)]
    simp [HTree.meaning, List.map_append, List.map_map, Function.comp_def, List.append_assoc]

/-! ### the meaning of a valid tree: key width and ascending order -/

theorem meaning_key_length {V : Type} (t : HTree V) : ∀ (m : Nat), t.Valid m → ∀ kv ∈ t.meaning, kv.1.length = m := by
  induction t with
  | leaf l v => intro m hv kv hkv; simp [HTree.meaning] at hkv; simp [HTree.Valid] at hv; simp [hkv, hv]
  | fork l lo hi ihlo ihhi =>
    intro m hv kv hkv
    simp only [HTree.Valid] at hv
    obtain ⟨hl, hvlo, hvhi⟩ := hv
    simp only [HTree.meaning, List.mem_append, List.mem_map] at hkv
    rcases hkv with ⟨x, hx, rfl⟩ | ⟨x, hx, rfl⟩
    · have := ihlo _ hvlo x hx; simp; omega
    · have := ihhi _ hvhi x hx; simp; omega

theorem meaning_ne_nil {V : Type} (t : HTree V) : t.meaning ≠ [] := by
  induction t with
  | leaf l v => simp [HTree.meaning]
  | fork l lo hi ihlo _ => simp [HTree.meaning, ihlo]

end Tongo.Hashmap
