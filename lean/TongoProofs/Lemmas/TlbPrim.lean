import TongoModel.Tlb.Basic
import TongoProofs.Lemmas.Bits
import Mathlib.Tactic.Positivity
import Mathlib.Tactic.Linarith
import Mathlib.Tactic.NormNum
/-! Bit-level facts behind the TL-B primitives: two's complement, Go's WriteInt bit pattern, builder/slice algebra. -/
namespace Tongo.Bits

theorem intToBits_length (n : Nat) (v : Int) : (intToBits n v).length = n := by
  simp [intToBits]

/-- value of an in-range integer modulo 2^n, as a natural number -/
theorem toNat_emod_nonneg (n : Nat) (v : Int) (h0 : 0 ≤ v) (h1 : v < 2 ^ n) : (v % (2 ^ n : Int)).toNat = v.toNat := by
  rw [Int.emod_eq_of_lt h0 h1]

theorem bitsToInt_cons (s : Bool) (rest : List Bool) :
    bitsToInt (s :: rest) = if s then (bitsToNat rest : Int) - (2 ^ rest.length : Int) else bitsToNat rest := rfl

/-- two's complement decoding inverts two's complement encoding on the representable range -/
theorem bitsToInt_intToBits (n : Nat) (v : Int) (hn : 1 ≤ n) (lo : -(2 ^ (n - 1) : Int) ≤ v) (hi : v < (2 ^ (n - 1) : Int)) :
    bitsToInt (intToBits n v) = v := by
  obtain ⟨m, rfl⟩ : ∃ m, n = m + 1 := ⟨n - 1, by omega⟩
  simp only [Nat.add_sub_cancel] at lo hi
  unfold intToBits
  rw [natToBits, bitsToInt_cons, natToBits_length, bitsToNat_natToBits]
  have hp : (0 : Int) < 2 ^ m := by positivity
  have hpow : (2 : Int) ^ (m + 1) = 2 * 2 ^ m := by rw [Int.pow_succ]; ring
  by_cases hneg : v < 0
  · -- v mod 2^(m+1) = v + 2^(m+1), top bit set
    have hmod : v % (2 ^ (m + 1) : Int) = v + 2 ^ (m + 1) := by
      rw [← Int.add_emod_right v (2 ^ (m + 1))]
      exact Int.emod_eq_of_lt (by omega) (by omega)
    have hw : (v % (2 ^ (m + 1) : Int)).toNat = (v + 2 ^ (m + 1)).toNat := by rw [hmod]
    set w := (v + 2 ^ (m + 1)).toNat with hwdef
    have hwI : (w : Int) = v + 2 ^ (m + 1) := by rw [hwdef]; exact Int.toNat_of_nonneg (by omega)
    have hwlo : 2 ^ m ≤ w := by
      have : ((2 ^ m : Nat) : Int) ≤ (w : Int) := by push_cast; omega
      exact_mod_cast this
    have hwhi : w < 2 ^ (m + 1) := by
      have : (w : Int) < ((2 ^ (m + 1) : Nat) : Int) := by push_cast; omega
      exact_mod_cast this
    rw [hw]
    have htb : w.testBit m = true := by
      rw [Nat.testBit_eq_decide_div_mod_eq]
      have : w / 2 ^ m = 1 := by
        apply Nat.div_eq_of_lt_le <;> [simpa using hwlo; (rw [Nat.pow_succ] at hwhi; omega)]
      simp [this]
    rw [htb]
    simp only [if_true]
    have hwm : w % 2 ^ m = w - 2 ^ m := by
      rw [Nat.pow_succ] at hwhi
      rw [Nat.mod_eq_sub_mod hwlo, Nat.mod_eq_of_lt (by omega)]
    rw [hwm]
    have : ((w - 2 ^ m : Nat) : Int) = (w : Int) - 2 ^ m := by
      rw [Int.ofNat_sub hwlo]; push_cast; rfl
    rw [this, hwI]; omega
  · have h0 : 0 ≤ v := by omega
    have hmod : v % (2 ^ (m + 1) : Int) = v := Int.emod_eq_of_lt h0 (by omega)
    rw [hmod]
    have hvn : v.toNat < 2 ^ m := by
      have : ((v.toNat : Nat) : Int) < ((2 ^ m : Nat) : Int) := by rw [Int.toNat_of_nonneg h0]; push_cast; exact hi
      exact_mod_cast this
    have htb : v.toNat.testBit m = false := by
      rw [Nat.testBit_eq_decide_div_mod_eq, Nat.div_eq_of_lt hvn]; simp
    rw [htb]
    simp only [Bool.false_eq_true, if_false]
    rw [Nat.mod_eq_of_lt hvn, Int.toNat_of_nonneg h0]

end Tongo.Bits

namespace Tongo.Bits

/-- the low `a` bits of `v mod 2^b` (a ≤ b) are the low `a` bits of `v` -/
theorem toNat_emod_mod (v : Int) (a b : Nat) (h : a ≤ b) :
    (v % (2 ^ b : Int)).toNat % 2 ^ a = (v % (2 ^ a : Int)).toNat := by
  have hb : (0 : Int) ≤ v % 2 ^ b := Int.emod_nonneg _ (by positivity)
  have ha : (0 : Int) ≤ v % 2 ^ a := Int.emod_nonneg _ (by positivity)
  have hdvd : ((2 : Int) ^ a) ∣ 2 ^ b := pow_dvd_pow 2 h
  have key : (((v % (2 ^ b : Int)).toNat % 2 ^ a : Nat) : Int) = ((v % (2 ^ a : Int)).toNat : Int) := by
    push_cast
    rw [Int.toNat_of_nonneg hb, Int.toNat_of_nonneg ha]
    exact Int.emod_emod_of_dvd v hdvd
  exact_mod_cast key

theorem natToBits_congr (k a b : Nat) (h : a % 2 ^ k = b % 2 ^ k) : natToBits k a = natToBits k b := by
  rw [← natToBits_mod k a, ← natToBits_mod k b, h]

/-- the low `k` bits written from `v mod 2^b` do not depend on `b ≥ k` -/
theorem natToBits_emod (v : Int) (k b : Nat) (h : k ≤ b) :
    natToBits k (v % (2 ^ b : Int)).toNat = natToBits k (v % (2 ^ k : Int)).toNat := by
  apply natToBits_congr
  rw [toNat_emod_mod v k b h, toNat_emod_mod v k k (Nat.le_refl _)]

/-- the sign bit of the two's complement representation -/
theorem testBit_top (m : Nat) (v : Int) (lo : -(2 ^ m : Int) ≤ v) (hi : v < (2 ^ m : Int)) :
    (v % (2 ^ (m + 1) : Int)).toNat.testBit m = decide (v < 0) := by
  have hp : (0 : Int) < 2 ^ m := by positivity
  have hpow : (2 : Int) ^ (m + 1) = 2 * 2 ^ m := by rw [Int.pow_succ]; ring
  by_cases hneg : v < 0
  · have hmod : v % (2 ^ (m + 1) : Int) = v + 2 ^ (m + 1) := by
      rw [← Int.add_emod_right v (2 ^ (m + 1))]
      exact Int.emod_eq_of_lt (by omega) (by omega)
    rw [hmod]
    set w := (v + 2 ^ (m + 1)).toNat with hwdef
    have hwI : (w : Int) = v + 2 ^ (m + 1) := by rw [hwdef]; exact Int.toNat_of_nonneg (by omega)
    have hwlo : 2 ^ m ≤ w := by
      have : ((2 ^ m : Nat) : Int) ≤ (w : Int) := by push_cast; omega
      exact_mod_cast this
    have hwhi : w < 2 ^ (m + 1) := by
      have : (w : Int) < ((2 ^ (m + 1) : Nat) : Int) := by push_cast; omega
      exact_mod_cast this
    rw [Nat.testBit_eq_decide_div_mod_eq]
    have : w / 2 ^ m = 1 := by
      apply Nat.div_eq_of_lt_le <;> [simpa using hwlo; (rw [Nat.pow_succ] at hwhi; omega)]
    simp [this, hneg]
  · have h0 : 0 ≤ v := by omega
    rw [Int.emod_eq_of_lt h0 (by omega)]
    have hvn : v.toNat < 2 ^ m := by
      have : ((v.toNat : Nat) : Int) < ((2 ^ m : Nat) : Int) := by rw [Int.toNat_of_nonneg h0]; push_cast; exact hi
      exact_mod_cast this
    rw [Nat.testBit_eq_decide_div_mod_eq, Nat.div_eq_of_lt hvn]; simp [hneg]

end Tongo.Bits

namespace Tongo.Tlb
open Tongo Tongo.Bits

/-- C04 `writeInt_spec`: for every width 1..64 and every representable value, Go's WriteInt emits exactly the
two's complement representation -/
theorem intBitsGo_eq (n : Nat) (v : Int) (hn : 1 ≤ n) (hn64 : n ≤ 64)
    (lo : -(2 ^ (n - 1) : Int) ≤ v) (hi : v < (2 ^ (n - 1) : Int)) :
    Builder.intBitsGo v n = intToBits n v := by
  obtain ⟨m, rfl⟩ : ∃ m, n = m + 1 := ⟨n - 1, by omega⟩
  simp only [Nat.add_sub_cancel] at lo hi
  unfold Builder.intBitsGo intToBits
  by_cases h1 : m = 0
  · subst h1
    simp only [Nat.zero_add, if_true]
    have : v = -1 ∨ v = 0 := by
      have l2 : -(1 : Int) ≤ v := by simpa using lo
      have h2 : v < (1 : Int) := by simpa using hi
      omega
    rcases this with rfl | rfl <;> decide
  · rw [if_neg (by omega), natToBits, Nat.add_sub_cancel, testBit_top m v lo hi]
    congr 1
    rw [natToBits_emod v m 64 (by omega), natToBits_emod v m (m + 1) (by omega)]

end Tongo.Tlb
