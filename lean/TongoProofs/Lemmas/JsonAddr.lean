import TongoModel.Json
import TongoProofs.Lemmas.Json
import TongoProofs.Lemmas.JsonValid
import TongoProofs.Lemmas.JsonMisc
import TongoProofs.Lemmas.JsonFift
/-! MsgAddress JSON: round trip for every kind of the property's domain, validity, totality. -/
namespace Tongo.Json
open Tongo Tongo.Dec

/-- the domain of the property for MsgAddress: anycast fields are uint32, the std workchain an int8 with a 32-byte
address, the var workchain an int32; excluded are the zero-length addr_extern (defect #15, known finding) and the var
address whose text is identical to a standard one (256 bits in an 8-bit workchain) -/
def AddrDomain : MsgAddr → Prop
  | .none => True
  | .extern b => b ≠ []
  | .std any wc addr =>
      (∀ a, any = some a → a.depth < 2 ^ 32 ∧ a.pfx < 2 ^ 32) ∧ -128 ≤ wc ∧ wc ≤ 127 ∧ addr.length = 32
  | .var any wc b =>
      (∀ a, any = some a → a.depth < 2 ^ 32 ∧ a.pfx < 2 ^ 32) ∧ -(2 ^ 31 : Int) ≤ wc ∧ wc < (2 ^ 31 : Int) ∧
      ¬ (b.length = 256 ∧ -128 ≤ wc ∧ wc ≤ 127)

/-! ### strings.Split -/

theorem splitOn_ne_nil (sep : Char) (s : Str) : splitOn sep s ≠ [] := by
  induction s with
  | nil => simp [splitOn]
  | cons c r ih =>
    unfold splitOn
    split
    · simp
    · split <;> simp

theorem splitOn_no_sep (sep : Char) (s : Str) (h : ∀ c ∈ s, c ≠ sep) : splitOn sep s = [s] := by
  induction s with
  | nil => rfl
  | cons c r ih =>
    have hc : (c == sep) = false := by simpa using h c (by simp)
    rw [splitOn, ih (fun x hx => h x (by simp [hx]))]
    simp [hc]

theorem splitOn_append_sep (sep : Char) (a b : Str) (h : ∀ c ∈ a, c ≠ sep) :
    splitOn sep (a ++ sep :: b) = a :: splitOn sep b := by
  induction a with
  | nil => simp [splitOn]
  | cons c r ih =>
    have hc : (c == sep) = false := by simpa using h c (by simp)
    rw [List.cons_append, splitOn, ih (fun x hx => h x (by simp [hx]))]
    simp [hc]

/-! ### the anycast suffix -/

def anyBody (a : Anycast) : Str := anycastLit ++ printNat a.depth ++ ',' :: printNat a.pfx ++ [')']

theorem anySuffix_some (a : Anycast) : anySuffix (some a) = ':' :: anyBody a := by
  simp [anySuffix, anyBody]

theorem anycastLit_no_colon : ∀ c ∈ anycastLit, c ≠ ':' ∧ c ≠ '"' ∧ isSafe c = true := by decide

theorem anyBody_chars (a : Anycast) : ∀ c ∈ anyBody a, c ≠ ':' ∧ c ≠ '"' ∧ isSafe c = true := by
  intro c hc
  have hd : ∀ n, ∀ x ∈ printNat n, x ≠ ':' ∧ x ≠ '"' ∧ isSafe x = true := fun n x hx =>
    ⟨printNat_no n ':' (by decide) x hx, printNat_no n '"' (by decide) x hx,
      printNatB_safe 10 (by omega) (by omega) n x hx⟩
  simp only [anyBody, List.mem_append, List.mem_cons, List.not_mem_nil, or_false] at hc
  rcases hc with ((hc | hc) | (rfl | hc)) | rfl
  · exact anycastLit_no_colon c hc
  · exact hd _ c hc
  · decide
  · exact hd _ c hc
  · decide

theorem takeWhile_append_stop {α} (p : α → Bool) (a : List α) (x : α) (r : List α)
    (ha : ∀ c ∈ a, p c = true) (hx : p x = false) : (a ++ x :: r).takeWhile p = a := by
  induction a with
  | nil => simp [List.takeWhile, hx]
  | cons c t ih =>
    rw [List.cons_append, List.takeWhile_cons_of_pos (ha c (by simp)), ih (fun y hy => ha y (by simp [hy]))]

theorem takeWhile_all {α} (p : α → Bool) (a : List α) (ha : ∀ c ∈ a, p c = true) : a.takeWhile p = a := by
  induction a with
  | nil => rfl
  | cons c t ih =>
    rw [List.takeWhile_cons_of_pos (ha c (by simp)), ih (fun y hy => ha y (by simp [hy]))]

theorem scanSkipSpace_digit (c : Char) (r : Str) (h : isDigit c = true) : scanSkipSpace (c :: r) = .ok (c :: r) := by
  have h1 : (c == '\n') = false := by
    apply beq_false_of_ne; intro e; subst e; revert h; decide
  have h2 : isScanSpace c = false := by
    simp only [isDigit, Bool.and_eq_true, decide_eq_true_eq] at h
    simp only [isScanSpace, Bool.or_eq_false_iff, Bool.and_eq_false_iff, decide_eq_false_iff_not, beq_eq_false_iff_ne]
    omega
  simp [scanSkipSpace, h1, h2]

/-- `%d` reads back a printed uint32, stopping at the following non-digit -/
theorem scanUint32_print (n : Nat) (hn : n < 2 ^ 32) (rest : Str) (hr : ∀ x, rest.head? = some x → isDigit x = false) :
    scanUint32 (printNat n ++ rest) = .ok (n, rest) := by
  obtain ⟨c, r, hp, _, _, _⟩ := printNatB_head 10 (by omega) (by omega) n
  have hp' : printNat n = c :: r := hp
  have hall := printNat_all_digits n
  have hcd : isDigit c = true := hall c (by rw [hp']; simp)
  have htok : (printNat n ++ rest).takeWhile isDigit = printNat n := by
    cases rest with
    | nil => rw [List.append_nil]; exact takeWhile_all _ _ hall
    | cons x xs => exact takeWhile_append_stop _ _ x xs hall (hr x rfl)
  unfold scanUint32
  have hss : scanSkipSpace (printNat n ++ rest) = .ok (printNat n ++ rest) := by
    rw [hp', List.cons_append]; exact scanSkipSpace_digit c _ hcd
  rw [hss]
  have hne : (printNat n ++ rest).isEmpty = false := by rw [hp']; rfl
  have htne : (printNat n).isEmpty = false := by rw [hp']; rfl
  simp only [hne, Bool.false_eq_true, if_false, htok, htne,
    parseUint_printNat 64 (by omega) (by omega) n, show n < 2 ^ 64 from by omega, if_true, hn]
  simp

theorem scanAnycastR_print (a : Anycast) (hd : a.depth < 2 ^ 32) (hp : a.pfx < 2 ^ 32) :
    scanAnycastR (printNat a.depth ++ ',' :: printNat a.pfx) = .ok a := by
  unfold scanAnycastR
  rw [scanUint32_print a.depth hd _ (by intro x hx; simp at hx; subst hx; decide)]
  simp only []
  have := scanUint32_print a.pfx hp [] (by intro x hx; simp at hx)
  rw [List.append_nil] at this
  rw [this]

theorem scanAnycast_print (a : Anycast) (hd : a.depth < 2 ^ 32) (hp : a.pfx < 2 ^ 32) :
    scanAnycast (printNat a.depth ++ ',' :: printNat a.pfx) = .ok a := by
  unfold scanAnycast
  rw [utf8Decode_ascii, scanAnycastR_print a hd hp]
  intro c hc
  simp only [List.mem_append, List.mem_cons] at hc
  rcases hc with hc | rfl | hc
  · exact printNat_ascii _ c hc
  · decide
  · exact printNat_ascii _ c hc

/-- the anycast part of the text is recognised and read back -/
theorem anycast_part (a : Anycast) (hd : a.depth < 2 ^ 32) (hp : a.pfx < 2 ^ 32) :
    hasPrefix anycastLit (anyBody a) = true ∧ hasSuffixChar ')' (anyBody a) = true ∧
    goSlice (anyBody a) anycastLit.length ((anyBody a).length - 1) = .ok (printNat a.depth ++ ',' :: printNat a.pfx) := by
  refine ⟨?_, ?_, ?_⟩
  · simp [hasPrefix, anyBody, List.append_assoc]
  · have : anyBody a = (anycastLit ++ printNat a.depth ++ ',' :: printNat a.pfx) ++ [')'] := by simp [anyBody]
    rw [this]; exact hasSuffixChar_concat _ _
  · have e : anyBody a = anycastLit ++ ((printNat a.depth ++ ',' :: printNat a.pfx) ++ [')']) := by
      simp [anyBody, List.append_assoc]
    have hl : (anyBody a).length = anycastLit.length + (printNat a.depth ++ ',' :: printNat a.pfx).length + 1 := by
      rw [e]; simp only [List.length_append, List.length_cons, List.length_nil]; omega
    unfold goSlice
    have hc : anycastLit.length ≤ (anyBody a).length - 1 ∧ (anyBody a).length - 1 ≤ (anyBody a).length := by omega
    simp only [hc, and_self, if_true]
    congr 1
    rw [hl, Nat.add_sub_cancel, e, ← List.append_assoc, List.take_left' (by simp), List.drop_left' rfl]

/-! ### the round trip, kind by kind -/

theorem printInt_ne_nil (v : Int) : printInt v ≠ [] := by
  unfold printInt; split
  · simp
  · exact printNatB_ne_nil 10 _

theorem anySuffix_no_quote (any : Option Anycast) : ∀ c ∈ anySuffix any, c ≠ '"' := by
  cases any with
  | none => intro c hc; cases hc
  | some a =>
    rw [anySuffix_some]
    intro c hc
    simp only [List.mem_cons] at hc
    rcases hc with rfl | hc
    · decide
    · exact (anyBody_chars a c hc).2.1

theorem anySuffix_safe (any : Option Anycast) : ∀ c ∈ anySuffix any, isSafe c = true := by
  cases any with
  | none => intro c hc; cases hc
  | some a =>
    rw [anySuffix_some]
    intro c hc
    simp only [List.mem_cons] at hc
    rcases hc with rfl | hc
    · decide
    · exact (anyBody_chars a c hc).2.2

/-- Split of `wc:body[:Anycast(d,p)]` -/
theorem split_addr (wc : Int) (body : Str) (hb : ∀ c ∈ body, c ≠ ':') (any : Option Anycast) :
    splitOn ':' (printInt wc ++ ':' :: body ++ anySuffix any) =
      printInt wc :: body :: (match any with | none => [] | some a => [anyBody a]) := by
  have hw : ∀ c ∈ printInt wc, c ≠ ':' := printInt_no wc ':' (by decide) (by decide)
  cases any with
  | none =>
    simp only [anySuffix, List.append_nil]
    rw [splitOn_append_sep _ _ _ hw, splitOn_no_sep _ _ hb]
  | some a =>
    rw [anySuffix_some]
    have : printInt wc ++ ':' :: body ++ ':' :: anyBody a = printInt wc ++ ':' :: (body ++ ':' :: anyBody a) := by simp
    rw [this, splitOn_append_sep _ _ _ hw, splitOn_append_sep _ _ _ hb,
      splitOn_no_sep _ _ (fun c hc => (anyBody_chars a c hc).1)]

theorem parseAnycastPart_print (a : Anycast) (hd : a.depth < 2 ^ 32) (hp : a.pfx < 2 ^ 32) :
    parseAnycastPart (anyBody a) = .ok a := by
  obtain ⟨h1, h2, h3⟩ := anycast_part a hd hp
  unfold parseAnycastPart
  simp only [h1, h2, h3, Bool.not_true, Bool.or_self, Bool.false_eq_true, if_false, Outcome.bind,
    scanAnycast_print a hd hp]

theorem hexLower_no (bs : List UInt8) (x : Char) (hx : isLowerHex x = false) : ∀ c ∈ hexLower bs, c ≠ x :=
  fun c hc => lowerHex_ne c x (hexLower_chars bs c hc) hx

theorem parseAddrBody_std (any : Option Anycast) (wc : Int) (addr : List UInt8) (hlo : -128 ≤ wc) (hhi : wc ≤ 127)
    (hlen : addr.length = 32) : parseAddrBody any (printInt wc) (hexLower addr) = .ok (.std any wc addr) := by
  have h32 : parseInt (printInt wc) 10 32 = .ok wc :=
    parseInt_printInt_in_range 32 (by omega) (by omega) wc (by simp; omega) (by simp; omega)
  have h8 : parseInt (printInt wc) 10 8 = .ok wc :=
    parseInt_printInt_in_range 8 (by omega) (by omega) wc (by simp; omega) (by simp; omega)
  have hl : (hexLower addr).length = 64 := by rw [hexLower_length, hlen]
  have hs : hasSuffixChar '_' (hexLower addr) = false :=
    hasSuffixChar_false_of_all _ _ (hexLower_no addr '_' (by decide))
  unfold parseAddrBody
  simp [isInt8Text, h32, h8, hl, hs, hlo, hhi, decodeChars_hexLower, Outcome.bind]

theorem parseAddrBody_var (any : Option Anycast) (wc : Int) (b : List Bool)
    (hlo : -(2 ^ 31 : Int) ≤ wc) (hhi : wc < (2 ^ 31 : Int)) (hex : ¬ (b.length = 256 ∧ -128 ≤ wc ∧ wc ≤ 127)) :
    parseAddrBody any (printInt wc) (toFift b) = .ok (.var any wc b) := by
  have h32 : parseInt (printInt wc) 10 32 = .ok wc :=
    parseInt_printInt_in_range 32 (by omega) (by omega) wc (by simpa using hlo) (by simpa using hhi)
  have hcond : ¬ ((toFift b).length = 64 ∧ isInt8Text (printInt wc) = true ∧
      (!hasSuffixChar '_' (toFift b)) = true) := by
    rintro ⟨h1, h2, h3⟩
    simp only [isInt8Text, h32, Bool.and_eq_true, decide_eq_true_eq] at h2
    have h3' : hasSuffixChar '_' (toFift b) = false := by simpa using h3
    exact hex ⟨toFift_lookalike b h1 h3', h2.1, h2.2⟩
  unfold parseAddrBody
  simp only [hcond, if_false, fromFift_toFift, h32, Outcome.bind]

/-- hex.DecodeString accepts upper-case digits: an even number of them decodes -/
theorem decodeChars_upper : ∀ (ns : List Nat), (∀ n ∈ ns, n < 16) → ns.length % 2 = 0 →
    ∃ bs, Hex.decodeChars (ns.map Hex.nibbleCharUpper) = some bs
  | [], _, _ => ⟨[], rfl⟩
  | [_], _, h => by simp at h
  | a :: b :: rest, hlt, he => by
    obtain ⟨r, hr⟩ := decodeChars_upper rest (fun n hn => hlt n (by simp [hn]))
      (by simp only [List.length_cons] at he; omega)
    refine ⟨UInt8.ofNat (a * 16 + b) :: r, ?_⟩
    simp only [List.map_cons]
    rw [Hex.decodeChars, charNibble_nibbleCharUpper a (hlt a (by simp)),
      charNibble_nibbleCharUpper b (hlt b (by simp)), hr]

/-- EVERY look-alike is ambiguous: a variable address of exactly 256 bits in a workchain that fits int8 is read back as
a standard address (the complement of the last clause of `AddrDomain`) -/
theorem parseAddrBody_lookalike (any : Option Anycast) (wc : Int) (b : List Bool) (hlo : -128 ≤ wc) (hhi : wc ≤ 127)
    (hb : b.length = 256) : ∃ addr, parseAddrBody any (printInt wc) (toFift b) = .ok (.std any wc addr) := by
  have h32 : parseInt (printInt wc) 10 32 = .ok wc :=
    parseInt_printInt_in_range 32 (by omega) (by omega) wc (by simp; omega) (by simp; omega)
  have h8 : parseInt (printInt wc) 10 8 = .ok wc :=
    parseInt_printInt_in_range 8 (by omega) (by omega) wc (by simp; omega) (by simp; omega)
  have htxt := toFift_aligned b (by omega)
  have hl : (toFift b).length = 64 := by rw [htxt]; simp [nibblesOf_length, hb]
  have hs : hasSuffixChar '_' (toFift b) = false := by
    rw [htxt]
    apply hasSuffixChar_false_of_all
    intro x hx
    simp only [List.mem_map] at hx
    obtain ⟨n, hn, rfl⟩ := hx
    exact upperHex_ne _ '_' (nibbleCharUpper_upperHex n (nibblesOf_lt b n hn)) (by decide)
  obtain ⟨dst, hdst⟩ := decodeChars_upper (nibblesOf b) (nibblesOf_lt b) (by rw [nibblesOf_length, hb])
  rw [← htxt] at hdst
  refine ⟨dst, ?_⟩
  unfold parseAddrBody
  simp [isInt8Text, h32, h8, hl, hs, hlo, hhi, hdst, Outcome.bind]

/-- the parse of `wc:body[:Anycast(d,p)]`, reduced to the parse of its parts -/
theorem parseMsgAddr_parts (wc : Int) (body : Str) (hb : ∀ c ∈ body, c ≠ ':') (hbq : ∀ c ∈ body, c ≠ '"')
    (any : Option Anycast) (hany : ∀ a, any = some a → a.depth < 2 ^ 32 ∧ a.pfx < 2 ^ 32) :
    parseMsgAddr (quote (printInt wc ++ ':' :: body ++ anySuffix any)) = parseAddrBody any (printInt wc) body := by
  unfold parseMsgAddr
  have hq : ∀ c ∈ printInt wc ++ ':' :: body ++ anySuffix any, c ≠ '"' := by
    intro c hc
    simp only [List.mem_append, List.mem_cons] at hc
    rcases hc with (hc | rfl | hc) | hc
    · exact printInt_no wc '"' (by decide) (by decide) c hc
    · decide
    · exact hbq c hc
    · exact anySuffix_no_quote any c hc
  rw [trimQuote_quote _ hq]
  have hne : (printInt wc ++ ':' :: body ++ anySuffix any).isEmpty = false := by
    have := printInt_ne_nil wc
    cases h : printInt wc with
    | nil => exact absurd h this
    | cons _ _ => rfl
  simp only [hne, Bool.false_eq_true, if_false]
  rw [split_addr wc body hb any]
  cases any with
  | none => rfl
  | some a =>
    obtain ⟨hd, hp⟩ := hany a rfl
    simp only [parseAnycastPart_print a hd hp, Outcome.bind]

theorem parseMsgAddr_std (any : Option Anycast) (wc : Int) (addr : List UInt8)
    (hany : ∀ a, any = some a → a.depth < 2 ^ 32 ∧ a.pfx < 2 ^ 32) (hlo : -128 ≤ wc) (hhi : wc ≤ 127)
    (hlen : addr.length = 32) : parseMsgAddr (printMsgAddr (.std any wc addr)) = .ok (.std any wc addr) := by
  unfold printMsgAddr
  rw [parseMsgAddr_parts wc _ (hexLower_no addr ':' (by decide)) (hexLower_no addr '"' (by decide)) any hany]
  exact parseAddrBody_std any wc addr hlo hhi hlen

theorem parseMsgAddr_var (any : Option Anycast) (wc : Int) (b : List Bool)
    (hany : ∀ a, any = some a → a.depth < 2 ^ 32 ∧ a.pfx < 2 ^ 32) (hlo : -(2 ^ 31 : Int) ≤ wc) (hhi : wc < (2 ^ 31 : Int))
    (hex : ¬ (b.length = 256 ∧ -128 ≤ wc ∧ wc ≤ 127)) :
    parseMsgAddr (printMsgAddr (.var any wc b)) = .ok (.var any wc b) := by
  unfold printMsgAddr
  rw [parseMsgAddr_parts wc _ (toFift_no b ':' (by decide) (by decide)) (toFift_no b '"' (by decide) (by decide)) any hany]
  exact parseAddrBody_var any wc b hlo hhi hex

theorem parseMsgAddr_extern (b : List Bool) (hb : b ≠ []) :
    parseMsgAddr (printMsgAddr (.extern b)) = .ok (.extern b) := by
  unfold parseMsgAddr printMsgAddr
  rw [trimQuote_quote _ (toFift_no b '"' (by decide) (by decide))]
  have hne : (toFift b).isEmpty = false := by
    have := toFift_ne_nil b hb
    cases h : toFift b with
    | nil => exact absurd h this
    | cons _ _ => rfl
  simp only [hne, Bool.false_eq_true, if_false,
    splitOn_no_sep ':' (toFift b) (toFift_no b ':' (by decide) (by decide)), fromFift_toFift, Outcome.bind]

theorem parseMsgAddr_print (a : MsgAddr) (h : AddrDomain a) : parseMsgAddr (printMsgAddr a) = .ok a := by
  cases a with
  | none => decide
  | extern b => exact parseMsgAddr_extern b h
  | std any wc addr => exact parseMsgAddr_std any wc addr h.1 h.2.1 h.2.2.1 h.2.2.2
  | var any wc b => exact parseMsgAddr_var any wc b h.1 h.2.1 h.2.2.1 h.2.2.2

/-! ### validity and totality -/

theorem valid_printMsgAddr (a : MsgAddr) : valid (printMsgAddr a) = true := by
  cases a with
  | none => decide
  | extern b => exact valid_quote _ (toFift_safe b)
  | std any wc addr =>
    apply valid_quote
    intro c hc
    simp only [List.mem_append, List.mem_cons] at hc
    rcases hc with (hc | rfl | hc) | hc
    · exact printInt_safe wc c hc
    · decide
    · exact hexLower_safe addr c hc
    · exact anySuffix_safe any c hc
  | var any wc b =>
    apply valid_quote
    intro c hc
    simp only [List.mem_append, List.mem_cons] at hc
    rcases hc with (hc | rfl | hc) | hc
    · exact printInt_safe wc c hc
    · decide
    · exact toFift_safe b c hc
    · exact anySuffix_safe any c hc

theorem scanUint32_total (s : Str) : (scanUint32 s).isPanic = false := by
  unfold scanUint32
  have h := scanSkipSpace_total s
  split
  · simp only []
    repeat' split
    all_goals rfl
  · rfl
  · rename_i e he; rw [he] at h; cases h

theorem scanAnycastR_total (s : Str) : (scanAnycastR s).isPanic = false := by
  unfold scanAnycastR
  have h := scanUint32_total s
  split
  · split
    · rename_i r' _
      have h2 := scanUint32_total r'
      split
      · rfl
      · rfl
      · rename_i e he; rw [he] at h2; cases h2
    · rfl
  · rfl
  · rename_i e he; rw [he] at h; cases h

theorem scanAnycast_total (s : Str) : (scanAnycast s).isPanic = false := scanAnycastR_total _

/-- the slice expression `parts[2][len("Anycast("):len(parts[2])-1]` cannot go out of range after the prefix and
suffix checks -/
theorem goSlice_anycast (p2 : Str) (h1 : hasPrefix anycastLit p2 = true) (h2 : hasSuffixChar ')' p2 = true) :
    (goSlice p2 anycastLit.length (p2.length - 1)).isPanic = false := by
  have hp : anycastLit <+: p2 := List.isPrefixOf_iff_prefix.mp h1
  obtain ⟨t, ht⟩ := hp
  have hlen : p2.length = anycastLit.length + t.length := by rw [← ht]; simp
  have ht0 : t ≠ [] := by
    intro e
    subst e
    rw [List.append_nil] at ht
    subst ht
    revert h2; decide
  have : 0 < t.length := List.length_pos_iff.mpr ht0
  unfold goSlice
  have hc : anycastLit.length ≤ p2.length - 1 ∧ p2.length - 1 ≤ p2.length := by omega
  simp only [hc, and_self, if_true]
  rfl

theorem parseAnycastPart_total (p2 : Str) : (parseAnycastPart p2).isPanic = false := by
  unfold parseAnycastPart
  split
  · rfl
  · rename_i hcond
    simp only [Bool.or_eq_true, Bool.not_eq_true', not_or, Bool.not_eq_false] at hcond
    exact isPanic_bind _ _ (goSlice_anycast p2 hcond.1 hcond.2) scanAnycast_total

theorem parseAddrBody_total (any : Option Anycast) (p0 p1 : Str) : (parseAddrBody any p0 p1).isPanic = false := by
  unfold parseAddrBody
  have h8 : ∀ dst, ((parseInt p0 10 8).bind fun wc => Outcome.ok (MsgAddr.std any wc dst)).isPanic = false :=
    fun dst => isPanic_bind _ _ (parseInt_total _ _ _) (fun _ => rfl)
  have hv : ((fromFift p1).bind fun bits => (parseInt p0 10 32).bind fun wc =>
      Outcome.ok (MsgAddr.var any wc bits)).isPanic = false :=
    isPanic_bind _ _ (fromFift_total _) (fun _ => isPanic_bind _ _ (parseInt_total _ _ _) (fun _ => rfl))
  split
  · split
    · rfl
    · exact h8 _
  · exact hv

theorem total_parseMsgAddr (p : Str) : (parseMsgAddr p).isPanic = false := by
  unfold parseMsgAddr
  simp only []
  split
  · rfl
  · have hsn := splitOn_ne_nil ':' (trimQuote p)
    split
    · rename_i hs; exact absurd hs hsn
    · exact isPanic_bind _ _ (fromFift_total _) (fun _ => rfl)
    · exact parseAddrBody_total _ _ _
    · exact isPanic_bind _ _ (parseAnycastPart_total _) (fun _ => parseAddrBody_total _ _ _)
    · rfl

end Tongo.Json
