import TongoModel.CellHashSpec
import TongoProofs.Lemmas.Bits
/-! Helper lemmas for C02: the per-level loop of `newImmutableCell` (model: `levelStep`/`computeInfo`) computes the
hashes and depths of the definition (`Spec.hashLevel`/`Spec.depthLevel`), for one cell whose children are already
resolved. Facts about 3-bit masks are closed by `decide` over the finite table. -/
open Tongo
namespace Tongo.CellHashLemmas

/-! ### the byte formulas of the specification equal the model's helpers -/

theorem bitsToNat_replicate_false (k : Nat) : Bits.bitsToNat (List.replicate k false) = 0 := by
  induction k with
  | zero => rfl
  | succ k ih => rw [List.replicate_succ, Bits.bitsToNat_cons, ih]; simp

theorem byteOfBits_eq (bs : List Bool) :
    Spec.byteOfBits bs = UInt8.ofNat (Bits.bitsToNat (bs ++ List.replicate (8 - bs.length) false)) := by
  unfold Spec.byteOfBits
  rw [Bits.bitsToNat_append, bitsToNat_replicate_false, List.length_replicate, Nat.add_zero]
  congr 2
  unfold Bits.bitsToNat
  congr 1
  funext acc b
  cases b <;> rfl

theorem bitsToBytes_cons_step (h : Bool) (t : List Bool) :
    Bits.bitsToBytes (h :: t) = Spec.byteOfBits ((h :: t).take 8) :: Bits.bitsToBytes ((h :: t).drop 8) := by
  rw [Bits.bitsToBytes, byteOfBits_eq]
  simp

theorem packBytes_eq : ∀ (n : Nat) (bits : List Bool), bits.length = n → Spec.packBytes bits = Bits.bitsToBytes bits := by
  intro n
  induction n using Nat.strong_induction_on with
  | _ n ih =>
    intro bits hn
    cases bits with
    | nil => simp [Spec.packBytes, Bits.bitsToBytes]
    | cons h t =>
      rw [bitsToBytes_cons_step, ← ih ((h :: t).drop 8).length (by simp at hn ⊢; omega) _ rfl]
      unfold Spec.packBytes
      have hlen : ((h :: t).length + 7) / 8 = (((h :: t).drop 8).length + 7) / 8 + 1 := by
        simp only [List.length_cons, List.length_drop]; omega
      rw [hlen, List.range_succ_eq_map, List.map_cons, List.map_map]
      simp only [Nat.mul_zero, List.drop_zero]
      congr 1
      apply List.map_congr_left
      intro i _
      simp only [Function.comp, List.drop_drop]
      congr 3
      omega

theorem paddedData_eq (bits : List Bool) : Spec.paddedData bits = Bits.toppedUp bits := by
  unfold Spec.paddedData Bits.toppedUp Bits.addTag
  split
  · exact packBytes_eq _ _ rfl
  · rw [packBytes_eq _ _ rfl]; simp

theorem depthBytes_eq (d : Nat) : Spec.depthBytes d = be16 d := by
  unfold Spec.depthBytes be16
  congr 1
  apply UInt8.toNat_inj.mp
  simp

theorem descr_eq (ty mask : Nat) (bits : List Bool) (nrefs l : Nat) :
    Spec.descr ty mask bits nrefs l = [d1 nrefs (ty != 0) (Spec.maskBelow mask l), d2 bits.length] := by
  unfold Spec.descr d1 d2
  congr 2
  · by_cases h : ty = 0 <;> simp [h]
  · congr 1
    split <;> omega

theorem childrenPart_eq (ty : Nat) (kh : List (Nat → List UInt8)) (kd : List (Nat → Nat)) (l : Nat) :
    Spec.childrenPart ty kh kd l =
      (kd.map (· (Spec.childLevel ty l))).flatMap be16 ++ (kh.map (· (Spec.childLevel ty l))).flatten := by
  unfold Spec.childrenPart
  congr 2
  funext d
  exact depthBytes_eq d


theorem bitsToBytes_length (l : List Bool) : (Bits.bitsToBytes l).length = (l.length + 7) / 8 := by
  fun_induction Bits.bitsToBytes l with
  | case1 => rfl
  | case2 h t l ih =>
    simp only [List.length_cons, ih, List.length_drop]
    omega


instance : LawfulMonad Outcome := LawfulMonad.mk'
  (id_map := by intro α x; cases x <;> rfl)
  (pure_bind := by intros; rfl)
  (bind_assoc := by intro α β γ x f g; cases x <;> rfl)

/-- number of significant levels below `i` -/
def sigCount (mask i : Nat) : Nat := ((List.range i).filter (LevelMask.isSignificant mask)).length

theorem mask_facts : ∀ m, m < 8 → ∀ l, l < 5 →
    LevelMask.hashIndex (LevelMask.apply m l) + 1 = sigCount m (l + 1) ∧
    LevelMask.apply m l = Spec.maskBelow m l ∧
    LevelMask.isSignificant m l = Spec.significant m l ∧
    LevelMask.hashIndex m = Spec.popcount m ∧
    sigCount m (l + 1) = sigCount m l + (if LevelMask.isSignificant m l then 1 else 0) ∧
    (0 < sigCount m (l + 1)) := by decide

theorem level_facts : ∀ m, m < 8 → LevelMask.level m = Spec.level m ∧ LevelMask.level m ≤ 3 ∧
    ∀ l, l < 5 → LevelMask.level m < l → LevelMask.isSignificant m l = false := by decide +kernel

section NonPruned
variable (H : List UInt8 → List UInt8) (ty mask : Nat) (bits : List Bool) (cs : List HashInfo)
  (kh : List (Nat → List UInt8)) (kd : List (Nat → Nat))

/-- the children's answers, as the implementation obtains them, are the functions `kh`, `kd` -/
structure Kids : Prop where
  hlen : cs.length = kh.length
  dlen : cs.length = kd.length
  hs : ∀ l, l ≤ 4 → cs.mapM (fun c => c.hashAt l) = .ok (kh.map (· l))
  ds : ∀ l, l ≤ 4 → cs.mapM (fun c => c.depthAt l) = .ok (kd.map (· l))

/-- the depth check fails at level `i` -/
abbrev Ovf (i : Nat) : Prop := 0 < kd.length ∧ maxDepth ≤ (kd.map (· (Spec.childLevel ty i))).foldl max 0

structure Inv (i : Nat) (s : Nat × List (List UInt8) × List Nat) : Prop where
  seen : s.1 = sigCount mask i
  hlen : s.2.1.length = sigCount mask i
  dlen : s.2.2.length = sigCount mask i
  hget : ∀ l, l < i → s.2.1[sigCount mask (l + 1) - 1]? = some (Spec.hashLevel H ty mask bits kh kd l)
  dget : ∀ l, l < i → s.2.2[sigCount mask (l + 1) - 1]? = some (Spec.depthLevel ty mask bits kd l)

theorem childLevel_eq (i : Nat) :
    (if ty = tyMerkleProof ∨ ty = tyMerkleUpdate then i + 1 else i) = Spec.childLevel ty i := by
  unfold Spec.childLevel Spec.isMerkle
  by_cases h1 : ty = tyMerkleProof <;> by_cases h2 : ty = tyMerkleUpdate <;> simp [h1, h2]

variable {H ty mask bits cs kh kd}

theorem step_nonsig (hm : mask < 8) (hty : ty ≠ tyPruned) {i : Nat} (hi : i ≤ 3) {s} (inv : Inv H ty mask bits kh kd i s)
    (hs : LevelMask.isSignificant mask i = false) :
    levelStep H ty mask bits cs 0 s i = .ok s ∧ Inv H ty mask bits kh kd (i + 1) s := by
  obtain ⟨f1, f2, f3, f4, f5, f6⟩ := mask_facts mask hm i (by omega)
  have hi0 : i ≠ 0 := by rintro rfl; simp [LevelMask.isSignificant] at hs
  obtain ⟨j, rfl⟩ : ∃ j, i = j + 1 := ⟨i - 1, by omega⟩
  refine ⟨?_, ?_⟩
  · obtain ⟨a, b, c⟩ := s
    simp [levelStep, hs]
  · simp only [hs, Bool.false_eq_true, if_false, Nat.add_zero] at f5
    have hsp : Spec.significant mask (j + 1) = false := by rw [← f3]; exact hs
    refine ⟨by rw [f5]; exact inv.seen, by rw [f5]; exact inv.hlen, by rw [f5]; exact inv.dlen, ?_, ?_⟩
    · intro l hl
      by_cases hlj : l = j + 1
      · subst hlj
        rw [f5]
        have := inv.hget j (by omega)
        rw [this]
        simp [Spec.hashLevel, hty, hsp]
      · exact inv.hget l (by omega)
    · intro l hl
      by_cases hlj : l = j + 1
      · subst hlj
        rw [f5]
        have := inv.dget j (by omega)
        rw [this]
        simp [Spec.depthLevel, hty, hsp]
      · exact inv.dget l (by omega)


theorem step_tail (k : Kids cs kh kd) {i : Nat} (hi : i ≤ 3) (head : List UInt8) (a : Nat) (b : List (List UInt8)) (c : List Nat) :
    (do
      let childLevel := if ty = tyMerkleProof ∨ ty = tyMerkleUpdate then i + 1 else i
      let childDepths ← cs.mapM (fun c : HashInfo => c.depthAt childLevel)
      let depth0 := childDepths.foldl max 0
      let depthBytes := childDepths.flatMap (fun d => be16 d)
      if cs.length > 0 ∧ depth0 ≥ maxDepth then Outcome.err "depth is too big"
      else do
        let depth := if cs.length > 0 then depth0 + 1 else depth0
        let childHashes ← cs.mapM (fun c : HashInfo => c.hashAt childLevel)
        let h := H (head ++ depthBytes ++ childHashes.flatten)
        pure (a + 1, b ++ [h], c ++ [depth])) =
    (if Ovf ty kd i then Outcome.err "depth is too big"
     else .ok (a + 1, b ++ [H (head ++ Spec.childrenPart ty kh kd i)],
               c ++ [Spec.nodeDepth (kd.map (· (Spec.childLevel ty i)))])) := by
  have hcl : Spec.childLevel ty i ≤ 4 := by unfold Spec.childLevel; split <;> omega
  simp only [childLevel_eq, k.ds _ hcl, k.hs _ hcl, Outcome.bind_ok, Ovf, k.dlen, ge_iff_le, gt_iff_lt]
  by_cases hov : 0 < kd.length ∧ maxDepth ≤ List.foldl max 0 (List.map (fun x => x (Spec.childLevel ty i)) kd)
  · rw [if_pos hov, if_pos hov]
  · rw [if_neg hov, if_neg hov]
    simp only [pure, childrenPart_eq, Spec.nodeDepth, List.append_assoc]
    congr 4
    cases kd <;> simp


theorem sigCount_zero : sigCount mask 0 = 0 := rfl

theorem step_sig (hm : mask < 8) (hty : ty ≠ tyPruned) (k : Kids cs kh kd) {i : Nat} (hi : i ≤ 3) {s}
    (inv : Inv H ty mask bits kh kd i s) (hs : LevelMask.isSignificant mask i = true) :
    levelStep H ty mask bits cs 0 s i =
      if Ovf ty kd i then .err "depth is too big"
      else .ok (s.1 + 1, s.2.1 ++ [Spec.hashLevel H ty mask bits kh kd i],
                s.2.2 ++ [Spec.depthLevel ty mask bits kd i]) := by
  obtain ⟨f1, f2, f3, f4, f5, f6⟩ := mask_facts mask hm i (by omega)
  have hsp : Spec.significant mask i = true := by rw [← f3]; exact hs
  obtain ⟨a, b, c⟩ := s
  have ha : a = sigCount mask i := inv.seen
  cases i with
  | zero =>
    have ha0 : a = 0 := ha
    subst ha0
    simp only [levelStep, hs, Bool.not_true, Bool.false_eq_true, if_false, Nat.lt_irrefl, if_true, pure_bind]
    rw [step_tail k hi]
    simp only [Spec.hashLevel, Spec.depthLevel, hty, false_and, if_false, reprNoRefs, descr_eq, paddedData_eq, f2, k.hlen]
    rfl
  | succ j =>
    obtain ⟨g1, g2, g3, g4, g5, g6⟩ := mask_facts mask hm j (by omega)
    have hpos : 0 < a := by rw [ha]; exact g6
    have hne : a ≠ 0 := by omega
    have hprev := inv.hget j (by omega)
    simp only [] at hprev
    subst ha
    simp only [levelStep, hs, Bool.not_true, Bool.false_eq_true, if_false, Nat.not_lt_zero, Nat.sub_zero, hprev, pure_bind]
    rw [if_neg hne, step_tail k hi]
    simp only [Spec.hashLevel, Spec.depthLevel, hty, false_and, if_false, hsp, Bool.not_true, Bool.false_eq_true,
      descr_eq, paddedData_eq, f2, k.hlen]


theorem inv_init : Inv H ty mask bits kh kd 0 (0, [], []) :=
  ⟨rfl, rfl, rfl, fun _ h => absurd h (Nat.not_lt_zero _), fun _ h => absurd h (Nat.not_lt_zero _)⟩

theorem inv_sig (hm : mask < 8) {i : Nat} (hi : i ≤ 3) {s}
    (inv : Inv H ty mask bits kh kd i s) (hs : LevelMask.isSignificant mask i = true) :
    Inv H ty mask bits kh kd (i + 1) (s.1 + 1, s.2.1 ++ [Spec.hashLevel H ty mask bits kh kd i],
                s.2.2 ++ [Spec.depthLevel ty mask bits kd i]) := by
  obtain ⟨f1, f2, f3, f4, f5, f6⟩ := mask_facts mask hm i (by omega)
  simp only [hs, if_true] at f5
  refine ⟨by simp only [f5, inv.seen], by simp [f5, inv.hlen], by simp [f5, inv.dlen], ?_, ?_⟩
  · intro l hl
    by_cases hli : l = i
    · subst hli
      simp only [f5, Nat.add_sub_cancel]
      rw [List.getElem?_append_right (Nat.le_of_eq inv.hlen), inv.hlen]
      simp
    · have hl' : l < i := by omega
      obtain ⟨g1, g2, g3, g4, g5, g6⟩ := mask_facts mask hm l (by omega)
      have := inv.hget l hl'
      have hlt : sigCount mask (l + 1) - 1 < s.2.1.length := by
        have := (List.getElem?_eq_some_iff.mp this).1
        exact this
      simp only []
      rw [List.getElem?_append_left hlt]
      exact this
  · intro l hl
    by_cases hli : l = i
    · subst hli
      simp only [f5, Nat.add_sub_cancel]
      rw [List.getElem?_append_right (Nat.le_of_eq inv.dlen), inv.dlen]
      simp
    · have hl' : l < i := by omega
      have := inv.dget l hl'
      have hlt : sigCount mask (l + 1) - 1 < s.2.2.length := (List.getElem?_eq_some_iff.mp this).1
      simp only []
      rw [List.getElem?_append_left hlt]
      exact this

/-- the per-level loop over levels `0..n-1` of a cell that is not a pruned branch -/
theorem loop (hm : mask < 8) (hty : ty ≠ tyPruned) (k : Kids cs kh kd) (n : Nat) (hn : n ≤ 4) :
    ((∀ i, i < n → LevelMask.isSignificant mask i = true → ¬ Ovf ty kd i) →
      ∃ s, (List.range n).foldlM (levelStep H ty mask bits cs 0) (0, [], []) = .ok s ∧ Inv H ty mask bits kh kd n s) ∧
    ((∃ i, i < n ∧ LevelMask.isSignificant mask i = true ∧ Ovf ty kd i) →
      (List.range n).foldlM (levelStep H ty mask bits cs 0) (0, [], []) = .err "depth is too big") := by
  induction n with
  | zero =>
    refine ⟨fun _ => ⟨_, rfl, inv_init⟩, ?_⟩
    rintro ⟨i, hi, _⟩; omega
  | succ n ih =>
    obtain ⟨ih1, ih2⟩ := ih (by omega)
    rw [List.range_succ, List.foldlM_append]
    simp only [List.foldlM_cons, List.foldlM_nil]
    by_cases hprev : ∃ i, i < n ∧ LevelMask.isSignificant mask i = true ∧ Ovf ty kd i
    · rw [ih2 hprev]
      refine ⟨?_, fun _ => rfl⟩
      intro hno
      obtain ⟨i, hi, hs, ho⟩ := hprev
      exact absurd ho (hno i (by omega) hs)
    · have hno : ∀ i, i < n → LevelMask.isSignificant mask i = true → ¬ Ovf ty kd i := by
        intro i hi hs ho; exact hprev ⟨i, hi, hs, ho⟩
      obtain ⟨s, hs, inv⟩ := ih1 hno
      rw [hs]
      simp only [Outcome.bind_ok]
      cases hsig : LevelMask.isSignificant mask n with
      | false =>
        obtain ⟨e, inv'⟩ := step_nonsig (cs := cs) hm hty (by omega) inv hsig
        rw [e]
        refine ⟨fun _ => ⟨s, rfl, inv'⟩, ?_⟩
        rintro ⟨i, hi, his, ho⟩
        by_cases hin : i = n
        · subst hin; rw [hsig] at his; cases his
        · exact absurd ho (hno i (by omega) his)
      | true =>
        rw [step_sig hm hty k (by omega) inv hsig]
        by_cases ho : Ovf ty kd n
        · rw [if_pos ho]
          refine ⟨fun h => absurd ho (h n (by omega) hsig), fun _ => rfl⟩
        · rw [if_neg ho]
          refine ⟨fun _ => ⟨_, rfl, inv_sig hm (by omega) inv hsig⟩, ?_⟩
          rintro ⟨i, hi, his, ho'⟩
          by_cases hin : i = n
          · subst hin; exact absurd ho' ho
          · exact absurd ho' (hno i (by omega) his)


theorem lookup_all (hm : mask < 8) (hty : ty ≠ tyPruned) {s}
    (inv : Inv H ty mask bits kh kd (LevelMask.level mask + 1) s) (l : Nat) (hl : l ≤ 4) :
    s.2.1[sigCount mask (l + 1) - 1]? = some (Spec.hashLevel H ty mask bits kh kd l) ∧
    s.2.2[sigCount mask (l + 1) - 1]? = some (Spec.depthLevel ty mask bits kd l) := by
  induction l with
  | zero => exact ⟨inv.hget 0 (by omega), inv.dget 0 (by omega)⟩
  | succ j ih =>
    by_cases hjl : j + 1 < LevelMask.level mask + 1
    · exact ⟨inv.hget _ hjl, inv.dget _ hjl⟩
    · obtain ⟨_, _, hns⟩ := level_facts mask hm
      have hns := hns (j + 1) (by omega) (by omega)
      obtain ⟨f1, f2, f3, f4, f5, f6⟩ := mask_facts mask hm (j + 1) (by omega)
      simp only [hns, Bool.false_eq_true, if_false, Nat.add_zero] at f5
      have hsp : Spec.significant mask (j + 1) = false := by rw [← f3]; exact hns
      obtain ⟨ih1, ih2⟩ := ih (by omega)
      rw [f5, ih1, ih2]
      simp [Spec.hashLevel, Spec.depthLevel, hty, hsp]

/-- `newImmutableCell` on a cell that is not a pruned branch, children already resolved -/
theorem computeInfo_np (hm : mask < 8) (hty : ty ≠ tyPruned) (k : Kids cs kh kd) (buf : List UInt8) :
    ((∀ i, i ≤ LevelMask.level mask → LevelMask.isSignificant mask i = true → ¬ Ovf ty kd i) →
      ∃ info, computeInfo H ty mask bits buf cs = .ok info ∧ info.ty = ty ∧ info.mask = mask ∧ info.buf = buf ∧
        ∀ l, l ≤ 4 → info.hashAt l = .ok (Spec.hashLevel H ty mask bits kh kd l) ∧
                     info.depthAt l = .ok (Spec.depthLevel ty mask bits kd l)) ∧
    ((∃ i, i ≤ LevelMask.level mask ∧ LevelMask.isSignificant mask i = true ∧ Ovf ty kd i) →
      computeInfo H ty mask bits buf cs = .err "depth is too big") := by
  obtain ⟨_, hl3, _⟩ := level_facts mask hm
  obtain ⟨l1, l2⟩ := loop (H := H) (bits := bits) hm hty k (LevelMask.level mask + 1) (by omega)
  constructor
  · intro hno
    obtain ⟨s, hs, inv⟩ := l1 (fun i hi => hno i (by omega))
    obtain ⟨a, b, c⟩ := s
    refine ⟨{ ty := ty, mask := mask, buf := buf, hashes := b, depths := c }, ?_, rfl, rfl, rfl, ?_⟩
    · simp only [computeInfo, hty, if_false]
      rw [hs]
      rfl
    · intro l hl
      obtain ⟨f1, _⟩ := mask_facts mask hm l (by omega)
      obtain ⟨g1, g2⟩ := lookup_all hm hty inv l hl
      have hidx : LevelMask.hashIndex (LevelMask.apply mask l) = sigCount mask (l + 1) - 1 := by omega
      simp only [] at g1 g2
      simp only [HashInfo.hashAt, HashInfo.depthAt, hty, if_false, hidx, g1, g2, and_self]
  · rintro ⟨i, hi, hs, ho⟩
    simp only [computeInfo, hty, if_false]
    rw [l2 ⟨i, by omega, hs, ho⟩]
    rfl

end NonPruned

theorem computeInfo_pruned (H) (mask : Nat) (bits : List Bool) (buf : List UInt8) (hm : mask < 8) :
    computeInfo H tyPruned mask bits buf [] =
      .ok { ty := tyPruned, mask := mask, buf := buf,
            hashes := [H (reprNoRefs tyPruned bits 0 (LevelMask.apply mask (LevelMask.level mask)) ++ [] ++ [])],
            depths := [0] } := by
  have : mask = 0 ∨ mask = 1 ∨ mask = 2 ∨ mask = 3 ∨ mask = 4 ∨ mask = 5 ∨ mask = 6 ∨ mask = 7 := by omega
  rcases this with rfl | rfl | rfl | rfl | rfl | rfl | rfl | rfl <;> rfl

theorem pruned_facts : ∀ m, m < 8 → ∀ l, l < 5 →
    LevelMask.hashIndex (LevelMask.apply m l) ≤ LevelMask.hashIndex m ∧
    (LevelMask.hashIndex (LevelMask.apply m l) ≠ LevelMask.hashIndex m ↔ l < Spec.level m) ∧
    LevelMask.hashIndex (LevelMask.apply m l) = Spec.popcount (Spec.maskBelow m l) ∧
    LevelMask.hashIndex m = Spec.popcount m ∧
    (Spec.significant m (l + 1) = true → Spec.level m ≤ l + 1 → l + 1 = Spec.level m) ∧
    LevelMask.apply m (LevelMask.level m) = Spec.maskBelow m (Spec.level m) := by decide +kernel

theorem pruned_facts2 : ∀ m, m < 8 → ∀ l, l < 5 →
    (Spec.significant m (l + 1) = false → Spec.level m ≠ l + 1) ∧
    Spec.popcount (Spec.maskBelow m 0) = 0 := by decide +kernel

/-- the definition, for a pruned branch without children -/
theorem spec_pruned (H) (mask : Nat) (bits : List Bool) (hm : mask < 8) (l : Nat) (hl : l ≤ 4) :
    Spec.hashLevel H tyPruned mask bits [] [] l =
      (if l < Spec.level mask then Spec.storedHash bits (Spec.popcount (Spec.maskBelow mask l))
       else H (Spec.descr tyPruned mask bits 0 (Spec.level mask) ++ Spec.paddedData bits)) ∧
    Spec.depthLevel tyPruned mask bits [] l =
      (if l < Spec.level mask then Spec.storedDepth bits (Spec.popcount mask) (Spec.popcount (Spec.maskBelow mask l))
       else 0) := by
  induction l with
  | zero =>
    by_cases h0 : 0 < Spec.level mask
    · obtain ⟨_, f8⟩ := pruned_facts2 mask hm 0 (by omega)
      simp [Spec.hashLevel, Spec.depthLevel, h0, f8]
    · have : Spec.level mask = 0 := by omega
      simp [Spec.hashLevel, Spec.depthLevel, this, Spec.childrenPart, Spec.nodeDepth]
  | succ j ih =>
    obtain ⟨ih1, ih2⟩ := ih (by omega)
    obtain ⟨_, _, _, _, f5, _⟩ := pruned_facts mask hm j (by omega)
    obtain ⟨f7, _⟩ := pruned_facts2 mask hm j (by omega)
    by_cases h0 : j + 1 < Spec.level mask
    · simp [Spec.hashLevel, Spec.depthLevel, h0]
    · cases hs : Spec.significant mask (j + 1) with
      | false =>
        have : ¬ j < Spec.level mask := by
          have := f7 hs
          omega
        simp only [Spec.hashLevel, Spec.depthLevel, h0, hs, ih1, ih2, this]
        simp
      | true =>
        have := f5 hs (by omega)
        simp [Spec.hashLevel, Spec.depthLevel, hs, ← this, Spec.childrenPart, Spec.nodeDepth]


/-- `newImmutableCell` on a pruned branch (no children) long enough for its mask -/
theorem computeInfo_pr (H) (mask : Nat) (bits : List Bool) (hm : mask < 8)
    (hlen : 2 + 34 * Spec.popcount mask ≤ (Bits.bitsToBytes bits).length) :
    ∃ info, computeInfo H tyPruned mask bits (parsedBuf bits) [] = .ok info ∧ info.ty = tyPruned ∧ info.mask = mask ∧
      info.buf = parsedBuf bits ∧
      ∀ l, l ≤ 4 → info.hashAt l = .ok (Spec.hashLevel H tyPruned mask bits [] [] l) ∧
                   info.depthAt l = .ok (Spec.depthLevel tyPruned mask bits [] l) := by
  refine ⟨_, computeInfo_pruned H mask bits _ hm, rfl, rfl, rfl, ?_⟩
  intro l hl
  obtain ⟨s1, s2⟩ := spec_pruned H mask bits hm l hl
  obtain ⟨f1, f2, f3, f4, f5, f6⟩ := pruned_facts mask hm l (by omega)
  rw [s1, s2]
  simp only [HashInfo.hashAt, HashInfo.depthAt, if_true]
  by_cases hlv : l < Spec.level mask
  · have hne := f2.mpr hlv
    rw [if_pos hne, if_pos hne, if_pos hlv, if_pos hlv]
    have hlt : LevelMask.hashIndex (LevelMask.apply mask l) < LevelMask.hashIndex mask := by omega
    rw [f4] at hlt
    rw [f3] at *
    generalize Spec.popcount (Spec.maskBelow mask l) = k at *
    rw [f4]
    generalize Spec.popcount mask = n at *
    -- the buffer is the data bytes followed by zero padding; everything read lies inside the data bytes
    have hbuf : parsedBuf bits = Bits.bitsToBytes bits ++ List.replicate (bufBytes - (Bits.bitsToBytes bits).length) 0 := rfl
    rw [hbuf]
    simp only [Spec.storedHash, Spec.storedDepth, packBytes_eq _ bits rfl]
    generalize Bits.bitsToBytes bits = b at *
    generalize List.replicate (bufBytes - b.length) (0 : UInt8) = pad
    have h1 : 2 + (k + 1) * 32 ≤ (b ++ pad).length := by simp only [List.length_append]; omega
    have h2 : 2 + 32 * n + k * 2 + 2 ≤ (b ++ pad).length := by simp only [List.length_append]; omega
    simp only [h1, h2, ↓reduceIte]
    constructor
    · simp only [Nat.mul_comm k 32]
      rw [List.drop_append_of_le_length (by omega), List.take_append_of_le_length (by simp only [List.length_drop]; omega)]
    · have b1 : 2 + 32 * n + 2 * k < b.length := by omega
      have b2 : 2 + 32 * n + 2 * k + 1 < b.length := by omega
      simp only [Nat.mul_comm k 2, List.getD_eq_getElem?_getD]
      rw [List.getElem?_append_left b1, List.getElem?_append_left b2,
        List.getElem?_eq_getElem b1, List.getElem?_eq_getElem b2]
      rfl
  · have he : ¬ (LevelMask.hashIndex (LevelMask.apply mask l) ≠ LevelMask.hashIndex mask) := fun h => hlv (f2.mp h)
    rw [if_neg he, if_neg he, if_neg hlv, if_neg hlv]
    simp [reprNoRefs, descr_eq, paddedData_eq, f6]


end Tongo.CellHashLemmas
