import TongoModel.Tlb.DictOrder
import TongoProofs.Lemmas.TlbGeneric
/-! `HashmapE` values in ANY listing order (AUDIT item 10b): the encoder writes the same cell for a dictionary value and
for the value with its entries sorted by key bits (`sortDictVal`), and the sorted value is in `inDom` — so
`decode (encode v) = sortDictVal v` follows from `decode_encode` (C05: `Hashmap.marshal` sorts first; `sortKV`). -/
namespace Tongo.Tlb
open Tongo Tongo.Hashmap

theorem zip3_fst : ∀ (kbits : List Key) (ks vs : List Val), kbits.length = ks.length → ks.length = vs.length →
    (zip3 kbits ks vs).map (·.1) = kbits ∧ (zip3 kbits ks vs).map (·.2.1) = ks ∧ (zip3 kbits ks vs).map (·.2.2) = vs
  | [], [], [], _, _ => ⟨rfl, rfl, rfl⟩
  | kb :: kbs, k :: ks, v :: vs, h1, h2 => by
    obtain ⟨a, b, c⟩ := zip3_fst kbs ks vs (by simpa using h1) (by simpa using h2)
    simp [zip3, a, b, c]
  | [], _ :: _, _, h1, _ => by simp at h1
  | _ :: _, [], _, h1, _ => by simp at h1
  | [], [], _ :: _, _, h2 => by simp at h2
  | _ :: _, _ :: _, [], _, h2 => by simp at h2

theorem zipKV_map : ∀ (l : List (Key × (Val × Val))),
    zipKV (l.map (·.1)) (l.map (·.2.2)) = some (l.map fun x => (x.1, x.2.2))
  | [] => rfl
  | x :: l => by simp [zipKV, zipKV_map l]

theorem insertKV_map {V W : Type} (g : V → W) (x : Key × V) : ∀ (l : List (Key × V)),
    insertKV (x.1, g x.2) (l.map fun y => (y.1, g y.2)) = (insertKV x l).map fun y => (y.1, g y.2)
  | [] => rfl
  | y :: l => by
    simp only [List.map_cons, insertKV]
    split
    · simp [insertKV_map g x l]
    · simp

theorem sortKV_map {V W : Type} (g : V → W) : ∀ (l : List (Key × V)),
    sortKV (l.map fun y => (y.1, g y.2)) = (sortKV l).map fun y => (y.1, g y.2)
  | [] => rfl
  | x :: l => by
    have e1 : sortKV (x :: l) = insertKV x (sortKV l) := by simp [sortKV]
    have e2 : sortKV ((x :: l).map fun y => (y.1, g y.2)) =
        insertKV (x.1, g x.2) (sortKV (l.map fun y => (y.1, g y.2))) := by simp [sortKV]
    rw [e1, e2, sortKV_map g l, insertKV_map]

theorem mapM_of_forall {α β} (f : α → Outcome β) : ∀ (l : List (β × α)), (∀ x ∈ l, f x.2 = .ok x.1) →
    mapMOutcome f (l.map (·.2)) = .ok (l.map (·.1))
  | [], _ => rfl
  | x :: l, h => by
    simp only [List.map_cons, mapMOutcome, h x (by simp), mapM_of_forall f l (fun y hy => h y (by simp [hy]))]
    rfl

theorem ascending_of_sorted : ∀ (l : List Key), l.Pairwise (fun a b => lexLt a b = true) → strictlyAscending l = true
  | [], _ => rfl
  | k :: rest, h => by
    obtain ⟨h1, h2⟩ := List.pairwise_cons.mp h
    simp only [strictlyAscending, Bool.and_eq_true, List.all_eq_true]
    exact ⟨fun x hx => h1 x hx, ascending_of_sorted rest h2⟩

theorem isList_list : ∀ (l : List Val), (Val.list l).isList = true
  | [] => rfl
  | _ :: t => by simp [Val.list, Val.isList, isList_list t]

theorem dictParts_dictVal_len (ks vs : List Val) (h : ks.length = vs.length) : dictParts (dictVal ks vs) = some (ks, vs) := by
  unfold dictVal
  split
  · rename_i he
    have : ks = [] := by simpa using he
    subst this
    have : vs = [] := List.eq_nil_of_length_eq_zero (by simpa using h.symm)
    subst this
    rfl
  · simp [Val.list, dictParts, toList_list]

theorem dictShapeOk_dictVal (ks vs : List Val) : dictShapeOk (dictVal ks vs) = true := by
  unfold dictVal
  split
  · rfl
  · rename_i he
    simp only [Val.list, dictShapeOk, isList_list, toList_list, Bool.and_eq_true, Bool.not_eq_true', true_and]
    simpa using he

/-- C05's encoder on a list and on the sorted list: the same outcome (distinct keys of one width) -/
theorem marshal_sortKV {V : Type} (C : Codec V) (n : Nat) (kvs : List (Key × V)) (hnd : (keysOf kvs).Nodup)
    (hw : ∀ k ∈ keysOf kvs, k.length = n) : marshal C n (sortKV kvs) = marshal C n kvs := by
  have hs := sortKV_sorted n kvs hnd hw
  have hp := sortKV_perm kvs
  cases kvs with
  | nil => rfl
  | cons x rest =>
    have hne : sortKV (x :: rest) ≠ [] := by
      intro h; rw [h] at hp; exact absurd hp.symm (by simp)
    have hw' : ∀ kv ∈ x :: rest, kv.1.length = n := fun kv hkv => hw kv.1 (List.mem_map_of_mem hkv)
    have hw'' : ∀ kv ∈ sortKV (x :: rest), kv.1.length = n := fun kv hkv => hw' kv (hp.mem_iff.mp hkv)
    unfold marshal
    have e1 : (sortKV (x :: rest)).isEmpty = false := by
      cases h : sortKV (x :: rest) with
      | nil => exact absurd h hne
      | cons _ _ => rfl
    rw [e1, maxKeyLen_eq n _ hne hw'', sortKV_of_sorted _ hs, maxKeyLen_eq n _ (by simp) hw']
    rfl

section
variable {env : Env} {f : Nat}

/-- the sorted value exists, is in the (ordered) domain, and is encoded like the given one -/
theorem dictE_anyorder (k t : Ty) (v : Val) (hd : inDomDictU env f k t v = true) :
    ∃ v', sortDictVal (fun x => encode env f k x Builder.empty) v = some v' ∧
      inDom env (f + 1) (.dictE k t) v' = true ∧
      ∀ b, encode env (f + 1) (.dictE k t) v' b = encode env (f + 1) (.dictE k t) v b := by
  unfold inDomDictU dictDomU at hd
  cases hp : dictParts v with
  | none => simp [hp] at hd
  | some p =>
  obtain ⟨ks, vs⟩ := p
  cases hn : keyWidth k with
  | none => simp [hp, hn] at hd
  | some n =>
  simp only [hp, hn, Bool.and_eq_true, beq_iff_eq, List.all_eq_true] at hd
  obtain ⟨⟨⟨⟨⟨⟨hlen, hshape⟩, hkd⟩, hvd⟩, hkr⟩, hkb⟩, hvfit⟩ := hd
  cases hm : mapMOutcome (fun kv => (encode env f k kv Builder.empty).bind fun kb => .ok kb.bits) ks with
  | err e => rw [hm] at hkb; cases hkb
  | panic e => rw [hm] at hkb; cases hkb
  | ok kbits =>
  rw [hm] at hkb
  simp only [Bool.and_eq_true, List.all_eq_true, beq_iff_eq, decide_eq_true_eq] at hkb
  obtain ⟨hwid, hnd⟩ := hkb
  have hkl : kbits.length = ks.length := mapM_length _ _ _ hm
  obtain ⟨z1, z2, z3⟩ := zip3_fst kbits ks vs hkl hlen
  generalize hl : zip3 kbits ks vs = l at z1 z2 z3
  let l' := sortKV l
  have hperm : l'.Perm l := sortKV_perm l
  -- every triple pairs a key with its encoded bits
  have hall : ∀ x ∈ l, (fun kv => (encode env f k kv Builder.empty).bind fun kb => .ok kb.bits) x.2.1 = .ok x.1 := by
    have hf := mapM_forall2 _ _ _ hm
    rw [← z1, ← z2] at hf
    intro x hx
    clear hm z1 z2 z3 hl hperm
    induction l with
    | nil => cases hx
    | cons y l ih =>
      simp only [List.map_cons] at hf
      cases hf with
      | cons h1 h2 =>
        rcases List.mem_cons.mp hx with rfl | hx'
        · exact h1
        · exact ih h2 hx'
  have hall' : ∀ x ∈ l', (fun kv => (encode env f k kv Builder.empty).bind fun kb => .ok kb.bits) x.2.1 = .ok x.1 :=
    fun x hx => hall x (hperm.mem_iff.mp hx)
  have hm' : mapMOutcome (fun kv => (encode env f k kv Builder.empty).bind fun kb => .ok kb.bits) (l'.map (·.2.1))
      = .ok (l'.map (·.1)) := by
    have := mapM_of_forall (fun kv => (encode env f k kv Builder.empty).bind fun kb => .ok kb.bits)
      (l'.map fun x => (x.1, x.2.1)) (by
        intro x hx
        obtain ⟨y, hy, rfl⟩ := List.mem_map.mp hx
        exact hall' y hy)
    simpa [List.map_map, Function.comp_def] using this
  have hlen' : (l'.map (·.2.1)).length = (l'.map (·.2.2)).length := by simp
  have hkeys : keysOf (l.map fun x => (x.1, x.2.2)) = kbits := by
    rw [← z1]; simp [keysOf, List.map_map, Function.comp_def]
  have hsorted : SortedKV (sortKV (l.map fun x => (x.1, x.2.2))) :=
    sortKV_sorted n _ (by rw [hkeys]; exact hnd) (by rw [hkeys]; exact hwid)
  have hsm : sortKV (l.map fun x => (x.1, x.2.2)) = l'.map fun x => (x.1, x.2.2) := sortKV_map (·.2) l
  refine ⟨dictVal (l'.map (·.2.1)) (l'.map (·.2.2)), ?_, ?_, ?_⟩
  · simp only [sortDictVal, hp, hm, hl]
    rfl
  · -- the sorted value is in the ordered domain
    simp only [inDom, hn, dictDom, dictParts_dictVal_len _ _ hlen', dictShapeOk_dictVal, hm', Bool.and_eq_true, beq_iff_eq,
      List.all_eq_true, and_true, true_and, List.length_map, decide_eq_true_eq]
    refine ⟨⟨⟨⟨?_, ?_⟩, ?_⟩, ?_, ?_⟩, ?_⟩
    · intro x hx
      obtain ⟨y, hy, rfl⟩ := List.mem_map.mp hx
      exact hkd _ (by rw [← z2]; exact List.mem_map_of_mem (hperm.mem_iff.mp hy))
    · intro x hx
      obtain ⟨y, hy, rfl⟩ := List.mem_map.mp hx
      exact hvd _ (by rw [← z3]; exact List.mem_map_of_mem (hperm.mem_iff.mp hy))
    · intro x hx
      obtain ⟨y, hy, rfl⟩ := List.mem_map.mp hx
      exact hkr _ (by rw [← z2]; exact List.mem_map_of_mem (hperm.mem_iff.mp hy))
    · intro x hx
      obtain ⟨y, hy, rfl⟩ := List.mem_map.mp hx
      exact hwid _ (by rw [← z1]; exact List.mem_map_of_mem (hperm.mem_iff.mp hy))
    · apply ascending_of_sorted
      have := hsorted
      rw [hsm] at this
      have h2 : (l'.map fun x => (x.1, x.2.2)).map (·.1) = l'.map (·.1) := by simp [List.map_map, Function.comp_def]
      rw [← h2]
      exact List.pairwise_map.mpr (by simpa [SortedKV] using this)
    · intro x hx
      obtain ⟨y, hy, rfl⟩ := List.mem_map.mp hx
      exact hvfit _ (by rw [← z3]; exact List.mem_map_of_mem (hperm.mem_iff.mp hy))
  · -- the encoder does not see the difference
    intro b
    have hemp : (l'.map (·.2.1)).isEmpty = ks.isEmpty := by
      rw [← z2]
      cases hl2 : l with
      | nil => simp [l', hl2, sortKV]
      | cons a r =>
        have : l' ≠ [] := by
          intro h; have := hperm; rw [h, hl2] at this; exact absurd this.symm (by simp)
        cases h3 : l' with
        | nil => exact absurd h3 this
        | cons _ _ => simp
    simp only [encode, hn, dictParts_dictVal_len _ _ hlen', hp, hemp, hm', hm]
    split
    · rfl
    · have hz : zipKV kbits vs = some (l.map fun x => (x.1, x.2.2)) := by rw [← z1, ← z3]; exact zipKV_map l
      have hz' : zipKV (l'.map (·.1)) (l'.map (·.2.2)) = some (l'.map fun x => (x.1, x.2.2)) := zipKV_map l'
      simp only [bind, Outcome.bind, hz, hz']
      rw [← hsm, marshal_sortKV _ n _ (by rw [hkeys]; exact hnd) (by rw [hkeys]; exact hwid)]
end
end Tongo.Tlb
