import TongoProofs.Lemmas.AddrTlTlb
import TongoProofs.Lemmas.Bits
import TongoModel.Tlb.BlockTlb
/-! The hand model of `tlb.MsgAddress` in `TongoModel/Address.lean` (`tlbBits` / `parseTlbBits`, bytes as `BitVec 8`)
and the schema-level spec of the TL-B slice (`Tongo.Tlb.Spec.specMsgAddress`, values as `Val`) were written
independently. This file ties them together:

* `toVal` embeds a `MsgAddress` into the `Val` shapes that `decMsgAddress` produces and `specMsgAddress` matches;
* `tlbBits_eq_spec`: on well-formed addresses the bit layout of `tlbBits` IS the schema spec (all four constructors);
* `tlb_bits_roundtrip_all`: `parseTlbBits` inverts `tlbBits` on all four constructors, with arbitrary trailing bits.

Core Lean + the lemmas of `TongoProofs/Lemmas/Bits.lean`. -/
namespace Tongo.Address
open Tongo Tongo.Bits Tongo.Tlb Tongo.Tlb.Spec

/-! ### embedding into `Val` -/

/-- `Maybe Anycast` as dumped by `decMaybeAnycast`: `none` or `((depth rewrite_pfx))` -/
def anycastVal : Option (BitVec 32 × BitVec 32) → Val
  | Option.none => .none
  | some (d, p) => Val.some (Val.list [.int d.toNat, .int p.toNat])

/-- the value `decMsgAddress` produces for the address (unsigned fields by `toNat`, workchains by `toInt`) -/
def toVal : MsgAddress → Val
  | .none => Val.ctor "AddrNone" .nil
  | .extern bits => Val.ctor "AddrExtern" (Val.some (.bits bits))
  | .std ac wc addr =>
    Val.ctor "AddrStd" (Val.list [anycastVal ac, .int wc.toInt, .bytes (addr.map UInt8.ofBitVec)])
  | .var ac len wc bits =>
    Val.ctor "AddrVar" (Val.some (Val.list [anycastVal ac, .int len.toNat, .int wc.toInt, .bits bits]))

/-- anycast_info$_ depth:(#<= 30) { depth >= 1 } rewrite_pfx:(bits depth), with the depth bound as a parameter:
the schema says 30, the Go reader accepts everything that fits the 5 bits except 0 -/
def AnycastWF (maxDepth : Nat) : Option (BitVec 32 × BitVec 32) → Prop
  | Option.none => True
  | some (d, p) => 1 ≤ d.toNat ∧ d.toNat ≤ maxDepth ∧ p.toNat < 2 ^ d.toNat

def MsgAddress.WFd (maxDepth : Nat) : MsgAddress → Prop
  | .none => True
  | .extern bits => bits.length ≤ 511
  | .std ac _ addr => AnycastWF maxDepth ac ∧ addr.length = 32
  | .var ac len _ bits => AnycastWF maxDepth ac ∧ len.toNat = bits.length ∧ bits.length ≤ 511

/-- well-formed according to the schema -/
def MsgAddress.WF (m : MsgAddress) : Prop := m.WFd 30
/-- well-formed for the round trip through the Go codec (anycast depth up to 31) -/
def MsgAddress.WF' (m : MsgAddress) : Prop := m.WFd 31

theorem AnycastWF.mono {a b : Nat} (hab : a ≤ b) {ac : Option (BitVec 32 × BitVec 32)} (h : AnycastWF a ac) :
    AnycastWF b ac := by
  match ac, h with
  | Option.none, _ => trivial
  | some (d, p), ⟨h1, h2, h3⟩ => exact ⟨h1, Nat.le_trans h2 hab, h3⟩

theorem MsgAddress.WF.toWF' {m : MsgAddress} (h : m.WF) : m.WF' := by
  cases m with
  | none => trivial
  | extern bits => exact h
  | std ac wc addr => exact ⟨h.1.mono (by decide), h.2⟩
  | var ac len wc bits => exact ⟨h.1.mono (by decide), h.2⟩

/-! ### bridging the two bit vocabularies -/

theorem natToBits_eq_range (n v : Nat) :
    natToBits n v = (List.range n).map (fun i => v.testBit (n - 1 - i)) := by
  induction n with
  | zero => rfl
  | succ n ih =>
    rw [natToBits, ih, List.range_succ_eq_map, List.map_cons, List.map_map]
    congr 1
    apply List.map_congr_left
    intro i hi
    have : i < n := List.mem_range.mp hi
    simp only [Function.comp]
    congr 1
    omega

theorem bitsMsb_eq_natToBits {n : Nat} (v : BitVec n) : bitsMsb v = natToBits n v.toNat := by
  rw [bitsMsb, natToBits_eq_range]
  apply List.map_congr_left
  intro i hi
  have : i < n := List.mem_range.mp hi
  simp [BitVec.getMsbD, BitVec.getLsbD, this]

theorem natToBits_drop (n k v : Nat) (hk : k ≤ n) : (natToBits n v).drop k = natToBits (n - k) v := by
  induction n generalizing k with
  | zero => have : k = 0 := by omega
            subst this; rfl
  | succ n ih =>
    cases k with
    | zero => rfl
    | succ k =>
      rw [natToBits, List.drop_succ_cons, ih k (by omega)]
      congr 1
      omega

theorem toInt_emod_toNat {n : Nat} (v : BitVec n) : (v.toInt % (2 ^ n : Int)).toNat = v.toNat := by
  have e : (2 ^ n : Int) = ((2 ^ n : Nat) : Int) := by rw [Int.natCast_pow]; rfl
  rw [BitVec.toInt_eq_toNat_bmod, e, Int.bmod_emod, ← Int.natCast_mod, Int.toNat_natCast,
    Nat.mod_eq_of_lt v.isLt]

theorem bitsMsb_eq_intToBits {n : Nat} (v : BitVec n) : bitsMsb v = intToBits n v.toInt := by
  rw [intToBits, toInt_emod_toNat, bitsMsb_eq_natToBits]

theorem flatMap_bitsMsb_eq_bytesToBits (addr : List Byte) :
    addr.flatMap bitsMsb = bytesToBits (addr.map UInt8.ofBitVec) := by
  induction addr with
  | nil => rfl
  | cons b t ih =>
    simp only [List.flatMap_cons, List.map_cons, bytesToBits] at *
    rw [ih, bitsMsb_eq_natToBits]
    rfl

theorem bitsMsb_drop_pfx (p d : BitVec 32) (hd : d.toNat ≤ 32) :
    (bitsMsb p).drop (32 - d.toNat) = natToBits d.toNat p.toNat := by
  rw [bitsMsb_eq_natToBits, natToBits_drop _ _ _ (by omega)]
  congr 1
  omega

theorem bitsMsb_setWidth {n m : Nat} (v : BitVec n) (h : v.toNat < 2 ^ m) :
    bitsMsb (v.setWidth m) = natToBits m v.toNat := by
  rw [bitsMsb_eq_natToBits, BitVec.toNat_setWidth, Nat.mod_eq_of_lt h]

theorem bitWidth_30 : bitWidth 30 = 5 := by decide
theorem tagBits_00 : tagBits "$00" = [false, false] := by decide
theorem tagBits_01 : tagBits "$01" = [false, true] := by decide
theorem tagBits_10 : tagBits "$10" = [true, false] := by decide
theorem tagBits_11 : tagBits "$11" = [true, true] := by decide

/-! ### the hand model's bit layout is the schema spec -/

theorem specMaybeAnycast_anycastVal (ac : Option (BitVec 32 × BitVec 32)) (h : AnycastWF 30 ac) :
    specMaybeAnycast (anycastVal ac) = some (anycastBits ac, []) := by
  match ac, h with
  | Option.none, _ => rfl
  | some (d, p), ⟨h1, h2, h3⟩ =>
    have hc : (1 : Int) ≤ (d.toNat : Int) ∧ (d.toNat : Int) ≤ 30 ∧ (0 : Int) ≤ (p.toNat : Int) ∧
        (p.toNat : Int) < 2 ^ d.toNat := by
      refine ⟨by omega, by omega, by omega, ?_⟩
      exact_mod_cast h3
    have hd5 : d.toNat < 2 ^ 5 := by omega
    simp only [anycastVal, Val.some, Val.list, specMaybeAnycast, specAnycast, hc, and_self, ↓reduceIte,
      Option.map_some, Int.toNat_natCast, bitWidth_30, anycastBits, bitsMsb_setWidth d hd5,
      bitsMsb_drop_pfx p d (by omega), List.cons_append]

theorem tlbBits_std_eq (ac : Option (BitVec 32 × BitVec 32)) (wc : BitVec 8) (addr : List Byte) :
    tlbBits (.std ac wc addr) = some ([true, false] ++ anycastBits ac ++ bitsMsb wc ++ addr.flatMap bitsMsb) := by
  cases ac with
  | none => rfl
  | some dp => rfl

theorem tlbBits_eq_spec (m : MsgAddress) (h : m.WF) :
    specMsgAddress (toVal m) = (tlbBits m).map (fun bs => (bs, [])) := by
  cases m with
  | none =>
    simp only [toVal, Val.ctor, specMsgAddress, tagBits_00, tlbBits, Option.map_some]
  | extern bits =>
    have h : bits.length ≤ 511 := h
    have h1 : bits.length < 2 ^ 9 := by omega
    have h2 : ¬ bits.length > 511 := by omega
    simp only [toVal, Val.ctor, Val.some, specMsgAddress, h1, ↓reduceIte, tagBits_01, tlbBits, h2,
      Option.map_some, bitsMsb_eq_natToBits, BitVec.toNat_ofNat, Nat.mod_eq_of_lt h1, List.append_assoc]
  | std ac wc addr =>
    obtain ⟨hac, hlen⟩ : AnycastWF 30 ac ∧ addr.length = 32 := h
    have hc : -(2 ^ 7) ≤ wc.toInt ∧ wc.toInt < 2 ^ 7 ∧ (addr.map UInt8.ofBitVec).length * 8 = 256 := by
      refine ⟨?_, ?_, by simp [hlen]⟩
      · have := BitVec.le_toInt (x := wc); omega
      · have := BitVec.toInt_lt (x := wc); omega
    rw [tlbBits_std_eq]
    simp only [toVal, Val.ctor, Val.list, specMsgAddress, hc, and_self, ↓reduceIte,
      specMaybeAnycast_anycastVal ac hac, Option.map_some, tagBits_10, ← bitsMsb_eq_intToBits,
      ← flatMap_bitsMsb_eq_bytesToBits, List.append_assoc]
  | var ac len wc bits =>
    obtain ⟨hac, hlen, hb⟩ : AnycastWF 30 ac ∧ len.toNat = bits.length ∧ bits.length ≤ 511 := h
    have hc : (len.toNat : Int) = (bits.length : Int) ∧ bits.length < 2 ^ 9 ∧ -(2 ^ 31) ≤ wc.toInt ∧
        wc.toInt < 2 ^ 31 := by
      refine ⟨by omega, by omega, ?_, ?_⟩
      · have := BitVec.le_toInt (x := wc); omega
      · have := BitVec.toInt_lt (x := wc); omega
    have hl9 : len.toNat < 2 ^ 9 := by omega
    simp only [toVal, Val.ctor, Val.list, Val.some, specMsgAddress, hc, and_self, ↓reduceIte,
      specMaybeAnycast_anycastVal ac hac, Option.map_some, tagBits_11, ← bitsMsb_eq_intToBits,
      tlbBits, bitsMsb_setWidth len hl9, hlen, List.append_assoc]

/-! ### round trip through `parseTlbBits`, all four constructors -/

theorem natOfBits_eq_bitsToNat (bs : List Bool) : natOfBits bs = bitsToNat bs := by
  unfold natOfBits bitsToNat
  congr
  funext a b
  cases b <;> rfl

theorem natOfBits_natToBits (n v : Nat) : natOfBits (natToBits n v) = v % 2 ^ n := by
  rw [natOfBits_eq_bitsToNat, bitsToNat_natToBits]

/-- the anycast bits in the vocabulary of the spec (depth up to 31: everything the 5 bits can hold) -/
theorem anycastBits_some (d p : BitVec 32) (h2 : d.toNat ≤ 31) :
    anycastBits (some (d, p)) = true :: (natToBits 5 d.toNat ++ natToBits d.toNat p.toNat) := by
  have hd5 : d.toNat < 2 ^ 5 := by omega
  simp only [anycastBits, bitsMsb_setWidth d hd5, bitsMsb_drop_pfx p d (by omega), List.cons_append]

theorem parseAnycastBits_anycastBits (ac : Option (BitVec 32 × BitVec 32)) (h : AnycastWF 31 ac)
    (tail : List Bool) : parseAnycastBits (anycastBits ac ++ tail) = .ok (ac, tail) := by
  match ac, h with
  | Option.none, _ => rfl
  | some (d, p), ⟨h1, h2, h3⟩ =>
    have l5 : (natToBits 5 d.toNat).length = 5 := natToBits_length _ _
    have ld : (natToBits d.toNat p.toNat).length = d.toNat := natToBits_length _ _
    have n5 : natOfBits (natToBits 5 d.toNat) = d.toNat := by
      rw [natOfBits_natToBits, Nat.mod_eq_of_lt]; omega
    have nd : natOfBits (natToBits d.toNat p.toNat) = p.toNat := by
      rw [natOfBits_natToBits, Nat.mod_eq_of_lt h3]
    have c1 : ¬ (5 + (d.toNat + tail.length) < 5) := by omega
    have c2 : ¬ (d.toNat < 1) := by omega
    have c3 : ¬ (d.toNat + tail.length < d.toNat) := by omega
    simp only [anycastBits_some d p h2, List.cons_append, List.append_assoc, parseAnycastBits,
      List.take_left' l5, List.drop_left' l5, n5, List.take_left' ld, List.drop_left' ld, nd,
      List.length_append, l5, ld, c1, c2, c3, ↓reduceIte, BitVec.ofNat_toNat, BitVec.setWidth_eq]

/-- the addr_std branch of `parseTlbBits` reads its `Maybe Anycast` exactly as `parseAnycastBits` does -/
theorem parseTlbBits_std_eq (rest : List Bool) :
    parseTlbBits (true :: false :: rest) =
      match parseAnycastBits rest with
      | .err e => .err e
      | .panic p => .panic p
      | .ok (ac, r) =>
        if r.length < 264 then .err "eof"
        else .ok (.std ac (BitVec.ofNat 8 (natOfBits (r.take 8))) (bytesOfBits 32 (r.drop 8))) := by
  match rest with
  | [] => rfl
  | false :: r => rfl
  | true :: r =>
    simp only [parseTlbBits, parseAnycastBits]
    split
    · rfl
    · split
      · rfl
      · split
        · rfl
        · rfl

theorem tlb_bits_roundtrip_all (m : MsgAddress) (h : m.WF') (rest : List Bool) :
    ∃ bs, tlbBits m = some bs ∧ parseTlbBits (bs ++ rest) = .ok m := by
  cases m with
  | none => exact ⟨_, rfl, rfl⟩
  | extern bits =>
    have h : bits.length ≤ 511 := h
    have h2 : ¬ bits.length > 511 := by omega
    have l9 : (bitsMsb (BitVec.ofNat 9 bits.length)).length = 9 := bitsMsb_length _
    have n9 : natOfBits (bitsMsb (BitVec.ofNat 9 bits.length)) = bits.length := by
      rw [natOfBits_bitsMsb, BitVec.toNat_ofNat, Nat.mod_eq_of_lt]; omega
    have c1 : ¬ (9 + (bits.length + rest.length) < 9) := by omega
    have c2 : ¬ (bits.length + rest.length < bits.length) := by omega
    refine ⟨[false, true] ++ bitsMsb (BitVec.ofNat 9 bits.length) ++ bits,
      by simp only [tlbBits, h2, ↓reduceIte], ?_⟩
    simp only [List.cons_append, List.nil_append, List.append_assoc, parseTlbBits, List.take_left' l9,
      List.drop_left' l9, n9, List.length_append, l9, c1, c2, ↓reduceIte, List.take_left' rfl]
  | std ac wc addr =>
    obtain ⟨hac, hlen⟩ : AnycastWF 31 ac ∧ addr.length = 32 := h
    refine ⟨_, tlbBits_std_eq ac wc addr, ?_⟩
    have l8 : (bitsMsb wc).length = 8 := bitsMsb_length _
    have c1 : ¬ (8 + (8 * 32 + rest.length) < 264) := by omega
    have hb := bytesOfBits_flatMap addr rest
    rw [hlen] at hb
    simp only [List.cons_append, List.nil_append, List.append_assoc, parseTlbBits_std_eq,
      parseAnycastBits_anycastBits ac hac, List.length_append, l8, flatMap_bitsMsb_length, hlen, c1,
      ↓reduceIte, List.take_left' l8, List.drop_left' l8, natOfBits_bitsMsb, hb, BitVec.ofNat_toNat,
      BitVec.setWidth_eq]
  | var ac len wc bits =>
    obtain ⟨hac, hlen, hb⟩ : AnycastWF 31 ac ∧ len.toNat = bits.length ∧ bits.length ≤ 511 := h
    refine ⟨_, rfl, ?_⟩
    have l9 : (bitsMsb (len.setWidth 9)).length = 9 := bitsMsb_length _
    have l32 : (bitsMsb wc).length = 32 := bitsMsb_length _
    have n9 : natOfBits (bitsMsb (len.setWidth 9)) = bits.length := by
      rw [natOfBits_bitsMsb, BitVec.toNat_setWidth, Nat.mod_eq_of_lt] <;> omega
    have c1 : ¬ (9 + (32 + (bits.length + rest.length)) < 9) := by omega
    have c2 : ¬ (32 + (bits.length + rest.length) < 32) := by omega
    have c3 : ¬ (bits.length + rest.length < bits.length) := by omega
    have e16 : BitVec.ofNat 16 bits.length = len := by rw [← hlen, BitVec.ofNat_toNat, BitVec.setWidth_eq]
    simp only [List.cons_append, List.nil_append, List.append_assoc, parseTlbBits,
      parseAnycastBits_anycastBits ac hac, List.length_append, l9, l32, c1, c2, c3, ↓reduceIte,
      List.take_left' l9, List.drop_left' l9, n9, List.take_left' l32, List.drop_left' l32,
      natOfBits_bitsMsb, BitVec.ofNat_toNat, BitVec.setWidth_eq, List.take_left' rfl, e16]

/-! ### one concrete instance per constructor -/

/-- addr_extern with 11 bits -/
def exExtern : MsgAddress := .extern [true, false, true, true, false, false, true, false, true, true, true]
/-- addr_std, anycast depth 3 / prefix 0b101, workchain −1, address bytes 1, 8, 15, … -/
def exStd : MsgAddress :=
  .std (some (3#32, 5#32)) 0xff#8 ((List.range 32).map fun i => BitVec.ofNat 8 (7 * i + 1))
/-- addr_var, anycast depth 30 (the schema maximum), 5 address bits, workchain −2 -/
def exVar : MsgAddress :=
  .var (some (30#32, 0x2aaaaaaa#32)) 5#16 0xfffffffe#32 [true, true, false, true, false]
/-- addr_var with anycast depth 31: outside the schema (`#<= 30`), inside what the Go codec round-trips -/
def exVar31 : MsgAddress := .var (some (31#32, 0x7fffffff#32)) 0#16 0#32 []

theorem exExtern_wf : exExtern.WF := by show List.length _ ≤ 511; decide
theorem exStd_wf : exStd.WF := ⟨⟨by decide, by decide, by decide⟩, by decide⟩
theorem exVar_wf : exVar.WF := ⟨⟨by decide, by decide, by decide⟩, by decide, by decide⟩
theorem exVar31_wf' : exVar31.WF' := ⟨⟨by decide, by decide, by decide⟩, by decide, by decide⟩

example : specMsgAddress (toVal .none) = (tlbBits .none).map (fun bs => (bs, [])) :=
  tlbBits_eq_spec .none trivial
example (rest : List Bool) : ∃ bs, tlbBits .none = some bs ∧ parseTlbBits (bs ++ rest) = .ok .none :=
  tlb_bits_roundtrip_all .none trivial rest

example : specMsgAddress (toVal exExtern) = (tlbBits exExtern).map (fun bs => (bs, [])) :=
  tlbBits_eq_spec exExtern exExtern_wf
example (rest : List Bool) : ∃ bs, tlbBits exExtern = some bs ∧ parseTlbBits (bs ++ rest) = .ok exExtern :=
  tlb_bits_roundtrip_all exExtern exExtern_wf.toWF' rest

example : specMsgAddress (toVal exStd) = (tlbBits exStd).map (fun bs => (bs, [])) :=
  tlbBits_eq_spec exStd exStd_wf
example (rest : List Bool) : ∃ bs, tlbBits exStd = some bs ∧ parseTlbBits (bs ++ rest) = .ok exStd :=
  tlb_bits_roundtrip_all exStd exStd_wf.toWF' rest

example : specMsgAddress (toVal exVar) = (tlbBits exVar).map (fun bs => (bs, [])) :=
  tlbBits_eq_spec exVar exVar_wf
example (rest : List Bool) : ∃ bs, tlbBits exVar = some bs ∧ parseTlbBits (bs ++ rest) = .ok exVar :=
  tlb_bits_roundtrip_all exVar exVar_wf.toWF' rest

example (rest : List Bool) : ∃ bs, tlbBits exVar31 = some bs ∧ parseTlbBits (bs ++ rest) = .ok exVar31 :=
  tlb_bits_roundtrip_all exVar31 exVar31_wf' rest

/-- non-vacuity: the spec side really is `some` on the instances (2 + 1 + 5 + 3 + 8 + 256 = 275 bits for `exStd`) -/
example : (specMsgAddress (toVal exStd)).map (fun c => c.1.length) = some 275 := by
  rw [tlbBits_eq_spec exStd exStd_wf]
  simp only [exStd, tlbBits, Option.map_some, List.length_append, List.length_cons, List.length_nil,
    List.length_drop, bitsMsb_length, flatMap_bitsMsb_length, List.length_map, List.length_range]
  rfl

end Tongo.Address
