import TongoProofs.Lemmas.BocOrderFinal
import TongoProofs.Lemmas.Wallet
import TongoProofs.Lemmas.CellOrdSpec
/-! Go's de-duplication key (the representation hash) identifies the cell on level-0 tables when the hash function has
no collision among the representations of the table's cells: `KeyInjOn` discharged from `CollisionFree`. -/
namespace Tongo.Boc.Order
open Tongo Tongo.Boc

/-- Go's de-duplication key of row `i`: the representation hash (`Cell.Hash()`, the line-by-line model of
immutable_cell.go) of the cell the row unfolds to; `none` when hashing fails. (Go keys its map by the hex string of
these bytes — an injective rendering.) -/
def goKey (H : List UInt8 → List UInt8) (t : Table) (i : Nat) : Option (List UInt8) :=
  match Table.unfold t (t.size + 1) i with
  | some c => match Cell.reprHash H c with
    | .ok h => some h
    | _ => none
  | none => none

/-- all cells are of level 0 and none is a pruned branch: the cells the wallet, the message builders and the TL-B
encoders produce (ordinary and library cells) -/
def Lvl0 (t : Table) : Prop := ∀ i (h : i < t.size), t[i].mask = 0 ∧ t[i].ty ≠ tyPruned

/-- the representations `d1 d2 data depths hashes` of the cells of the table -/
def reprsOf (H : List UInt8 → List UInt8) (t : Table) : List (List UInt8) :=
  (List.range t.size).map (fun i => Cell.reprO H (semF t (t.size + 1) i))

section
variable (H : List UInt8 → List UInt8) (t : Table) (U : Nat → Cell)

theorem sem_lvl0 (hs : IsSem t U) (hf : Fwd t) (h0 : Lvl0 t) :
    ∀ m i, i < t.size → t.size - i ≤ m → (U i).lvl0 = true := by
  intro m
  induction m with
  | zero => intro i hi h; omega
  | succ m ih =>
    intro i hi hm
    rw [hs i hi]
    obtain ⟨a, b⟩ := h0 i hi
    rw [get!_of_getElem t i hi] at a b
    simp only [Cell.lvl0, a, beq_self_eq_true, Bool.true_and, Bool.and_eq_true, bne_iff_ne, ne_eq]
    refine ⟨b, ?_⟩
    have : ∀ l : List Nat, (∀ r ∈ l, (U r).lvl0 = true) → Cell.lvl0List (l.map U) = true := by
      intro l
      induction l with
      | nil => intro _; rfl
      | cons x xs ihx =>
        intro hl
        simp only [List.map_cons, Cell.lvl0List, Bool.and_eq_true]
        exact ⟨hl x (by simp), ihx (fun r hr => hl r (by simp [hr]))⟩
    apply this
    intro r hr
    obtain ⟨p, q⟩ := hf i hi r hr
    exact ih r q (by omega)

theorem depthO_le_rank (hs : IsSem t U) (hf : Fwd t) (ds : Array Nat)
    (hr : ∀ i, i < t.size → ∀ r ∈ (t[i]!).refs, ds[r]! + 1 ≤ ds[i]!) :
    ∀ m i, i < t.size → t.size - i ≤ m → (U i).depthO ≤ ds[i]! := by
  intro m
  induction m with
  | zero => intro i hi h; omega
  | succ m ih =>
    intro i hi hm
    rw [hs i hi]
    simp only [Cell.depthO]
    split
    · omega
    · have : ∀ l : List Nat, (∀ r ∈ l, (U r).depthO + 1 ≤ ds[i]!) → l ≠ [] → Cell.maxDepthO (l.map U) + 1 ≤ ds[i]! := by
        intro l
        induction l with
        | nil => intro _ h; exact absurd rfl h
        | cons x xs ihx =>
          intro hl _
          simp only [List.map_cons, Cell.maxDepthO]
          have h1 := hl x (by simp)
          by_cases hxs : xs = []
          · subst hxs; simp only [List.map_nil, Cell.maxDepthO]; omega
          · have := ihx (fun r hr => hl r (by simp [hr])) hxs
            omega
      rename_i hne
      apply this
      · intro r hr'
        obtain ⟨p, q⟩ := hf i hi r hr'
        have := ih r q (by omega)
        have := hr i hi r hr'
        omega
      · intro he; apply hne; simp [he]


/-- the representation of a level-0 cell determines its type, its bits and the hashes of its references -/
theorem repr_node_inj (hlen : ∀ x, (H x).length = 32) (ty ty' : Nat) (bits bits' : List Bool) (kids kids' : List Cell)
    (hb : bits.length ≤ 1023) (hb' : bits'.length ≤ 1023) (hk : kids.length ≤ 4) (hk' : kids'.length ≤ 4)
    (hty : ty < 256) (hty' : ty' < 256)
    (hex : ty ≠ 0 → (Bits.toppedUp bits).head? = some (UInt8.ofNat ty))
    (hex' : ty' ≠ 0 → (Bits.toppedUp bits').head? = some (UInt8.ofNat ty'))
    (h : (Cell.mk ty 0 bits kids).reprO H = (Cell.mk ty' 0 bits' kids').reprO H) :
    ty = ty' ∧ bits = bits' ∧ kids.length = kids'.length ∧ kids.map (Cell.hashO H) = kids'.map (Cell.hashO H) := by
  simp only [Cell.reprO, reprNoRefs, List.cons_append, List.cons.injEq] at h
  obtain ⟨hd1, hd2, hrest⟩ := h
  have hd1' := congrArg UInt8.toNat hd1
  simp only [d1, Nat.mul_zero, Nat.add_zero, UInt8.toNat_ofNat'] at hd1'
  have hn : kids.length = kids'.length ∧ ((ty != 0) = (ty' != 0)) := by
    have m1 : (kids.length + if (ty != 0) = true then 8 else 0) < 256 := by split <;> omega
    have m2 : (kids'.length + if (ty' != 0) = true then 8 else 0) < 256 := by split <;> omega
    rw [Nat.mod_eq_of_lt m1, Nat.mod_eq_of_lt m2] at hd1'
    cases hbt : (ty != 0) <;> cases hbt' : (ty' != 0) <;> simp [hbt, hbt'] at hd1' m1 m2 ⊢ <;> omega
  have hdd : (bits.length + 7) / 8 + bits.length / 8 = (bits'.length + 7) / 8 + bits'.length / 8 := by
    have := congrArg UInt8.toNat hd2
    simp [d2, UInt8.toNat_ofNat'] at this
    omega
  have h1 := List.append_inj hrest (by
    simp only [List.length_append, Bits.toppedUp_length, Cell.depthsO_length]
    omega)
  have h2 := List.append_inj h1.1 (by rw [Bits.toppedUp_length, Bits.toppedUp_length]; omega)
  have hbits := Bits.toppedUp_inj hb hb' hdd h2.1
  refine ⟨?_, hbits, hn.1, Cell.hashesO_inj H hlen _ _ hn.1 h1.2⟩
  subst hbits
  by_cases e1 : ty = 0
  · by_cases e2 : ty' = 0
    · omega
    · have := hn.2; simp [e1, e2] at this
  · by_cases e2 : ty' = 0
    · have := hn.2; simp [e1, e2] at this
    · have a := hex e1
      rw [hex' e2] at a
      have := congrArg UInt8.toNat (Option.some.inj a)
      simp [UInt8.toNat_ofNat', Nat.mod_eq_of_lt hty, Nat.mod_eq_of_lt hty'] at this
      omega

/-- without a collision among the representations of the cells of a level-0 table, equal hashes mean equal trees -/
theorem hashO_inj_table (hlen : ∀ x, (H x).length = 32) (hs : IsSem t U) (hf : Fwd t)
    (hrows : ∀ i (h : i < t.size), RowOK t.size i t[i]) (hexo : ∀ i (h : i < t.size), ExoticOK t[i]) (h0 : Lvl0 t)
    (cf : CollisionFree H ((List.range t.size).map (fun i => Cell.reprO H (U i)))) :
    ∀ m i j, i < t.size → j < t.size → t.size - i ≤ m → (U i).hashO H = (U j).hashO H → U i = U j := by
  intro m
  induction m with
  | zero => intro i j hi _ h; omega
  | succ m ih =>
    intro i j hi hj hm heq
    rw [Cell.hashO_eq_H_reprO, Cell.hashO_eq_H_reprO] at heq
    have hrep := cf _ (List.mem_map.2 ⟨i, List.mem_range.2 hi, rfl⟩) _ (List.mem_map.2 ⟨j, List.mem_range.2 hj, rfl⟩) heq
    have ri := hrows i hi
    have rj := hrows j hj
    have ei := hexo i hi
    have ej := hexo j hj
    obtain ⟨mi, _⟩ := h0 i hi
    obtain ⟨mj, _⟩ := h0 j hj
    rw [get!_of_getElem t i hi] at ri ei mi
    rw [get!_of_getElem t j hj] at rj ej mj
    rw [hs i hi, hs j hj, mi, mj] at hrep ⊢
    obtain ⟨e1, e2, e3, e4⟩ := repr_node_inj H hlen _ _ _ _ _ _ ri.bits_le rj.bits_le
      (by simp only [List.length_map]; exact ri.refs_le) (by simp only [List.length_map]; exact rj.refs_le)
      ri.ty_lt rj.ty_lt ei ej hrep
    rw [e1, e2]
    congr 1
    -- the children: pairwise equal hashes, hence (induction) equal trees
    simp only [List.map_map] at e4
    simp only [List.length_map] at e3
    have : ∀ (l l' : List Nat), l.length = l'.length → (∀ r ∈ l, i < r ∧ r < t.size) → (∀ r ∈ l', r < t.size) →
        l.map (Cell.hashO H ∘ U) = l'.map (Cell.hashO H ∘ U) → l.map U = l'.map U := by
      intro l
      induction l with
      | nil => intro l' hl _ _ _; cases l' with
        | nil => rfl
        | cons _ _ => simp at hl
      | cons x xs ihx =>
        intro l' hl hx hx' hmap
        cases l' with
        | nil => simp at hl
        | cons y ys =>
          simp only [List.map_cons, List.cons.injEq, Function.comp] at hmap ⊢
          obtain ⟨a, b⟩ := hx x (by simp)
          refine ⟨ih x y b (hx' y (by simp)) (by omega) hmap.1, ?_⟩
          exact ihx ys (by simpa using hl) (fun r hr => hx r (by simp [hr])) (fun r hr => hx' r (by simp [hr])) hmap.2
    exact this _ _ e3 (fun r hr => hf i hi r hr) (fun r hr => (hf j hj r hr).2) e4

end

/-- **Go's key satisfies `KeyInjOn`** on every valid level-0 table, as soon as the hash function has no collision among
the representations of the cells of the table (and 32-byte outputs): `Cell.Hash()` succeeds on every row (depth ≤ 1024)
and two rows get the same hash exactly when they unfold to the same tree. -/
theorem keyInjOn_of_collisionFree (H : List UInt8 → List UInt8) (hlen : ∀ x, (H x).length = 32) (t : Table)
    (roots : List Nat) (hv : ValidLayout t roots) (h0 : Lvl0 t) (cf : CollisionFree H (reprsOf H t)) :
    KeyInjOn t (goKey H t) := by
  have hf := fwd_of_rows t hv.1.1
  have hs := sem_exists t hf
  have hU : ∀ i, i < t.size → Table.unfold t (t.size + 1) i = some (semF t (t.size + 1) i) :=
    fun i hi => unfold_of_sem t _ hs hf (t.size + 1) i hi (by omega)
  obtain ⟨ds, _, hrank⟩ := hv.1.2.2
  have hrank' : ∀ i, i < t.size → ∀ r ∈ (t[i]!).refs, ds[r]! + 1 ≤ ds[i]! := by
    intro i hi r hr
    rw [← get!_of_getElem t i hi] at hr
    exact (hrank i hi).2 r hr
  have hkey : ∀ i, i < t.size → goKey H t i = some ((semF t (t.size + 1) i).hashO H) := by
    intro i hi
    unfold goKey
    rw [hU i hi]
    simp only
    have hl := sem_lvl0 t _ hs hf h0 t.size i hi (by omega)
    have hd : (semF t (t.size + 1) i).depthO ≤ maxDepth := by
      have := depthO_le_rank t _ hs hf ds hrank' t.size i hi (by omega)
      have := (hrank i hi).1
      omega
    rw [Cell.reprHash_lvl0 H _ hl hd]
  refine ⟨fun i hi => by rw [hkey i hi]; rfl, ?_⟩
  intro i j hi hj
  rw [hkey i hi, hkey j hj, hU i hi, hU j hj]
  constructor
  · intro h
    have := hashO_inj_table H t _ hlen hs hf hv.1.1 hv.2 h0 cf t.size i j hi hj (by omega) (Option.some.inj h)
    rw [this]
  · intro h
    rw [Option.some.inj h]

/-! ### an instance with two structurally equal rows (the de-duplication hit path) -/

def exDup : Table := #[⟨0, 0, [true], [1, 2]⟩, ⟨0, 0, [false], []⟩, ⟨0, 0, [false], []⟩]

theorem exDup_valid : ValidLayout exDup [0] := by
  refine ⟨⟨?_, ?_, ⟨#[1, 0, 0], rfl, ?_⟩⟩, ?_⟩
  · intro i hi
    have : i = 0 ∨ i = 1 ∨ i = 2 := by simp [exDup] at hi; omega
    rcases this with rfl | rfl | rfl <;>
      exact ⟨by simp [exDup], by simp [exDup], by simp [exDup], by simp [exDup], by simp [exDup], by simp [exDup, tyPruned]⟩
  · intro r hr; simp at hr; subst hr; decide
  · intro i hi
    have : i = 0 ∨ i = 1 ∨ i = 2 := by simp [exDup] at hi; omega
    rcases this with rfl | rfl | rfl <;> exact ⟨by simp [maxDepth], by simp [exDup]⟩
  · intro i hi h
    have : i = 0 ∨ i = 1 ∨ i = 2 := by simp [exDup] at hi; omega
    rcases this with rfl | rfl | rfl <;> exact absurd rfl h

/-- rows 1 and 2 are the same cell: they get the same key -/
theorem exDup_key : KeyInjOn exDup (fun i => some (if i = 2 then 1 else i)) := by
  refine ⟨fun _ _ => rfl, ?_⟩
  intro i j hi hj
  have hi' : i = 0 ∨ i = 1 ∨ i = 2 := by simp [exDup] at hi; omega
  have hj' : j = 0 ∨ j = 1 ∨ j = 2 := by simp [exDup] at hj; omega
  rcases hi' with rfl | rfl | rfl <;> rcases hj' with rfl | rfl | rfl <;> simp [exDup, Table.unfold]

end Tongo.Boc.Order
