import TongoModel.Tlb.Basic
import TongoModel.BitOps
import TongoProofs.Lemmas.TlbSpec
import TongoProofs.Lemmas.TlbCanon
import TongoProofs.Lemmas.BitStringBytes
import TongoProofs.Lemmas.BitStringOps
import TongoProofs.Lemmas.BitStringCore
/-! # The ideal level of the TL-B codec refines C06's specification of `boc.BitString`

`Tlb.Builder` / `Tlb.Slice` (TongoModel/Tlb/Basic.lean) are lists of bits; C06 proves that the byte-level model of
`boc.BitString` refines `Op.spec` on an ideal bit list (`C06.op_refines`). This file proves the remaining link: every
bit-level writer / reader of the TL-B model IS the corresponding `Op.spec` (same success or failure with the same error
text, the same bits appended / the same value returned, the same remaining bits) — so that the layering "TL-B codec over
the bit string" is a theorem (`C03.builder_refines_bitstring`). -/
namespace Tongo.Tlb
open Tongo Tongo.Bits

/-- a Builder is C06's ideal bit list with the cell capacity (the read position does not matter while writing) -/
def RB (b : Builder) (t : Ideal) : Prop := t.bits = b.bits ∧ t.cap = cellBits

/-- a Slice is what is left to read of C06's ideal bit list -/
def RS (s : Slice) (t : Ideal) : Prop := t.bits.drop t.pos = s.bits ∧ t.pos ≤ t.bits.length

/-- `f` is the writer `op` of C06's specification: same success / failure (same error text); on success the bits of
the builder are the bits of the ideal state, references and cell type untouched. (After a failed write C06's state
holds the prefix that fitted; the codec propagates the error and never looks at the builder again.) -/
def WriteRefines (f : Builder → Outcome Builder) (op : Op) : Prop :=
  ∀ b t, RB b t →
    match f b with
    | .ok b' => (op.spec t).1 = .ok .unit ∧ RB b' (op.spec t).2 ∧ b'.refs = b.refs ∧ b'.ty = b.ty ∧ b'.mask = b.mask
    | .err e => (op.spec t).1 = .err e
    | .panic _ => False

/-- `f` is the reader `op`: same success / failure (same error text), the same value (`out`), and the slice left is
what is left of the ideal state; a failed read leaves the ideal state's position unchanged -/
def ReadRefines {α : Type} (f : Slice → Outcome (α × Slice)) (op : Op) (out : α → Out) : Prop :=
  ∀ s t, RS s t →
    match f s with
    | .ok (v, s') => (op.spec t).1 = .ok (out v) ∧ RS s' (op.spec t).2 ∧ s'.refs = s.refs ∧ s'.ty = s.ty
    | .err e => (op.spec t).1 = .err e
    | .panic _ => False

theorem writeBits_refines (xs : List Bool) : WriteRefines (fun b => b.writeBits xs) (.writeBitArray xs) := by
  intro b t ⟨hb, hc⟩
  by_cases hfit : b.bits.length + xs.length ≤ cellBits
  · simp [Builder.writeBits, Op.spec, Ideal.write, hb, hc, hfit, RB]
  · simp [Builder.writeBits, Op.spec, Ideal.write, hb, hc, hfit, BitString.errOverflow]

/-- every writer that is `writeBits` of some list on both sides -/
theorem write_refines_of {f : Builder → Outcome Builder} {op : Op} (xs : List Bool)
    (hf : ∀ b, f b = b.writeBits xs) (hop : op.spec = Ideal.write xs) : WriteRefines f op := by
  intro b t hR
  have := writeBits_refines xs b t hR
  have e : (Op.writeBitArray xs).spec = Ideal.write xs := rfl
  rw [e] at this
  rw [hf, hop]
  exact this

theorem writeBit_refines (x : Bool) : WriteRefines (fun b => b.writeBit x) (.writeBit x) :=
  write_refines_of [x] (fun _ => rfl) rfl

theorem writeUint_refines (v n : Nat) (hv : v < 2 ^ 64) : WriteRefines (fun b => b.writeUint v n) (.writeUint v n) :=
  write_refines_of (natToBits n v) (fun b => by
    unfold Builder.writeUint; rw [Nat.mod_eq_of_lt hv]) rfl

theorem writeBytes_refines (bs : List UInt8) : WriteRefines (fun b => b.writeBytes bs) (.writeBytes bs) :=
  write_refines_of (bytesToBits bs) (fun _ => rfl) rfl

theorem writeUnary_refines (n : Nat) : WriteRefines (fun b => b.writeUnary n) (.writeUnary n) :=
  write_refines_of (List.replicate n true ++ [false]) (fun b => by
    simp only [Builder.writeUnary, Builder.writeBits, List.length_append, List.length_replicate, List.length_cons,
      List.length_nil]) (by
    show Ideal.writeUnary n = _
    exact Tongo.BitString.writeUnary_spec_eq n)

theorem bitLen_eq (n : Nat) : Builder.bitLen n = Ideal.bitLength n := rfl

theorem writeLimUint_refines (v n : Nat) (hv : v < 2 ^ 64) :
    WriteRefines (fun b => b.writeLimUint v n) (.writeLimUint v n) :=
  write_refines_of (natToBits (Ideal.bitLength n) v) (fun b => by
    unfold Builder.writeLimUint Builder.writeUint Builder.limBits
    rw [Nat.mod_eq_of_lt hv, bitLen_eq]) rfl

/-- a writer that fails with `e` on both sides, whatever the state -/
theorem fail_refines {f : Builder → Outcome Builder} {op : Op} (e : String)
    (hf : ∀ b, f b = .err e) (hop : op.spec = Ideal.fail e) : WriteRefines f op := by
  intro b t _
  rw [hf, hop]
  rfl

/-- WriteInt for every int64 value and every width 0..64: the error cases (width 0; width 1 and a value other than
0 / -1), the truncating case (a value outside the range of a wider field) and two's complement inside the range -/
theorem writeInt_refines (v : Int) (n : Nat) (hn : n ≤ 64) :
    WriteRefines (fun b => b.writeInt v n) (.writeInt v n) := by
  by_cases h0 : n = 0
  · subst h0
    exact fail_refines _ (fun _ => rfl) (by simp [Op.spec])
  by_cases hr : v < -(2 : Int) ^ (n - 1) ∨ v ≥ (2 : Int) ^ (n - 1)
  · by_cases h1 : n = 1
    · subst h1
      have hv : v ≠ -1 ∧ v ≠ 0 := by
        simp only [Nat.sub_self, Int.pow_zero] at hr
        omega
      have hr' : v < -1 ∨ 1 ≤ v := by simpa using hr
      exact fail_refines "bit length is too small" (fun b => by simp [Builder.writeInt, hv])
        (by simp [Op.spec, hr'])
    · refine write_refines_of (decide (v < 0) :: natToBits (n - 1) (v % (2 : Int) ^ 64).toNat) (fun b => ?_) ?_
      · rw [Builder.writeInt_wide _ _ _ (by omega)]
        simp [Builder.intBitsGo, h1]
      · simp only [Op.spec, h0, if_false, hr, if_true, h1]
  · have hlo : -(2 ^ (n - 1) : Int) ≤ v := by
      have : ¬ v < -(2 : Int) ^ (n - 1) := fun h => hr (Or.inl h)
      omega
    have hhi : v < (2 ^ (n - 1) : Int) := by
      have : ¬ v ≥ (2 : Int) ^ (n - 1) := fun h => hr (Or.inr h)
      omega
    refine write_refines_of (intToBits n v) (fun b => ?_) ?_
    · rw [Builder.writeInt_repr _ _ _ (by omega) hlo hhi, intBitsGo_eq n v (by omega) hn hlo hhi]
    · simp only [Op.spec, h0, if_false, hr]

theorem bigBitLen_eq (v : Int) : Builder.bitLen v.natAbs = BitString.bigBitLen v := rfl

/-- WriteBigUint for every non-negative value and every width -/
theorem writeBigUint_refines (v : Int) (n : Nat) (hv : 0 ≤ v) :
    WriteRefines (fun b => b.writeBigUint v n) (.writeBigUint v n) := by
  by_cases hbad : n = 0 ∨ BitString.bigBitLen v > n
  · exact fail_refines "bit length is too small" (fun b => by simp [Builder.writeBigUint, bigBitLen_eq, hbad])
      (by simp [Op.spec, hbad])
  · have hlt : v < 2 ^ n := by
      have hb : ¬ BitString.bigBitLen v > n := fun h => hbad (Or.inr h)
      unfold BitString.bigBitLen at hb
      have hna : (v.natAbs : Int) = v := Int.natAbs_of_nonneg hv
      split at hb
      · rename_i h0
        have : v = 0 := by omega
        subst this
        exact Int.pow_pos (by omega)
      · have h1 : v.natAbs < 2 ^ (Nat.log2 v.natAbs + 1) := Nat.lt_log2_self
        have h2 : (2 : Nat) ^ (Nat.log2 v.natAbs + 1) ≤ 2 ^ n := Nat.pow_le_pow_right (by omega) (by omega)
        have h3 : v.natAbs < 2 ^ n := Nat.lt_of_lt_of_le h1 h2
        have : (v.natAbs : Int) < ((2 ^ n : Nat) : Int) := by exact_mod_cast h3
        rw [hna] at this
        simpa using this
    refine write_refines_of (natToBits n v.toNat) (fun b => ?_) ?_
    · simp only [Builder.writeBigUint, bigBitLen_eq, hbad, if_false]
      rw [Spec.intToBits_nonneg n v hv hlt]
    · simp only [Op.spec, hbad, if_false]

theorem writeBits_bind (b : Builder) (xs ys : List Bool) :
    (b.writeBits xs).bind (fun b1 => b1.writeBits ys) = b.writeBits (xs ++ ys) := by
  unfold Builder.writeBits
  by_cases h1 : b.bits.length + xs.length ≤ cellBits
  · simp only [h1, if_true, Outcome.bind, List.length_append, List.append_assoc]
    by_cases h2 : b.bits.length + xs.length + ys.length ≤ cellBits
    · have h3 : b.bits.length + (xs.length + ys.length) ≤ cellBits := by omega
      rw [if_pos h2, if_pos h3]
    · have h3 : ¬ b.bits.length + (xs.length + ys.length) ≤ cellBits := by omega
      rw [if_neg h2, if_neg h3]
  · have h3 : ¬ b.bits.length + (xs ++ ys).length ≤ cellBits := by
      rw [List.length_append]; omega
    rw [if_neg h1, if_neg h3]
    rfl

theorem writeBigUint_eq (b : Builder) (v : Int) (n : Nat) (h0 : 0 ≤ v) (h1 : v < 2 ^ n) (hn : n ≠ 0) :
    b.writeBigUint v n = b.writeBits (intToBits n v) := by
  unfold Builder.writeBigUint
  have hb : ¬ Builder.bitLen v.natAbs > n := by
    unfold Builder.bitLen
    split
    · omega
    · rename_i hne
      have h3 : v.natAbs < 2 ^ n := by
        have : (v.natAbs : Int) < ((2 ^ n : Nat) : Int) := by
          rw [Int.natAbs_of_nonneg h0]; simpa using h1
        exact_mod_cast this
      have := (Nat.log2_lt hne).mpr h3
      omega
  rw [if_neg (by intro h; rcases h with h | h; exact hn h; exact hb h)]

/-- WriteBigInt for every width ≥ 1 and every representable value (the sign bit and the magnitude are two writes in the
code: together they are the single write of the two's complement bits) -/
theorem writeBigInt_refines (v : Int) (n : Nat) (hn : 1 ≤ n) (hlo : -(2 : Int) ^ (n - 1) ≤ v)
    (hhi : v < (2 : Int) ^ (n - 1)) : WriteRefines (fun b => b.writeBigInt v n) (.writeBigInt v n) := by
  obtain ⟨m, rfl⟩ : ∃ m, n = m + 1 := ⟨n - 1, by omega⟩
  simp only [Nat.add_sub_cancel] at hlo hhi
  refine write_refines_of (intToBits (m + 1) v) (fun b => ?_) rfl
  have key : ∀ (sgn : Bool) (w : Int), bitsToInt (sgn :: intToBits m w) = v →
      sgn :: intToBits m w = intToBits (m + 1) v := by
    intro sgn w hval
    have := intToBits_bitsToInt (sgn :: intToBits m w) (by simp)
    rw [hval] at this
    simpa [intToBits_length] using this.symm
  by_cases hm : m = 0
  · subst hm
    have hi : v = -1 ∨ v = 0 := by
      have l2 : -(1 : Int) ≤ v := by simpa using hlo
      have h2 : v < (1 : Int) := by simpa using hhi
      omega
    rcases hi with rfl | rfl
    · simp [Builder.writeBigInt, Builder.writeBit]; rfl
    · simp [Builder.writeBigInt, Builder.writeBit]; rfl
  · unfold Builder.writeBigInt
    rw [if_neg (by omega)]
    simp only [Nat.add_sub_cancel]
    by_cases hneg : v < 0
    · rw [if_pos hneg]
      have e : ∀ b1 : Builder, b1.writeBigUint (2 ^ m + v) m = b1.writeBits (intToBits m (2 ^ m + v)) :=
        fun b1 => writeBigUint_eq b1 _ m (by omega) (by omega) hm
      simp only [bind, Builder.writeBit, e]
      rw [writeBits_bind]
      congr 1
      apply key
      rw [bitsToInt_cons, if_pos rfl, intToBits_length,
        bitsToNat_intToBits_nonneg m (2 ^ m + v) (by omega) (by omega)]
      ring
    · rw [if_neg hneg]
      have e : ∀ b1 : Builder, b1.writeBigUint v m = b1.writeBits (intToBits m v) :=
        fun b1 => writeBigUint_eq b1 _ m (by omega) hhi hm
      simp only [bind, Builder.writeBit, e]
      rw [writeBits_bind]
      congr 1
      apply key
      rw [bitsToInt_cons, if_neg (by simp), bitsToNat_intToBits_nonneg m v (by omega) hhi]

/-! ### readers -/

/-- every reader that takes `n` bits and converts them (`g` / `out'`: the two conversions agree on `n` bits) -/
theorem read_refines_of' {α : Type} {f : Slice → Outcome (α × Slice)} {op : Op} {out : α → Out} (n : Nat)
    (g : List Bool → α) (out' : List Bool → Out)
    (hf : ∀ s, f s = (s.readBits n).bind fun r => .ok (g r.1, r.2))
    (hop : op.spec = Ideal.read n out') (hg : ∀ l, l.length = n → out' l = out (g l)) : ReadRefines f op out := by
  intro s t ⟨hb, hp⟩
  have hlen : s.bits.length = t.bits.length - t.pos := by rw [← hb, List.length_drop]
  rw [hf, hop]
  unfold Slice.readBits Ideal.read Ideal.peek
  by_cases h : s.bits.length < n
  · have h' : t.bits.length < t.pos + n := by omega
    simp [h, h', Outcome.bind, BitString.errNotEnough]
  · have h' : ¬ t.bits.length < t.pos + n := by omega
    simp only [h, h', if_false, Outcome.bind, hb, RS]
    refine ⟨?_, ⟨?_, by omega⟩, trivial, trivial⟩
    · rw [hg _ (by rw [List.length_take]; omega)]
    · rw [← hb, List.drop_drop]

theorem read_refines_of {α : Type} {f : Slice → Outcome (α × Slice)} {op : Op} {out : α → Out} (n : Nat)
    (g : List Bool → α)
    (hf : ∀ s, f s = (s.readBits n).bind fun r => .ok (g r.1, r.2))
    (hop : op.spec = Ideal.read n fun l => out (g l)) : ReadRefines f op out :=
  read_refines_of' n g _ hf hop (fun _ _ => rfl)

theorem readBits_refines (n : Nat) : ReadRefines (fun s => s.readBits n) (.readBits n) Out.bits :=
  read_refines_of n id (fun s => by cases h : s.readBits n <;> simp [Outcome.bind]) rfl

theorem readBit_refines : ReadRefines (fun s => s.readBit) .readBit Out.bool := by
  refine read_refines_of 1 (fun l => l.headD false) (fun s => ?_) rfl
  unfold Slice.readBit Slice.readBits
  cases hb : s.bits with
  | nil => simp [Outcome.bind]
  | cons x rest => simp [Outcome.bind]

theorem readUint_refines (n : Nat) : ReadRefines (fun s => s.readUint n) (.readUint n) Out.nat := by
  by_cases hn : n > 64
  · intro s t _
    simp [Slice.readUint, Op.spec, hn, Ideal.fail]
  · refine read_refines_of n bitsToNat (fun s => ?_) (by simp [Op.spec, hn])
    simp only [Slice.readUint, hn, if_false, bind, pure]

theorem readInt_refines (n : Nat) : ReadRefines (fun s => s.readInt n) (.readInt n) Out.int := by
  by_cases hn : n > 64
  · intro s t _
    simp [Slice.readInt, Op.spec, hn, Ideal.fail]
  by_cases h0 : n = 0
  · intro s t _
    simp [Slice.readInt, Op.spec, h0, Ideal.fail]
  · refine read_refines_of n bitsToInt (fun s => ?_) (by simp [Op.spec, hn, h0])
    simp only [Slice.readInt, hn, h0, if_false, bind, pure]

theorem readBigUint_refines (n : Nat) :
    ReadRefines (fun s => s.readBigUint n) (.readBigUint n) (fun v => Out.nat v.toNat) := by
  refine read_refines_of n (fun l => (bitsToNat l : Int)) (fun s => ?_) (by simp [Op.spec])
  simp only [Slice.readBigUint, bind, pure]

theorem readBigInt_refines (n : Nat) : ReadRefines (fun s => s.readBigInt n) (.readBigInt n) Out.int := by
  refine read_refines_of n bitsToInt (fun s => ?_) rfl
  simp only [Slice.readBigInt, bind, pure]

theorem limBits_le (n : Nat) (hn : n < 2 ^ 64) : Builder.limBits n ≤ 64 := by
  unfold Builder.limBits Builder.bitLen
  split
  · omega
  · rename_i h0
    have := (Nat.log2_lt h0).mpr hn
    omega

/-- ReadLimUint for every bound a uint64 can hold -/
theorem readLimUint_refines (n : Nat) (hn : n < 2 ^ 64) :
    ReadRefines (fun s => s.readLimUint n) (.readLimUint n) Out.nat := by
  have h := readUint_refines (Builder.limBits n)
  have hle := limBits_le n hn
  have e : (Op.readLimUint n).spec = (Op.readUint (Builder.limBits n)).spec := by
    have : ¬ Builder.limBits n > 64 := by omega
    simp only [Op.spec, this, if_false]
    rfl
  intro s t hR
  have := h s t hR
  rw [← e] at this
  exact this

theorem bitsToBytes_eq_bytesOfBits : ∀ (n : Nat) (l : List Bool), l.length = n * 8 → bitsToBytes l = bytesOfBits n l
  | 0, l, h => by
    have : l = [] := List.eq_nil_of_length_eq_zero (by omega)
    subst this
    simp [bitsToBytes_nil, bytesOfBits]
  | n + 1, l, h => by
    have e : l = l.take 8 ++ l.drop 8 := (List.take_append_drop 8 l).symm
    rw [e, bitsToBytes_append8 _ _ (by rw [List.length_take]; omega),
      bitsToBytes_eq_bytesOfBits n (l.drop 8) (by rw [List.length_drop]; omega), ← e]
    simp [bytesOfBits]

theorem readBytes_refines (n : Nat) : ReadRefines (fun s => s.readBytes n) (.readBytes n) Out.bytes := by
  refine read_refines_of' (n * 8) (bytesOfBits n) (fun l => .bytes (bitsToBytes l)) (fun s => ?_) rfl
    (fun l hl => by rw [bitsToBytes_eq_bytesOfBits n l hl])
  simp only [Slice.readBytes, bind, pure]

theorem readUnaryAux_spec : ∀ (l : List Bool) (k : Nat),
    Slice.readUnaryAux l k =
      if (l.takeWhile (· == true)).length < l.length
      then some (k + (l.takeWhile (· == true)).length, l.drop ((l.takeWhile (· == true)).length + 1)) else none
  | [], k => by simp [Slice.readUnaryAux]
  | false :: rest, k => by simp [Slice.readUnaryAux]
  | true :: rest, k => by
    rw [Slice.readUnaryAux, readUnaryAux_spec rest (k + 1)]
    simp only [List.takeWhile_cons, beq_self_eq_true, if_true, List.length_cons, Nat.add_lt_add_iff_right,
      List.drop_succ_cons]
    split
    · congr 2; omega
    · rfl

/-- ReadUnary: the count of ones and what follows the terminating zero; running off the end is an error -/
theorem readUnary_refines : ReadRefines (fun s => s.readUnary) .readUnary Out.nat := by
  intro s t ⟨hb, hp⟩
  simp only [Slice.readUnary, readUnaryAux_spec, Op.spec, hb, Nat.zero_add]
  by_cases h : (s.bits.takeWhile (fun x => x == true)).length < s.bits.length
  · simp only [h, if_true, RS]
    refine ⟨trivial, ⟨?_, ?_⟩, trivial, trivial⟩
    · rw [← hb, List.drop_drop]; rw [Nat.add_assoc]
    · have : s.bits.length = t.bits.length - t.pos := by rw [← hb, List.length_drop]
      omega
  · simp only [h, if_false]
    rfl

/-! ### composition with C06: the TL-B model's writers / readers on the byte-level model of `boc.BitString` -/

theorem normO_ok_unit {r : Outcome Out} (h : normO r = .ok .unit) : r = .ok .unit := by
  cases r with
  | ok o => cases o <;> simp [normO, Out.norm] at h ⊢
  | err e => simp [normO] at h
  | panic p => simp [normO] at h

theorem normO_err {r : Outcome Out} {e : String} (h : normO r = .err e) : r = .err e := by
  cases r <;> simp [normO] at h ⊢
  exact h

/-- **builder_on_bitstring**: a writer of the TL-B model that refines `op`'s specification gives, on any byte-level
`BitString` holding the builder's bits with the cell capacity (invariant `Inv`), the SAME outcome as the byte-level
model of the Go method — the same error text on failure; on success the buffer holds exactly the builder's new bits
and the invariant is kept. (C06.op_refines ∘ WriteRefines.) -/
theorem builder_on_bitstring {f : Builder → Outcome Builder} {op : Op} (h : WriteRefines f op) (hwf : op.WF)
    (bs : BitString) (b : Builder) (hinv : BitString.Inv bs) (habs : bs.abs = b.bits) (hcap : bs.cap = cellBits) :
    match f b with
    | .ok b' => (op.run bs).1 = .ok .unit ∧ (op.run bs).2.abs = b'.bits ∧ BitString.Inv (op.run bs).2
    | .err e => (op.run bs).1 = .err e
    | .panic _ => False := by
  have hR : R bs ⟨bs.abs, bs.cap, bs.rCursor⟩ := ⟨hinv, rfl, rfl, rfl⟩
  have hA := Tongo.op_refines op hwf bs _ hR
  have hW := h b ⟨bs.abs, bs.cap, bs.rCursor⟩ ⟨habs, hcap⟩
  cases hf : f b with
  | ok b' =>
    rw [hf] at hW
    simp only at hW ⊢
    refine ⟨normO_ok_unit (hA.1.trans hW.1), ?_, hA.2.1⟩
    rw [hA.2.2.1, hW.2.1.1]
  | err e =>
    rw [hf] at hW
    simp only at hW ⊢
    exact normO_err (hA.1.trans hW)
  | panic p =>
    rw [hf] at hW
    exact hW

/-- **slice_on_bitstring**: a reader of the TL-B model that refines `op` returns, on any byte-level `BitString` whose
unread bits are the slice's bits, the same value / the same error as the byte-level model of the Go method, and the
unread bits afterwards are the bits of the slice it returns -/
theorem slice_on_bitstring {α : Type} {f : Slice → Outcome (α × Slice)} {op : Op} {out : α → Out}
    (h : ReadRefines f op out) (hwf : op.WF)
    (bs : BitString) (s : Slice) (hinv : BitString.Inv bs) (habs : bs.abs.drop bs.rCursor = s.bits) :
    match f s with
    | .ok (v, s') => normO (op.run bs).1 = .ok (out v) ∧
        (op.run bs).2.abs.drop (op.run bs).2.rCursor = s'.bits ∧ BitString.Inv (op.run bs).2
    | .err e => (op.run bs).1 = .err e
    | .panic _ => False := by
  have hR : R bs ⟨bs.abs, bs.cap, bs.rCursor⟩ := ⟨hinv, rfl, rfl, rfl⟩
  have hA := Tongo.op_refines op hwf bs _ hR
  have hlen : bs.rCursor ≤ bs.abs.length := by rw [hinv.abs_length]; exact hinv.2.2.1
  have hW := h s ⟨bs.abs, bs.cap, bs.rCursor⟩ ⟨habs, hlen⟩
  cases hf : f s with
  | ok r =>
    obtain ⟨v, s'⟩ := r
    rw [hf] at hW
    simp only at hW ⊢
    refine ⟨hA.1.trans hW.1, ?_, hA.2.1⟩
    rw [hA.2.2.1, hA.2.2.2.2]
    exact hW.2.1.1
  | err e =>
    rw [hf] at hW
    simp only at hW ⊢
    exact normO_err (hA.1.trans hW)
  | panic p =>
    rw [hf] at hW
    exact hW
end Tongo.Tlb
