import TongoProofs.Lemmas.BocSpec
/-! Hoare triples for every stage of the bag-of-cells reader: no stage panics, every stage allocates in proportion
to the bytes it is given, and what it returns satisfies the invariants the next stage needs. -/
namespace Tongo.Boc
open Tongo

theorem two63_lt : two63 < two64 := by unfold two63 two64; omega

theorem pow256_le (n : Nat) (h : n ≤ 4) : 256 ^ n ≤ 4294967296 := by
  have : 256 ^ n ≤ 256 ^ 4 := Nat.pow_le_pow_right (by omega) h
  simpa using this

/-! ### loops of reads -/

theorem readList_ok (k w : Nat) (halve : Bool) (b : Bytes) (h : k * w ≤ b.length) :
    ∃ vs, readList k w halve b = .ok (vs, b.drop (k * w)) ∧ vs.length = k := by
  induction k generalizing b with
  | zero => exact ⟨[], by simp [readList]⟩
  | succ k ih =>
    have hw : w ≤ b.length := by
      have : w ≤ (k + 1) * w := Nat.le_mul_of_pos_left _ (by omega)
      omega
    obtain ⟨v, hv, _⟩ := readN_ok w b 0 hw (by unfold two64; omega)
    have hk : k * w ≤ (b.drop w).length := by
      simp only [List.length_drop]
      have : (k + 1) * w = k * w + w := by rw [Nat.add_mul]; omega
      omega
    obtain ⟨vs, hvs, hl⟩ := ih (b.drop w) hk
    refine ⟨(if halve then v / 2 else v) :: vs, ?_, by simp [hl]⟩
    simp only [readList, hv, sliceFrom_ok b w hw, bind, Outcome.bind, pure, hvs, List.drop_drop]
    congr 3
    rw [Nat.add_mul]; omega

theorem readRefs_ok (k w : Nat) (b : Bytes) (h : k * w ≤ b.length) :
    ∃ vs, readRefs k w b = .ok (vs, b.drop (k * w)) ∧ vs.length = k := by
  induction k generalizing b with
  | zero => exact ⟨[], by simp [readRefs]⟩
  | succ k ih =>
    have hw : w ≤ b.length := by
      have : w ≤ (k + 1) * w := Nat.le_mul_of_pos_left _ (by omega)
      omega
    obtain ⟨v, hv, _⟩ := readN_ok w b 0 hw (by unfold two64; omega)
    have hk : k * w ≤ (b.drop w).length := by
      simp only [List.length_drop]
      have : (k + 1) * w = k * w + w := by rw [Nat.add_mul]; omega
      omega
    obtain ⟨vs, hvs, hl⟩ := ih (b.drop w) hk
    refine ⟨toInt v :: vs, ?_, by simp [hl]⟩
    simp only [readRefs, hv, sliceFrom_ok b w hw, bind, Outcome.bind, pure, hvs, List.drop_drop]
    congr 3
    rw [Nat.add_mul]; omega

/-! ### completion tag -/

theorem stripLoop_spec (n : Nat) (rev : List Bool) (hn : n ≤ rev.length) :
    (∃ e, stripLoop n rev = .err e) ∨
    (∃ bits, stripLoop n rev = .ok bits ∧ bits.length + 1 ≤ rev.length ∧ rev.length ≤ bits.length + n) := by
  induction n generalizing rev with
  | zero => exact .inl ⟨_, rfl⟩
  | succ n ih =>
    cases rev with
    | nil => simp at hn
    | cons b rest =>
      cases b with
      | true =>
        refine .inr ⟨rest.reverse, rfl, by simp, by simp⟩
      | false =>
        simp only [stripLoop]
        rcases ih rest (by simpa using hn) with ⟨e, he⟩ | ⟨bits, hb, h1, h2⟩
        · exact .inl ⟨e, he⟩
        · refine .inr ⟨bits, hb, by simp; omega, by simp; omega⟩

theorem byteToBits_length (b : UInt8) : (Bits.byteToBits b).length = 8 := by
  simp [Bits.byteToBits, Bits.natToBits]

theorem bytesToBits_length (bs : Bytes) : (Bits.bytesToBits bs).length = 8 * bs.length := by
  induction bs with
  | nil => rfl
  | cons b t ih =>
    simp only [Bits.bytesToBits, List.flatMap_cons, List.length_append, List.length_cons] at *
    rw [byteToBits_length, ih]; omega

/-- setTopUppedArray never panics; the bits it leaves fit the buffer and, when a tag was stripped, fill all but the
last byte -/
theorem setTopUpped_spec (arr : Bytes) (fulfilled : Bool) :
    (∃ e, setTopUpped arr fulfilled = .err e) ∨
    (∃ bits, setTopUpped arr fulfilled = .ok bits ∧ bits.length ≤ 8 * arr.length ∧
      (fulfilled = false → arr.length ≠ 0 → bits.length + 1 ≤ 8 * arr.length) ∧ 8 * arr.length ≤ bits.length + 7) := by
  unfold setTopUpped
  by_cases h : (fulfilled || arr.isEmpty) = true
  · simp only [h, if_true]
    refine .inr ⟨_, rfl, by rw [bytesToBits_length]; omega, ?_, by rw [bytesToBits_length]; omega⟩
    intro hf hne
    simp only [Bool.or_eq_true, List.isEmpty_iff] at h
    rcases h with h | h
    · simp [hf] at h
    · simp [h] at hne
  · simp only [h]
    have hne : arr.length ≠ 0 := by
      intro h0
      apply h
      simp [List.eq_nil_of_length_eq_zero h0]
    have hl : 7 ≤ (Bits.bytesToBits arr).reverse.length := by
      rw [List.length_reverse, bytesToBits_length]; omega
    rcases stripLoop_spec 7 _ hl with ⟨e, he⟩ | ⟨bits, hb, h1, h2⟩
    · exact .inl ⟨e, by simpa using he⟩
    · rw [List.length_reverse, bytesToBits_length] at h1 h2
      exact .inr ⟨bits, by simpa using hb, by omega, fun _ _ => by omega, by omega⟩

/-! ### header -/

theorem parsePrefix_spec (boc0 : Bytes) (s : Nat) :
    Spec (parsePrefix boc0) s (fun r s' => s' = s ∧ r.2.2.length + 5 = boc0.length) (fun s' => s' = s) := by
  unfold parsePrefix
  apply spec_ite
  · intro _; exact spec_fail rfl
  · intro h
    have h5 : 5 ≤ boc0.length := (lenLt_nat_false boc0 5).1 (by simpa using h)
    apply spec_bind
    apply spec_lift_ok (sliceTo_ok _ _ (by omega))
    apply spec_bind
    apply spec_lift_ok (sliceTo_ok _ _ (by omega))
    apply spec_bind
    apply spec_lift_ok (sliceFrom_ok _ _ (by omega))
    obtain ⟨fb, hfb, _⟩ := head_ok (boc0.drop 4) (by simp; omega)
    apply spec_bind
    apply spec_lift_ok hfb
    split
    · exact spec_fail rfl
    · apply spec_bind
      apply spec_lift_ok (sliceFrom_ok _ _ (by simp; omega))
      apply spec_pure
      simp
      omega

/-- what the counters satisfy once parseCounters has accepted them -/
structure CountersOK (size : Nat) (c : Counters) (rest : Bytes) : Prop where
  size_ge : 1 ≤ size
  size_le : size ≤ 4
  off_ge : 1 ≤ c.offsetBytes
  off_le : c.offsetBytes ≤ 8
  cells_lt : c.cellsCount < 4294967296
  roots_lt : c.rootsCount < 4294967296
  tot_le : c.totCellsSize ≤ rest.length
  cells_le : c.cellsCount ≤ c.totCellsSize / 2

theorem parseCounters_spec (size : Nat) (boc : Bytes) (s : Nat) :
    Spec (parseCounters size boc) s
      (fun r s' => s' = s ∧ CountersOK size r.1 r.2 ∧ r.2.length ≤ boc.length) (fun s' => s' = s) := by
  unfold parseCounters
  apply spec_ite
  · intro _; exact spec_fail rfl
  intro hsz
  apply spec_ite
  · intro _; exact spec_fail rfl
  intro h1
  have h1 : 1 ≤ boc.length := (lenLt_nat_false boc 1).1 (by simpa using h1)
  obtain ⟨ob, hob, _⟩ := head_ok boc h1
  apply spec_bind
  apply spec_lift_ok hob
  apply spec_ite
  · intro _; exact spec_fail rfl
  intro hoff
  apply spec_ite
  · intro _; exact spec_fail rfl
  intro hlen
  have hlen : 1 + 3 * size + ob.toNat ≤ boc.length := (lenLt_nat_false boc _).1 (by simpa using hlen)
  apply spec_bind
  apply spec_lift_ok (sliceFrom_ok _ _ (by omega))
  obtain ⟨cc, hcc, _⟩ := readN_ok size (boc.drop 1) 0 (by simp; omega) (by unfold two64; omega)
  apply spec_bind
  apply spec_lift_ok hcc
  apply spec_bind
  apply spec_lift_ok (sliceFrom_ok _ _ (by simp; omega))
  obtain ⟨rc, hrc, _⟩ := readN_ok size ((boc.drop 1).drop size) 0 (by simp; omega) (by unfold two64; omega)
  apply spec_bind
  apply spec_lift_ok hrc
  apply spec_bind
  apply spec_lift_ok (sliceFrom_ok _ _ (by simp; omega))
  obtain ⟨ab, hab, _⟩ := readN_ok size (((boc.drop 1).drop size).drop size) 0 (by simp; omega) (by unfold two64; omega)
  apply spec_bind
  apply spec_lift_ok hab
  apply spec_bind
  apply spec_lift_ok (sliceFrom_ok _ _ (by simp; omega))
  obtain ⟨tot, htot, _⟩ := readN_ok ob.toNat ((((boc.drop 1).drop size).drop size).drop size) 0 (by simp; omega)
    (by unfold two64; omega)
  apply spec_bind
  apply spec_lift_ok htot
  apply spec_bind
  apply spec_lift_ok (sliceFrom_ok _ _ (by simp; omega))
  apply spec_ite
  · intro _; exact spec_fail rfl
  intro htl
  apply spec_ite
  · intro _; exact spec_fail rfl
  intro hcl
  apply spec_pure
  have hp := pow256_le size (by omega)
  have := readN_lt _ _ _ hcc
  have := readN_lt _ _ _ hrc
  have htl' := (hasAtLeast_iff _ _).1 (by simpa using htl)
  simp only [List.length_drop] at htl'
  refine ⟨rfl, ⟨?_, ?_, ?_, ?_, ?_, ?_, ?_, ?_⟩, ?_⟩ <;> (try dsimp only) <;> (try simp only [List.length_drop]) <;> omega


theorem mulI_nat (a b : Nat) (h : a * b < two63) : mulI (a : Int) (b : Int) = ((a * b : Nat) : Int) := by
  unfold mulI
  rw [← Int.natCast_mul]
  exact wrapI_small _ (by omega) (by exact_mod_cast h)

theorem addI_nat (a b : Nat) (h : a + b < two63) : addI (a : Int) (b : Int) = ((a + b : Nat) : Int) := by
  unfold addI
  rw [← Int.natCast_add]
  exact wrapI_small _ (by omega) (by exact_mod_cast h)

theorem parseRoots_spec (hasRootList : Bool) (size rc : Nat) (boc : Bytes) (s : Nat)
    (hs1 : 1 ≤ size) (hs4 : size ≤ 4) (hrc : rc < 4294967296) :
    Spec (parseRoots hasRootList size rc boc) s
      (fun r s' => s' ≤ s + 8 * boc.length + 8 ∧ r.1.length ≤ boc.length + 1 ∧ r.2.length ≤ boc.length)
      (fun s' => s' ≤ s + 8 * boc.length + 8) := by
  unfold parseRoots
  have hrc63 : rc < two63 := by unfold two63; omega
  have hmul : rc * size < two63 := by
    have : rc * size ≤ rc * 4 := Nat.mul_le_mul_left _ hs4
    unfold two63; omega
  split
  · apply spec_ite
    · intro _; exact spec_fail (by omega)
    intro h
    rw [toInt_small rc hrc63, mulI_nat rc size hmul] at h
    have hlen : rc * size ≤ boc.length := (lenLt_nat_false boc _).1 (by simpa using h)
    have hrl : rc ≤ boc.length := by
      have : rc * 1 ≤ rc * size := Nat.mul_le_mul_left _ hs1
      omega
    apply spec_bind
    apply spec_makeSlice (by unfold szUint; omega)
    rw [toInt_small rc hrc63]
    obtain ⟨vs, hvs, hl⟩ := readList_ok rc size false boc hlen
    simp only [Int.toNat_natCast]
    apply spec_lift_ok hvs
    refine ⟨by unfold szUint; omega, by simp only [hl]; omega, by simp⟩
  · apply spec_ite
    · intro _; exact spec_fail (by omega)
    intro _
    apply spec_bind
    apply spec_makeSlice (by unfold szUint; omega)
    apply spec_pure
    refine ⟨by unfold szUint; omega, by simp, by simp⟩

theorem parseIndex_spec (hasIdx hasCache : Bool) (off cc : Nat) (boc : Bytes) (s : Nat)
    (ho : off ≤ 8) (hcc : cc < 4294967296) :
    Spec (parseIndex hasIdx hasCache off cc boc) s
      (fun r s' => s' = s + 8 * cc ∧ r.2.length ≤ boc.length) (fun s' => s' = s + 8 * cc) := by
  unfold parseIndex
  have hcc63 : cc < two63 := by unfold two63; omega
  have hmul : off * cc < two63 := by
    have : off * cc ≤ 8 * cc := Nat.mul_le_mul_right _ ho
    unfold two63; omega
  apply spec_bind
  apply spec_makeSlice (by unfold szUint; omega)
  split
  · apply spec_ite
    · intro _; exact spec_fail (by unfold szUint; omega)
    intro h
    rw [toInt_small cc hcc63, mulI_nat off cc hmul] at h
    have hlen : off * cc ≤ boc.length := (lenLt_nat_false boc _).1 (by simpa using h)
    rw [toInt_small cc hcc63]
    simp only [Int.toNat_natCast]
    obtain ⟨vs, hvs, hl⟩ := readList_ok cc off hasCache boc (by rw [Nat.mul_comm]; exact hlen)
    apply spec_lift_ok hvs
    exact ⟨by unfold szUint; omega, by simp⟩
  · apply spec_pure
    exact ⟨by unfold szUint; omega, by simp⟩

theorem le32_ok (b : Bytes) (h : 4 ≤ b.length) : ∃ v, le32 b = .ok v := by
  match b, h with
  | b0 :: b1 :: b2 :: b3 :: _, _ => exact ⟨_, rfl⟩

theorem parseTail_spec (hasCrc : Bool) (tot : Nat) (body boc : Bytes) (s : Nat) (ht : tot < two63) :
    Spec (parseTail hasCrc tot body boc) s (fun cd s' => s' = s ∧ cd.length = tot ∧ tot ≤ boc.length)
      (fun s' => s' = s) := by
  unfold parseTail
  apply spec_ite
  · intro _; exact spec_fail rfl
  intro h
  rw [toInt_small tot ht] at h
  have htot : tot ≤ boc.length := (lenLt_nat_false boc _).1 (by simpa using h)
  apply spec_bind
  apply spec_lift_ok (sliceTo_ok _ _ htot)
  apply spec_bind
  apply spec_lift_ok (sliceFrom_ok _ _ htot)
  apply spec_bind
  apply spec_mono (Q := fun _ s' => s' = s) (E := fun s' => s' = s)
  · split
    · apply spec_ite
      · intro _; exact spec_fail rfl
      intro h4
      have h4 : 4 ≤ (boc.drop tot).length := (lenLt_nat_false _ 4).1 (by simpa using h4)
      obtain ⟨v, hv⟩ := le32_ok _ h4
      apply spec_bind
      apply spec_lift_ok hv
      apply spec_ite
      · intro _; exact spec_fail rfl
      intro _
      apply spec_lift_ok (sliceFrom_ok _ _ h4)
      rfl
    · exact spec_pure rfl
  · intro b s' hs
    subst hs
    apply spec_ite
    · intro _; exact spec_fail rfl
    intro _
    apply spec_pure
    exact ⟨rfl, by simp [List.length_take]; omega, htot⟩
  · intro s' h; exact h

/-- what an accepted header guarantees (`len` = length of the input) -/
structure HeaderOK (h : Header) (len : Nat) : Prop where
  size_ge : 1 ≤ h.sizeBytes
  size_le : h.sizeBytes ≤ 4
  cells_lt : h.cellCount < 4294967296
  cells_le : h.cellCount ≤ h.totCellsSize / 2
  data_len : h.cellsData.length = h.totCellsSize
  tot_le : h.totCellsSize ≤ len
  roots_le : h.rootList.length ≤ len

theorem parseHeader_spec (boc0 : Bytes) (s : Nat) (hb : boc0.length < two63) :
    Spec (parseHeader boc0) s
      (fun h s' => s' ≤ s + 8 * boc0.length + 8 + 8 * h.cellCount ∧ HeaderOK h boc0.length)
      (fun s' => s' ≤ s + 12 * boc0.length + 8) := by
  unfold parseHeader
  apply spec_bind
  apply spec_mono (parsePrefix_spec boc0 s)
  · rintro ⟨k, body, boc⟩ s1 ⟨hs1, hl1⟩
    subst hs1
    simp only at hl1
    apply spec_bind
    apply spec_mono (parseCounters_spec k.sizeBytes boc s1)
    · rintro ⟨c, boc2⟩ s2 ⟨hs2, hc, hl2⟩
      subst hs2
      simp only at hl2 hc
      apply spec_bind
      apply spec_mono (parseRoots_spec k.hasRootList k.sizeBytes c.rootsCount boc2 s2 hc.size_ge hc.size_le hc.roots_lt)
      · rintro ⟨rl, boc3⟩ s3 ⟨hs3, hrl, hl3⟩
        simp only at hrl hl3
        apply spec_bind
        apply spec_mono (parseIndex_spec k.hasIdx k.hasCache c.offsetBytes c.cellsCount boc3 s3 hc.off_le hc.cells_lt)
        · rintro ⟨ix, boc4⟩ s4 ⟨hs4, hl4⟩
          simp only at hl4
          have htot := hc.tot_le
          have hcl := hc.cells_le
          apply spec_bind
          apply spec_mono (parseTail_spec k.hasCrc c.totCellsSize body boc4 s4 (by omega))
          · rintro cd s5 ⟨hs5, hcd, _⟩
            apply spec_pure
            refine ⟨by simp only; omega, ⟨hc.size_ge, hc.size_le, hc.cells_lt, hc.cells_le, hcd, by simp only; omega,
              by simp only; omega⟩⟩
          · intro s' h; omega
        · intro s' h
          have htot := hc.tot_le
          have hcl := hc.cells_le
          omega
      · intro s' h; omega
    · intro s' h; omega
  · intro s' h; omega
end Tongo.Boc
