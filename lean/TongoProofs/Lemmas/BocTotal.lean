import TongoProofs.Lemmas.BocSpec
import TongoProofs.Lemmas.BocTagInv
/-! Hoare triples for every stage of the bag-of-cells reader: no stage panics, every stage allocates in proportion
to the bytes it is given, and what it returns satisfies the invariants the next stage needs. -/
namespace Tongo.Boc
open Tongo

theorem two63_lt : two63 < two64 := by unfold two63 two64; omega

theorem pow256_le (n : Nat) (h : n ≤ 4) : 256 ^ n ≤ 4294967296 := by
  have : 256 ^ n ≤ 256 ^ 4 := Nat.pow_le_pow_right (by omega) h
  simpa using this

/-! ### loops of reads -/

theorem readList_ok (k w : Nat) (halve : Bool) (b : Bytes) (h : k * w ≤ b.length) :
    ∃ vs, readList k w halve b = .ok (vs, b.drop (k * w)) ∧ vs.length = k := by
  induction k generalizing b with
  | zero => exact ⟨[], by simp [readList]⟩
  | succ k ih =>
    have hw : w ≤ b.length := by
      have : w ≤ (k + 1) * w := Nat.le_mul_of_pos_left _ (by omega)
      omega
    obtain ⟨v, hv, _⟩ := readN_ok w b 0 hw (by unfold two64; omega)
    have hk : k * w ≤ (b.drop w).length := by
      simp only [List.length_drop]
      have : (k + 1) * w = k * w + w := by rw [Nat.add_mul]; omega
      omega
    obtain ⟨vs, hvs, hl⟩ := ih (b.drop w) hk
    refine ⟨(if halve then v / 2 else v) :: vs, ?_, by simp [hl]⟩
    simp only [readList, hv, sliceFrom_ok b w hw, bind, Outcome.bind, pure, hvs, List.drop_drop]
    congr 3
    rw [Nat.add_mul]; omega

theorem readRefs_ok (k w : Nat) (b : Bytes) (h : k * w ≤ b.length) :
    ∃ vs, readRefs k w b = .ok (vs, b.drop (k * w)) ∧ vs.length = k := by
  induction k generalizing b with
  | zero => exact ⟨[], by simp [readRefs]⟩
  | succ k ih =>
    have hw : w ≤ b.length := by
      have : w ≤ (k + 1) * w := Nat.le_mul_of_pos_left _ (by omega)
      omega
    obtain ⟨v, hv, _⟩ := readN_ok w b 0 hw (by unfold two64; omega)
    have hk : k * w ≤ (b.drop w).length := by
      simp only [List.length_drop]
      have : (k + 1) * w = k * w + w := by rw [Nat.add_mul]; omega
      omega
    obtain ⟨vs, hvs, hl⟩ := ih (b.drop w) hk
    refine ⟨toInt v :: vs, ?_, by simp [hl]⟩
    simp only [readRefs, hv, sliceFrom_ok b w hw, bind, Outcome.bind, pure, hvs, List.drop_drop]
    congr 3
    rw [Nat.add_mul]; omega

/-! ### completion tag -/

theorem stripLoop_spec (n : Nat) (rev : List Bool) (hn : n ≤ rev.length) :
    (∃ e, stripLoop n rev = .err e) ∨
    (∃ bits, stripLoop n rev = .ok bits ∧ bits.length + 1 ≤ rev.length ∧ rev.length ≤ bits.length + n) := by
  induction n generalizing rev with
  | zero => exact .inl ⟨_, rfl⟩
  | succ n ih =>
    cases rev with
    | nil => simp at hn
    | cons b rest =>
      cases b with
      | true =>
        refine .inr ⟨rest.reverse, rfl, by simp, by simp⟩
      | false =>
        simp only [stripLoop]
        rcases ih rest (by simpa using hn) with ⟨e, he⟩ | ⟨bits, hb, h1, h2⟩
        · exact .inl ⟨e, he⟩
        · refine .inr ⟨bits, hb, by simp; omega, by simp; omega⟩

theorem byteToBits_length (b : UInt8) : (Bits.byteToBits b).length = 8 := by
  simp [Bits.byteToBits, Bits.natToBits]

theorem bytesToBits_length (bs : Bytes) : (Bits.bytesToBits bs).length = 8 * bs.length := by
  induction bs with
  | nil => rfl
  | cons b t ih =>
    simp only [Bits.bytesToBits, List.flatMap_cons, List.length_append, List.length_cons] at *
    rw [byteToBits_length, ih]; omega

/-- setTopUppedArray never panics; the bits it leaves fit the buffer and, when a tag was stripped, fill all but the
last byte -/
theorem setTopUpped_spec (arr : Bytes) (fulfilled : Bool) :
    (∃ e, setTopUpped arr fulfilled = .err e) ∨
    (∃ bits, setTopUpped arr fulfilled = .ok bits ∧ bits.length ≤ 8 * arr.length ∧
      (fulfilled = false → arr.length ≠ 0 → bits.length + 1 ≤ 8 * arr.length) ∧ 8 * arr.length ≤ bits.length + 7) := by
  unfold setTopUpped
  by_cases h : (fulfilled || arr.isEmpty) = true
  · simp only [h, if_true]
    refine .inr ⟨_, rfl, by have := bytesToBits_length arr; omega, ?_, by have := bytesToBits_length arr; omega⟩
    intro hf hne
    simp only [Bool.or_eq_true, List.isEmpty_iff] at h
    rcases h with h | h
    · simp [hf] at h
    · simp [h] at hne
  · simp only [h]
    have hne : arr.length ≠ 0 := by
      intro h0
      apply h
      simp [List.eq_nil_of_length_eq_zero h0]
    have hl : 7 ≤ (Bits.bytesToBits arr).reverse.length := by
      rw [List.length_reverse, bytesToBits_length]; omega
    rcases stripLoop_spec 7 _ hl with ⟨e, he⟩ | ⟨bits, hb, h1, h2⟩
    · exact .inl ⟨e, by simpa using he⟩
    · rw [List.length_reverse, bytesToBits_length] at h1 h2
      exact .inr ⟨bits, by simpa using hb, by omega, fun _ _ => by omega, by omega⟩

/-! ### header -/

theorem parsePrefix_spec (boc0 : Bytes) (s : Nat) :
    Spec (parsePrefix boc0) s (fun r s' => s' = s ∧ r.2.2.length + 5 = boc0.length) (fun s' => s' = s) := by
  unfold parsePrefix
  apply spec_ite
  · intro _; exact spec_fail rfl
  · intro h
    have h5 : 5 ≤ boc0.length := (lenLt_nat_false boc0 5).1 (by simpa using h)
    apply spec_bind
    apply spec_lift_ok (sliceTo_ok _ _ (by omega))
    apply spec_bind
    apply spec_lift_ok (sliceTo_ok _ _ (by omega))
    apply spec_bind
    apply spec_lift_ok (sliceFrom_ok _ _ (by omega))
    obtain ⟨fb, hfb, _⟩ := head_ok (boc0.drop 4) (by simp; omega)
    apply spec_bind
    apply spec_lift_ok hfb
    split
    · exact spec_fail rfl
    · apply spec_bind
      apply spec_lift_ok (sliceFrom_ok _ _ (by simp; omega))
      apply spec_pure
      simp
      omega

/-- what the counters satisfy once parseCounters has accepted them -/
structure CountersOK (size : Nat) (c : Counters) (rest : Bytes) : Prop where
  size_ge : 1 ≤ size
  size_le : size ≤ 4
  off_ge : 1 ≤ c.offsetBytes
  off_le : c.offsetBytes ≤ 8
  cells_lt : c.cellsCount < 4294967296
  roots_lt : c.rootsCount < 4294967296
  roots_ge : 1 ≤ c.rootsCount
  tot_le : c.totCellsSize ≤ rest.length
  cells_le : c.cellsCount ≤ c.totCellsSize / 2

theorem parseCounters_spec (size : Nat) (boc : Bytes) (s : Nat) :
    Spec (parseCounters size boc) s
      (fun r s' => s' = s ∧ CountersOK size r.1 r.2 ∧ r.2.length ≤ boc.length) (fun s' => s' = s) := by
  unfold parseCounters
  apply spec_ite
  · intro _; exact spec_fail rfl
  intro hsz
  apply spec_ite
  · intro _; exact spec_fail rfl
  intro h1
  have h1 : 1 ≤ boc.length := (lenLt_nat_false boc 1).1 (by simpa using h1)
  obtain ⟨ob, hob, _⟩ := head_ok boc h1
  apply spec_bind
  apply spec_lift_ok hob
  apply spec_ite
  · intro _; exact spec_fail rfl
  intro hoff
  apply spec_ite
  · intro _; exact spec_fail rfl
  intro hlen
  have hlen : 1 + 3 * size + ob.toNat ≤ boc.length := (lenLt_nat_false boc _).1 (by simpa using hlen)
  apply spec_bind
  apply spec_lift_ok (sliceFrom_ok _ _ (by omega))
  obtain ⟨cc, hcc, _⟩ := readN_ok size (boc.drop 1) 0 (by simp; omega) (by unfold two64; omega)
  apply spec_bind
  apply spec_lift_ok hcc
  apply spec_bind
  apply spec_lift_ok (sliceFrom_ok _ _ (by simp; omega))
  obtain ⟨rc, hrc, _⟩ := readN_ok size ((boc.drop 1).drop size) 0 (by simp; omega) (by unfold two64; omega)
  apply spec_bind
  apply spec_lift_ok hrc
  apply spec_bind
  apply spec_lift_ok (sliceFrom_ok _ _ (by simp; omega))
  obtain ⟨ab, hab, _⟩ := readN_ok size (((boc.drop 1).drop size).drop size) 0 (by simp; omega) (by unfold two64; omega)
  apply spec_bind
  apply spec_lift_ok hab
  apply spec_bind
  apply spec_lift_ok (sliceFrom_ok _ _ (by simp; omega))
  obtain ⟨tot, htot, _⟩ := readN_ok ob.toNat ((((boc.drop 1).drop size).drop size).drop size) 0 (by simp; omega)
    (by unfold two64; omega)
  apply spec_bind
  apply spec_lift_ok htot
  apply spec_bind
  apply spec_lift_ok (sliceFrom_ok _ _ (by simp; omega))
  apply spec_ite
  · intro _; exact spec_fail rfl
  intro htl
  apply spec_ite
  · intro _; exact spec_fail rfl
  intro hcl
  apply spec_ite
  · intro _; exact spec_fail rfl
  intro hr1
  apply spec_pure
  have hp := pow256_le size (by omega)
  have := readN_lt _ _ _ hcc
  have := readN_lt _ _ _ hrc
  have htl' := (hasAtLeast_iff _ _).1 (by simpa using htl)
  simp only [List.length_drop] at htl'
  refine ⟨rfl, ⟨?_, ?_, ?_, ?_, ?_, ?_, ?_, ?_, ?_⟩, ?_⟩ <;> (try dsimp only) <;> (try simp only [List.length_drop]) <;> omega


theorem mulI_nat (a b : Nat) (h : a * b < two63) : mulI (a : Int) (b : Int) = ((a * b : Nat) : Int) := by
  unfold mulI
  rw [← Int.natCast_mul]
  exact wrapI_small _ (by omega) (by exact_mod_cast h)

theorem addI_nat (a b : Nat) (h : a + b < two63) : addI (a : Int) (b : Int) = ((a + b : Nat) : Int) := by
  unfold addI
  rw [← Int.natCast_add]
  exact wrapI_small _ (by omega) (by exact_mod_cast h)

theorem parseRoots_spec (hasRootList : Bool) (size rc : Nat) (boc : Bytes) (s : Nat)
    (hs1 : 1 ≤ size) (hs4 : size ≤ 4) (hrc : rc < 4294967296) :
    Spec (parseRoots hasRootList size rc boc) s
      (fun r s' => s' ≤ s + 8 * boc.length + 8 ∧ r.1.length ≤ boc.length + 1 ∧ r.1.length < 4294967296 ∧
        r.2.length ≤ boc.length)
      (fun s' => s' ≤ s + 8 * boc.length + 8) := by
  unfold parseRoots
  have hrc63 : rc < two63 := by unfold two63; omega
  have hmul : rc * size < two63 := by
    have : rc * size ≤ rc * 4 := Nat.mul_le_mul_left _ hs4
    unfold two63; omega
  split
  · apply spec_ite
    · intro _; exact spec_fail (by omega)
    intro h
    rw [toInt_small rc hrc63, mulI_nat rc size hmul] at h
    have hlen : rc * size ≤ boc.length := (lenLt_nat_false boc _).1 (by simpa using h)
    have hrl : rc ≤ boc.length := by
      have : rc * 1 ≤ rc * size := Nat.mul_le_mul_left _ hs1
      omega
    apply spec_bind
    apply spec_makeSlice (by unfold szUint; omega)
    rw [toInt_small rc hrc63]
    obtain ⟨vs, hvs, hl⟩ := readList_ok rc size false boc hlen
    simp only [Int.toNat_natCast]
    apply spec_lift_ok hvs
    refine ⟨by unfold szUint; omega, by simp only [hl]; omega, by simp only [hl]; omega, by simp⟩
  · apply spec_ite
    · intro _; exact spec_fail (by omega)
    intro _
    apply spec_bind
    apply spec_makeSlice (by unfold szUint; omega)
    apply spec_pure
    refine ⟨by unfold szUint; omega, by simp, by simp, by simp⟩

theorem parseIndex_spec (hasIdx hasCache : Bool) (off cc : Nat) (boc : Bytes) (s : Nat)
    (ho : off ≤ 8) (hcc : cc < 4294967296) :
    Spec (parseIndex hasIdx hasCache off cc boc) s
      (fun r s' => s' = s + 8 * cc ∧ r.2.length ≤ boc.length) (fun s' => s' = s + 8 * cc) := by
  unfold parseIndex
  have hcc63 : cc < two63 := by unfold two63; omega
  have hmul : off * cc < two63 := by
    have : off * cc ≤ 8 * cc := Nat.mul_le_mul_right _ ho
    unfold two63; omega
  apply spec_bind
  apply spec_makeSlice (by unfold szUint; omega)
  split
  · apply spec_ite
    · intro _; exact spec_fail (by unfold szUint; omega)
    intro h
    rw [toInt_small cc hcc63, mulI_nat off cc hmul] at h
    have hlen : off * cc ≤ boc.length := (lenLt_nat_false boc _).1 (by simpa using h)
    rw [toInt_small cc hcc63]
    simp only [Int.toNat_natCast]
    obtain ⟨vs, hvs, hl⟩ := readList_ok cc off hasCache boc (by rw [Nat.mul_comm]; exact hlen)
    apply spec_lift_ok hvs
    exact ⟨by unfold szUint; omega, by simp⟩
  · apply spec_pure
    exact ⟨by unfold szUint; omega, by simp⟩

theorem le32_ok (b : Bytes) (h : 4 ≤ b.length) : ∃ v, le32 b = .ok v := by
  match b, h with
  | b0 :: b1 :: b2 :: b3 :: _, _ => exact ⟨_, rfl⟩

theorem parseTail_spec (hasCrc : Bool) (tot : Nat) (body boc : Bytes) (s : Nat) (ht : tot < two63) :
    Spec (parseTail hasCrc tot body boc) s (fun cd s' => s' = s ∧ cd.length = tot ∧ tot ≤ boc.length)
      (fun s' => s' = s) := by
  unfold parseTail
  apply spec_ite
  · intro _; exact spec_fail rfl
  intro h
  rw [toInt_small tot ht] at h
  have htot : tot ≤ boc.length := (lenLt_nat_false boc _).1 (by simpa using h)
  apply spec_bind
  apply spec_lift_ok (sliceTo_ok _ _ htot)
  apply spec_bind
  apply spec_lift_ok (sliceFrom_ok _ _ htot)
  apply spec_bind
  apply spec_mono (Q := fun _ s' => s' = s) (E := fun s' => s' = s)
  · split
    · apply spec_ite
      · intro _; exact spec_fail rfl
      intro h4
      have h4 : 4 ≤ (boc.drop tot).length := (lenLt_nat_false _ 4).1 (by simpa using h4)
      obtain ⟨v, hv⟩ := le32_ok _ h4
      apply spec_bind
      apply spec_lift_ok hv
      apply spec_ite
      · intro _; exact spec_fail rfl
      intro _
      apply spec_lift_ok (sliceFrom_ok _ _ h4)
      rfl
    · exact spec_pure rfl
  · intro b s' hs
    subst hs
    apply spec_ite
    · intro _; exact spec_fail rfl
    intro _
    apply spec_pure
    exact ⟨rfl, by simp [List.length_take]; omega, htot⟩
  · intro s' h; exact h

/-- what an accepted header guarantees (`len` = length of the input) -/
structure HeaderOK (h : Header) (len : Nat) : Prop where
  size_ge : 1 ≤ h.sizeBytes
  size_le : h.sizeBytes ≤ 4
  cells_lt : h.cellCount < 4294967296
  cells_le : h.cellCount ≤ h.totCellsSize / 2
  data_len : h.cellsData.length = h.totCellsSize
  tot_le : h.totCellsSize ≤ len
  roots_le : h.rootList.length ≤ len
  roots_lt : h.rootList.length < 4294967296

theorem parseHeader_spec (boc0 : Bytes) (s : Nat) (hb : boc0.length < two63) :
    Spec (parseHeader boc0) s
      (fun h s' => s' ≤ s + 8 * boc0.length + 8 + 8 * h.cellCount ∧ HeaderOK h boc0.length)
      (fun s' => s' ≤ s + 12 * boc0.length + 8) := by
  unfold parseHeader
  apply spec_bind
  apply spec_mono (parsePrefix_spec boc0 s)
  · rintro ⟨k, body, boc⟩ s1 ⟨hs1, hl1⟩
    subst hs1
    simp only at hl1
    apply spec_bind
    apply spec_mono (parseCounters_spec k.sizeBytes boc s1)
    · rintro ⟨c, boc2⟩ s2 ⟨hs2, hc, hl2⟩
      subst hs2
      simp only at hl2 hc
      apply spec_bind
      apply spec_mono (parseRoots_spec k.hasRootList k.sizeBytes c.rootsCount boc2 s2 hc.size_ge hc.size_le hc.roots_lt)
      · rintro ⟨rl, boc3⟩ s3 ⟨hs3, hrl, hrl32, hl3⟩
        simp only at hrl hrl32 hl3
        apply spec_bind
        apply spec_mono (parseIndex_spec k.hasIdx k.hasCache c.offsetBytes c.cellsCount boc3 s3 hc.off_le hc.cells_lt)
        · rintro ⟨ix, boc4⟩ s4 ⟨hs4, hl4⟩
          simp only at hl4
          have htot := hc.tot_le
          have hcl := hc.cells_le
          apply spec_bind
          apply spec_mono (parseTail_spec k.hasCrc c.totCellsSize body boc4 s4 (by omega))
          · rintro cd s5 ⟨hs5, hcd, _⟩
            apply spec_pure
            refine ⟨by simp only; omega, ⟨hc.size_ge, hc.size_le, hc.cells_lt, hc.cells_le, hcd, by simp only; omega,
              by simp only; omega, hrl32⟩⟩
          · intro s' h; omega
        · intro s' h
          have htot := hc.tot_le
          have hcl := hc.cells_le
          omega
      · intro s' h; omega
    · intro s' h; omega
  · intro s' h; omega
/-! ### cells -/

/-- what deserializeCellData guarantees about a cell it returns -/
structure RawOK (c : RawCell) : Prop where
  bits_le : c.bits.length ≤ 1023
  mask_lt : c.mask < 8
  ty_lt : c.ty < 256
  refs_le : c.refs.length ≤ 7
  pruned : c.ty = tyPruned → 2 + LevelMask.hashIndex c.mask * (hashSize + depthSize) ≤ (c.bits.length + 7) / 8
  /-- an exotic cell carries its type in its first data byte -/
  exotic : c.ty ≠ 0 → (Bits.toppedUp c.bits).head? = some (UInt8.ofNat c.ty)

theorem parseCellBody_spec (d1 d2 : Nat) (cd0 : Bytes) (refSize : Nat) (s : Nat) (hr : refSize ≤ 4)
    (hd1lt : d1 < 256) (hd2lt : d2 < 256) :
    Spec (parseCellBody (descr d1 d2) cd0 refSize) s
      (fun r s' => RawOK r.1 ∧ r.2.length ≤ cd0.length ∧ s' + r.2.length ≤ s + 552 + cd0.length)
      (fun s' => s' ≤ s + 552 + cd0.length) := by
  unfold parseCellBody
  simp only [descr]
  apply spec_bind
  apply spec_mono (Q := fun (cd : Bytes) s' => s' = s ∧ cd.length ≤ cd0.length) (E := fun s' => s' = s)
  · apply spec_ite
    · intro _
      apply spec_ite
      · intro _; exact spec_fail rfl
      intro ho
      have ho := (lenLt_false _ _).1 (by simpa using ho)
      have ho : LevelMask.hashesCount (d1 / 32) * (hashSize + depthSize) ≤ cd0.length := by exact_mod_cast ho
      apply spec_lift_ok (sliceFrom_ok _ _ ho)
      refine ⟨rfl, ?_⟩
      simp only [List.length_drop]
      omega
    · intro _
      apply spec_pure
      exact ⟨rfl, by omega⟩
  · rintro cd s1 ⟨hs1, hcd⟩
    subst hs1
    have hdbs : d2 / 2 + d2 % 2 ≤ 128 := by omega
    have hrn : refSize * (d1 % 8) ≤ 28 := by
      have : refSize * (d1 % 8) ≤ 4 * (d1 % 8) := Nat.mul_le_mul_right _ hr
      omega
    apply spec_ite
    · intro _; exact spec_fail (by omega)
    intro hl
    rw [mulI_nat _ _ (by unfold two63; omega), addI_nat _ _ (by unfold two63; omega)] at hl
    have hl : d2 / 2 + d2 % 2 + refSize * (d1 % 8) ≤ cd.length := (lenLt_nat_false _ _).1 (by simpa using hl)
    apply spec_bind
    apply spec_mono (Q := fun (ty : Nat) s' => s' = s1 ∧ ty < 256 ∧
        (ty ≠ 0 → 1 ≤ d2 / 2 + d2 % 2 ∧ ∃ b : UInt8, cd.head? = some b ∧ b.toNat = ty)) (E := fun s' => s' = s1)
    · apply spec_ite
      · intro _
        apply spec_ite
        · intro _; exact spec_fail rfl
        intro hd
        cases cd with
        | nil => simp at hl; omega
        | cons b rest =>
          apply spec_bind
          apply spec_lift_ok (a := b.toNat) (by
            simp only [readN]
            congr 1
            have := b.toNat_lt
            unfold two64; omega)
          apply spec_pure
          have hb := b.toNat_lt
          refine ⟨rfl, Nat.mod_lt _ (by omega), fun _ => ⟨by omega, b, rfl, ?_⟩⟩
          exact (Nat.mod_eq_of_lt hb).symm
      · intro _
        apply spec_pure
        exact ⟨rfl, by omega, fun h => absurd rfl h⟩
    · rintro ty s2 ⟨hs2, hty, hexo⟩
      subst hs2
      apply spec_bind
      apply spec_alloc
      apply spec_bind
      apply spec_lift_ok (sliceTo_ok _ _ (by omega))
      apply spec_bind
      apply spec_makeSlice (by omega)
      have hgrow : d2 / 2 + d2 % 2 + growBytes (d2 / 2 + d2 % 2) ≤ 256 := by unfold growBytes; split <;> omega
      apply spec_bind
      apply spec_alloc
      have harr : (cd.take (d2 / 2 + d2 % 2)).length = d2 / 2 + d2 % 2 := by
        rw [List.length_take]; omega
      apply spec_bind
      rcases setTopUpped_spec (cd.take (d2 / 2 + d2 % 2)) (!decide (d2 % 2 > 0)) with ⟨e, he⟩ | ⟨bits, hb, hb1, hb2, hb3⟩
      · rw [he]
        exact spec_fail (by unfold szCell; omega)
      · rw [harr] at hb1 hb2 hb3
        apply spec_lift_ok hb
        apply spec_ite
        · intro _; exact spec_fail (by unfold szCell; omega)
        intro hpr
        apply spec_bind
        apply spec_lift_ok (sliceFrom_ok _ _ (by omega))
        apply spec_bind
        apply spec_makeSlice (by unfold szUint; omega)
        obtain ⟨refs, hrefs, hrl⟩ := readRefs_ok (d1 % 8) refSize (cd.drop (d2 / 2 + d2 % 2))
          (by simp only [List.length_drop]; rw [Nat.mul_comm]; omega)
        apply spec_bind
        apply spec_lift_ok hrefs
        apply spec_pure
        have hinv := setTopUpped_inv _ _ _ hb
        refine ⟨⟨?_, ?_, hty, ?_, ?_, ?_⟩, ?_, ?_⟩
        · show bits.length ≤ 1023
          by_cases hf : d2 % 2 > 0
          · have := hb2 (by simp [hf]) (by omega)
            omega
          · omega
        · show d1 / 32 < 8
          omega
        · show refs.length ≤ 7
          omega
        · intro hp
          show 2 + LevelMask.hashIndex (d1 / 32) * (hashSize + depthSize) ≤ (bits.length + 7) / 8
          have : ¬ (d2 / 2 + d2 % 2 < 2 + LevelMask.hashIndex (d1 / 32) * (hashSize + depthSize)) := by
            intro hc; exact hpr ⟨hp, hc⟩
          omega
        · intro hne
          show (Bits.toppedUp bits).head? = some (UInt8.ofNat ty)
          obtain ⟨h1, b, hbh, hbt⟩ := hexo hne
          rw [hinv]
          cases cd with
          | nil => simp at hbh
          | cons x rest =>
            simp only [List.head?_cons, Option.some.injEq] at hbh
            subst hbh
            have : d2 / 2 + d2 % 2 = (d2 / 2 + d2 % 2 - 1) + 1 := by omega
            rw [this, List.take_succ_cons, List.head?_cons, ← hbt]
            simp
        · simp only [List.length_drop]; omega
        · simp only [List.length_drop]
          unfold szCell szUint
          rw [Nat.mul_comm (d1 % 8) refSize]
          omega
    · intro s' h; omega
  · intro s' h; omega

theorem parseCell_spec (cd0 : Bytes) (refSize : Nat) (s : Nat) (hr : refSize ≤ 4) :
    Spec (parseCell cd0 refSize) s
      (fun r s' => RawOK r.1 ∧ r.2.length + 2 ≤ cd0.length ∧ s' + r.2.length ≤ s + 552 + cd0.length)
      (fun s' => s' ≤ s + 552 + cd0.length) := by
  unfold parseCell
  apply spec_ite
  · intro _; exact spec_fail (by omega)
  intro h2
  have h2 : 2 ≤ cd0.length := (lenLt_nat_false cd0 2).1 (by simpa using h2)
  obtain ⟨d1b, hd1, _⟩ := head_ok cd0 (by omega)
  apply spec_bind
  apply spec_lift_ok hd1
  apply spec_bind
  apply spec_lift_ok (sliceFrom_ok _ _ (by omega))
  obtain ⟨d2b, hd2, _⟩ := head_ok (cd0.drop 1) (by simp; omega)
  apply spec_bind
  apply spec_lift_ok hd2
  apply spec_bind
  apply spec_lift_ok (sliceFrom_ok _ _ h2)
  apply spec_mono (parseCellBody_spec d1b.toNat d2b.toNat (cd0.drop 2) refSize s hr d1b.toNat_lt d2b.toNat_lt)
  · rintro ⟨c, rest⟩ s' ⟨hc, hl, hs⟩
    simp only [List.length_drop] at hl hs ⊢
    exact ⟨hc, by omega, by omega⟩
  · intro s' h
    simp only [List.length_drop] at h
    omega

theorem parseCells_spec (k : Nat) (cd : Bytes) (refSize : Nat) (s : Nat) (hr : refSize ≤ 4) :
    Spec (parseCells k cd refSize) s
      (fun cs s' => cs.length = k ∧ (∀ c ∈ cs, RawOK c) ∧ s' ≤ s + 552 * k + cd.length)
      (fun s' => s' ≤ s + 552 * k + cd.length) := by
  induction k generalizing cd s with
  | zero =>
    unfold parseCells
    apply spec_pure
    exact ⟨rfl, by simp, by omega⟩
  | succ k ih =>
    unfold parseCells
    apply spec_bind
    apply spec_mono (parseCell_spec cd refSize s hr)
    · rintro ⟨c, rest⟩ s1 ⟨hc, hl, hs1⟩
      simp only at hc hl hs1
      apply spec_bind
      apply spec_mono (ih rest s1)
      · rintro cs s2 ⟨hlen, hall, hs2⟩
        apply spec_pure
        refine ⟨by simp [hlen], ?_, by rw [Nat.mul_succ, ← Nat.add_assoc]; omega⟩
        intro x hx
        rcases List.mem_cons.1 hx with rfl | hx
        · exact hc
        · exact hall x hx
      · intro s' h; rw [Nat.mul_succ, ← Nat.add_assoc]; omega
    · intro s1 h; rw [Nat.mul_succ, ← Nat.add_assoc]; omega

/-! ### back-patching and roots -/

theorem getElem!_set!_ne (a : Array Nat) (k j d : Nat) (hj : j < a.size) (h : k ≠ j) :
    (a.set! k d)[j]! = a[j]! := by
  have hj' : j < (a.set! k d).size := by simp [hj]
  rw [getElem!_pos _ j hj', getElem!_pos _ j hj]
  simp only [Array.set!]
  rw [Array.getElem_setIfInBounds_ne]
  exact h

theorem getElem!_set!_eq (a : Array Nat) (k d : Nat) (hk : k < a.size) : (a.set! k d)[k]! = d := by
  have hk' : k < (a.set! k d).size := by simp [hk]
  rw [getElem!_pos _ k hk']
  simp only [Array.set!]
  exact Array.getElem_setIfInBounds_self _

theorem checkRefs_spec (depths : Array Nat) (i : Int) (n : Nat) (rs : List Int) (d : Nat) (hi : 0 ≤ i)
    (hsz : depths.size = n) :
    (∃ e, checkRefs depths i n rs d = .err e) ∨
    (∃ d', checkRefs depths i n rs d = .ok d' ∧ d ≤ d' ∧
      ∀ r ∈ rs, i < r ∧ r < n ∧ depths[r.toNat]! + 1 ≤ d') := by
  induction rs generalizing d with
  | nil => exact .inr ⟨d, rfl, Nat.le_refl _, by simp⟩
  | cons r rs ih =>
    unfold checkRefs
    split
    · exact .inl ⟨_, rfl⟩
    · split
      · exact .inl ⟨_, rfl⟩
      · rename_i h1 h2
        have hr : r.toNat < depths.size := by omega
        simp only [Array.getElem?_eq_getElem hr]
        rcases ih (if depths[r.toNat] + 1 > d then depths[r.toNat] + 1 else d) with ⟨e, he⟩ | ⟨d', hok, hle, hall⟩
        · exact .inl ⟨e, he⟩
        · refine .inr ⟨d', hok, by split at hle <;> omega, ?_⟩
          intro x hx
          rcases List.mem_cons.1 hx with rfl | hx
          · refine ⟨by omega, by omega, ?_⟩
            rw [getElem!_pos depths x.toNat hr]
            split at hle <;> omega
          · exact hall x hx

/-- the property of a raw cell table established by the back-patching loop for the cells at or above `k`:
at most 4 references, each strictly forward and in range, and `depths` is a ranking bounded by the depth limit -/
def Patched (cells : Array RawCell) (k : Nat) (depths : Array Nat) : Prop :=
  depths.size = cells.size ∧
  ∀ i (h : i < cells.size), k ≤ i → cells[i].refs.length ≤ 4 ∧ depths[i]! ≤ maxDepth ∧
    ∀ r ∈ cells[i].refs, (i : Int) < r ∧ r < (cells.size : Int) ∧ depths[r.toNat]! + 1 ≤ depths[i]!

theorem backPatch_spec (cells : Array RawCell) (k : Nat) (depths : Array Nat) (hk : k ≤ cells.size)
    (hp : Patched cells k depths) :
    (∃ e, backPatch cells k depths = .err e) ∨ (∃ ds, backPatch cells k depths = .ok ds ∧ Patched cells 0 ds) := by
  induction k generalizing depths with
  | zero => exact .inr ⟨depths, rfl, hp⟩
  | succ k ih =>
    unfold backPatch
    have hk' : k < cells.size := by omega
    obtain ⟨hsz, hall⟩ := hp
    simp only [Array.getElem?_eq_getElem hk']
    split
    · exact .inl ⟨_, rfl⟩
    · rename_i hlen
      rcases checkRefs_spec depths k cells.size cells[k].refs 0 (by omega) hsz with ⟨e, he⟩ | ⟨d, hok, _, hrefs⟩
      · exact .inl ⟨e, by simp [he, bind, Outcome.bind]⟩
      · simp only [hok, bind, Outcome.bind]
        have hkd : k < depths.size := by omega
        simp only [hkd, if_true]
        split
        · exact .inl ⟨_, rfl⟩
        · rename_i hd
          apply ih (depths.set! k d) (by omega)
          refine ⟨by simp [hsz], ?_⟩
          intro i hi hki
          by_cases hik : i = k
          · subst hik
            have hget : (depths.set! i d)[i]! = d := getElem!_set!_eq depths i d hkd
            refine ⟨by omega, by rw [hget]; omega, ?_⟩
            intro r hr
            obtain ⟨h1, h2, h3⟩ := hrefs r hr
            have hgr : (depths.set! i d)[r.toNat]! = depths[r.toNat]! :=
              getElem!_set!_ne depths i r.toNat d (by omega) (by omega)
            rw [hget, hgr]
            exact ⟨h1, h2, h3⟩
          · have hgt : k + 1 ≤ i := by omega
            obtain ⟨h4, hdi, hr⟩ := hall i hi hgt
            have hgi : (depths.set! k d)[i]! = depths[i]! :=
              getElem!_set!_ne depths k i d (by omega) (by omega)
            refine ⟨h4, by rw [hgi]; exact hdi, ?_⟩
            intro r hrm
            obtain ⟨h1, h2, h3⟩ := hr r hrm
            have hgr : (depths.set! k d)[r.toNat]! = depths[r.toNat]! :=
              getElem!_set!_ne depths k r.toNat d (by omega) (by omega)
            rw [hgi, hgr]
            exact ⟨h1, h2, h3⟩

theorem checkRoots_spec (n : Nat) (rs : List Nat) :
    (∃ e, checkRoots n rs = .err e) ∨ (checkRoots n rs = .ok () ∧ ∀ r ∈ rs, r < n) := by
  induction rs with
  | nil => exact .inr ⟨rfl, by simp⟩
  | cons r rs ih =>
    unfold checkRoots
    split
    · exact .inl ⟨_, rfl⟩
    · rcases ih with ⟨e, he⟩ | ⟨hok, hall⟩
      · exact .inl ⟨e, he⟩
      · refine .inr ⟨hok, ?_⟩
        intro x hx
        rcases List.mem_cons.1 hx with rfl | hx
        · omega
        · exact hall x hx

/-! ### the whole reader -/

/-- well-formedness of row `i` of a table with `n` rows -/
structure RowOK (n i : Nat) (row : CellRow) : Prop where
  bits_le : row.bits.length ≤ 1023
  mask_lt : row.mask < 8
  ty_lt : row.ty < 256
  refs_le : row.refs.length ≤ 4
  /-- every reference points strictly forward and inside the table: the table is acyclic and closed -/
  refs_fwd : ∀ r ∈ row.refs, i < r ∧ r < n
  /-- a pruned branch holds the hashes and depths of all its lower levels -/
  pruned : row.ty = tyPruned → 2 + LevelMask.hashIndex row.mask * (hashSize + depthSize) ≤ (row.bits.length + 7) / 8

/-- the cells are at most `maxDepth` = 1024 levels deep: `ds` ranks every row strictly above the rows it refers to -/
def DepthOK (t : Table) : Prop :=
  ∃ ds : Array Nat, ds.size = t.size ∧
    ∀ i (h : i < t.size), ds[i]! ≤ maxDepth ∧ ∀ r ∈ t[i].refs, ds[r]! + 1 ≤ ds[i]!

/-- soundness of a parse result: every row is well formed, every root is a row, no cell is deeper than the limit -/
def Sound (t : Table) (roots : List Nat) : Prop :=
  (∀ i (h : i < t.size), RowOK t.size i t[i]) ∧ (∀ r ∈ roots, r < t.size) ∧ DepthOK t

/-- every exotic row carries its type in its first data byte -/
def ExoRows (t : Table) : Prop :=
  ∀ i (h : i < t.size), t[i].ty ≠ 0 → (Bits.toppedUp t[i].bits).head? = some (UInt8.ofNat t[i].ty)

theorem toInt_u32 (x : Nat) (h : x < 4294967296) : (toInt x).toNat = x := by
  rw [toInt_small x (by unfold two63; omega)]; simp

theorem start_u32 (x : Nat) (h : x < 4294967296) : (toInt ((x + two64 - 1) % two64) + 1).toNat = x := by
  by_cases h0 : x = 0
  · subst h0
    have : (0 + two64 - 1) % two64 = two64 - 1 := by unfold two64; decide
    rw [this]
    unfold toInt two64 two63
    decide
  · have : (x + two64 - 1) % two64 = x - 1 := by
      have : x + two64 - 1 = (x - 1) + two64 := by unfold two64; omega
      rw [this, Nat.add_mod_right, Nat.mod_eq_of_lt (by unfold two64; omega)]
    rw [this, toInt_small _ (by unfold two63; omega)]
    omega

theorem mul296 (c l : Nat) (h : 2 * c ≤ l) : 552 * c ≤ 276 * l := by
  have := Nat.mul_le_mul_left 276 h
  rw [← Nat.mul_assoc] at this
  exact this

theorem parseBocM_spec (boc : Bytes) (hb : boc.length < two63) :
    Spec (parseBocM boc) 0 (fun r s' => (Sound r.1 r.2 ∧ ExoRows r.1) ∧ s' ≤ 317 * boc.length + 8)
      (fun s' => s' ≤ 317 * boc.length + 8) := by
  unfold parseBocM
  apply spec_bind
  apply spec_mono (parseHeader_spec boc 0 hb)
  · rintro h s1 ⟨hs1, hh⟩
    have hcl := hh.cells_le
    have hcc := hh.cells_lt
    have htl := hh.tot_le
    have hrl := hh.roots_le
    have hrl32 := hh.roots_lt
    have hdl := hh.data_len
    apply spec_bind
    apply spec_makeSlice (by unfold szPtr; omega)
    apply spec_bind
    apply spec_makeSlice (by unfold szSliceHdr; omega)
    rw [toInt_u32 _ hcc]
    apply spec_bind
    apply spec_mono (parseCells_spec h.cellCount h.cellsData h.sizeBytes _ hh.size_le)
    · intro cs s2 hq
      have hlen := hq.1
      have hall := hq.2.1
      have hs2 := hq.2.2
      clear hq
      have hsize : cs.toArray.size = h.cellCount := by simp [hlen]
      have hK' := mul296 h.cellCount boc.length (by omega)
      generalize 552 * h.cellCount = K at hs2 hK'
      simp only [szPtr, szSliceHdr, szUint] at *
      rw [start_u32 _ hcc]
      apply spec_bind
      apply spec_makeSlice (by omega)
      have hp0 : Patched cs.toArray h.cellCount (Array.replicate cs.toArray.size 0) :=
        ⟨by simp, fun i hi hki => by omega⟩
      apply spec_bind
      rcases backPatch_spec cs.toArray h.cellCount _ (by omega) hp0 with ⟨e, he⟩ | ⟨ds, hok, hp⟩
      · rw [he]; exact spec_fail (by omega)
      · apply spec_lift_ok hok
        apply spec_bind
        apply spec_makeSlice (by unfold two63 at *; omega)
        apply spec_bind
        rcases checkRoots_spec cs.toArray.size h.rootList with ⟨e, he⟩ | ⟨hrok, hroots⟩
        · rw [he]; exact spec_fail (by omega)
        · apply spec_lift_ok hrok
          apply spec_pure
          obtain ⟨hdsz, hpall⟩ := hp
          refine ⟨⟨⟨?_, ?_, ?_⟩, ?_⟩, by omega⟩
          rotate_left 3
          · intro i hi
            simp only [Array.size_map] at hi
            have hraw : RawOK cs.toArray[i] := hall _ (by simp)
            simp only [Array.getElem_map]
            exact hraw.exotic
          · intro i hi
            simp only [Array.size_map] at hi
            have hraw : RawOK cs.toArray[i] := hall _ (by simp)
            obtain ⟨h4, _, hfw⟩ := hpall i hi (by omega)
            simp only [Array.getElem_map, Array.size_map]
            refine ⟨hraw.bits_le, hraw.mask_lt, hraw.ty_lt, by simpa [RawCell.toRow] using h4, ?_, hraw.pruned⟩
            intro r hr
            simp only [RawCell.toRow, List.mem_map] at hr
            obtain ⟨r0, hr0, rfl⟩ := hr
            have := hfw r0 hr0
            omega
          · intro r hr
            simpa using hroots r hr
          · refine ⟨ds, by simp [hdsz], ?_⟩
            intro i hi
            simp only [Array.size_map] at hi
            obtain ⟨_, hdi, hfw⟩ := hpall i hi (by omega)
            refine ⟨hdi, ?_⟩
            intro r hr
            simp only [Array.getElem_map, RawCell.toRow, List.mem_map] at hr
            obtain ⟨r0, hr0, rfl⟩ := hr
            exact (hfw r0 hr0).2.2
    · intro s' hs
      have hK' := mul296 h.cellCount boc.length (by omega)
      generalize 552 * h.cellCount = K at hs hK'
      simp only [szPtr, szSliceHdr, szUint] at *
      omega
  · intro s' hs; omega
end Tongo.Boc

namespace Tongo.Boc
open Tongo

theorem mapM_isSome {α β} (f : α → Option β) (l : List α) (h : ∀ x ∈ l, (f x).isSome) : (l.mapM f).isSome := by
  induction l with
  | nil => simp
  | cons a l ih =>
    have ha := h a (by simp)
    have hl := ih (fun x hx => h x (by simp [hx]))
    rcases hfa : f a with _ | b
    · simp [hfa] at ha
    · rcases hml : l.mapM f with _ | bs
      · simp [hml] at hl
      · simp [List.mapM_cons, hfa, hml]

/-- rows that only refer to later rows unfold into finite trees -/
theorem unfold_isSome (t : Table) (hrows : ∀ i (h : i < t.size), RowOK t.size i t[i]) :
    ∀ fuel i, i < t.size → t.size - i ≤ fuel → (Table.unfold t fuel i).isSome := by
  intro fuel
  induction fuel with
  | zero => intro i hi hf; omega
  | succ fuel ih =>
    intro i hi hf
    unfold Table.unfold
    simp only [Array.getElem?_eq_getElem hi]
    have hrow := hrows i hi
    have hm : (t[i].refs.mapM (fun r => if r > i then Table.unfold t fuel r else none)).isSome := by
      apply mapM_isSome
      intro r hr
      have := hrow.refs_fwd r hr
      simp only [gt_iff_lt, this.1, if_true]
      exact ih r this.2 (by omega)
    rcases hml : t[i].refs.mapM (fun r => if r > i then Table.unfold t fuel r else none) with _ | cs
    · simp [hml] at hm
    · simp

/-- with the depth ranking, a fuel of depth + 1 is enough: the recursion depth of any structural recursion over a
parsed cell is bounded by the depth limit, not by the input -/
theorem unfold_isSome_depth (t : Table) (hrows : ∀ i (h : i < t.size), RowOK t.size i t[i]) (ds : Array Nat)
    (hrank : ∀ i (h : i < t.size), ds[i]! ≤ maxDepth ∧ ∀ r ∈ t[i].refs, ds[r]! + 1 ≤ ds[i]!) :
    ∀ fuel i, i < t.size → ds[i]! + 1 ≤ fuel → (Table.unfold t fuel i).isSome := by
  intro fuel
  induction fuel with
  | zero => intro i hi hf; omega
  | succ fuel ih =>
    intro i hi hf
    unfold Table.unfold
    simp only [Array.getElem?_eq_getElem hi]
    have hrow := hrows i hi
    have hm : (t[i].refs.mapM (fun r => if r > i then Table.unfold t fuel r else none)).isSome := by
      apply mapM_isSome
      intro r hr
      have := hrow.refs_fwd r hr
      simp only [gt_iff_lt, this.1, if_true]
      have := (hrank i hi).2 r hr
      exact ih r (by omega) (by omega)
    rcases hml : t[i].refs.mapM (fun r => if r > i then Table.unfold t fuel r else none) with _ | cs
    · simp [hml] at hm
    · simp

end Tongo.Boc
