import TongoProofs.Lemmas.BitStringCore
/-! Read side of the refinement proof: single-bit reads and the bit loop of `ReadUint`. Helper lemmas only. -/
namespace Tongo.BitString
open Tongo.Bits

/-- the next `n` unread bits -/
def nextBits (s : BitString) (n : Nat) : List Bool := ((abs s).drop s.rCursor).take n

theorem nextBits_length (s : BitString) (n : Nat) (h8 : s.len ≤ 8 * s.buf.length) (h : s.rCursor + n ≤ s.len) :
    (nextBits s n).length = n := by
  simp [nextBits, abs_length h8]; omega

theorem getBitOf_eq (s : BitString) (n : Nat) (h8 : s.len ≤ 8 * s.buf.length) (hn : n < s.len) :
    getBitOf s n = .ok ((abs s)[n]'(by rw [abs_length h8]; exact hn)) := by
  have hidx : n / 8 < s.buf.length := by omega
  have hb : s.buf[n / 8]? = some s.buf[n / 8] := List.getElem?_eq_getElem hidx
  have e : (abs s)[n]? = some (s.buf[n / 8].toNat.testBit (7 - n % 8)) := by
    simp only [abs, List.getElem?_take, hn, if_true, bytesToBits_getElem?, hb, Option.map_some]
  obtain ⟨_, e2⟩ := List.getElem?_eq_some_iff.mp e
  rw [e2]
  simp only [getBitOf, hb, getBit_byte]

theorem mustGetBit_run (n : Nat) (s : BitString) : mustGetBit n s = liftO (getBitOf s n) s := rfl

/-- `mustReadBit` below the written length: the bit under the cursor, cursor + 1 -/
theorem mustReadBit_ok (s : BitString) (h8 : s.len ≤ 8 * s.buf.length) (hn : s.rCursor < s.len) :
    mustReadBit s = (.ok ((abs s)[s.rCursor]'(by rw [abs_length h8]; exact hn)), { s with rCursor := s.rCursor + 1 }) := by
  simp only [mustReadBit, bind_run, get_run, mustGetBit_run, getBitOf_eq s _ h8 hn, liftO_ok, advance_run, pure_run]

theorem abs_cursor (s : BitString) (c : Nat) : abs { s with rCursor := c } = abs s := rfl

theorem nextBits_succ (s : BitString) (n : Nat) (h8 : s.len ≤ 8 * s.buf.length) (hn : s.rCursor < s.len) :
    nextBits s (n + 1) =
      (abs s)[s.rCursor]'(by rw [abs_length h8]; exact hn) :: nextBits { s with rCursor := s.rCursor + 1 } n := by
  have hl : s.rCursor < (abs s).length := by rw [abs_length h8]; exact hn
  simp only [nextBits, abs_cursor]
  rw [List.drop_eq_getElem_cons hl, List.take_succ_cons]

/-- `ReadBit` -/
theorem readBit_run (s : BitString) (h8 : s.len ≤ 8 * s.buf.length) :
    readBit s = if h : s.rCursor < s.len
      then (.ok ((abs s)[s.rCursor]'(by rw [abs_length h8]; exact h)), { s with rCursor := s.rCursor + 1 })
      else (.err errNotEnough, s) := by
  simp only [readBit, bind_run, needBits_run]
  by_cases h : s.rCursor < s.len
  · have : ¬ s.len < s.rCursor + 1 := by omega
    simp only [this, if_false, h, dite_true]
    exact mustReadBit_ok s h8 h
  · have : s.len < s.rCursor + 1 := by omega
    simp [this, h]

theorem or_shift_eq_add (res i : Nat) (h : res % 2 ^ (i + 1) = 0) : res ||| (1 <<< i) = res + 2 ^ i := by
  rw [Nat.one_shiftLeft]
  have hd : res = 2 ^ (i + 1) * (res / 2 ^ (i + 1)) := by
    have := Nat.div_add_mod res (2 ^ (i + 1))
    omega
  apply Nat.eq_of_testBit_eq
  intro j
  rw [Nat.testBit_or, Nat.testBit_two_pow]
  by_cases e : i = j
  · subst e
    have h0 : res.testBit i = false := by
      rw [hd, Nat.testBit_two_pow_mul]; simp
    have h1 : (res + 2 ^ i).testBit i = true := by
      rw [Nat.testBit_eq_decide_div_mod_eq]
      have : (res + 2 ^ i) / 2 ^ i = res / 2 ^ i + 1 := by
        rw [Nat.add_div_right _ (Nat.two_pow_pos i)]
      have h2 : res / 2 ^ i % 2 = 0 := by
        rw [hd, Nat.pow_succ, Nat.mul_assoc, Nat.mul_div_cancel_left _ (Nat.two_pow_pos i)]
        omega
      rw [this]; simp; omega
    simp [h0, h1]
  · simp only [e, decide_false, Bool.or_false]
    -- adding 2^i does not change the other bits when bit i and all lower bits of res are clear
    have hlow : res % 2 ^ i = 0 := by
      rw [hd, Nat.pow_succ, Nat.mul_assoc]; exact Nat.mul_mod_right _ _
    by_cases hj : j < i
    · have a : res.testBit j = false := by
        have := Nat.testBit_mod_two_pow res i j
        rw [hlow] at this; simp [hj] at this; exact this
      have b : (res + 2 ^ i).testBit j = false := by
        have hm : (res + 2 ^ i) % 2 ^ i = 0 := by
          rw [Nat.add_mod, hlow]; simp
        have := Nat.testBit_mod_two_pow (res + 2 ^ i) i j
        rw [hm] at this; simp [hj] at this; exact this
      rw [a, b]
    · have hj' : i < j := by omega
      -- j = i + 1 + k
      obtain ⟨k, rfl⟩ : ∃ k, j = i + 1 + k := ⟨j - (i + 1), by omega⟩
      have e1 : res.testBit (i + 1 + k) = (res / 2 ^ (i + 1)).testBit k := by
        rw [Nat.testBit_div_two_pow, Nat.add_comm k (i + 1)]
      have e2 : (res + 2 ^ i).testBit (i + 1 + k) = ((res + 2 ^ i) / 2 ^ (i + 1)).testBit k := by
        rw [Nat.testBit_div_two_pow, Nat.add_comm k (i + 1)]
      have e3 : (res + 2 ^ i) / 2 ^ (i + 1) = res / 2 ^ (i + 1) := by
        have hp : 2 ^ i < 2 ^ (i + 1) := Nat.pow_lt_pow_right (by decide) (by omega)
        conv => lhs; rw [hd]
        rw [Nat.mul_add_div (Nat.two_pow_pos _), Nat.div_eq_of_lt hp, Nat.add_zero]
      rw [e1, e2, e3]

end Tongo.BitString
