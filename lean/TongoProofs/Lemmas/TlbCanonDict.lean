import TongoModel.Tlb.CanonCell
import TongoProofs.Lemmas.HashmapEncode
import TongoProofs.Lemmas.HashmapPut
/-! The converse direction for dictionaries: a cell tree that `Hashmap.mapInner` decodes and that is in the encoder's
form (`dictCanonAt`: ordinary cells, every label in the form `encLabelBits` picks, forks with two references and
nothing else, canonical leaf values) is THE cell `Hashmap.encodeMap` builds from the decoded entries — if it builds
one at all. -/
namespace Tongo.Tlb
open Tongo Tongo.Hashmap

theorem loadLabel_pfx {m : Int} {cap : Nat} {pfx bits : Key} {size : Nat} {pfx' rest : Key}
    (h : loadLabel m cap pfx bits = .ok (size, pfx', rest)) :
    ∃ label, pfx' = pfx ++ label ∧ label.length = size ∧ pfx.length + size ≤ cap := by
  unfold loadLabel at h
  split at h
  · cases h
  · split at h
    · cases h
    · rename_i ln r' _
      split at h
      · cases h
      · split at h
        · cases h
        · simp only [Outcome.ok.injEq, Prod.mk.injEq] at h
          obtain ⟨rfl, rfl, rfl⟩ := h
          exact ⟨r'.take ln, rfl, by simp; omega, by omega⟩
  · cases h
  · split at h
    · cases h
    · rename_i ln r' _
      split at h
      · cases h
      · split at h
        · cases h
        · simp only [Outcome.ok.injEq, Prod.mk.injEq] at h
          obtain ⟨rfl, rfl, rfl⟩ := h
          exact ⟨r'.take ln, rfl, by simp; omega, by omega⟩
  · cases h
  · rename_i bb _
    split at h
    · cases h
    · rename_i ln r' _
      split at h
      · cases h
      · simp only [Outcome.ok.injEq, Prod.mk.injEq] at h
        obtain ⟨rfl, rfl, rfl⟩ := h
        exact ⟨List.replicate ln bb, rfl, by simp, by omega⟩

theorem map_true_inj {V : Type} : ∀ (B B' : List (Key × V)),
    B.map (fun kv => (true :: kv.1, kv.2)) = B'.map (fun kv => (true :: kv.1, kv.2)) → B = B'
  | [], [], _ => rfl
  | [], _ :: _, h => by simp at h
  | _ :: _, [], h => by simp at h
  | b :: B, b' :: B', h => by
    simp only [List.map_cons, List.cons.injEq, Prod.mk.injEq, true_and] at h
    rw [map_true_inj B B' h.2, Prod.ext h.1.1 h.1.2]

theorem getLast_of_eq_append {α : Type} (T A B : List α) (hT : T ≠ []) (e : T = A ++ B) (hB : B ≠ []) :
    T.getLast hT = B.getLast hB := by
  subst e
  exact List.getLast_append_of_ne_nil _ hB

theorem lcp_fork : ∀ (l a b : Key), lcp (l ++ false :: a) (l ++ true :: b) = l
  | [], _, _ => by simp [lcp]
  | x :: l, a, b => by simp [lcp, lcp_fork l a b]

theorem split_unique {V : Type} : ∀ (A A' B B' : List (Key × V)),
    A.map (fun kv => (false :: kv.1, kv.2)) ++ B.map (fun kv => (true :: kv.1, kv.2)) =
      A'.map (fun kv => (false :: kv.1, kv.2)) ++ B'.map (fun kv => (true :: kv.1, kv.2)) → A = A' ∧ B = B'
  | [], [], B, B', h => by
    simp only [List.map_nil, List.nil_append] at h
    exact ⟨rfl, map_true_inj B B' h⟩
  | [], a' :: A', B, B', h => by
    cases B with
    | nil => simp at h
    | cons b B => simp at h
  | a :: A, [], B, B', h => by
    cases B' with
    | nil => simp at h
    | cons b B' => simp at h
  | a :: A, a' :: A', B, B', h => by
    simp only [List.map_cons, List.cons_append, List.cons.injEq, Prod.mk.injEq, true_and] at h
    obtain ⟨⟨h1, h2⟩, h3⟩ := h
    obtain ⟨hA, hB⟩ := split_unique A A' B B' h3
    exact ⟨by rw [hA, Prod.ext h1 h2], hB⟩

theorem sorted_fork {V : Type} (A B : List (Key × V)) (hA : SortedKV A) (hB : SortedKV B) :
    SortedKV (A.map (fun kv => (false :: kv.1, kv.2)) ++ B.map (fun kv => (true :: kv.1, kv.2))) := by
  unfold SortedKV at *
  rw [List.pairwise_append]
  refine ⟨?_, ?_, ?_⟩
  · rw [List.pairwise_map]; simpa using hA
  · rw [List.pairwise_map]; simpa using hB
  · intro a ha b hb
    obtain ⟨x, _, rfl⟩ := List.mem_map.mp ha
    obtain ⟨y, _, rfl⟩ := List.mem_map.mp hb
    simp

theorem sorted_prefix {V : Type} (p : Key) (K : List (Key × V)) (h : SortedKV K) :
    SortedKV (K.map fun kv => (p ++ kv.1, kv.2)) := by
  unfold SortedKV at *
  rw [List.pairwise_map]; simpa using h

section
variable {V : Type} (Ce Cd : Codec V) (canV : List Bool → List Cell → Bool) (n : Nat)

/-- **dict_canon_encode**: see the header. `rel`: the entries with their keys relative to the prefix `pfx`. -/
theorem dict_canon_encode
    (hval : ∀ bits refs v, Cd.dec bits refs = .ok v → canV bits refs = true →
      ∀ vb vr, Ce.enc v = .ok (vb, vr) → vb = bits ∧ vr = refs) :
    ∀ (fuel m : Nat) (c : Cell) (pfx : Key) (kvs : List (Key × V)), pfx.length + m = n →
      mapInner Cd n fuel (m : Int) c pfx = .ok kvs → dictCanonAt canV n fuel m c pfx = true →
      ∃ rel : List (Key × V), kvs = rel.map (fun kv => (pfx ++ kv.1, kv.2)) ∧ rel ≠ [] ∧
        (∀ kv ∈ rel, kv.1.length = m) ∧ SortedKV rel ∧
        ∀ F c', m < F → encodeMap Ce F rel (m : Int) = .ok c' → c' = c
  | 0, _, _, _, _, _, h, _ => by simp [mapInner] at h
  | fuel + 1, m, .mk ty mask bits refs, pfx, kvs, hm, hdec, hcan => by
    simp only [dictCanonAt, Bool.and_eq_true, beq_iff_eq] at hcan
    obtain ⟨⟨hty, hmask⟩, hcan⟩ := hcan
    subst hty hmask
    have hnp : ¬ ((0 : Nat) = tyPruned) := by decide
    have hnl : ¬ ((0 : Nat) = tyLibrary) := by decide
    simp only [mapInner, hnp, if_false] at hdec
    cases hl : loadLabel (m : Int) n pfx bits with
    | err e => rw [hl] at hdec; cases hdec
    | panic e => rw [hl] at hdec; cases hdec
    | ok r =>
    obtain ⟨size, pfx', rest⟩ := r
    rw [hl] at hdec hcan
    simp only [Bool.and_eq_true, beq_iff_eq] at hcan
    obtain ⟨hbits, hcan⟩ := hcan
    obtain ⟨label, rfl, hlen, hcap⟩ := loadLabel_pfx hl
    have hdrop : (pfx ++ label).drop pfx.length = label := by simp
    rw [hdrop] at hbits
    simp only at hdec
    by_cases hfork : (pfx ++ label).length < n
    · -- a fork
      rw [if_pos hfork] at hdec hcan
      simp only [Bool.and_eq_true, List.isEmpty_iff] at hcan
      obtain ⟨hrest, hcan⟩ := hcan
      subst hrest
      have hsz : size + 1 ≤ m := by simp only [List.length_append] at hfork; omega
      match refs, hcan with
      | [l, r], hcan =>
        simp only [Bool.and_eq_true] at hcan
        obtain ⟨hcl, hcr⟩ := hcan
        simp only at hdec
        have hm' : ((m : Int) - (1 + (size : Int))) = ((m - (1 + size) : Nat) : Int) := by omega
        rw [hm'] at hdec
        cases hL : mapInner Cd n fuel ((m - (1 + size) : Nat) : Int) l (pfx ++ label ++ [false]) with
        | err e => rw [hL] at hdec; cases hdec
        | panic e => rw [hL] at hdec; cases hdec
        | ok a =>
        rw [hL] at hdec
        simp only at hdec
        cases hR : mapInner Cd n fuel ((m - (1 + size) : Nat) : Int) r (pfx ++ label ++ [true]) with
        | err e => rw [hR] at hdec; cases hdec
        | panic e => rw [hR] at hdec; cases hdec
        | ok b =>
        rw [hR] at hdec
        simp only [Outcome.ok.injEq] at hdec
        subst hdec
        have hml : (pfx ++ label ++ [false]).length + (m - (1 + size)) = n := by
          simp only [List.length_append, List.length_cons, List.length_nil]; omega
        have hmr : (pfx ++ label ++ [true]).length + (m - (1 + size)) = n := by
          simp only [List.length_append, List.length_cons, List.length_nil]; omega
        obtain ⟨relL, ha, hneL, hwL, hsL, hencL⟩ :=
          dict_canon_encode hval fuel (m - (1 + size)) l (pfx ++ label ++ [false]) a hml hL hcl
        obtain ⟨relR, hb, hneR, hwR, hsR, hencR⟩ :=
          dict_canon_encode hval fuel (m - (1 + size)) r (pfx ++ label ++ [true]) b hmr hR hcr
        let K : List (Key × V) :=
          relL.map (fun kv => (false :: kv.1, kv.2)) ++ relR.map (fun kv => (true :: kv.1, kv.2))
        let rel : List (Key × V) := K.map fun kv => (label ++ kv.1, kv.2)
        have hK : SortedKV K := sorted_fork relL relR hsL hsR
        have hwrel : ∀ kv ∈ rel, kv.1.length = m := by
          intro kv hkv
          obtain ⟨x, hx, rfl⟩ := List.mem_map.mp hkv
          rcases List.mem_append.mp hx with hx | hx
          · obtain ⟨y, hy, rfl⟩ := List.mem_map.mp hx
            simp only [List.length_append, List.length_cons, hwL y hy, hlen]; omega
          · obtain ⟨y, hy, rfl⟩ := List.mem_map.mp hx
            simp only [List.length_append, List.length_cons, hwR y hy, hlen]; omega
        refine ⟨rel, ?_, ?_, hwrel, sorted_prefix label K hK, ?_⟩
        · rw [ha, hb]
          simp [rel, K, List.map_append, List.map_map, Function.comp_def, List.append_assoc]
        · obtain ⟨x, hx⟩ := List.exists_mem_of_ne_nil relL hneL
          intro h
          have : (label ++ false :: x.1, x.2) ∈ rel := by
            simp only [rel, K, List.map_append, List.map_map, List.mem_append, List.mem_map, Function.comp_def]
            exact Or.inl ⟨x, hx, rfl⟩
          rw [h] at this; cases this
        · intro F c' hF henc
          -- the list has at least two entries: first from the left subtree, last from the right one
          obtain ⟨x, relL', hxL⟩ : ∃ x t, relL = x :: t := by
            cases relL with
            | nil => exact absurd rfl hneL
            | cons x t => exact ⟨x, t, rfl⟩
          obtain ⟨F', rfl⟩ : ∃ F', F = F' + 1 := ⟨F - 1, by omega⟩
          have hRne : relR.map (fun kv => (label ++ true :: kv.1, kv.2)) ≠ [] := by simpa using hneR
          obtain ⟨y, hyR, hye⟩ := List.mem_map.mp (List.getLast_mem hRne)
          have hrel0 : rel = (label ++ false :: x.1, x.2) ::
              (relL'.map (fun kv => (label ++ false :: kv.1, kv.2)) ++
                relR.map (fun kv => (label ++ true :: kv.1, kv.2))) := by
            simp [rel, K, hxL, List.map_append, List.map_map, Function.comp_def]
          obtain ⟨kv1, more, hT⟩ : ∃ kv1 more, relL'.map (fun kv => (label ++ false :: kv.1, kv.2)) ++
              relR.map (fun kv => (label ++ true :: kv.1, kv.2)) = kv1 :: more := by
            cases hT : relL'.map (fun kv => (label ++ false :: kv.1, kv.2)) ++
              relR.map (fun kv => (label ++ true :: kv.1, kv.2)) with
            | nil => simp at hT; exact absurd hT.2 hneR
            | cons kv1 more => exact ⟨kv1, more, rfl⟩
          have hrel : rel = (label ++ false :: x.1, x.2) :: kv1 :: more := by rw [hrel0, hT]
          have hgl : ((kv1 :: more).getLast (by simp)).1 = label ++ true :: y.1 := by
            rw [getLast_of_eq_append (kv1 :: more) _ _ (by simp) hT.symm hRne, ← hye]
          let v0 := x.2
          rw [hrel] at henc
          simp only [encodeMap, encodeFork] at henc
          rw [hgl] at henc
          have hk0 : (label ++ false :: x.1).length = m := hwrel (label ++ false :: x.1, x.2) (by rw [hrel]; simp)
          have hkl : (label ++ true :: y.1).length = m := by
            simp only [List.length_append, List.length_cons, hwR y hyR, hlen]; omega
          have hne2 : label ++ false :: x.1 ≠ label ++ true :: y.1 := by
            intro h; have := List.append_cancel_left h; simp at this
          rw [commonLabel_eq_lcp m _ _ hk0 hkl hne2, lcp_fork] at henc
          simp only at henc
          have hKne : ∀ kv ∈ K, kv.1 ≠ [] := by
            intro kv hkv
            rcases List.mem_append.mp hkv with h | h
            · obtain ⟨z, _, rfl⟩ := List.mem_map.mp h; simp
            · obtain ⟨z, _, rfl⟩ := List.mem_map.mp h; simp
          obtain ⟨L, R, hsp, hKeq⟩ := splitKeys_sorted label K hK hKne
          obtain ⟨rfl, rfl⟩ := split_unique relL L relR R hKeq
          have hrelK : (label ++ false :: x.1, v0) :: kv1 :: more = K.map fun kv => (label ++ kv.1, kv.2) := hrel.symm
          rw [hrelK, hsp] at henc
          simp only at henc
          have hmm : ((m : Int) - (label.length : Int) - 1) = ((m - (1 + size) : Nat) : Int) := by omega
          rw [hmm] at henc
          cases heL : encodeMap Ce F' relL ((m - (1 + size) : Nat) : Int) with
          | err e => rw [heL] at henc; cases henc
          | panic e => rw [heL] at henc; cases henc
          | ok cl =>
          rw [heL] at henc
          simp only at henc
          cases heR : encodeMap Ce F' relR ((m - (1 + size) : Nat) : Int) with
          | err e => rw [heR] at henc; cases henc
          | panic e => rw [heR] at henc; cases henc
          | ok cr =>
          rw [heR] at henc
          simp only at henc
          have e1 := hencL F' cl (by omega) heL
          have e2 := hencR F' cr (by omega) heR
          subst e1 e2
          unfold mkCell at henc
          split at henc
          · cases henc
          · split at henc
            · cases henc
            · simp only [Outcome.ok.injEq] at henc
              rw [← henc, hbits]
              simp [Cell.ordinary]
    · -- a leaf
      rw [if_neg hfork] at hdec hcan
      rw [if_neg hnl] at hdec
      have hsz : size = m := by simp only [List.length_append] at hfork; omega
      cases hv : Cd.dec rest refs with
      | err e => rw [hv] at hdec; cases hdec
      | panic e => rw [hv] at hdec; cases hdec
      | ok v =>
      rw [hv] at hdec
      simp only [Outcome.ok.injEq] at hdec
      subst hdec
      refine ⟨[(label, v)], by simp, by simp, ?_, by simp [SortedKV], ?_⟩
      · intro kv hkv; simp only [List.mem_singleton] at hkv; subst hkv; simp [hlen, hsz]
      · intro F c' hF henc
        obtain ⟨F', rfl⟩ : ∃ F', F = F' + 1 := ⟨F - 1, by omega⟩
        simp only [encodeMap] at henc
        cases he : Ce.enc v with
        | err e => rw [he] at henc; cases henc
        | panic e => rw [he] at henc; cases henc
        | ok p =>
        obtain ⟨vb, vr⟩ := p
        rw [he] at henc
        simp only at henc
        obtain ⟨rfl, rfl⟩ := hval rest refs v hv hcan vb vr he
        unfold mkCell at henc
        split at henc
        · cases henc
        · split at henc
          · cases henc
          · simp only [Outcome.ok.injEq] at henc
            rw [← henc, hbits]
            simp [Cell.ordinary]
end
end Tongo.Tlb
