import TongoModel.CellRead
import TongoProofs.Lemmas.CellOrd
/-! Reading back what was written: lemmas about `CellR` (read cursor) and `CellB` (builder) used by C14, C15, C19. -/
namespace Tongo
open Tongo.Bits

namespace CellR

theorem readBits_append (l rest : List Bool) (refs : List Cell) (n : Nat) (h : l.length = n) :
    CellR.readBits { bits := l ++ rest, refs := refs } n = .ok (l, { bits := rest, refs := refs }) := by
  subst h
  simp [CellR.readBits]

theorem readBits_exact (l : List Bool) (refs : List Cell) (n : Nat) (h : l.length = n) :
    CellR.readBits { bits := l, refs := refs } n = .ok (l, { bits := [], refs := refs }) := by
  have := readBits_append l [] refs n h
  simpa using this

theorem readUint_append (n x : Nat) (rest : List Bool) (refs : List Cell) (hx : x < 2 ^ n) :
    CellR.readUint { bits := natToBits n x ++ rest, refs := refs } n = .ok (x, { bits := rest, refs := refs }) := by
  simp [CellR.readUint, readBits_append _ _ _ n (natToBits_length n x), bind, Outcome.bind, pure,
    bitsToNat_natToBits, Nat.mod_eq_of_lt hx]

/-- reading a field written with `natToBits` without a range assumption: the value comes back reduced -/
theorem readUint_append_mod (n x : Nat) (rest : List Bool) (refs : List Cell) :
    CellR.readUint { bits := natToBits n x ++ rest, refs := refs } n = .ok (x % 2 ^ n, { bits := rest, refs := refs }) := by
  rw [← natToBits_mod]
  exact readUint_append n (x % 2 ^ n) rest refs (Nat.mod_lt _ (Nat.two_pow_pos n))

@[simp] theorem readBit_cons (b : Bool) (rest : List Bool) (refs : List Cell) :
    CellR.readBit { bits := b :: rest, refs := refs } = .ok (b, { bits := rest, refs := refs }) := rfl

@[simp] theorem nextRef_cons (c : Cell) (rest : List Cell) (bits : List Bool) :
    CellR.nextRef { bits := bits, refs := c :: rest } = .ok (c, { bits := bits, refs := rest }) := rfl

theorem readBits_length {r r' : CellR} {n : Nat} {l : List Bool} (h : r.readBits n = .ok (l, r')) : l.length = n := by
  unfold CellR.readBits at h
  split at h
  · simp only [Outcome.ok.injEq, Prod.mk.injEq] at h
    rw [← h.1]; simp; omega
  · simp at h

end CellR

namespace CellB

theorem write_ok (b : CellB) (l : List Bool) (h : b.bits.length + l.length ≤ 1023) :
    b.write l = .ok { bits := b.bits ++ l, refs := b.refs } := by
  simp [CellB.write, h]

theorem writeUint_ok (b : CellB) (v n : Nat) (h : b.bits.length + n ≤ 1023) :
    b.writeUint v n = .ok { bits := b.bits ++ natToBits n v, refs := b.refs } := by
  unfold CellB.writeUint
  rw [write_ok]
  simpa using h

theorem addRef_ok (b : CellB) (c : Cell) (h : b.refs.length < 4) :
    b.addRef c = .ok { bits := b.bits, refs := b.refs ++ [c] } := by
  simp [CellB.addRef, h]

end CellB

namespace Bits

theorem bitsToBytes_bytesToBits_co (bs : List UInt8) : bitsToBytes (bytesToBits bs) = bs := by
  apply bytesToBits_inj
  rw [bytesToBits_bitsToBytes_pad]
  simp [padLen]

theorem bitsToBytes_length (l : List Bool) : (bitsToBytes l).length = (l.length + 7) / 8 := by
  have h := congrArg List.length (bytesToBits_bitsToBytes_pad l)
  simp only [bytesToBits_length_co, List.length_append, List.length_replicate, padLen] at h
  omega

end Bits
end Tongo
