import TongoModel.Message
import TongoProofs.Lemmas.Message
import TongoProofs.Lemmas.TlbSpec
/-! The message layout of TongoModel/Message.lean (bit lists written by hand for C16) IS the layout that the
transcribed block.tlb declarations prescribe (`Tlb.Spec.specChunk` on `Spec.Message`, the SPEC of C04): for every
well-formed set of parts of any of the three kinds, `specChunk` of the corresponding value is `encodeMsgRaw`. Through
C04's `impl_eq_spec_Message` (decided against the descriptor REGENERATED from tlb/messages.go) this ties the C16
layout to the Go struct definitions. -/
namespace Tongo.Message
open Tongo Tongo.Tlb Tongo.Tlb.Spec Tongo.Bits Tongo.Json

/-! ### one-step unfoldings, stated for ANY positive fuel `g` (the predecessor appears as `g - 1`), so that rewriting
never has to solve an offset equation between numerals; used with `simp (disch := omega) only […]` -/
theorem sc_nat (g n v : Nat) (hg : 0 < g) (hv : v < 2 ^ n) :
    specChunk senv g (.nat n) (.int (v : Int)) = some (natToBits n v, []) := by
  cases g with
  | zero => omega
  | succ f =>
    show (if (0 : Int) ≤ v ∧ (v : Int) < 2 ^ n then some (natToBits n (v : Int).toNat, []) else none) = _
    have : (0 : Int) ≤ v ∧ (v : Int) < 2 ^ n := ⟨by omega, by exact_mod_cast hv⟩
    simp [this]
theorem sc_bool (g : Nat) (hg : 0 < g) (x : Bool) : specChunk senv g .bool (.bool x) = some ([x], []) := by
  cases g with | zero => omega | succ f => rfl
theorem sc_msgAddress (g : Nat) (hg : 0 < g) (v : Val) : specChunk senv g .msgAddress v = specMsgAddress v := by
  cases g with | zero => omega | succ f => rfl
theorem sc_hashmapE (g : Nat) (hg : 0 < g) (n : Nat) (sk st : SType) :
    specChunk senv g (.hashmapE n sk st) .nil = some ([false], []) := by
  cases g with | zero => omega | succ f => rfl
theorem sc_cellRef (g : Nat) (hg : 0 < g) (c : Cell) : specChunk senv g .cellRef (.cell c) = some ([], [c]) := by
  cases g with | zero => omega | succ f => rfl
theorem sc_any (g : Nat) (hg : 0 < g) (ty mask : Nat) (bits : List Bool) (refs : List Cell) :
    specChunk senv g .any (.cell (.mk ty mask bits refs)) = some (bits, refs) := by
  cases g with | zero => omega | succ f => rfl
theorem sf_nil (g : Nat) (hg : 0 < g) : specFields senv g .nil .nil = some ([], []) := by
  cases g with | zero => omega | succ f => rfl
theorem sf_cons (g : Nat) (hg : 0 < g) (n : String) (t : SType) (rest : SFields) (x vs : Val) :
    specFields senv g (.cons n t rest) (.cons x vs) =
      (match specChunk senv (g - 1) t x, specFields senv (g - 1) rest vs with
      | some a, some b => some (a.app b)
      | _, _ => none) := by
  cases g with | zero => omega | succ f => rfl
theorem sc_seq (g : Nat) (hg : 0 < g) (fs : SFields) (v : Val) :
    specChunk senv g (.seq fs) v = specFields senv (g - 1) fs v := by
  cases g with | zero => omega | succ f => rfl
theorem sc_named (g : Nat) (hg : 0 < g) (n : String) (v : Val) :
    specChunk senv g (.named n) v = (match senv n with
      | some t => specChunk senv (g - 1) t v
      | none => none) := by
  cases g with | zero => omega | succ f => rfl
theorem sc_goPtr (g : Nat) (hg : 0 < g) (t : SType) (x : Val) :
    specChunk senv g (.goPtr t) (Val.some x) = specChunk senv (g - 1) t x := by
  cases g with | zero => omega | succ f => rfl
theorem sc_sum (g : Nat) (hg : 0 < g) (cs : SCtors) (name : String) (x : Val) :
    specChunk senv g (.sum cs) (Val.ctor name x) =
      (match cs.find name with
      | some (tg, t) => (specChunk senv (g - 1) t x).map fun c => (tg ++ c.1, c.2)
      | none => none) := by
  cases g with | zero => omega | succ f => rfl
theorem sc_maybe_none (g : Nat) (hg : 0 < g) (t : SType) : specChunk senv g (.maybe t) .none = some ([false], []) := by
  cases g with | zero => omega | succ f => rfl
theorem sc_maybe_some (g : Nat) (hg : 0 < g) (t : SType) (x : Val) :
    specChunk senv g (.maybe t) (Val.some x) = (specChunk senv (g - 1) t x).map fun c => (true :: c.1, c.2) := by
  cases g with | zero => omega | succ f => rfl
theorem sc_either_R (g : Nat) (hg : 0 < g) (l r : SType) (x : Val) :
    specChunk senv g (.either l r) (Val.ctor "R" x) = (specChunk senv (g - 1) r x).map fun c => (true :: c.1, c.2) := by
  cases g with | zero => omega | succ f => exact specChunk_either_R senv f l r x
theorem sc_either_L (g : Nat) (hg : 0 < g) (l r : SType) (x : Val) :
    specChunk senv g (.either l r) (Val.ctor "L" x) = (specChunk senv (g - 1) l x).map fun c => (false :: c.1, c.2) := by
  cases g with | zero => omega | succ f => exact specChunk_either_L senv f l r x
theorem sc_ref (g : Nat) (hg : 0 < g) (t : SType) (v : Val) :
    specChunk senv g (.ref t) v = (specChunk senv (g - 1) t v).map fun c => ([], [Cell.mk 0 0 c.1 c.2]) := by
  cases g with | zero => omega | succ f => rfl

theorem minBytes_natBytes (v : Nat) : minBytes v = natBytes v := by
  unfold minBytes bitWidth natBytes
  split
  · simp
  · omega

/-- Grams / VarUInteger 16 -/
theorem sc_grams (g v : Nat) (hg : 0 < g) (hv : v < 2 ^ 120) :
    specChunk senv g (.varUint 16) (.int (v : Int)) = some (encodeVarUInt16 v, []) := by
  cases g with
  | zero => omega
  | succ f =>
    have h := (natBytes_spec v hv).1
    show (if (0 : Int) ≤ v ∧ minBytes (v : Int).toNat < 16 then
        some (natToBits (bitWidth (16 - 1)) (minBytes (v : Int).toNat) ++
          natToBits (minBytes (v : Int).toNat * 8) (v : Int).toNat, []) else none) = _
    have e : bitWidth (16 - 1) = 4 := by decide
    simp [minBytes_natBytes, encodeVarUInt16, h, e, Nat.mul_comm]

theorem senv_CommonMsgInfo : senv "CommonMsgInfo" = some Spec.CommonMsgInfo := rfl
theorem senv_CurrencyCollection : senv "CurrencyCollection" = some Spec.CurrencyCollection := rfl
theorem senv_ExtraCurrencyCollection : senv "ExtraCurrencyCollection" = some Spec.ExtraCurrencyCollection := rfl
theorem senv_StateInit : senv "StateInit" = some Spec.StateInit := rfl
theorem senv_TickTock : senv "TickTock" = some Spec.TickTock := rfl

/-! ### addresses -/

def anyVal : Option Anycast → Val
  | none => .none
  | some a => Val.some (Val.list [.int a.depth, .int a.pfx])

def addrVal : MsgAddr → Val
  | .none => Val.ctor "AddrNone" .nil
  | .extern b => Val.ctor "AddrExtern" (Val.some (.bits b))
  | .std any wc addr => Val.ctor "AddrStd" (Val.list [anyVal any, .int wc, .bytes addr])
  | .var any wc b => Val.ctor "AddrVar" (Val.some (Val.list [anyVal any, .int b.length, .int wc, .bits b]))

/-- block.tlb bounds the anycast depth by 30 (`#<= 30`); the Go decoder accepts 31 as well -/
def AnyTlb : Option Anycast → Prop
  | none => True
  | some a => a.depth ≤ 30

def AddrTlb : MsgAddr → Prop
  | .std any _ _ => AnyTlb any
  | .var any _ _ => AnyTlb any
  | _ => True

theorem spec_maybeAnycast (any : Option Anycast) (h : AnyWF any) (ht : AnyTlb any) :
    specMaybeAnycast (anyVal any) = some (encodeAnycast any, []) := by
  cases any with
  | none => rfl
  | some a =>
    obtain ⟨h1, _, h3⟩ := h
    have ht' : a.depth ≤ 30 := ht
    have e : bitWidth 30 = 5 := by decide
    have c : (1 : Int) ≤ a.depth ∧ (a.depth : Int) ≤ 30 ∧ (0 : Int) ≤ a.pfx ∧ (a.pfx : Int) < 2 ^ a.depth := by
      refine ⟨by omega, by omega, by omega, by exact_mod_cast h3⟩
    simp [specMaybeAnycast, anyVal, Val.some, Val.list, specAnycast, encodeAnycast, e, c]

theorem spec_addr (a : MsgAddr) (h : AddrWF a) (ht : AddrTlb a) : specMsgAddress (addrVal a) = some (encodeAddr a, []) := by
  cases a with
  | none => rfl
  | extern b =>
    have hb : b.length < 512 := h
    have t : tagBits "$01" = [false, true] := by decide
    simp [specMsgAddress, addrVal, Val.ctor, Val.some, encodeAddr, hb, t]
  | std any wc addr =>
    obtain ⟨ha, hlo, hhi, hlen⟩ := h
    have t : tagBits "$10" = [true, false] := by decide
    have c : -(2 ^ 7 : Int) ≤ wc ∧ wc < (2 ^ 7 : Int) ∧ addr.length * 8 = 256 := ⟨by omega, by omega, by omega⟩
    simp [specMsgAddress, addrVal, Val.ctor, Val.list, encodeAddr, hlo, hhi, hlen, t, spec_maybeAnycast any ha ht]
  | var any wc b =>
    obtain ⟨ha, hlo, hhi, hlen⟩ := h
    have t : tagBits "$11" = [true, true] := by decide
    have hlo' : (-2147483648 : Int) ≤ wc := by simpa using hlo
    have hhi' : wc < (2147483648 : Int) := by simpa using hhi
    simp [specMsgAddress, addrVal, Val.ctor, Val.some, Val.list, encodeAddr, hlen, hlo', hhi', t,
      spec_maybeAnycast any ha ht]

/-! ### CommonMsgInfo -/

def infoVal : Info → Val
  | .int a b c src dest grams _ ihr fwd lt at_ => Val.ctor "IntMsgInfo" (Val.some (Val.list
      [.bool a, .bool b, .bool c, addrVal src, addrVal dest, Val.list [.int grams, Val.list [.nil]], .int ihr, .int fwd,
        .int lt, .int at_]))
  | .extIn src dest fee => Val.ctor "ExtInMsgInfo" (Val.some (Val.list [addrVal src, addrVal dest, .int fee]))
  | .extOut src dest lt at_ =>
    Val.ctor "ExtOutMsgInfo" (Val.some (Val.list [addrVal src, addrVal dest, .int lt, .int at_]))

def InfoTlb : Info → Prop
  | .int _ _ _ src dest .. => AddrTlb src ∧ AddrTlb dest
  | .extIn src dest _ => AddrTlb src ∧ AddrTlb dest
  | .extOut src dest .. => AddrTlb src ∧ AddrTlb dest

/-- the simp set that walks a schema -/
macro "spec_walk" : tactic => `(tactic|
  simp (disch := omega) only [sc_named, sc_seq, sc_sum, sc_goPtr, sf_cons, sf_nil, sc_bool, sc_msgAddress, sc_hashmapE,
    sc_cellRef, sc_any, sc_maybe_none, sc_maybe_some, sc_either_L, sc_either_R, sc_ref,
    senv_CommonMsgInfo, senv_CurrencyCollection, senv_ExtraCurrencyCollection, senv_StateInit, senv_TickTock,
    Spec.CommonMsgInfo, Spec.CurrencyCollection, Spec.ExtraCurrencyCollection, Spec.StateInit, Spec.TickTock, Spec.Grams,
    Spec.Message, SCtors.find, String.reduceEq, ↓reduceIte])

theorem spec_info (g : Nat) (hg : 20 ≤ g) (i : Info) (h : InfoWF i) (ht : InfoTlb i) :
    specChunk senv g (.named "CommonMsgInfo") (infoVal i) = some (encodeInfo i, []) := by
  cases i with
  | extIn src dest fee =>
    obtain ⟨hs, hd, hf⟩ := h
    obtain ⟨ts, td⟩ := ht
    simp only [infoVal, Val.list]
    spec_walk
    simp (disch := omega) only [spec_addr src hs ts, spec_addr dest hd td, sc_grams _ fee _ hf]
    have t : tagBits "$10" = [true, false] := by decide
    simp [Chunk.app, encodeInfo, t]
  | extOut src dest lt at_ =>
    obtain ⟨hs, hd, hl, ha⟩ := h
    obtain ⟨ts, td⟩ := ht
    simp only [infoVal, Val.list]
    spec_walk
    simp (disch := omega) only [spec_addr src hs ts, spec_addr dest hd td, sc_nat _ _ lt _ hl, sc_nat _ _ at_ _ ha]
    have t : tagBits "$11" = [true, true] := by decide
    simp [Chunk.app, encodeInfo, t]
  | int a b c src dest grams hasExtra ihr fwd lt at_ =>
    obtain ⟨hs, hd, hg', hx, hi, hf, hl, ha⟩ := h
    obtain ⟨ts, td⟩ := ht
    simp only [infoVal, Val.list]
    spec_walk
    simp (disch := omega) only [spec_addr src hs ts, spec_addr dest hd td, sc_nat _ _ lt _ hl, sc_nat _ _ at_ _ ha,
      sc_grams _ grams _ (by omega : grams < 2 ^ 120), sc_grams _ ihr _ (by omega : ihr < 2 ^ 120),
      sc_grams _ fwd _ (by omega : fwd < 2 ^ 120)]
    have t : tagBits "$0" = [false] := by decide
    simp [Chunk.app, encodeInfo, t]

/-! ### StateInit, init, body, message -/

def stateInitVal (si : StateInit Cell) : Val :=
  Val.list [
    (match si.splitDepth with | none => Val.none | some d => Val.some (.int d)),
    (match si.special with | none => Val.none | some (a, b) => Val.some (Val.list [.bool a, .bool b])),
    (match si.code with | none => Val.none | some c => Val.some (.cell c)),
    (match si.data with | none => Val.none | some c => Val.some (.cell c)),
    .nil]

theorem spec_stateInit (g : Nat) (hg : 12 ≤ g) (si : StateInit Cell) (hw : StateInitWF si) (hl : si.lib = none) :
    specChunk senv g (.named "StateInit") (stateInitVal si) = some (encodeStateInit si) := by
  obtain ⟨sd, sp, code, data, lib⟩ := si
  simp only at hl
  subst hl
  have hsd : ∀ d, sd = some d → d < 2 ^ 5 := fun d h => hw d h
  simp only [stateInitVal, Val.list]
  cases sd with
  | none =>
    cases sp with
    | none => cases code <;> cases data <;> (spec_walk; simp [Chunk.app, encodeStateInit])
    | some ab =>
      obtain ⟨a, b⟩ := ab
      cases code <;> cases data <;> (simp only [Val.list]; spec_walk; simp [Chunk.app, encodeStateInit])
  | some d =>
    have hd := hsd d rfl
    cases sp with
    | none =>
      cases code <;> cases data <;>
        (spec_walk; simp (disch := omega) only [sc_nat _ _ d _ hd]; simp [Chunk.app, encodeStateInit])
    | some ab =>
      obtain ⟨a, b⟩ := ab
      cases code <;> cases data <;>
        (simp only [Val.list]; spec_walk; simp (disch := omega) only [sc_nat _ _ d _ hd]
         simp [Chunk.app, encodeStateInit])

/-- the walk over `Spec.Message` itself, stopping at the named components -/
macro "spec_walk_msg" : tactic => `(tactic|
  simp (disch := omega) only [sc_seq, sf_cons, sf_nil, sc_any, sc_maybe_none, sc_maybe_some, sc_either_L, sc_either_R,
    sc_ref, Spec.Message])

/-- the parts of a message in the domain of the transcribed schema: the state-init (inline or in its own cell) is
given as a value, its library is empty; the body is an ordinary cell -/
inductive InitTlb where
  | absent
  | inline (si : StateInit Cell)
  | ref (si : StateInit Cell)

def InitTlb.toForm : InitTlb → InitForm Cell
  | .absent => .absent
  | .inline si => .inline si
  | .ref si => .ref (Cell.mk 0 0 (encodeStateInit si).1 (encodeStateInit si).2)

def InitTlb.wf : InitTlb → Prop
  | .absent => True
  | .inline si => StateInitWF si ∧ si.lib = none
  | .ref si => StateInitWF si ∧ si.lib = none

def initVal : InitTlb → Val
  | .absent => .none
  | .inline si => Val.some (Val.ctor "L" (stateInitVal si))
  | .ref si => Val.some (Val.ctor "R" (stateInitVal si))

def bodyVal (form : BodyForm) (body : Cell) : Val :=
  match form with
  | .inline => Val.ctor "L" (.cell body)
  | .ref => Val.ctor "R" (.cell body)

/-- the value (in the dump format shared with the tlb slice) of a message given by its parts -/
def msgVal (info : Info) (init : InitTlb) (form : BodyForm) (body : Cell) : Val :=
  Val.list [infoVal info, initVal init, bodyVal form body]

/-- **The C16 layout is the block.tlb layout**: for a message of any of the three kinds whose parts are well formed
and in the domain of the transcribed schema (anycast depth ≤ 30, no extra currencies, empty state-init library,
ordinary body cell), what `message$_ info:CommonMsgInfo init:(Maybe (Either StateInit ^StateInit))
body:(Either X ^X)` prescribes is exactly `encodeMsgRaw`. -/
theorem spec_message (g : Nat) (hg : 40 ≤ g) (info : Info) (init : InitTlb) (form : BodyForm) (body : Cell)
    (hi : InfoWF info) (ht : InfoTlb info) (hinit : init.wf) (hb : body = Cell.mk 0 0 body.bits body.refs) :
    specChunk senv g Spec.Message (msgVal info init form body) =
      some (encodeMsgRaw ⟨info, init.toForm, form, body⟩) := by
  have hinfo := fun g' (h' : 20 ≤ g') => spec_info g' h' info hi ht
  obtain ⟨ty, mask, bits, refs⟩ := body
  simp only [Cell.bits, Cell.refs, Cell.mk.injEq] at hb
  obtain ⟨hty, hmask, _, _⟩ := hb
  subst hty; subst hmask
  simp only [msgVal, Val.list]
  cases init with
  | absent =>
    cases form <;>
      (simp only [initVal, bodyVal]; spec_walk_msg; simp (disch := omega) only [hinfo]
       simp [Chunk.app, encodeMsgRaw, encodeInit, InitTlb.toForm, Cell.bits, Cell.refs])
  | inline si =>
    have hsi := fun g' (h' : 12 ≤ g') => spec_stateInit g' h' si hinit.1 hinit.2
    cases form <;>
      (simp only [initVal, bodyVal]; spec_walk_msg; simp (disch := omega) only [hinfo, hsi]
       simp [Chunk.app, encodeMsgRaw, encodeInit, InitTlb.toForm, Cell.bits, Cell.refs])
  | ref si =>
    have hsi := fun g' (h' : 12 ≤ g') => spec_stateInit g' h' si hinit.1 hinit.2
    cases form <;>
      (simp only [initVal, bodyVal]; spec_walk_msg; simp (disch := omega) only [hinfo, hsi]
       simp [Chunk.app, encodeMsgRaw, encodeInit, InitTlb.toForm, Cell.bits, Cell.refs])

end Tongo.Message
