import TongoProofs.Lemmas.BocEmit
import TongoProofs.Lemmas.BocOrderImport
import TongoProofs.Lemmas.BocOrderRevisit
/-! Trees behind tables: depth, the semantics `IsSem` of a table whose references point forward, `Table.unfold`
computed from it. Used to state and prove that Go's cell order preserves the cells. -/
namespace Tongo.Boc.Order
open Tongo Tongo.Boc

/-! ### trees: depth, semantics of a table -/

mutual
def cellDepth : Cell → Nat
  | .mk _ _ _ refs => cellDepthList refs
def cellDepthList : List Cell → Nat
  | [] => 0
  | c :: cs => max (cellDepth c + 1) (cellDepthList cs)
end

theorem cellDepthList_mem {c : Cell} {cs : List Cell} (h : c ∈ cs) : cellDepth c + 1 ≤ cellDepthList cs := by
  induction cs with
  | nil => simp at h
  | cons x xs ih =>
    simp only [cellDepthList]
    rcases List.mem_cons.1 h with rfl | h
    · omega
    · have := ih h; omega

theorem cellDepthList_le {cs : List Cell} {b : Nat} (h : ∀ c ∈ cs, cellDepth c + 1 ≤ b) : cellDepthList cs ≤ b := by
  induction cs with
  | nil => simp [cellDepthList]
  | cons x xs ih =>
    simp only [cellDepthList]
    have := h x (by simp)
    have := ih (fun c hc => h c (by simp [hc]))
    omega

/-- `T` assigns to every row the tree it stands for -/
def IsSem (t : Table) (T : Nat → Cell) : Prop :=
  ∀ i, i < t.size → T i = .mk (t[i]!).ty (t[i]!).mask (t[i]!).bits ((t[i]!).refs.map T)

/-- references point forward and stay inside the table -/
def Fwd (t : Table) : Prop := ∀ i, i < t.size → ∀ r ∈ (t[i]!).refs, i < r ∧ r < t.size

theorem mapM_some_map {α β} (f : α → Option β) (g : α → β) (l : List α) (h : ∀ x ∈ l, f x = some (g x)) :
    l.mapM f = some (l.map g) := by
  induction l with
  | nil => rfl
  | cons a l ih =>
    rw [List.mapM_cons, h a (by simp), ih (fun x hx => h x (by simp [hx]))]
    rfl

theorem unfold_of_sem (t : Table) (T : Nat → Cell) (hs : IsSem t T) (hf : Fwd t) :
    ∀ fuel i, i < t.size → t.size - i < fuel → Table.unfold t fuel i = some (T i) := by
  intro fuel
  induction fuel with
  | zero => intro i _ h; omega
  | succ fuel ih =>
    intro i hi hfu
    unfold Table.unfold
    rw [Array.getElem?_eq_getElem hi]
    simp only
    have hrow : t[i] = t[i]! := (getElem!_pos t i hi).symm
    rw [hrow]
    have : (t[i]!).refs.mapM (fun r => if r > i then Table.unfold t fuel r else none) = some ((t[i]!).refs.map T) := by
      apply mapM_some_map
      intro r hr
      obtain ⟨a, b⟩ := hf i hi r hr
      simp only [gt_iff_lt, a, if_true]
      exact ih r b (by omega)
    rw [this, hs i hi]

/-- the tree of row `i`, by fuel -/
def semF (t : Table) : Nat → Nat → Cell
  | 0, _ => default
  | f + 1, i => .mk (t[i]!).ty (t[i]!).mask (t[i]!).bits ((t[i]!).refs.map (semF t f))

theorem semF_indep (t : Table) (hf : Fwd t) : ∀ f g i, i < t.size → t.size - i < f → t.size - i < g →
    semF t f i = semF t g i := by
  intro f
  induction f with
  | zero => intro g i _ h; omega
  | succ f ih =>
    intro g i hi h1 h2
    cases g with
    | zero => omega
    | succ g =>
      simp only [semF]
      congr 1
      apply List.map_congr_left
      intro r hr
      obtain ⟨a, b⟩ := hf i hi r hr
      exact ih g r b (by omega) (by omega)

/-- a table whose references point forward has a semantics -/
theorem sem_exists (t : Table) (hf : Fwd t) : IsSem t (semF t (t.size + 1)) := by
  intro i hi
  show semF t (t.size + 1) i = _
  simp only [semF]
  congr 1
  apply List.map_congr_left
  intro r hr
  obtain ⟨a, b⟩ := hf i hi r hr
  exact semF_indep t hf t.size (t.size + 1) r b (by omega) (by omega)

theorem fwd_of_rows (t : Table) (hrows : ∀ i (h : i < t.size), RowOK t.size i t[i]) : Fwd t := by
  intro i hi r hr
  rw [getElem!_pos t i hi] at hr
  exact (hrows i hi).refs_fwd r hr

/-- the depth of the tree of a row is bounded by any ranking of the table -/
theorem depth_le_rank (t : Table) (T : Nat → Cell) (hs : IsSem t T) (hf : Fwd t) (ds : Array Nat)
    (hr : ∀ i, i < t.size → ∀ r ∈ (t[i]!).refs, ds[r]! + 1 ≤ ds[i]!) :
    ∀ m i, i < t.size → t.size - i ≤ m → cellDepth (T i) ≤ ds[i]! := by
  intro m
  induction m with
  | zero => intro i hi h; omega
  | succ m ih =>
    intro i hi hm
    rw [hs i hi]
    simp only [cellDepth]
    apply cellDepthList_le
    intro c hc
    obtain ⟨r, hr', rfl⟩ := List.mem_map.1 hc
    obtain ⟨a, b⟩ := hf i hi r hr'
    have := ih r b (by omega)
    have := hr i hi r hr'
    omega

theorem depth_child (t : Table) (T : Nat → Cell) (hs : IsSem t T) {i r : Nat} (hi : i < t.size)
    (hr : r ∈ (t[i]!).refs) : cellDepth (T r) + 1 ≤ cellDepth (T i) := by
  rw [hs i hi]
  simp only [cellDepth]
  exact cellDepthList_mem (List.mem_map.2 ⟨r, hr, rfl⟩)

theorem depth_tdesc (t : Table) (T : Nat → Cell) (hs : IsSem t T) (hf : Fwd t) {a k : Nat} (ha : a < t.size)
    (h : TDesc t a k) : cellDepth (T k) ≤ cellDepth (T a) := by
  induction h with
  | refl => exact Nat.le_refl _
  | @step a c k hc _ ih =>
    have := depth_child t T hs ha hc
    have := ih (hf a ha c hc).2
    omega

end Tongo.Boc.Order
