import TongoModel.PoolSelect
/-! Helper lemmas for C13 (selection rules). -/
namespace Tongo.PoolSelect

/-! ### maxSeqno -/

theorem foldl_max_le (cs : List Conn) (m : BitVec 32) (k : Nat) :
    (cs.foldl (fun m c => if m < c.seqno then c.seqno else m) m).toNat ≤ k ↔
      m.toNat ≤ k ∧ ∀ d ∈ cs, d.seqno.toNat ≤ k := by
  induction cs generalizing m with
  | nil => simp
  | cons c cs ih =>
    simp only [List.foldl_cons, ih, List.mem_cons, forall_eq_or_imp]
    by_cases h : m < c.seqno
    · have : m.toNat < c.seqno.toNat := BitVec.lt_def.mp h
      simp only [h, if_true]
      constructor
      · rintro ⟨h1, h2⟩; exact ⟨by omega, h1, h2⟩
      · rintro ⟨_, h1, h2⟩; exact ⟨h1, h2⟩
    · have : ¬ m.toNat < c.seqno.toNat := fun h' => h (BitVec.lt_def.mpr h')
      simp only [h, if_false]
      constructor
      · rintro ⟨h1, h2⟩; exact ⟨h1, by omega, h2⟩
      · rintro ⟨h0, _, h2⟩; exact ⟨h0, h2⟩

theorem maxSeqno_le (cs : List Conn) (k : Nat) :
    (maxSeqno cs).toNat ≤ k ↔ ∀ d ∈ cs, d.seqno.toNat ≤ k := by
  unfold maxSeqno; rw [foldl_max_le]; simp

theorem le_maxSeqno {cs : List Conn} {c : Conn} (h : c ∈ cs) : c.seqno.toNat ≤ (maxSeqno cs).toNat :=
  (maxSeqno_le cs _).mp (Nat.le_refl _) c h

/-- the repaired test against `maxSeqno` is the property's "at most one block behind the newest head" -/
theorem working_false_eq_current (cs : List Conn) (c : Conn) :
    working false (maxSeqno cs) c = current cs c := by
  unfold working current
  simp only [Bool.false_eq_true, if_false, ge_iff_le]
  rw [Bool.eq_iff_iff]
  simp only [decide_eq_true_eq, List.all_eq_true]
  exact maxSeqno_le cs _

/-- the test as written agrees with the repaired one except at seqno = 2³²−1 -/
theorem working_true_eq_of_lt (m : BitVec 32) (c : Conn) (h : c.seqno.toNat < 2 ^ 32 - 1) :
    working true m c = working false m c := by
  unfold working
  simp only [if_true, Bool.false_eq_true, if_false, ge_iff_le]
  rw [Bool.eq_iff_iff]
  simp only [decide_eq_true_eq, BitVec.le_def, BitVec.toNat_add]
  have h1 : BitVec.toNat (1 : BitVec 32) = 1 := rfl
  rw [h1, Nat.mod_eq_of_lt (by omega)]

/-- as written: a member whose head is 2³²−1 fails the test against any max that is ≥ its own head -/
theorem working_true_max (m : BitVec 32) (c : Conn) (h : c.seqno = 0xFFFFFFFF#32) (hm : c.seqno.toNat ≤ m.toNat) :
    working true m c = false := by
  unfold working
  simp only [if_true, ge_iff_le, decide_eq_false_iff_not, BitVec.le_def, h]
  rw [h] at hm
  have : (0xFFFFFFFF#32 + 1 : BitVec 32) = 0 := by decide
  rw [this]
  simp at hm ⊢
  omega

/-! ### the two scans as filters -/

theorem findFirstWorking_eq (wrap : Bool) (m : BitVec 32) (cs : List Conn) :
    findFirstWorking wrap m cs = (cs.filter (fun c => c.alive && working wrap m c)).head? := by
  induction cs with
  | nil => rfl
  | cons c cs ih =>
    unfold findFirstWorking
    cases ha : c.alive <;> cases hw : working wrap m c <;> simp [List.filter_cons, ha, hw, ih]

theorem findBestPingLoop_eq (wrap : Bool) (m : BitVec 32) (cs : List Conn) (best : Option Conn) :
    findBestPingLoop wrap m cs best =
      match best with
      | none => firstMin (cs.filter (fun c => c.alive && working wrap m c))
      | some b => some ((cs.filter (fun c => c.alive && working wrap m c)).foldl
                    (fun b d => if d.rtt < b.rtt then d else b) b) := by
  induction cs generalizing best with
  | nil => cases best <;> rfl
  | cons c cs ih =>
    unfold findBestPingLoop
    cases ha : c.alive <;> cases hw : working wrap m c
    all_goals simp only [Bool.not_false, Bool.not_true, if_true, Bool.false_eq_true, if_false,
      List.filter_cons, ha, hw, Bool.and_self, Bool.and_false, Bool.false_and, Bool.and_true]
    all_goals try exact ih best
    cases best with
    | none => simp only [ih, firstMin]
    | some b =>
      simp only [List.foldl_cons]
      by_cases hlt : c.rtt < b.rtt <;> simp only [hlt, if_true, if_false, ih]

theorem findBestPing_eq (wrap : Bool) (m : BitVec 32) (cs : List Conn) :
    findBestPing wrap m cs = firstMin (cs.filter (fun c => c.alive && working wrap m c)) := by
  unfold findBestPing; rw [findBestPingLoop_eq]

theorem filter_working_false (cs : List Conn) :
    cs.filter (fun c => c.alive && working false (maxSeqno cs) c) = candidates cs := by
  unfold candidates
  congr 1; funext c; rw [working_false_eq_current]

theorem filter_working_true (cs : List Conn) (h : ∀ c ∈ cs, c.seqno.toNat < 2 ^ 32 - 1) :
    cs.filter (fun c => c.alive && working true (maxSeqno cs) c) = candidates cs := by
  unfold candidates
  apply List.filter_congr
  intro c hc
  rw [working_true_eq_of_lt _ _ (h c hc), working_false_eq_current]

/-! ### firstMin, declaratively -/

/-- `r` is the element of `l` of least rtt, the earliest among ties -/
def IsFirstMin (l : List Conn) (r : Conn) : Prop :=
  ∃ pre post, l = pre ++ r :: post ∧ (∀ d ∈ pre, r.rtt < d.rtt) ∧ (∀ d ∈ post, r.rtt ≤ d.rtt)

theorem foldl_isFirstMin (acc cs : List Conn) (b : Conn) (h : IsFirstMin acc b) :
    IsFirstMin (acc ++ cs) (cs.foldl (fun b d => if d.rtt < b.rtt then d else b) b) := by
  induction cs generalizing acc b with
  | nil => simpa using h
  | cons c cs ih =>
    simp only [List.foldl_cons]
    have : acc ++ c :: cs = (acc ++ [c]) ++ cs := by simp
    rw [this]
    apply ih
    obtain ⟨pre, post, hl, hpre, hpost⟩ := h
    by_cases hlt : c.rtt < b.rtt
    · simp only [hlt, if_true]
      refine ⟨acc, [], by simp, ?_, by simp⟩
      intro d hd
      rw [hl] at hd
      simp only [List.mem_append, List.mem_cons] at hd
      rcases hd with hd | hd | hd
      · have := hpre d hd; omega
      · subst hd; exact hlt
      · have := hpost d hd; omega
    · simp only [hlt, if_false]
      refine ⟨pre, post ++ [c], by simp [hl], hpre, ?_⟩
      intro d hd
      simp only [List.mem_append, List.mem_singleton] at hd
      rcases hd with hd | hd
      · exact hpost d hd
      · subst hd; omega

theorem firstMin_isFirstMin {l : List Conn} {r : Conn} (h : firstMin l = some r) : IsFirstMin l r := by
  cases l with
  | nil => simp [firstMin] at h
  | cons c cs =>
    simp only [firstMin, Option.some.injEq] at h
    subst h
    have := foldl_isFirstMin [c] cs c ⟨[], [], by simp, by simp, by simp⟩
    simpa using this

theorem firstMin_eq_none {l : List Conn} : firstMin l = none ↔ l = [] := by
  cases l <;> simp [firstMin]

/-- `IsFirstMin` determines its element -/
theorem IsFirstMin.unique {l : List Conn} {r r' : Conn} (h : IsFirstMin l r) (h' : IsFirstMin l r') : r = r' := by
  obtain ⟨pre, post, hl, hpre, hpost⟩ := h
  obtain ⟨pre', post', hl', hpre', hpost'⟩ := h'
  rw [hl] at hl'
  rcases List.append_eq_append_iff.mp hl' with ⟨a, ha, hb⟩ | ⟨a, ha, hb⟩
  · cases a with
    | nil => simp at hb; exact hb.1
    | cons x a =>
      simp only [List.cons_append, List.cons.injEq] at hb
      obtain ⟨hx, hb⟩ := hb
      have h1 : r.rtt ≤ r'.rtt := hpost r' (by rw [hb]; simp)
      have h2 : r'.rtt < r.rtt := hpre' r (by rw [ha, ← hx]; simp)
      omega
  · cases a with
    | nil => simp at hb; exact hb.1.symm
    | cons x a =>
      simp only [List.cons_append, List.cons.injEq] at hb
      obtain ⟨hx, hb⟩ := hb
      have h1 : r'.rtt ≤ r.rtt := hpost' r (by rw [hb]; simp)
      have h2 : r.rtt < r'.rtt := hpre r' (by rw [ha, ← hx]; simp)
      omega

end Tongo.PoolSelect
