import TongoModel.CellSeq
import TongoProofs.Lemmas.BitStringZOps
/-! Simulation between two instances of the generic cell-heap operations: if the bit interfaces simulate each other,
so do all cell-level operations and operation sequences. Helper lemmas only. -/
namespace Tongo.CellSeq
open Tongo Tongo.BitString

variable {β γ : Type}

def CellRel (Rel : β → γ → Prop) (c : GCell β) (d : GCell γ) : Prop :=
  Rel c.bits d.bits ∧ c.refs = d.refs ∧ c.refCursor = d.refCursor

def HeapRel (Rel : β → γ → Prop) (h : List (GCell β)) (g : List (GCell γ)) : Prop :=
  h.length = g.length ∧ ∀ (i : Nat) (c : GCell β) (d : GCell γ), h[i]? = some c → g[i]? = some d → CellRel Rel c d

theorem HeapRel.get {Rel : β → γ → Prop} {h : List (GCell β)} {g : List (GCell γ)} (hr : HeapRel Rel h g) {i : Nat} {c : GCell β}
    (hc : h[i]? = some c) : ∃ d, g[i]? = some d ∧ CellRel Rel c d := by
  have hi : i < h.length := (List.getElem?_eq_some_iff.mp hc).1
  have hi' : i < g.length := by have := hr.1; omega
  have hg : g[i]? = some g[i] := List.getElem?_eq_getElem hi'
  exact ⟨_, hg, hr.2 i c _ hc hg⟩

theorem HeapRel.get_none {Rel : β → γ → Prop} {h : List (GCell β)} {g : List (GCell γ)} (hr : HeapRel Rel h g) {i : Nat}
    (hc : h[i]? = none) : g[i]? = none := by
  rw [List.getElem?_eq_none_iff] at hc ⊢
  have := hr.1; omega

theorem HeapRel.set {Rel : β → γ → Prop} {h : List (GCell β)} {g : List (GCell γ)} (hr : HeapRel Rel h g) (i : Nat)
    {c : GCell β} {d : GCell γ} (hcd : CellRel Rel c d) : HeapRel Rel (h.set i c) (g.set i d) := by
  refine ⟨by have := hr.1; simp only [List.length_set]; exact this, ?_⟩
  intro j c' d' hc' hd'
  rw [List.getElem?_set] at hc' hd'
  by_cases hij : i = j
  · simp only [hij, if_true] at hc' hd'
    split at hc'
    · split at hd'
      · cases hc'; cases hd'; exact hcd
      · cases hd'
    · cases hc'
  · simp only [hij, if_false] at hc' hd'
    exact hr.2 j c' d' hc' hd'

theorem HeapRel.append {Rel : β → γ → Prop} {h : List (GCell β)} {g : List (GCell γ)} (hr : HeapRel Rel h g)
    {c : GCell β} {d : GCell γ} (hcd : CellRel Rel c d) : HeapRel Rel (h ++ [c]) (g ++ [d]) := by
  refine ⟨by have := hr.1; simp only [List.length_append, List.length_cons, List.length_nil]; omega, ?_⟩
  intro j c' d' hc' hd'
  rw [List.getElem?_append] at hc' hd'
  by_cases hj : j < h.length
  · have hj' : j < g.length := by have := hr.1; omega
    simp only [hj, hj', if_true] at hc' hd'
    exact hr.2 j c' d' hc' hd'
  · have hj' : ¬ j < g.length := by have := hr.1; omega
    simp only [hj, hj', if_false] at hc' hd'
    have e : j - h.length = j - g.length := by rw [hr.1]
    rw [e] at hc'
    cases hk : j - g.length with
    | zero => rw [hk] at hc' hd'; simp at hc' hd'; subst hc'; subst hd'; exact hcd
    | succ k => rw [hk] at hc'; simp at hc'

/-- the bit interfaces simulate each other -/
structure Sim (I : BitsI β) (J : BitsI γ) (Rel : β → γ → Prop) : Prop where
  runOp : ∀ z, z.WF → ∀ s t, Rel s t → normO (I.runOp z s).1 = (J.runOp z t).1 ∧ Rel (I.runOp z s).2 (J.runOp z t).2
  reset : ∀ s t, Rel s t → Rel (I.reset s) (J.reset t)
  fresh : Rel I.fresh J.fresh
  remaining : ∀ s t, Rel s t → ∃ b b', I.remaining s = .ok b ∧ J.remaining t = .ok b' ∧ Rel b b'
  len : ∀ s t, Rel s t → I.len s = J.len t
  availRead : ∀ s t, Rel s t → I.availRead s = J.availRead t
  availWrite : ∀ s t, Rel s t → I.availWrite s = J.availWrite t

variable {I : BitsI β} {J : BitsI γ} {Rel : β → γ → Prop}

theorem addRefH_sim {h : List (GCell β)} {g : List (GCell γ)} (hr : HeapRel Rel h g) (t child : Nat) :
    (addRefH h t child).1 = (addRefH g t child).1 ∧ HeapRel Rel (addRefH h t child).2 (addRefH g t child).2 := by
  unfold addRefH
  cases hc : h[t]? with
  | none => rw [hr.get_none hc]; exact ⟨rfl, hr⟩
  | some c =>
    obtain ⟨d, hd, hcd⟩ := hr.get hc
    obtain ⟨cb, crefs, ccur⟩ := c
    obtain ⟨db, drefs, dcur⟩ := d
    obtain ⟨hb, hrefs, hcur⟩ := hcd
    simp only at hb hrefs hcur
    subst hrefs; subst hcur
    rw [hd]
    simp only [← hr.1]
    by_cases h1 : child ≥ h.length
    · rw [if_pos h1, if_pos h1]; exact ⟨rfl, hr⟩
    · rw [if_neg h1, if_neg h1]
      by_cases h2 : crefs.length < 4
      · rw [if_pos h2, if_pos h2]
        exact ⟨rfl, hr.set t ⟨hb, rfl, rfl⟩⟩
      · rw [if_neg h2, if_neg h2]; exact ⟨rfl, hr⟩

theorem nextRefH_sim (hs : Sim I J Rel) {h : List (GCell β)} {g : List (GCell γ)} (hr : HeapRel Rel h g) (t : Nat) :
    (nextRefH I h t).1 = (nextRefH J g t).1 ∧ HeapRel Rel (nextRefH I h t).2 (nextRefH J g t).2 := by
  unfold nextRefH
  cases hc : h[t]? with
  | none => rw [hr.get_none hc]; exact ⟨rfl, hr⟩
  | some c =>
    obtain ⟨d, hd, hcd⟩ := hr.get hc
    obtain ⟨cb, crefs, ccur⟩ := c
    obtain ⟨db, drefs, dcur⟩ := d
    obtain ⟨hb, hrefs, hcur⟩ := hcd
    simp only at hb hrefs hcur
    subst hrefs; subst hcur
    rw [hd]
    simp only
    by_cases h1 : ccur > 3
    · rw [if_pos h1, if_pos h1]; exact ⟨rfl, hr⟩
    · rw [if_neg h1, if_neg h1]
      cases hid : crefs[ccur]? with
      | none => simp only; exact ⟨trivial, hr⟩
      | some id =>
        simp only
        have hr1 : HeapRel Rel (h.set t { bits := cb, refs := crefs, refCursor := ccur + 1 })
            (g.set t { bits := db, refs := crefs, refCursor := ccur + 1 }) := hr.set t ⟨hb, rfl, rfl⟩
        refine ⟨trivial, ?_⟩
        cases hch : (h.set t { bits := cb, refs := crefs, refCursor := ccur + 1 })[id]? with
        | none => rw [hr1.get_none hch]; exact hr1
        | some ch =>
          obtain ⟨dh, hdh, hb2, hrefs2, _⟩ := hr1.get hch
          rw [hdh]
          exact hr1.set id ⟨hs.reset _ _ hb2, hrefs2, rfl⟩

theorem copyLoop_sim (hs : Sim I J Rel) (n : Nat) : ∀ {h : List (GCell β)} {g : List (GCell γ)}, HeapRel Rel h g →
    ∀ (t newId : Nat),
    (copyLoop I n h t newId).1 = (copyLoop J n g t newId).1 ∧
    HeapRel Rel (copyLoop I n h t newId).2 (copyLoop J n g t newId).2 := by
  induction n with
  | zero => intro h g hr t newId; exact ⟨rfl, hr⟩
  | succ n ih =>
    intro h g hr t newId
    obtain ⟨e1, hr1⟩ := nextRefH_sim hs hr t
    simp only [copyLoop]
    rcases hn : nextRefH I h t with ⟨r, h1⟩
    rcases hn' : nextRefH J g t with ⟨r', g1⟩
    rw [hn, hn'] at e1 hr1
    simp only at e1 hr1
    subst e1
    cases r with
    | ok id =>
      obtain ⟨e2, hr2⟩ := addRefH_sim hr1 newId id
      simp only
      rcases ha : addRefH h1 newId id with ⟨ra, h2⟩
      rcases ha' : addRefH g1 newId id with ⟨ra', g2⟩
      rw [ha, ha'] at e2 hr2
      simp only at e2 hr2
      subst e2
      cases ra with
      | ok u => simp only; exact ih hr2 t newId
      | err e => exact ⟨rfl, hr2⟩
      | panic p => exact ⟨rfl, hr2⟩
    | err e => exact ⟨rfl, hr1⟩
    | panic p => exact ⟨rfl, hr1⟩

theorem copyRemainingH_sim (hs : Sim I J Rel) {h : List (GCell β)} {g : List (GCell γ)} (hr : HeapRel Rel h g)
    (t : Nat) :
    (copyRemainingH I h t).1 = (copyRemainingH J g t).1 ∧
    HeapRel Rel (copyRemainingH I h t).2 (copyRemainingH J g t).2 := by
  unfold copyRemainingH
  cases hc : h[t]? with
  | none => rw [hr.get_none hc]; exact ⟨rfl, hr⟩
  | some c =>
    obtain ⟨d, hd, hcd⟩ := hr.get hc
    obtain ⟨cb, crefs, ccur⟩ := c
    obtain ⟨db, drefs, dcur⟩ := d
    obtain ⟨hb, hrefs, hcur⟩ := hcd
    simp only at hb hrefs hcur
    subst hrefs; subst hcur
    rw [hd]
    simp only [← hr.1]
    obtain ⟨rb, rb', hrI, hrJ, hrem⟩ := hs.remaining _ _ hb
    rw [hrI, hrJ]
    simp only
    rw [← hs.len _ _ hrem]
    by_cases h1 : I.len rb > cellBits
    · rw [if_pos h1, if_pos h1]; exact ⟨rfl, hr⟩
    · rw [if_neg h1, if_neg h1]
      have hr0 : HeapRel Rel (h ++ [{ bits := rb, refs := [], refCursor := 0 }])
          (g ++ [{ bits := rb', refs := [], refCursor := 0 }]) := hr.append ⟨hrem, rfl, rfl⟩
      obtain ⟨e1, hr1⟩ := copyLoop_sim hs (crefs.length - ccur) hr0 t h.length
      obtain ⟨r, h1', hl⟩ : ∃ r h1', copyLoop I (crefs.length - ccur)
        (h ++ [{ bits := rb, refs := [], refCursor := 0 }]) t h.length = (r, h1') := ⟨_, _, rfl⟩
      obtain ⟨r', g1', hl'⟩ : ∃ r' g1', copyLoop J (crefs.length - ccur)
        (g ++ [{ bits := rb', refs := [], refCursor := 0 }]) t h.length = (r', g1') := ⟨_, _, rfl⟩
      rw [hl, hl'] at e1 hr1
      simp only at e1 hr1
      simp only [hl, hl']
      subst e1
      cases r with
      | ok u =>
        simp only
        cases hc1 : h1'[t]? with
        | none => rw [hr1.get_none hc1]; exact ⟨rfl, hr1⟩
        | some c1 =>
          obtain ⟨d1, hd1, hb1, hrefs1, _⟩ := hr1.get hc1
          rw [hd1]
          exact ⟨rfl, hr1.set t ⟨hb1, hrefs1, rfl⟩⟩
      | err e => exact ⟨rfl, hr1⟩
      | panic p => exact ⟨rfl, hr1⟩

theorem onCell_sim {h : List (GCell β)} {g : List (GCell γ)} (hr : HeapRel Rel h g) (t : Nat)
    (f : GCell β → Outcome Out × GCell β) (f' : GCell γ → Outcome Out × GCell γ)
    (hf : ∀ c d, CellRel Rel c d → normO (f c).1 = (f' d).1 ∧ CellRel Rel (f c).2 (f' d).2) :
    normO (onCell h t f).1 = (onCell g t f').1 ∧ HeapRel Rel (onCell h t f).2 (onCell g t f').2 := by
  unfold onCell
  cases hc : h[t]? with
  | none => rw [hr.get_none hc]; exact ⟨rfl, hr⟩
  | some c =>
    obtain ⟨d, hd, hcd⟩ := hr.get hc
    rw [hd]
    obtain ⟨e, hrel⟩ := hf c d hcd
    exact ⟨e, hr.set t hrel⟩

theorem normO_unit_like (r : Outcome Unit) (o : Out) (ho : o.norm = o) :
    normO (match r with | .ok _ => .ok o | .err e => .err e | .panic p => .panic p)
      = (match r with | .ok _ => .ok o | .err e => .err e | .panic p => .panic p) := by
  cases r <;> simp [normO, ho]

/-- one cell-level operation: same outcome, related heaps -/
theorem step_sim (hs : Sim I J Rel) {h : List (GCell β)} {g : List (GCell γ)} (hr : HeapRel Rel h g) (t : Nat)
    (op : CellOp) (hwf : op.WF) :
    normO (step I h t op).1 = (step J g t op).1 ∧ HeapRel Rel (step I h t op).2 (step J g t op).2 := by
  cases op with
  | bit z =>
    simp only [step]
    apply onCell_sim hr t
    intro c d ⟨hb, hrefs, hcur⟩
    obtain ⟨e, hb'⟩ := hs.runOp z hwf c.bits d.bits hb
    exact ⟨e, hb', hrefs, hcur⟩
  | newCell =>
    simp only [step, hr.1]
    exact ⟨rfl, hr.append ⟨hs.fresh, rfl, rfl⟩⟩
  | addRef child =>
    obtain ⟨e, hr'⟩ := addRefH_sim hr t child
    simp only [step]
    rcases ha : addRefH h t child with ⟨r, h'⟩
    rcases ha' : addRefH g t child with ⟨r', g'⟩
    rw [ha, ha'] at e hr'
    simp only at e hr'
    subst e
    cases r <;> exact ⟨rfl, hr'⟩
  | newRef =>
    simp only [step]
    cases hc : h[t]? with
    | none => rw [hr.get_none hc]; exact ⟨rfl, hr⟩
    | some c =>
      obtain ⟨d, hd, _⟩ := hr.get hc
      rw [hd]
      have hr0 : HeapRel Rel (h ++ [freshCell I]) (g ++ [freshCell J]) := hr.append ⟨hs.fresh, rfl, rfl⟩
      obtain ⟨e, hr'⟩ := addRefH_sim hr0 t h.length
      simp only [← hr.1]
      obtain ⟨r, h', ha⟩ : ∃ r h', addRefH (h ++ [freshCell I]) t h.length = (r, h') := ⟨_, _, rfl⟩
      obtain ⟨r', g', ha'⟩ : ∃ r' g', addRefH (g ++ [freshCell J]) t h.length = (r', g') := ⟨_, _, rfl⟩
      rw [ha, ha'] at e hr'
      simp only at e hr'
      subst e
      simp only [ha, ha']
      cases r <;> exact ⟨rfl, hr'⟩
  | nextRef =>
    obtain ⟨e, hr'⟩ := nextRefH_sim hs hr t
    simp only [step]
    rcases ha : nextRefH I h t with ⟨r, h'⟩
    rcases ha' : nextRefH J g t with ⟨r', g'⟩
    rw [ha, ha'] at e hr'
    simp only at e hr'
    subst e
    cases r <;> exact ⟨rfl, hr'⟩
  | resetCounters =>
    simp only [step]
    apply onCell_sim hr t
    intro c d ⟨hb, hrefs, _⟩
    exact ⟨rfl, hs.reset _ _ hb, hrefs, rfl⟩
  | copyRemaining =>
    obtain ⟨e, hr'⟩ := copyRemainingH_sim hs hr t
    simp only [step]
    rcases ha : copyRemainingH I h t with ⟨r, h'⟩
    rcases ha' : copyRemainingH J g t with ⟨r', g'⟩
    rw [ha, ha'] at e hr'
    simp only at e hr'
    subst e
    cases r <;> exact ⟨rfl, hr'⟩
  | refsSize =>
    simp only [step]
    apply onCell_sim hr t
    intro c d hcd
    have hrefs := hcd.2.1
    exact ⟨by simp only [normO, Out.norm, hrefs], hcd⟩
  | refsAvailableForRead =>
    simp only [step]
    apply onCell_sim hr t
    intro c d hcd
    have hrefs := hcd.2.1
    have hcur := hcd.2.2
    exact ⟨by simp only [normO, Out.norm, hrefs, hcur], hcd⟩
  | bitsAvailableForRead =>
    simp only [step]
    apply onCell_sim hr t
    intro c d hcd
    exact ⟨by simp only [normO, Out.norm, hs.availRead _ _ hcd.1], hcd⟩
  | bitsAvailableForWrite =>
    simp only [step]
    apply onCell_sim hr t
    intro c d hcd
    exact ⟨by simp only [normO, Out.norm, hs.availWrite _ _ hcd.1], hcd⟩

/-- sequences of cell-level operations -/
theorem runAll_sim (hs : Sim I J Rel) (ops : List (Nat × CellOp)) : ∀ {h : List (GCell β)} {g : List (GCell γ)},
    HeapRel Rel h g → (∀ p ∈ ops, p.2.WF) →
    (runAll I ops h).1.map normO = (runAll J ops g).1 ∧ HeapRel Rel (runAll I ops h).2 (runAll J ops g).2 := by
  induction ops with
  | nil => intro h g hr _; exact ⟨rfl, hr⟩
  | cons p rest ih =>
    intro h g hr hwf
    obtain ⟨t, op⟩ := p
    obtain ⟨ho, hr'⟩ := step_sim hs hr t op (hwf (t, op) List.mem_cons_self)
    simp only [runAll]
    rcases hrun : step I h t op with ⟨r, h'⟩
    rcases hspec : step J g t op with ⟨r', g'⟩
    rw [hrun, hspec] at ho hr'
    simp only at ho hr'
    have hrest := ih hr' (fun q hq => hwf q (List.mem_cons_of_mem _ hq))
    cases r with
    | panic p =>
      simp only [normO] at ho; subst ho; exact ⟨rfl, hr'⟩
    | ok o =>
      simp only [normO] at ho; subst ho
      simp only [List.map_cons, normO]
      exact ⟨by rw [hrest.1], hrest.2⟩
    | err e =>
      simp only [normO] at ho; subst ho
      simp only [List.map_cons, normO]
      exact ⟨by rw [hrest.1], hrest.2⟩

/-! ### the concrete instances: byte-level bit string vs ideal bit list -/

theorem sim_impl_spec : Sim implI specI R where
  runOp := fun z hwf s t hR => zop_refines z hwf s t hR
  reset := fun s t hR => by
    obtain ⟨⟨a1, a2, _, a4⟩, hab, hcap, _⟩ := hR
    exact ⟨⟨a1, a2, Nat.zero_le _, a4⟩, hab, hcap, rfl⟩
  fresh := ⟨inv_new _, abs_new _, rfl, rfl⟩
  remaining := fun s t hR => by
    have h8 := hR.1.len_le_buf
    have hc : s.rCursor ≤ s.len := hR.1.2.2.1
    have hlen := hR.len
    obtain ⟨r, hr, ha, hir, hcap, hl, hr0⟩ := readBits_ok (s.len - s.rCursor) s h8 (by omega)
    have hrun : BitString.readRemainingBits s =
        (.ok r, { s with rCursor := s.rCursor + (s.len - s.rCursor) }) := by
      simp only [readRemainingBits, bind_run, get_run, hr]
    refine ⟨r, _, by simp only [implI, hrun], rfl, hir, ?_, ?_, hr0⟩
    · rw [ha, nextBits, hR.2.1, hR.2.2.2, List.take_of_length_le (by rw [List.length_drop, hlen, ← hR.2.2.2])]
    · rw [hcap, hlen, hR.2.2.2]
  len := fun s t hR => hR.len.symm
  availRead := fun s t hR => by
    simp only [implI, specI, BitString.bitsAvailableForRead, hR.len, hR.2.2.2]
  availWrite := fun s t hR => by
    simp only [implI, specI, BitString.bitsAvailableForWrite, hR.len, hR.2.2.1]

theorem init_rel : HeapRel R initImpl initSpec := by
  refine ⟨rfl, ?_⟩
  intro i c d hc hd
  cases i with
  | zero =>
    simp only [initImpl, initSpec, List.getElem?_cons_zero, Option.some.injEq] at hc hd
    subst hc; subst hd
    exact ⟨sim_impl_spec.fresh, rfl, rfl⟩
  | succ k => simp [initImpl] at hc

end Tongo.CellSeq
