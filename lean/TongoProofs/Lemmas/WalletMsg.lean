import TongoModel.WalletMsg
import TongoProofs.Lemmas.NoPanic
import TongoProofs.Lemmas.CellRead
import TongoProofs.Lemmas.Wallet
/-! Helper lemmas for C14: the builders return the written-out layouts, the signature is split off where it was put,
the envelope and the bodies decode back. -/
namespace Tongo.Wallet
open Tongo Tongo.Bits

/-! ### builders -/

@[simp] theorem modeBits_length (msgs : List RawMsg) : (modeBits msgs).length = 8 * msgs.length := by
  induction msgs with
  | nil => rfl
  | cons m ms ih => simp [modeBits] at ih ⊢; omega

@[simp] theorem msgCells_length (msgs : List RawMsg) : (msgCells msgs).length = msgs.length := by simp [msgCells]

theorem modeBits_cons (m : RawMsg) (ms : List RawMsg) : modeBits (m :: ms) = natToBits 8 m.mode ++ modeBits ms := by
  simp [modeBits]

theorem msgCells_cons (m : RawMsg) (ms : List RawMsg) : msgCells (m :: ms) = m.msg :: msgCells ms := rfl

theorem payloadStep_ok (b : CellB) (m : RawMsg) (hb : b.bits.length + 8 ≤ 1023) (hr : b.refs.length < 4) :
    payloadStep b m = .ok { bits := b.bits ++ natToBits 8 m.mode, refs := b.refs ++ [m.msg] } := by
  unfold payloadStep
  rw [CellB.writeUint_ok b m.mode 8 hb]
  simp only [Outcome.bind]
  rw [CellB.addRef_ok _ m.msg (by simpa using hr)]

/-- the loop of `PayloadV1toV4.MarshalTLB` -/
theorem payload_foldl_ok (msgs : List RawMsg) : ∀ (b : CellB), b.bits.length + 8 * msgs.length ≤ 1023 →
    b.refs.length + msgs.length ≤ 4 →
    msgs.foldlM payloadStep b = .ok { bits := b.bits ++ modeBits msgs, refs := b.refs ++ msgCells msgs } := by
  induction msgs with
  | nil => intro b _ _; simp [modeBits, msgCells, pure]
  | cons m ms ih =>
    intro b hb hr
    simp only [List.length_cons] at hb hr
    rw [List.foldlM_cons, payloadStep_ok b m (by omega) (by omega)]
    simp only [bind, Outcome.bind]
    rw [ih _ (by simp; omega) (by simp; omega)]
    simp [modeBits_cons, msgCells_cons]

theorem payloadV1toV4_ok (b : CellB) (msgs : List RawMsg) (hn : msgs.length ≤ 4) (hb : b.bits.length + 8 * msgs.length ≤ 1023)
    (hr : b.refs.length + msgs.length ≤ 4) :
    payloadV1toV4 b msgs = .ok { bits := b.bits ++ modeBits msgs, refs := b.refs ++ msgCells msgs } := by
  unfold payloadV1toV4
  rw [if_neg (by omega)]
  exact payload_foldl_ok msgs b hb hr

theorem payloadV1toV4_too_many (b : CellB) (msgs : List RawMsg) (hn : msgs.length > 4) :
    ∃ e, payloadV1toV4 b msgs = .err e := by
  unfold payloadV1toV4
  rw [if_pos hn]
  exact ⟨_, rfl⟩

theorem w5Actions_ok (msgs : List RawMsg) : w5Actions msgs = .ok (actionsCell msgs) := by
  induction msgs with
  | nil => rfl
  | cons m ms ih =>
    unfold w5Actions actionsCell
    rw [ih]
    simp [bind, Outcome.bind, pure, CellB.writeUint, CellB.write, CellB.addRef, CellB.empty, CellB.toCell]

/-- v3, v4, v5r1, v5 beta: within the limit of the version the signed cell is the written-out layout -/
theorem signedCell_ok (v : Version) (ids : BodyIds) (op seqno vu rnd : Nat) (msgs : List RawMsg)
    (hf : v.family = .v3 ∨ v.family = .v4 ∨ v.family = .v5r1 ∨ v.family = .v5beta)
    (hn : (v.family = .v3 ∨ v.family = .v4) → msgs.length ≤ 4) :
    signedCell v ids op seqno vu rnd msgs = .ok (signedLayout v ids op seqno vu msgs) := by
  unfold signedCell signedLayout
  rcases hf with h | h | h | h <;> simp only [h]
  · have hn' := hn (Or.inl h)
    simp only [bind, Outcome.bind, pure]
    rw [CellB.writeUint_ok _ _ _ (by simp [CellB.empty])]; simp only []
    rw [CellB.writeUint_ok _ _ _ (by simp [CellB.empty])]; simp only []
    rw [CellB.writeUint_ok _ _ _ (by simp [CellB.empty])]; simp only []
    rw [payloadV1toV4_ok _ _ hn' (by simp [CellB.empty]; omega) (by simp [CellB.empty]; omega)]
    simp [CellB.toCell, CellB.empty]
  · have hn' := hn (Or.inr h)
    simp only [bind, Outcome.bind, pure]
    rw [CellB.writeUint_ok _ _ _ (by simp [CellB.empty])]; simp only []
    rw [CellB.writeUint_ok _ _ _ (by simp [CellB.empty])]; simp only []
    rw [CellB.writeUint_ok _ _ _ (by simp [CellB.empty])]; simp only []
    rw [CellB.writeUint_ok _ _ _ (by simp [CellB.empty])]; simp only []
    rw [payloadV1toV4_ok _ _ hn' (by simp [CellB.empty]; omega) (by simp [CellB.empty]; omega)]
    simp [CellB.toCell, CellB.empty]
  · simp [bind, Outcome.bind, pure, w5Actions_ok, CellB.writeUint, CellB.write, CellB.addRef, CellB.empty, CellB.toCell]
  · simp [bind, Outcome.bind, pure, w5Actions_ok, CellB.writeUint, CellB.write, CellB.addRef, CellB.empty, CellB.toCell]

/-- bit and ref counts of the layouts -/
theorem signedLayout_size (v : Version) (ids : BodyIds) (op seqno vu : Nat) (msgs : List RawMsg)
    (hn : (v.family = .v3 ∨ v.family = .v4) → msgs.length ≤ 4) :
    (signedLayout v ids op seqno vu msgs).bits.length + 512 ≤ 1023 ∧ (signedLayout v ids op seqno vu msgs).refs.length ≤ 4
    ∧ (signedLayout v ids op seqno vu msgs).ty = 0 ∧ (signedLayout v ids op seqno vu msgs).mask = 0 := by
  unfold signedLayout
  cases h : v.family <;> simp only [Cell.ordinary, Cell.bits, Cell.refs, Cell.ty, Cell.mask] <;> simp
  · have := hn (Or.inl h); omega
  · have := hn (Or.inr h); omega

/-- `tlb.Any`: the refs are added one by one -/
theorem addRefs_foldl_ok (refs : List Cell) : ∀ (b : CellB), b.refs.length + refs.length ≤ 4 →
    refs.foldlM (fun acc r => acc.addRef r) b = .ok { bits := b.bits, refs := b.refs ++ refs } := by
  induction refs with
  | nil => intro b _; simp [pure]
  | cons r rs ih =>
    intro b h
    simp only [List.length_cons] at h
    simp only [List.foldlM_cons, bind, Outcome.bind]
    rw [CellB.addRef_ok _ _ (by omega)]
    simp only []
    rw [ih _ (by simp; omega)]
    simp

theorem writeAny_ok (b : CellB) (c : Cell) (hb : b.bits.length + c.bits.length ≤ 1023) (hr : b.refs.length + c.refs.length ≤ 4) :
    b.writeAny c = .ok { bits := b.bits ++ c.bits, refs := b.refs ++ c.refs } := by
  unfold CellB.writeAny
  rw [CellB.write_ok _ _ hb]
  simp only [bind, Outcome.bind]
  exact addRefs_foldl_ok c.refs _ (by simpa using hr)

/-- where the signature ends up -/
def sigFirst (v : Version) : Bool := match v.family with | .v5r1 | .v5beta => false | _ => true

theorem attachSignature_ok (v : Version) (sig : List UInt8) (hs : sig.length = 64) (c : Cell)
    (hb : c.bits.length + 512 ≤ 1023) (hr : c.refs.length ≤ 4) :
    attachSignature v sig c =
      .ok (if sigFirst v then .ordinary (bytesToBits sig ++ c.bits) c.refs else .ordinary (c.bits ++ bytesToBits sig) c.refs) := by
  unfold attachSignature sigFirst
  cases h : v.family <;> simp only []
  all_goals first
    | (simp only [bind, Outcome.bind, pure, CellB.writeBytes]
       rw [CellB.write_ok _ _ (by simp [CellB.empty, hs])]
       simp only []
       rw [writeAny_ok _ _ (by simp [CellB.empty, hs]; omega) (by simp [CellB.empty]; omega)]
       simp [CellB.toCell, CellB.empty])
    | (simp only [bind, Outcome.bind, pure, CellB.writeBytes]
       rw [CellB.write_ok _ _ (by simp [hs]; omega)]
       simp [CellB.toCell])

end Tongo.Wallet

namespace Tongo.Wallet
open Tongo Tongo.Bits

/-! ### the verifier's view -/

theorem Cell.eq_ordinary_of (c : Cell) (hty : c.ty = 0) (hmask : c.mask = 0) : c = Cell.ordinary c.bits c.refs := by
  cases c
  simp only [Cell.ty, Cell.mask] at hty hmask
  simp [Cell.ordinary, Cell.bits, Cell.refs, hty, hmask]

/-- the verifier of the version, applied to a body with the signature attached where the version puts it, recovers
exactly the signed cell's hash as the digest, and the signature -/
theorem splitSignature_attached (H : List UInt8 → List UInt8) (first : Bool) (sig : List UInt8) (hs : sig.length = 64) (c : Cell)
    (hty : c.ty = 0) (hmask : c.mask = 0) (hdep : c.depthO ≤ maxDepth) :
    splitSignature H (!first)
        (if first then Cell.ordinary (bytesToBits sig ++ c.bits) c.refs else Cell.ordinary (c.bits ++ bytesToBits sig) c.refs)
      = .ok (c.hashO H, sig) := by
  obtain ⟨ty, mask, bits, refs⟩ := c
  simp only [Cell.ty, Cell.mask] at hty hmask
  subst hty hmask
  have hl : (bytesToBits sig).length = 512 := by simp [hs]
  cases first
  · -- signature last
    simp only [Bool.not_false, Bool.false_eq_true, ↓reduceIte, splitSignature, Cell.ordinary, Cell.bits, Cell.refs,
      List.length_append, hl]
    rw [if_neg (by omega)]
    have e1 : bits.length + 512 - 512 = bits.length := by omega
    rw [e1, List.take_left', List.drop_left']
    · simp [Cell.hashO?, hdep, bind, Outcome.bind, pure, bitsToBytes_bytesToBits_co]
    · rfl
    · rfl
  · -- signature first
    simp only [Bool.not_true, Bool.false_eq_true, ↓reduceIte, splitSignature, Cell.ordinary, Cell.bits, Cell.refs, Cell.ty,
      List.length_append, hl, tyLibrary]
    rw [if_neg (by decide), if_neg (by omega)]
    have hd : List.drop 512 (bytesToBits sig ++ bits) = bits := by rw [← hl, List.drop_left]
    have ht : List.take 512 (bytesToBits sig ++ bits) = bytesToBits sig := by rw [← hl, List.take_left]
    rw [hd, ht]
    simp [Cell.hashO?, hdep, bind, Outcome.bind, pure, bitsToBytes_bytesToBits_co]

/-! ### the envelope -/

theorem extMessage_ok (dest : Address) (hh : dest.hash.length = 32) (body : Cell) (init : Option Cell) :
    extMessage dest body init = .ok (envelope dest body init) := by
  have ht : dest.hash.take 32 ++ List.replicate (32 - dest.hash.length) 0 = dest.hash := by
    rw [hh, List.take_of_length_le (by omega)]; simp
  unfold extMessage envelope
  rw [ht]
  cases init with
  | none =>
    simp [bind, Outcome.bind, pure, CellB.write, CellB.writeBytes, CellB.writeUint, CellB.addRef, CellB.empty, CellB.toCell,
      writeInit, intToBits, hh]
  | some si =>
    simp [bind, Outcome.bind, pure, CellB.write, CellB.writeBytes, CellB.writeUint, CellB.addRef, CellB.empty, CellB.toCell,
      writeInit, intToBits, hh]

end Tongo.Wallet

namespace Tongo.Wallet
open Tongo Tongo.Bits

theorem readUint2_cons (a b : Bool) (rest : List Bool) (refs : List Cell) :
    CellR.readUint { bits := a :: b :: rest, refs := refs } 2 = .ok (2 * a.toNat + b.toNat, { bits := rest, refs := refs }) := by
  simp [CellR.readUint, CellR.readBits, bind, Outcome.bind, pure, bitsToNat]

theorem skipStateInit_stateInitCell (code data : Cell) :
    skipStateInit (CellR.ofCell (stateInitCell code data)) = .ok { bits := [], refs := [] } := by
  simp [skipStateInit, stateInitCell, Cell.ordinary, CellR.ofCell, Cell.bits, Cell.refs, CellR.readBit, CellR.skipIf,
    CellR.skipRefIf, CellR.nextRef, bind, Outcome.bind, pure]

/-- decoding the envelope gives back the body (as an ordinary copy) and whether an init was attached -/
theorem decodeExtMessage_envelope (dest : Address) (hh : dest.hash.length = 32) (body : Cell) (init : Option Cell)
    (hinit : ∀ si, init = some si → si.ty ≠ tyLibrary ∧ ∃ r, skipStateInit (CellR.ofCell si) = .ok r)
    (hdep : (envelope dest body init).depthO ≤ maxDepth) :
    decodeExtMessage (envelope dest body init) =
      .ok { dest := some (bitsToInt (intToBits 8 (toI8 dest.workchain)), bytesToBits dest.hash), hasInit := init.isSome,
            body := .ordinary body.bits body.refs } := by
  obtain ⟨bty, bmask, bbits, brefs⟩ := body
  unfold decodeExtMessage
  rw [if_neg (by simp [envelope, Cell.ordinary, Cell.ty, tyLibrary]), if_neg (by omega)]
  have hw : (intToBits 8 (toI8 dest.workchain)).length = 8 := by simp [intToBits]
  have ha : (bytesToBits dest.hash).length = 256 := by simp [hh]
  cases init with
  | none =>
    simp only [envelope, Cell.ordinary, Cell.bits, Cell.refs, List.cons_append, List.nil_append, Option.isSome_none,
      Bool.false_eq_true, ↓reduceIte, Option.toList_none, List.append_assoc]
    unfold decodeExtIn
    simp only [readMsgAddress, readUint2_cons, bind, Outcome.bind, pure, Bool.toNat_false, Bool.toNat_true,
      Nat.mul_zero, Nat.add_zero, Nat.mul_one, Nat.zero_add, ↓reduceIte, skipMaybeAnycast, CellR.readBit_cons,
      Bool.not_false, Bool.not_true]
    rw [if_neg (by decide), if_neg (by decide), CellR.readBits_append _ _ _ 8 hw]
    simp only []
    rw [CellR.readBits_append _ _ _ 256 ha]
    simp only []
    rw [CellR.readUint_append 4 0 _ _ (by decide)]
    simp [CellR.readBits, skipInitIf, readBody, CellR.readBit, CellR.nextRef, Cell.ty, tyLibrary, Cell.bits, Cell.refs,
      Outcome.bind, pure, bind, Cell.ordinary]
  | some si =>
    obtain ⟨hlib, r', hr'⟩ := hinit si rfl
    obtain ⟨sty, smask, sbits, srefs⟩ := si
    simp only [Cell.ty, tyLibrary] at hlib
    simp only [envelope, Cell.ordinary, Cell.bits, Cell.refs, List.cons_append, List.nil_append, Option.isSome_some,
      ↓reduceIte, Option.toList_some, List.append_assoc]
    unfold decodeExtIn
    simp only [readMsgAddress, readUint2_cons, bind, Outcome.bind, pure, Bool.toNat_false, Bool.toNat_true,
      Nat.mul_zero, Nat.add_zero, Nat.mul_one, Nat.zero_add, ↓reduceIte, skipMaybeAnycast, CellR.readBit_cons,
      Bool.not_false, Bool.not_true]
    rw [if_neg (by decide), if_neg (by decide), CellR.readBits_append _ _ _ 8 hw]
    simp only []
    rw [CellR.readBits_append _ _ _ 256 ha]
    simp only []
    rw [CellR.readUint_append 4 0 _ _ (by decide)]
    simp [CellR.readBits, skipInitIf, skipInit, readBody, CellR.readBit, CellR.nextRef, Cell.ty, tyLibrary, Cell.bits, Cell.refs,
      Outcome.bind, pure, bind, hlib, hr', Cell.ordinary]

end Tongo.Wallet

namespace Tongo.Wallet
open Tongo Tongo.Bits

/-! ### the decoders on what was built -/

theorem readPayload_ok (msgs : List RawMsg) : ∀ (fuel : Nat), msgs.length < fuel → (∀ m ∈ msgs, m.mode < 256) →
    readPayloadV1toV4 fuel { bits := modeBits msgs, refs := msgCells msgs } = .ok msgs := by
  induction msgs with
  | nil => intro fuel hf _; cases fuel <;> simp [readPayloadV1toV4, msgCells]
  | cons m ms ih =>
    intro fuel hf hm
    cases fuel with
    | zero => simp at hf
    | succ fuel =>
      simp only [List.length_cons] at hf
      unfold readPayloadV1toV4
      simp only [msgCells_cons, modeBits_cons]
      rw [CellR.readUint_append 8 m.mode _ _ (hm m (by simp))]
      simp only [bind, Outcome.bind, pure]
      rw [ih fuel (by omega) (fun x hx => hm x (by simp [hx]))]

theorem depthO_actionsCell (msgs : List RawMsg) : msgs.length ≤ (actionsCell msgs).depthO := by
  induction msgs with
  | nil => simp
  | cons m ms ih =>
    simp only [actionsCell, Cell.ordinary, Cell.depthO, Cell.maxDepthO, List.length_cons, List.isEmpty_cons,
      Bool.false_eq_true, ↓reduceIte]
    omega

theorem readW5Actions_ok (msgs : List RawMsg) : ∀ (fuel : Nat), msgs.length < fuel → (∀ m ∈ msgs, m.mode < 256) →
    (∀ m ∈ msgs, m.msg.ty ≠ tyLibrary ∧ m.msg.ty ≠ tyPruned) →
    readW5Actions fuel (actionsCell msgs) = .ok (msgs.map fun m => (m.mode, some m.msg)) := by
  induction msgs with
  | nil => intro fuel hf _ _; cases fuel <;> simp [readW5Actions, actionsCell, Cell.ordinary, Cell.bits] at hf ⊢
  | cons m ms ih =>
    intro fuel hf hm ht
    cases fuel with
    | zero => simp at hf
    | succ fuel =>
      simp only [List.length_cons] at hf
      have hmt := ht m (by simp)
      unfold readW5Actions actionsCell
      simp only [Cell.ordinary, Cell.bits, List.length_append, natToBits_length, Nat.reduceAdd]
      rw [if_neg (by decide), if_pos trivial]
      simp only [CellR.ofCell, Cell.bits, Cell.refs, CellR.nextRef_cons, bind, Outcome.bind, pure]
      rw [CellR.readUint_append 32 actionSendMsgTag _ _ (by decide)]
      simp only [ne_eq, not_true_eq_false, ↓reduceIte]
      have := CellR.readUint_append 8 m.mode [] [m.msg] (hm m (by simp))
      rw [List.append_nil] at this
      rw [this]
      simp only [readMsgRef, CellR.nextRef_cons, bind, Outcome.bind, pure, hmt.1, hmt.2, ↓reduceIte]
      rw [ih fuel (by omega) (fun x hx => hm x (by simp [hx])) (fun x hx => ht x (by simp [hx]))]
      simp

theorem actionsToMsgs_map (msgs : List RawMsg) : actionsToMsgs (msgs.map fun m => (m.mode, some m.msg)) = msgs := by
  induction msgs with
  | nil => rfl
  | cons m ms ih => simp [actionsToMsgs] at ih ⊢; exact ih

theorem readActionsRef_ok (msgs : List RawMsg) (bits : List Bool) (rest : List Cell) (hm : ∀ m ∈ msgs, m.mode < 256)
    (ht : ∀ m ∈ msgs, m.msg.ty ≠ tyLibrary ∧ m.msg.ty ≠ tyPruned) :
    readActionsRef { bits := bits, refs := actionsCell msgs :: rest } =
      .ok (msgs.map fun m => (m.mode, some m.msg), { bits := bits, refs := rest }) := by
  have hty : (actionsCell msgs).ty = 0 := by cases msgs <;> rfl
  unfold readActionsRef
  simp only [CellR.nextRef_cons, bind, Outcome.bind, pure, hty, tyLibrary, tyPruned]
  rw [if_neg (by decide), if_neg (by decide), readW5Actions_ok msgs _ (by have := depthO_actionsCell msgs; omega) hm ht]

end Tongo.Wallet

namespace Tongo.Wallet
open Tongo Tongo.Bits

/-- the body with the signature where the version puts it -/
def attached (v : Version) (sig : List UInt8) (c : Cell) : Cell :=
  if sigFirst v then Cell.ordinary (bytesToBits sig ++ c.bits) c.refs else Cell.ordinary (c.bits ++ bytesToBits sig) c.refs

@[simp] theorem Cell.bits_ordinary (b : List Bool) (r : List Cell) : (Cell.ordinary b r).bits = b := rfl
@[simp] theorem Cell.refs_ordinary (b : List Bool) (r : List Cell) : (Cell.ordinary b r).refs = r := rfl

theorem attached_size (v : Version) (sig : List UInt8) (c : Cell) :
    (attached v sig c).bits.length = c.bits.length + 8 * sig.length ∧ (attached v sig c).refs = c.refs := by
  unfold attached
  split <;> simp only [Cell.bits_ordinary, Cell.refs_ordinary, List.length_append, bytesToBits_length_co, and_true] <;> omega

theorem decodeBody_attached (v : Version) (hf : v.family = .v3 ∨ v.family = .v4 ∨ v.family = .v5r1 ∨ v.family = .v5beta)
    (ids : BodyIds) (hids : ids.WF) (op seqno vu : Nat) (hop : op = opSignedExternal ∨ op = opSignedInternal)
    (hseq : seqno < 4294967296) (hvu : vu < 4294967296) (msgs : List RawMsg)
    (hn : (v.family = .v3 ∨ v.family = .v4) → msgs.length ≤ 4) (hm : ∀ m ∈ msgs, m.mode < 256)
    (ht : (v.family = .v5r1 ∨ v.family = .v5beta) → ∀ m ∈ msgs, m.msg.ty ≠ tyLibrary ∧ m.msg.ty ≠ tyPruned)
    (sig : List UInt8) (hs : sig.length = 64) :
    decodeBody v (attached v sig (signedLayout v ids op seqno vu msgs)) =
      .ok { ids := ids.restrict v, seqno := seqno, validUntil := vu, msgs := msgs } := by
  obtain ⟨h1, h2, h3, h4⟩ := hids
  have hl : (bytesToBits sig).length = 512 := by simp [hs]
  have hop32 : op < 2 ^ 32 := by rcases hop with h | h <;> subst h <;> decide
  have hopx : op ≠ opExtension := by rcases hop with h | h <;> subst h <;> decide
  have hops : ¬ (op ≠ opSignedInternal ∧ op ≠ opSignedExternal) := by rcases hop with h | h <;> subst h <;> decide
  unfold decodeBody attached sigFirst signedLayout BodyIds.restrict
  rcases hf with h | h | h | h <;>
    simp only [h, Bool.false_eq_true, ↓reduceIte, Cell.ordinary, Cell.ty, Cell.bits, Cell.refs, CellR.ofCell, tyLibrary]
  · -- v3
    rw [if_neg (by decide)]
    simp only [List.append_assoc, bind, Outcome.bind, pure]
    rw [CellR.readBits_append _ _ _ 512 hl]; simp only []
    rw [CellR.readUint_append 32 _ _ _ h1]; simp only []
    rw [CellR.readUint_append 32 _ _ _ hvu]; simp only []
    rw [CellR.readUint_append 32 _ _ _ hseq]; simp only []
    rw [readPayload_ok msgs 5 (by have := hn (Or.inl h); omega) hm]
  · -- v4
    rw [if_neg (by decide)]
    simp only [List.append_assoc, bind, Outcome.bind, pure]
    rw [CellR.readBits_append _ _ _ 512 hl]; simp only []
    rw [CellR.readUint_append 32 _ _ _ h1]; simp only []
    rw [CellR.readUint_append 32 _ _ _ hvu]; simp only []
    rw [CellR.readUint_append 32 _ _ _ hseq]; simp only []
    rw [CellR.readBits_append _ _ _ 8 (natToBits_length 8 0)]; simp only []
    rw [readPayload_ok msgs 5 (by have := hn (Or.inr h); omega) hm]
  · -- v5r1
    rw [if_neg (by decide), if_neg (by simp)]
    simp only [List.append_assoc, bind, Outcome.bind, pure, List.cons_append, List.nil_append]
    rw [CellR.readUint_append 32 _ _ _ hop32]; simp only []
    rw [if_neg hopx, if_neg hops]
    rw [CellR.readUint_append 32 _ _ _ h2]; simp only []
    rw [CellR.readUint_append 32 _ _ _ hvu]; simp only []
    rw [CellR.readUint_append 32 _ _ _ hseq]; simp only [CellR.readBit_cons, readActionsRefIf, ↓reduceIte]
    rw [readActionsRef_ok msgs _ _ hm (ht (Or.inl h))]
    simp only [CellR.readBit_cons, Bool.false_eq_true, ↓reduceIte]
    rw [CellR.readBits_exact _ _ 512 hl]
    simp [actionsToMsgs_map]
  · -- v5beta
    rw [if_neg (by decide), if_neg (by simp)]
    simp only [List.append_assoc, bind, Outcome.bind, pure, List.cons_append, List.nil_append]
    rw [CellR.readUint_append 32 _ _ _ hop32]; simp only []
    rw [if_neg hops]
    rw [CellR.readUint_append 32 _ _ _ h3]; simp only []
    rw [CellR.readUint_append 8 _ _ _ h4]; simp only []
    rw [CellR.readUint_append 8 0 _ _ (by decide)]; simp only []
    rw [CellR.readUint_append 32 _ _ _ h1]; simp only []
    rw [CellR.readUint_append 32 _ _ _ hvu]; simp only []
    rw [CellR.readUint_append 32 _ _ _ hseq]; simp only [CellR.readBit_cons]
    rw [CellR.readBits_exact _ _ 512 hl]; simp only []
    rw [readActionsRef_ok msgs _ _ hm (ht (Or.inr h))]
    simp [actionsToMsgs_map]

end Tongo.Wallet

namespace Tongo.Wallet
open Tongo Tongo.Bits

theorem attached_ordinary (v : Version) (sig : List UInt8) (c : Cell) :
    Cell.ordinary (attached v sig c).bits (attached v sig c).refs = attached v sig c := by
  unfold attached; split <;> rfl

theorem verifierOf_sigFirst (v : Version) (hv : v.family ≠ .v1v2) : verifierOf v = some (!sigFirst v) := by
  unfold verifierOf sigFirst
  cases h : v.family <;> simp_all

/-- a state-init argument of the envelope that the decoder accepts: none, or a wallet state-init -/
theorem envelope_init_ok (code data : Cell) (withInit : Bool) :
    ∀ si, (if withInit then some (stateInitCell code data) else none) = some si →
      si.ty ≠ tyLibrary ∧ ∃ r, skipStateInit (CellR.ofCell si) = .ok r := by
  intro si hsi
  cases withInit with
  | false => simp at hsi
  | true =>
    simp only [↓reduceIte, Option.some.injEq] at hsi
    subst hsi
    exact ⟨by simp [stateInitCell, Cell.ordinary, Cell.ty, tyLibrary], _, skipStateInit_stateInitCell code data⟩

/-- the verifier of the version accepts, under the signer's public key, the envelope around any ordinary cell signed
and attached the way the version does it -/
theorem verifySignature_attached (H : List UInt8 → List UInt8) (sign : List UInt8 → List UInt8 → List UInt8)
    (verify : List UInt8 → List UInt8 → List UInt8 → Bool) (pub : List UInt8 → List UInt8)
    (hsc : ∀ sk m, verify (pub sk) m (sign sk m) = true) (hsl : ∀ sk m, (sign sk m).length = 64)
    (sk : List UInt8) (hpk : (pub sk).length = 32) (v : Version) (hv : v.family ≠ .v1v2)
    (c : Cell) (hty : c.ty = 0) (hmask : c.mask = 0) (hdc : c.depthO ≤ maxDepth)
    (self : Address) (hh : self.hash.length = 32) (code data : Cell) (withInit : Bool)
    (hdep : (envelope self (attached v (sign sk (c.hashO H)) c) (if withInit then some (stateInitCell code data) else none)).depthO ≤ maxDepth) :
    verifySignature H verify v
      (envelope self (attached v (sign sk (c.hashO H)) c) (if withInit then some (stateInitCell code data) else none)) (pub sk) = .ok true := by
  have hdec := decodeExtMessage_envelope self hh (attached v (sign sk (c.hashO H)) c)
    (if withInit then some (stateInitCell code data) else none) (envelope_init_ok code data withInit) hdep
  unfold verifySignature
  rw [verifierOf_sigFirst v hv, hdec]
  simp only [bind, Outcome.bind, attached_ordinary]
  unfold attached
  rw [splitSignature_attached H (sigFirst v) _ (hsl _ _) c hty hmask hdc]
  simp [edVerify, hpk, hsc sk]

end Tongo.Wallet

namespace Tongo.Wallet
open Tongo Tongo.Bits

/-- what `VerifySignature` computes on the envelope around ANY ordinary cell `c` with ANY 64-byte string attached where
the version puts its signature, for ANY 32-byte key: the scheme's verdict on (key, hash of `c`, that string) -/
theorem verifySignature_envelope (H : List UInt8 → List UInt8) (verify : List UInt8 → List UInt8 → List UInt8 → Bool)
    (v : Version) (hv : v.family ≠ .v1v2) (sig : List UInt8) (hs : sig.length = 64)
    (c : Cell) (hty : c.ty = 0) (hmask : c.mask = 0) (hdc : c.depthO ≤ maxDepth)
    (self : Address) (hh : self.hash.length = 32) (code data : Cell) (withInit : Bool)
    (hdep : (envelope self (attached v sig c) (if withInit then some (stateInitCell code data) else none)).depthO ≤ maxDepth)
    (pk : List UInt8) (hpk : pk.length = 32) :
    verifySignature H verify v
      (envelope self (attached v sig c) (if withInit then some (stateInitCell code data) else none)) pk
        = .ok (verify pk (c.hashO H) sig) := by
  have hdec := decodeExtMessage_envelope self hh (attached v sig c)
    (if withInit then some (stateInitCell code data) else none) (envelope_init_ok code data withInit) hdep
  unfold verifySignature
  rw [verifierOf_sigFirst v hv, hdec]
  simp only [bind, Outcome.bind, attached_ordinary]
  unfold attached
  rw [splitSignature_attached H (sigFirst v) _ hs c hty hmask hdc]
  simp [edVerify, hpk]

/-- every ordinary body cell with at least 512 bits is some 64-byte string attached to some ordinary cell -/
theorem body_is_attached (v : Version) (b : Cell) (hty : b.ty = 0) (hmask : b.mask = 0) (hl : 512 ≤ b.bits.length) :
    ∃ sig c, sig.length = 64 ∧ c.ty = 0 ∧ c.mask = 0 ∧ c.refs = b.refs ∧ b = attached v sig c := by
  obtain ⟨ty, mask, bits, refs⟩ := b
  simp only [Cell.ty, Cell.mask, Cell.bits] at hty hmask hl
  subst hty hmask
  have hpad : ∀ l : List Bool, l.length = 512 → bytesToBits (bitsToBytes l) = l := by
    intro l h
    rw [bytesToBits_bitsToBytes_pad, h]; simp [padLen]
  have hlen : ∀ l : List Bool, l.length = 512 → (bitsToBytes l).length = 64 := by
    intro l h; rw [bitsToBytes_length, h]
  unfold attached
  by_cases hf : sigFirst v = true
  · refine ⟨bitsToBytes (bits.take 512), Cell.ordinary (bits.drop 512) refs, hlen _ (by simp; omega), rfl, rfl, rfl, ?_⟩
    rw [if_pos hf, hpad _ (by simp; omega)]
    simp [Cell.ordinary, Cell.bits, Cell.refs]
  · have h512 : (List.drop (bits.length - 512) bits).length = 512 := by rw [List.length_drop]; omega
    refine ⟨bitsToBytes (bits.drop (bits.length - 512)), Cell.ordinary (bits.take (bits.length - 512)) refs,
      hlen _ h512, by simp [Cell.ordinary, Cell.ty], by simp [Cell.ordinary, Cell.mask], by simp [Cell.ordinary, Cell.refs], ?_⟩
    rw [if_neg hf, hpad _ h512]
    simp [Cell.ordinary, Cell.bits, Cell.refs]

end Tongo.Wallet
