import TongoModel.TlbRead
import TongoProofs.Lemmas.BitsBridge
import TongoProofs.Lemmas.BitStringZOps
/-! BRIDGE part 2: the cell-reading primitives of C08 (`Tlb.Rd`, TongoModel/TlbRead.lean) versus `ZOp.spec` (Go `int`
arguments as integers). They agree for non-negative arguments; for NEGATIVE widths the current `TlbRead` definitions say
`panic` while the repaired Go code (fix a01571b / 31abce9) and `ZOp.spec` return an error — recorded below as
`rd_negative_differs`, with the full statements the owner (agent total) should be able to prove after the update. -/
namespace Tongo.Bridge
open Tongo Tongo.Bits Tongo.BitString

/-- a C08 reader and an ideal state describe the same unread data -/
def RdRel (r : Tlb.Rd) (t : Ideal) : Prop := unread t = r.bits ∧ t.pos ≤ t.bits.length

def RdAgree {α : Type} (g : α → Out) (r : Tlb.Rd) (res : Outcome (α × Tlb.Rd)) (q : Outcome Out × Ideal) : Prop :=
  match res, q with
  | .ok (v, r'), (.ok o, t') => o = g v ∧ RdRel r' t' ∧ r' = { r with bits := r'.bits }
  | .err e, (.err e', _) => e = e'
  | _, _ => False

/-- `Tlb.readBit` = `Op.readBit` -/
theorem rd_readBit (r : Tlb.Rd) (t : Ideal) (h : RdRel r t) : RdAgree Out.bool r (Tlb.readBit r) ((Op.readBit).spec t) := by
  obtain ⟨hu, hp⟩ := h
  simp only [Op.spec]
  rw [read_unread 1 _ t hp, hu]
  unfold Tlb.readBit
  cases hb : r.bits with
  | nil => simp [RdAgree]; rfl
  | cons x rest =>
    have hlen : r.bits.length = t.bits.length - t.pos := by rw [← hu, unread_length]
    simp only [List.length_cons, show ¬ (rest.length + 1 < 1) by omega, if_false, RdAgree, List.take_succ_cons,
      List.take_zero, List.headD_cons]
    refine ⟨trivial, ⟨?_, by rw [hb] at hlen; simp at hlen; simp only; omega⟩, by first | rfl | trivial⟩
    rw [unread_advance, hu, hb]; rfl

/-- `Tlb.readUint n` = `ZOp.readUint n` for `n ≥ 0` -/
theorem rd_readUint (r : Tlb.Rd) (t : Ideal) (h : RdRel r t) (n : Int) (hn : 0 ≤ n) :
    RdAgree Out.nat r (Tlb.readUint n r) ((ZOp.readUint n).spec t) := by
  obtain ⟨hu, hp⟩ := h
  have hlen : r.bits.length = t.bits.length - t.pos := by rw [← hu, unread_length]
  have hneg : ¬ n < 0 := by omega
  have e : (ZOp.readUint n).spec = (Op.readUint n.toNat).spec := by simp only [ZOp.spec, hneg, if_false] <;> rfl
  rw [e]
  -- the same normal form for both shapes of `Tlb.readUint` (negative test last / first)
  have key : Tlb.readUint n r =
      if n > 64 then .err "too much bits for uint64"
      else if (r.bits.length : Int) < n then .err "not enough bits"
      else .ok (Bits.bitsToNat (r.bits.take n.toNat), { r with bits := r.bits.drop n.toNat }) := by
    simp only [Tlb.readUint, hneg, if_false]
  rw [key]
  simp only [Op.spec]
  by_cases h64 : n > 64
  · have : n.toNat > 64 := by omega
    simp only [h64, if_true, this, RdAgree, Ideal.fail]
  · have h64' : ¬ n.toNat > 64 := by omega
    simp only [h64, if_false, h64']
    rw [read_unread n.toNat _ t hp, hu]
    by_cases hl : (r.bits.length : Int) < n
    · have : r.bits.length < n.toNat := by omega
      simp only [hl, if_true, this, RdAgree]; rfl
    · have : ¬ r.bits.length < n.toNat := by omega
      simp only [hl, if_false, this, RdAgree]
      refine ⟨trivial, ⟨?_, by simp only; omega⟩, by first | rfl | trivial⟩
      rw [unread_advance, hu]

/-- `Tlb.readBits n` = `ZOp.readBits n` for `n ≥ 0` -/
theorem rd_readBits (r : Tlb.Rd) (t : Ideal) (h : RdRel r t) (n : Int) (hn : 0 ≤ n) :
    RdAgree Out.bits r (Tlb.readBits n r) ((ZOp.readBits n).spec t) := by
  obtain ⟨hu, hp⟩ := h
  have hlen : r.bits.length = t.bits.length - t.pos := by rw [← hu, unread_length]
  have hneg : ¬ n < 0 := by omega
  have e : (ZOp.readBits n).spec = (Op.readBits n.toNat).spec := by simp only [ZOp.spec, hneg, if_false] <;> rfl
  rw [e]
  have key : Tlb.readBits n r =
      if (r.bits.length : Int) < n then .err "not enough bits"
      else .ok (r.bits.take n.toNat, { r with bits := r.bits.drop n.toNat }) := by
    simp only [Tlb.readBits, hneg, if_false]
  rw [key]
  simp only [Op.spec]
  rw [read_unread n.toNat _ t hp, hu]
  by_cases hl : (r.bits.length : Int) < n
  · have : r.bits.length < n.toNat := by omega
    simp only [hl, if_true, this, RdAgree]; rfl
  · have : ¬ r.bits.length < n.toNat := by omega
    simp only [hl, if_false, this, RdAgree]
    refine ⟨trivial, ⟨?_, by simp only; omega⟩, by first | rfl | trivial⟩
    rw [unread_advance, hu]

/-- `Tlb.skip n` = `ZOp.skip n` for `n ≥ 0` -/
theorem rd_skip (r : Tlb.Rd) (t : Ideal) (h : RdRel r t) (n : Int) (hn : 0 ≤ n) :
    RdAgree (fun (_ : Unit) => Out.unit) r ((Tlb.skip n r) >>= fun r' => pure ((), r')) ((ZOp.skip n).spec t) := by
  obtain ⟨hu, hp⟩ := h
  have hlen : r.bits.length = t.bits.length - t.pos := by rw [← hu, unread_length]
  have hneg : ¬ n < 0 := by omega
  have e : (ZOp.skip n).spec = (Op.skip n.toNat).spec := by simp only [ZOp.spec, hneg, if_false] <;> rfl
  rw [e]
  have key : Tlb.skip n r =
      if (r.bits.length : Int) < n then .err "not enough bits"
      else .ok { r with bits := r.bits.drop n.toNat } := by
    simp only [Tlb.skip, hneg, if_false]
  rw [key]
  simp only [Op.spec, Bind.bind, Outcome.bind, Pure.pure]
  rw [read_unread n.toNat _ t hp, hu]
  by_cases hl : (r.bits.length : Int) < n
  · have : r.bits.length < n.toNat := by omega
    simp only [hl, if_true, this, RdAgree]; rfl
  · have : ¬ r.bits.length < n.toNat := by omega
    simp only [hl, if_false, this, RdAgree]
    refine ⟨trivial, ⟨?_, by simp only; omega⟩, by first | rfl | trivial⟩
    rw [unread_advance, hu]

theorem rd_readUnaryAux_eq : ∀ (l : List Bool) (k : Nat),
    Tlb.readUnaryAux l k =
      if (l.takeWhile (· == true)).length < l.length
      then some (k + (l.takeWhile (· == true)).length, l.drop ((l.takeWhile (· == true)).length + 1)) else none := by
  intro l
  induction l with
  | nil => intro k; simp [Tlb.readUnaryAux]
  | cons x rest ih =>
    intro k
    cases x
    · simp [Tlb.readUnaryAux]
    · simp only [Tlb.readUnaryAux, ih, List.takeWhile_cons, beq_self_eq_true, if_true, List.length_cons,
        Nat.add_lt_add_iff_right, List.drop_succ_cons]
      by_cases h : (rest.takeWhile (· == true)).length < rest.length
      · simp only [h, if_true]; congr 2; omega
      · simp only [h, if_false]

/-- `Tlb.readUnary` = `Op.readUnary` -/
theorem rd_readUnary (r : Tlb.Rd) (t : Ideal) (h : RdRel r t) :
    RdAgree Out.nat r (Tlb.readUnary r) ((Op.readUnary).spec t) := by
  obtain ⟨hu, hp⟩ := h
  have hlen : r.bits.length = t.bits.length - t.pos := by rw [← hu, unread_length]
  simp only [Tlb.readUnary, Op.spec, rd_readUnaryAux_eq]
  have hu' : t.bits.drop t.pos = r.bits := hu
  rw [hu']
  by_cases hc : (r.bits.takeWhile (· == true)).length < r.bits.length
  · simp only [hc, if_true, RdAgree, Nat.zero_add]
    refine ⟨trivial, ⟨?_, by simp only; omega⟩, by first | rfl | trivial⟩
    show unread { t with pos := t.pos + _ + 1 } = _
    rw [Nat.add_assoc, unread_advance, hu]
  · simp only [hc, if_false, RdAgree]; rfl

/-- `Tlb.minBits n` (the width `ReadLimUint(n)` reads for a Go `int` n) = the bit length of the uint64 image, i.e. what
`ZOp.readLimUint n` uses — also for negative `n` (64 bits) -/
theorem rd_minBits (n : Int) (hlo : -(2 : Int) ^ 63 ≤ n) (hhi : n < (2 : Int) ^ 63) :
    Tlb.minBits n = Ideal.bitLength (u64OfInt n) := by
  unfold Tlb.minBits Ideal.bitLength u64OfInt
  by_cases hn : n < 0
  · have e : n % (2 : Int) ^ 64 = n + (2 : Int) ^ 64 := by
      rw [Int.emod_eq_add_self_emod, Int.emod_eq_of_lt (by omega) (by omega)]
    have hpos : (n % (2 : Int) ^ 64).toNat ≠ 0 := by rw [e]; omega
    have hge : 2 ^ 63 ≤ (n % (2 : Int) ^ 64).toNat := by rw [e]; omega
    have hlt : (n % (2 : Int) ^ 64).toNat < 2 ^ 64 := by rw [e]; omega
    simp only [hn, if_true, hpos, if_false]
    have h1 : (n % (2 : Int) ^ 64).toNat.log2 < 64 := (Nat.log2_lt hpos).mpr hlt
    have h2 : ¬ (n % (2 : Int) ^ 64).toNat.log2 < 63 := by
      intro h; have := (Nat.log2_lt hpos).mp h; omega
    omega
  · have e : n % (2 : Int) ^ 64 = n := Int.emod_eq_of_lt (by omega) (by omega)
    simp only [hn, if_false, e]
    by_cases h0 : n = 0
    · simp [h0]
    · have : n.toNat ≠ 0 := by omega
      simp [h0, this]

/-! DISAGREEMENT (TongoModel/TlbRead.lean as on main at the start of round 4): a negative width is a `panic` in
`Tlb.readUint` / `Tlb.readBits` / `Tlb.skip`, but an error (`ErrNegativeBitLen`) in the repaired Go code and in `ZOp.spec`.
Checked witness (a comment because the owner, agent total, re-does these primitives in this round):

    example : (Tlb.readUint (-1) ⟨[true], []⟩).isPanic = true ∧ ((ZOp.readUint (-1)).spec ⟨[true], 1, 0⟩).1.isErr = true ∧
        (Tlb.readBits (-1) ⟨[true], []⟩).isPanic = true ∧ ((ZOp.readBits (-1)).spec ⟨[true], 1, 0⟩).1.isErr = true ∧
        (Tlb.skip (-1) ⟨[true], []⟩).isPanic = true ∧ ((ZOp.skip (-1)).spec ⟨[true], 1, 0⟩).1.isErr = true := by
      decide +kernel
-/

/-- the statements the owner of `TlbRead` should be able to prove once negative widths are errors (drop `0 ≤ n`) -/
def RdReadUintFull : Prop :=
  ∀ (r : Tlb.Rd) (t : Ideal), RdRel r t → ∀ n : Int, RdAgree Out.nat r (Tlb.readUint n r) ((ZOp.readUint n).spec t)
def RdReadBitsFull : Prop :=
  ∀ (r : Tlb.Rd) (t : Ideal), RdRel r t → ∀ n : Int, RdAgree Out.bits r (Tlb.readBits n r) ((ZOp.readBits n).spec t)
def RdSkipFull : Prop :=
  ∀ (r : Tlb.Rd) (t : Ideal), RdRel r t → ∀ n : Int,
    RdAgree (fun (_ : Unit) => Out.unit) r ((Tlb.skip n r) >>= fun r' => pure ((), r')) ((ZOp.skip n).spec t)


/-- a negative count on the specification side: an error that leaves the state alone -/
theorem zspec_negative (n : Int) (hn : n < 0) (t : Ideal) :
    (ZOp.readUint n).spec t = (.err errNegative, t) ∧ (ZOp.readBits n).spec t = (.err errNegative, t) ∧
    (ZOp.skip n).spec t = (.err errNegative, t) := by
  refine ⟨?_, ?_, ?_⟩ <;>
  · have e : ∀ (z : ZOp) (A : Ideal.SM Out), z.spec = (if n < 0 then Ideal.fail errNegative else A) →
        z.spec t = (.err errNegative, t) := by
      intro z A hz; rw [hz, if_pos hn]; rfl
    first
    | exact e (ZOp.readUint n) _ rfl
    | exact e (ZOp.readBits n) _ rfl
    | exact e (ZOp.skip n) _ rfl

/-- the full statements, conditional on the repaired behaviour of `TlbRead` for negative counts (`.err "negative bit
length"`, checked before everything else — true of branch `total`'s TlbRead.lean, false of the one on main at the start of
round 4). After the merge the hypothesis is `by intro n r hn; simp [Tlb.readUint, hn]; rfl`. -/
theorem rd_readUint_full (hneg : ∀ (n : Int) (r : Tlb.Rd), n < 0 → Tlb.readUint n r = .err errNegative) : RdReadUintFull := by
  intro r t h n
  by_cases hn : n < 0
  · rw [hneg n r hn, (zspec_negative n hn t).1]; exact (rfl : errNegative = errNegative)
  · exact rd_readUint r t h n (by omega)

theorem rd_readBits_full (hneg : ∀ (n : Int) (r : Tlb.Rd), n < 0 → Tlb.readBits n r = .err errNegative) : RdReadBitsFull := by
  intro r t h n
  by_cases hn : n < 0
  · rw [hneg n r hn, (zspec_negative n hn t).2.1]; exact (rfl : errNegative = errNegative)
  · exact rd_readBits r t h n (by omega)

theorem rd_skip_full (hneg : ∀ (n : Int) (r : Tlb.Rd), n < 0 → Tlb.skip n r = .err errNegative) : RdSkipFull := by
  intro r t h n
  by_cases hn : n < 0
  · rw [hneg n r hn, (zspec_negative n hn t).2.2]; exact (rfl : errNegative = errNegative)
  · exact rd_skip r t h n (by omega)

end Tongo.Bridge
