import TongoModel.TlDecode
/-! Helper lemmas for C08 (TL side): a Hoare-style specification `Spec A B K S w m` of a decoder `m` — it only consumes
input, never panics, allocates at most `A` per consumed byte when it succeeds (and at most `B` more when it fails),
takes at most `K` steps per consumed byte plus `S`, and consumes at least `w` bytes when it succeeds — with one lemma
per primitive and combinator, then the mutual induction over type descriptors. Potentials (`alloc + A·|rest|`) keep
every obligation linear for `omega`. -/
namespace Tongo.TlD

theorem pot_stepn {A A' r r' x y d n : Nat} (h1 : x + A' * r' ≤ y + A' * r) (hr : r' + n ≤ r) (hA : A' + d ≤ A) :
    x + d * n + A * r' ≤ y + A * r := by
  obtain ⟨e, rfl⟩ : ∃ e, A = A' + d + e := ⟨A - (A' + d), by omega⟩
  have h2 : (d + e) * (r' + n) ≤ (d + e) * r := Nat.mul_le_mul_left _ hr
  have h3 : (A' + d + e) * r' = A' * r' + (d + e) * r' := by rw [Nat.add_assoc, Nat.add_mul]
  have h4 : (A' + d + e) * r = A' * r + (d + e) * r := by rw [Nat.add_assoc, Nat.add_mul]
  have h5 : (d + e) * (r' + n) = (d + e) * r' + (d * n + e * n) := by rw [Nat.mul_add, Nat.add_mul d e n]
  omega

/-- `A·r' + d·n ≤ A·r` when `n` bytes were consumed and `d ≤ A` -/
theorem pot_le {A r r' d n : Nat} (hr : r' + n ≤ r) (hA : d ≤ A) : A * r' + d * n ≤ A * r := by
  have := @pot_stepn A 0 r r' 0 0 d n (by simp) hr (by omega)
  omega

def Spec {α : Type} (A B K S w : Nat) (m : M α) : Prop :=
  ∀ s : St,
    (m s).2.rest.length ≤ s.rest.length ∧
    (m s).1.isPanic = false ∧
    ((m s).1.isOk = true → (m s).2.rest.length + w ≤ s.rest.length ∧
      (m s).2.alloc + A * (m s).2.rest.length ≤ s.alloc + A * s.rest.length) ∧
    (m s).2.alloc + A * (m s).2.rest.length ≤ s.alloc + A * s.rest.length + B ∧
    (m s).2.steps + K * (m s).2.rest.length ≤ s.steps + K * s.rest.length + S

theorem Spec.weaken {α} {A B K S w B' S' w' : Nat} {m : M α} (h : Spec A B K S w m)
    (hB : B ≤ B') (hS : S ≤ S') (hw : w' ≤ w) : Spec A B' K S' w' m := by
  intro s
  obtain ⟨h1, h2, h3, h4, h5⟩ := h s
  refine ⟨h1, h2, fun ok => ?_, by omega, by omega⟩
  obtain ⟨h6, h7⟩ := h3 ok
  exact ⟨by omega, h7⟩

theorem spec_ret {α} (A K : Nat) (a : α) : Spec A 0 K 0 0 (ret a) := by
  intro s; simp [ret, Outcome.isPanic]

theorem spec_fail {α} (A K w : Nat) (e : String) : Spec (α := α) A 0 K 0 w (fail e) := by
  intro s; simp [fail, Outcome.isPanic, Outcome.isOk]

theorem spec_tick (A K : Nat) : Spec A 0 K 1 0 tick := by
  intro s; simp [tick, Outcome.isPanic]; omega

theorem spec_bind {α β} {A B1 B2 K S1 S2 w1 w2 : Nat} {m : M α} {f : α → M β}
    (hm : Spec A B1 K S1 w1 m) (hf : ∀ a, Spec A B2 K S2 w2 (f a)) :
    Spec A (max B1 B2) K (S1 + S2) (w1 + w2) (bind m f) := by
  intro s
  obtain ⟨h1, h2, h3, h4, h5⟩ := hm s
  unfold bind
  rcases hms : m s with ⟨o, s1⟩
  rw [hms] at h1 h2 h3 h4 h5
  cases o with
  | ok a =>
    obtain ⟨g1, g2, g3, g4, g5⟩ := hf a s1
    obtain ⟨h6, h7⟩ := h3 rfl
    simp only at h1 h4 h5 h6 h7 ⊢
    refine ⟨by omega, g2, fun ok => ?_, by omega, by omega⟩
    obtain ⟨g6, g7⟩ := g3 ok
    exact ⟨by omega, by omega⟩
  | err e =>
    simp only at h1 h4 h5 ⊢
    refine ⟨h1, rfl, fun h => by simp [Outcome.isOk] at h, by omega, by omega⟩
  | panic p => simp [Outcome.isPanic] at h2

/-- `readFull n`: `K ≥ 2` pays for the byte copies -/
theorem spec_readFull (A K n : Nat) (hK : 2 ≤ K) : Spec A 0 K 1 n (readFull n) := by
  intro s
  unfold readFull
  split
  · rename_i h
    have hA : A * (s.rest.length - n) ≤ A * s.rest.length := Nat.mul_le_mul_left _ (by omega)
    have hK2 : K * (s.rest.length - n) + 2 * n ≤ K * s.rest.length := pot_le (by omega) hK
    refine ⟨?_, rfl, fun _ => ⟨?_, ?_⟩, ?_, ?_⟩ <;> simp only [List.length_drop] <;> omega
  · rename_i h
    have hK2 : K * 0 + 2 * s.rest.length ≤ K * s.rest.length := pot_le (by omega) hK
    refine ⟨?_, rfl, fun h => by simp [Outcome.isOk] at h, ?_, ?_⟩ <;>
      simp only [List.length_nil, Nat.mul_zero] <;> omega

theorem readFull_ok_len {n : Nat} {s s' : St} {b : List UInt8} (h : readFull n s = (.ok b, s')) : b.length = n := by
  unfold readFull at h
  split at h
  · rename_i hn
    simp only [Prod.mk.injEq, Outcome.ok.injEq] at h
    obtain ⟨rfl, _⟩ := h
    simp [List.length_take]; omega
  · simp at h

/-- bind where the continuation may rely on what the first computation returned -/
theorem spec_bind_ok {α β} {A B1 B2 K S1 S2 w1 w2 : Nat} {m : M α} {f : α → M β}
    (hm : Spec A B1 K S1 w1 m) (hf : ∀ a, (∃ s s', m s = (.ok a, s')) → Spec A B2 K S2 w2 (f a)) :
    Spec A (max B1 B2) K (S1 + S2) (w1 + w2) (bind m f) := by
  intro s
  obtain ⟨h1, h2, h3, h4, h5⟩ := hm s
  unfold bind
  rcases hms : m s with ⟨o, s1⟩
  rw [hms] at h1 h2 h3 h4 h5
  cases o with
  | ok a =>
    obtain ⟨g1, g2, g3, g4, g5⟩ := hf a ⟨s, s1, hms⟩ s1
    obtain ⟨h6, h7⟩ := h3 rfl
    simp only at h1 h4 h5 h6 h7 ⊢
    refine ⟨by omega, g2, fun ok => ?_, by omega, by omega⟩
    obtain ⟨g6, g7⟩ := g3 ok
    exact ⟨by omega, by omega⟩
  | err e =>
    simp only at h1 h4 h5 ⊢
    refine ⟨h1, rfl, fun h => by simp [Outcome.isOk] at h, by omega, by omega⟩
  | panic p => simp [Outcome.isPanic] at h2

theorem spec_sliceTo (A K len : Nat) (k : Int) (h0 : 0 ≤ k) (h1 : k ≤ (len : Int)) : Spec A 0 K 0 0 (sliceTo len k) := by
  intro s
  unfold sliceTo
  rw [if_neg (by omega)]
  simp [Outcome.isPanic]

/-- the 4-byte little-endian integer every fixed-width field, tag and count goes through -/
theorem spec_read32 {β} (A K : Nat) (hK : 2 ≤ K) {B S w : Nat} (f : Nat → M β) (hf : ∀ v, Spec A B K S w (f v)) :
    Spec A B K (1 + S) (4 + w) (read32 f) :=
  (spec_bind (spec_readFull A K 4 hK) (fun b => hf (le b))).weaken (by simp) (by omega) (by omega)

theorem spec_read64 {β} (A K : Nat) (hK : 2 ≤ K) {B S w : Nat} (f : Nat → M β) (hf : ∀ v, Spec A B K S w (f v)) :
    Spec A B K (1 + S) (8 + w) (read64 f) :=
  (spec_bind (spec_readFull A K 8 hK) (fun b => hf (le b))).weaken (by simp) (by omega) (by omega)

theorem spec_read24 {β} (A K : Nat) (hK : 2 ≤ K) {B S w : Nat} (f : Nat → M β) (hf : ∀ v, Spec A B K S w (f v)) :
    Spec A B K (1 + S) (3 + w) (read24 f) :=
  (spec_bind (spec_readFull A K 3 hK) (fun b => hf (le b))).weaken (by simp) (by omega) (by omega)

/-- the capacity the repaired decodeVector asks for is never negative: `makeSliceCap` is the counted allocation -/
theorem makeSliceCap_fixed (v sz : Nat) :
    makeSliceCap (min (v : Int) (maxPreallocItems : Int)) sz = allocN (min v maxPreallocItems * sz) := by
  funext s
  unfold makeSliceCap allocN
  have h : min (v : Int) (maxPreallocItems : Int) = ((min v maxPreallocItems : Nat) : Int) := by omega
  rw [h, if_neg (by omega), Int.toNat_natCast]

theorem count_fixed (v : Nat) : Cfg.fixed.count v = (v : Int) := by
  simp [Cfg.count, Cfg.fixed]

theorem spec_padLoop (A K k : Nat) (hK : 2 ≤ K) : Spec A 0 K (2 * k) 0 (padLoop k) := by
  induction k with
  | zero => exact spec_ret A K ()
  | succ k ih =>
    unfold padLoop
    exact (spec_bind (spec_readFull A K 1 hK) (fun _ => ih)).weaken (by simp) (by omega) (by omega)

/-- the chunk loop of the repaired readN: what is appended has been read; `chunk[:k]` is in range because the loop
condition `len(data) < n` makes `k = min(n - len(data), len(chunk))` positive -/
theorem spec_readChunks (A K fuel n got : Nat) (hA : 1 ≤ A) (hK : 3 ≤ K) :
    ∀ s : St,
      (readChunks fuel n got s).2.rest.length ≤ s.rest.length ∧
      (readChunks fuel n got s).1.isPanic = false ∧
      ((readChunks fuel n got s).1.isOk = true →
        (readChunks fuel n got s).2.rest.length + min (n - got) (fuel * maxPrealloc) ≤ s.rest.length) ∧
      (readChunks fuel n got s).2.alloc + A * (readChunks fuel n got s).2.rest.length ≤ s.alloc + A * s.rest.length ∧
      (readChunks fuel n got s).2.steps + K * (readChunks fuel n got s).2.rest.length ≤ s.steps + K * s.rest.length + 1 := by
  induction fuel generalizing got with
  | zero => intro s; simp [readChunks, ret, Outcome.isPanic]
  | succ fuel ih =>
    intro s
    unfold readChunks
    split
    · rename_i h0
      have : n - got = 0 := by omega
      simp [ret, Outcome.isPanic, this]
    rename_i hrem
    have hm : maxPrealloc = 4096 := rfl
    -- k as a Go int, then as the natural number it is
    have hk : ∃ c : Nat, min ((n : Int) - (got : Int)) (maxPrealloc : Int) = (c : Int) ∧ c = min (n - got) maxPrealloc ∧ 1 ≤ c := by
      refine ⟨min (n - got) maxPrealloc, ?_, rfl, by omega⟩
      omega
    obtain ⟨c, hc, hc2, hc1⟩ := hk
    simp only [hc, Int.toNat_natCast]
    have hsl : sliceTo maxPrealloc (c : Int) s = (.ok (), s) := by
      unfold sliceTo; rw [if_neg (by omega)]
    by_cases h : c ≤ s.rest.length
    · have hr : readFull c s = (.ok (s.rest.take c), { s with rest := s.rest.drop c, steps := s.steps + 1 + c }) := by
        simp [readFull, h]
      simp only [bind, hsl, hr, allocN]
      obtain ⟨g1, g2, g3, g4, g5⟩ := ih (got + c)
        { rest := List.drop c s.rest, alloc := s.alloc + c, steps := s.steps + 1 + c }
      simp only [List.length_drop] at g1 g3 g4 g5
      have hp : A * (s.rest.length - c) + 1 * c ≤ A * s.rest.length := pot_le (by omega) hA
      have hq : K * (s.rest.length - c) + 3 * c ≤ K * s.rest.length := pot_le (by omega) hK
      refine ⟨by omega, g2, fun ok => ?_, by omega, by omega⟩
      have := g3 ok
      rw [Nat.succ_mul]
      omega
    · have hr : readFull c s = (.err "EOF", { s with rest := [], steps := s.steps + 1 + s.rest.length }) := by
        simp [readFull, h]
      simp only [bind, hsl, hr]
      have hq : K * 0 + 3 * s.rest.length ≤ K * s.rest.length := pot_le (by omega) hK
      refine ⟨?_, rfl, fun h => by simp [Outcome.isOk] at h, ?_, ?_⟩ <;>
        simp only [List.length_nil, Nat.mul_zero] <;> omega

theorem spec_allocRead (A K n : Nat) (hA : 1 ≤ A) (hK : 2 ≤ K) : Spec A n K 1 n (allocRead n) := by
  intro s
  obtain ⟨h1, h2, h3, h4, h5⟩ := spec_readFull A K n hK { s with alloc := s.alloc + n }
  unfold allocRead
  simp only [bind, allocN]
  rcases hr : readFull n { s with alloc := s.alloc + n } with ⟨o, s1⟩
  rw [hr] at h1 h2 h3 h4 h5
  cases o with
  | ok a =>
    obtain ⟨h6, h7⟩ := h3 rfl
    simp only [ret] at h1 h4 h5 h6 h7 ⊢
    have hp : A * s1.rest.length + 1 * n ≤ A * s.rest.length := pot_le h6 hA
    refine ⟨h1, rfl, fun _ => ⟨h6, ?_⟩, ?_, h5⟩
    · -- the allocation of the successful read is paid by the n bytes it consumed
      have : s1.alloc = s.alloc + n := by
        unfold readFull at hr; split at hr <;> simp at hr <;> (obtain ⟨_, rfl⟩ := hr; rfl)
      omega
    · omega
  | err e =>
    simp only at h1 h4 h5 ⊢
    refine ⟨h1, rfl, fun h => by simp [Outcome.isOk] at h, by omega, h5⟩
  | panic p => simp [Outcome.isPanic] at h2

theorem spec_readN (A K n : Nat) (hA : 2 ≤ A) (hK : 3 ≤ K) : Spec A maxPrealloc K 1 n (readN n) := by
  unfold readN
  split
  · rename_i h
    exact (spec_allocRead A K n (by omega) (by omega)).weaken h (by omega) (by omega)
  · rename_i h
    intro s
    simp only [bind, allocN]
    obtain ⟨g1, g2, g3, g4, g5⟩ := spec_readChunks 1 K ((n + maxPrealloc - 1) / maxPrealloc) n 0 (by omega) hK
      { s with alloc := s.alloc + maxPrealloc }
    generalize readChunks ((n + maxPrealloc - 1) / maxPrealloc) n 0 { s with alloc := s.alloc + maxPrealloc } = r at *
    simp only at g1 g3 g4 g5
    have hm : maxPrealloc = 4096 := rfl
    have hk : n ≤ (n + maxPrealloc - 1) / maxPrealloc * maxPrealloc := by
      rw [hm]; omega
    refine ⟨g1, g2, fun ok => ?_, ?_, g5⟩
    · have h6 := g3 ok
      have h7 : r.2.rest.length + n ≤ s.rest.length := by
        have : min (n - 0) ((n + maxPrealloc - 1) / maxPrealloc * maxPrealloc) = n := by
          rw [Nat.sub_zero]; exact Nat.min_eq_left hk
        omega
      refine ⟨h7, ?_⟩
      have := @pot_stepn A 1 s.rest.length r.2.rest.length r.2.alloc (s.alloc + maxPrealloc) 1 n (by omega) h7 (by omega)
      omega
    · have := @pot_stepn A 1 s.rest.length r.2.rest.length r.2.alloc (s.alloc + maxPrealloc) 0 0 (by omega) g1 (by omega)
      omega

/-- repaired readByteSlice -/
theorem spec_readByteSlice (A K : Nat) (hA : 2 ≤ A) (hK : 3 ≤ K) :
    Spec A maxPrealloc K 14 1 (readByteSlice Cfg.fixed) := by
  unfold readByteSlice
  have hm : maxPrealloc = 4096 := rfl
  refine (spec_bind (spec_readFull A K 1 (by omega)) (fun fb => ?_) (B2 := maxPrealloc) (S2 := 13) (w2 := 0)).weaken
    (by omega) (by omega) (by omega)
  simp only
  split
  · rename_i h
    refine (spec_bind (spec_allocRead A K (le fb) (by omega) (by omega)) (fun _ =>
      spec_bind (spec_padLoop A K _ (by omega)) (fun _ => spec_ret A K _))).weaken ?_ ?_ (by omega)
    · omega
    · omega
  · split
    · refine (spec_read24 A K (by omega) _ (fun n => ?_) (B := maxPrealloc) (S := 8) (w := 0)).weaken
        (by omega) (by omega) (by omega)
      simp only [Cfg.fixed, Bool.false_eq_true, if_false]
      refine (spec_bind (spec_readN A K n hA hK) (fun _ =>
        spec_bind (spec_padLoop A K _ (by omega)) (fun _ => spec_ret A K _))).weaken ?_ ?_ (by omega)
      · omega
      · omega
    · exact (spec_fail A K 0 _).weaken (by omega) (by omega) (by omega)

theorem spec_vecLoop {A' B' K' S' w sz A K : Nat} {dec : M Nat} (hdec : Spec A' B' K' S' w dec) (hw : 1 ≤ w)
    (hA : A' + sz ≤ A) (hK : K' + S' + 1 ≤ K) (n : Nat) : Spec A (B' + sz) K (S' + 1) n (vecLoop dec sz n) := by
  induction n with
  | zero => exact (spec_ret A K 0).weaken (by omega) (by omega) (by omega)
  | succ n ih =>
    intro s
    unfold vecLoop
    obtain ⟨h1, h2, h3, h4, h5⟩ := hdec { s with steps := s.steps + 1 }
    rcases hr : dec { s with steps := s.steps + 1 } with ⟨o, s1⟩
    rw [hr] at h1 h2 h3 h4 h5
    cases o with
    | ok a =>
      obtain ⟨h6, h7⟩ := h3 rfl
      simp only at h1 h4 h5 h6 h7 ⊢
      obtain ⟨g1, g2, g3, g4, g5⟩ := ih { s1 with alloc := s1.alloc + sz }
      generalize vecLoop dec sz n { s1 with alloc := s1.alloc + sz } = r at *
      simp only at g1 g3 g4 g5
      have ha := @pot_stepn A A' s.rest.length s1.rest.length s1.alloc s.alloc sz 1 h7 (by omega) hA
      have hs := @pot_stepn K K' s.rest.length s1.rest.length s1.steps (s.steps + 1 + S') (S' + 1) 1 (by omega)
        (by omega) (by omega)
      refine ⟨by omega, g2, fun ok => ?_, by omega, by omega⟩
      obtain ⟨g6, g7⟩ := g3 ok
      exact ⟨by omega, by omega⟩
    | err e =>
      simp only at h1 h4 h5 ⊢
      have ha := @pot_stepn A A' s.rest.length s1.rest.length s1.alloc (s.alloc + B') 0 0 (by omega) h1 (by omega)
      have hs := @pot_stepn K K' s.rest.length s1.rest.length s1.steps (s.steps + 1 + S') 0 0 (by omega) h1 (by omega)
      refine ⟨h1, rfl, fun h => by simp [Outcome.isOk] at h, by omega, by omega⟩
    | panic p => simp [Outcome.isPanic] at h2

theorem wf_and {a b : Bool} (h : (a && b) = true) : a = true ∧ b = true := by
  cases a <;> cases b <;> simp_all

mutual
theorem Ty.stepK_ge : (t : Ty) → 3 ≤ t.stepK
  | .int4 | .int8 | .bool | .bytes | .arr _ | .int256 | .bad => by simp [Ty.stepK]
  | .vec _ e => by have := Ty.stepK_ge e; simp only [Ty.stepK]; omega
  | .struct fs => by simp only [Ty.stepK]; exact Fields.stepK_ge fs
  | .sum alts => by simp only [Ty.stepK]; exact Alts.stepK_ge alts
  | .ptr e => by simp only [Ty.stepK]; exact Ty.stepK_ge e
theorem Fields.stepK_ge : (fs : Fields) → 3 ≤ fs.stepK
  | .nil => by simp [Fields.stepK]
  | .cons _ _ t rest => by have := Ty.stepK_ge t; simp only [Fields.stepK]; omega
theorem Alts.stepK_ge : (alts : Alts) → 3 ≤ alts.stepK
  | .nil => by simp [Alts.stepK]
  | .cons _ t rest => by have := Ty.stepK_ge t; simp only [Alts.stepK]; omega
end

mutual
theorem Ty.allocA_ge : (t : Ty) → 2 ≤ t.allocA
  | .int4 | .int8 | .bool | .bytes | .arr _ | .int256 | .bad => by simp [Ty.allocA]
  | .vec _ e => by have := Ty.allocA_ge e; simp only [Ty.allocA]; omega
  | .struct fs => by simp only [Ty.allocA]; exact Fields.allocA_ge fs
  | .sum alts => by simp only [Ty.allocA]; exact Alts.allocA_ge alts
  | .ptr e => by simp only [Ty.allocA]; exact Ty.allocA_ge e
theorem Fields.allocA_ge : (fs : Fields) → 2 ≤ fs.allocA
  | .nil => by simp [Fields.allocA]
  | .cons _ _ t rest => by have := Ty.allocA_ge t; simp only [Fields.allocA]; omega
theorem Alts.allocA_ge : (alts : Alts) → 2 ≤ alts.allocA
  | .nil => by simp [Alts.allocA]
  | .cons _ t rest => by have := Ty.allocA_ge t; simp only [Alts.allocA]; omega
end

mutual
/-- the repaired decoder meets its specification with the constants computed from the type -/
theorem decode_spec : (t : Ty) → t.wf = true → (A K : Nat) → t.allocA ≤ A → t.stepK ≤ K →
    Spec A t.allocB K t.stepS t.width (decode Cfg.fixed t)
  | .int4, _, A, K, hA, hK => by
    simp only [Ty.allocA, Ty.stepK] at hA hK
    unfold decode
    exact (spec_bind (spec_tick A K) fun _ => spec_read32 A K (by omega) _ (fun v => spec_ret A K v)).weaken
      (by simp [Ty.allocB]) (by simp [Ty.stepS]) (by simp [Ty.width])
  | .int8, _, A, K, hA, hK => by
    simp only [Ty.allocA, Ty.stepK] at hA hK
    unfold decode
    exact (spec_bind (spec_tick A K) fun _ => spec_read64 A K (by omega) _ (fun v => spec_ret A K v)).weaken
      (by simp [Ty.allocB]) (by simp [Ty.stepS]) (by simp [Ty.width])
  | .bool, _, A, K, hA, hK => by
    simp only [Ty.allocA, Ty.stepK] at hA hK
    unfold decode
    refine (spec_bind (spec_tick A K) fun _ => spec_read32 (B := 0) (S := 0) (w := 0) A K (by omega) _
      (fun v => ?_)).weaken (by simp [Ty.allocB]) (by simp [Ty.stepS]) (by simp [Ty.width])
    split
    · exact spec_ret A K _
    · split
      · exact spec_ret A K _
      · exact spec_fail A K 0 _
  | .bytes, _, A, K, hA, hK => by
    simp only [Ty.allocA, Ty.stepK] at hA hK
    unfold decode
    exact (spec_bind (spec_tick A K) fun _ => spec_bind (spec_readByteSlice A K hA hK) fun _ => spec_ret A K _).weaken
      (by simp [Ty.allocB]; omega) (by simp [Ty.stepS]) (by simp [Ty.width])
  | .arr n, _, A, K, hA, hK => by
    simp only [Ty.allocA, Ty.stepK] at hA hK
    unfold decode
    refine (spec_bind (spec_tick A K) fun _ => spec_bind (B2 := 0) (S2 := 0) (w2 := 0)
      (spec_readByteSlice A K hA hK) fun l => ?_).weaken (by simp [Ty.allocB]; omega) (by simp [Ty.stepS]) (by simp [Ty.width])
    split
    · exact spec_ret A K _
    · exact spec_fail A K 0 _
  | .int256, _, A, K, hA, hK => by
    simp only [Ty.allocA, Ty.stepK] at hA hK
    unfold decode
    exact (spec_bind (spec_tick A K) fun _ => spec_bind (spec_readFull A K 32 (by omega)) fun b => spec_ret A K _).weaken
      (by simp [Ty.allocB]) (by simp [Ty.stepS]) (by simp [Ty.width])
  | .bad, _, A, K, hA, hK => by
    unfold decode
    exact (spec_bind (spec_tick A K) fun _ => spec_fail A K 0 _).weaken
      (by simp [Ty.allocB]) (by simp [Ty.stepS]) (by simp [Ty.width])
  | .ptr e, hwf, A, K, hA, hK => by
    simp only [Ty.allocA, Ty.stepK] at hA hK
    simp only [Ty.wf] at hwf
    unfold decode
    simp only [Cfg.fixed, Bool.false_eq_true, if_false]
    exact (spec_bind (spec_tick A K) fun _ => decode_spec e hwf A K hA hK).weaken
      (by simp [Ty.allocB]) (by simp [Ty.stepS]) (by simp [Ty.width])
  | .struct fs, hwf, A, K, hA, hK => by
    simp only [Ty.allocA, Ty.stepK] at hA hK
    simp only [Ty.wf] at hwf
    unfold decode
    exact (spec_bind (spec_tick A K) fun _ => decodeFields_spec fs hwf A K hA hK 0).weaken
      (by simp [Ty.allocB]) (by simp [Ty.stepS]) (by simp [Ty.width])
  | .sum alts, hwf, A, K, hA, hK => by
    simp only [Ty.allocA, Ty.stepK] at hA hK
    simp only [Ty.wf] at hwf
    have h3 := Alts.stepK_ge alts
    unfold decode
    exact (spec_bind (spec_tick A K) fun _ => spec_read32 A K (by omega) _ (fun tag =>
      decodeAlts_spec alts hwf A K hA hK tag)).weaken
      (by simp [Ty.allocB]) (by simp [Ty.stepS]; omega) (by cases alts <;> simp [Ty.width, Alts.width] <;> omega)
  | .vec sz e, hwf, A, K, hA, hK => by
    simp only [Ty.allocA, Ty.stepK] at hA hK
    simp only [Ty.wf] at hwf
    obtain ⟨hwe, hw1⟩ := wf_and hwf
    have hw1 : 1 ≤ e.width := by simpa using hw1
    have he := decode_spec e hwe e.allocA e.stepK (Nat.le_refl _) (Nat.le_refl _)
    have h3 := Ty.stepK_ge e
    have h2 := Ty.allocA_ge e
    unfold decode
    have hc : Cfg.fixed.trustCount = false := rfl
    simp only [hc, Bool.false_eq_true, if_false, count_fixed, makeSliceCap_fixed, Int.toNat_natCast]
    intro s
    -- tick, then the 4-byte count
    simp only [read32, bind, tick]
    obtain ⟨r1, r2, r3, r4, r5⟩ := spec_readFull A K 4 (by omega) { s with steps := s.steps + 1 }
    rcases hr : readFull 4 { s with steps := s.steps + 1 } with ⟨o, s1⟩
    rw [hr] at r1 r2 r3 r4 r5
    cases o with
    | ok b =>
      obtain ⟨r6, r7⟩ := r3 rfl
      simp only [allocN] at r1 r4 r5 r6 r7 ⊢
      have hloop := spec_vecLoop he hw1 (A := e.allocA + sz) (K := K) (sz := sz) (Nat.le_refl _) (by omega) (le b)
        { s1 with alloc := s1.alloc + min (le b) maxPreallocItems * sz }
      obtain ⟨g1, g2, g3, g4, g5⟩ := hloop
      generalize vecLoop (decode Cfg.fixed e) sz (le b)
        { s1 with alloc := s1.alloc + min (le b) maxPreallocItems * sz } = r at *
      simp only at g1 g3 g4 g5
      have hpre : min (le b) maxPreallocItems * sz ≤ sz * le b := by
        rw [Nat.mul_comm]; exact Nat.mul_le_mul_left _ (Nat.min_le_left _ _)
      have hpre2 : min (le b) maxPreallocItems * sz ≤ maxPreallocItems * sz :=
        Nat.mul_le_mul_right _ (Nat.min_le_right _ _)
      refine ⟨by omega, g2, fun ok => ?_, ?_, by simp only [Ty.stepS]; omega⟩
      · obtain ⟨g6, g7⟩ := g3 ok
        refine ⟨by simp only [Ty.width]; omega, ?_⟩
        have := @pot_stepn A (e.allocA + sz) s1.rest.length r.2.rest.length r.2.alloc
          (s1.alloc + min (le b) maxPreallocItems * sz) sz (le b) g7 g6 (by omega)
        omega
      · have := @pot_stepn A (e.allocA + sz) s1.rest.length r.2.rest.length r.2.alloc
          (s1.alloc + min (le b) maxPreallocItems * sz + (e.allocB + sz)) 0 0 (by omega) g1 (by omega)
        simp only [Ty.allocB]
        have hx : (maxPreallocItems + 1) * sz = maxPreallocItems * sz + sz := by rw [Nat.add_mul]; simp
        omega
    | err e' =>
      simp only at r1 r4 r5 ⊢
      refine ⟨by omega, rfl, fun h => by simp [Outcome.isOk] at h, by omega, by simp only [Ty.stepS]; omega⟩
    | panic p => simp [Outcome.isPanic] at r2
theorem decodeFields_spec : (fs : Fields) → fs.wf = true → (A K : Nat) → fs.allocA ≤ A → fs.stepK ≤ K → (mode : Nat) →
    Spec A fs.allocB K fs.stepS fs.width (decodeFields Cfg.fixed fs mode)
  | .nil, _, A, K, _, _, mode => by
    unfold decodeFields
    exact (spec_ret A K 0).weaken (by simp) (by simp) (by simp [Fields.width])
  | .cons cond isMode t rest, hwf, A, K, hA, hK, mode => by
    simp only [Fields.allocA, Fields.stepK] at hA hK
    simp only [Fields.wf] at hwf
    obtain ⟨hwt, hwr⟩ := wf_and hwf
    have ht := decode_spec t hwt A K (by omega) (by omega)
    have hr := fun m => decodeFields_spec rest hwr A K (by omega) (by omega) m
    unfold decodeFields
    cases cond with
    | none =>
      simp only
      exact (spec_bind ht fun v => hr _).weaken (by simp [Fields.allocB]) (by simp [Fields.stepS])
        (by simp [Fields.width])
    | some k =>
      simp only
      split
      · exact (spec_bind ht fun v => hr _).weaken (by simp [Fields.allocB]) (by simp [Fields.stepS])
          (by simp [Fields.width])
      · exact (hr _).weaken (by simp [Fields.allocB]; omega) (by simp [Fields.stepS]) (by simp [Fields.width])
theorem decodeAlts_spec : (alts : Alts) → alts.wf = true → (A K : Nat) → alts.allocA ≤ A → alts.stepK ≤ K → (tag : Nat) →
    Spec A alts.allocB K alts.stepS 0 (decodeAlts Cfg.fixed alts tag)
  | .nil, _, A, K, _, _, tag => by
    unfold decodeAlts
    exact (spec_fail A K 0 _).weaken (by simp) (by simp) (by simp)
  | .cons none t rest, _, A, K, _, _, tag => by
    unfold decodeAlts
    exact (spec_fail A K 0 _).weaken (by simp) (by simp) (by simp)
  | .cons (some tg) t rest, hwf, A, K, hA, hK, tag => by
    simp only [Alts.allocA, Alts.stepK] at hA hK
    simp only [Alts.wf] at hwf
    obtain ⟨hwt, hwr⟩ := wf_and hwf
    have ht := decode_spec t hwt A K (by omega) (by omega)
    have hr := decodeAlts_spec rest hwr A K (by omega) (by omega) tag
    unfold decodeAlts
    split
    · exact ht.weaken (by simp [Alts.allocB]; omega) (by simp [Alts.stepS]; omega) (by omega)
    · exact (spec_bind (spec_tick A K) fun _ => hr).weaken (by simp [Alts.allocB]; omega) (by simp [Alts.stepS]; omega)
        (by omega)
end

/-! ### totality alone (no well-formedness hypothesis) -/

def NoPanic {α : Type} (m : M α) : Prop := ∀ s : St, (m s).1.isPanic = false

theorem np_ret {α} (a : α) : NoPanic (ret a) := fun _ => rfl
theorem np_fail {α} (e : String) : NoPanic (fail (α := α) e) := fun _ => rfl
theorem np_tick : NoPanic tick := fun _ => rfl
theorem np_allocN (n : Nat) : NoPanic (allocN n) := fun _ => rfl
theorem np_readFull (n : Nat) : NoPanic (readFull n) := by
  intro s; unfold readFull; split <;> rfl

theorem np_bind {α β} {m : M α} {f : α → M β} (hm : NoPanic m) (hf : ∀ a, NoPanic (f a)) : NoPanic (bind m f) := by
  intro s
  have h := hm s
  unfold bind
  rcases hms : m s with ⟨o, s1⟩
  rw [hms] at h
  cases o with
  | ok a => exact hf a s1
  | err e => rfl
  | panic p => simp [Outcome.isPanic] at h

theorem np_bind_ok {α β} {m : M α} {f : α → M β} (hm : NoPanic m)
    (hf : ∀ a, (∃ s s', m s = (.ok a, s')) → NoPanic (f a)) : NoPanic (bind m f) := by
  intro s
  have h := hm s
  unfold bind
  rcases hms : m s with ⟨o, s1⟩
  rw [hms] at h
  cases o with
  | ok a => exact hf a ⟨s, s1, hms⟩ s1
  | err e => rfl
  | panic p => simp [Outcome.isPanic] at h

theorem np_read32 {β} (f : Nat → M β) (hf : ∀ v, NoPanic (f v)) : NoPanic (read32 f) :=
  np_bind (np_readFull 4) fun b => hf (le b)

theorem np_read64 {β} (f : Nat → M β) (hf : ∀ v, NoPanic (f v)) : NoPanic (read64 f) :=
  np_bind (np_readFull 8) fun b => hf (le b)

theorem np_read24 {β} (f : Nat → M β) (hf : ∀ v, NoPanic (f v)) : NoPanic (read24 f) :=
  np_bind (np_readFull 3) fun b => hf (le b)

/-- `reflect.MakeSlice` with a capacity that is not negative -/
theorem np_makeSliceCap (cap : Int) (sz : Nat) (h : 0 ≤ cap) : NoPanic (makeSliceCap cap sz) := by
  intro s; unfold makeSliceCap; rw [if_neg (by omega)]; rfl

theorem np_sliceTo (len : Nat) (k : Int) (h0 : 0 ≤ k) (h1 : k ≤ (len : Int)) : NoPanic (sliceTo len k) := by
  intro s; unfold sliceTo; rw [if_neg (by omega)]; rfl

theorem np_padLoop (k : Nat) : NoPanic (padLoop k) := by
  induction k with
  | zero => exact np_ret ()
  | succ k ih => unfold padLoop; exact np_bind (np_readFull 1) fun _ => ih

theorem np_readChunks (fuel n got : Nat) : NoPanic (readChunks fuel n got) := by
  induction fuel generalizing got with
  | zero => exact np_ret ()
  | succ fuel ih =>
    unfold readChunks
    split
    · exact np_ret ()
    · rename_i h
      have hm : maxPrealloc = 4096 := rfl
      refine np_bind (np_sliceTo _ _ (by omega) (by omega)) fun _ =>
        np_bind (np_readFull _) fun _ => np_bind (np_allocN _) fun _ => ih _

theorem np_allocRead (n : Nat) : NoPanic (allocRead n) :=
  np_bind (np_allocN n) fun _ => np_bind (np_readFull n) fun _ => np_ret ()

theorem np_readN (n : Nat) : NoPanic (readN n) := by
  unfold readN
  split
  · exact np_allocRead n
  · exact np_bind (np_allocN _) fun _ => np_readChunks _ _ _

theorem np_readByteSlice (cfg : Cfg) : NoPanic (readByteSlice cfg) := by
  unfold readByteSlice
  refine np_bind (np_readFull 1) fun fb => ?_
  simp only
  split
  · exact np_bind (np_allocRead _) fun _ => np_bind (np_padLoop _) fun _ => np_ret _
  · split
    · refine np_read24 _ fun n => ?_
      refine np_bind ?_ fun _ => np_bind (np_padLoop _) fun _ => np_ret _
      split
      · exact np_allocRead _
      · exact np_readN _
    · exact np_fail _

theorem np_vecLoop {dec : M Nat} (hdec : NoPanic dec) (sz n : Nat) : NoPanic (vecLoop dec sz n) := by
  induction n with
  | zero => exact np_ret 0
  | succ n ih =>
    intro s
    unfold vecLoop
    have h := hdec { s with steps := s.steps + 1 }
    rcases hr : dec { s with steps := s.steps + 1 } with ⟨o, s1⟩
    rw [hr] at h
    cases o with
    | ok a => exact ih _
    | err e => rfl
    | panic p => simp [Outcome.isPanic] at h

mutual
/-- no type descriptor and no input make the repaired decoder panic -/
theorem decode_np : (t : Ty) → NoPanic (decode Cfg.fixed t)
  | .int4 => by unfold decode; exact np_bind np_tick fun _ => np_read32 _ fun v => np_ret v
  | .int8 => by unfold decode; exact np_bind np_tick fun _ => np_read64 _ fun v => np_ret v
  | .bool => by
    unfold decode
    refine np_bind np_tick fun _ => np_read32 _ fun v => ?_
    split
    · exact np_ret _
    · split
      · exact np_ret _
      · exact np_fail _
  | .bytes => by unfold decode; exact np_bind np_tick fun _ => np_bind (np_readByteSlice _) fun _ => np_ret _
  | .arr n => by
    unfold decode
    refine np_bind np_tick fun _ => np_bind (np_readByteSlice _) fun l => ?_
    split
    · exact np_ret _
    · exact np_fail _
  | .int256 => by unfold decode; exact np_bind np_tick fun _ => np_bind (np_readFull 32) fun _ => np_ret _
  | .bad => by unfold decode; exact np_bind np_tick fun _ => np_fail _
  | .ptr e => by
    unfold decode
    have hc : Cfg.fixed.nilPtrPanics = false := rfl
    simp only [hc, Bool.false_eq_true, if_false]
    exact np_bind np_tick fun _ => decode_np e
  | .struct fs => by unfold decode; exact np_bind np_tick fun _ => decodeFields_np fs 0
  | .sum alts => by
    unfold decode; exact np_bind np_tick fun _ => np_read32 _ fun tag => decodeAlts_np alts tag
  | .vec sz e => by
    unfold decode
    refine np_bind np_tick fun _ => np_read32 _ fun v => np_bind (np_makeSliceCap _ _ ?_) fun _ =>
      np_vecLoop (decode_np e) sz _
    -- the live obligation: the capacity handed to reflect.MakeSlice is not negative
    have hc : Cfg.fixed.trustCount = false := rfl
    simp only [count_fixed, hc, Bool.false_eq_true, if_false]
    have : (0 : Int) ≤ (maxPreallocItems : Int) := Int.natCast_nonneg _
    omega
theorem decodeFields_np : (fs : Fields) → (mode : Nat) → NoPanic (decodeFields Cfg.fixed fs mode)
  | .nil, _ => by unfold decodeFields; exact np_ret 0
  | .cons cond isMode t rest, mode => by
    unfold decodeFields
    cases cond with
    | none => exact np_bind (decode_np t) fun v => decodeFields_np rest _
    | some k =>
      simp only
      split
      · exact np_bind (decode_np t) fun v => decodeFields_np rest _
      · exact decodeFields_np rest _
theorem decodeAlts_np : (alts : Alts) → (tag : Nat) → NoPanic (decodeAlts Cfg.fixed alts tag)
  | .nil, _ => by unfold decodeAlts; exact np_fail _
  | .cons none t rest, _ => by unfold decodeAlts; exact np_fail _
  | .cons (some tg) t rest, tag => by
    unfold decodeAlts
    split
    · exact decode_np t
    · exact np_bind np_tick fun _ => decodeAlts_np rest tag
end

/-! ### why `wf` is needed: zero-width vector elements -/

theorem decode_empty_struct (s : St) :
    decode Cfg.fixed (.struct .nil) s = (.ok 0, { s with steps := s.steps + 1 }) := by
  unfold decode; simp [bind, tick, decodeFields, ret]

theorem vecLoop_zero_steps (n : Nat) (s : St) :
    (vecLoop (decode Cfg.fixed (.struct .nil)) 0 n s).2.steps = s.steps + 2 * n ∧
    (vecLoop (decode Cfg.fixed (.struct .nil)) 0 n s).2.rest = s.rest := by
  induction n generalizing s with
  | zero => simp [vecLoop, ret]
  | succ n ih =>
    unfold vecLoop
    rw [decode_empty_struct]
    simp only
    obtain ⟨h1, h2⟩ := ih { rest := s.rest, alloc := s.alloc + 0, steps := s.steps + 1 + 1 }
    rw [h1, h2]
    exact ⟨by simp only; omega, rfl⟩

/-- a 4-byte count `n` makes the decoder of a vector of empty structs take more than `2n` steps -/
theorem zero_width_steps (b0 b1 b2 b3 : UInt8) :
    2 * le [b0, b1, b2, b3] ≤ (run Cfg.fixed (.vec 0 (.struct .nil)) [b0, b1, b2, b3]).2.steps := by
  unfold run decode
  have hc : Cfg.fixed.trustCount = false := rfl
  simp only [count_fixed, hc, Bool.false_eq_true, if_false, makeSliceCap_fixed, Int.toNat_natCast]
  simp only [read32, bind, tick, readFull, allocN, List.length_cons, List.length_nil, Nat.le_refl, if_true]
  rw [(vecLoop_zero_steps _ _).1]
  simp only [List.take]
  omega

end Tongo.TlD
