import TongoProofs.Lemmas.BocEmit
import TongoModel.BocWriter
/-! The width arithmetic of `serializeBoc`: the widths it chooses are sufficient (and minimal), so the bytes it
writes for an ordered table are an admissible instance of the reference writer. -/
namespace Tongo.Boc.Writer
open Tongo Tongo.Boc

theorem lt_pow_bitLen (n : Nat) : n < 2 ^ bitLen n := by
  unfold bitLen
  split
  · subst ‹n = 0›; simp
  · exact Nat.lt_log2_self

theorem bitLen_le (n k : Nat) (h : n < 2 ^ k) : bitLen n ≤ k := by
  unfold bitLen
  split
  · omega
  · have := (Nat.log2_lt ‹n ≠ 0›).2 h
    omega

theorem pow_bitLen_le (n : Nat) (h : n ≠ 0) : 2 ^ (bitLen n - 1) ≤ n := by
  unfold bitLen
  simp only [h, if_false, Nat.add_sub_cancel]
  exact Nat.log2_self_le h

theorem le_byteSize (b : Nat) : b ≤ 8 * byteSize b := by unfold byteSize; omega
theorem byteSize_ge (b : Nat) : 1 ≤ byteSize b := by unfold byteSize; omega
theorem byteSize_le (b k : Nat) (hk : 1 ≤ k) (h : b ≤ 8 * k) : byteSize b ≤ k := by unfold byteSize; omega

theorem pow256 (w : Nat) : 256 ^ w = 2 ^ (8 * w) := by
  rw [Nat.pow_mul]

/-- a value fits the byte width computed from its bit length -/
theorem fits (n : Nat) : n < 256 ^ byteSize (bitLen n) := by
  rw [pow256]
  exact Nat.lt_of_lt_of_le (lt_pow_bitLen n) (Nat.pow_le_pow_right (by omega) (le_byteSize _))

/-- the width is minimal: one byte less would not hold the value -/
theorem minimal (n : Nat) (h : 1 < byteSize (bitLen n)) : 256 ^ (byteSize (bitLen n) - 1) ≤ n := by
  have hn : n ≠ 0 := by
    intro h0; subst h0
    simp [bitLen, byteSize] at h
  have h1 := pow_bitLen_le n hn
  rw [pow256]
  refine Nat.le_trans (Nat.pow_le_pow_right (by omega) ?_) h1
  unfold byteSize at *
  omega

theorem refByteSize_le (n k : Nat) (hk : 1 ≤ k) (h : n < 256 ^ k) : refByteSize n ≤ k := by
  unfold refByteSize
  apply byteSize_le _ _ hk
  apply bitLen_le
  rwa [← pow256]

theorem sizeField_eq (v : Nat) (h : v ≤ 3) : sizeField v = v := by unfold sizeField; omega

theorem even_pow256 (w : Nat) (hw : 1 ≤ w) : ∃ k, 256 ^ w = 2 * k := by
  obtain ⟨v, rfl⟩ : ∃ v, w = v + 1 := ⟨w - 1, by omega⟩
  exact ⟨128 * 256 ^ v, by rw [Nat.pow_succ]; omega⟩

/-- the offset width also holds the doubled offsets plus the cache bit -/
theorem maxOffset_fits (tot : Nat) (cache : Bool) :
    (if cache then 2 * tot + 1 else tot) < 256 ^ offByteSize (maxOffset tot cache) := by
  unfold offByteSize maxOffset
  cases cache with
  | false => simpa using fits tot
  | true =>
    simp only [if_true]
    have h := fits (2 * tot)
    obtain ⟨k, hk⟩ := even_pow256 (byteSize (bitLen (2 * tot))) (byteSize_ge _)
    omega

end Tongo.Boc.Writer

namespace Tongo.Boc.Writer
open Tongo Tongo.Boc

theorem dataLen_le_emit (p : EmitParams) (t : Table) (roots : List Nat) :
    dataLen p t ≤ (emitBoc p t roots).length := by
  obtain ⟨B, h1, h2⟩ := emitBoc_form p t roots
  rw [h1, h2]
  unfold dataLen
  simp only [List.length_append, List.length_cons]
  omega

/-- the parameters chosen by serializeBoc are admissible (for fewer than 2²⁴ cells, roots among the cells) -/
theorem params_ok (t : Table) (roots : List Nat) (idx crc cache : Bool) (sc : List Bool)
    (hn : t.size < 16777216) (hr1 : 1 ≤ roots.length) (hrn : roots.length ≤ t.size)
    (hlen : (serializeOrdered t roots idx crc cache sc).length < two63) :
    ParamsOK (params t idx crc cache sc) t roots := by
  have hsz3 : refByteSize t.size ≤ 3 := refByteSize_le _ _ (by omega) (by simpa using hn)
  have hdl : dataLen (params t idx crc cache sc) t = dataSize (refByteSize t.size) t := rfl
  have hcache : (params t idx crc cache sc).cache = cache := by simp [params, EmitParams.cache]
  have htot63 : dataSize (refByteSize t.size) t < two63 := by
    have := dataLen_le_emit (params t idx crc cache sc) t roots
    rw [hdl] at this
    unfold serializeOrdered at hlen
    omega
  refine
    { magic_le := by simp [params]
      size_ge := byteSize_ge _
      size_le := by show refByteSize t.size ≤ 4; omega
      off_ge := byteSize_ge _
      off_le := ?_
      cells_fit := fits t.size
      roots_fit := Nat.lt_of_le_of_lt hrn (fits t.size)
      roots_ge := hr1
      absent_fit := Nat.pow_pos (by omega)
      tot_fit := ?_
      idx_root := by intro h; simp [params] at h
      stored_ok := by intro i h b hb; simp [params] at hb
      is_slice := hlen }
  · show offByteSize (maxOffset (dataSize (refByteSize t.size) t) cache) ≤ 8
    unfold offByteSize
    apply byteSize_le _ _ (by omega)
    apply bitLen_le
    unfold maxOffset two63 at *
    split <;> omega
  · rw [hcache, hdl]
    exact maxOffset_fits _ cache

theorem flatMap_BE_length (w : Nat) (l : List Nat) : (l.flatMap (toBytesBE w)).length = w * l.length := by
  induction l with
  | nil => simp
  | cons x xs ih => simp [List.flatMap_cons, ih, Nat.mul_succ]; omega

theorem emitCell_length_le (size : Nat) (r : CellRow) (hs : size ≤ 4) (hb : r.bits.length ≤ 1023)
    (hr : r.refs.length ≤ 4) : (emitCell size r none).length ≤ 146 := by
  have hfl : (r.refs.flatMap (toBytesBE size)).length = size * r.refs.length := by
    clear hr
    induction r.refs with
    | nil => simp
    | cons x xs ih => simp [List.flatMap_cons, ih, Nat.mul_succ]; omega
  have : size * r.refs.length ≤ 4 * 4 := Nat.mul_le_mul hs hr
  simp only [emitCell, Option.isSome_none, Option.getD_none, List.nil_append, List.length_cons, List.length_append,
    Boc.toppedUp_length, hfl]
  omega

theorem emitCells_flatten_le (size : Nat) (hs : size ≤ 4) (rows : List CellRow)
    (h : ∀ r ∈ rows, r.bits.length ≤ 1023 ∧ r.refs.length ≤ 4) :
    (emitCells size rows []).flatten.length ≤ 146 * rows.length := by
  induction rows with
  | nil => simp [emitCells]
  | cons r rs ih =>
    simp only [emitCells, List.headD_nil, List.tail_nil, List.flatten_cons, List.length_append, List.length_cons]
    have h1 := emitCell_length_le size r hs (h r (by simp)).1 (h r (by simp)).2
    have h2 := ih (fun x hx => h x (by simp [hx]))
    omega

/-- the output of serializeBoc is far below the size of a Go slice (for fewer than 2²⁴ cells) -/
theorem serializeOrdered_length_lt (t : Table) (roots : List Nat) (idx crc cache : Bool) (sc : List Bool)
    (hrows : ∀ i (h : i < t.size), t[i].bits.length ≤ 1023 ∧ t[i].refs.length ≤ 4)
    (hn : t.size < 16777216) (hrn : roots.length ≤ t.size) :
    (serializeOrdered t roots idx crc cache sc).length < two63 := by
  have hsz3 : refByteSize t.size ≤ 3 := refByteSize_le _ _ (by omega) (by simpa using hn)
  have hdata : dataSize (refByteSize t.size) t ≤ 146 * t.size := by
    have := emitCells_flatten_le (refByteSize t.size) (by omega) t.toList (by
      intro r hr
      obtain ⟨i, hi, rfl⟩ := List.getElem_of_mem hr
      have hi' : i < t.size := by simpa using hi
      simpa using hrows i hi')
    simpa [dataSize] using this
  have hoff : offByteSize (maxOffset (dataSize (refByteSize t.size) t) cache) ≤ 8 := by
    unfold offByteSize
    apply byteSize_le _ _ (by omega)
    apply bitLen_le
    unfold maxOffset
    split <;> omega
  unfold serializeOrdered
  obtain ⟨B, h1, h2⟩ := emitBoc_form (params t idx crc cache sc) t roots
  rw [h1, h2]
  have hm : (magicBytes (params t idx crc cache sc).magic).length = 4 := magicBytes_length _
  have hroots : ((if (params t idx crc cache sc).magic = 0 then roots.flatMap (toBytesBE (params t idx crc cache sc).size) else [])).length
      ≤ 3 * roots.length := by
    have := flatMap_BE_length (refByteSize t.size) roots
    simp only [params, if_true]
    rw [this]
    exact Nat.mul_le_mul_right _ hsz3
  have hidx : ((if (params t idx crc cache sc).idx then emitIndex (params t idx crc cache sc).offBytes
      (params t idx crc cache sc).cache 0 (emitCells (params t idx crc cache sc).size t.toList (params t idx crc cache sc).stored)
      (params t idx crc cache sc).cacheBits else [])).length ≤ 8 * t.size := by
    split
    · rw [emitIndex_length, emitCells_length]
      simp only [Array.length_toList]
      exact Nat.mul_le_mul_right _ hoff
    · simp
  have hcrc : ((if (params t idx crc cache sc).crc = true then toBytesLE32 (Crc.crc32c B).toNat else [])).length ≤ 4 := by
    split <;> simp [toBytesLE32]
  have hd : (emitCells (params t idx crc cache sc).size t.toList (params t idx crc cache sc).stored).flatten.length
      ≤ 146 * t.size := hdata
  simp only [List.length_append, List.length_cons, toBytesBE_length, hm]
  have hs : (params t idx crc cache sc).size ≤ 3 := hsz3
  have ho : (params t idx crc cache sc).offBytes ≤ 8 := hoff
  unfold two63
  omega

end Tongo.Boc.Writer
