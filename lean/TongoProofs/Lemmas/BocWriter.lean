import TongoProofs.Lemmas.BocEmit
import TongoModel.BocWriter
/-! The width arithmetic of `serializeBoc`: the widths it chooses are sufficient (and minimal), so the bytes it
writes for an ordered table are an admissible instance of the reference writer. -/
namespace Tongo.Boc.Writer
open Tongo Tongo.Boc

theorem lt_pow_bitLen (n : Nat) : n < 2 ^ bitLen n := by
  unfold bitLen
  split
  · subst ‹n = 0›; simp
  · exact Nat.lt_log2_self

theorem bitLen_le (n k : Nat) (h : n < 2 ^ k) : bitLen n ≤ k := by
  unfold bitLen
  split
  · omega
  · have := (Nat.log2_lt ‹n ≠ 0›).2 h
    omega

theorem pow_bitLen_le (n : Nat) (h : n ≠ 0) : 2 ^ (bitLen n - 1) ≤ n := by
  unfold bitLen
  simp only [h, if_false, Nat.add_sub_cancel]
  exact Nat.log2_self_le h

theorem le_byteSize (b : Nat) : b ≤ 8 * byteSize b := by unfold byteSize; omega
theorem byteSize_ge (b : Nat) : 1 ≤ byteSize b := by unfold byteSize; omega
theorem byteSize_le (b k : Nat) (hk : 1 ≤ k) (h : b ≤ 8 * k) : byteSize b ≤ k := by unfold byteSize; omega

theorem pow256 (w : Nat) : 256 ^ w = 2 ^ (8 * w) := by
  rw [Nat.pow_mul]

/-- a value fits the byte width computed from its bit length -/
theorem fits (n : Nat) : n < 256 ^ byteSize (bitLen n) := by
  rw [pow256]
  exact Nat.lt_of_lt_of_le (lt_pow_bitLen n) (Nat.pow_le_pow_right (by omega) (le_byteSize _))

/-- the width is minimal: one byte less would not hold the value -/
theorem minimal (n : Nat) (h : 1 < byteSize (bitLen n)) : 256 ^ (byteSize (bitLen n) - 1) ≤ n := by
  have hn : n ≠ 0 := by
    intro h0; subst h0
    simp [bitLen, byteSize] at h
  have h1 := pow_bitLen_le n hn
  rw [pow256]
  refine Nat.le_trans (Nat.pow_le_pow_right (by omega) ?_) h1
  unfold byteSize at *
  omega

theorem refByteSize_le (n k : Nat) (hk : 1 ≤ k) (h : n < 256 ^ k) : refByteSize n ≤ k := by
  unfold refByteSize
  apply byteSize_le _ _ hk
  apply bitLen_le
  rwa [← pow256]

theorem sizeField_eq (v : Nat) (h : v ≤ 3) : sizeField v = v := by unfold sizeField; omega

theorem even_pow256 (w : Nat) (hw : 1 ≤ w) : ∃ k, 256 ^ w = 2 * k := by
  obtain ⟨v, rfl⟩ : ∃ v, w = v + 1 := ⟨w - 1, by omega⟩
  exact ⟨128 * 256 ^ v, by rw [Nat.pow_succ]; omega⟩

/-- the offset width also holds the doubled offsets plus the cache bit -/
theorem maxOffset_fits (tot : Nat) (cache : Bool) :
    (if cache then 2 * tot + 1 else tot) < 256 ^ offByteSize (maxOffset tot cache) := by
  unfold offByteSize maxOffset
  cases cache with
  | false => simpa using fits tot
  | true =>
    simp only [if_true]
    have h := fits (2 * tot)
    obtain ⟨k, hk⟩ := even_pow256 (byteSize (bitLen (2 * tot))) (byteSize_ge _)
    omega

end Tongo.Boc.Writer

namespace Tongo.Boc.Writer
open Tongo Tongo.Boc

theorem dataLen_le_emit (p : EmitParams) (t : Table) (roots : List Nat) :
    dataLen p t ≤ (emitBoc p t roots).length := by
  obtain ⟨B, h1, h2⟩ := emitBoc_form p t roots
  rw [h1, h2]
  unfold dataLen
  simp only [List.length_append, List.length_cons]
  omega

/-- the parameters chosen by serializeBoc are admissible (for fewer than 2²⁴ cells, roots among the cells) -/
theorem params_ok (t : Table) (roots : List Nat) (idx crc cache : Bool) (sc : List Bool)
    (hn : t.size < 16777216) (hr1 : 1 ≤ roots.length) (hrn : roots.length ≤ t.size)
    (hlen : (serializeOrdered t roots idx crc cache sc).length < two63) :
    ParamsOK (params t idx crc cache sc) t roots := by
  have hsz3 : refByteSize t.size ≤ 3 := refByteSize_le _ _ (by omega) (by simpa using hn)
  have hdl : dataLen (params t idx crc cache sc) t = dataSize (refByteSize t.size) t := rfl
  have hcache : (params t idx crc cache sc).cache = cache := by simp [params, EmitParams.cache]
  have htot63 : dataSize (refByteSize t.size) t < two63 := by
    have := dataLen_le_emit (params t idx crc cache sc) t roots
    rw [hdl] at this
    unfold serializeOrdered at hlen
    omega
  refine
    { magic_le := by simp [params]
      size_ge := byteSize_ge _
      size_le := by show refByteSize t.size ≤ 4; omega
      off_ge := byteSize_ge _
      off_le := ?_
      cells_fit := fits t.size
      roots_fit := Nat.lt_of_le_of_lt hrn (fits t.size)
      roots_ge := hr1
      absent_fit := Nat.pow_pos (by omega)
      tot_fit := ?_
      idx_root := by intro h; simp [params] at h
      stored_ok := by intro i h b hb; simp [params] at hb
      is_slice := hlen }
  · show offByteSize (maxOffset (dataSize (refByteSize t.size) t) cache) ≤ 8
    unfold offByteSize
    apply byteSize_le _ _ (by omega)
    apply bitLen_le
    unfold maxOffset two63 at *
    split <;> omega
  · rw [hcache, hdl]
    exact maxOffset_fits _ cache

end Tongo.Boc.Writer
