import TongoProofs.Lemmas.PoolSMNotify
/-! The refresh of the repaired code works on ONE snapshot of the heads (helper lemmas for C13.select_spec_concurrent). -/
namespace Tongo.PoolSM
open Tongo.PoolSelect (Conn)

/-- repaired updateBest: progress of the two loops and agreement of what the selection loop uses with what the first
loop read -/
structure InvS (s : State) : Prop where
  readLen : ∀ i seqs rts, s.run = .ubRead i seqs rts → i ≤ s.heads.length
  selLen : ∀ i seqs rts acc, s.run = .ubSel i seqs rts acc → i ≤ s.heads.length ∧ seqs.length = s.heads.length ∧
    ∀ (k : Nat) (c : Conn), acc[k]? = some c → seqs[k]? = some c.seqno

theorem invS_step {v s a s'} (hv : v.oneSnapshot = true) (hL : InvL s) (h : InvS s) (hs : step v s a = some s') :
    InvS s' := by
  have hlen := heads_length hs
  obtain ⟨readLen, selLen⟩ := h
  have hro := hL.readOk
  have hso := hL.selOk
  constructor
  · intro i seqs rts hr
    rw [hlen]
    have key : (∃ j q r, s.run = .ubRead j q r ∧ (j = i ∨ (i = j + 1 ∧ j < s.heads.length))) ∨ i = 0 := by
      cases a <;> step_cases hs <;> grind [State.setW, State.setS]
    rcases key with ⟨j, q, r, hj, rfl | ⟨rfl, hlt⟩⟩ | rfl
    · exact readLen j q r hj
    · omega
    · omega
  · intro i seqs rts acc hr
    rw [hlen]
    have key : (∃ j r, s.run = .ubRead j seqs r ∧ ¬ j < s.heads.length ∧ i = 0 ∧ acc = []) ∨
        (∃ j q, s.run = .ubSel j seqs rts q ∧ ((j = i ∧ q = acc) ∨
          (i = j + 1 ∧ j < s.heads.length ∧ ∃ al rt, acc = q ++ [Conn.mk j al (seqs.getD j 0) rt]))) := by
      cases a <;> step_cases hs <;> grind [State.setW, State.setS]
    rcases key with ⟨j, r, hj, hnlt, rfl, rfl⟩ | ⟨j, q, hj, hcase⟩
    · have h1 := readLen j seqs r hj
      have h2 := (hro j seqs r hj).1
      exact ⟨by omega, by omega, by intro k c hc; simp at hc⟩
    · obtain ⟨h1, h2, h3⟩ := selLen j seqs rts q hj
      have hql := (hso j seqs rts q hj).1
      rcases hcase with ⟨rfl, rfl⟩ | ⟨rfl, hlt, al, rt, rfl⟩
      · exact ⟨h1, h2, h3⟩
      · refine ⟨by omega, h2, ?_⟩
        intro k c hc
        by_cases hk : k < q.length
        · rw [List.getElem?_append_left hk] at hc; exact h3 k c hc
        · have : k = q.length := by
            have := (List.getElem?_eq_some_iff.mp hc).1; simp at this; omega
          subst this
          simp at hc; subst hc
          simp only [List.getD_eq_getElem?_getD]
          rw [hql]
          have : j < seqs.length := by omega
          simp [List.getElem?_eq_getElem this]

theorem invS_init (heads best targets pubs st rtts) : InvS (mkInit heads best targets pubs st rtts) := by
  constructor
  · intro i seqs rts hr; simp [mkInit] at hr
  · intro i seqs rts acc hr; simp [mkInit] at hr

theorem reachable_invS {v s} (hv : v.oneSnapshot = true) (h : Reachable v s) : InvS s := by
  induction h with
  | init heads best targets pubs st rtts hp hh hb => exact invS_init ..
  | step hr hs ih => exact invS_step hv (reachable_invL hr) ih hs

/-- the maximum loop over heads = the maximum loop over the members carrying these heads -/
theorem maxOfSeqs_map (cs : List Conn) : PoolSelect.maxOfSeqs (cs.map (·.seqno)) = PoolSelect.maxSeqno cs := by
  unfold PoolSelect.maxOfSeqs PoolSelect.maxSeqno
  rw [List.foldl_map]

/-- `selectWith` with the members' own maximum is the specification (previous choice `none`) -/
theorem selectWith_eq_spec (st : PoolSelect.Strategy) (cs : List Conn) :
    PoolSelect.selectWith false st (PoolSelect.maxSeqno cs) cs = PoolSelect.specSelect st cs none := by
  unfold PoolSelect.selectWith PoolSelect.specSelect
  cases st with
  | other => rfl
  | bestPing =>
    simp only [PoolSelect.findBestPing_eq, PoolSelect.filter_working_false]
    cases PoolSelect.firstMin (PoolSelect.candidates cs) <;> rfl
  | firstWorking =>
    simp only [PoolSelect.findFirstWorking_eq, PoolSelect.filter_working_false]
    cases (PoolSelect.candidates cs).head? <;> rfl

end Tongo.PoolSM
