import TongoProofs.Lemmas.BitStringReadBits
/-! `Cell.CopyRemaining`. Helper lemmas only. -/
namespace Tongo.MCell
open Tongo.Bits Tongo.BitString

theorem copyRemaining_mk (b0 : BitString) (rs : List MCell) (k : Nat) (hi : Inv b0)
    (hfit : b0.len - b0.rCursor ≤ cellBits) (h4 : rs.length ≤ 4) (hk : k ≤ rs.length) :
    ∃ b, (copyRemaining (mk b0 rs k)).1 = .ok (mk b ((rs.drop k).map resetCounters) 0) ∧
      BitString.abs b = (BitString.abs b0).drop b0.rCursor ∧ Inv b ∧ b.rCursor = 0 ∧
      (copyRemaining (mk b0 rs k)).2 = mk b0 (rs.take k ++ (rs.drop k).map resetCounters) k := by
  have h8 := hi.len_le_buf
  have hc : b0.rCursor ≤ b0.len := hi.2.2.1
  obtain ⟨r, hr, ha, hir, _, hl, hr0⟩ := readBits_ok (b0.len - b0.rCursor) b0 h8 (by omega)
  have hrun : BitString.readRemainingBits b0 =
      (.ok r, { b0 with rCursor := b0.rCursor + (b0.len - b0.rCursor) }) := by
    simp only [readRemainingBits, bind_run, get_run, hr]
  have hnew : newWithBits r = .ok (mk r [] 0) := by
    have : ¬ r.len > cellBits := by omega
    simp only [newWithBits, this, if_false]
  have h1 : ¬ k > rs.length := by omega
  have h2 : ¬ ((rs.drop k).map resetCounters).length > 4 := by simp; omega
  refine ⟨r, ?_, ?_, hir, hr0, ?_⟩
  · simp only [copyRemaining, MCell.bits, MCell.refs, MCell.refCursor, hrun, hnew, h1, h2, if_false]
  · rw [ha, nextBits, List.take_of_length_le (by rw [List.length_drop, hi.abs_length])]
  · simp only [copyRemaining, MCell.bits, MCell.refs, MCell.refCursor, hrun, hnew, h1, h2, if_false]

theorem copyRemaining_ok (c : MCell) (hi : Inv c.bits) (hfit : c.bits.len - c.bits.rCursor ≤ cellBits)
    (h4 : c.refs.length ≤ 4) (hk : c.refCursor ≤ c.refs.length) :
    ∃ b, (c.copyRemaining).1 = .ok (mk b ((c.refs.drop c.refCursor).map resetCounters) 0) ∧
      BitString.abs b = (BitString.abs c.bits).drop c.bits.rCursor ∧ Inv b ∧ b.rCursor = 0 ∧
      (c.copyRemaining).2 = mk c.bits (c.refs.take c.refCursor ++ (c.refs.drop c.refCursor).map resetCounters) c.refCursor := by
  cases c with
  | mk b0 rs k => exact copyRemaining_mk b0 rs k hi hfit h4 hk

end Tongo.MCell
