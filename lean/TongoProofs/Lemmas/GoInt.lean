import TongoModel.GoInt
/-! Basic facts about the `math/bits` models of TongoModel/GoInt.lean (core Lean only). -/
namespace Tongo.GoInt

theorem ctzNat_le (f n : Nat) : ctzNat f n ≤ f := by
  induction f generalizing n with
  | zero => simp [ctzNat]
  | succ f ih =>
    unfold ctzNat; split
    · omega
    · have := ih (n / 2); omega

theorem ctz_le {w : Nat} (x : BitVec w) : ctz x ≤ w := ctzNat_le _ _

theorem lenNat_le (f n : Nat) : lenNat f n ≤ f := by
  induction f generalizing n with
  | zero => simp [lenNat]
  | succ f ih =>
    unfold lenNat; split
    · omega
    · have := ih (n / 2); omega

theorem popNat_le (f n : Nat) : popNat f n ≤ f := by
  induction f generalizing n with
  | zero => simp [popNat]
  | succ f ih =>
    unfold popNat
    have := ih (n / 2); omega

/-- the low `f` bits of `n` below `ctzNat f n` are 0 -/
theorem ctzNat_testBit_lt (f n j : Nat) (h : j < ctzNat f n) : n.testBit j = false := by
  induction f generalizing n j with
  | zero => simp [ctzNat] at h
  | succ f ih =>
    unfold ctzNat at h
    split at h
    · omega
    · rename_i hn
      cases j with
      | zero => simp [Nat.testBit_zero]; omega
      | succ j => rw [Nat.testBit_succ]; exact ih _ _ (by omega)

/-- if the count stops before `f`, it stops at a one bit -/
theorem ctzNat_testBit (f n : Nat) (h : ctzNat f n < f) : n.testBit (ctzNat f n) = true := by
  induction f generalizing n with
  | zero => omega
  | succ f ih =>
    unfold ctzNat at h ⊢
    split
    · rename_i hn; simp [Nat.testBit_zero, hn]
    · rename_i hn
      rw [if_neg hn] at h
      rw [Nat.testBit_succ]; exact ih _ (by omega)

/-- all low `f` bits zero ⇒ the count is `f` -/
theorem ctzNat_eq_fuel (f n : Nat) (h : ∀ j < f, n.testBit j = false) : ctzNat f n = f := by
  induction f generalizing n with
  | zero => rfl
  | succ f ih =>
    unfold ctzNat
    have h0 := h 0 (by omega)
    simp [Nat.testBit_zero] at h0
    rw [if_neg (by omega)]
    rw [ih (n / 2) (fun j hj => by have := h (j + 1) (by omega); rwa [Nat.testBit_succ] at this)]

theorem ctz_lt_of_ne_zero {w : Nat} {x : BitVec w} (h : x ≠ 0#w) : ctz x < w := by
  have hle := ctz_le x
  rcases Nat.lt_or_ge (ctz x) w with h1 | h1
  · exact h1
  · exfalso; apply h
    have he : ctz x = w := by omega
    apply BitVec.eq_of_getLsbD_eq
    intro i hi
    have := ctzNat_testBit_lt w x.toNat i (by unfold ctz at he; omega)
    simp [BitVec.getLsbD, this]

theorem getLsbD_ctz {w : Nat} {x : BitVec w} (h : x ≠ 0#w) : x.getLsbD (ctz x) = true := by
  have := ctzNat_testBit w x.toNat (ctz_lt_of_ne_zero h)
  simpa [BitVec.getLsbD, ctz] using this

theorem getLsbD_of_lt_ctz {w : Nat} {x : BitVec w} {j : Nat} (h : j < ctz x) : x.getLsbD j = false := by
  have := ctzNat_testBit_lt w x.toNat j h
  simpa [BitVec.getLsbD] using this

theorem ctz_zero {w : Nat} : ctz (0#w) = w := by
  unfold ctz; apply ctzNat_eq_fuel; intro j _; simp

/-- characterisation: the lowest set bit -/
theorem ctz_eq_of {w : Nat} {x : BitVec w} {k : Nat} (h1 : x.getLsbD k = true) (h2 : ∀ j < k, x.getLsbD j = false) :
    ctz x = k := by
  have hx : x ≠ 0#w := by intro h; simp [h] at h1
  have a := getLsbD_ctz hx
  rcases Nat.lt_trichotomy (ctz x) k with h | h | h
  · rw [h2 _ h] at a; cases a
  · exact h
  · rw [getLsbD_of_lt_ctz h] at h1; cases h1

theorem trailingZeros64_toNat (x : BitVec 64) : (trailingZeros64 x).toNat = ctz x := by
  have : ctz x ≤ 64 := ctz_le x
  simp [trailingZeros64]; omega

theorem trailingZeros64_add_one_toNat (x : BitVec 64) : (trailingZeros64 x + 1#64).toNat = ctz x + 1 := by
  have : ctz x ≤ 64 := ctz_le x
  simp [trailingZeros64, BitVec.toNat_add]; omega

end Tongo.GoInt
