import TongoProofs.Lemmas.TlBindings
import TongoModel.Tl.WaitBindings
namespace Tongo.Tl.Bind
open Tongo Tongo.Tl

theorem litEq_eq {a b : Val} (h : litEq a b = true) : a = b := by
  cases a <;> cases b <;> simp_all [litEq]

mutual
theorem TV.beq_inst (q : Nat) : ∀ (a b : TV), TV.beq a b = true → TV.inst q a = TV.inst q b
  | .lit a, .lit b, h => by simp only [TV.beq] at h; simp [TV.inst, litEq_eq h]
  | .seqno, .seqno, _ => rfl
  | .tuple a, .tuple b, h => by simp only [TV.beq] at h; simp [TV.inst, TV.beqL_inst q a b h]
  | .lit _, .seqno, h | .lit _, .tuple _, h | .seqno, .lit _, h | .seqno, .tuple _, h | .tuple _, .lit _, h
  | .tuple _, .seqno, h => by simp [TV.beq] at h
theorem TV.beqL_inst (q : Nat) : ∀ (a b : List TV), TV.beqL a b = true → TV.instL q a = TV.instL q b
  | [], [], _ => rfl
  | a :: as, b :: bs, h => by
    simp only [TV.beqL, Bool.and_eq_true] at h
    simp [TV.instL, TV.beq_inst q a b h.1, TV.beqL_inst q as bs h.2]
  | [], _ :: _, h | _ :: _, [], h => by simp [TV.beqL] at h
end

theorem waitParams_inst (q : Nat) : TV.instL q waitBlockParamsT = waitBlockParams q := by
  simp [waitBlockParamsT, waitBlockParams, TV.instL, TV.inst]

theorem waitPrefix_eq (seqno timeout : Nat) (hs : seqno < 2 ^ 32) (ht : timeout < 2 ^ 32) :
    waitPrefix seqno timeout = some (le 4 waitSeqnoDecl.id ++ le 4 seqno ++ le 4 timeout) := by
  simp [waitPrefix, encode, waitSchema, Schema.ctorOf?, waitSeqnoDecl, encodeFields, present?, hs, ht]

/-- WaitMasterchainSeqno: the three words appended by the Go code are the schema encoding of the prefix -/
theorem wait_seqno_eq (S : Schema) (W : WaitConsts) (h : waitAgree S W = true) (seqno timeout : Nat)
    (hs : seqno < 2 ^ 32) (ht : timeout < 2 ^ 32) :
    waitSeqnoRequest seqno timeout = some (waitSeqnoGo W seqno timeout) := by
  simp only [waitAgree, Bool.and_eq_true, beq_iff_eq] at h
  simp only [waitSeqnoRequest, waitPrefix_eq seqno timeout hs ht, waitSeqnoGo, h.1.1.1.1, List.append_assoc]

/-- WaitMasterchainBlock: prefix, wrapper id and the MarshalTL of the request struct literal are
`waitPrefix ‖ encodeRequest S "liteServer.lookupBlock" (waitBlockParams seqno)` -/
theorem wait_block_eq {S : Schema} {B : Bindings} (hA : agreeAll S B = true) (W : WaitConsts)
    (h : waitAgree S W = true) (d : Decl) (hf : S.func? "liteServer.lookupBlock" = some d) (seqno timeout fuel : Nat)
    (bs : Bytes) (hs : seqno < 2 ^ 32) (ht : timeout < 2 ^ 32)
    (hrep : repFields S d.fields (waitBlockParams seqno) = waitBlockParams seqno)
    (henc : waitBlockRequest S seqno timeout = some bs) (hfuel : 3 * depthList (waitBlockParams seqno) + 2 ≤ fuel) :
    waitBlockGo B W fuel seqno timeout = some bs := by
  have hc : d.ctor = "liteServer.lookupBlock" := by simpa using List.find?_some hf
  obtain ⟨⟨mm, hmm, hag⟩, _, _⟩ := func_pieces (func_binding hA hf)
  simp only [waitAgree, hf, Bool.and_eq_true, beq_iff_eq] at h
  obtain ⟨⟨⟨⟨hp, _⟩, _⟩, ⟨⟨hid, hreq⟩, _⟩⟩, hT⟩ := h
  simp only [waitBlockRequest, waitPrefix_eq seqno timeout hs ht, encodeRequest, hf] at henc
  cases hb : encodeFields S d.fields [] (waitBlockParams seqno) with
  | none => simp [hb] at henc
  | some b =>
    simp only [hb, Option.map_some, Option.some.injEq] at henc
    subst henc
    obtain ⟨F, rfl⟩ := succ_of_pos (by omega : 1 ≤ fuel)
    have hm := method_marshal (typesAgree_of_agreeAll hA) hag (waitBlockParams seqno) b F hb (by omega)
    rw [hrep] at hm
    simp only [waitBlockGo, hreq, TV.beqL_inst seqno _ _ hT, waitParams_inst, marshalGo_named_tuple, hmm, hm,
      Option.map_some, waitSeqnoGo, hp, hid, List.append_assoc]

end Tongo.Tl.Bind
