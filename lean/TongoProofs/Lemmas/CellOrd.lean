import TongoModel.CellOrd
import TongoProofs.Lemmas.Bits
/-! Lemmas about byte packing, the completion tag and the representation of level-0 cells: everything needed to show
that a cell's representation determines its bits and its children's hashes (helper lemmas for C14, C15, C19). -/
namespace Tongo.Bits

theorem natToBits_inj {n a b : Nat} (ha : a < 2 ^ n) (hb : b < 2 ^ n) (h : natToBits n a = natToBits n b) : a = b := by
  have := congrArg bitsToNat h
  rw [bitsToNat_natToBits, bitsToNat_natToBits, Nat.mod_eq_of_lt ha, Nat.mod_eq_of_lt hb] at this
  exact this

@[simp] theorem byteToBits_length_co (b : UInt8) : (byteToBits b).length = 8 := by simp [byteToBits]

theorem byteToBits_inj {a b : UInt8} (h : byteToBits a = byteToBits b) : a = b := by
  unfold byteToBits at h
  have := natToBits_inj (n := 8) (UInt8.toNat_lt a) (UInt8.toNat_lt b) h
  exact UInt8.toNat_inj.mp this

@[simp] theorem bytesToBits_nil_co : bytesToBits [] = [] := rfl
@[simp] theorem bytesToBits_cons_co (b : UInt8) (bs : List UInt8) : bytesToBits (b :: bs) = byteToBits b ++ bytesToBits bs := by
  simp [bytesToBits]
theorem bytesToBits_append_co (a b : List UInt8) : bytesToBits (a ++ b) = bytesToBits a ++ bytesToBits b := by
  simp [bytesToBits]

@[simp] theorem bytesToBits_length_co (bs : List UInt8) : (bytesToBits bs).length = 8 * bs.length := by
  induction bs with
  | nil => rfl
  | cons b bs ih => simp [ih]; omega

theorem bytesToBits_inj : ∀ {a b : List UInt8}, bytesToBits a = bytesToBits b → a = b
  | [], [], _ => rfl
  | [], b :: bs, h => by
    have := congrArg List.length h; simp at this; omega
  | a :: as, [], h => by
    have := congrArg List.length h; simp at this
  | a :: as, b :: bs, h => by
    simp only [bytesToBits_cons_co] at h
    have h1 := List.append_inj h (by simp)
    rw [byteToBits_inj h1.1, bytesToBits_inj h1.2]

/-- a full byte packs and unpacks to itself -/
theorem byteToBits_ofNat_bitsToNat (c : List Bool) (h : c.length = 8) : byteToBits (UInt8.ofNat (bitsToNat c)) = c := by
  unfold byteToBits
  have hlt := bitsToNat_lt c
  rw [h] at hlt
  have : (UInt8.ofNat (bitsToNat c)).toNat = bitsToNat c := by
    simp [UInt8.toNat_ofNat']; omega
  rw [this, ← h, natToBits_bitsToNat]

/-- padding needed to reach a byte boundary -/
def padLen (n : Nat) : Nat := (8 - n % 8) % 8

theorem bytesToBits_bitsToBytes_pad : (l : List Bool) →
    bytesToBits (bitsToBytes l) = l ++ List.replicate (padLen l.length) false
  | [] => by simp [bitsToBytes, padLen]
  | a :: t => by
    rw [bitsToBytes]
    simp only [bytesToBits_cons_co]
    by_cases hlen : (a :: t).length ≥ 8
    · -- a full byte, then the rest
      have htk : ((a :: t).take 8).length = 8 := by simp at hlen ⊢; omega
      rw [htk]
      simp only [Nat.sub_self, List.replicate_zero, List.append_nil]
      rw [byteToBits_ofNat_bitsToNat _ htk]
      have hd : t.drop 7 = (a :: t).drop 8 := by simp
      rw [hd, bytesToBits_bitsToBytes_pad ((a :: t).drop 8)]
      have hp : padLen ((a :: t).drop 8).length = padLen (a :: t).length := by
        simp only [List.length_drop, padLen, List.length_cons] at hlen ⊢
        omega
      rw [hp, ← List.append_assoc, List.take_append_drop]
    · -- the last, partial byte
      have hlt : (a :: t).length < 8 := by omega
      have htk : (a :: t).take 8 = a :: t := List.take_of_length_le (by omega)
      have hdr : t.drop 7 = [] := List.drop_eq_nil_of_le (by simp at hlt; omega)
      rw [htk, hdr]
      simp only [bitsToBytes, bytesToBits_nil_co, List.append_nil]
      rw [byteToBits_ofNat_bitsToNat _ (by simp at hlt ⊢; omega)]
      have : padLen (a :: t).length = 8 - (a :: t).length := by
        simp only [padLen, List.length_cons] at hlt ⊢; omega
      rw [this]
termination_by l => l.length
decreasing_by simp only [List.length_drop, List.length_cons]; omega

theorem bitsToBytes_inj {a b : List Bool} (hl : a.length = b.length) (h : bitsToBytes a = bitsToBytes b) : a = b := by
  have := congrArg bytesToBits h
  rw [bytesToBits_bitsToBytes_pad, bytesToBits_bitsToBytes_pad, hl] at this
  exact (List.append_inj this hl).1

theorem addTag_length_eq {a b : List Bool} (hl : a.length = b.length) : (addTag a).length = (addTag b).length := by
  unfold addTag; rw [hl]; split <;> simp [hl]

/-- bit lists of equal length with the same tagged bytes are equal -/
theorem toppedUp_inj_of_length_eq {a b : List Bool} (hl : a.length = b.length) (h : toppedUp a = toppedUp b) : a = b := by
  unfold toppedUp at h
  have h2 := bitsToBytes_inj (addTag_length_eq hl) h
  unfold addTag at h2
  rw [hl] at h2
  split at h2
  · exact h2
  · exact (List.append_inj h2 hl).1

theorem bitsToBytes_length' (l : List Bool) : (bitsToBytes l).length = (l.length + 7) / 8 := by
  have h := congrArg List.length (bytesToBits_bitsToBytes_pad l)
  simp only [bytesToBits_length_co, List.length_append, List.length_replicate, padLen] at h
  omega

theorem toppedUp_length (l : List Bool) : (toppedUp l).length = (l.length + 7) / 8 := by
  unfold toppedUp addTag
  rw [bitsToBytes_length']
  split
  · rfl
  · simp only [List.length_append, List.length_cons, List.length_replicate]; omega

/-- a bit list followed by the tag bit and zeros determines the bit list -/
theorem append_tag_inj : ∀ (a b : Nat) (l l' : List Bool),
    l ++ true :: List.replicate a false = l' ++ true :: List.replicate b false → l = l' := by
  intro a b l l' h
  have hr := congrArg List.reverse h
  simp only [List.reverse_append, List.reverse_cons, List.reverse_replicate, List.append_assoc, List.singleton_append] at hr
  -- replicate a false ++ true :: l.reverse = replicate b false ++ true :: l'.reverse
  have key : ∀ (a b : Nat) (x y : List Bool),
      List.replicate a false ++ true :: x = List.replicate b false ++ true :: y → x = y := by
    intro a
    induction a with
    | zero =>
      intro b x y h
      cases b with
      | zero => simpa using h
      | succ b => simp [List.replicate_succ] at h
    | succ a ih =>
      intro b x y h
      cases b with
      | zero => simp [List.replicate_succ] at h
      | succ b =>
        simp only [List.replicate_succ, List.cons_append, List.cons.injEq, true_and] at h
        exact ih b x y h
  have := key a b _ _ hr
  have h2 := congrArg List.reverse this
  simpa using h2

/-- bit lists (of any lengths) with the same second descriptor byte and the same tagged bytes are equal -/
theorem toppedUp_inj {a b : List Bool} (ha : a.length ≤ 1023) (hb : b.length ≤ 1023)
    (hd : (a.length + 7) / 8 + a.length / 8 = (b.length + 7) / 8 + b.length / 8) (h : toppedUp a = toppedUp b) : a = b := by
  by_cases hal : a.length % 8 = 0
  · have hbl : b.length % 8 = 0 := by omega
    have : a.length = b.length := by omega
    exact toppedUp_inj_of_length_eq this h
  · have hbl : ¬ b.length % 8 = 0 := by omega
    unfold toppedUp addTag at h
    simp only [hal, hbl, ↓reduceIte] at h
    have h2 := congrArg bytesToBits h
    rw [bytesToBits_bitsToBytes_pad, bytesToBits_bitsToBytes_pad] at h2
    -- both sides: bits ++ true :: zeros ++ padding zeros
    have e : ∀ (l : List Bool) (k p : Nat), (l ++ true :: List.replicate k false) ++ List.replicate p false =
        l ++ true :: List.replicate (k + p) false := by
      intro l k p
      rw [List.append_assoc, List.cons_append, ← List.replicate_append_replicate]
    rw [e, e] at h2
    exact append_tag_inj _ _ _ _ h2

end Tongo.Bits
