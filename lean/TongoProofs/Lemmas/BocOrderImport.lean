import TongoProofs.Lemmas.BocOrderArr
/-! `importCell` (boc/boc.go): post-order import with de-duplication. Every imported cell has the key of the row it
stands for, children first, keys pairwise distinct, and everything imported is a descendant of the requested cell. -/
namespace Tongo.Boc.Order
open Tongo

variable {K : Type} [BEq K] [Hashable K] [LawfulBEq K]

/-- pointwise relation between two lists of the same length -/
inductive All2 {α β : Type} (R : α → β → Prop) : List α → List β → Prop where
  | nil : All2 R [] []
  | cons {a : α} {b : β} {as : List α} {bs : List β} : R a b → All2 R as bs → All2 R (a :: as) (b :: bs)

theorem All2.mono {α β : Type} {R S : α → β → Prop} {l : List α} {l' : List β} (h : All2 R l l')
    (hrs : ∀ a b, R a b → S a b) : All2 S l l' := by
  induction h with
  | nil => exact .nil
  | cons hd _ ih => exact .cons (hrs _ _ hd) ih

theorem All2.left {α β : Type} {R : α → β → Prop} {P : α → Prop} {l : List α} {l' : List β} (h : All2 R l l')
    (hr : ∀ a b, R a b → P a) : ∀ a ∈ l, P a := by
  induction h with
  | nil => intro a ha; simp at ha
  | cons hd _ ih =>
    intro a ha
    rcases List.mem_cons.1 ha with rfl | ha
    · exact hr _ _ hd
    · exact ih a ha

/-- descendants in an array of reference lists (reflexive) -/
inductive Desc (refs : Array (List Nat)) : Nat → Nat → Prop where
  | refl (a : Nat) : Desc refs a a
  | step {a c k : Nat} : c ∈ refs[a]! → Desc refs c k → Desc refs a k

/-- descendants among the rows of the input table (reflexive) -/
inductive TDesc (t : Table) : Nat → Nat → Prop where
  | refl (a : Nat) : TDesc t a a
  | step {a c k : Nat} : c ∈ (t[a]!).refs → TDesc t c k → TDesc t a k

theorem TDesc.trans {t : Table} {a b c : Nat} (h1 : TDesc t a b) (h2 : TDesc t b c) : TDesc t a c := by
  induction h1 with
  | refl => exact h2
  | step hc _ ih => exact .step hc (ih h2)

section
variable (t : Table) (key : Nat → Option K) (ds : Array Nat)

/-- what the import needs from the input: references point forward inside the table, every row has a key, the depth
ranking `ds` is bounded by the depth limit, and no row has the key of one of its strict descendants -/
structure InputOK : Prop where
  fwd : ∀ i, i < t.size → ∀ r ∈ (t[i]!).refs, i < r ∧ r < t.size
  keyed : ∀ i, i < t.size → (key i).isSome
  rank : ∀ i, i < t.size → ds[i]! ≤ maxDepth ∧ ∀ r ∈ (t[i]!).refs, ds[r]! + 1 ≤ ds[i]!
  key_wf : ∀ i, i < t.size → ∀ c ∈ (t[i]!).refs, ∀ j, TDesc t c j → key i ≠ key j

structure ImpInv (st : ImpState K) : Prop where
  s_refs : st.refs.size = st.rows.size
  s_cache : st.cache.size = st.rows.size
  s_wt : st.wt.size = st.rows.size
  row_ok : ∀ k, k < st.rows.size → st.rows[k]! < t.size ∧
    All2 (fun c r => c < k ∧ key (st.rows[c]!) = key r) (st.refs[k]!) (t[st.rows[k]!]!).refs
  map_ok : ∀ h k, st.cells[h]? = some k ↔ (k < st.rows.size ∧ key (st.rows[k]!) = some h)

structure ImpExt (st st' : ImpState K) : Prop where
  size_le : st.rows.size ≤ st'.rows.size
  rows_pre : ∀ k, k < st.rows.size → st'.rows[k]! = st.rows[k]!
  refs_pre : ∀ k, k < st.rows.size → st'.refs[k]! = st.refs[k]!

theorem ImpExt.refl (st : ImpState K) : ImpExt st st := ⟨Nat.le_refl _, fun _ _ => rfl, fun _ _ => rfl⟩

theorem ImpExt.trans {a b c : ImpState K} (h1 : ImpExt a b) (h2 : ImpExt b c) : ImpExt a c :=
  ⟨Nat.le_trans h1.size_le h2.size_le,
   fun k hk => by rw [h2.rows_pre k (Nat.lt_of_lt_of_le hk h1.size_le), h1.rows_pre k hk],
   fun k hk => by rw [h2.refs_pre k (Nat.lt_of_lt_of_le hk h1.size_le), h1.refs_pre k hk]⟩

/-- children have smaller import indices -/
theorem ImpInv.child_lt {st : ImpState K} (h : ImpInv t key st) {k c : Nat} (hk : k < st.rows.size)
    (hc : c ∈ st.refs[k]!) : c < k :=
  (h.row_ok k hk).2.left (P := fun c => c < k) (fun _ _ hr => hr.1) c hc

/-- descendants survive an extension of the import state -/
theorem Desc.ext {st st' : ImpState K} (hi : ImpInv t key st) (he : ImpExt st st') {a k : Nat}
    (ha : a < st.rows.size) (h : Desc st.refs a k) : Desc st'.refs a k := by
  induction h with
  | refl => exact .refl _
  | @step a c k hc _ ih =>
    have hlt := hi.child_lt t key ha hc
    exact .step (by rw [he.refs_pre a ha]; exact hc) (ih (Nat.lt_trans hlt ha))


/-- what a call of importCell with enough fuel guarantees -/
def ImportSpec (f : Nat) (rec : ImpState K → Nat → Nat → Outcome (ImpState K × Nat)) : Prop :=
  ∀ st i depth, ImpInv t key st → i < t.size → t.size - i < f → depth + ds[i]! ≤ maxDepth →
    ∃ st' pos, rec st i depth = .ok (st', pos) ∧ ImpInv t key st' ∧ ImpExt st st' ∧ pos < st'.rows.size ∧
      key (st'.rows[pos]!) = key i ∧
      ∀ k, st.rows.size ≤ k → k < st'.rows.size →
        Desc st'.refs pos k ∧ ∃ j, TDesc t i j ∧ key (st'.rows[k]!) = key j

theorem refs_spec {f : Nat} {rec : ImpState K → Nat → Nat → Outcome (ImpState K × Nat)}
    (hrec : ImportSpec t key ds f rec) (depth : Nat) (rs : List Nat) (st : ImpState K) (sum : Int)
    (hinv : ImpInv t key st)
    (hrs : ∀ r ∈ rs, r < t.size ∧ t.size - r < f ∧ depth + 1 + ds[r]! ≤ maxDepth) :
    ∃ st' ps sum', importRefs rec depth rs st sum = .ok (st', ps, sum') ∧ ImpInv t key st' ∧ ImpExt st st' ∧
      All2 (fun c r => c < st'.rows.size ∧ key (st'.rows[c]!) = key r) ps rs ∧
      ∀ k, st.rows.size ≤ k → k < st'.rows.size →
        (∃ p ∈ ps, Desc st'.refs p k) ∧ ∃ r ∈ rs, ∃ j, TDesc t r j ∧ key (st'.rows[k]!) = key j := by
  induction rs generalizing st sum with
  | nil =>
    exact ⟨st, [], sum, rfl, hinv, ImpExt.refl st, .nil, fun k h1 h2 => by omega⟩
  | cons r rs ih =>
    obtain ⟨hr1, hr2, hr3⟩ := hrs r (by simp)
    obtain ⟨st1, p, e1, i1, x1, hp, hkp, hnew1⟩ := hrec st r (depth + 1) hinv hr1 hr2 hr3
    obtain ⟨st2, ps, sum2, e2, i2, x2, hall2, hnew2⟩ := ih st1 (sum + st1.wt[p]!) i1
      (fun x hx => hrs x (by simp [hx]))
    refine ⟨st2, p :: ps, sum2, by simp only [importRefs, e1, e2], i2, x1.trans x2, ?_, ?_⟩
    · refine .cons ⟨Nat.lt_of_lt_of_le hp x2.size_le, ?_⟩ hall2
      rw [x2.rows_pre p hp]; exact hkp
    · intro k hk1 hk2
      by_cases hk : k < st1.rows.size
      · obtain ⟨d, j, hj, hkj⟩ := hnew1 k hk1 hk
        refine ⟨⟨p, by simp, Desc.ext t key i1 x2 hp d⟩, r, by simp, j, hj, ?_⟩
        rw [x2.rows_pre k hk]; exact hkj
      · obtain ⟨⟨q, hq, d⟩, r', hr', j, hj, hkj⟩ := hnew2 k (by omega) hk2
        exact ⟨⟨q, by simp [hq], d⟩, r', by simp [hr'], j, hj, hkj⟩


theorem import_step (hin : InputOK t key ds) {f : Nat}
    {rec : ImpState K → Nat → Nat → Outcome (ImpState K × Nat)} (hrec : ImportSpec t key ds f rec) :
    ImportSpec t key ds (f + 1) (importStep t key rec) := by
  intro st i depth hinv hi hfuel hdepth
  unfold importStep
  have hd : ¬ depth > maxDepth := by omega
  simp only [hd, if_false]
  have hrow : t[i]? = some (t[i]!) := by
    rw [Array.getElem?_eq_getElem hi, getElem!_pos t i hi]
  rw [hrow]
  simp only
  obtain ⟨h, hkey⟩ := Option.isSome_iff_exists.1 (hin.keyed i hi)
  rw [hkey]
  simp only
  rcases hfind : st.cells[h]? with _ | pos
  · -- a new cell: import the children, then append
    simp only
    obtain ⟨st2, ps, sum2, e2, i2, x2, hall2, hnew2⟩ := refs_spec t key ds hrec depth (t[i]!).refs st 1 hinv (by
      intro r hr
      obtain ⟨a, b⟩ := hin.fwd i hi r hr
      have := (hin.rank i hi).2 r hr
      exact ⟨b, by omega, by omega⟩)
    rw [e2]
    simp only
    have hm := i2.s_refs
    have hlt : ∀ k, k < st2.rows.size → (st2.rows.push i)[k]! = st2.rows[k]! := fun k hk => get!_push_lt _ _ _ hk
    have heq : (st2.rows.push i)[st2.rows.size]! = i := get!_push_eq _ _
    have rlt : ∀ k, k < st2.rows.size → (st2.refs.push ps)[k]! = st2.refs[k]! :=
      fun k hk => get!_push_lt _ _ _ (by rw [hm]; exact hk)
    have req : (st2.refs.push ps)[st2.rows.size]! = ps := by rw [← hm]; exact get!_push_eq _ _
    -- the key of the new cell is not in the map yet
    have hnot : ∀ k, k < st2.rows.size → key (st2.rows[k]!) ≠ some h := by
      intro k hk hke
      by_cases hks : k < st.rows.size
      · have := (hinv.map_ok h k).2 ⟨hks, by rw [← x2.rows_pre k hks]; exact hke⟩
        rw [hfind] at this; cases this
      · obtain ⟨_, r, hr, j, hj, hkj⟩ := hnew2 k (by omega) hk
        exact hin.key_wf i hi r hr j hj (by rw [hkey, ← hke, hkj])
    refine ⟨_, _, rfl, ⟨?_, ?_, ?_, ?_, ?_⟩, ⟨?_, ?_, ?_⟩, ?_, ?_, ?_⟩
    · simp [hm]
    · simp [i2.s_cache]
    · simp [i2.s_wt]
    · intro k hk
      simp only [Array.size_push] at hk
      by_cases hk' : k < st2.rows.size
      · simp only [hlt k hk', rlt k hk']
        obtain ⟨a, b⟩ := i2.row_ok k hk'
        refine ⟨a, b.mono ?_⟩
        intro c r ⟨h1, h2⟩
        exact ⟨h1, by rw [hlt c (by omega)]; exact h2⟩
      · have hk'' : k = st2.rows.size := by omega
        subst hk''
        simp only [heq, req]
        refine ⟨hi, hall2.mono ?_⟩
        intro c r ⟨h1, h2⟩
        exact ⟨h1, by rw [hlt c h1]; exact h2⟩
    · intro h' k
      simp only [Std.HashMap.getElem?_insert, Array.size_push]
      by_cases hh : (h == h') = true
      · have hh' : h = h' := eq_of_beq hh
        subst hh'
        simp only [hh, if_true, Option.some.injEq]
        constructor
        · intro hk; subst hk
          exact ⟨by omega, by rw [heq]; exact hkey⟩
        · intro ⟨hk1, hk2⟩
          by_cases hk' : k < st2.rows.size
          · rw [hlt k hk'] at hk2
            exact absurd hk2 (hnot k hk')
          · omega
      · simp only [hh, Bool.false_eq_true, if_false]
        rw [i2.map_ok h' k]
        constructor
        · intro ⟨hk1, hk2⟩
          exact ⟨by omega, by rw [hlt k hk1]; exact hk2⟩
        · intro ⟨hk1, hk2⟩
          by_cases hk' : k < st2.rows.size
          · exact ⟨hk', by rw [← hlt k hk']; exact hk2⟩
          · have hk'' : k = st2.rows.size := by omega
            subst hk''
            rw [heq, hkey] at hk2
            have : h = h' := Option.some.inj hk2
            subst this
            simp at hh
    · simp only [Array.size_push]; have := x2.size_le; omega
    · intro k hk
      simp only
      rw [hlt k (Nat.lt_of_lt_of_le hk x2.size_le)]; exact x2.rows_pre k hk
    · intro k hk
      simp only
      rw [rlt k (Nat.lt_of_lt_of_le hk x2.size_le)]; exact x2.refs_pre k hk
    · simp
    · simp only [heq]; exact hkey
    · intro k hk1 hk2
      simp only [Array.size_push] at hk2
      -- descendants: stable under the final push
      have hpush : ∀ a k', a < st2.rows.size → Desc st2.refs a k' → Desc (st2.refs.push ps) a k' := by
        intro a k' ha hd'
        induction hd' with
        | refl => exact .refl _
        | @step a c k'' hc _ ih =>
          have hlt' := i2.child_lt t key ha hc
          exact .step (by rw [rlt a ha]; exact hc) (ih (Nat.lt_trans hlt' ha))
      by_cases hk' : k < st2.rows.size
      · obtain ⟨⟨p, hp, d⟩, r, hr, j, hj, hkj⟩ := hnew2 k hk1 hk'
        have hpl : p < st2.rows.size := (hall2.left (P := fun c => c < st2.rows.size) (fun _ _ h => h.1)) p hp
        refine ⟨.step (by rw [req]; exact hp) (hpush p k hpl d), j, .step hr hj, ?_⟩
        simp only [hlt k hk']; exact hkj
      · have hk'' : k = st2.rows.size := by omega
        subst hk''
        exact ⟨.refl _, i, .refl _, by simp only [heq]⟩
  · -- already imported: only the cache flag changes
    simp only
    obtain ⟨hp1, hp2⟩ := (hinv.map_ok h pos).1 hfind
    refine ⟨_, _, rfl, ⟨hinv.s_refs, ?_, hinv.s_wt, hinv.row_ok, hinv.map_ok⟩, ⟨Nat.le_refl _, fun _ _ => rfl, fun _ _ => rfl⟩,
      hp1, hp2, fun k h1 h2 => by simp only at h2; omega⟩
    simp [hinv.s_cache]

theorem importCell_spec (hin : InputOK t key ds) : ∀ f, ImportSpec t key ds f (importCell t key f) := by
  intro f
  induction f with
  | zero => intro st i depth _ _ hf _; omega
  | succ f ih => exact import_step t key ds hin ih

end
end Tongo.Boc.Order

namespace Tongo.Boc.Order
open Tongo
variable {K : Type} [BEq K] [Hashable K] [LawfulBEq K]

theorem impInv_empty (t : Table) (key : Nat → Option K) : ImpInv t key ({} : ImpState K) := by
  refine ⟨rfl, rfl, rfl, ?_, ?_⟩
  · intro k hk; simp at hk
  · intro h k
    constructor
    · intro hh
      have : (({} : ImpState K).cells)[h]? = none := Std.HashMap.getElem?_empty
      rw [this] at hh; cases hh
    · intro ⟨hk, _⟩; simp at hk

theorem importRoots_spec (t : Table) (key : Nat → Option K) (ds : Array Nat) (hin : InputOK t key ds)
    (roots : List Nat) (hr : ∀ r ∈ roots, r < t.size) (st : ImpState K) (hinv : ImpInv t key st) :
    ∃ st' ps, importRootsLoop t key (t.size + 1) roots st = .ok (st', ps) ∧ ImpInv t key st' ∧ ImpExt st st' ∧
      All2 (fun c r => c < st'.rows.size ∧ key (st'.rows[c]!) = key r) ps roots ∧
      ∀ k, st.rows.size ≤ k → k < st'.rows.size →
        (∃ p ∈ ps, Desc st'.refs p k) ∧ ∃ r ∈ roots, ∃ j, TDesc t r j ∧ key (st'.rows[k]!) = key j := by
  induction roots generalizing st with
  | nil => exact ⟨st, [], rfl, hinv, ImpExt.refl st, .nil, fun k h1 h2 => by omega⟩
  | cons r rs ih =>
    have hrt := hr r (by simp)
    obtain ⟨st1, p, e1, i1, x1, hp, hkp, hnew1⟩ := importCell_spec t key ds hin (t.size + 1) st r 0 hinv hrt
      (by omega) (by have := (hin.rank r hrt).1; omega)
    obtain ⟨st2, ps, e2, i2, x2, hall2, hnew2⟩ := ih (fun x hx => hr x (by simp [hx])) st1 i1
    refine ⟨st2, p :: ps, by simp only [importRootsLoop, e1, e2], i2, x1.trans x2, ?_, ?_⟩
    · refine .cons ⟨Nat.lt_of_lt_of_le hp x2.size_le, ?_⟩ hall2
      rw [x2.rows_pre p hp]; exact hkp
    · intro k hk1 hk2
      by_cases hk : k < st1.rows.size
      · obtain ⟨d, j, hj, hkj⟩ := hnew1 k hk1 hk
        refine ⟨⟨p, by simp, Desc.ext t key i1 x2 hp d⟩, r, by simp, j, hj, ?_⟩
        rw [x2.rows_pre k hk]; exact hkj
      · obtain ⟨⟨q, hq, d⟩, r', hr', j, hj, hkj⟩ := hnew2 k (by omega) hk2
        exact ⟨⟨q, by simp [hq], d⟩, r', by simp [hr'], j, hj, hkj⟩

end Tongo.Boc.Order
