import TongoModel.Hashmap
import TongoProofs.Lemmas.Bits
/-! The ascending order of key bits (`lexLt`), longest common prefixes, and the facts about lexicographically sorted
lists of equal-width keys that the dictionary encoder relies on. -/
namespace Tongo.Hashmap
open Tongo Tongo.Bits

/-! ### lexLt is a strict total order on keys of one width -/

theorem lexLt_irrefl (a : Key) : lexLt a a = false := by
  induction a with
  | nil => rfl
  | cons x t ih => cases x <;> simp [lexLt, ih]

theorem lexLt_trans : ∀ (a b c : Key), lexLt a b = true → lexLt b c = true → lexLt a c = true
  | [], [], _, h, _ => by simp [lexLt] at h
  | [], _ :: _, [], _, h => by simp [lexLt] at h
  | [], _ :: _, _ :: _, _, _ => by simp [lexLt]
  | _ :: _, [], _, h, _ => by simp [lexLt] at h
  | _ :: _, _ :: _, [], _, h => by simp [lexLt] at h
  | x :: a, y :: b, z :: c, h1, h2 => by
    have ih := lexLt_trans a b c
    cases x <;> cases y <;> cases z <;> simp_all [lexLt]

theorem lexLt_asymm (a b : Key) (h : lexLt a b = true) : lexLt b a = false := by
  cases hba : lexLt b a with
  | false => rfl
  | true => have := lexLt_trans a b a h hba; rw [lexLt_irrefl] at this; cases this

theorem lexLt_total : ∀ (a b : Key), a.length = b.length → a ≠ b → lexLt a b = true ∨ lexLt b a = true
  | [], [], _, h => by simp at h
  | [], _ :: _, h, _ => by simp at h
  | _ :: _, [], h, _ => by simp at h
  | x :: a, y :: b, hl, hne => by
    have ih := lexLt_total a b (by simpa using hl)
    cases x <;> cases y <;> simp_all [lexLt]

@[simp] theorem lexLt_append_left (p a b : Key) : lexLt (p ++ a) (p ++ b) = lexLt a b := by
  induction p with
  | nil => rfl
  | cons x p ih => cases x <;> simp [lexLt, ih]

@[simp] theorem lexLt_cons_same (x : Bool) (a b : Key) : lexLt (x :: a) (x :: b) = lexLt a b := by
  cases x <;> simp [lexLt]

@[simp] theorem lexLt_false_true (a b : Key) : lexLt (false :: a) (true :: b) = true := by simp [lexLt]

@[simp] theorem lexLt_true_false (a b : Key) : lexLt (true :: a) (false :: b) = false := by simp [lexLt]

/-- for keys of one width the bit order is the unsigned numeric order of the encodings -/
theorem lexLt_iff_bitsToNat : ∀ (a b : Key), a.length = b.length → (lexLt a b = true ↔ bitsToNat a < bitsToNat b)
  | [], [], _ => by simp [lexLt]
  | [], _ :: _, h => by simp at h
  | _ :: _, [], h => by simp at h
  | x :: a, y :: b, hl => by
    have hl' : a.length = b.length := by simpa using hl
    have ih := lexLt_iff_bitsToNat a b hl'
    have ha := bitsToNat_lt a
    have hb := bitsToNat_lt b
    rw [bitsToNat_cons, bitsToNat_cons, hl']
    rw [hl'] at ha
    cases x <;> cases y <;> simp [lexLt, ih] <;> omega

theorem bitsToNat_inj : ∀ (a b : Key), a.length = b.length → bitsToNat a = bitsToNat b → a = b := by
  intro a b hl h
  have := natToBits_bitsToNat a
  rw [h, hl, natToBits_bitsToNat] at this
  exact this.symm

/-- non-strict order -/
def lexLe (a b : Key) : Prop := lexLt a b = true ∨ a = b

/-! ### longest common prefix -/

def lcp : Key → Key → Key
  | a :: as, b :: bs => if a = b then a :: lcp as bs else []
  | _, _ => []

/-- two different keys of one width split after their common prefix -/
theorem lcp_split : ∀ (a b : Key), a.length = b.length → a ≠ b →
    ∃ x a' b', a = lcp a b ++ x :: a' ∧ b = lcp a b ++ (!x) :: b' ∧ a'.length = b'.length
  | [], [], _, h => by simp at h
  | [], _ :: _, h, _ => by simp at h
  | _ :: _, [], h, _ => by simp at h
  | x :: a, y :: b, hl, hne => by
    by_cases hxy : x = y
    · subst hxy
      have hne' : a ≠ b := fun h => hne (by rw [h])
      obtain ⟨z, a', b', h1, h2, h3⟩ := lcp_split a b (by simpa using hl) hne'
      refine ⟨z, a', b', ?_, ?_, h3⟩
      · simp only [lcp, if_true, List.cons_append]; rw [← h1]
      · simp only [lcp, if_true, List.cons_append]; rw [← h2]
    · refine ⟨x, a, b, ?_, ?_, by simpa using hl⟩
      · simp [lcp, hxy]
      · have : y = !x := by cases x <;> cases y <;> simp_all
        simp [lcp, this]

theorem lcp_split_lt (a b : Key) (hl : a.length = b.length) (hlt : lexLt a b = true) :
    ∃ a' b', a = lcp a b ++ false :: a' ∧ b = lcp a b ++ true :: b' ∧ a'.length = b'.length := by
  have hne : a ≠ b := by intro h; rw [h, lexLt_irrefl] at hlt; cases hlt
  obtain ⟨x, a', b', h1, h2, h3⟩ := lcp_split a b hl hne
  cases x with
  | false => exact ⟨a', b', h1, h2, h3⟩
  | true =>
    exfalso
    generalize lcp a b = p at h1 h2
    rw [h1, h2] at hlt
    simp at hlt

/-- a key between two keys that share a prefix shares it too -/
theorem prefix_of_between : ∀ (p a' b' k : Key), (p ++ a').length = k.length →
    lexLe (p ++ a') k → lexLe k (p ++ b') → ∃ k', k = p ++ k'
  | [], _, _, k, _, _, _ => ⟨k, rfl⟩
  | x :: p, a', b', [], hl, _, _ => by simp at hl
  | x :: p, a', b', y :: k, hl, h1, h2 => by
    have hxy : x = y := by
      rcases h1 with h1 | h1 <;> rcases h2 with h2 | h2
      · cases x <;> cases y <;> simp_all
      · simp at h2; exact h2.1.symm
      · simp at h1; exact h1.1
      · simp at h1; exact h1.1
    subst hxy
    have h1' : lexLe (p ++ a') k := by
      rcases h1 with h1 | h1
      · left; simpa using h1
      · right; simpa using h1
    have h2' : lexLe k (p ++ b') := by
      rcases h2 with h2 | h2
      · left; simpa using h2
      · right; simpa using h2
    obtain ⟨k', hk'⟩ := prefix_of_between p a' b' k (by simpa using hl) h1' h2'
    exact ⟨k', by rw [hk']; rfl⟩

/-! ### sorted lists -/

/-- entries listed in strictly ascending order of key bits -/
def SortedKV {V : Type} (kvs : List (Key × V)) : Prop := kvs.Pairwise (fun a b => lexLt a.1 b.1 = true)

theorem pairwise_le_getLast {α : Type} {R : α → α → Prop} (l : List α) (h : l ≠ []) (hp : l.Pairwise R) :
    ∀ x ∈ l, R x (l.getLast h) ∨ x = l.getLast h := by
  intro x hx
  have hd := List.dropLast_concat_getLast h
  rw [← hd] at hp hx
  rw [List.pairwise_append] at hp
  rw [List.mem_append] at hx
  rcases hx with hx | hx
  · left; exact hp.2.2 x hx _ (by simp)
  · right; simpa using hx

end Tongo.Hashmap
