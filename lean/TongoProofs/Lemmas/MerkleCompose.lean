import TongoProofs.Lemmas.MerkleDict
import TongoProofs.Lemmas.CellTable
/-! Helper lemmas for the C18 compositions (`proof_boc`). -/
open Tongo Tongo.Merkle
namespace Tongo.MerkleLemmas
open Tongo.CellHashLemmas

theorem mapM_some_length {α β : Type} (f : α → Option β) : ∀ (l : List α) (cs : List β), l.mapM f = some cs →
    cs.length = l.length := by
  intro l
  induction l with
  | nil => intro cs h; simp at h; subst h; rfl
  | cons a t ih =>
    intro cs h
    rw [List.mapM_cons] at h
    cases ha : f a with
    | none => rw [ha] at h; cases h
    | some b =>
      cases ht : t.mapM f with
      | none => rw [ha, ht] at h; cases h
      | some bs =>
        rw [ha, ht] at h
        simp only [Option.bind_eq_bind, Option.bind_some, Option.pure_def, Option.some.injEq] at h
        subst h
        simp [ih bs ht]

/-- C02's `impl_eq_spec`, restated from the lemma it is proved from -/
theorem C02core (H : List UInt8 → List UInt8) (c : Cell) (hwf : Spec.wfExotic c = true) (hd : Spec.tooDeep c = false) :
    ∃ info, Cell.info H c = .ok info ∧
      (∀ l, l ≤ 4 → info.hashAt l = .ok (Spec.hashAt H c l) ∧ info.depthAt l = .ok (Spec.depthAt c l)) ∧ True := by
  obtain ⟨info, e, _, _, _, hm⟩ := (good_cell H c (wfExotic_wfSizes c hwf)).1 hd
  exact ⟨info, e, hm, trivial⟩

/-- the root row of a table unfolds to a cell with the row's type, mask and bits, and as many refs -/
theorem unfold_root_row (t : Table) (fuel i : Nat) (ty mask : Nat) (bits : List Bool) (kids : List Cell)
    (h : Table.unfold t fuel i = some (.mk ty mask bits kids)) :
    ∃ row, t[i]? = some row ∧ row.ty = ty ∧ row.mask = mask ∧ row.bits = bits ∧ row.refs.length = kids.length := by
  cases fuel with
  | zero => simp [Table.unfold] at h
  | succ f =>
    simp only [Table.unfold] at h
    cases hr : t[i]? with
    | none => rw [hr] at h; cases h
    | some row =>
      simp only [hr] at h
      cases hm : row.refs.mapM (fun r => if r > i then Table.unfold t f r else none) with
      | none => rw [hm] at h; cases h
      | some cs =>
        rw [hm] at h
        simp only [Option.some.injEq, Cell.mk.injEq] at h
        obtain ⟨h1, h2, h3, h4⟩ := h
        subst h4
        exact ⟨row, rfl, h1, h2, h3, (mapM_some_length _ _ _ hm).symm⟩


end Tongo.MerkleLemmas
