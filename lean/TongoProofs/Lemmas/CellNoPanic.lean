import TongoProofs.Lemmas.BocHash
import TongoModel.CellHashSpec
/-! Helper lemma for C02 `no_panic_any`: with the 128-byte cell buffer, hashing never panics on any tree whose masks
have three bits — whatever the cell types, data lengths and refs (reuses agent boc's per-cell lemmas `computeInfo_ok`,
`InfoOK`). -/
open Tongo
namespace Tongo.CellHashLemmas
open Tongo.BocHash

theorem hashIndex_le_three : ∀ m, m < 8 → LevelMask.hashIndex m ≤ 3 := by decide

mutual
theorem info_no_panic (H : List UInt8 → List UInt8) : (c : Cell) → Spec.wfMasks c = true →
    (∀ p, Cell.info H c ≠ .panic p) ∧ ∀ i, Cell.info H c = .ok i → InfoOK i
  | .mk ty mask bits refs, h => by
    simp only [Spec.wfMasks, Bool.and_eq_true, decide_eq_true_eq] at h
    have hm : mask < 8 := by omega
    have ⟨hnp, hok⟩ := infoList_no_panic H refs h.2
    unfold Cell.info
    cases hcs : Cell.infoList H refs with
    | panic q => exact absurd hcs (hnp q)
    | err e => exact ⟨fun p => by simp [bind, Outcome.bind], fun i hi => by simp [bind, Outcome.bind] at hi⟩
    | ok cs =>
      simp only [bind, Outcome.bind]
      exact computeInfo_ok H ty mask bits (parsedBuf bits) cs hm (hok cs hcs)
        (fun _ => by
          have h3 := hashIndex_le_three mask hm
          have hb := (parsedBuf_length bits).2
          simp only [bufBytes] at hb
          omega)
theorem infoList_no_panic (H : List UInt8 → List UInt8) : (cs : List Cell) → Spec.wfMasksL cs = true →
    (∀ p, Cell.infoList H cs ≠ .panic p) ∧ ∀ is, Cell.infoList H cs = .ok is → ∀ i ∈ is, InfoOK i
  | [], _ => by
    unfold Cell.infoList
    exact ⟨fun p => by simp, fun is his i hi => by simp only [Outcome.ok.injEq] at his; subst his; simp at hi⟩
  | c :: cs, h => by
    simp only [Spec.wfMasksL, Bool.and_eq_true] at h
    have ⟨hnp1, hok1⟩ := info_no_panic H c h.1
    have ⟨hnp2, hok2⟩ := infoList_no_panic H cs h.2
    unfold Cell.infoList
    cases h1 : Cell.info H c with
    | panic q => exact absurd h1 (hnp1 q)
    | err e => exact ⟨fun p => by simp [bind, Outcome.bind], fun is his => by simp [bind, Outcome.bind] at his⟩
    | ok i1 =>
      cases h2 : Cell.infoList H cs with
      | panic q => exact absurd h2 (hnp2 q)
      | err e => exact ⟨fun p => by simp [bind, Outcome.bind], fun is his => by simp [bind, Outcome.bind] at his⟩
      | ok is2 =>
        simp only [bind, Outcome.bind, pure]
        refine ⟨fun p => by simp, ?_⟩
        intro is his i hi
        simp only [Outcome.ok.injEq] at his
        subst his
        rcases List.mem_cons.1 hi with rfl | hi
        · exact hok1 _ h1
        · exact hok2 _ h2 i hi
end

end Tongo.CellHashLemmas
