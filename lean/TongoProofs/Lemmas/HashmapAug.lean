import TongoProofs.Lemmas.HashmapEncode
/-! HashmapAug (decode side only — tongo has no encoder for it): `mapInnerAug` on the cell tree of a valid
`HashmapAug n X Y` yields its key→value meaning; the extras are skipped. -/
namespace Tongo.Hashmap
open Tongo Tongo.Bits

/-- ahm_edge / ahmn_leaf / ahmn_fork: every node carries an extra `Y` -/
inductive ATree (V Y : Type) where
  | leaf (l : Lbl) (y : Y) (v : V)
  | fork (l : Lbl) (y : Y) (lo hi : ATree V Y)

namespace ATree
variable {V Y : Type}

def Valid : Nat → ATree V Y → Prop
  | m, leaf l _ _ => l.bits.length = m
  | m, fork l _ lo hi => l.bits.length < m ∧ Valid (m - l.bits.length - 1) lo ∧ Valid (m - l.bits.length - 1) hi

def meaning : ATree V Y → List (Key × V)
  | leaf l _ v => [(l.bits, v)]
  | fork l _ lo hi =>
    (meaning lo).map (fun kv => (l.bits ++ false :: kv.1, kv.2)) ++
    (meaning hi).map (fun kv => (l.bits ++ true :: kv.1, kv.2))

/-- the tree of extras Go builds -/
def extras : ATree V Y → AugExtras Y
  | leaf _ y _ => .leaf y
  | fork _ y lo hi => .fork y (extras lo) (extras hi)

/-- leaf: label, extra, value; fork: label, extra and the two branches (the extra's own refs come after them) -/
def toCell (pay : V → List Bool × List Cell) (xpay : Y → List Bool × List Cell) : Nat → ATree V Y → Cell
  | m, leaf l y v => Cell.ordinary (l.enc m ++ ((xpay y).1 ++ (pay v).1)) ((xpay y).2 ++ (pay v).2)
  | m, fork l y lo hi =>
    Cell.ordinary (l.enc m ++ (xpay y).1)
      (toCell pay xpay (m - l.bits.length - 1) lo :: toCell pay xpay (m - l.bits.length - 1) hi :: (xpay y).2)
end ATree

/-- the extra decoder reads back the serialised extra and consumes exactly it -/
def DecodesExtra {Y : Type} (xdec : XDec Y) (xpay : Y → List Bool × List Cell) : Prop :=
  ∀ y rb rr, xdec ((xpay y).1 ++ rb) ((xpay y).2 ++ rr) = .ok (y, rb, rr)

theorem mapInnerAug_toCell {V Y : Type} (skipX : XDec Y) (zero : Y)
    (C : Codec V) (pay : V → List Bool × List Cell) (xpay : Y → List Bool × List Cell)
    (hskip : DecodesExtra skipX xpay) (n : Nat) (hn : n < 2 ^ 64) (t : ATree V Y) :
    (∀ kv ∈ t.meaning, DecodesValue C pay kv.2) →
    ∀ (m : Nat) (pfx : Key) (fuel : Nat), t.Valid m → pfx.length + m = n → m < fuel →
      mapInnerAug skipX zero C n fuel (m : Int) (t.toCell pay xpay m) pfx =
        .ok (t.meaning.map (fun kv => (pfx ++ kv.1, kv.2)), t.extras) := by
  induction t with
  | leaf l y v =>
    intro hdec m pfx fuel hv hlen hf
    have hdv : C.dec (pay v).1 (pay v).2 = .ok v := hdec (l.bits, v) (by simp [ATree.meaning])
    obtain ⟨f, rfl⟩ : ∃ f, fuel = f + 1 := ⟨fuel - 1, by omega⟩
    simp only [ATree.Valid] at hv
    have hm : m < 2 ^ 64 := by omega
    simp only [ATree.toCell, Cell.ordinary, mapInnerAug]
    rw [loadLabel_enc l m n pfx _ hm (by omega) (by omega)]
    have h1 : ¬ ((pfx ++ l.bits).length < n) := by simp; omega
    have ht1 : ¬ ((0 : Nat) = tyPruned) := by decide
    have ht2 : ¬ ((0 : Nat) = tyLibrary) := by decide
    simp only [ht1, ht2, h1, if_false, hskip y, hdv, ATree.meaning, ATree.extras, List.map_cons, List.map_nil]
  | fork l y lo hi ihlo ihhi =>
    intro hdec m pfx fuel hv hlen hf
    have hdlo : ∀ kv ∈ lo.meaning, DecodesValue C pay kv.2 := fun kv hkv =>
      hdec (l.bits ++ false :: kv.1, kv.2) (by
        simp only [ATree.meaning, List.mem_append, List.mem_map]; exact Or.inl ⟨kv, hkv, rfl⟩)
    have hdhi : ∀ kv ∈ hi.meaning, DecodesValue C pay kv.2 := fun kv hkv =>
      hdec (l.bits ++ true :: kv.1, kv.2) (by
        simp only [ATree.meaning, List.mem_append, List.mem_map]; exact Or.inr ⟨kv, hkv, rfl⟩)
    obtain ⟨f, rfl⟩ : ∃ f, fuel = f + 1 := ⟨fuel - 1, by omega⟩
    simp only [ATree.Valid] at hv
    obtain ⟨hl, hvlo, hvhi⟩ := hv
    have hm : m < 2 ^ 64 := by omega
    simp only [ATree.toCell, Cell.ordinary, mapInnerAug]
    rw [loadLabel_enc l m n pfx _ hm (by omega) (by omega)]
    have h1 : (pfx ++ l.bits).length < n := by simp; omega
    have ht1 : ¬ ((0 : Nat) = tyPruned) := by decide
    have ht2 : ¬ ((0 : Nat) = tyLibrary) := by decide
    have hleft : (m : Int) - (1 + (l.bits.length : Int)) = ((m - l.bits.length - 1 : Nat) : Int) := by omega
    simp only [ht1, ht2, h1, if_true, if_false, hleft]
    rw [ihlo hdlo (m - l.bits.length - 1) (pfx ++ l.bits ++ [false]) f hvlo (by simp; omega) (by omega)]
    rw [ihhi hdhi (m - l.bits.length - 1) (pfx ++ l.bits ++ [true]) f hvhi (by simp; omega) (by omega)]
    have hsk := hskip y [] []
    simp only [List.append_nil] at hsk
    simp only [hsk]
    simp [ATree.meaning, ATree.extras, List.map_append, List.map_map, Function.comp_def, List.append_assoc]

theorem atree_toCell_ty {V Y : Type} (pay : V → List Bool × List Cell) (xpay : Y → List Bool × List Cell)
    (t : ATree V Y) (m : Nat) : (t.toCell pay xpay m).ty = 0 := by
  cases t <;> rfl

end Tongo.Hashmap
