import TongoProofs.Lemmas.CellHash
/-! Helper lemmas for C02: induction over the cell tree — `Cell.info` (the model of `newImmutableCell` on a whole
tree) against `Spec.hashAt`/`Spec.depthAt`, including the depth limit. -/
open Tongo
namespace Tongo.CellHashLemmas

/-- `i` answers like the definition for `c` at levels 0..4 (level 4 is what a Merkle parent asks at its level 3) -/
def Matches (H : List UInt8 → List UInt8) (i : HashInfo) (c : Cell) : Prop :=
  ∀ l, l ≤ 4 → i.hashAt l = .ok (Spec.hashAt H c l) ∧ i.depthAt l = .ok (Spec.depthAt c l)

theorem kids_nil : Kids [] [] [] := ⟨rfl, rfl, fun _ _ => rfl, fun _ _ => rfl⟩

theorem kids_cons {H i c is cs} (hm : Matches H i c) (k : Kids is (Spec.hashAtL H cs) (Spec.depthAtL cs)) :
    Kids (i :: is) (Spec.hashAtL H (c :: cs)) (Spec.depthAtL (c :: cs)) := by
  refine ⟨by simp [Spec.hashAtL, k.hlen], by simp [Spec.depthAtL, k.dlen], ?_, ?_⟩
  · intro l hl
    rw [List.mapM_cons, (hm l hl).1, k.hs l hl]
    rfl
  · intro l hl
    rw [List.mapM_cons, (hm l hl).2, k.ds l hl]
    rfl

theorem sig_facts : ∀ m, m < 8 → ∀ l, l < 5 →
    (LevelMask.isSignificant m l = true → l ≤ LevelMask.level m) ∧
    LevelMask.isSignificant m l = Spec.significant m l ∧ LevelMask.isSignificant m 0 = true := by decide +kernel

theorem depthLevel_sig {ty mask bits kd} (hty : ty ≠ tyPruned) {i : Nat} (hs : Spec.significant mask i = true) :
    Spec.depthLevel ty mask bits kd i = Spec.nodeDepth (kd.map (· (Spec.childLevel ty i))) := by
  cases i <;> simp [Spec.depthLevel, hty, hs]

theorem ovf_iff {ty : Nat} {kd : List (Nat → Nat)} (i : Nat) :
    Ovf ty kd i ↔ Spec.maxDepth < Spec.nodeDepth (kd.map (· (Spec.childLevel ty i))) := by
  unfold Ovf Spec.nodeDepth Spec.maxDepth Tongo.maxDepth
  cases kd with
  | nil => simp
  | cons a t => simp; omega

theorem deepNode_iff {ty mask bits kd} (hm : mask < 8) (hty : ty ≠ tyPruned) :
    (∃ i, i ≤ LevelMask.level mask ∧ LevelMask.isSignificant mask i = true ∧ Ovf ty kd i) ↔
      Spec.deepNode ty mask bits kd = true := by
  have hl3 := (level_facts mask hm).2.1
  simp only [Spec.deepNode, Bool.and_eq_true, bne_iff_ne, ne_eq, hty, not_false_eq_true, true_and, List.any_eq_true,
    List.mem_range, decide_eq_true_eq]
  constructor
  · rintro ⟨i, hi, hs, ho⟩
    refine ⟨i, by omega, ?_⟩
    rw [depthLevel_sig hty (by rw [← (sig_facts mask hm i (by omega)).2.1]; exact hs)]
    exact (ovf_iff i).mp ho
  · rintro ⟨l, hl, hd⟩
    induction l with
    | zero =>
      have hs := (sig_facts mask hm 0 (by omega)).2.2
      refine ⟨0, by omega, hs, (ovf_iff 0).mpr ?_⟩
      rw [← depthLevel_sig (bits := bits) hty (by rw [← (sig_facts mask hm 0 (by omega)).2.1]; exact hs)]
      exact hd
    | succ j ih =>
      obtain ⟨g1, g2, _⟩ := sig_facts mask hm (j + 1) (by omega)
      cases hs : LevelMask.isSignificant mask (j + 1) with
      | true =>
        refine ⟨j + 1, g1 hs, hs, (ovf_iff _).mpr ?_⟩
        rw [← depthLevel_sig (bits := bits) hty (by rw [← g2]; exact hs)]
        exact hd
      | false =>
        apply ih (by omega)
        have : Spec.significant mask (j + 1) = false := by rw [← g2]; exact hs
        simpa [Spec.depthLevel, hty, this] using hd

/-- what the induction over the tree establishes for one cell -/
def Good (H : List UInt8 → List UInt8) (c : Cell) : Prop :=
  (Spec.tooDeep c = false → ∃ info, Cell.info H c = .ok info ∧ info.ty = c.ty ∧ info.mask = c.mask ∧
      info.buf = parsedBuf c.bits ∧ Matches H info c) ∧
  (Spec.tooDeep c = true → Cell.info H c = .err "depth is too big")

def GoodL (H : List UInt8 → List UInt8) (cs : List Cell) : Prop :=
  (Spec.tooDeepL cs = false → ∃ is, Cell.infoList H cs = .ok is ∧ Kids is (Spec.hashAtL H cs) (Spec.depthAtL cs)) ∧
  (Spec.tooDeepL cs = true → Cell.infoList H cs = .err "depth is too big")

theorem good_node (H : List UInt8 → List UInt8) (ty mask : Nat) (bits : List Bool) (refs : List Cell)
    (hs : Spec.sizesNode ty mask bits refs = true) (hl : GoodL H refs) : Good H (.mk ty mask bits refs) := by
  simp only [Spec.sizesNode, Bool.and_eq_true, decide_eq_true_eq, Bool.or_eq_true, bne_iff_ne, ne_eq,
    List.isEmpty_iff] at hs
  obtain ⟨hm7, hpr⟩ := hs
  have hm : mask < 8 := by omega
  unfold Good
  simp only [Spec.tooDeep, Bool.or_eq_false_iff, Bool.or_eq_true, Cell.info, Cell.ty, Cell.mask, Cell.bits]
  by_cases hty : ty = tyPruned
  · -- pruned branch: no children, never too deep by itself
    subst hty
    obtain ⟨rfl, hlen⟩ := hpr.resolve_left (by simp)
    have hlen' : 2 + 34 * Spec.popcount mask ≤ (Bits.bitsToBytes bits).length := by
      rw [bitsToBytes_length]; omega
    obtain ⟨info, e, h1, h2, h3, h4⟩ := computeInfo_pr H mask bits hm hlen'
    have hnd : Spec.deepNode tyPruned mask bits (Spec.depthAtL []) = false := by simp [Spec.deepNode]
    constructor
    · intro _
      refine ⟨info, ?_, h1, h2, h3, ?_⟩
      · simp only [Cell.infoList, Outcome.bind_ok]; exact e
      · intro l hl
        simp only [Spec.hashAt, Spec.depthAt, Spec.hashAtL, Spec.depthAtL]
        exact h4 l hl
    · intro h
      rcases h with h | h
      · simp [Spec.tooDeepL] at h
      · rw [hnd] at h; cases h
  · cases hdl : Spec.tooDeepL refs with
    | true =>
      constructor
      · rintro ⟨h, _⟩; cases h
      · intro _
        rw [hl.2 hdl]; rfl
    | false =>
      obtain ⟨is, e, k⟩ := hl.1 hdl
      obtain ⟨c1, c2⟩ := computeInfo_np (H := H) (bits := bits) hm hty k (parsedBuf bits)
      rw [e]
      simp only [Outcome.bind_ok]
      constructor
      · rintro ⟨_, hnd⟩
        have hno : ∀ i, i ≤ LevelMask.level mask → LevelMask.isSignificant mask i = true → ¬ Ovf ty (Spec.depthAtL refs) i := by
          intro i hi hs ho
          have := (deepNode_iff (bits := bits) hm hty).mp ⟨i, hi, hs, ho⟩
          rw [hnd] at this; cases this
        obtain ⟨info, e', h1, h2, h3, h4⟩ := c1 hno
        refine ⟨info, e', h1, h2, h3, ?_⟩
        intro l hl
        simp only [Spec.hashAt, Spec.depthAt]
        exact h4 l hl
      · intro h
        have hd : Spec.deepNode ty mask bits (Spec.depthAtL refs) = true := by
          rcases h with h | h
          · cases h
          · exact h
        exact c2 ((deepNode_iff hm hty).mpr hd)

mutual
theorem good_cell (H : List UInt8 → List UInt8) : ∀ c : Cell, Spec.wfSizes c = true → Good H c
  | .mk ty mask bits refs, h => by
    simp only [Spec.wfSizes, Bool.and_eq_true] at h
    exact good_node H ty mask bits refs h.1 (good_list H refs h.2)
theorem good_list (H : List UInt8 → List UInt8) : ∀ cs : List Cell, Spec.wfSizesL cs = true → GoodL H cs
  | [], _ => ⟨fun _ => ⟨[], rfl, kids_nil⟩, fun h => by simp [Spec.tooDeepL] at h⟩
  | c :: cs, h => by
    simp only [Spec.wfSizesL, Bool.and_eq_true] at h
    have g1 := good_cell H c h.1
    have g2 := good_list H cs h.2
    unfold GoodL
    simp only [Spec.tooDeepL, Bool.or_eq_false_iff, Bool.or_eq_true, Cell.infoList]
    constructor
    · rintro ⟨d1, d2⟩
      obtain ⟨i, e1, _, _, _, m⟩ := g1.1 d1
      obtain ⟨is, e2, k⟩ := g2.1 d2
      exact ⟨i :: is, by rw [e1, e2]; rfl, kids_cons m k⟩
    · intro hd
      cases d1 : Spec.tooDeep c with
      | true => rw [g1.2 d1]; rfl
      | false =>
        obtain ⟨i, e1, _⟩ := g1.1 d1
        have d2 : Spec.tooDeepL cs = true := by
          rcases hd with hd | hd
          · rw [d1] at hd; cases hd
          · exact hd
        rw [e1, g2.2 d2]; rfl
end

end Tongo.CellHashLemmas

namespace Tongo.CellHashLemmas

theorem wfNode_sizesNode {ty mask bits kids} (h : Spec.wfNode ty mask bits kids = true) :
    Spec.sizesNode ty mask bits kids = true := by
  simp only [Spec.wfNode, Bool.and_eq_true, decide_eq_true_eq] at h
  obtain ⟨⟨⟨hm, _⟩, _⟩, hc⟩ := h
  simp only [Spec.sizesNode, Bool.and_eq_true, decide_eq_true_eq, Bool.or_eq_true, bne_iff_ne, ne_eq]
  refine ⟨hm, ?_⟩
  by_cases hty : ty = tyPruned
  · right
    subst hty
    simp only [show tyPruned ≠ tyOrdinary from by decide, if_false, if_true, Bool.and_eq_true, beq_iff_eq] at hc
    exact ⟨hc.1.1, by omega⟩
  · left; exact hty

mutual
theorem wfExotic_wfSizes : ∀ c : Cell, Spec.wfExotic c = true → Spec.wfSizes c = true
  | .mk ty mask bits refs, h => by
    simp only [Spec.wfExotic, Bool.and_eq_true] at h
    simp only [Spec.wfSizes, Bool.and_eq_true]
    exact ⟨wfNode_sizesNode h.1, wfExoticL_wfSizesL refs h.2⟩
theorem wfExoticL_wfSizesL : ∀ cs : List Cell, Spec.wfExoticL cs = true → Spec.wfSizesL cs = true
  | [], _ => rfl
  | c :: cs, h => by
    simp only [Spec.wfExoticL, Bool.and_eq_true] at h
    simp only [Spec.wfSizesL, Bool.and_eq_true]
    exact ⟨wfExotic_wfSizes c h.1, wfExoticL_wfSizesL cs h.2⟩
end

end Tongo.CellHashLemmas
