import TongoProofs.C05
import TongoProofs.Lemmas.WalletInt
/-! Extra currencies of an outgoing message (`ExtraCurrencyCollection` = `HashmapE 32 (VarUInteger 32)`): what the
builder writes is read back, through the dictionary theorems of C05. -/
namespace Tongo.Wallet
open Tongo Tongo.Bits Tongo.Hashmap Tongo.C05

/-- the payload of one dictionary value: `VarUInteger 32` of the amount, no refs -/
def extraPay (n : Nat) : List Bool × List Cell := (varUInt32Bits n, [])

theorem extra_encodes (n : Nat) (h : byteLen n ≤ 31) : Encodes extraCodec extraPay n := by
  refine ⟨by simp [extraCodec, extraPay, Nat.not_lt.mpr h], ?_⟩
  unfold DecodesValue extraCodec extraPay varUInt32Bits
  simp only []
  rw [CellR.readUint_append 5 _ _ _ (by omega)]
  simp only [Outcome.bind]
  have := CellR.readUint_append (8 * byteLen n) n [] [] (by
    have := byteLen_spec n
    rw [Nat.pow_mul]; simpa using this)
  rw [List.append_nil] at this
  rw [Nat.mul_comm (byteLen n) 8, this]

/-- The dictionary of the extra currencies round-trips: whenever the builder's dictionary encoder succeeds on the
requested (id, amount) pairs (ids `uint32`, amounts of at most 31 bytes), the ids were pairwise distinct and the
dictionary decoder returns exactly those pairs, in ascending order of the id bits. -/
theorem extra_dict_roundtrip (extra : List (Nat × Nat)) (hne : extra ≠ []) (hid : ∀ p ∈ extra, p.1 < 2 ^ 32)
    (hamt : ∀ p ∈ extra, byteLen p.2 ≤ 31) (d : Cell) (h : Hashmap.marshal extraCodec 32 (extraKvs extra) = .ok d) :
    (keysOf (extraKvs extra)).Nodup ∧ d.ty = 0 ∧ Hashmap.unmarshal extraCodec 32 d = .ok (sortKV (extraKvs extra)) := by
  have hne' : extraKvs extra ≠ [] := by
    cases extra with
    | nil => exact absurd rfl hne
    | cons a l => simp [extraKvs]
  have hw : ∀ kv ∈ extraKvs extra, kv.1.length = 32 := by
    intro kv hkv
    simp only [extraKvs, List.mem_map] at hkv
    obtain ⟨p, _, rfl⟩ := hkv
    simp
  have henc : ∀ kv ∈ extraKvs extra, Encodes extraCodec extraPay kv.2 := by
    intro kv hkv
    simp only [extraKvs, List.mem_map] at hkv
    obtain ⟨p, hp, rfl⟩ := hkv
    exact extra_encodes p.2 (hamt p hp)
  obtain ⟨h1, _, h3, h4⟩ := marshal_unmarshal_sound extraCodec extraPay 32 (by decide) _ hne' hw henc d h
  exact ⟨h1, h3, h4⟩

/-- Builder and reader composed at the value field of the message: after `writeExtra` on the requested extra currencies
(non-empty, ids `uint32`, amounts of at most 31 bytes) the reader `readExtra` — the `ExtraCurrencyCollection` decoder at
that position — returns exactly the requested pairs in ascending id-bit order and leaves the rest of the cell. An empty
request writes the single bit 0 and reads back as no currencies. -/
theorem extra_currencies_roundtrip (b : CellB) (extra : List (Nat × Nat)) (hid : ∀ p ∈ extra, p.1 < 2 ^ 32)
    (hamt : ∀ p ∈ extra, byteLen p.2 ≤ 31) (b' : CellB) (h : writeExtra b extra = .ok b') (rest : List Bool) (refs : List Cell) :
    (extra = [] → b' = { bits := b.bits ++ [false], refs := b.refs } ∧
        readExtra { bits := false :: rest, refs := refs } = .ok ([], { bits := rest, refs := refs }))
    ∧ (extra ≠ [] → ∃ d, Hashmap.marshal extraCodec 32 (extraKvs extra) = .ok d ∧
        b' = { bits := b.bits ++ [true], refs := b.refs ++ [d] } ∧
        readExtra { bits := true :: rest, refs := d :: refs } =
          .ok ((sortKV (extraKvs extra)).map (fun kv => (bitsToNat kv.1, kv.2)), { bits := rest, refs := refs })) := by
  constructor
  · intro he
    subst he
    simp only [writeExtra, List.isEmpty_nil, ↓reduceIte, CellB.write] at h
    split at h
    · simp only [Outcome.ok.injEq] at h
      exact ⟨h.symm, rfl⟩
    · cases h
  · intro hne
    have hemp : extra.isEmpty = false := by cases extra <;> simp_all
    simp only [writeExtra, hemp, Bool.false_eq_true, ↓reduceIte] at h
    obtain ⟨d, hd, h⟩ := Outcome.bind_eq_ok.mp h
    obtain ⟨b1, hb1, h⟩ := Outcome.bind_eq_ok.mp h
    obtain ⟨_, hty, hun⟩ := extra_dict_roundtrip extra hne hid hamt d hd
    refine ⟨d, hd, ?_, ?_⟩
    · unfold CellB.write at hb1
      split at hb1
      · simp only [Outcome.ok.injEq] at hb1
        subst hb1
        unfold CellB.addRef at h
        split at h
        · simp only [Outcome.ok.injEq] at h
          exact h.symm
        · cases h
      · cases hb1
    · have hp : ¬ d.ty = tyPruned := by rw [hty]; decide
      simp [readExtra, CellR.readBit, CellR.nextRef, Outcome.bind, hp, hun]

end Tongo.Wallet
