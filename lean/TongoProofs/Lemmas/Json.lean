import TongoModel.Json
import TongoProofs.Lemmas.Dec
/-! Helper lemmas for C20: trimming, hex, the JSON syntax scan on the printers' alphabets. -/
namespace Tongo.Json
open Tongo Tongo.Dec

/-- a bind does not panic when neither part does -/
theorem isPanic_bind {α β} (x : Outcome α) (f : α → Outcome β) (hx : x.isPanic = false)
    (hf : ∀ a, (f a).isPanic = false) : (x.bind f).isPanic = false := by
  cases x with
  | ok a => exact hf a
  | err e => rfl
  | panic p => cases hx

theorem dropWhile_all_false {α} (p : α → Bool) (l : List α) (h : ∀ c ∈ l, p c = false) : l.dropWhile p = l := by
  cases l with
  | nil => rfl
  | cons a t => simp [List.dropWhile, h a (by simp)]

/-- `strings.Trim(quote s, cutset)` gives `s` back when the cutset contains the quote and no character of `s` -/
theorem trimSet_quote (cut : List Char) (hq : cut.contains '"' = true) (s : Str)
    (hs : ∀ c ∈ s, cut.contains c = false) : trimSet cut (quote s) = s := by
  unfold trimSet quote
  rw [List.cons_append, List.dropWhile_cons_of_pos (by simpa using hq)]
  cases s with
  | nil =>
    rw [List.nil_append, List.dropWhile_cons_of_pos (by simpa using hq)]
    rfl
  | cons a t =>
    have ha : cut.contains a = false := hs a (by simp)
    rw [List.cons_append, List.dropWhile_cons_of_neg (by simpa using ha), ← List.cons_append, List.reverse_append]
    simp only [List.reverse_cons, List.reverse_nil, List.nil_append, List.singleton_append]
    rw [List.dropWhile_cons_of_pos (by simpa using hq)]
    rw [dropWhile_all_false]
    · simp
    · intro c hc
      apply hs
      have : c ∈ t ∨ c = a := by simpa using hc
      simp only [List.mem_cons]
      exact this.symm

theorem trimQuote_quote (s : Str) (hs : ∀ c ∈ s, c ≠ '"') : trimQuote (quote s) = s := by
  unfold trimQuote
  apply trimSet_quote _ (by decide)
  intro c hc
  have h1 : (c == '"') = false := by simpa using hs c hc
  simp [List.contains, List.elem, h1]

/-- trimming is the identity on strings without cutset characters -/
theorem trimSet_id (cut : List Char) (s : Str) (hs : ∀ c ∈ s, cut.contains c = false) : trimSet cut s = s := by
  unfold trimSet
  rw [dropWhile_all_false _ s hs, dropWhile_all_false]
  · simp
  · intro c hc; exact hs c (by simpa using hc)

theorem printNat_no (n : Nat) (x : Char) (hx : isDigit x = false) : ∀ c ∈ printNat n, c ≠ x := by
  intro c hc h
  have := printNat_all_digits n c hc
  rw [h] at this
  rw [this] at hx
  cases hx

theorem printInt_no (v : Int) (x : Char) (hx : isDigit x = false) (hm : x ≠ '-') : ∀ c ∈ printInt v, c ≠ x := by
  unfold printInt
  split
  · intro c hc
    simp only [List.mem_cons] at hc
    rcases hc with rfl | hc
    · exact fun h => hm h.symm
    · exact printNat_no _ x hx c hc
  · exact printNat_no _ x hx

/-! ### UTF-8 decoding is the identity on ASCII text -/

def isAscii (c : Char) : Bool := decide (c.toNat < 0x80)

theorem utf8DecodeF_ascii (fuel : Nat) (s : Str) (hf : s.length ≤ fuel) (h : ∀ c ∈ s, isAscii c = true) :
    utf8DecodeF fuel s = s := by
  induction s generalizing fuel with
  | nil => cases fuel <;> rfl
  | cons c r ih =>
    cases fuel with
    | zero => simp at hf
    | succ f =>
      have hc : c.toNat < 0x80 := by simpa [isAscii] using h c (by simp)
      have e : decodeRune1 c r = (c, 1) := by simp [decodeRune1, hc]
      rw [utf8DecodeF]
      simp only [e, Nat.sub_self, List.drop_zero]
      rw [ih f (by simpa using hf) (fun x hx => h x (by simp [hx]))]

theorem utf8Decode_ascii (s : Str) (h : ∀ c ∈ s, isAscii c = true) : utf8Decode s = s :=
  utf8DecodeF_ascii _ s (Nat.le_refl _) h

theorem runeBytes_ascii (s : Str) (h : ∀ c ∈ s, isAscii c = true) : runeBytes s = s := by
  unfold runeBytes
  rw [utf8Decode_ascii s h]
  induction s with
  | nil => rfl
  | cons c r ih =>
    have hc : c.toNat < 0x80 := by simpa [isAscii] using h c (by simp)
    have : c.toNat % 256 = c.toNat := Nat.mod_eq_of_lt (by omega)
    simp only [List.map_cons, this, Char.ofNat_toNat]
    rw [ih (fun x hx => h x (by simp [hx]))]

theorem printNat_ascii (n : Nat) : ∀ c ∈ printNat n, isAscii c = true := by
  intro c hc
  obtain ⟨d, hd, rfl⟩ := printNatB_digits 10 (by omega) n c hc
  have : ∀ d, d < 10 → isAscii (digitChar d) = true := by decide
  exact this d hd

/-! ### hex -/

theorem charNibble_nibbleChar : ∀ n, n < 16 → Hex.charNibble? (Hex.nibbleChar n) = some n := by decide
theorem charNibble_nibbleCharUpper : ∀ n, n < 16 → Hex.charNibble? (Hex.nibbleCharUpper n) = some n := by decide

theorem u8_split (b : UInt8) : UInt8.ofNat (b.toNat / 16 * 16 + b.toNat % 16) = b := by
  have : b.toNat / 16 * 16 + b.toNat % 16 = b.toNat := by omega
  rw [this]
  exact UInt8.ofNat_toNat

theorem decodeChars_hexLower (bs : List UInt8) : Hex.decodeChars (hexLower bs) = some bs := by
  induction bs with
  | nil => rfl
  | cons b t ih =>
    have hb : b.toNat < 256 := b.toNat_lt
    show Hex.decodeChars (Hex.nibbleChar (b.toNat / 16) :: Hex.nibbleChar (b.toNat % 16) :: hexLower t) = _
    rw [Hex.decodeChars, charNibble_nibbleChar _ (by omega), charNibble_nibbleChar _ (by omega), ih]
    simp only [u8_split]

theorem decodeChars_length : ∀ (s : Str) (bs : List UInt8), Hex.decodeChars s = some bs → 2 * bs.length = s.length
  | [], bs, h => by simp [Hex.decodeChars] at h; subst h; rfl
  | [_], bs, h => by simp [Hex.decodeChars] at h
  | a :: b :: rest, bs, h => by
    rw [Hex.decodeChars] at h
    split at h
    · rename_i x y r hx hy hr
      injection h with h
      subst h
      have := decodeChars_length rest r hr
      simp only [List.length_cons]
      omega
    · cases h

theorem dropWhile_length_le {α} (p : α → Bool) (l : List α) : (l.dropWhile p).length ≤ l.length := by
  induction l with
  | nil => exact Nat.le_refl _
  | cons a t ih =>
    rw [List.dropWhile]
    split
    · simp only [List.length_cons]; omega
    · exact Nat.le_refl _

theorem trimSet_length_le (cut : List Char) (s : Str) : (trimSet cut s).length ≤ s.length := by
  unfold trimSet
  rw [List.length_reverse]
  have h1 := dropWhile_length_le (fun x => cut.contains x) (s.dropWhile fun x => cut.contains x).reverse
  have h2 := dropWhile_length_le (fun x => cut.contains x) s
  rw [List.length_reverse] at h1
  omega

theorem hexLower_length (bs : List UInt8) : (hexLower bs).length = 2 * bs.length := by
  induction bs with
  | nil => rfl
  | cons b t ih =>
    show (Hex.nibbleChar (b.toNat / 16) :: Hex.nibbleChar (b.toNat % 16) :: hexLower t).length = _
    simp [ih]; omega

/-- characters produced by the lower-case hex printer -/
def isLowerHex (c : Char) : Bool := (48 ≤ c.toNat && c.toNat ≤ 57) || (97 ≤ c.toNat && c.toNat ≤ 102)

theorem nibbleChar_lowerHex : ∀ n, n < 16 → isLowerHex (Hex.nibbleChar n) = true := by decide

theorem hexLower_chars (bs : List UInt8) : ∀ c ∈ hexLower bs, isLowerHex c = true := by
  induction bs with
  | nil => intro c hc; cases hc
  | cons b t ih =>
    have hb : b.toNat < 256 := b.toNat_lt
    intro c hc
    have : c ∈ Hex.nibbleChar (b.toNat / 16) :: Hex.nibbleChar (b.toNat % 16) :: hexLower t := hc
    simp only [List.mem_cons] at this
    rcases this with rfl | rfl | h
    · exact nibbleChar_lowerHex _ (by omega)
    · exact nibbleChar_lowerHex _ (by omega)
    · exact ih c h

theorem lowerHex_ascii (c : Char) (h : isLowerHex c = true) : isAscii c = true := by
  simp only [isLowerHex, Bool.or_eq_true, Bool.and_eq_true, decide_eq_true_eq] at h
  simp only [isAscii, decide_eq_true_eq]
  omega

theorem lowerHex_ne (c x : Char) (hc : isLowerHex c = true) (hx : isLowerHex x = false) : c ≠ x := by
  intro h; rw [h] at hc; rw [hc] at hx; cases hx

end Tongo.Json
