import TongoProofs.Lemmas.BitStringOps
import TongoProofs.Lemmas.BitStringTopUp
/-! Go `int` arguments including negative values (`ZOp`), and the direct bit primitives `On`/`Off`. Helper lemmas only. -/
namespace Tongo
open Tongo.Bits Tongo.BitString

theorem u64OfInt_lt (v : Int) : u64OfInt v < 2 ^ 64 := by
  unfold u64OfInt
  have h0 : 0 ≤ v % (2 : Int) ^ 64 := Int.emod_nonneg _ (by decide)
  have h1 : v % (2 : Int) ^ 64 < (2 : Int) ^ 64 := Int.emod_lt_of_pos _ (by decide)
  omega

/-- a write that is followed by an unconditional error (`WriteBigInt` with width ≤ 0) -/
theorem write_then_fail_refines (l : List Bool) (e : String) (s : BitString) (t : Ideal) (hR : R s t) :
    Agree (Op.unitOut (writeBitArray l >>= fun _ => throwErr e) s)
      (match Ideal.write l t with
       | (.ok _, t') => (.err e, t')
       | r => r) := by
  have h := write_refines l s t hR
  rw [unitOut_run] at h ⊢
  simp only [bind_run]
  rcases hw : writeBitArray l s with ⟨r, s'⟩
  rw [hw] at h
  rcases hs : Ideal.write l t with ⟨r', t'⟩
  rw [hs] at h
  obtain ⟨h1, h2⟩ := h
  cases r with
  | ok u =>
    simp only [normO, Out.norm] at h1
    subst h1
    exact ⟨rfl, h2⟩
  | err e' =>
    simp only [normO] at h1
    subst h1
    exact ⟨rfl, h2⟩
  | panic p =>
    simp only [normO] at h1
    subst h1
    exact ⟨rfl, h2⟩

theorem zop_refines (z : ZOp) (hwf : z.WF) (s : BitString) (t : Ideal) (hR : R s t) :
    Agree (z.run s) (z.spec t) := by
  cases z with
  | op o => exact op_refines o hwf s t hR
  | writeUint v n =>
    by_cases hn : n < 0
    · have e1 : (ZOp.writeUint v n).run = pure .unit := by simp only [ZOp.run, ZOp.failNeg, hn, if_true]
      have e2 : (ZOp.writeUint v n).spec = fun t => (.ok .unit, t) := by simp only [ZOp.spec, hn, if_true] <;> rfl
      rw [e1, e2]; exact ⟨rfl, hR⟩
    · have e1 : (ZOp.writeUint v n).run = (Op.writeUint v n.toNat).run := by simp only [ZOp.run, hn, if_false]
      have e2 : (ZOp.writeUint v n).spec = (Op.writeUint v n.toNat).spec := by simp only [ZOp.spec, hn, if_false] <;> rfl
      rw [e1, e2]
      exact op_refines (Op.writeUint v n.toNat) hwf s t hR
  | writeInt v n =>
    obtain ⟨a, b, c⟩ := hwf
    by_cases hn : n < 0
    · have e1 : (ZOp.writeInt v n).run = Op.unitOut (throwErr "integer can't be zero size") := by simp only [ZOp.run, ZOp.failNeg, hn, if_true]
      have e2 : (ZOp.writeInt v n).spec = Ideal.fail "integer can't be zero size" := by simp only [ZOp.spec, hn, if_true] <;> rfl
      rw [e1, e2]; exact fail_refines _ s t hR
    · have e1 : (ZOp.writeInt v n).run = (Op.writeInt v n.toNat).run := by simp only [ZOp.run, hn, if_false]
      have e2 : (ZOp.writeInt v n).spec = (Op.writeInt v n.toNat).spec := by simp only [ZOp.spec, hn, if_false] <;> rfl
      rw [e1, e2]
      exact op_refines (Op.writeInt v n.toNat) ⟨a, b, by omega⟩ s t hR
  | writeBigUint v n =>
    by_cases hn : n < 0
    · have e1 : (ZOp.writeBigUint v n).run = Op.unitOut (throwErr "bit length is too small") := by simp only [ZOp.run, ZOp.failNeg, hn, if_true]
      have e2 : (ZOp.writeBigUint v n).spec = Ideal.fail "bit length is too small" := by simp only [ZOp.spec, hn, if_true] <;> rfl
      rw [e1, e2]; exact fail_refines _ s t hR
    · have e1 : (ZOp.writeBigUint v n).run = (Op.writeBigUint v n.toNat).run := by simp only [ZOp.run, hn, if_false]
      have e2 : (ZOp.writeBigUint v n).spec = (Op.writeBigUint v n.toNat).spec := by simp only [ZOp.spec, hn, if_false] <;> rfl
      rw [e1, e2]
      exact op_refines (Op.writeBigUint v n.toNat) hwf s t hR
  | writeBigInt v n =>
    by_cases hn : n ≤ 0
    · have e1 : (ZOp.writeBigInt v n).run =
          Op.unitOut (writeBitArray [decide (v < 0)] >>= fun _ => throwErr "bit length is too small") := by
        simp only [ZOp.run, hn, if_true, writeBitArray_single]
      have e2 : (ZOp.writeBigInt v n).spec = fun t =>
          match Ideal.write [decide (v < 0)] t with
          | (.ok _, t') => (.err "bit length is too small", t')
          | r => r := by simp only [ZOp.spec, hn, if_true] <;> rfl
      rw [e1, e2]
      exact write_then_fail_refines [decide (v < 0)] "bit length is too small" s t hR
    · have e1 : (ZOp.writeBigInt v n).run = (Op.writeBigInt v n.toNat).run := by simp only [ZOp.run, hn, if_false]
      have e2 : (ZOp.writeBigInt v n).spec = (Op.writeBigInt v n.toNat).spec := by simp only [ZOp.spec, hn, if_false] <;> rfl
      rw [e1, e2]
      rcases hwf with h | ⟨h1, h2⟩
      · omega
      · have hw : (Op.writeBigInt v n.toNat).WF := ⟨by omega, h1, h2⟩
        exact op_refines (Op.writeBigInt v n.toNat) hw s t hR
  | writeLimUint v n =>
    have hw : (Op.writeLimUint (u64OfInt v) (u64OfInt n)).WF := ⟨u64OfInt_lt v, u64OfInt_lt n⟩
    exact op_refines _ hw s t hR
  | skip n =>
    by_cases hn : n < 0
    · have e1 : (ZOp.skip n).run = Op.unitOut (throwErr errNegative) := by simp only [ZOp.run, ZOp.failNeg, hn, if_true]
      have e2 : (ZOp.skip n).spec = Ideal.fail errNegative := by simp only [ZOp.spec, hn, if_true] <;> rfl
      rw [e1, e2]; exact fail_refines _ s t hR
    · have e1 : (ZOp.skip n).run = (Op.skip n.toNat).run := by simp only [ZOp.run, hn, if_false]
      have e2 : (ZOp.skip n).spec = (Op.skip n.toNat).spec := by simp only [ZOp.spec, hn, if_false] <;> rfl
      rw [e1, e2]
      exact op_refines (Op.skip n.toNat) trivial s t hR
  | readUint n =>
    by_cases hn : n < 0
    · have e1 : (ZOp.readUint n).run = Op.unitOut (throwErr errNegative) := by simp only [ZOp.run, ZOp.failNeg, hn, if_true]
      have e2 : (ZOp.readUint n).spec = Ideal.fail errNegative := by simp only [ZOp.spec, hn, if_true] <;> rfl
      rw [e1, e2]; exact fail_refines _ s t hR
    · have e1 : (ZOp.readUint n).run = (Op.readUint n.toNat).run := by simp only [ZOp.run, hn, if_false]
      have e2 : (ZOp.readUint n).spec = (Op.readUint n.toNat).spec := by simp only [ZOp.spec, hn, if_false] <;> rfl
      rw [e1, e2]
      exact op_refines (Op.readUint n.toNat) trivial s t hR
  | pickUint n =>
    by_cases hn : n < 0
    · have e1 : (ZOp.pickUint n).run = Op.unitOut (throwErr errNegative) := by simp only [ZOp.run, ZOp.failNeg, hn, if_true]
      have e2 : (ZOp.pickUint n).spec = Ideal.fail errNegative := by simp only [ZOp.spec, hn, if_true] <;> rfl
      rw [e1, e2]; exact fail_refines _ s t hR
    · have e1 : (ZOp.pickUint n).run = (Op.pickUint n.toNat).run := by simp only [ZOp.run, hn, if_false]
      have e2 : (ZOp.pickUint n).spec = (Op.pickUint n.toNat).spec := by simp only [ZOp.spec, hn, if_false] <;> rfl
      rw [e1, e2]
      exact op_refines (Op.pickUint n.toNat) trivial s t hR
  | readInt n =>
    by_cases hn : n < 0
    · have e1 : (ZOp.readInt n).run = Op.unitOut (throwErr errNegative) := by simp only [ZOp.run, ZOp.failNeg, hn, if_true]
      have e2 : (ZOp.readInt n).spec = Ideal.fail errNegative := by simp only [ZOp.spec, hn, if_true] <;> rfl
      rw [e1, e2]; exact fail_refines _ s t hR
    · have e1 : (ZOp.readInt n).run = (Op.readInt n.toNat).run := by simp only [ZOp.run, hn, if_false]
      have e2 : (ZOp.readInt n).spec = (Op.readInt n.toNat).spec := by simp only [ZOp.spec, hn, if_false] <;> rfl
      rw [e1, e2]
      exact op_refines (Op.readInt n.toNat) trivial s t hR
  | readBytes n =>
    by_cases hn : n < 0
    · have e1 : (ZOp.readBytes n).run = Op.unitOut (throwErr errNegative) := by simp only [ZOp.run, ZOp.failNeg, hn, if_true]
      have e2 : (ZOp.readBytes n).spec = Ideal.fail errNegative := by simp only [ZOp.spec, hn, if_true] <;> rfl
      rw [e1, e2]; exact fail_refines _ s t hR
    · have e1 : (ZOp.readBytes n).run = (Op.readBytes n.toNat).run := by simp only [ZOp.run, hn, if_false]
      have e2 : (ZOp.readBytes n).spec = (Op.readBytes n.toNat).spec := by simp only [ZOp.spec, hn, if_false] <;> rfl
      rw [e1, e2]
      exact op_refines (Op.readBytes n.toNat) trivial s t hR
  | readBits n =>
    by_cases hn : n < 0
    · have e1 : (ZOp.readBits n).run = Op.unitOut (throwErr errNegative) := by simp only [ZOp.run, ZOp.failNeg, hn, if_true]
      have e2 : (ZOp.readBits n).spec = Ideal.fail errNegative := by simp only [ZOp.spec, hn, if_true] <;> rfl
      rw [e1, e2]; exact fail_refines _ s t hR
    · have e1 : (ZOp.readBits n).run = (Op.readBits n.toNat).run := by simp only [ZOp.run, hn, if_false]
      have e2 : (ZOp.readBits n).spec = (Op.readBits n.toNat).spec := by simp only [ZOp.spec, hn, if_false] <;> rfl
      rw [e1, e2]
      exact op_refines (Op.readBits n.toNat) trivial s t hR
  | readBigUint n =>
    by_cases hn : n < 0
    · have e1 : (ZOp.readBigUint n).run = Op.unitOut (throwErr errNegative) := by simp only [ZOp.run, ZOp.failNeg, hn, if_true]
      have e2 : (ZOp.readBigUint n).spec = Ideal.fail errNegative := by simp only [ZOp.spec, hn, if_true] <;> rfl
      rw [e1, e2]; exact fail_refines _ s t hR
    · have e1 : (ZOp.readBigUint n).run = (Op.readBigUint n.toNat).run := by simp only [ZOp.run, hn, if_false]
      have e2 : (ZOp.readBigUint n).spec = (Op.readBigUint n.toNat).spec := by simp only [ZOp.spec, hn, if_false] <;> rfl
      rw [e1, e2]
      exact op_refines (Op.readBigUint n.toNat) trivial s t hR
  | readBigInt n =>
    by_cases hn : n < 0
    · have e1 : (ZOp.readBigInt n).run = Op.unitOut (throwErr errNegative) := by simp only [ZOp.run, ZOp.failNeg, hn, if_true]
      have e2 : (ZOp.readBigInt n).spec = Ideal.fail errNegative := by simp only [ZOp.spec, hn, if_true] <;> rfl
      rw [e1, e2]; exact fail_refines _ s t hR
    · have e1 : (ZOp.readBigInt n).run = (Op.readBigInt n.toNat).run := by simp only [ZOp.run, hn, if_false]
      have e2 : (ZOp.readBigInt n).spec = (Op.readBigInt n.toNat).spec := by simp only [ZOp.spec, hn, if_false] <;> rfl
      rw [e1, e2]
      exact op_refines (Op.readBigInt n.toNat) trivial s t hR
  | readLimUint n =>
    have hw : (Op.readLimUint (u64OfInt n)).WF := u64OfInt_lt n
    exact op_refines _ hw s t hR

theorem zrunAll_refines (ops : List ZOp) : ∀ (s : BitString) (t : Ideal), (∀ z ∈ ops, z.WF) → R s t →
    (ZOp.runAll ops s).1.map normO = (ZOp.specAll ops t).1 ∧ R (ZOp.runAll ops s).2 (ZOp.specAll ops t).2 := by
  induction ops with
  | nil => intro s t _ hR; exact ⟨rfl, hR⟩
  | cons z rest ih =>
    intro s t hwf hR
    obtain ⟨ho, hR'⟩ := zop_refines z (hwf z (List.mem_cons_self)) s t hR
    simp only [ZOp.runAll, ZOp.specAll]
    rcases hrun : z.run s with ⟨r, s'⟩
    rcases hspec : z.spec t with ⟨r', t'⟩
    rw [hrun, hspec] at ho hR'
    simp only at ho hR'
    have hrest := ih s' t' (fun o ho => hwf o (List.mem_cons_of_mem _ ho)) hR'
    cases r with
    | panic p =>
      simp only [normO] at ho; subst ho; exact ⟨rfl, hR'⟩
    | ok o =>
      simp only [normO] at ho; subst ho
      simp only [List.map_cons, normO]
      exact ⟨by rw [hrest.1], hrest.2⟩
    | err e =>
      simp only [normO] at ho; subst ho
      simp only [List.map_cons, normO]
      exact ⟨by rw [hrest.1], hrest.2⟩

/-! ### On / Off -/

theorem on_run (n : Nat) (s : BitString) : BitString.on n s =
    if n ≥ s.cap then (.err errOverflow, s)
    else match s.buf[n / 8]? with
      | none => (.panic panicIndex, s)
      | some b => (.ok (), { s with buf := s.buf.set (n / 8) (setBitByte b n true) }) := by
  simp only [BitString.on, bind_run, checkRange_run, get_run]
  by_cases h : n ≥ s.cap
  · simp [h]
  · simp only [h, if_false]
    cases hb : s.buf[n / 8]? <;> simp [setBitByte]

/-- `On(n)` / `Off(n)`: out of range (negative or `≥ cap`) is the overflow error with nothing changed; a position inside
the written data sets exactly that bit -/
theorem onOff_refines' (v : Bool) (n : Int) (s : BitString) (t : Ideal) (hR : R s t) :
    ((n < 0 ∨ n.toNat ≥ s.cap) → ZOp.onOff v n s = (.err errOverflow, s)) ∧
    (0 ≤ n → n.toNat < s.len →
      ∃ s', ZOp.onOff v n s = (.ok .unit, s') ∧ R s' { t with bits := t.bits.set n.toNat v }) := by
  obtain ⟨⟨h1, h2, h3, h4⟩, hab, hcap, hpos⟩ := hR
  constructor
  · intro h
    unfold ZOp.onOff
    by_cases hn : n < 0
    · simp only [hn, if_true, unitOut_run, throwErr_run]
    · have hc : n.toNat ≥ s.cap := by
        rcases h with h | h
        · omega
        · exact h
      simp only [hn, if_false, unitOut_run]
      cases v
      · simp only [Bool.false_eq_true, if_false, off_run, hc, if_true]
      · simp only [if_true, on_run, hc]
  · intro h0 hlt
    have hn : ¬ n < 0 := by omega
    have hc : ¬ n.toNat ≥ s.cap := by omega
    have hidx : n.toNat / 8 < s.buf.length := by omega
    have hb : s.buf[n.toNat / 8]? = some s.buf[n.toNat / 8] := List.getElem?_eq_getElem hidx
    refine ⟨{ s with buf := s.buf.set (n.toNat / 8) (setBitByte s.buf[n.toNat / 8] n.toNat v) }, ?_, ?_⟩
    · unfold ZOp.onOff
      simp only [hn, if_false, unitOut_run]
      cases v
      · simp only [Bool.false_eq_true, if_false, off_run, hc, hb]
      · simp only [if_true, on_run, hc, if_false, hb]
    · have hbits := bytesToBits_setBit s.buf n.toNat _ v hb
      refine ⟨⟨h1, by simpa using h2, h3, ?_⟩, ?_, hcap, hpos⟩
      · show List.drop s.len (bytesToBits _) = _
        rw [hbits, List.drop_set_of_lt hlt, h4, List.length_set]
      · show List.take s.len (bytesToBits _) = _
        rw [hbits, List.take_set, ← hab]; rfl

end Tongo
