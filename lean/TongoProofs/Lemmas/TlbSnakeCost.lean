import TongoProofs.Lemmas.TlbRead
import Mathlib.Tactic.Ring
/-! The cost of the SnakeData decoder as found, on a chain of `d + 1` cells with `b` bits each: the number of bits
copied is `b · d(d+1)/2` — quadratic in the length of the chain. -/
namespace Tongo.Tlb
open Tongo

theorem chain_bits (b d : Nat) : (chain b d).bits = List.replicate b true := by
  cases d <;> rfl

theorem chain_ty (b d : Nat) : (chain b d).ty = 0 := by
  cases d <;> rfl

theorem snakeOrig_chain (b d : Nat) :
    ∃ k, (snake true (chain b d)).1 = .ok (List.replicate ((d + 1) * b) true, k) ∧ 2 * k = b * d * (d + 1) := by
  induction d with
  | zero => exact ⟨0, by simp [chain, snake_eq, snakeNode], by simp⟩
  | succ d ih =>
    obtain ⟨k, hk, h2⟩ := ih
    refine ⟨k + (d + 1) * b, ?_, ?_⟩
    · show (snake true (.mk 0 0 (List.replicate b true) [chain b d])).1 = _
      rw [snake_eq]
      simp only [snakeNode, chain_ty]
      rw [if_neg (by decide)]
      rcases hs : snake true (chain b d) with ⟨o, n⟩
      rw [hs] at hk
      simp only at hk
      subst hk
      simp only [if_true, List.length_replicate, Outcome.ok.injEq, Prod.mk.injEq, and_true]
      rw [List.replicate_append_replicate]
      congr 1
      ring
    · have : 2 * (k + (d + 1) * b) = 2 * k + 2 * ((d + 1) * b) := by ring
      rw [this, h2]
      ring

end Tongo.Tlb
