import TongoModel.CellCursor
import TongoProofs.Lemmas.BitStringOps
/-! Helper lemmas for C02 `hash_ignores_reads`: read-only operations do not change the bits hashing sees. -/
open Tongo
namespace Tongo.Cursor

theorem read_bits (n : Nat) (f : List Bool → Out) (t : Ideal) : (Ideal.read n f t).2.bits = t.bits := by
  unfold Ideal.read
  split <;> rfl

/-- the specification of a read-only operation leaves the ideal bit list unchanged -/
theorem spec_read_bits (op : Op) (h : isRead op = true) (t : Ideal) : (op.spec t).2.bits = t.bits := by
  cases op <;> simp only [isRead] at h <;> try (cases h)
  case readBit => exact read_bits _ _ t
  case skip n => exact read_bits _ _ t
  case readUint n => simp only [Op.spec]; split; · rfl
                     · exact read_bits _ _ t
  case pickUint n => simp only [Op.spec]; split; · rfl
                     · split <;> rfl
  case readInt n => simp only [Op.spec]; split; · rfl
                    · split
                      · rfl
                      · exact read_bits _ _ t
  case readByte => exact read_bits _ _ t
  case readBytes n => exact read_bits _ _ t
  case readBits n => exact read_bits _ _ t
  case readRemainingBits => exact read_bits _ _ t
  case readBigUint n => exact read_bits _ _ t
  case readBigInt n => exact read_bits _ _ t
  case readUnary => simp only [Op.spec]; split <;> rfl
  case readLimUint n => exact read_bits _ _ t
  case resetCounter => rfl

/-- a read-only operation of the byte-level model keeps the written bits (and the invariant) -/
theorem read_keeps_abs (op : Op) (hr : isRead op = true) (hwf : op.WF) (s : BitString) (hi : BitString.Inv s) :
    BitString.abs (op.run s).2 = BitString.abs s ∧ BitString.Inv (op.run s).2 := by
  have h := Tongo.op_refines op hwf s ⟨BitString.abs s, s.cap, s.rCursor⟩ ⟨hi, rfl, rfl, rfl⟩
  obtain ⟨_, hinv, habs, _, _⟩ := h
  exact ⟨by rw [habs, spec_read_bits op hr], hinv⟩

theorem contentL_append (a b : List RCell) : contentL (a ++ b) = contentL a ++ contentL b := by
  induction a with
  | nil => rfl
  | cons x t ih => simp [contentL, ih]

theorem readStep_content {a b : RCell} (h : ReadStep a b) : content a = content b := by
  induction h with
  | bits ty mask s refs rc op hr hwf hi => simp only [content, (read_keeps_abs op hr hwf s hi).1]
  | refCursor => simp only [content]
  | child ty mask s pre post c c' rc _ ih =>
    simp only [content, contentL_append, contentL, ih]

theorem reads_content {a b : RCell} (h : Reads a b) : content a = content b := by
  induction h with
  | refl => rfl
  | step hs _ ih => rw [readStep_content hs, ih]

end Tongo.Cursor
