import TongoModel.Shard
import TongoProofs.Lemmas.GoInt
/-! Algebra of shard identifiers (`TongoModel/Shard.lean`): prefix/mask round trip, prefix matching, parent/child,
`convertShardIdent`, anycast rewrite. Core Lean only. -/
namespace Tongo.Shard
open Tongo.GoInt

/-- prefix length of a non-zero shard id: 63 - (number of trailing zero bits); the full shard 0x8000… has length 0 -/
def shardLen (m : BitVec 64) : Nat := 63 - ctz64 m
/-- a shard is the left child of its parent iff the bit just above its lowest set bit is 0 -/
def isLeft (s : BitVec 64) : Bool := !s.getLsbD (ctz64 s + 1)

/-! ### lowest set bit -/

theorem lowerBit_zero : lowerBit 0 = 0 := by decide

/-- bitwise description of `lowerBit` -/
theorem getLsbD_lowerBit (s : BitVec 64) (h : s ≠ 0) (i : Nat) :
    (lowerBit s).getLsbD i = decide (i = ctz64 s) := by
  have hk : ctz64 s < 64 := ctz_lt_of_ne_zero h
  have hb : s.getLsbD (ctz64 s) = true := getLsbD_ctz h
  unfold lowerBit
  rw [show (~~~s + 1) = -s from (BitVec.neg_eq_not_add s).symm, BitVec.getLsbD_and, BitVec.getLsbD_neg]
  rcases Nat.lt_trichotomy i (ctz64 s) with hi | hi | hi
  · have : s.getLsbD i = false := getLsbD_of_lt_ctz hi
    simp [this]; omega
  · subst hi
    have hno : ¬ ∃ j, j < ctz64 s ∧ s.getLsbD j = true := by
      rintro ⟨j, hj, hj'⟩
      rw [getLsbD_of_lt_ctz hj] at hj'; cases hj'
    simp [hb, hno]
  · have hex : ∃ j, j < i ∧ s.getLsbD j = true := ⟨_, hi, hb⟩
    have hne : i ≠ ctz64 s := by omega
    by_cases hi64 : i < 64
    · cases hs : s.getLsbD i <;> simp [hex, hi64, hne]
    · have : s.getLsbD i = false := by simp [BitVec.getLsbD_of_ge, Nat.le_of_not_lt hi64]
      simp [this, hne]

theorem lowerBit_eq_twoPow (s : BitVec 64) (h : s ≠ 0) : lowerBit s = BitVec.twoPow 64 (ctz64 s) := by
  have hk : ctz64 s < 64 := ctz_lt_of_ne_zero h
  apply BitVec.eq_of_getLsbD_eq
  intro i hi
  rw [getLsbD_lowerBit s h, BitVec.getLsbD_twoPow]
  have : (i = ctz64 s) ↔ (ctz64 s = i) := by omega
  simp [hk, this]

/-! ### masks and single bits -/

theorem getLsbD_one_shl (k i : Nat) : (1#64 <<< k).getLsbD i = (decide (k < 64) && decide (k = i)) := by
  rw [← BitVec.twoPow_eq, BitVec.getLsbD_twoPow]

theorem getLsbD_mask (k i : Nat) : (BitVec.allOnes 64 <<< k).getLsbD i = (decide (i < 64) && decide (k ≤ i)) := by
  rw [BitVec.getLsbD_shiftLeft, BitVec.getLsbD_allOnes]
  by_cases h1 : i < 64 <;> by_cases h2 : i < k <;> simp [h1, h2] <;> omega

/-- `ctz (^0 << k) = k` for every `k ≤ 64` (`k = 64`: the mask is 0 and `ctz 0 = 64`) -/
theorem ctz64_mask (k : Nat) (hk : k ≤ 64) : ctz64 (BitVec.allOnes 64 <<< k) = k := by
  unfold ctz64
  rcases Nat.lt_or_ge k 64 with h | h
  · apply ctz_eq_of
    · rw [getLsbD_mask]; simp [h]
    · intro j hj; rw [getLsbD_mask]; simp; omega
  · have : k = 64 := by omega
    subst this
    have : BitVec.allOnes 64 <<< 64 = 0#64 := by decide
    rw [this, ctz_zero]

theorem ctz64_lt {m : BitVec 64} (h : m ≠ 0) : ctz64 m < 64 := ctz_lt_of_ne_zero h
theorem getLsbD_ctz64 {m : BitVec 64} (h : m ≠ 0) : m.getLsbD (ctz64 m) = true := getLsbD_ctz h
theorem getLsbD_of_lt_ctz64 {m : BitVec 64} {j : Nat} (h : j < ctz64 m) : m.getLsbD j = false := getLsbD_of_lt_ctz h

theorem parseShardID_of_ne {m : BitVec 64} (h : m ≠ 0) :
    parseShardID m = some ⟨m ^^^ (1#64 <<< ctz64 m), BitVec.allOnes 64 <<< (ctz64 m + 1)⟩ := by
  unfold parseShardID; rw [if_neg h]

/-- clearing then setting the lowest set bit gives the value back -/
theorem xor_or_lowbit {m : BitVec 64} (h : m ≠ 0) : (m ^^^ (1#64 <<< ctz64 m)) ||| (1#64 <<< ctz64 m) = m := by
  have hk := ctz64_lt h
  have hb := getLsbD_ctz64 h
  apply BitVec.eq_of_getLsbD_eq
  intro i hi
  rw [BitVec.getLsbD_or, BitVec.getLsbD_xor, getLsbD_one_shl]
  by_cases hik : ctz64 m = i
  · subst hik; simp [hk, hb]
  · simp [hik]

/-- **Encode ∘ ParseShardID = id** on non-zero shard ids; in particular `Encode` does not panic (its shift count
`tz(mask) - 1` is never negative) on a parsed shard. -/
theorem shard_roundtrip (m : BitVec 64) (h : m ≠ 0) : (parseShardID m).bind encode = some m := by
  have hk := ctz64_lt h
  rw [parseShardID_of_ne h]
  simp only [Option.bind_some, encode]
  rw [ctz64_mask _ (by omega)]
  simp [xor_or_lowbit h]

/-! ### prefix matching -/

/-- `(x & mask(q+1)) = y ^ 2^q` (q the lowest set bit of y) iff x and y agree on all bits above q -/
theorem and_mask_eq_iff (x y : BitVec 64) (hy : y ≠ 0) :
    (x &&& (BitVec.allOnes 64 <<< (ctz64 y + 1)) = y ^^^ (1#64 <<< ctz64 y)) ↔
      ∀ j, ctz64 y < j → j < 64 → x.getLsbD j = y.getLsbD j := by
  have hk := ctz64_lt hy
  have hb := getLsbD_ctz64 hy
  constructor
  · intro he j hj hj64
    have := congrArg (fun v => BitVec.getLsbD v j) he
    simp only [BitVec.getLsbD_and, BitVec.getLsbD_xor, getLsbD_mask, getLsbD_one_shl] at this
    have h1 : ctz64 y + 1 ≤ j := hj
    have h2 : ¬ ctz64 y = j := by omega
    simpa [hj64, h1, h2] using this
  · intro hall
    apply BitVec.eq_of_getLsbD_eq
    intro j hj
    simp only [BitVec.getLsbD_and, BitVec.getLsbD_xor, getLsbD_mask, getLsbD_one_shl]
    rcases Nat.lt_trichotomy j (ctz64 y) with h | h | h
    · have h1 : ¬ ctz64 y + 1 ≤ j := by omega
      have h2 : ¬ ctz64 y = j := by omega
      simp [h1, h2, getLsbD_of_lt_ctz64 h]
    · subst h
      simp [-BitVec.getLsbD_eq_getElem, hb, hk]
    · have h1 : ctz64 y + 1 ≤ j := h
      have h2 : ¬ ctz64 y = j := by omega
      simp [-BitVec.getLsbD_eq_getElem, hj, h1, h2, hall j h hj]

/-- LSB-indexed "all bits above k agree" is the MSB-first "the first 63-k bits agree" -/
theorem above_iff_msb (x y : BitVec 64) (k : Nat) :
    (∀ j, k < j → j < 64 → x.getLsbD j = y.getLsbD j) ↔ ∀ i, i < 63 - k → x.getMsbD i = y.getMsbD i := by
  constructor
  · intro hall i hi
    have := hall (63 - i) (by omega) (by omega)
    simp only [BitVec.getMsbD]
    have h64 : i < 64 := by omega
    simpa [h64] using this
  · intro hall j hj hj64
    have := hall (63 - j) (by omega)
    simp only [BitVec.getMsbD] at this
    have h64 : 63 - j < 64 := by omega
    have he : 64 - 1 - (63 - j) = j := by omega
    simpa [h64, he] using this

/-- **MatchAccountID is a prefix test**: a parsed shard `m` matches the 64-bit address prefix `a` iff the first
`shardLen m` bits of `a` and `m` (MSB first) agree (length 0, the full shard, matches everything). -/
theorem match_is_prefix (m a : BitVec 64) (h : m ≠ 0) :
    ∃ s, parseShardID m = some s ∧
      (matchPrefix s a = true ↔ ∀ i, i < shardLen m → a.getMsbD i = m.getMsbD i) := by
  refine ⟨_, parseShardID_of_ne h, ?_⟩
  simp only [matchPrefix, beq_iff_eq]
  rw [and_mask_eq_iff a m h, above_iff_msb]
  rfl

theorem above_xor (x y : BitVec 64) (p q : Nat) (hpq : p ≤ q) :
    (∀ j, q < j → j < 64 → (x ^^^ (1#64 <<< p)).getLsbD j = y.getLsbD j) ↔
      (∀ j, q < j → j < 64 → x.getLsbD j = y.getLsbD j) := by
  have key : ∀ j, q < j → (x ^^^ (1#64 <<< p)).getLsbD j = x.getLsbD j := by
    intro j hj
    have : ¬ p = j := by omega
    rw [BitVec.getLsbD_xor, getLsbD_one_shl]; simp [this]
  constructor
  · intro hall j hj hj64; rw [← key j hj]; exact hall j hj hj64
  · intro hall j hj hj64; rw [key j hj]; exact hall j hj hj64

theorem matchBlock_zero (s : ShardID) : matchBlock s 0 = false := by
  simp [matchBlock, parseShardID]

/-- `MatchBlockID` rejects the (unparsable) block shard 0 -/
theorem match_block_zero (s : ShardID) : matchBlock s 0 = false := matchBlock_zero s

/-- **MatchBlockID is symmetric containment**: for non-zero `m`, `b` the parsed shard `m` matches the block shard `b`
iff the two ids agree on their first `min (shardLen m) (shardLen b)` bits (MSB first), i.e. one shard's prefix is a
prefix of the other's. -/
theorem match_block (m b : BitVec 64) (hm : m ≠ 0) (hb : b ≠ 0) :
    ∃ s, parseShardID m = some s ∧
      (matchBlock s b = true ↔ ∀ i, i < min (shardLen m) (shardLen b) → m.getMsbD i = b.getMsbD i) := by
  refine ⟨_, parseShardID_of_ne hm, ?_⟩
  have hp := ctz64_lt hm
  have hq := ctz64_lt hb
  unfold matchBlock
  rw [parseShardID_of_ne hb]
  simp only [shardLen]
  rw [ctz64_mask _ (by omega), ctz64_mask _ (by omega)]
  by_cases hpq : ctz64 m < ctz64 b
  · rw [if_pos (by omega)]
    have hmin : min (63 - ctz64 m) (63 - ctz64 b) = 63 - ctz64 b := by omega
    rw [hmin, beq_iff_eq, and_mask_eq_iff _ b hb, above_xor _ _ _ _ (by omega), above_iff_msb]
  · rw [if_neg (by omega)]
    have hmin : min (63 - ctz64 m) (63 - ctz64 b) = 63 - ctz64 m := by omega
    rw [hmin, beq_iff_eq, and_mask_eq_iff _ m hm, above_xor _ _ _ _ (by omega), above_iff_msb]
    constructor
    · intro h i hi; exact (h i hi).symm
    · intro h i hi; exact (h i hi).symm

/-! ### parent / child: bitwise forms -/

theorem twoPow_shr_one (k : Nat) (hk : 1 ≤ k) (hk64 : k < 64) :
    BitVec.twoPow 64 k >>> 1 = BitVec.twoPow 64 (k - 1) := by
  apply BitVec.eq_of_getLsbD_eq
  intro i hi
  rw [BitVec.getLsbD_ushiftRight, BitVec.getLsbD_twoPow, BitVec.getLsbD_twoPow]
  have h1 : k - 1 < 64 := by omega
  by_cases h : k = 1 + i
  · subst h
    have h' : 1 + i - 1 = i := by omega
    simp [h', hk64, hi]
  · have h' : ¬ k - 1 = i := by omega
    simp [h, h']

theorem twoPow_shl_one (k : Nat) : BitVec.twoPow 64 k <<< 1 = BitVec.twoPow 64 (k + 1) := by
  apply BitVec.eq_of_getLsbD_eq
  intro i hi
  rw [BitVec.getLsbD_shiftLeft, BitVec.getLsbD_twoPow, BitVec.getLsbD_twoPow]
  by_cases h : k + 1 = i
  · subst h
    have h2 : k < 64 := by omega
    simp [hi, h2]
  · by_cases h1 : i < 1
    · simp [h, h1]
    · have h' : ¬ k = i - 1 := by omega
      simp [h, h']

theorem twoPow_add_self (k : Nat) (hk : 1 ≤ k) :
    BitVec.twoPow 64 (k - 1) + BitVec.twoPow 64 (k - 1) = BitVec.twoPow 64 k := by
  obtain ⟨j, rfl⟩ : ∃ j, k = j + 1 := ⟨k - 1, by omega⟩
  apply BitVec.eq_of_toNat_eq
  simp only [BitVec.toNat_add, BitVec.toNat_twoPow, Nat.add_sub_cancel, Nat.pow_succ]
  omega

/-- a non-zero value is its part above the lowest set bit plus that bit -/
theorem split_lowbit (s : BitVec 64) (h : s ≠ 0) :
    s = (s ^^^ BitVec.twoPow 64 (ctz64 s)) + BitVec.twoPow 64 (ctz64 s) := by
  have hk := ctz64_lt h
  have hb := getLsbD_ctz64 h
  rw [BitVec.add_eq_or_of_and_eq_zero]
  · rw [BitVec.twoPow_eq]; exact (xor_or_lowbit h).symm
  · apply BitVec.eq_of_getLsbD_eq
    intro i hi
    rw [BitVec.getLsbD_and, BitVec.getLsbD_xor, BitVec.getLsbD_twoPow]
    by_cases hik : ctz64 s = i
    · subst hik; simp [-BitVec.getLsbD_eq_getElem, hb]
    · simp [hik]

theorem shardParent_eq (s : BitVec 64) (h : s ≠ 0) :
    shardParent s = (s ^^^ BitVec.twoPow 64 (ctz64 s)) ||| BitVec.twoPow 64 (ctz64 s + 1) := by
  unfold shardParent
  simp only [lowerBit_eq_twoPow s h, twoPow_shl_one]
  congr 1
  have := split_lowbit s h
  generalize s ^^^ BitVec.twoPow 64 (ctz64 s) = d at *
  generalize BitVec.twoPow 64 (ctz64 s) = t at *
  bv_omega

theorem shardChild_right_eq (s : BitVec 64) (h : s ≠ 0) (h0 : s.getLsbD 0 = false) :
    shardChild s false = s ||| BitVec.twoPow 64 (ctz64 s - 1) := by
  have hk := ctz64_lt h
  have hb := getLsbD_ctz64 h
  have hk1 : 1 ≤ ctz64 s := by
    rcases Nat.eq_zero_or_pos (ctz64 s) with h' | h'
    · rw [h', h0] at hb; cases hb
    · exact h'
  unfold shardChild
  simp only [lowerBit_eq_twoPow s h, twoPow_shr_one _ hk1 hk]
  apply BitVec.add_eq_or_of_and_eq_zero
  apply BitVec.eq_of_getLsbD_eq
  intro i hi
  rw [BitVec.getLsbD_and, BitVec.getLsbD_twoPow]
  by_cases hik : ctz64 s - 1 = i
  · have : s.getLsbD i = false := getLsbD_of_lt_ctz64 (by omega)
    simp [-BitVec.getLsbD_eq_getElem, this]
  · simp [hik]

theorem shardChild_left_eq (s : BitVec 64) (h : s ≠ 0) (h0 : s.getLsbD 0 = false) :
    shardChild s true = (s ^^^ BitVec.twoPow 64 (ctz64 s)) ||| BitVec.twoPow 64 (ctz64 s - 1) := by
  have hk := ctz64_lt h
  have hb := getLsbD_ctz64 h
  have hk1 : 1 ≤ ctz64 s := by
    rcases Nat.eq_zero_or_pos (ctz64 s) with h' | h'
    · rw [h', h0] at hb; cases hb
    · exact h'
  unfold shardChild
  simp only [lowerBit_eq_twoPow s h, twoPow_shr_one _ hk1 hk]
  have hdis : (s ^^^ BitVec.twoPow 64 (ctz64 s)) &&& BitVec.twoPow 64 (ctz64 s - 1) = 0#64 := by
    apply BitVec.eq_of_getLsbD_eq
    intro i hi
    rw [BitVec.getLsbD_and, BitVec.getLsbD_xor, BitVec.getLsbD_twoPow, BitVec.getLsbD_twoPow]
    by_cases hik : ctz64 s - 1 = i
    · have : s.getLsbD i = false := getLsbD_of_lt_ctz64 (by omega)
      have h2 : ¬ ctz64 s = i := by omega
      simp [-BitVec.getLsbD_eq_getElem, this, h2]
    · simp [hik]
  rw [← BitVec.add_eq_or_of_and_eq_zero _ _ hdis]
  have h1 := split_lowbit s h
  have h2 := twoPow_add_self _ hk1
  generalize s ^^^ BitVec.twoPow 64 (ctz64 s) = d at *
  generalize BitVec.twoPow 64 (ctz64 s) = t at *
  generalize BitVec.twoPow 64 (ctz64 s - 1) = u at *
  simp only [if_true]
  bv_omega

theorem ctz64_pos_of_bit0 {s : BitVec 64} (h : s ≠ 0) (h0 : s.getLsbD 0 = false) : 1 ≤ ctz64 s := by
  have hb := getLsbD_ctz64 h
  rcases Nat.eq_zero_or_pos (ctz64 s) with h' | h'
  · rw [h', h0] at hb; cases hb
  · exact h'

theorem ne_zero_of_getLsbD {s : BitVec 64} {i : Nat} (h : s.getLsbD i = true) : s ≠ 0 := by
  intro h'; rw [h'] at h; simp at h

/-- the child's lowest set bit is one below the parent's -/
theorem ctz64_shardChild (s : BitVec 64) (l : Bool) (h : s ≠ 0) (h0 : s.getLsbD 0 = false) :
    ctz64 (shardChild s l) = ctz64 s - 1 := by
  have hk := ctz64_lt h
  have hk1 := ctz64_pos_of_bit0 h h0
  have hlt : ctz64 s - 1 < 64 := by omega
  cases l
  · rw [shardChild_right_eq s h h0]
    apply ctz_eq_of
    · rw [BitVec.getLsbD_or, BitVec.getLsbD_twoPow]; simp [hlt]
    · intro j hj
      have hs : s.getLsbD j = false := getLsbD_of_lt_ctz64 (by omega)
      have hne : ¬ ctz64 s - 1 = j := by omega
      rw [BitVec.getLsbD_or, BitVec.getLsbD_twoPow, hs]; simp [hne]
  · rw [shardChild_left_eq s h h0]
    apply ctz_eq_of
    · rw [BitVec.getLsbD_or, BitVec.getLsbD_twoPow]; simp [hlt]
    · intro j hj
      have hs : s.getLsbD j = false := getLsbD_of_lt_ctz64 (by omega)
      have hne : ¬ ctz64 s - 1 = j := by omega
      have hne' : ¬ ctz64 s = j := by omega
      rw [BitVec.getLsbD_or, BitVec.getLsbD_xor, BitVec.getLsbD_twoPow, BitVec.getLsbD_twoPow, hs]
      simp [hne, hne']

/-- the parent's lowest set bit is one above the child's (not for the full shard, whose "parent" is 0) -/
theorem ctz64_shardParent (s : BitVec 64) (h : s ≠ 0) (h63 : ctz64 s < 63) :
    ctz64 (shardParent s) = ctz64 s + 1 := by
  have hb := getLsbD_ctz64 h
  have hlt : ctz64 s + 1 < 64 := by omega
  rw [shardParent_eq s h]
  apply ctz_eq_of
  · rw [BitVec.getLsbD_or, BitVec.getLsbD_twoPow]; simp [hlt]
  · intro j hj
    have hne : ¬ ctz64 s + 1 = j := by omega
    rw [BitVec.getLsbD_or, BitVec.getLsbD_xor, BitVec.getLsbD_twoPow, BitVec.getLsbD_twoPow]
    by_cases hjk : ctz64 s = j
    · subst hjk; simp [-BitVec.getLsbD_eq_getElem, hb]; omega
    · have hs : s.getLsbD j = false := getLsbD_of_lt_ctz64 (by omega)
      simp [hs, hne, hjk]

/-- **shardParent ∘ shardChild = id** on every value with bit 0 clear (a shard of length 64 has no children; the
degenerate `s = 0` is included: both functions map 0 to 0). -/
theorem parent_child (s : BitVec 64) (l : Bool) (h : s.getLsbD 0 = false) : shardParent (shardChild s l) = s := by
  by_cases hs : s = 0
  · subst hs; cases l <;> decide
  have hk := ctz64_lt hs
  have hb := getLsbD_ctz64 hs
  have hk1 := ctz64_pos_of_bit0 hs h
  have hc := ctz64_shardChild s l hs h
  have hcne : shardChild s l ≠ 0 := by
    intro h0
    have : ctz64 (shardChild s l) = 64 := by rw [h0]; exact ctz_zero
    omega
  rw [shardParent_eq _ hcne, hc]
  have hkk : ctz64 s - 1 + 1 = ctz64 s := by omega
  rw [hkk]
  have hlow : s.getLsbD (ctz64 s - 1) = false := getLsbD_of_lt_ctz64 (by omega)
  apply BitVec.eq_of_getLsbD_eq
  intro i hi
  cases l
  · rw [shardChild_right_eq s hs h]
    simp only [BitVec.getLsbD_or, BitVec.getLsbD_xor, BitVec.getLsbD_twoPow]
    by_cases h1 : ctz64 s = i
    · subst h1; simp [-BitVec.getLsbD_eq_getElem, hb, hk]
    · by_cases h2 : ctz64 s - 1 = i
      · subst h2; simp [-BitVec.getLsbD_eq_getElem, hlow, h1]
      · simp [h1, h2]
  · rw [shardChild_left_eq s hs h]
    simp only [BitVec.getLsbD_or, BitVec.getLsbD_xor, BitVec.getLsbD_twoPow]
    by_cases h1 : ctz64 s = i
    · subst h1; simp [-BitVec.getLsbD_eq_getElem, hb, hk]
    · by_cases h2 : ctz64 s - 1 = i
      · subst h2; simp [-BitVec.getLsbD_eq_getElem, hlow, h1]
      · simp [h1, h2]

theorem ctz64_lt_63 {s : BitVec 64} (h0 : s ≠ 0) (h1 : s ≠ 0x8000000000000000#64) : ctz64 s < 63 := by
  have hk := ctz64_lt h0
  have hb := getLsbD_ctz64 h0
  rcases Nat.lt_or_ge (ctz64 s) 63 with h | h
  · exact h
  · exfalso; apply h1
    have hk63 : ctz64 s = 63 := by omega
    have : (0x8000000000000000#64) = BitVec.twoPow 64 63 := by decide
    rw [this]
    apply BitVec.eq_of_getLsbD_eq
    intro i hi
    rw [BitVec.getLsbD_twoPow]
    by_cases hi63 : 63 = i
    · subst hi63; rw [hk63] at hb; simp [-BitVec.getLsbD_eq_getElem, hb]
    · have : s.getLsbD i = false := getLsbD_of_lt_ctz64 (by omega)
      simp [-BitVec.getLsbD_eq_getElem, this, hi63]

/-- **shardChild (shardParent s) (isLeft s) = s** for every non-zero shard id except the full shard (which has no
parent; Go's `shardParent` returns 0 for it). -/
theorem child_parent (s : BitVec 64) (h0 : s ≠ 0) (h1 : s ≠ 0x8000000000000000#64) :
    shardChild (shardParent s) (isLeft s) = s := by
  have hk := ctz64_lt_63 h0 h1
  have hb := getLsbD_ctz64 h0
  have hc := ctz64_shardParent s h0 hk
  have hpne : shardParent s ≠ 0 := by
    intro h
    have : ctz64 (shardParent s) = 64 := by rw [h]; exact ctz_zero
    omega
  have hp0 : (shardParent s).getLsbD 0 = false := getLsbD_of_lt_ctz64 (by omega)
  have hkk : ctz64 s + 1 - 1 = ctz64 s := by omega
  have hk64 : ctz64 s < 64 := by omega
  have hk64' : ctz64 s + 1 < 64 := by omega
  apply BitVec.eq_of_getLsbD_eq
  intro i hi
  unfold isLeft
  cases hbit : s.getLsbD (ctz64 s + 1)
  · simp only [Bool.not_false]
    rw [shardChild_left_eq _ hpne hp0, hc, hkk, shardParent_eq s h0]
    simp only [BitVec.getLsbD_or, BitVec.getLsbD_xor, BitVec.getLsbD_twoPow]
    by_cases h1 : ctz64 s = i
    · subst h1; simp [-BitVec.getLsbD_eq_getElem, hb, hk64]
    · by_cases h2 : ctz64 s + 1 = i
      · subst h2; simp [-BitVec.getLsbD_eq_getElem, hbit, hk64']
      · simp [h1, h2]
  · simp only [Bool.not_true]
    rw [shardChild_right_eq _ hpne hp0, hc, hkk, shardParent_eq s h0]
    simp only [BitVec.getLsbD_or, BitVec.getLsbD_xor, BitVec.getLsbD_twoPow]
    by_cases h1 : ctz64 s = i
    · subst h1; simp [-BitVec.getLsbD_eq_getElem, hb, hk64]
    · by_cases h2 : ctz64 s + 1 = i
      · subst h2; simp [-BitVec.getLsbD_eq_getElem, hbit, hk64']
      · simp [h1, h2]

/-- a child is one bit longer than its parent -/
theorem child_len (s : BitVec 64) (l : Bool) (h0 : s ≠ 0) (h : s.getLsbD 0 = false) :
    shardLen (shardChild s l) = shardLen s + 1 := by
  have hk := ctz64_lt h0
  have hk1 := ctz64_pos_of_bit0 h0 h
  unfold shardLen
  rw [ctz64_shardChild s l h0 h]; omega

/-- LSB view of `child_prefix`: above the parent's marker bit the child equals the parent, and at the marker
position it carries `!left` -/
theorem child_bits (s : BitVec 64) (l : Bool) (h0 : s ≠ 0) (h : s.getLsbD 0 = false) :
    (∀ j, ctz64 s < j → j < 64 → (shardChild s l).getLsbD j = s.getLsbD j) ∧
      (shardChild s l).getLsbD (ctz64 s) = !l := by
  have hk := ctz64_lt h0
  have hb := getLsbD_ctz64 h0
  have hk1 := ctz64_pos_of_bit0 h0 h
  have hne : ¬ ctz64 s - 1 = ctz64 s := by omega
  cases l
  · rw [shardChild_right_eq s h0 h]
    constructor
    · intro j hj hj64
      have h2 : ¬ ctz64 s - 1 = j := by omega
      rw [BitVec.getLsbD_or, BitVec.getLsbD_twoPow]; simp [h2]
    · rw [BitVec.getLsbD_or, BitVec.getLsbD_twoPow, hb]; simp
  · rw [shardChild_left_eq s h0 h]
    constructor
    · intro j hj hj64
      have h1 : ¬ ctz64 s = j := by omega
      have h2 : ¬ ctz64 s - 1 = j := by omega
      rw [BitVec.getLsbD_or, BitVec.getLsbD_xor, BitVec.getLsbD_twoPow, BitVec.getLsbD_twoPow]; simp [h1, h2]
    · rw [BitVec.getLsbD_or, BitVec.getLsbD_xor, BitVec.getLsbD_twoPow, BitVec.getLsbD_twoPow, hb]; simp [hne, hk]

/-- **a child extends its parent's prefix by one bit**: the first `shardLen s` bits (MSB first) of the child are those
of `s`, and the next bit (index `shardLen s`) is 0 for the left child and 1 for the right child. -/
theorem child_prefix (s : BitVec 64) (l : Bool) (h0 : s ≠ 0) (h : s.getLsbD 0 = false) :
    (∀ i, i < shardLen s → (shardChild s l).getMsbD i = s.getMsbD i) ∧
      (shardChild s l).getMsbD (shardLen s) = !l := by
  have hk := ctz64_lt h0
  obtain ⟨ha, hb⟩ := child_bits s l h0 h
  constructor
  · exact (above_iff_msb _ _ _).mp ha
  · unfold shardLen
    have h1 : 63 - ctz64 s < 64 := by omega
    have h2 : 64 - 1 - (63 - ctz64 s) = ctz64 s := by omega
    simp only [BitVec.getMsbD, h1, h2, decide_true, Bool.true_and]
    exact hb

/-! ### convertShardIdent -/

theorem low_bits_zero_of_and_mask {pfx : BitVec 64} {n : Nat} (hp : pfx &&& (BitVec.allOnes 64 >>> n) = 0)
    (j : Nat) (hj : j < 64 - n) : pfx.getLsbD j = false := by
  have := congrArg (fun v => BitVec.getLsbD v j) hp
  simp only [BitVec.getLsbD_and, BitVec.getLsbD_ushiftRight, BitVec.getLsbD_allOnes] at this
  have h1 : n + j < 64 := by omega
  simpa [-BitVec.getLsbD_eq_getElem, h1] using this

theorem convertShardIdent_eq (pfx : BitVec 64) (n : Nat) (hn : n ≤ 63) :
    convertShardIdent pfx (BitVec.ofNat 8 n) = pfx ||| (1#64 <<< (63 - n)) := by
  unfold convertShardIdent
  have : (63#8 - BitVec.ofNat 8 n).toNat = 63 - n := by
    rw [BitVec.toNat_sub, BitVec.toNat_ofNat, BitVec.toNat_ofNat]; omega
  rw [this]

theorem ctz64_convertShardIdent (pfx : BitVec 64) (n : Nat) (hn : n ≤ 63)
    (hp : pfx &&& (BitVec.allOnes 64 >>> n) = 0) :
    ctz64 (convertShardIdent pfx (BitVec.ofNat 8 n)) = 63 - n := by
  rw [convertShardIdent_eq pfx n hn]
  have hlt : 63 - n < 64 := by omega
  apply ctz_eq_of
  · rw [BitVec.getLsbD_or, getLsbD_one_shl]; simp [hlt]
  · intro j hj
    have h1 : ¬ 63 - n = j := by omega
    rw [BitVec.getLsbD_or, getLsbD_one_shl, low_bits_zero_of_and_mask hp j (by omega)]; simp [h1]

/-- `convert_shard_ident` for every prefix length `n ≤ 63` -/
theorem convert_shard_ident_63 (pfx : BitVec 64) (n : Nat) (hn : n ≤ 63)
    (hp : pfx &&& (BitVec.allOnes 64 >>> n) = 0) :
    parseShardID (convertShardIdent pfx (BitVec.ofNat 8 n)) = some ⟨pfx, BitVec.allOnes 64 <<< (64 - n)⟩ ∧
      shardLen (convertShardIdent pfx (BitVec.ofNat 8 n)) = n := by
  have hc := ctz64_convertShardIdent pfx n hn hp
  have hne : convertShardIdent pfx (BitVec.ofNat 8 n) ≠ 0 := by
    intro h
    have : ctz64 (convertShardIdent pfx (BitVec.ofNat 8 n)) = 64 := by rw [h]; exact ctz_zero
    omega
  constructor
  · rw [parseShardID_of_ne hne, hc]
    have h1 : 63 - n + 1 = 64 - n := by omega
    rw [h1, convertShardIdent_eq pfx n hn]
    congr 2
    apply BitVec.eq_of_getLsbD_eq
    intro i hi
    rw [BitVec.getLsbD_xor, BitVec.getLsbD_or, getLsbD_one_shl]
    by_cases h2 : 63 - n = i
    · subst h2
      rw [low_bits_zero_of_and_mask hp _ (by omega)]; simp
    · simp [h2]
  · unfold shardLen; rw [hc]; omega

/-- **convertShardIdent is the inverse of ParseShardID**: for a TL-B `ShardIdent` with `n ≤ 60` prefix bits whose
`shard_prefix` has no bits below the top `n`, the converted 64-bit id parses back to exactly
`(prefix, mask of the top n bits)` and has length `n`. -/
theorem convert_shard_ident (pfx : BitVec 64) (n : Nat) (hn : n ≤ 60)
    (hp : pfx &&& (BitVec.allOnes 64 >>> n) = 0) :
    parseShardID (convertShardIdent pfx (BitVec.ofNat 8 n)) = some ⟨pfx, BitVec.allOnes 64 <<< (64 - n)⟩ ∧
      shardLen (convertShardIdent pfx (BitVec.ofNat 8 n)) = n :=
  convert_shard_ident_63 pfx n (by omega) hp

/-! ### anycast rewrite -/

theorem lowmask32_fin : ∀ d : Fin 33, 1 ≤ d.val →
    (1#32 <<< (32 - d.val)) - 1#32 = BitVec.allOnes 32 >>> d.val := by decide

theorem lowmask32 (d : Nat) (h1 : 1 ≤ d) (h32 : d ≤ 32) :
    (1#32 <<< (32 - d)) - 1#32 = BitVec.allOnes 32 >>> d :=
  lowmask32_fin ⟨d, by omega⟩ h1

theorem getLsbD_lowmask32 (d i : Nat) : (BitVec.allOnes 32 >>> d).getLsbD i = decide (d + i < 32) := by
  rw [BitVec.getLsbD_ushiftRight, BitVec.getLsbD_allOnes]

theorem anycastRewrite_eq (a r : BitVec 32) (d : Nat) (h1 : 1 ≤ d) (h32 : d ≤ 32) :
    anycastRewrite a (BitVec.ofNat 32 d) r = (a &&& (BitVec.allOnes 32 >>> d)) ||| (r <<< (32 - d)) := by
  unfold anycastRewrite
  have : (32#32 - BitVec.ofNat 32 d).toNat = 32 - d := by
    rw [BitVec.toNat_sub, BitVec.toNat_ofNat, BitVec.toNat_ofNat]; omega
  rw [this, lowmask32 d h1 h32]

theorem shlGuard_eq {w : Nat} (x : BitVec w) (n : Nat) : shlGuard x n = x <<< n := by
  unfold shlGuard
  split
  · rfl
  · apply BitVec.eq_of_getLsbD_eq
    intro i hi
    simp [BitVec.getLsbD_shiftLeft]
    omega

/-- the executable form used by the driver is the modelled arithmetic -/
theorem anycastRewriteExec_eq (a d r : BitVec 32) : anycastRewriteExec a d r = anycastRewrite a d r := by
  simp only [anycastRewriteExec, anycastRewrite, shlGuard_eq]

theorem getLsbD_of_toNat_lt {r : BitVec 32} {d i : Nat} (hr : r.toNat < 2 ^ d) (hi : d ≤ i) :
    r.getLsbD i = false := by
  unfold BitVec.getLsbD
  apply Nat.testBit_lt_two_pow
  exact Nat.lt_of_lt_of_le hr (Nat.pow_le_pow_right (by omega) hi)

/-- **the anycast rewrite replaces exactly the top `d` bits**: for `1 ≤ d ≤ 30` (the TL-B `Anycast` depth range) and a
`rewrite_pfx` of `d` bits, the top `d` bits of the rewritten 32-bit address prefix are `rewrite_pfx` and the low
`32 - d` bits are those of the original address. -/
theorem anycast_rewrite (a r : BitVec 32) (d : Nat) (h1 : 1 ≤ d) (h30 : d ≤ 30) (hr : r.toNat < 2 ^ d) :
    (anycastRewrite a (BitVec.ofNat 32 d) r) >>> (32 - d) = r ∧
      (anycastRewrite a (BitVec.ofNat 32 d) r) &&& (BitVec.allOnes 32 >>> d) = a &&& (BitVec.allOnes 32 >>> d) := by
  rw [anycastRewrite_eq a r d h1 (by omega)]
  constructor
  · apply BitVec.eq_of_getLsbD_eq
    intro i hi
    simp only [BitVec.getLsbD_ushiftRight, BitVec.getLsbD_or, BitVec.getLsbD_and, BitVec.getLsbD_shiftLeft,
      BitVec.getLsbD_allOnes]
    have e1 : 32 - d + i - (32 - d) = i := by omega
    have e2 : ¬ (32 - d + i < 32 - d) := by omega
    have e3 : ¬ (d + (32 - d + i) < 32) := by omega
    rw [e1]
    by_cases hid : i < d
    · have e4 : 32 - d + i < 32 := by omega
      simp [-BitVec.getLsbD_eq_getElem, e2, e3, e4]
    · have := getLsbD_of_toNat_lt hr (Nat.le_of_not_lt hid)
      simp [-BitVec.getLsbD_eq_getElem, e3, this]
  · apply BitVec.eq_of_getLsbD_eq
    intro i hi
    simp only [BitVec.getLsbD_ushiftRight, BitVec.getLsbD_or, BitVec.getLsbD_and, BitVec.getLsbD_shiftLeft,
      BitVec.getLsbD_allOnes]
    by_cases hid : d + i < 32
    · have e2 : i < 32 - d := by omega
      simp [-BitVec.getLsbD_eq_getElem, hid, e2]
    · simp [hid]

/-! ### concrete instances -/

example : (parseShardID 0x4800000000000000#64).bind encode = some 0x4800000000000000#64 :=
  shard_roundtrip _ (by decide)

example : ∃ s, parseShardID 0x4800000000000000#64 = some s ∧
    (matchPrefix s 0x4a12345678abcdef#64 = true ↔
      ∀ i, i < shardLen 0x4800000000000000#64 → (0x4a12345678abcdef#64).getMsbD i = (0x4800000000000000#64).getMsbD i) :=
  match_is_prefix _ _ (by decide)

example : ∃ s, parseShardID 0x4800000000000000#64 = some s ∧
    (matchBlock s 0x4400000000000000#64 = true ↔
      ∀ i, i < min (shardLen 0x4800000000000000#64) (shardLen 0x4400000000000000#64) →
        (0x4800000000000000#64).getMsbD i = (0x4400000000000000#64).getMsbD i) :=
  match_block _ _ (by decide) (by decide)

example : matchBlock ⟨0x4000000000000000#64, 0xf000000000000000#64⟩ 0 = false := match_block_zero _

example : shardParent (shardChild 0x4800000000000000#64 true) = 0x4800000000000000#64 :=
  parent_child _ _ (by decide)

example : shardChild (shardParent 0x4c00000000000000#64) (isLeft 0x4c00000000000000#64) = 0x4c00000000000000#64 :=
  child_parent _ (by decide) (by decide)

example : shardLen (shardChild 0x4800000000000000#64 false) = shardLen 0x4800000000000000#64 + 1 :=
  child_len _ _ (by decide) (by decide)

example : (∀ i, i < shardLen 0x4800000000000000#64 →
      (shardChild 0x4800000000000000#64 false).getMsbD i = (0x4800000000000000#64).getMsbD i) ∧
    (shardChild 0x4800000000000000#64 false).getMsbD (shardLen 0x4800000000000000#64) = !false :=
  child_prefix _ _ (by decide) (by decide)

example : parseShardID (convertShardIdent 0x4000000000000000#64 (BitVec.ofNat 8 4)) =
      some ⟨0x4000000000000000#64, BitVec.allOnes 64 <<< (64 - 4)⟩ ∧
    shardLen (convertShardIdent 0x4000000000000000#64 (BitVec.ofNat 8 4)) = 4 :=
  convert_shard_ident _ 4 (by omega) (by decide)

example : (anycastRewrite 0x12345678#32 (BitVec.ofNat 32 3) 0b101#32) >>> (32 - 3) = 0b101#32 ∧
    (anycastRewrite 0x12345678#32 (BitVec.ofNat 32 3) 0b101#32) &&& (BitVec.allOnes 32 >>> 3) =
      0x12345678#32 &&& (BitVec.allOnes 32 >>> 3) :=
  anycast_rewrite _ _ 3 (by omega) (by omega) (by decide)

end Tongo.Shard
