import TongoProofs.Lemmas.BocTotal
import TongoProofs.Lemmas.BocBitsRt
/-! The reader applied to the output of the reference writer, stage by stage (`Ret x a`: the stage returns exactly
`a`). Used by `parse_emit` (C01). -/
namespace Tongo.Boc
open Tongo

/-- `Ret x a`: from every allocation counter, `x` returns exactly `a` (no error, no panic) -/
def Ret {α} (x : M α) (a : α) : Prop := ∀ s, ∃ s', x s = (.ok a, s')

theorem ret_pure {α} (a : α) : Ret (pure a : M α) a := fun s => ⟨s, rfl⟩

theorem ret_bind {α β} {x : M α} {f : α → M β} {a : α} {b : β} (hx : Ret x a) (hf : Ret (f a) b) :
    Ret (x >>= f) b := by
  intro s
  obtain ⟨s1, h1⟩ := hx s
  obtain ⟨s2, h2⟩ := hf s1
  refine ⟨s2, ?_⟩
  rw [M.bind_eq]
  unfold M.bind'
  rw [h1]
  exact h2

theorem ret_lift {α} {o : Outcome α} {a : α} (h : o = .ok a) : Ret (M.lift o) a := by
  subst h; exact fun s => ⟨s, rfl⟩

theorem ret_alloc (n : Nat) : Ret (M.alloc n) () := fun s => ⟨s + n, rfl⟩

theorem ret_makeSlice (elem n : Nat) (h : elem * n ≤ 281474976710656) : Ret (M.makeSlice elem n) () := by
  intro s
  refine ⟨s + elem * n, ?_⟩
  unfold M.makeSlice
  have : ¬ elem * n > 281474976710656 := by omega
  simp [this]

theorem ret_ite_neg {α} {c : Prop} [Decidable c] {x y : M α} {a : α} (hc : ¬c) (hy : Ret y a) :
    Ret (if c then x else y) a := by
  simp only [hc, if_false]; exact hy

theorem ret_ite_pos {α} {c : Prop} [Decidable c] {x y : M α} {a : α} (hc : c) (hx : Ret x a) :
    Ret (if c then x else y) a := by
  simp only [hc, if_true]; exact hx

theorem Ret.run {α} {x : M α} {a : α} (h : Ret x a) : x.run.1 = .ok a := by
  obtain ⟨s', hs⟩ := h 0
  unfold M.run
  rw [hs]

/-! ### descriptor bytes -/

theorem d1_decode : ∀ r < 5, ∀ m < 8, ∀ e w : Bool,
    r + (if e then 8 else 0) + (if w then 16 else 0) + 32 * m < 256 ∧
    decide ((r + (if e then 8 else 0) + (if w then 16 else 0) + 32 * m) &&& 8 > 0) = e ∧
    (r + (if e then 8 else 0) + (if w then 16 else 0) + 32 * m) % 8 = r ∧
    decide ((r + (if e then 8 else 0) + (if w then 16 else 0) + 32 * m) &&& 16 ≠ 0) = w ∧
    (r + (if e then 8 else 0) + (if w then 16 else 0) + 32 * m) / 32 = m := by
  decide

/-- what the reference writer needs from a row to serialise it with reference width `size` -/
structure CellEmitOK (size : Nat) (r : CellRow) (st : Option Bytes) : Prop where
  bits_le : r.bits.length ≤ 1023
  mask_lt : r.mask < 8
  refs_le : r.refs.length ≤ 4
  ty_lt : r.ty < 256
  refs_fit : ∀ x ∈ r.refs, x < 256 ^ size
  exotic : r.ty ≠ 0 → (Bits.toppedUp r.bits).head? = some (UInt8.ofNat r.ty)
  pruned : r.ty = tyPruned → 2 + LevelMask.hashIndex r.mask * (hashSize + depthSize) ≤ (r.bits.length + 7) / 8
  stored_len : ∀ b, st = some b → b.length = LevelMask.hashesCount r.mask * (hashSize + depthSize)

/-- the raw cell the reader reconstructs from a row -/
def rawOf (r : CellRow) : RawCell := { ty := r.ty, mask := r.mask, bits := r.bits, refs := r.refs.map Int.ofNat }

theorem readRefs_flatMap (size : Nat) (refs : List Nat) (rest : Bytes) (hs : size ≤ 4)
    (h : ∀ x ∈ refs, x < 256 ^ size) :
    readRefs refs.length size (refs.flatMap (toBytesBE size) ++ rest) = .ok (refs.map Int.ofNat, rest) := by
  induction refs with
  | nil => rfl
  | cons x xs ih =>
    have hx := h x (by simp)
    have hp := pow256_le size hs
    simp only [List.length_cons, List.flatMap_cons, List.append_assoc, readRefs]
    rw [readN_toBytesBE size x _ (by omega) hx]
    have hsl : sliceFrom (toBytesBE size x ++ (xs.flatMap (toBytesBE size) ++ rest)) size
        = .ok (xs.flatMap (toBytesBE size) ++ rest) := by
      rw [sliceFrom_ok _ _ (by simp)]
      congr 1
      have := List.drop_left (l₁ := toBytesBE size x) (l₂ := xs.flatMap (toBytesBE size) ++ rest)
      simp
    simp only [bind, Outcome.bind, hsl, ih (fun y hy => h y (by simp [hy])), pure]
    congr 2
    simp only [List.map_cons]
    congr 1
    exact toInt_small x (by unfold two63; omega)

theorem d2_toNat (n : Nat) (h : n ≤ 1023) : (d2 n).toNat = (n + 7) / 8 + n / 8 := by
  unfold d2
  have : (n + 7) / 8 + n / 8 < 256 := by omega
  simp [Nat.mod_eq_of_lt this]

theorem ofNat_toNat_lt (n : Nat) (h : n < 256) : (UInt8.ofNat n).toNat = n := by
  simp [Nat.mod_eq_of_lt h]


theorem lenLt_append_false (a rest : Bytes) (n : Nat) (h : n ≤ a.length) : lenLt (a ++ rest) (n : Int) = false :=
  (lenLt_nat_false _ _).2 (by simp; omega)

theorem parseCellBody_emit (size : Nat) (_hs1 : 1 ≤ size) (hs4 : size ≤ 4) (r : CellRow) (st : Option Bytes)
    (rest : Bytes) (h : CellEmitOK size r st) :
    Ret (parseCellBody
          { isExotic := decide (r.ty ≠ 0), refNum := r.refs.length, dataBytesSize := (r.bits.length + 7) / 8,
            fulfilled := decide (r.bits.length % 8 = 0), withHashes := st.isSome, mask := r.mask }
          (st.getD [] ++ Bits.toppedUp r.bits ++ r.refs.flatMap (toBytesBE size) ++ rest) size)
      (rawOf r, rest) := by
  unfold parseCellBody
  have hn := h.bits_le
  have hrl := h.refs_le
  have htu := toppedUp_length r.bits
  have hrb : (r.refs.flatMap (toBytesBE size)).length = size * r.refs.length := by
    clear hrl
    induction r.refs with
    | nil => simp
    | cons x xs ih => simp [List.flatMap_cons, ih, Nat.mul_succ]; omega
  have hsr : size * r.refs.length ≤ 16 := by
    have : size * r.refs.length ≤ 4 * r.refs.length := Nat.mul_le_mul_right _ hs4
    omega
  -- stored hashes are skipped
  apply ret_bind (a := Bits.toppedUp r.bits ++ r.refs.flatMap (toBytesBE size) ++ rest)
  · cases st with
    | none => simp only [Option.isSome_none, Bool.false_eq_true, if_false, Option.getD_none, List.nil_append]; exact ret_pure _
    | some b =>
      have hb := h.stored_len b rfl
      simp only [Option.isSome_some, if_true, Option.getD_some, List.append_assoc]
      apply ret_ite_neg
      · rw [← hb]
        simpa using lenLt_append_false b _ b.length (by omega)
      · apply ret_lift
        rw [sliceFrom_ok _ _ (by simp; omega), ← hb]
        congr 1
        exact List.drop_left
  simp only
  apply ret_ite_neg
  · rw [mulI_nat _ _ (by unfold two63; omega), addI_nat _ _ (by unfold two63; omega)]
    rw [(lenLt_nat_false (Bits.toppedUp r.bits ++ r.refs.flatMap (toBytesBE size) ++ rest)
      ((r.bits.length + 7) / 8 + size * r.refs.length)).2 (by simp only [List.length_append, htu, hrb]; omega)]
    exact Bool.false_ne_true
  -- exotic type byte
  apply ret_bind (a := r.ty)
  · by_cases hty : r.ty = 0
    · simp only [hty, ne_eq, not_true_eq_false, decide_false, Bool.false_eq_true, if_false]
      exact ret_pure _
    · simp only [ne_eq, hty, not_false_eq_true, decide_true, if_true]
      have hex := h.exotic hty
      rcases htl : Bits.toppedUp r.bits with _ | ⟨b0, tl⟩
      · rw [htl] at hex; simp at hex
      · rw [htl] at hex htu
        simp only [List.head?_cons, Option.some.injEq] at hex
        simp only [List.length_cons] at htu
        apply ret_ite_neg (by omega)
        apply ret_bind (a := r.ty)
        · apply ret_lift
          simp only [List.cons_append, readN, hex]
          rw [ofNat_toNat_lt _ h.ty_lt]
          congr 1
          have := h.ty_lt
          unfold two64
          omega
        · have : r.ty % 256 = r.ty := Nat.mod_eq_of_lt h.ty_lt
          rw [this]; exact ret_pure _
  apply ret_bind (ret_alloc _)
  apply ret_bind (a := Bits.toppedUp r.bits)
  · apply ret_lift
    rw [sliceTo_ok _ _ (by simp only [List.length_append, htu, hrb]; omega), List.append_assoc, ← htu]
    congr 1
    exact List.take_left
  apply ret_bind (ret_makeSlice _ _ (by omega))
  apply ret_bind (ret_alloc _)
  apply ret_bind (a := r.bits)
  · exact ret_lift (setTopUpped_toppedUp r.bits)
  apply ret_ite_neg
  · intro hc
    have := h.pruned hc.1
    omega
  apply ret_bind (a := r.refs.flatMap (toBytesBE size) ++ rest)
  · apply ret_lift
    rw [sliceFrom_ok _ _ (by simp only [List.length_append, htu, hrb]; omega), List.append_assoc, ← htu]
    congr 1
    exact List.drop_left
  apply ret_bind (ret_makeSlice _ _ (by unfold szUint; omega))
  apply ret_bind (a := (r.refs.map Int.ofNat, rest))
  · exact ret_lift (readRefs_flatMap size r.refs rest hs4 h.refs_fit)
  exact ret_pure _

theorem descr_emit (size : Nat) (r : CellRow) (st : Option Bytes) (h : CellEmitOK size r st) :
    descr (UInt8.ofNat (r.refs.length + (if r.ty ≠ 0 then 8 else 0) + (if st.isSome then 16 else 0) + 32 * r.mask)).toNat
        (d2 r.bits.length).toNat =
      { isExotic := decide (r.ty ≠ 0), refNum := r.refs.length, dataBytesSize := (r.bits.length + 7) / 8,
        fulfilled := decide (r.bits.length % 8 = 0), withHashes := st.isSome, mask := r.mask } := by
  obtain ⟨h1, h2, h3, h4, h5⟩ := d1_decode r.refs.length (by have := h.refs_le; omega) r.mask h.mask_lt
    (decide (r.ty ≠ 0)) st.isSome
  simp only [decide_eq_true_eq] at h1 h2 h3 h4 h5
  rw [ofNat_toNat_lt _ h1, d2_toNat _ h.bits_le]
  unfold descr
  have hn := h.bits_le
  simp only [h2, h3, h4, h5]
  congr 1
  · omega
  · by_cases hm : r.bits.length % 8 = 0
    · have : ((r.bits.length + 7) / 8 + r.bits.length / 8) % 2 = 0 := by omega
      simp [hm, this]
    · have : ((r.bits.length + 7) / 8 + r.bits.length / 8) % 2 = 1 := by omega
      simp [hm, this]

theorem lenLt_two (a b : UInt8) (t : Bytes) : lenLt (a :: b :: t) 2 = false := by
  have := (lenLt_nat_false (a :: b :: t) 2).2 (by simp)
  simpa using this

theorem parseCell_emit (size : Nat) (hs1 : 1 ≤ size) (hs4 : size ≤ 4) (r : CellRow) (st : Option Bytes)
    (rest : Bytes) (h : CellEmitOK size r st) :
    Ret (parseCell (emitCell size r st ++ rest) size) (rawOf r, rest) := by
  unfold parseCell emitCell
  simp only [List.cons_append]
  apply ret_ite_neg
  · rw [lenLt_two]
    exact Bool.false_ne_true
  apply ret_bind (ret_lift rfl)
  apply ret_bind (ret_lift (sliceFrom_ok _ _ (by simp)))
  apply ret_bind (ret_lift rfl)
  apply ret_bind (ret_lift (sliceFrom_ok _ _ (by simp)))
  simp only [List.drop_succ_cons, List.drop_zero]
  rw [descr_emit size r st h]
  have := parseCellBody_emit size hs1 hs4 r st rest h
  simpa only [List.append_assoc] using this
/-- per-cell requirements along `emitCells` -/
def AllEmitOK (size : Nat) : List CellRow → List (Option Bytes) → Prop
  | [], _ => True
  | r :: rs, st => CellEmitOK size r (st.headD none) ∧ AllEmitOK size rs st.tail

theorem parseCells_emit (size : Nat) (hs1 : 1 ≤ size) (hs4 : size ≤ 4) (rows : List CellRow)
    (st : List (Option Bytes)) (rest : Bytes) (h : AllEmitOK size rows st) :
    Ret (parseCells rows.length ((emitCells size rows st).flatten ++ rest) size) (rows.map rawOf) := by
  induction rows generalizing st with
  | nil => exact ret_pure _
  | cons r rs ih =>
    obtain ⟨hr, hrs⟩ := h
    simp only [List.length_cons, emitCells, List.flatten_cons, List.append_assoc, parseCells]
    apply ret_bind (parseCell_emit size hs1 hs4 r _ _ hr)
    apply ret_bind (ih st.tail hrs)
    exact ret_pure _

theorem emitCells_length (size : Nat) (rows : List CellRow) (st : List (Option Bytes)) :
    (emitCells size rows st).length = rows.length := by
  induction rows generalizing st with
  | nil => rfl
  | cons r rs ih => simp [emitCells, ih]

theorem emitCell_length_ge (size : Nat) (r : CellRow) (st : Option Bytes) : 2 ≤ (emitCell size r st).length := by
  simp [emitCell]

theorem emitCells_flatten_ge (size : Nat) (rows : List CellRow) (st : List (Option Bytes)) :
    2 * rows.length ≤ (emitCells size rows st).flatten.length := by
  induction rows generalizing st with
  | nil => simp [emitCells]
  | cons r rs ih =>
    simp only [emitCells, List.flatten_cons, List.length_append, List.length_cons]
    have := ih st.tail
    have := emitCell_length_ge size r (st.headD none)
    omega

theorem emitIndex_length (off : Nat) (cache : Bool) (acc : Nat) (cells : List Bytes) (cb : List Bool) :
    (emitIndex off cache acc cells cb).length = off * cells.length := by
  induction cells generalizing acc cb with
  | nil => simp [emitIndex]
  | cons c cs ih => simp [emitIndex, ih, Nat.mul_succ]; omega

/-! ### back-patching and roots on a valid table -/

theorem checkRefs_ok (depths : Array Nat) (i n bound : Nat) (refs : List Nat) (d : Nat) (hsz : depths.size = n)
    (h : ∀ x ∈ refs, i < x ∧ x < n ∧ depths[x]! + 1 ≤ bound) (hd : d ≤ bound) :
    ∃ d', checkRefs depths i n (refs.map Int.ofNat) d = .ok d' ∧ d' ≤ bound := by
  induction refs generalizing d with
  | nil => exact ⟨d, rfl, hd⟩
  | cons x xs ih =>
    obtain ⟨hx1, hx2, hx3⟩ := h x (by simp)
    simp only [List.map_cons, checkRefs]
    have h1 : ¬ (Int.ofNat x ≤ (i : Int)) := by simp only [Int.ofNat_eq_natCast]; omega
    have h2 : ¬ (Int.ofNat x ≥ (n : Int)) := by simp only [Int.ofNat_eq_natCast]; omega
    simp only [h1, h2, if_false]
    have hxd : x < depths.size := by omega
    have hto : (Int.ofNat x).toNat = x := by simp
    rw [hto, Array.getElem?_eq_getElem hxd]
    simp only
    rw [getElem!_pos depths x hxd] at hx3
    apply ih _ (fun y hy => h y (by simp [hy]))
    split <;> omega

theorem backPatch_ok (t : Table) (hrows : ∀ i (h : i < t.size), RowOK t.size i t[i]) (ds0 : Array Nat)
    (hds : ds0.size = t.size)
    (hrank : ∀ i (h : i < t.size), ds0[i]! ≤ maxDepth ∧ ∀ r ∈ t[i].refs, ds0[r]! + 1 ≤ ds0[i]!)
    (k : Nat) (hk : k ≤ t.size) (depths : Array Nat) (hsz : depths.size = t.size)
    (hinv : ∀ i, k ≤ i → i < t.size → depths[i]! ≤ ds0[i]!) :
    ∃ ds, backPatch (t.toList.map rawOf).toArray k depths = .ok ds := by
  induction k generalizing depths with
  | zero => exact ⟨depths, rfl⟩
  | succ k ih =>
    have hk' : k < t.size := by omega
    have hrow := hrows k hk'
    obtain ⟨hdk, hrk⟩ := hrank k hk'
    unfold backPatch
    have hget : (t.toList.map rawOf).toArray[k]? = some (rawOf t[k]) := by simp [hk']
    rw [hget]
    have h4 : ¬ ((rawOf t[k]).refs.length > 4) := by simp [rawOf]; exact hrow.refs_le
    simp only [h4, if_false]
    have hsz' : (t.toList.map rawOf).toArray.size = t.size := by simp
    rw [hsz']
    obtain ⟨d, hd, hdb⟩ := checkRefs_ok depths k t.size (ds0[k]!) t[k].refs 0 hsz (by
      intro x hx
      obtain ⟨hx1, hx2⟩ := hrow.refs_fwd x hx
      have := hinv x (by omega) hx2
      have := hrk x hx
      exact ⟨hx1, hx2, by omega⟩) (by omega)
    have hkd : k < depths.size := by omega
    have hnd : ¬ d > maxDepth := by omega
    simp only [rawOf, hd, bind, Outcome.bind, hkd, if_true, hnd, if_false]
    apply ih (by omega) (depths.set! k d) (by simp [hsz])
    intro i hki hi
    by_cases hik : i = k
    · subst hik
      rw [getElem!_set!_eq depths i d hkd]; exact hdb
    · rw [getElem!_set!_ne depths k i d (by omega) (by omega)]
      exact hinv i (by omega) hi

theorem checkRoots_ok (n : Nat) (roots : List Nat) (h : ∀ r ∈ roots, r < n) : checkRoots n roots = .ok () := by
  induction roots with
  | nil => rfl
  | cons r rs ih =>
    have := h r (by simp)
    simp only [checkRoots]
    have hn : ¬ r ≥ n := by omega
    simp only [hn, if_false]
    exact ih (fun y hy => h y (by simp [hy]))

theorem toRow_rawOf (r : CellRow) : (rawOf r).toRow = r := by
  cases r with
  | mk ty mask bits refs =>
    simp only [rawOf, RawCell.toRow, List.map_map]
    congr 1
    induction refs with
    | nil => rfl
    | cons x xs ih => simp [ih]

/-! ### header stages on emitted bytes -/

theorem flag_decode : ∀ sz < 5, ∀ i c k : Bool,
    headerKind magicGeneric (UInt8.ofNat ((if i then 128 else 0) + (if c then 64 else 0) + (if k then 32 else 0) + sz))
      = some ⟨i, c, k, 0, sz, true⟩ := by
  decide

theorem headerKind_emit (p : EmitParams) (hm : p.magic ≤ 2) (hs : p.size ≤ 4) :
    headerKind (magicBytes p.magic) (flagByte p) = some ⟨p.idx, p.crc, p.cache, 0, p.size, decide (p.magic = 0)⟩ := by
  have hsz : (UInt8.ofNat p.size).toNat = p.size := ofNat_toNat_lt _ (by omega)
  rcases Nat.lt_or_ge p.magic 1 with h0 | h1
  · have h0 : p.magic = 0 := by omega
    have := flag_decode p.size (by omega) p.hasIdx p.hasCrc p.hasCache
    simp only [magicBytes, flagByte, h0, if_true, EmitParams.idx, EmitParams.crc, EmitParams.cache]
    simpa using this
  · have hfb : flagByte p = UInt8.ofNat p.size := by
      unfold flagByte; rw [if_neg (by omega)]
    rcases Nat.lt_or_ge p.magic 2 with h1' | h2
    · have h1 : p.magic = 1 := by omega
      have hmb : magicBytes p.magic = magicIdx := by simp [magicBytes, h1]
      have e1 : p.idx = true := by simp [EmitParams.idx, h1]
      have e2 : p.crc = false := by simp [EmitParams.crc, h1]
      have e3 : p.cache = false := by simp [EmitParams.cache, h1]
      have e4 : decide (p.magic = 0) = false := by simp [h1]
      rw [hmb, hfb, e1, e2, e3, e4]
      unfold headerKind
      rw [if_neg (by decide), if_pos rfl, hsz]
    · have h2 : p.magic = 2 := by omega
      have hmb : magicBytes p.magic = magicIdxCrc := by simp [magicBytes, h2]
      have e1 : p.idx = true := by simp [EmitParams.idx, h2]
      have e2 : p.crc = true := by simp [EmitParams.crc, h2]
      have e3 : p.cache = false := by simp [EmitParams.cache, h2]
      have e4 : decide (p.magic = 0) = false := by simp [h2]
      rw [hmb, hfb, e1, e2, e3, e4]
      unfold headerKind
      rw [if_neg (by decide), if_neg (by decide), if_pos rfl, hsz]

theorem magicBytes_length (m : Nat) : (magicBytes m).length = 4 := by
  unfold magicBytes; split
  · rfl
  · split <;> rfl

theorem parsePrefix_emit (p : EmitParams) (hm : p.magic ≤ 2) (hs : p.size ≤ 4) (R : Bytes) :
    Ret (parsePrefix (magicBytes p.magic ++ flagByte p :: R))
      ((⟨p.idx, p.crc, p.cache, 0, p.size, decide (p.magic = 0)⟩ : Kind),
        (magicBytes p.magic ++ flagByte p :: R).take ((magicBytes p.magic ++ flagByte p :: R).length - 4), R) := by
  unfold parsePrefix
  have hml := magicBytes_length p.magic
  apply ret_ite_neg
  · have := (lenLt_nat_false (magicBytes p.magic ++ flagByte p :: R) 5).2 (by simp [hml]; omega)
    simp only [Nat.cast_ofNat] at this
    rw [this]; exact Bool.false_ne_true
  apply ret_bind (ret_lift (sliceTo_ok _ _ (by omega)))
  apply ret_bind (a := magicBytes p.magic)
  · apply ret_lift
    rw [sliceTo_ok _ _ (by simp [hml]), ← hml]
    congr 1
    exact List.take_left
  apply ret_bind (a := flagByte p :: R)
  · apply ret_lift
    rw [sliceFrom_ok _ _ (by simp [hml]), ← hml]
    congr 1
    exact List.drop_left
  apply ret_bind (ret_lift rfl)
  rw [headerKind_emit p hm hs]
  simp only
  apply ret_bind (a := R)
  · exact ret_lift (sliceFrom_ok _ _ (by simp))
  exact ret_pure _


theorem sliceFrom_append (a rest : Bytes) : sliceFrom (a ++ rest) a.length = .ok rest := by
  rw [sliceFrom_ok _ _ (by simp)]
  congr 1
  exact List.drop_left

theorem sliceFrom_BE (w n : Nat) (rest : Bytes) : sliceFrom (toBytesBE w n ++ rest) w = .ok rest := by
  have := sliceFrom_append (toBytesBE w n) rest
  rwa [toBytesBE_length] at this

theorem parseCounters_emit (size off n rn ab tot : Nat) (Y : Bytes)
    (hs1 : 1 ≤ size) (hs4 : size ≤ 4) (ho1 : 1 ≤ off) (ho8 : off ≤ 8)
    (hn : n < 256 ^ size) (hrn : rn < 256 ^ size) (hab : ab < 256 ^ size) (htot : tot < 256 ^ off)
    (hY : tot ≤ Y.length) (hcells : n ≤ tot / 2) (hr1 : 1 ≤ rn) :
    Ret (parseCounters size (UInt8.ofNat off :: (toBytesBE size n ++ (toBytesBE size rn ++ (toBytesBE size ab ++
          (toBytesBE off tot ++ Y))))))
      (⟨off, n, rn, ab, tot⟩, Y) := by
  unfold parseCounters
  have hoff : (UInt8.ofNat off).toNat = off := ofNat_toNat_lt _ (by omega)
  apply ret_ite_neg (by omega)
  apply ret_ite_neg
  · have := (lenLt_nat_false (UInt8.ofNat off :: (toBytesBE size n ++ (toBytesBE size rn ++ (toBytesBE size ab ++
          (toBytesBE off tot ++ Y))))) 1).2 (by simp)
    simp only [Nat.cast_one] at this
    rw [this]; exact Bool.false_ne_true
  apply ret_bind (ret_lift rfl)
  simp only [hoff]
  apply ret_ite_neg (by omega)
  apply ret_ite_neg
  · rw [(lenLt_nat_false _ _).2 (by simp; omega)]
    exact Bool.false_ne_true
  apply ret_bind (ret_lift (sliceFrom_ok _ _ (by simp)))
  simp only [List.drop_succ_cons, List.drop_zero]
  apply ret_bind (ret_lift (readN_toBytesBE size n _ (by omega) hn))
  apply ret_bind (ret_lift (sliceFrom_BE size n _))
  apply ret_bind (ret_lift (readN_toBytesBE size rn _ (by omega) hrn))
  apply ret_bind (ret_lift (sliceFrom_BE size rn _))
  apply ret_bind (ret_lift (readN_toBytesBE size ab _ (by omega) hab))
  apply ret_bind (ret_lift (sliceFrom_BE size ab _))
  apply ret_bind (ret_lift (readN_toBytesBE off tot _ ho8 htot))
  apply ret_bind (ret_lift (sliceFrom_BE off tot _))
  apply ret_ite_neg
  · rw [(hasAtLeast_iff Y tot).2 hY]; simp
  apply ret_ite_neg (by omega)
  apply ret_ite_neg (by omega)
  exact ret_pure _

theorem readList_flatMap (w : Nat) (xs : List Nat) (rest : Bytes) (hw : w ≤ 8) (h : ∀ x ∈ xs, x < 256 ^ w) :
    readList xs.length w false (xs.flatMap (toBytesBE w) ++ rest) = .ok (xs, rest) := by
  induction xs with
  | nil => rfl
  | cons x xs ih =>
    have hx := h x (by simp)
    simp only [List.length_cons, List.flatMap_cons, List.append_assoc, readList]
    rw [readN_toBytesBE w x _ hw hx, sliceFrom_BE]
    simp only [bind, Outcome.bind, ih (fun y hy => h y (by simp [hy])), pure]
    simp

theorem parseRoots_emit_list (size : Nat) (roots : List Nat) (Z : Bytes) (hs4 : size ≤ 4)
    (hlen : roots.length < 256 ^ size) (h : ∀ x ∈ roots, x < 256 ^ size) :
    Ret (parseRoots true size roots.length (roots.flatMap (toBytesBE size) ++ Z)) (roots, Z) := by
  unfold parseRoots
  have hp := pow256_le size hs4
  have hl63 : roots.length < two63 := by unfold two63; omega
  have hmul : roots.length * size < two63 := by
    have : roots.length * size ≤ roots.length * 4 := Nat.mul_le_mul_left _ hs4
    unfold two63; omega
  have hfl : (roots.flatMap (toBytesBE size)).length = roots.length * size := by
    clear hlen h hl63 hmul
    induction roots with
    | nil => simp
    | cons x xs ih => simp [List.flatMap_cons, ih, Nat.succ_mul]; omega
  simp only [if_true]
  apply ret_ite_neg
  · rw [toInt_small _ hl63, mulI_nat _ _ hmul, (lenLt_nat_false _ _).2 (by simp only [List.length_append, hfl]; omega)]
    exact Bool.false_ne_true
  apply ret_bind (ret_makeSlice _ _ (by unfold szUint; omega))
  rw [toInt_small _ hl63]
  simp only [Int.toNat_natCast]
  exact ret_lift (readList_flatMap size roots Z (by omega) h)

theorem parseRoots_emit_idx (size : Nat) (Z : Bytes) :
    Ret (parseRoots false size 1 Z) ([0], Z) := by
  unfold parseRoots
  simp only [Bool.false_eq_true, if_false]
  apply ret_ite_neg (by simp)
  apply ret_bind (ret_makeSlice _ _ (by unfold szUint; omega))
  exact ret_pure _

theorem parseIndex_emit (hasIdx cache : Bool) (off n : Nat) (ib W : Bytes) (ho8 : off ≤ 8) (hn : n < 4294967296)
    (hib : ib.length = if hasIdx then off * n else 0) :
    ∃ ix, Ret (parseIndex hasIdx cache off n (ib ++ W)) (ix, W) := by
  unfold parseIndex
  have hn63 : n < two63 := by unfold two63; omega
  have hmul : off * n < two63 := by
    have : off * n ≤ 8 * n := Nat.mul_le_mul_right _ ho8
    unfold two63; omega
  cases hasIdx with
  | false =>
    simp only [Bool.false_eq_true, if_false] at hib ⊢
    have : ib = [] := List.eq_nil_of_length_eq_zero hib
    subst this
    exact ⟨[], ret_bind (ret_makeSlice _ _ (by unfold szUint; omega)) (ret_pure _)⟩
  | true =>
    simp only [if_true] at hib ⊢
    obtain ⟨vs, hvs, _⟩ := readList_ok n off cache (ib ++ W) (by simp [hib, Nat.mul_comm])
    refine ⟨vs, ?_⟩
    apply ret_bind (ret_makeSlice _ _ (by unfold szUint; omega))
    apply ret_ite_neg
    · rw [toInt_small _ hn63, mulI_nat _ _ hmul, (lenLt_nat_false _ _).2 (by simp [hib])]
      exact Bool.false_ne_true
    rw [toInt_small _ hn63]
    simp only [Int.toNat_natCast]
    apply ret_lift
    rw [hvs]
    congr 2
    rw [Nat.mul_comm, ← hib]
    exact List.drop_left

theorem parseTail_emit (crc : Bool) (data body : Bytes) (hd : data.length < two63) :
    Ret (parseTail crc data.length body (data ++ (if crc then toBytesLE32 (Crc.crc32c body).toNat else []))) data := by
  unfold parseTail
  apply ret_ite_neg
  · rw [toInt_small _ hd, (lenLt_nat_false _ _).2 (by simp)]
    exact Bool.false_ne_true
  apply ret_bind (a := data)
  · apply ret_lift
    rw [sliceTo_ok _ _ (by simp)]
    congr 1
    exact List.take_left
  apply ret_bind (ret_lift (sliceFrom_append data _))
  cases crc with
  | false =>
    simp only [Bool.false_eq_true, if_false]
    apply ret_bind (ret_pure _)
    apply ret_ite_neg (by simp [hasAtLeast])
    exact ret_pure _
  | true =>
    simp only [if_true]
    apply ret_bind (a := [])
    · apply ret_ite_neg
      · have := (lenLt_nat_false (toBytesLE32 (Crc.crc32c body).toNat) 4).2 (by simp [toBytesLE32])
        simp only [Nat.cast_ofNat] at this
        rw [this]; exact Bool.false_ne_true
      have hv : (Crc.crc32c body).toNat < 4294967296 := (Crc.crc32c body).toNat_lt
      have hle := le32_toBytesLE32 (Crc.crc32c body).toNat [] hv
      rw [List.append_nil] at hle
      apply ret_bind (ret_lift hle)
      apply ret_ite_neg (by simp)
      apply ret_lift
      rw [sliceFrom_ok _ _ (by simp [toBytesLE32])]
      simp [toBytesLE32]
    apply ret_ite_neg (by simp [hasAtLeast])
    exact ret_pure _
/-! ### the whole reader on the reference writer's output -/

/-- an exotic row starts with its type byte -/
def ExoticOK (r : CellRow) : Prop := r.ty ≠ 0 → (Bits.toppedUp r.bits).head? = some (UInt8.ofNat r.ty)

/-- a table and roots that a conforming writer may serialise: sound (≤ 1023 bits, ≤ 4 refs, refs strictly forward and
in range, pruned branches complete, roots in range) and every exotic cell carries its type in its first data byte -/
def ValidLayout (t : Table) (roots : List Nat) : Prop :=
  Sound t roots ∧ ∀ i (h : i < t.size), ExoticOK t[i]

/-- total size of the serialised cells -/
def dataLen (p : EmitParams) (t : Table) : Nat := (emitCells p.size t.toList p.stored).flatten.length

/-- the header parameters are admissible for the table: every field fits its width -/
structure ParamsOK (p : EmitParams) (t : Table) (roots : List Nat) : Prop where
  magic_le : p.magic ≤ 2
  size_ge : 1 ≤ p.size
  size_le : p.size ≤ 4
  off_ge : 1 ≤ p.offBytes
  off_le : p.offBytes ≤ 8
  cells_fit : t.size < 256 ^ p.size
  roots_fit : roots.length < 256 ^ p.size
  roots_ge : 1 ≤ roots.length
  absent_fit : p.absent < 256 ^ p.size
  /-- the total size — doubled plus the cache bit when the index carries cache bits — fits `off_bytes` -/
  tot_fit : (if p.cache then 2 * dataLen p t + 1 else dataLen p t) < 256 ^ p.offBytes
  /-- the idx-only magics have a single root, cell 0 -/
  idx_root : p.magic ≠ 0 → roots = [0]
  /-- stored hashes and depths have the length the level mask prescribes -/
  stored_ok : ∀ i (h : i < t.size) b, (p.stored[i]?).getD none = some b →
    b.length = LevelMask.hashesCount t[i].mask * (hashSize + depthSize)
  /-- the result is a Go slice -/
  is_slice : (emitBoc p t roots).length < two63

theorem allEmitOK_of_pointwise (size : Nat) (rows : List CellRow) (st : List (Option Bytes))
    (h : ∀ i (hi : i < rows.length), CellEmitOK size rows[i] ((st[i]?).getD none)) : AllEmitOK size rows st := by
  induction rows generalizing st with
  | nil => trivial
  | cons r rs ih =>
    refine ⟨?_, ?_⟩
    · have := h 0 (by simp)
      cases st <;> simpa using this
    · apply ih
      intro i hi
      have := h (i + 1) (by simp; omega)
      cases st with
      | nil => simpa using this
      | cons s ss => simpa using this

theorem cellEmitOK_of_valid (p : EmitParams) (t : Table) (roots : List Nat) (hv : ValidLayout t roots)
    (hp : ParamsOK p t roots) (i : Nat) (hi : i < t.size) :
    CellEmitOK p.size t[i] ((p.stored[i]?).getD none) := by
  have hrow := hv.1.1 i hi
  refine ⟨hrow.bits_le, hrow.mask_lt, hrow.refs_le, hrow.ty_lt, ?_, hv.2 i hi, hrow.pruned, hp.stored_ok i hi⟩
  intro x hx
  have := (hrow.refs_fwd x hx).2
  have := hp.cells_fit
  omega


/-- the bytes of `emitBoc`, re-associated the way the reader consumes them -/
theorem emitBoc_form (p : EmitParams) (t : Table) (roots : List Nat) :
    ∃ B : Bytes,
      let cells := emitCells p.size t.toList p.stored
      let data := cells.flatten
      let crcB := if p.crc then toBytesLE32 (Crc.crc32c B).toNat else []
      emitBoc p t roots = B ++ crcB ∧
      B ++ crcB = magicBytes p.magic ++ flagByte p :: (UInt8.ofNat p.offBytes :: (toBytesBE p.size t.size ++
        (toBytesBE p.size roots.length ++ (toBytesBE p.size p.absent ++ (toBytesBE p.offBytes data.length ++
        ((if p.magic = 0 then roots.flatMap (toBytesBE p.size) else []) ++
        ((if p.idx then emitIndex p.offBytes p.cache 0 cells p.cacheBits else []) ++ (data ++ crcB)))))))) := by
  refine ⟨magicBytes p.magic ++ [flagByte p, UInt8.ofNat p.offBytes]
    ++ toBytesBE p.size t.size ++ toBytesBE p.size roots.length ++ toBytesBE p.size p.absent
    ++ toBytesBE p.offBytes (emitCells p.size t.toList p.stored).flatten.length
    ++ (if p.magic = 0 then roots.flatMap (toBytesBE p.size) else [])
    ++ (if p.idx then emitIndex p.offBytes p.cache 0 (emitCells p.size t.toList p.stored) p.cacheBits else [])
    ++ (emitCells p.size t.toList p.stored).flatten, ?_, ?_⟩
  · unfold emitBoc
    by_cases hc : p.crc = true
    · simp only [hc, if_true]
    · simp only [hc, Bool.false_eq_true, if_false, List.append_nil]
  · simp only [List.append_assoc, List.cons_append, List.nil_append]

theorem parseTail_emit_nocrc (data body : Bytes) (hd : data.length < two63) :
    Ret (parseTail false data.length body (data ++ [])) data := by
  have := parseTail_emit false data body hd
  simpa using this

theorem parseTail_emit_crc (data body : Bytes) (hd : data.length < two63) :
    Ret (parseTail true data.length body (data ++ toBytesLE32 (Crc.crc32c body).toNat)) data := by
  have := parseTail_emit true data body hd
  simpa using this

theorem parseHeader_emit (p : EmitParams) (t : Table) (roots : List Nat)
    (hv : ValidLayout t roots) (hp : ParamsOK p t roots) :
    ∃ h : Header, Ret (parseHeader (emitBoc p t roots)) h ∧ h.sizeBytes = p.size ∧ h.cellCount = t.size ∧
      h.rootList = roots ∧ h.cellsData = (emitCells p.size t.toList p.stored).flatten := by
  obtain ⟨B, hB1, hB2⟩ := emitBoc_form p t roots
  have hslice := hp.is_slice
  rw [hB1] at hslice
  have hs1 := hp.size_ge
  have hs4 := hp.size_le
  have hpow := pow256_le p.size hs4
  have hcells := hp.cells_fit
  have hrl := hp.roots_fit
  have hdl : dataLen p t = (emitCells p.size t.toList p.stored).flatten.length := rfl
  have htot : (emitCells p.size t.toList p.stored).flatten.length < 256 ^ p.offBytes := by
    have := hp.tot_fit
    rw [hdl] at this
    split at this <;> omega
  have h2n : 2 * t.size ≤ (emitCells p.size t.toList p.stored).flatten.length := by
    have := emitCells_flatten_ge p.size t.toList p.stored
    simpa using this
  have hdata63 : (emitCells p.size t.toList p.stored).flatten.length < two63 := by
    have : (emitCells p.size t.toList p.stored).flatten.length ≤ (B ++ if p.crc = true then toBytesLE32 (Crc.crc32c B).toNat else []).length := by
      rw [hB2]; simp only [List.length_append, List.length_cons]; omega
    omega
  -- the body covered by the checksum, as the reader computes it
  have hbody : p.crc = true →
      (B ++ toBytesLE32 (Crc.crc32c B).toNat).take ((B ++ toBytesLE32 (Crc.crc32c B).toNat).length - 4) = B := by
    intro _
    have h4 : (toBytesLE32 (Crc.crc32c B).toNat).length = 4 := by simp [toBytesLE32]
    rw [List.length_append, h4, Nat.add_sub_cancel]
    exact List.take_left
  obtain ⟨ix, hix⟩ := parseIndex_emit p.idx p.cache p.offBytes t.size
    (if p.idx then emitIndex p.offBytes p.cache 0 (emitCells p.size t.toList p.stored) p.cacheBits else [])
    ((emitCells p.size t.toList p.stored).flatten ++ if p.crc then toBytesLE32 (Crc.crc32c B).toNat else [])
    hp.off_le (by omega) (by
      by_cases hi : p.idx = true
      · simp only [hi, if_true, emitIndex_length, emitCells_length, Array.length_toList]
      · simp only [hi, Bool.false_eq_true, if_false, List.length_nil])
  refine ⟨{ hasIdx := p.idx, hasCrc := p.crc, hasCache := p.cache, flags := 0, sizeBytes := p.size,
            cellCount := t.size, rootCount := roots.length, absentCount := p.absent,
            totCellsSize := (emitCells p.size t.toList p.stored).flatten.length, rootList := roots, index := ix,
            cellsData := (emitCells p.size t.toList p.stored).flatten }, ?_, rfl, rfl, rfl, rfl⟩
  unfold parseHeader
  rw [hB1, hB2]
  apply ret_bind (parsePrefix_emit p hp.magic_le hs4 _)
  simp only
  apply ret_bind (parseCounters_emit p.size p.offBytes t.size roots.length p.absent _ _ hs1 hs4 hp.off_ge hp.off_le
    hcells hrl hp.absent_fit htot (by simp only [List.length_append]; omega) (by omega) hp.roots_ge)
  simp only
  apply ret_bind (a := (roots, (if p.idx then emitIndex p.offBytes p.cache 0 (emitCells p.size t.toList p.stored) p.cacheBits else []) ++
      ((emitCells p.size t.toList p.stored).flatten ++ if p.crc then toBytesLE32 (Crc.crc32c B).toNat else [])))
  · by_cases hm : p.magic = 0
    · simp only [hm, decide_true, if_true]
      apply parseRoots_emit_list p.size roots _ hs4 hrl
      intro x hx
      have := hv.1.2.1 x hx
      omega
    · have hr0 := hp.idx_root hm
      simp only [hm, decide_false, if_false, List.nil_append, hr0, List.length_cons, List.length_nil]
      exact parseRoots_emit_idx p.size _
  simp only
  apply ret_bind hix
  simp only
  apply ret_bind (a := (emitCells p.size t.toList p.stored).flatten)
  · by_cases hc : p.crc = true
    · rw [← hB2]
      simp only [hc, if_true] at hbody ⊢
      rw [hbody trivial]
      exact parseTail_emit_crc _ _ hdata63
    · have hc' : p.crc = false := by simpa using hc
      simp only [hc', Bool.false_eq_true, if_false]
      exact parseTail_emit_nocrc _ _ hdata63
  exact ret_pure _

theorem map_toRow_rawOf (t : Table) : (t.toList.map rawOf).toArray.map RawCell.toRow = t := by
  apply Array.ext
  · simp
  · intro i h1 h2
    simp [toRow_rawOf]

theorem parseBocM_emit (p : EmitParams) (t : Table) (roots : List Nat)
    (hv : ValidLayout t roots) (hp : ParamsOK p t roots) : Ret (parseBocM (emitBoc p t roots)) (t, roots) := by
  obtain ⟨h, hret, hsz, hcc, hrl, hcd⟩ := parseHeader_emit p t roots hv hp
  have hpow := pow256_le p.size hp.size_le
  have hn32 : t.size < 4294967296 := by have := hp.cells_fit; omega
  have hr32 : roots.length < 4294967296 := by have := hp.roots_fit; omega
  unfold parseBocM
  apply ret_bind hret
  rw [hcc, hsz, hrl, hcd]
  apply ret_bind (ret_makeSlice _ _ (by unfold szPtr; omega))
  apply ret_bind (ret_makeSlice _ _ (by unfold szSliceHdr; omega))
  rw [toInt_u32 _ hn32]
  have hall : AllEmitOK p.size t.toList p.stored := by
    apply allEmitOK_of_pointwise
    intro i hi
    have hi' : i < t.size := by simpa using hi
    have := cellEmitOK_of_valid p t roots hv hp i hi'
    simpa using this
  have hcells := parseCells_emit p.size hp.size_ge hp.size_le t.toList p.stored [] hall
  rw [List.append_nil, Array.length_toList] at hcells
  apply ret_bind hcells
  dsimp only
  rw [start_u32 _ hn32]
  apply ret_bind (ret_makeSlice _ _ (by simp only [szUint, List.size_toArray, List.length_map, Array.length_toList]; omega))
  obtain ⟨ds0, hds0, hrank⟩ := hv.1.2.2
  obtain ⟨ds, hbp⟩ := backPatch_ok t hv.1.1 ds0 hds0 hrank t.size (Nat.le_refl _)
    (Array.replicate (t.toList.map rawOf).toArray.size 0) (by simp) (by intro i hki hi; omega)
  apply ret_bind (ret_lift hbp)
  apply ret_bind (ret_makeSlice _ _ (by unfold szPtr; omega))
  apply ret_bind (a := ())
  · apply ret_lift
    apply checkRoots_ok
    intro r hr
    have := hv.1.2.1 r hr
    simpa using this
  rw [map_toRow_rawOf]
  exact ret_pure _

end Tongo.Boc
