import TongoModel.Tlb.Wf
import TongoProofs.Lemmas.TlbRT
/-! wallet.W5Actions: the out-list of a v5 wallet occupies whole cells (40 bits + two references per action). -/
namespace Tongo.Tlb
open Tongo Tongo.Bits

theorem bind_ok_inv' {α β} {x : Outcome α} {k : α → Outcome β} {r : β} (h : (x >>= k) = .ok r) :
    ∃ a, x = .ok a ∧ k a = .ok r := by
  cases x with
  | ok a => exact ⟨a, rfl, h⟩
  | err e => cases h
  | panic e => cases h

theorem natToBits_mod64' (n x : Nat) (hn : n ≤ 64) : natToBits n (x % 2 ^ 64) = natToBits n x := by
  apply natToBits_congr
  exact Nat.mod_mod_of_dvd x (Nat.pow_dvd_pow 2 hn)

/-- the cell an out-list serialises to -/
def w5Cell : Val → Cell
  | .cons (.cons .magic (.cons (.int mode) (.cons (.cons (.cell c) .nil) .nil))) rest =>
    .mk 0 0 (natToBits 32 Prim.w5Magic ++ natToBits 8 mode.toNat) [w5Cell rest, c]
  | _ => .mk 0 0 [] []

theorem w5_enc (v : Val) : ∀ (b' : Builder), Prim.w5Dom v = true →
    Prim.encW5Actions v Builder.empty = .ok b' → b'.toCell = w5Cell v := by
  fun_induction Prim.w5Dom v with
  | case1 =>
    intro b' _ he
    simp only [Prim.encW5Actions] at he; cases he
    rfl
  | case2 mode c rest ih =>
    intro b' hd he
    simp only [Bool.and_eq_true, decide_eq_true_eq] at hd
    obtain ⟨⟨⟨⟨_, _⟩, hm0⟩, hm1⟩, hrest⟩ := hd
    simp only [Prim.encW5Actions, Builder.writeUint] at he
    obtain ⟨b1, hb1, he2⟩ := bind_ok_inv' he
    obtain ⟨b2, hb2, he3⟩ := bind_ok_inv' he2
    obtain ⟨child, hc, he4⟩ := bind_ok_inv' he3
    obtain ⟨b3, hb3, he5⟩ := bind_ok_inv' he4
    have e1 := Builder.writeBits_ok hb1
    have e2 := Builder.writeBits_ok hb2
    have e3 := Builder.addRef_ok hb3
    have e4 := Builder.addRef_ok he5
    rw [natToBits_mod64' 32 _ (by omega)] at e1
    rw [natToBits_mod64' 8 _ (by omega)] at e2
    have hch := ih child hrest hc
    rw [e4, e3, e2, e1, Builder.app_app, Builder.app_app, Builder.app_app, hch]
    simp [Builder.empty, Builder.app, Builder.toCell, w5Cell]
  | case3 v h1 h2 =>
    intro b' hd _
    cases hd

theorem w5Cell_depth (v : Val) : Prim.w5Dom v = true → Prim.valLen v + 1 ≤ cellDepth (w5Cell v) := by
  fun_induction Prim.w5Dom v with
  | case1 =>
    intro _
    have : w5Cell .nil = Cell.mk 0 0 [] [] := rfl
    rw [this, cellDepth]; simp [Prim.valLen]
  | case2 mode c rest ih =>
    intro hd
    simp only [Bool.and_eq_true] at hd
    have := ih hd.2
    rw [w5Cell, cellDepth, cellDepthList]
    simp only [Prim.valLen]
    have h2 : cellDepth (w5Cell rest) ≤ Nat.max (cellDepth (w5Cell rest)) (cellDepthList [c]) := Nat.le_max_left _ _
    omega
  | case3 v h1 h2 =>
    intro hd
    cases hd

theorem w5_dec (v : Val) : ∀ (fuel : Nat) (acc : List Val), Prim.w5Dom v = true → Prim.valLen v < fuel →
    ∃ s', Prim.decW5Aux fuel (Slice.ofCell (w5Cell v)) acc = .ok (acc.reverse.foldr Val.cons v, s') := by
  fun_induction Prim.w5Dom v with
  | case1 =>
    intro fuel acc _ hf
    cases fuel with
    | zero => omega
    | succ fuel =>
      refine ⟨Slice.ofCell (w5Cell .nil), ?_⟩
      simp only [w5Cell, Slice.ofCell, Prim.decW5Aux, List.length_nil, ↓reduceIte]
      congr 2
      induction acc.reverse with
      | nil => rfl
      | cons a t ih => simp [Val.list, ih]
  | case2 mode c rest ih =>
    intro fuel acc hd hf
    simp only [Bool.and_eq_true, decide_eq_true_eq, bne_iff_ne, ne_eq] at hd
    obtain ⟨⟨⟨⟨hok, hlib⟩, hm0⟩, hm1⟩, hrest⟩ := hd
    cases fuel with
    | zero => omega
    | succ fuel =>
      simp only [Prim.valLen] at hf
      obtain ⟨s', hs'⟩ := ih fuel (Val.list [.magic, .int mode, Val.some (.cell c)] :: acc) hrest (by omega)
      refine ⟨s', ?_⟩
      obtain ⟨ty, mask, cbits, crefs⟩ := c
      simp only [cellOk, Bool.and_eq_true, bne_iff_ne, ne_eq, decide_eq_true_eq] at hok
      simp only [Cell.ty] at hlib
      have hbl : (natToBits 32 Prim.w5Magic ++ natToBits 8 mode.toNat).length = 40 := by simp
      have s0 : (⟨0, 0, natToBits 32 Prim.w5Magic ++ natToBits 8 mode.toNat, [Cell.mk ty mask cbits crefs]⟩ : Slice) =
          (⟨0, 0, [], [Cell.mk ty mask cbits crefs]⟩ : Slice).prepend (natToBits 32 Prim.w5Magic ++ natToBits 8 mode.toNat) [] := by
        simp [Slice.prepend]
      have r1 := Slice.readUint_prepend (⟨0, 0, [], [Cell.mk ty mask cbits crefs]⟩ : Slice) 32 Prim.w5Magic (natToBits 8 mode.toNat) []
        (by omega)
      have r2 := Slice.readUint_prepend (⟨0, 0, [], [Cell.mk ty mask cbits crefs]⟩ : Slice) 8 mode.toNat [] [] (by omega)
      simp only [List.append_nil] at r2
      have m1 : Prim.w5Magic % 2 ^ 32 = Prim.w5Magic := by decide
      have m2 : mode.toNat % 2 ^ 8 = mode.toNat := Nat.mod_eq_of_lt (by omega)
      have hact : Prim.decW5Action (⟨0, 0, natToBits 32 Prim.w5Magic ++ natToBits 8 mode.toNat, [Cell.mk ty mask cbits crefs]⟩ : Slice) =
          .ok (Val.list [.magic, .int mode, Val.some (.cell (Cell.mk ty mask cbits crefs))], ⟨0, 0, [], []⟩) := by
        rw [s0]
        simp only [Prim.decW5Action, r1, m1, bind, Outcome.bind, ne_eq, not_true_eq_false, ↓reduceIte, r2, m2,
          Slice.prepend_nil, Slice.nextRef, pure, beq_iff_eq, hlib, hok.1.1, Int.toNat_of_nonneg hm0]
      rw [w5Cell, Prim.decW5Aux, show ∀ (t m : Nat) (bs : List Bool) (rs : List Cell),
        Slice.ofCell (Cell.mk t m bs rs) = ⟨t, m, bs, rs⟩ from fun _ _ _ _ => rfl]
      simp only [hbl, show ¬ (40 = 0) by omega, ↓reduceIte, Slice.nextRef, bind, Outcome.bind,
        Slice.isLibrary, tyLibrary, show ((0 : Nat) == 2) = false from rfl, Bool.false_eq_true, hact]
      rw [hs']
      simp [Val.list, Val.some]
  | case3 v h1 h2 =>
    intro fuel acc hd
    cases hd

end Tongo.Tlb
