import TongoProofs.Lemmas.BitStringOps
/-! Fift hex: `ToFiftHex` is "nibbles of the bits, padded with 1 0… and marked `_` when the length is not a multiple
of 4", and `BitStringFromFiftHex` inverts it. Helper lemmas only. -/
namespace Tongo.BitString
open Tongo.Bits

/-- upper-case hex digits of a bit list, four bits per digit (trailing 1..3 bits are dropped) -/
def nibbles : List Bool → List Char
  | a :: b :: c :: d :: rest => Hex.nibbleCharUpper (bitsToNat [a, b, c, d]) :: nibbles rest
  | _ => []

/-- the Fift hex text of a bit list -/
def fiftSpec (l : List Bool) : List Char :=
  if l.length % 4 = 0 then nibbles l
  else nibbles (l ++ true :: List.replicate (3 - l.length % 4) false) ++ ['_']

theorem nibbles_group (g rest : List Bool) (hg : g.length = 4) :
    nibbles (g ++ rest) = Hex.nibbleCharUpper (bitsToNat g) :: nibbles rest := by
  match g, hg with
  | [a, b, c, d], _ => rfl

theorem nibbles_append (k : Nat) : ∀ (a b : List Bool), a.length = 4 * k → nibbles (a ++ b) = nibbles a ++ nibbles b := by
  induction k with
  | zero =>
    intro a b ha
    have : a = [] := List.length_eq_zero_iff.mp (by omega)
    subst this; rfl
  | succ k ih =>
    intro a b ha
    have hsplit : a = a.take 4 ++ a.drop 4 := (List.take_append_drop 4 a).symm
    have ht : (a.take 4).length = 4 := by rw [List.length_take]; omega
    have hd : (a.drop 4).length = 4 * k := by rw [List.length_drop]; omega
    rw [hsplit, List.append_assoc, nibbles_group _ _ ht, nibbles_group _ _ ht, ih _ b hd]
    rfl

theorem nibbles_length (k : Nat) : ∀ (a : List Bool), a.length = 4 * k → (nibbles a).length = k := by
  induction k with
  | zero =>
    intro a ha
    have : a = [] := List.length_eq_zero_iff.mp (by omega)
    subst this; rfl
  | succ k ih =>
    intro a ha
    have hsplit : a = a.take 4 ++ a.drop 4 := (List.take_append_drop 4 a).symm
    have ht : (a.take 4).length = 4 := by rw [List.length_take]; omega
    have hd : (a.drop 4).length = 4 * k := by rw [List.length_drop]; omega
    rw [hsplit, nibbles_group _ _ ht, List.length_cons, ih _ hd]

theorem nibbles_byte : ∀ n, n < 256 →
    nibbles (natToBits 8 n) = [Hex.nibbleCharUpper (n / 16), Hex.nibbleCharUpper (n % 16)] := by decide +kernel

theorem hexUpperChars_eq (bs : List UInt8) : hexUpperChars bs = nibbles (bytesToBits bs) := by
  induction bs with
  | nil => rfl
  | cons b t ih =>
    rw [bytesToBits_cons, nibbles_append 2 _ _ (by simp), byteToBits, nibbles_byte _ b.toNat_lt, ← ih]
    simp [hexUpperChars]

/-- the aligned branch of `ToFiftHex` -/
theorem fiftHexAligned_eq (s : BitString) (h8 : s.len ≤ 8 * s.buf.length) (h4 : s.len % 4 = 0) :
    fiftHexAligned s = .ok (nibbles (abs s)) := by
  have hm : ¬ (s.len + 7) / 8 > s.buf.length := by omega
  simp only [fiftHexAligned, hm, if_false, hexUpperChars_eq, bytesToBits_take]
  by_cases h0 : s.len % 8 = 0
  · have e : 8 * ((s.len + 7) / 8) = s.len := by omega
    simp only [h0, if_true, e]; rfl
  · have e : 8 * ((s.len + 7) / 8) = s.len + 4 := by omega
    simp only [h0, if_false, e]
    have hsplit : (bytesToBits s.buf).take (s.len + 4) = abs s ++ ((bytesToBits s.buf).drop s.len).take 4 := by
      rw [List.take_add]; rfl
    have hT : (((bytesToBits s.buf).drop s.len).take 4).length = 4 := by
      rw [List.length_take, List.length_drop, bytesToBits_length]; omega
    have hk : (abs s).length = 4 * (s.len / 4) := by rw [abs_length h8]; omega
    rw [hsplit, nibbles_append _ _ _ hk]
    have : nibbles (((bytesToBits s.buf).drop s.len).take 4)
        = [Hex.nibbleCharUpper (bitsToNat (((bytesToBits s.buf).drop s.len).take 4))] := by
      have := nibbles_group _ [] hT
      simpa [nibbles] using this
    rw [this, List.dropLast_concat]


/-! ### the padding program of `ToFiftHex` -/

theorem ignoreErr_ok (x : M Unit) (s s' : BitString) (h : x s = (.ok (), s')) : ignoreErr x s = (.ok (), s') := by
  simp only [ignoreErr, h]

/-- the loop `for temp.len%4 != 0 { temp.WriteBit(false) }` with enough room and enough rounds -/
theorem padLoop_spec (j : Nat) : ∀ (s : BitString), Inv s → s.len + (4 - s.len % 4) % 4 ≤ s.cap →
    (4 - s.len % 4) % 4 ≤ j →
    ∃ s', padLoop j s = (.ok (), s') ∧ abs s' = abs s ++ List.replicate ((4 - s.len % 4) % 4) false ∧ Inv s' ∧
      s'.len % 4 = 0 := by
  induction j with
  | zero =>
    intro s hi _ hj
    have h0 : s.len % 4 = 0 := by omega
    refine ⟨s, ?_, ?_, hi, h0⟩
    · simp [padLoop, h0]
    · simp [h0]
  | succ j ih =>
    intro s hi hroom hj
    by_cases h0 : s.len % 4 = 0
    · refine ⟨s, ?_, ?_, hi, h0⟩
      · simp [padLoop, h0]
      · simp [h0]
    · obtain ⟨s1, hw, ha, hi1, hc, _, hl, _⟩ := writeBit_ok false s hi (by omega)
      have hk : (4 - s.len % 4) % 4 = (4 - s1.len % 4) % 4 + 1 := by rw [hl]; omega
      obtain ⟨s2, hp, ha2, hi2, h42⟩ := ih s1 hi1 (by rw [hc, hl]; omega) (by omega)
      refine ⟨s2, ?_, ?_, hi2, h42⟩
      · simp only [padLoop, bind_run, get_run, ne_eq, h0, not_false_eq_true, if_true, ignoreErr_ok _ _ _ hw, hp]
      · rw [ha2, ha, List.append_assoc, hk, List.replicate_succ]; rfl

/-- `ToFiftHex` computes the Fift hex text of the abstract bits (it works on a copy; no panic, no error) -/
theorem toFiftHex_eq (s : BitString) (hi : Inv s) : toFiftHex s = .ok (fiftSpec (abs s)) := by
  have h8 := hi.len_le_buf
  have hal := hi.abs_length
  unfold toFiftHex fiftSpec
  rw [hal]
  by_cases h4 : s.len % 4 = 0
  · simp only [h4, if_true, fiftHexAligned_eq s h8 h4]
  · simp only [h4, if_false]
    -- the copy, grown by 4 - len%4 bits
    have hRc : R (copy s) ⟨abs s, s.cap, 0⟩ := by
      obtain ⟨a1, a2, a3, a4⟩ := hi
      exact ⟨⟨a1, a2, Nat.zero_le _, a4⟩, rfl, rfl, rfl⟩
    have hRg := grow_refines (4 - s.len % 4) (copy s) _ hRc
    have hgr : grow (4 - s.len % 4) (copy s) = (.ok (), (grow (4 - s.len % 4) (copy s)).2) := rfl
    generalize (grow (4 - s.len % 4) (copy s)).2 = s1 at hRg hgr
    have hl1 : s1.len = s.len := by have := hRg.len; simp only at this; omega
    have hc1 : s1.cap = s.cap + (4 - s.len % 4) := hRg.2.2.1
    have hlc : s.len ≤ s.cap := hi.1
    obtain ⟨s2, hw, ha2, hi2, hc2, _, hl2, _⟩ := writeBit_ok true s1 hRg.1 (by omega)
    obtain ⟨s3, hp, ha3, hi3, h43⟩ := padLoop_spec 3 s2 hi2 (by rw [hc2, hl2]; omega) (by omega)
    simp only [bind_run, hgr, ignoreErr_ok _ _ _ hw, hp]
    rw [fiftHexAligned_eq s3 hi3.len_le_buf h43, ha3, ha2, hRg.2.1]
    simp only
    have e : (4 - s2.len % 4) % 4 = 3 - s.len % 4 := by rw [hl2, hl1]; omega
    rw [e, List.append_assoc]
    rfl

/-! ### parsing -/

theorem charNibble_upper : ∀ v, v < 16 → Hex.charNibble? (Hex.nibbleCharUpper v) = some v := by decide

theorem nibbleCharUpper_ne_underscore : ∀ v, v < 16 → Hex.nibbleCharUpper v ≠ '_' := by decide

theorem bitsToNat_lt16 (g : List Bool) (hg : g.length = 4) : bitsToNat g < 16 := by
  have := bitsToNat_lt g; rw [hg] at this; exact this

theorem nibbles_ne_underscore (k : Nat) : ∀ (a : List Bool), a.length = 4 * k → ∀ c ∈ nibbles a, c ≠ '_' := by
  induction k with
  | zero =>
    intro a ha c hc
    have : a = [] := List.length_eq_zero_iff.mp (by omega)
    subst this; simp [nibbles] at hc
  | succ k ih =>
    intro a ha c hc
    have hsplit : a = a.take 4 ++ a.drop 4 := (List.take_append_drop 4 a).symm
    have ht : (a.take 4).length = 4 := by rw [List.length_take]; omega
    have hd : (a.drop 4).length = 4 * k := by rw [List.length_drop]; omega
    rw [hsplit, nibbles_group _ _ ht, List.mem_cons] at hc
    rcases hc with rfl | hc
    · exact nibbleCharUpper_ne_underscore _ (bitsToNat_lt16 _ ht)
    · exact ih _ hd c hc

/-- parsing the digits of whole nibbles writes the bits back -/
theorem writeNibbles_nibbles (k : Nat) : ∀ (a : List Bool), a.length = 4 * k →
    writeNibbles (nibbles a) = writeBitArray a := by
  induction k with
  | zero =>
    intro a ha
    have : a = [] := List.length_eq_zero_iff.mp (by omega)
    subst this; rfl
  | succ k ih =>
    intro a ha
    have hsplit : a = a.take 4 ++ a.drop 4 := (List.take_append_drop 4 a).symm
    have ht : (a.take 4).length = 4 := by rw [List.length_take]; omega
    have hd : (a.drop 4).length = 4 * k := by rw [List.length_drop]; omega
    rw [hsplit, nibbles_group _ _ ht, writeNibbles, charNibble_upper _ (bitsToNat_lt16 _ ht)]
    simp only
    rw [ih _ hd, writeUint_eq, writeBitArray_append]
    have := natToBits_bitsToNat (a.take 4)
    rw [ht] at this
    rw [this]

/-- the completion suffix table inverts the padded last nibble -/
theorem suffix_table (e : List Bool) (h1 : 1 ≤ e.length) (h3 : e.length ≤ 3) :
    suffixToBits (Hex.nibbleCharUpper (bitsToNat (e ++ true :: List.replicate (3 - e.length) false))) = some e := by
  match e, h1, h3 with
  | [a], _, _ => cases a <;> decide
  | [a, b], _, _ => cases a <;> cases b <;> decide
  | [a, b, c], _, _ => cases a <;> cases b <;> cases c <;> decide

/-- run a bit-list write on a fresh bit string of exactly the right capacity -/
theorem writeBitArray_new (l : List Bool) :
    ∃ s', writeBitArray l (new l.length) = (.ok (), s') ∧ abs s' = l ∧ Inv s' ∧ s'.cap = l.length := by
  obtain ⟨s', hw, ha, hi', hc, _⟩ := writeBitArray_spec l (new l.length) (inv_new _)
  have hfit : (new l.length).len + l.length ≤ (new l.length).cap := by simp [new]
  simp only [hfit, if_true] at hw
  refine ⟨s', hw, ?_, hi', by rw [hc]; rfl⟩
  rw [ha, abs_new, List.nil_append, List.take_of_length_le (by simp [new])]

/-- `BitStringFromFiftHex` inverts the Fift hex text -/
theorem fromFiftHex_fiftSpec (l : List Bool) :
    ∃ s', fromFiftHex (fiftSpec l) = .ok s' ∧ abs s' = l ∧ Inv s' ∧ s'.cap = l.length := by
  obtain ⟨s', hw, ha, hi', hc⟩ := writeBitArray_new l
  refine ⟨s', ?_, ha, hi', hc⟩
  unfold fiftSpec fromFiftHex
  by_cases h4 : l.length % 4 = 0
  · have hk : l.length = 4 * (l.length / 4) := by omega
    have hnu : (nibbles l).getLast? ≠ some '_' := by
      intro h
      exact nibbles_ne_underscore _ l hk '_' (List.mem_of_getLast? h) rfl
    simp only [h4, if_true, hnu, if_false]
    have hlen : (nibbles l).length * 4 + ([] : List Bool).length = l.length := by
      rw [nibbles_length _ l hk]; simp; omega
    rw [hlen]
    have hprog : (writeNibbles (nibbles l) >>= fun _ => writeBitArray []) = writeBitArray l := by
      rw [writeNibbles_nibbles _ l hk]
      exact bind_pure_unit _
    have : (do writeNibbles (nibbles l); writeBitArray [] : M Unit) = writeBitArray l := hprog
    simp only [this, hw]
  · simp only [h4, if_false]
    -- split l into whole nibbles and the 1..3 ending bits
    have hr1 : 1 ≤ l.length % 4 := by omega
    have hr3 : l.length % 4 ≤ 3 := by omega
    let l0 := l.take (l.length - l.length % 4)
    let e := l.drop (l.length - l.length % 4)
    have hl : l = l0 ++ e := (List.take_append_drop _ l).symm
    have hl0 : l0.length = 4 * (l.length / 4) := by simp [l0]; omega
    have he : e.length = l.length % 4 := by simp [e]; omega
    have hpad : (e ++ true :: List.replicate (3 - l.length % 4) false).length = 4 := by
      simp [he]; omega
    have hnib : nibbles (l ++ true :: List.replicate (3 - l.length % 4) false) =
        nibbles l0 ++ [Hex.nibbleCharUpper (bitsToNat (e ++ true :: List.replicate (3 - l.length % 4) false))] := by
      have e1 : nibbles (l ++ true :: List.replicate (3 - l.length % 4) false)
          = nibbles ((l0 ++ e) ++ true :: List.replicate (3 - l.length % 4) false) := by rw [← hl]
      rw [e1, List.append_assoc, nibbles_append _ _ _ hl0]
      have := nibbles_group _ [] hpad
      simp only [List.append_nil] at this
      rw [this]; rfl
    rw [hnib]
    generalize hcdef : Hex.nibbleCharUpper (bitsToNat (e ++ true :: List.replicate (3 - l.length % 4) false)) = c
    have hsuf : suffixToBits c = some e := by
      rw [← hcdef, ← he]; exact suffix_table e (by omega) (by omega)
    have h1 : (nibbles l0 ++ [c] ++ ['_']).getLast? = some '_' := by simp
    have h2 : ¬ (nibbles l0 ++ [c] ++ ['_']).length < 2 := by simp
    have h3 : (nibbles l0 ++ [c] ++ ['_']).dropLast = nibbles l0 ++ [c] := by simp
    have h4' : (nibbles l0 ++ [c]).getLast? = some c := by simp
    have h5 : (nibbles l0 ++ [c]).dropLast = nibbles l0 := by simp
    simp only [h1, if_true, h2, if_false, h3, h4', hsuf, h5]
    have hlen : (nibbles l0).length * 4 + e.length = l.length := by
      rw [nibbles_length _ l0 hl0, he]; omega
    rw [hlen]
    have hprog : (writeNibbles (nibbles l0) >>= fun _ => writeBitArray e) = writeBitArray l := by
      rw [writeNibbles_nibbles _ l0 hl0, ← writeBitArray_append, ← hl]
    have : (do writeNibbles (nibbles l0); writeBitArray e : M Unit) = writeBitArray l := hprog
    simp only [this, hw]

end Tongo.BitString
