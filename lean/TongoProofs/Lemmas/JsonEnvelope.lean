import TongoModel.Json
import TongoModel.JsonCell
import TongoProofs.Lemmas.Json
import TongoProofs.Lemmas.JsonValid
import TongoProofs.Lemmas.JsonMisc
/-! Round trip of the message-body envelopes (abi.InMsgBody / ExtOutMsgBody JSON). -/
namespace Tongo.Json
open Tongo Tongo.Dec

/-- a value text as it may stand after `"Value":` — it does not start with white space and the scanner consumes
exactly it when `}` follows (true of every valid JSON value; proved below for quoted strings, which is what the
"Unknown" body prints; for the registered body types it is the hypothesis on their own JSON) -/
structure ValueText (pv : Str) : Prop where
  head : ∃ c r, pv = c :: r ∧ isWs c = false
  /-- with enough fuel for its nesting (never more than twice its length) -/
  scan : ∃ need, need ≤ 2 * pv.length ∧ ∀ f t, need ≤ f → scanJ (f + 1) .value (pv ++ '}' :: t) = some ('}' :: t)

theorem scanValue_quote (f : Nat) (s t : Str) (h : ∀ c ∈ s, isSafe c = true) :
    scanJ (f + 1) .value (quote s ++ t) = some t := by
  unfold quote
  simp only [List.cons_append, List.append_assoc, List.nil_append]
  rw [scanJ]
  exact scanString_safe s t h

theorem valueText_quote (s : Str) (h : ∀ c ∈ s, isSafe c = true) : ValueText (quote s) :=
  ⟨⟨'"', s ++ ['"'], by simp [quote], by decide⟩, ⟨0, Nat.zero_le _, fun f t _ => scanValue_quote f s _ h⟩⟩

theorem skipWs_id (s : Str) (h : ∀ c r, s = c :: r → isWs c = false) : skipWs s = s := by
  cases s with
  | nil => rfl
  | cons c r => exact skipWs_of_head c r (h c r rfl)

theorem rawValue_of_scan (fuel : Nat) (pv t : Str) (h : scanJ fuel .value (pv ++ t) = some t) :
    rawValue fuel (pv ++ t) = some (pv, t) := by
  unfold rawValue
  rw [h]
  simp

theorem skipWs_ws_append (w x : Str) (hw : ∀ c ∈ w, isWs c = true) : skipWs (w ++ x) = skipWs x := by
  induction w with
  | nil => rfl
  | cons c r ih =>
    simp only [skipWs, List.cons_append]
    rw [List.dropWhile_cons_of_pos (hw c (by simp))]
    exact ih (fun y hy => hw y (by simp [hy]))

/-- one member `"key":` white space `value` followed by `,` : the validity scan and the member extraction step over it -/
theorem members_step (f : Nat) (key w pv rest : Str) (hk : ∀ c ∈ key, isSafe c = true) (hw : ∀ c ∈ w, isWs c = true)
    (hpv : scanJ f .value (pv ++ ',' :: rest) = some (',' :: rest)) (hh : ∃ c r, pv = c :: r ∧ isWs c = false)
    (hr : ∃ c r, rest = c :: r ∧ isWs c = false) :
    scanJ (f + 1) .members ('"' :: key ++ '"' :: ':' :: w ++ pv ++ ',' :: rest) = scanJ f .members rest := by
  obtain ⟨c, r, rfl, hc⟩ := hh
  obtain ⟨c2, r2, rfl, hc2⟩ := hr
  simp only [List.cons_append, List.append_assoc]
  rw [scanJ]
  rw [scanString_safe key _ hk]
  simp only [skipWs_of_head ':' _ (by decide), skipWs_ws_append w _ hw, skipWs_of_head c _ hc]
  have := hpv
  simp only [List.cons_append, List.append_assoc] at this
  rw [this]
  simp only [skipWs_of_head ',' _ (by decide), skipWs_of_head c2 _ hc2]

/-- the last member `"key":value}` -/
theorem members_last (f : Nat) (key pv t : Str) (hk : ∀ c ∈ key, isSafe c = true)
    (hpv : scanJ f .value (pv ++ '}' :: t) = some ('}' :: t)) (hh : ∃ c r, pv = c :: r ∧ isWs c = false) :
    scanJ (f + 1) .members ('"' :: key ++ '"' :: ':' :: pv ++ '}' :: t) = some t := by
  obtain ⟨c, r, rfl, hc⟩ := hh
  simp only [List.cons_append, List.append_assoc]
  rw [scanJ]
  rw [scanString_safe key _ hk]
  simp only [skipWs_of_head ':' _ (by decide), skipWs_of_head c _ hc]
  simp only [List.cons_append, List.append_assoc] at hpv
  rw [hpv]
  simp only [skipWs_of_head '}' _ (by decide)]

theorem take_key (key rest : Str) : (key ++ '"' :: rest).take ((key ++ '"' :: rest).length - rest.length - 1) = key := by
  have : (key ++ '"' :: rest).length - rest.length - 1 = key.length := by simp; omega
  rw [this]; simp

theorem rawMembers_step (vf n : Nat) (key w pv rest : Str) (hk : ∀ c ∈ key, isSafe c = true)
    (hw : ∀ c ∈ w, isWs c = true)
    (hpv : scanJ vf .value (pv ++ ',' :: rest) = some (',' :: rest)) (hh : ∃ c r, pv = c :: r ∧ isWs c = false)
    (hr : ∃ c r, rest = c :: r ∧ isWs c = false) :
    rawMembers vf (n + 1) ('"' :: key ++ '"' :: ':' :: w ++ pv ++ ',' :: rest) =
      (rawMembers vf n rest).map fun ms => (key, pv) :: ms := by
  obtain ⟨c, r, hpve, hc⟩ := hh
  obtain ⟨c2, r2, rfl, hc2⟩ := hr
  simp only [List.cons_append, List.append_assoc]
  rw [rawMembers]
  rw [scanString_safe key _ hk]
  simp only [take_key, skipWs_of_head ':' _ (by decide)]
  have hs : skipWs (w ++ (pv ++ ',' :: c2 :: r2)) = pv ++ ',' :: c2 :: r2 := by
    rw [skipWs_ws_append w _ hw]; subst hpve; exact skipWs_of_head c _ hc
  rw [hs, rawValue_of_scan vf pv _ hpv]
  simp only [skipWs_of_head ',' _ (by decide), skipWs_of_head c2 _ hc2]

theorem rawMembers_last (vf n : Nat) (key pv t : Str) (hk : ∀ c ∈ key, isSafe c = true)
    (hpv : scanJ vf .value (pv ++ '}' :: t) = some ('}' :: t)) (hh : ∃ c r, pv = c :: r ∧ isWs c = false) :
    rawMembers vf (n + 1) ('"' :: key ++ '"' :: ':' :: pv ++ '}' :: t) = some [(key, pv)] := by
  obtain ⟨c, r, hpve, hc⟩ := hh
  simp only [List.cons_append, List.append_assoc]
  rw [rawMembers]
  rw [scanString_safe key _ hk]
  simp only [take_key, skipWs_of_head ':' _ (by decide)]
  have hs : skipWs (pv ++ '}' :: t) = pv ++ '}' :: t := by
    subst hpve; exact skipWs_of_head c _ hc
  rw [hs, rawValue_of_scan vf pv _ hpv]
  simp only [skipWs_of_head '}' _ (by decide)]

/-! ### the printed envelope -/

theorem scanNumber_printNat_comma (n : Nat) (t : Str) : scanNumber (printNat n ++ ',' :: t) = some (',' :: t) := by
  obtain ⟨c, r, hp, hm, _, _⟩ := printNatB_head 10 (by omega) (by omega) n
  have hp' : printNat n = c :: r := hp
  have hall := printNat_all_digits n
  rw [hp'] at hall
  have hcd : isDigit c = true := hall c (by simp)
  have hr : (r ++ ',' :: t).dropWhile isDigit = ',' :: t := by
    rw [List.dropWhile_append_of_pos (fun x hx => hall x (by simp [hx]))]
    rfl
  rw [hp', List.cons_append]
  unfold scanNumber
  rw [stripMinus_of_head c _ hm]
  by_cases hz : c = '0'
  · subst hz
    have : r = [] := printNat_leading_zero n r hp'
    subst this
    rfl
  · have hz' : (c == '0') = false := by simpa using hz
    simp [scanIntPart, hz', hcd, hr, scanFrac, scanExp]

theorem scanValue_printNat_comma (f n : Nat) (t : Str) :
    scanJ (f + 1) .value (printNat n ++ ',' :: t) = some (',' :: t) := by
  obtain ⟨c, r, hp, _, _, _⟩ := printNatB_head 10 (by omega) (by omega) n
  have hp' : printNat n = c :: r := hp
  have hcd : isDigit c = true := printNat_all_digits n c (by rw [hp']; simp)
  have := scanValue_number f c (r ++ ',' :: t) (Or.inr hcd)
  unfold scanValue at this
  rw [hp', List.cons_append, this, ← List.cons_append, ← hp', scanNumber_printNat_comma]

theorem printNat_head_notws (n : Nat) : ∃ c r, printNat n = c :: r ∧ isWs c = false := by
  obtain ⟨c, r, hp, _, _, _⟩ := printNatB_head 10 (by omega) (by omega) n
  have hp' : printNat n = c :: r := hp
  have hcd : isDigit c = true := printNat_all_digits n c (by rw [hp']; simp)
  refine ⟨c, r, hp', ?_⟩
  simp only [isWs, Bool.or_eq_false_iff, beq_eq_false_iff_ne, ne_eq]
  refine ⟨⟨⟨?_, ?_⟩, ?_⟩, ?_⟩ <;> (intro h; subst h; revert hcd; decide)

theorem kSum_safe : ∀ c ∈ kSum, isSafe c = true := by decide
theorem kOp_safe : ∀ c ∈ kOp, isSafe c = true := by decide
theorem kVal_safe : ∀ c ∈ kVal, isSafe c = true := by decide

/-- the validity scan accepts the envelope text -/
theorem envText_members (g : Nat) (name : Str) (hn : ∀ c ∈ name, isSafe c = true) (op : Option Nat) (pv : Str)
    (hv : ValueText pv) (hg : 2 * pv.length ≤ g) :
    scanJ (g + 4) .members ('"' :: kSum ++ '"' :: ':' :: [' '] ++ quote name ++ ',' ::
      (printOp op ++ ('"' :: kVal ++ '"' :: ':' :: pv ++ ['}']))) = some [] := by
  have hq : ∃ c r, quote name = c :: r ∧ isWs c = false := ⟨'"', name ++ ['"'], by simp [quote], by decide⟩
  obtain ⟨need, hneed, hscan⟩ := hv.scan
  cases op with
  | none =>
    simp only [printOp, List.cons_append, List.append_assoc, List.nil_append]
    have h1 := members_step (g + 3) kSum [' '] (quote name) ('"' :: (kVal ++ '"' :: ':' :: (pv ++ ['}'])))
      kSum_safe (by decide) (scanValue_quote (g + 2) name _ hn) hq ⟨'"', _, rfl, by decide⟩
    simp only [List.cons_append, List.append_assoc, List.nil_append] at h1
    rw [h1]
    have := members_last (g + 2) kVal pv [] kVal_safe (hscan (g + 1) [] (by omega)) hv.head
    simpa using this
  | some n =>
    simp only [printOp, List.cons_append, List.append_assoc, List.nil_append]
    have h1 := members_step (g + 3) kSum [' '] (quote name)
      ('"' :: (kOp ++ '"' :: ':' :: (printNat n ++ ',' :: '"' :: (kVal ++ '"' :: ':' :: (pv ++ ['}'])))))
      kSum_safe (by decide) (scanValue_quote (g + 2) name _ hn) hq ⟨'"', _, rfl, by decide⟩
    simp only [List.cons_append, List.append_assoc, List.nil_append] at h1
    rw [h1]
    have h2 := members_step (g + 2) kOp [] (printNat n) ('"' :: (kVal ++ '"' :: ':' :: (pv ++ ['}'])))
      kOp_safe (by intro c hc; cases hc) (scanValue_printNat_comma (g + 1) n _) (printNat_head_notws n)
      ⟨'"', _, rfl, by decide⟩
    simp only [List.cons_append, List.append_assoc, List.nil_append] at h2
    rw [h2]
    have := members_last (g + 1) kVal pv [] kVal_safe (hscan g [] (by omega)) hv.head
    simpa using this

theorem envText_valid (name : Str) (hn : ∀ c ∈ name, isSafe c = true) (op : Option Nat) (pv : Str)
    (hv : ValueText pv) : valid (envText name op pv) = true := by
  unfold valid
  have hlen : ∃ g, 2 * (envText name op pv).length + 2 = (g + 4) + 1 ∧ 2 * pv.length ≤ g :=
    ⟨2 * (envText name op pv).length - 3, by
      have : pv.length + 2 ≤ (envText name op pv).length := by simp [envText]; omega
      omega⟩
  obtain ⟨g, hg, hgp⟩ := hlen
  rw [hg]
  unfold envText
  rw [skipWs_of_head '{' _ (by decide)]
  unfold scanValue
  rw [scanJ]
  simp only [List.cons_append, List.append_assoc, List.nil_append, skipWs_of_head '"' _ (by decide)]
  have := envText_members g name hn op pv hv hgp
  simp only [List.cons_append, List.append_assoc, List.nil_append] at this
  split
  · rename_i heq
    split at heq
    · rename_i h2; simp only [List.cons.injEq] at h2; exact absurd h2.1 (by decide)
    · rw [this] at heq; injection heq with heq; subst heq; rfl
  · rename_i heq
    split at heq
    · rename_i h2; simp only [List.cons.injEq] at h2; exact absurd h2.1 (by decide)
    · rw [this] at heq; cases heq

theorem trimWs_envText (name : Str) (op : Option Nat) (pv : Str) : trimWs (envText name op pv) = envText name op pv := by
  have : ∃ m, envText name op pv = '{' :: m ++ ['}'] := by
    refine ⟨'"' :: kSum ++ '"' :: ':' :: [' '] ++ quote name ++ ',' :: (printOp op ++ ('"' :: kVal ++ '"' :: ':' :: pv)), ?_⟩
    simp [envText]
  obtain ⟨m, hm⟩ := this
  rw [hm]
  unfold trimWs
  rw [List.cons_append, List.dropWhile_cons_of_neg (by decide), ← List.cons_append, List.reverse_append]
  simp only [List.reverse_cons, List.reverse_nil, List.nil_append, List.singleton_append]
  rw [List.dropWhile_cons_of_neg (by decide)]
  simp

/-- the members extracted from the envelope text -/
theorem envText_rawMembers (vf n : Nat) (name : Str) (hn : ∀ c ∈ name, isSafe c = true) (op : Option Nat) (pv : Str)
    (hv : ValueText pv) (hvf : ∃ k, vf = k + 1 ∧ 2 * pv.length ≤ k) :
    rawMembers vf (n + 3) ('"' :: kSum ++ '"' :: ':' :: [' '] ++ quote name ++ ',' ::
      (printOp op ++ ('"' :: kVal ++ '"' :: ':' :: pv ++ ['}']))) =
      some ((kSum, quote name) :: ((match op with | none => [] | some x => [(kOp, printNat x)]) ++ [(kVal, pv)])) := by
  obtain ⟨k, rfl, hk⟩ := hvf
  have hq : ∃ c r, quote name = c :: r ∧ isWs c = false := ⟨'"', name ++ ['"'], by simp [quote], by decide⟩
  obtain ⟨need, hneed, hscan⟩ := hv.scan
  cases op with
  | none =>
    simp only [printOp, List.cons_append, List.append_assoc, List.nil_append]
    have h1 := rawMembers_step (k + 1) (n + 2) kSum [' '] (quote name) ('"' :: (kVal ++ '"' :: ':' :: (pv ++ ['}'])))
      kSum_safe (by decide) (scanValue_quote k name _ hn) hq ⟨'"', _, rfl, by decide⟩
    simp only [List.cons_append, List.append_assoc, List.nil_append] at h1
    rw [h1]
    have h3 := rawMembers_last (k + 1) (n + 1) kVal pv [] kVal_safe (hscan k [] (by omega)) hv.head
    simp only [List.cons_append, List.append_assoc, List.nil_append] at h3
    rw [h3]
    rfl
  | some x =>
    simp only [printOp, List.cons_append, List.append_assoc, List.nil_append]
    have h1 := rawMembers_step (k + 1) (n + 2) kSum [' '] (quote name)
      ('"' :: (kOp ++ '"' :: ':' :: (printNat x ++ ',' :: '"' :: (kVal ++ '"' :: ':' :: (pv ++ ['}'])))))
      kSum_safe (by decide) (scanValue_quote k name _ hn) hq ⟨'"', _, rfl, by decide⟩
    simp only [List.cons_append, List.append_assoc, List.nil_append] at h1
    rw [h1]
    have h2 := rawMembers_step (k + 1) (n + 1) kOp [] (printNat x) ('"' :: (kVal ++ '"' :: ':' :: (pv ++ ['}'])))
      kOp_safe (by intro c hc; cases hc) (scanValue_printNat_comma k x _) (printNat_head_notws x) ⟨'"', _, rfl, by decide⟩
    simp only [List.cons_append, List.append_assoc, List.nil_append] at h2
    rw [h2]
    have h3 := rawMembers_last (k + 1) n kVal pv [] kVal_safe (hscan k [] (by omega)) hv.head
    simp only [List.cons_append, List.append_assoc, List.nil_append] at h3
    rw [h3]
    rfl

theorem envText_objectMembers (name : Str) (hn : ∀ c ∈ name, isSafe c = true) (op : Option Nat) (pv : Str)
    (hv : ValueText pv) :
    objectMembers (envText name op pv) =
      some ((kSum, quote name) :: ((match op with | none => [] | some x => [(kOp, printNat x)]) ++ [(kVal, pv)])) := by
  have hl : ∃ n, (envText name op pv).length + 1 = n + 3 := ⟨(envText name op pv).length - 2, by
    have : 2 ≤ (envText name op pv).length := by simp [envText]
    omega⟩
  obtain ⟨n, hn'⟩ := hl
  unfold objectMembers
  rw [hn']
  unfold envText
  simp only [skipWs_of_head '"' _ (by decide), List.cons_append]
  have := envText_rawMembers (2 * (envText name op pv).length + 2) n name hn op pv hv
    ⟨2 * (envText name op pv).length + 1, rfl, by
      have : pv.length ≤ (envText name op pv).length := by simp [envText]; omega
      omega⟩
  unfold envText at this
  simp only [List.cons_append] at this
  exact this

/-! ### storing the members -/

theorem foldKey_plain (k : Str) (hs : ∀ c ∈ k, isSafe c = true) (ha : ∀ c ∈ k, isAscii c = true) :
    foldKey k = k.map foldChar := by
  unfold foldKey
  rw [unescape_no_backslash, utf8Decode_ascii k ha]
  intro c hc
  have := hs c hc
  simp only [isSafe, Bool.and_eq_true, bne_iff_ne, ne_eq, decide_eq_true_eq] at this
  exact this.1.2

theorem foldKey_kSum : foldKey kSum = ['S', 'U', 'M', 'T', 'Y', 'P', 'E'] := by
  rw [foldKey_plain kSum kSum_safe (by decide)]; decide
theorem foldKey_kOp : foldKey kOp = ['O', 'P', 'C', 'O', 'D', 'E'] := by
  rw [foldKey_plain kOp kOp_safe (by decide)]; decide
theorem foldKey_kVal : foldKey kVal = ['V', 'A', 'L', 'U', 'E'] := by
  rw [foldKey_plain kVal kVal_safe (by decide)]; decide

theorem store_sum (st : EnvFields) (name : Str) (hs : ∀ c ∈ name, isSafe c = true) (ha : ∀ c ∈ name, isAscii c = true) :
    storeMember st kSum (quote name) = .ok { st with sumType := name } := by
  unfold storeMember
  simp only [foldKey_kSum, if_true]
  unfold quote
  rw [List.cons_append]
  simp only [List.dropLast_concat, goUnquote_plain name hs ha]

theorem store_op (st : EnvFields) (n : Nat) (hn : n < 2 ^ 32) :
    storeMember st kOp (printNat n) = .ok { st with opCode := some n } := by
  obtain ⟨c, r, hp, _, _, _⟩ := printNatB_head 10 (by omega) (by omega) n
  have hp' : printNat n = c :: r := hp
  have hcd : isDigit c = true := printNat_all_digits n c (by rw [hp']; simp)
  have hne : ∀ x : Char, isDigit x = true →
      x ≠ 'n' ∧ (x == '"' || x == '{' || x == '[' || x == 't' || x == 'f') = false := by
    intro x hx
    refine ⟨?_, ?_⟩
    · intro h; subst h; revert hx; decide
    · simp only [Bool.or_eq_false_iff, beq_eq_false_iff_ne, ne_eq]
      refine ⟨⟨⟨⟨?_, ?_⟩, ?_⟩, ?_⟩, ?_⟩ <;> (intro h; subst h; revert hx; decide)
  obtain ⟨h1, h2⟩ := hne c hcd
  unfold storeMember
  have e1 : ¬ (['O', 'P', 'C', 'O', 'D', 'E'] : Str) = ['S', 'U', 'M', 'T', 'Y', 'P', 'E'] := by decide
  simp only [foldKey_kOp, e1, if_false, if_true]
  have hpu := parseUint_printNat 64 (by omega) (by omega) n
  rw [hp'] at hpu ⊢
  split
  · rename_i heq; simp only [List.cons.injEq] at heq; exact absurd heq.1 h1
  · rename_i c' t heq
    simp only [List.cons.injEq] at heq
    obtain ⟨hc', _⟩ := heq
    subst hc'
    simp only [h2, Bool.false_eq_true, if_false, hpu, show n < 2 ^ 64 from by omega, if_true, hn]
  · rename_i heq; cases heq

theorem store_val (st : EnvFields) (pv : Str) : storeMember st kVal pv = .ok { st with value := some pv } := by
  unfold storeMember
  have e1 : ¬ (['V', 'A', 'L', 'U', 'E'] : Str) = ['S', 'U', 'M', 'T', 'Y', 'P', 'E'] := by decide
  have e2 : ¬ (['V', 'A', 'L', 'U', 'E'] : Str) = ['O', 'P', 'C', 'O', 'D', 'E'] := by decide
  simp only [foldKey_kVal, e1, e2, if_false, if_true]

/-- json.Unmarshal of the printed envelope recovers the three fields -/
theorem unmarshalEnvelope_envText (name : Str) (hs : ∀ c ∈ name, isSafe c = true) (ha : ∀ c ∈ name, isAscii c = true)
    (op : Option Nat) (hop : ∀ n, op = some n → n < 2 ^ 32) (pv : Str) (hv : ValueText pv) :
    unmarshalEnvelope (envText name op pv) = .ok ⟨name, op, some pv⟩ := by
  unfold unmarshalEnvelope
  rw [envText_valid name hs op pv hv, trimWs_envText]
  simp only [Bool.not_true, Bool.false_eq_true, if_false]
  have hne : ∀ x t, envText name op pv = 'n' :: x :: t → False := by
    intro x t h; simp [envText] at h
  rw [envText_objectMembers name hs op pv hv]
  have hhead : envText name op pv = '{' :: (envText name op pv).tail := by simp [envText]
  rw [hhead]
  simp only []
  cases op with
  | none =>
    simp only [List.nil_append, storeMembers, store_sum _ name hs ha, Outcome.bind, store_val]
    rfl
  | some n =>
    simp only [List.cons_append, List.nil_append, storeMembers, store_sum _ name hs ha, Outcome.bind,
      store_op _ n (hop n rfl), store_val]
    rfl

/-! ### tlb.Anycast through the default struct codec -/

theorem scanNumber_printNat_brace (n : Nat) (t : Str) : scanNumber (printNat n ++ '}' :: t) = some ('}' :: t) := by
  obtain ⟨c, r, hp, hm, _, _⟩ := printNatB_head 10 (by omega) (by omega) n
  have hp' : printNat n = c :: r := hp
  have hall := printNat_all_digits n
  rw [hp'] at hall
  have hcd : isDigit c = true := hall c (by simp)
  have hr : (r ++ '}' :: t).dropWhile isDigit = '}' :: t := by
    rw [List.dropWhile_append_of_pos (fun x hx => hall x (by simp [hx]))]
    rfl
  rw [hp', List.cons_append]
  unfold scanNumber
  rw [stripMinus_of_head c _ hm]
  by_cases hz : c = '0'
  · subst hz
    have : r = [] := printNat_leading_zero n r hp'
    subst this
    rfl
  · have hz' : (c == '0') = false := by simpa using hz
    simp [scanIntPart, hz', hcd, hr, scanFrac, scanExp]

theorem scanValue_printNat_brace (f n : Nat) (t : Str) :
    scanJ (f + 1) .value (printNat n ++ '}' :: t) = some ('}' :: t) := by
  obtain ⟨c, r, hp, _, _, _⟩ := printNatB_head 10 (by omega) (by omega) n
  have hp' : printNat n = c :: r := hp
  have hcd : isDigit c = true := printNat_all_digits n c (by rw [hp']; simp)
  have := scanValue_number f c (r ++ '}' :: t) (Or.inr hcd)
  unfold scanValue at this
  rw [hp', List.cons_append, this, ← List.cons_append, ← hp', scanNumber_printNat_brace]

theorem kDepth_safe : ∀ c ∈ kDepth, isSafe c = true := by decide
theorem kPfx_safe : ∀ c ∈ kPfx, isSafe c = true := by decide

theorem storeUint32_print (old n : Nat) (hn : n < 2 ^ 32) : storeUint32 old (printNat n) = .ok n := by
  obtain ⟨c, r, hp, _, _, _⟩ := printNatB_head 10 (by omega) (by omega) n
  have hp' : printNat n = c :: r := hp
  have hcd : isDigit c = true := printNat_all_digits n c (by rw [hp']; simp)
  have hne : ∀ x : Char, isDigit x = true →
      x ≠ 'n' ∧ (x == '"' || x == '{' || x == '[' || x == 't' || x == 'f') = false := by
    intro x hx
    refine ⟨?_, ?_⟩
    · intro h; subst h; revert hx; decide
    · simp only [Bool.or_eq_false_iff, beq_eq_false_iff_ne, ne_eq]
      refine ⟨⟨⟨⟨?_, ?_⟩, ?_⟩, ?_⟩, ?_⟩ <;> (intro h; subst h; revert hx; decide)
  obtain ⟨h1, h2⟩ := hne c hcd
  have hpu := parseUint_printNat 64 (by omega) (by omega) n
  unfold storeUint32
  rw [hp'] at hpu ⊢
  split
  · rename_i heq; simp only [List.cons.injEq] at heq; exact absurd heq.1 h1
  · rename_i c' t heq
    simp only [List.cons.injEq] at heq
    obtain ⟨hc', _⟩ := heq
    subst hc'
    simp only [h2, Bool.false_eq_true, if_false, hpu, show n < 2 ^ 64 from by omega, if_true, hn]
  · rename_i heq; cases heq

theorem anycast_members (g : Nat) (a : Anycast) :
    scanJ (g + 3) .members ('"' :: kDepth ++ '"' :: ':' :: printNat a.depth ++ ',' ::
      ('"' :: kPfx ++ '"' :: ':' :: printNat a.pfx ++ ['}'])) = some [] := by
  have h1 := members_step (g + 2) kDepth [] (printNat a.depth) ('"' :: (kPfx ++ '"' :: ':' :: (printNat a.pfx ++ ['}'])))
    kDepth_safe (by intro c hc; cases hc) (scanValue_printNat_comma (g + 1) a.depth _) (printNat_head_notws _)
    ⟨'"', _, rfl, by decide⟩
  simp only [List.cons_append, List.append_assoc, List.nil_append] at h1 ⊢
  rw [h1]
  have := members_last (g + 1) kPfx (printNat a.pfx) [] kPfx_safe (scanValue_printNat_brace g a.pfx []) (printNat_head_notws _)
  simpa using this

theorem valid_printAnycastJson (a : Anycast) : valid (printAnycastJson a) = true := by
  unfold valid
  have hlen : ∃ g, 2 * (printAnycastJson a).length + 2 = (g + 3) + 1 := ⟨2 * (printAnycastJson a).length - 2, by
    have : 2 ≤ (printAnycastJson a).length := by simp [printAnycastJson]
    omega⟩
  obtain ⟨g, hg⟩ := hlen
  rw [hg]
  unfold printAnycastJson
  rw [skipWs_of_head '{' _ (by decide)]
  unfold scanValue
  rw [scanJ]
  simp only [List.cons_append, List.append_assoc, List.nil_append, skipWs_of_head '"' _ (by decide)]
  have := anycast_members g a
  simp only [List.cons_append, List.append_assoc, List.nil_append] at this
  split
  · rename_i heq
    split at heq
    · rename_i h2; simp only [List.cons.injEq] at h2; exact absurd h2.1 (by decide)
    · rw [this] at heq; injection heq with heq; subst heq; rfl
  · rename_i heq
    split at heq
    · rename_i h2; simp only [List.cons.injEq] at h2; exact absurd h2.1 (by decide)
    · rw [this] at heq; cases heq

theorem trimWs_printAnycastJson (a : Anycast) : trimWs (printAnycastJson a) = printAnycastJson a := by
  have : ∃ m, printAnycastJson a = '{' :: m ++ ['}'] := by
    refine ⟨'"' :: kDepth ++ '"' :: ':' :: printNat a.depth ++ ',' :: ('"' :: kPfx ++ '"' :: ':' :: printNat a.pfx), ?_⟩
    simp [printAnycastJson]
  obtain ⟨m, hm⟩ := this
  rw [hm]
  unfold trimWs
  rw [List.cons_append, List.dropWhile_cons_of_neg (by decide), ← List.cons_append, List.reverse_append]
  simp only [List.reverse_cons, List.reverse_nil, List.nil_append, List.singleton_append]
  rw [List.dropWhile_cons_of_neg (by decide)]
  simp

theorem objectMembers_printAnycastJson (a : Anycast) :
    objectMembers (printAnycastJson a) = some [(kDepth, printNat a.depth), (kPfx, printNat a.pfx)] := by
  have hl : ∃ n, (printAnycastJson a).length + 1 = n + 2 := ⟨(printAnycastJson a).length - 1, by
    have : 2 ≤ (printAnycastJson a).length := by simp [printAnycastJson]
    omega⟩
  obtain ⟨n, hn'⟩ := hl
  unfold objectMembers
  rw [hn']
  have hvf : ∃ k, 2 * (printAnycastJson a).length + 2 = k + 1 := ⟨_, rfl⟩
  obtain ⟨k, hk⟩ := hvf
  rw [hk]
  unfold printAnycastJson
  simp only [skipWs_of_head '"' _ (by decide), List.cons_append]
  have h1 := rawMembers_step (k + 1) (n + 1) kDepth [] (printNat a.depth) ('"' :: (kPfx ++ '"' :: ':' :: (printNat a.pfx ++ ['}'])))
    kDepth_safe (by intro c hc; cases hc) (scanValue_printNat_comma k a.depth _) (printNat_head_notws _)
    ⟨'"', _, rfl, by decide⟩
  have h2 := rawMembers_last (k + 1) n kPfx (printNat a.pfx) [] kPfx_safe (scanValue_printNat_brace k a.pfx []) (printNat_head_notws _)
  simp only [List.cons_append, List.append_assoc, List.nil_append] at h1 h2 ⊢
  rw [h2] at h1
  exact h1

theorem foldKey_kDepth : foldKey kDepth = ['D', 'E', 'P', 'T', 'H'] := by
  rw [foldKey_plain kDepth kDepth_safe (by decide)]; decide
theorem foldKey_kPfx : foldKey kPfx = ['R', 'E', 'W', 'R', 'I', 'T', 'E', 'P', 'F', 'X'] := by
  rw [foldKey_plain kPfx kPfx_safe (by decide)]; decide

theorem parseAnycastJson_print (a : Anycast) (hd : a.depth < 2 ^ 32) (hp : a.pfx < 2 ^ 32) :
    parseAnycastJson (printAnycastJson a) = .ok a := by
  unfold parseAnycastJson
  rw [valid_printAnycastJson, trimWs_printAnycastJson]
  simp only [Bool.not_true, Bool.false_eq_true, if_false]
  rw [objectMembers_printAnycastJson]
  have hhead : printAnycastJson a = '{' :: (printAnycastJson a).tail := by simp [printAnycastJson]
  rw [hhead]
  have e1 : ¬ (['R', 'E', 'W', 'R', 'I', 'T', 'E', 'P', 'F', 'X'] : Str) = ['D', 'E', 'P', 'T', 'H'] := by decide
  simp only [Bool.not_true, Bool.false_eq_true, if_false, storeAnycastMembers, storeAnycastMember, foldKey_kDepth,
    foldKey_kPfx, e1, if_true, storeUint32_print _ _ hd, storeUint32_print _ _ hp, Outcome.bind]
  rfl

/-- the composite record is a value text: an object needs fuel for its members, here 3 -/
theorem valueText_printAnycastJson (a : Anycast) : ValueText (printAnycastJson a) := by
  refine ⟨⟨'{', _, rfl, by decide⟩, ⟨3, by simp [printAnycastJson]; omega, ?_⟩⟩
  intro f t hf
  obtain ⟨g, rfl⟩ : ∃ g, f = g + 3 := ⟨f - 3, by omega⟩
  unfold printAnycastJson
  simp only [List.cons_append, List.append_assoc, List.nil_append]
  rw [scanJ]
  simp only [skipWs_of_head '"' _ (by decide)]
  have h1 := members_step (g + 2) kDepth [] (printNat a.depth) ('"' :: (kPfx ++ '"' :: ':' :: (printNat a.pfx ++ '}' :: '}' :: t)))
    kDepth_safe (by intro c hc; cases hc) (scanValue_printNat_comma (g + 1) a.depth _) (printNat_head_notws _)
    ⟨'"', _, rfl, by decide⟩
  have h2 := members_last (g + 1) kPfx (printNat a.pfx) ('}' :: t) kPfx_safe (scanValue_printNat_brace g a.pfx _) (printNat_head_notws _)
  simp only [List.cons_append, List.append_assoc, List.nil_append] at h1 h2
  rw [h2] at h1
  split
  · rename_i h2'; simp only [List.cons.injEq] at h2'; exact absurd h2'.1 (by decide)
  · exact h1

theorem printAnycastJson_ne_null (a : Anycast) : printAnycastJson a ≠ nullLit := by
  simp [printAnycastJson, nullLit]

theorem valid_empty_object : valid ['{', '}'] = true := by decide

theorem parseEnvelope_empty {C V} (pc : Str → Outcome C) (pk : Str → Option (Str → Outcome V)) :
    parseEnvelope pc pk ['{', '}'] = .ok (.empty none) := by
  have h : unmarshalEnvelope ['{', '}'] = .ok {} := by
    unfold unmarshalEnvelope
    rw [valid_empty_object]
    rfl
  unfold parseEnvelope
  rw [h]
  rfl

/-! ### totality -/

theorem storeMember_total (st : EnvFields) (k v : Str) : (storeMember st k v).isPanic = false := by
  unfold storeMember
  simp only []
  repeat' split
  all_goals rfl

theorem storeMembers_total (st : EnvFields) (ms : List (Str × Str)) : (storeMembers st ms).isPanic = false := by
  induction ms generalizing st with
  | nil => rfl
  | cons m ms ih =>
    obtain ⟨k, v⟩ := m
    unfold storeMembers
    exact isPanic_bind _ _ (storeMember_total st k v) (fun st' => ih st')

theorem unmarshalEnvelope_total (p : Str) : (unmarshalEnvelope p).isPanic = false := by
  unfold unmarshalEnvelope
  split
  · rfl
  · simp only []
    split
    · rfl
    · split
      · exact storeMembers_total _ _
      · rfl

theorem parseEnvelope_total {C V} (pc : Str → Outcome C) (pk : Str → Option (Str → Outcome V)) (p : Str)
    (hc : ∀ q, (pc q).isPanic = false) (hk : ∀ n f, pk n = some f → ∀ q, (f q).isPanic = false) :
    (parseEnvelope pc pk p).isPanic = false := by
  unfold parseEnvelope
  apply isPanic_bind _ _ (unmarshalEnvelope_total p)
  intro r
  split
  · rfl
  · split
    · split
      · rfl
      · exact isPanic_bind _ _ (hc _) (fun _ => rfl)
    · split
      · rfl
      · rename_i f hf
        split
        · rfl
        · exact isPanic_bind _ _ (hk _ f hf _) (fun _ => rfl)

end Tongo.Json
