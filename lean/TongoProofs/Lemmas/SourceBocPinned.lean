import Mathlib.Data.Fintype.Card
import TongoProofs.C01
/-! The round trip of the Go writer stated for THE order the writer computes (no existential witness, no guard inside
the conclusion), with the size limit of the format as a hypothesis on the INPUT cell: its structurally distinct
sub-cells number fewer than 2²⁴. Built from C01's pieces only (`Order.orderWith_valid`, `OrderValid`, `C01.roundtrip`,
`Writer.serializeOrdered`). Used by C16 (`source_boc_roundtrip`) and C20 (`json_roundtrip_cell_go_writer`). -/
namespace Tongo.SourceBoc
open Tongo Tongo.Boc Tongo.Boc.Order

/-- `d` is a sub-cell of `c`: `c` itself, or a sub-cell of one of its references -/
inductive SubCell : Cell → Cell → Prop where
  | refl (c : Cell) : SubCell c c
  | step {c d e : Cell} : d ∈ c.refs → SubCell d e → SubCell c e

/-- the structurally distinct sub-cells of `c` (itself included) number fewer than `n`: they all occur in one list
shorter than `n`. A statement about the cell TREE, independent of any table presentation. -/
def SubCellsBelow (c : Cell) (n : Nat) : Prop := ∃ l : List Cell, l.length < n ∧ ∀ d, SubCell c d → d ∈ l

theorem SubCell.trans {a b c : Cell} (h1 : SubCell a b) (h2 : SubCell b c) : SubCell a c := by
  induction h1 with
  | refl _ => exact h2
  | step hm _ ih => exact .step hm (ih h2)

/-- rows reachable from row `a` stand for sub-cells of the cell of row `a` -/
theorem tdesc_subcell (t : Table) (T : Nat → Cell) (hs : IsSem t T) (hf : Fwd t) {a k : Nat} (ha : a < t.size)
    (h : TDesc t a k) : SubCell (T a) (T k) := by
  induction h with
  | refl a => exact .refl _
  | @step a c k hc _ ih =>
    have hcl : c < t.size := (hf a ha c hc).2
    refine .step ?_ (ih hcl)
    rw [hs a ha]
    simp only [Cell.refs, List.mem_map]
    exact ⟨c, hc, rfl⟩

/-- The ordered table of the writer has at most as many rows as the source cell has structurally distinct sub-cells:
by `OrderValid.sub` every position holds a sub-cell of the root, by `OrderValid.once` different positions hold
different cells. -/
theorem ordered_size_le (t : Table) (root : Nat) (o : Ordered) (hv : ValidLayout t [root])
    (hval : OrderValid t [root] o) (c : Cell) (hc : Table.unfold t (t.size + 1) root = some c)
    (l : List Cell) (hl : ∀ d, SubCell c d → d ∈ l) : o.table.size ≤ l.length := by
  have hft := fwd_of_rows t hv.1.1
  have hs := sem_exists t hft
  have hU : ∀ i, i < t.size → Table.unfold t (t.size + 1) i = some (semF t (t.size + 1) i) :=
    fun i hi => unfold_of_sem t _ hs hft (t.size + 1) i hi (by omega)
  have hroot : root < t.size := hv.1.2.1 root (by simp)
  have hcr : semF t (t.size + 1) root = c := by
    have := hU root hroot
    rw [hc] at this
    exact (Option.some.inj this).symm
  have hex : ∀ p : Fin o.table.size, ∃ i : Fin l.length,
      Table.unfold o.table (o.table.size + 1) p = some l[i] := by
    intro p
    obtain ⟨r, hr, j, hj, hpj⟩ := hval.sub p p.2
    have hrr : r = root := by simpa using hr
    subst hrr
    have hjl := tdesc_lt t hft hroot hj
    have hsub := tdesc_subcell t _ hs hft hroot hj
    rw [hcr] at hsub
    obtain ⟨i, hi, hget⟩ := List.getElem_of_mem (hl _ hsub)
    exact ⟨⟨i, hi⟩, by rw [hpj, hU j hjl]; exact congrArg some hget.symm⟩
  choose f hf using hex
  have hinj : Function.Injective f := by
    intro p q hpq
    have : Table.unfold o.table (o.table.size + 1) p = Table.unfold o.table (o.table.size + 1) q := by
      rw [hf p, hf q, hpq]
    exact Fin.ext (hval.once p q p.2 q.2 this)
  have := Fintype.card_le_of_injective f hinj
  simpa using this

/-! ### the output of the writer fits a Go slice (so that no hypothesis about the OUTPUT is needed) -/

theorem addTag_length_le (l : List Bool) : (Bits.addTag l).length ≤ l.length + 7 ∧ (Bits.addTag l).length % 8 = 0 := by
  unfold Bits.addTag
  split
  · omega
  · simp only [List.length_append, List.length_cons, List.length_replicate]; omega

theorem flatMap_toBytesBE_length (size : Nat) (l : List Nat) : (l.flatMap (toBytesBE size)).length = size * l.length := by
  induction l with
  | nil => simp
  | cons a l ih => simp [List.flatMap_cons, ih, Nat.mul_succ]; omega

theorem emitCell_length_le (size : Nat) (r : CellRow) (hb : r.bits.length ≤ 1023) (hr : r.refs.length ≤ 4) :
    (emitCell size r none).length ≤ 130 + 4 * size := by
  have h1 : (Bits.toppedUp r.bits).length ≤ 128 := by
    unfold Bits.toppedUp
    rw [bitsToBytes_length]
    have := addTag_length_le r.bits
    omega
  have h2 := flatMap_toBytesBE_length size r.refs
  have h3 : size * r.refs.length ≤ 4 * size := by
    rw [Nat.mul_comm]; exact Nat.mul_le_mul_right _ hr
  simp only [emitCell, List.length_cons, List.length_append, Option.getD_none, List.length_nil, h2]
  omega

theorem emitCells_flatten_le (size B : Nat) (rows : List CellRow)
    (h : ∀ r ∈ rows, (emitCell size r none).length ≤ B) :
    (emitCells size rows []).flatten.length ≤ rows.length * B := by
  induction rows with
  | nil => simp [emitCells]
  | cons r rs ih =>
    have := h r (by simp)
    have := ih (fun x hx => h x (by simp [hx]))
    simp only [emitCells, List.headD_nil, List.tail_nil, List.flatten_cons, List.length_append, List.length_cons,
      Nat.succ_mul]
    omega

/-- what serializeBoc writes for fewer than 2²⁴ well-formed rows is shorter than 2⁶³ bytes (in fact than 2³² + 2²⁷) -/
theorem serializeOrdered_length_lt (t : Table) (roots : List Nat) (idx crc cache : Bool) (sc : List Bool)
    (hrows : ∀ i (h : i < t.size), RowOK t.size i t[i]) (hn : t.size < 16777216) (hr : roots.length ≤ t.size) :
    (Writer.serializeOrdered t roots idx crc cache sc).length < two63 := by
  have hsz : Writer.refByteSize t.size ≤ 3 := Writer.refByteSize_le t.size 3 (by omega) (by omega)
  have hdata : Writer.dataSize (Writer.refByteSize t.size) t ≤ t.size * 142 := by
    have := emitCells_flatten_le (Writer.refByteSize t.size) 142 t.toList (by
      intro r hr
      obtain ⟨i, hi, e⟩ := List.getElem_of_mem hr
      have hi' : i < t.size := by simpa using hi
      have := hrows i hi'
      have e' : t[i] = r := by simpa using e
      rw [e'] at this
      have := emitCell_length_le (Writer.refByteSize t.size) r this.bits_le this.refs_le
      omega)
    unfold Writer.dataSize
    have hl : t.toList.length = t.size := by simp
    rw [hl] at this
    exact this
  have hoff : Writer.offByteSize (Writer.maxOffset (Writer.dataSize (Writer.refByteSize t.size) t) cache) ≤ 8 := by
    unfold Writer.offByteSize
    apply Writer.byteSize_le _ 8 (by omega)
    apply Writer.bitLen_le
    unfold Writer.maxOffset
    split <;> omega
  have hcells : (emitCells (Writer.refByteSize t.size) t.toList []).length = t.size := by
    rw [emitCells_length]; simp
  have hdl : (emitCells (Writer.refByteSize t.size) t.toList []).flatten.length
      = Writer.dataSize (Writer.refByteSize t.size) t := rfl
  have hroots := flatMap_toBytesBE_length (Writer.refByteSize t.size) roots
  have hrl : Writer.refByteSize t.size * roots.length ≤ 3 * t.size :=
    Nat.mul_le_mul hsz hr
  have hidx : Writer.offByteSize (Writer.maxOffset (Writer.dataSize (Writer.refByteSize t.size) t) cache) * t.size
      ≤ 8 * t.size := Nat.mul_le_mul_right _ hoff
  have h4 : ∀ n, (toBytesLE32 n).length = 4 := by intro n; simp [toBytesLE32]
  unfold Writer.serializeOrdered emitBoc
  dsimp only [Writer.params]
  cases crc <;> cases idx <;>
    simp only [EmitParams.idx, EmitParams.crc, EmitParams.cache, ne_eq, not_true_eq_false, decide_false,
      Bool.false_or, Bool.false_eq_true, if_false, if_true, ↓reduceIte, List.length_append, List.length_cons,
      List.length_nil, magicBytes_length, toBytesBE_length, emitIndex_length, hcells, hdl, hroots, h4, two63] <;>
    omega

/-- **The Go writer, pinned.** `t`, `root`: any valid presentation of the source cell `c`; `key` identifies the
sub-cells. IF the writer's own ordering (`Order.order` = `orderWith … goSpecial`, the model of
importCell/reorderCells/revisit) returns `o` and `serializeBocModel` returns `bs`, THEN the reader applied to `bs`
returns exactly `(o.table, o.roots)`, `o` is valid for the input (`OrderValid`), it has one root, which unfolds to `c`,
and fewer than 2²⁴ rows. The only size condition is the hypothesis `hsize` on the INPUT cell; that the output is a
Go slice (shorter than 2⁶³ bytes, premise `hlen` of `C01.roundtrip`) is derived (`serializeOrdered_length_lt`). -/
theorem writer_pinned {K : Type} [BEq K] [Hashable K] [LawfulBEq K] (t : Table) (root : Nat) (key : Nat → Option K)
    (idx crc cache : Bool) (hv : ValidLayout t [root]) (hk : KeyInjOn t key) (c : Cell)
    (hc : Table.unfold t (t.size + 1) root = some c) (hsize : SubCellsBelow c 16777216)
    (o : Ordered) (bs : Bytes) (hord : Order.orderWith t key goSpecial [root] = .ok o)
    (hser : serializeBocModel t key [root] idx crc cache = .ok bs) :
    parseBoc bs = .ok (o.table, o.roots) ∧ OrderValid t [root] o ∧ o.table.size < 16777216 ∧
      ∃ r, o.roots = [r] ∧ r < o.table.size ∧ Table.unfold o.table (o.table.size + 1) r = some c := by
  obtain ⟨o', ho', hval'⟩ := orderWith_valid t [root] key goSpecial hv hk
  have ho : o' = o := by rw [hord] at ho'; injection ho' with e; exact e.symm
  subst ho
  have hord' : Order.order t key [root] = .ok o' := hord
  have hbs : bs = Writer.serializeOrdered o'.table o'.roots idx crc cache o'.cacheBits := by
    simp only [serializeBocModel, hord'] at hser
    injection hser with e; exact e.symm
  obtain ⟨l, hl, hmem⟩ := hsize
  have hn : o'.table.size < 16777216 := Nat.lt_of_le_of_lt (ordered_size_le t root o' hv hval' c hc l hmem) hl
  have hroots : o'.roots.map (Table.unfold o'.table (o'.table.size + 1)) = [some c] := by
    rw [hval'.roots_eq]; simp [hc]
  have hlen1 : o'.roots.length = 1 := by
    have := congrArg List.length hroots
    simpa using this
  match hr : o'.roots, hlen1 with
  | [r], _ =>
    have hrlt : r < o'.table.size := hval'.valid.1.2.1 r (by rw [hr]; simp)
    have hru : Table.unfold o'.table (o'.table.size + 1) r = some c := by
      rw [hr] at hroots; simpa using hroots
    refine ⟨?_, hval', hn, r, rfl, hrlt, hru⟩
    rw [hbs, ← hr]
    exact C01.roundtrip o'.table o'.roots idx crc cache o'.cacheBits hval'.valid hn (by rw [hr]; simp)
      (by rw [hr]; simp; omega)
      (serializeOrdered_length_lt o'.table o'.roots idx crc cache o'.cacheBits hval'.valid.1.1 hn
        (by rw [hr]; simp; omega))

/-- the writer succeeds on every valid presentation (C01 `order_valid`): the `o` and `bs` of `writer_pinned` exist -/
theorem writer_total {K : Type} [BEq K] [Hashable K] [LawfulBEq K] (t : Table) (root : Nat) (key : Nat → Option K)
    (idx crc cache : Bool) (hv : ValidLayout t [root]) (hk : KeyInjOn t key) :
    ∃ (o : Ordered) (bs : Bytes), Order.orderWith t key goSpecial [root] = .ok o ∧
      serializeBocModel t key [root] idx crc cache = .ok bs := by
  obtain ⟨o, ho, _⟩ := orderWith_valid t [root] key goSpecial hv hk
  have hord : Order.order t key [root] = .ok o := ho
  exact ⟨o, Writer.serializeOrdered o.table o.roots idx crc cache o.cacheBits, ho,
    by simp only [serializeBocModel, hord]⟩

/-- What `Transaction.SourceBoc()` / `Cell.ToBoc()` write for the cell tree `c`: the whole Go writer model of C01 (the
order of importCell/reorderCells/revisit, then serializeBoc's header arithmetic, idx = crc = cacheBits = false) on the
tree presentation `cellTable c`, de-duplicated by the representation hash like Go (`goKey`). By C01
`serialize_canonical` every other presentation of the same tree (any sharing) gives the same bytes. -/
def goSourceBoc (H : List UInt8 → List UInt8) (c : Cell) : Outcome Bytes :=
  serializeBocModel (cellTable c) (goKey H (cellTable c)) [0] false false false

/-- `writer_pinned` for `goSourceBoc`: all premises are about the input cell `c` (within the limits of the format,
level 0, no hash collision among its own sub-cells, fewer than 2²⁴ distinct sub-cells) -/
theorem goSourceBoc_pinned (H : List UInt8 → List UInt8) (hlen32 : ∀ x, (H x).length = 32) (c : Cell)
    (hok : CellOK c) (hd : cellDepth c ≤ maxDepth) (h0 : Lvl0 (cellTable c))
    (cf : CollisionFree H (reprsOf H (cellTable c))) (hsize : SubCellsBelow c 16777216)
    (o : Ordered) (bs : Bytes)
    (hord : Order.orderWith (cellTable c) (goKey H (cellTable c)) goSpecial [0] = .ok o)
    (hser : goSourceBoc H c = .ok bs) :
    parseBoc bs = .ok (o.table, o.roots) ∧
      o.roots.map (Table.unfold o.table (o.table.size + 1)) = [some c] ∧ o.table.size < 16777216 := by
  have hv := cellTable_valid c hok hd
  have hk := keyInjOn_of_collisionFree H hlen32 _ [0] hv h0 cf
  obtain ⟨hparse, _, hn, r, hr, _, hru⟩ :=
    writer_pinned (cellTable c) 0 _ false false false hv hk c (cellTable_unfold c) hsize o bs hord hser
  refine ⟨hparse, ?_, hn⟩
  rw [hr]; simp [hru]

/-- a presentation with fewer than `n` rows presents a cell with fewer than `n` distinct sub-cells (the simple
sufficient condition for `SubCellsBelow`) -/
theorem subCellsBelow_of_size (t : Table) (root : Nat) (hv : ValidLayout t [root]) (c : Cell)
    (hc : Table.unfold t (t.size + 1) root = some c) (n : Nat) (hn : t.size < n) : SubCellsBelow c n := by
  have hft := fwd_of_rows t hv.1.1
  have hs := sem_exists t hft
  have hroot : root < t.size := hv.1.2.1 root (by simp)
  have hcr : semF t (t.size + 1) root = c := by
    have := unfold_of_sem t _ hs hft (t.size + 1) root hroot (by omega)
    rw [hc] at this
    exact (Option.some.inj this).symm
  refine ⟨(List.range t.size).map (semF t (t.size + 1)), by simpa using hn, ?_⟩
  -- every sub-cell of a row's cell is the cell of a row
  have key : ∀ a d, SubCell a d → ∀ i, i < t.size → a = semF t (t.size + 1) i →
      ∃ j, j < t.size ∧ d = semF t (t.size + 1) j := by
    intro a d h
    induction h with
    | refl a => intro i hi e; exact ⟨i, hi, e⟩
    | @step a b d hm _ ih =>
      intro i hi e
      rw [e, hs i hi] at hm
      simp only [Cell.refs, List.mem_map] at hm
      obtain ⟨r, hr, hrb⟩ := hm
      exact ih r (hft i hi r hr).2 hrb.symm
  intro d hd
  obtain ⟨j, hj, e⟩ := key c d hd root hroot hcr.symm
  simp only [List.mem_map, List.mem_range]
  exact ⟨j, hj, e.symm⟩

end Tongo.SourceBoc
