import TongoProofs.Lemmas.BocTotal
import TongoProofs.Lemmas.BocBitsRt
/-! Hashing never panics on a sound table: the tree-level model of `newImmutableCell` / `Hash` / `Depth`
(TongoModel/Cell.lean) on every cell tree a parse result unfolds to. -/
namespace Tongo.BocHash
open Tongo Tongo.Boc

/-- what hashing needs from a computed HashInfo -/
structure InfoOK (i : HashInfo) : Prop where
  mask_lt : i.mask < 8
  pruned : i.ty = tyPruned → 2 + LevelMask.hashIndex i.mask * 34 ≤ i.buf.length ∧ 1 ≤ i.hashes.length ∧ 1 ≤ i.depths.length
  other : i.ty ≠ tyPruned → i.hashes.length = LevelMask.hashIndex i.mask + 1 ∧ i.depths.length = LevelMask.hashIndex i.mask + 1

theorem hashIndex_apply_le : ∀ m < 8, ∀ l < 8, LevelMask.hashIndex (LevelMask.apply m l) ≤ LevelMask.hashIndex m := by
  decide

theorem apply_big (m l : Nat) (hm : m < 8) (hl : 3 ≤ l) : LevelMask.apply m l = m := by
  unfold LevelMask.apply
  apply Nat.eq_of_testBit_eq
  intro i
  rw [Nat.testBit_and, Nat.testBit_two_pow_sub_one]
  by_cases hi : i < l
  · simp [hi]
  · have : m < 2 ^ i := by
      have : 2 ^ 3 ≤ 2 ^ i := Nat.pow_le_pow_right (by omega) (by omega)
      omega
    simp [Nat.testBit_lt_two_pow this]

theorem hashIndex_apply_le' (m l : Nat) (hm : m < 8) : LevelMask.hashIndex (LevelMask.apply m l) ≤ LevelMask.hashIndex m := by
  by_cases hl : l < 8
  · exact hashIndex_apply_le m hm l hl
  · have := apply_big m l hm (by omega)
    exact Nat.le_of_eq (congrArg LevelMask.hashIndex this)

theorem hashAt_no_panic (i : HashInfo) (h : InfoOK i) (lvl : Nat) : ∀ p, i.hashAt lvl ≠ .panic p := by
  intro p
  unfold HashInfo.hashAt
  have hle := hashIndex_apply_le' i.mask lvl h.mask_lt
  simp only
  split
  · rename_i hp
    have := h.pruned hp
    split
    · split
      · simp
      · omega
    · rcases hh : i.hashes[0]? with _ | x
      · have : i.hashes.length ≤ 0 := by simpa using hh
        omega
      · simp
  · rename_i hp
    have := h.other hp
    rcases hh : i.hashes[LevelMask.hashIndex (LevelMask.apply i.mask lvl)]? with _ | x
    · have : i.hashes.length ≤ LevelMask.hashIndex (LevelMask.apply i.mask lvl) := by simpa using hh
      omega
    · simp


theorem depthAt_no_panic (i : HashInfo) (h : InfoOK i) (lvl : Nat) : ∀ p, i.depthAt lvl ≠ .panic p := by
  intro p
  unfold HashInfo.depthAt
  have hle := hashIndex_apply_le' i.mask lvl h.mask_lt
  simp only
  split
  · rename_i hp
    have := h.pruned hp
    split
    · rename_i hne
      split
      · rename_i hlen
        have h1 : 2 + 32 * LevelMask.hashIndex i.mask + LevelMask.hashIndex (LevelMask.apply i.mask lvl) * 2 < i.buf.length := by omega
        have h2 : 2 + 32 * LevelMask.hashIndex i.mask + LevelMask.hashIndex (LevelMask.apply i.mask lvl) * 2 + 1 < i.buf.length := by omega
        simp [List.getElem?_eq_getElem h1, List.getElem?_eq_getElem h2]
      · omega
    · rcases hh : i.depths[0]? with _ | x
      · have : i.depths.length ≤ 0 := by simpa using hh
        omega
      · simp
  · rename_i hp
    have := h.other hp
    rcases hh : i.depths[LevelMask.hashIndex (LevelMask.apply i.mask lvl)]? with _ | x
    · have : i.depths.length ≤ LevelMask.hashIndex (LevelMask.apply i.mask lvl) := by simpa using hh
      omega
    · simp

instance bocLawfulOutcome : LawfulMonad Outcome := LawfulMonad.mk'
  (id_map := by intro α x; cases x <;> rfl)
  (pure_bind := by intros; rfl)
  (bind_assoc := by intro α β γ x f g; cases x <;> rfl)

theorem mapM_outcome_no_panic {α β} (f : α → Outcome β) (l : List α) (h : ∀ x ∈ l, ∀ p, f x ≠ .panic p) :
    ∀ p, l.mapM f ≠ .panic p := by
  induction l with
  | nil => intro p; simp [List.mapM_nil, pure]
  | cons a l ih =>
    intro p
    have ha := h a (by simp)
    have hl := ih (fun x hx => h x (by simp [hx]))
    rw [List.mapM_cons]
    cases hfa : f a with
    | panic q => exact absurd hfa (ha q)
    | err e => simp [bind, Outcome.bind]
    | ok b =>
      cases hml : l.mapM f with
      | panic q => exact absurd hml (hl q)
      | err e => simp [bind, Outcome.bind, hml]
      | ok bs => simp [bind, Outcome.bind, hml, pure]


/-- invariant of the per-level loop of newImmutableCell: one hash and one depth per significant level at or above
`offset` seen so far -/
def AccOK (offset : Nat) (acc : Nat × List (List UInt8) × List Nat) : Prop :=
  acc.2.1.length = acc.1 - offset ∧ acc.2.2.length = acc.1 - offset

theorem levelStep_spec (H : List UInt8 → List UInt8) (ty mask : Nat) (bits : List Bool) (children : List HashInfo)
    (offset : Nat) (acc : Nat × List (List UInt8) × List Nat) (i : Nat)
    (hch : ∀ c ∈ children, InfoOK c) (hacc : AccOK offset acc) :
    (∃ e, levelStep H ty mask bits children offset acc i = .err e) ∨
    (∃ acc', levelStep H ty mask bits children offset acc i = .ok acc' ∧ AccOK offset acc' ∧
      acc'.1 = acc.1 + (if LevelMask.isSignificant mask i then 1 else 0)) := by
  obtain ⟨seen, hashes, depths⟩ := acc
  obtain ⟨hh, hd⟩ := hacc
  simp only at hh hd
  unfold levelStep
  simp only
  by_cases hsig : LevelMask.isSignificant mask i = true
  · simp only [hsig, Bool.not_true, Bool.false_eq_true, if_false, if_true]
    by_cases hlt : seen < offset
    · simp only [hlt, if_true]
      exact .inr ⟨_, rfl, ⟨by simp only; omega, by simp only; omega⟩, rfl⟩
    · simp only [hlt, if_false]
      have hdp := mapM_outcome_no_panic
        (fun c : HashInfo => c.depthAt (if ty = tyMerkleProof ∨ ty = tyMerkleUpdate then i + 1 else i)) children
        (fun c hc => depthAt_no_panic c (hch c hc) _)
      have hhp := mapM_outcome_no_panic
        (fun c : HashInfo => c.hashAt (if ty = tyMerkleProof ∨ ty = tyMerkleUpdate then i + 1 else i)) children
        (fun c hc => hashAt_no_panic c (hch c hc) _)
      by_cases he : seen = offset
      · simp only [he, if_true, bind, Outcome.bind, pure]
        cases hcd : children.mapM (fun c : HashInfo => c.depthAt (if ty = tyMerkleProof ∨ ty = tyMerkleUpdate then i + 1 else i)) with
        | panic q => exact absurd hcd (hdp q)
        | err e => exact .inl ⟨e, rfl⟩
        | ok cds =>
          simp only
          split
          · exact .inl ⟨_, rfl⟩
          · cases hch' : children.mapM (fun c : HashInfo => c.hashAt (if ty = tyMerkleProof ∨ ty = tyMerkleUpdate then i + 1 else i)) with
            | panic q => exact absurd hch' (hhp q)
            | err e => exact .inl ⟨e, rfl⟩
            | ok chs =>
              refine .inr ⟨_, rfl, ⟨?_, ?_⟩, rfl⟩
              · simp only [List.length_append, List.length_cons, List.length_nil]; omega
              · simp only [List.length_append, List.length_cons, List.length_nil]; omega
      · have hlt' : seen - offset - 1 < hashes.length := by omega
        simp only [he, if_false, List.getElem?_eq_getElem hlt', bind, Outcome.bind, pure]
        cases hcd : children.mapM (fun c : HashInfo => c.depthAt (if ty = tyMerkleProof ∨ ty = tyMerkleUpdate then i + 1 else i)) with
        | panic q => exact absurd hcd (hdp q)
        | err e => exact .inl ⟨e, rfl⟩
        | ok cds =>
          simp only
          split
          · exact .inl ⟨_, rfl⟩
          · cases hch' : children.mapM (fun c : HashInfo => c.hashAt (if ty = tyMerkleProof ∨ ty = tyMerkleUpdate then i + 1 else i)) with
            | panic q => exact absurd hch' (hhp q)
            | err e => exact .inl ⟨e, rfl⟩
            | ok chs =>
              refine .inr ⟨_, rfl, ⟨?_, ?_⟩, rfl⟩
              · simp only [List.length_append, List.length_cons, List.length_nil]; omega
              · simp only [List.length_append, List.length_cons, List.length_nil]; omega
  · have hsig' : LevelMask.isSignificant mask i = false := by simpa using hsig
    simp only [hsig', Bool.not_false, if_true, Bool.false_eq_true, if_false, Nat.add_zero]
    exact .inr ⟨_, rfl, ⟨hh, hd⟩, rfl⟩


theorem foldlM_levels (H : List UInt8 → List UInt8) (ty mask : Nat) (bits : List Bool) (children : List HashInfo)
    (offset : Nat) (hch : ∀ c ∈ children, InfoOK c) (levels : List Nat)
    (acc : Nat × List (List UInt8) × List Nat) (hacc : AccOK offset acc) :
    (∃ e, levels.foldlM (levelStep H ty mask bits children offset) acc = .err e) ∨
    (∃ acc', levels.foldlM (levelStep H ty mask bits children offset) acc = .ok acc' ∧ AccOK offset acc' ∧
      acc'.1 = acc.1 + (levels.filter (LevelMask.isSignificant mask)).length) := by
  induction levels generalizing acc with
  | nil => exact .inr ⟨acc, rfl, hacc, by simp⟩
  | cons i rest ih =>
    rw [List.foldlM_cons]
    rcases levelStep_spec H ty mask bits children offset acc i hch hacc with ⟨e, he⟩ | ⟨acc1, h1, hok1, hs1⟩
    · exact .inl ⟨e, by rw [he]; rfl⟩
    · rw [h1]
      rcases ih acc1 hok1 with ⟨e, he⟩ | ⟨acc2, h2, hok2, hs2⟩
      · exact .inl ⟨e, he⟩
      · refine .inr ⟨acc2, h2, hok2, ?_⟩
        rw [hs2, hs1, List.filter_cons]
        by_cases hsig : LevelMask.isSignificant mask i = true
        · simp only [hsig, if_true, List.length_cons]; omega
        · simp only [hsig, Bool.false_eq_true, if_false]; omega

theorem significant_count : ∀ m < 8,
    ((List.range (LevelMask.level m + 1)).filter (LevelMask.isSignificant m)).length = LevelMask.hashIndex m + 1 := by
  decide

theorem computeInfo_ok (H : List UInt8 → List UInt8) (ty mask : Nat) (bits : List Bool) (buf : List UInt8)
    (children : List HashInfo) (hm : mask < 8) (hch : ∀ c ∈ children, InfoOK c)
    (hbuf : ty = tyPruned → 2 + LevelMask.hashIndex mask * 34 ≤ buf.length) :
    (∀ p, computeInfo H ty mask bits buf children ≠ .panic p) ∧
    ∀ i, computeInfo H ty mask bits buf children = .ok i → InfoOK i := by
  unfold computeInfo
  simp only
  have hacc0 : AccOK (if ty = tyPruned then LevelMask.hashIndex mask else 0) (0, [], []) := by
    unfold AccOK; simp
  rcases foldlM_levels H ty mask bits children _ hch (List.range (LevelMask.level mask + 1)) (0, [], []) hacc0
    with ⟨e, he⟩ | ⟨⟨seen, hashes, depths⟩, hf, ⟨hh, hd⟩, hs⟩
  · rw [he]
    exact ⟨fun p => by simp [bind, Outcome.bind], fun i hi => by simp [bind, Outcome.bind] at hi⟩
  · rw [hf]
    simp only [bind, Outcome.bind, pure]
    refine ⟨fun p => by simp, ?_⟩
    intro i hi
    simp only [Outcome.ok.injEq] at hi
    subst hi
    simp only [Nat.zero_add, significant_count mask hm] at hs
    simp only at hh hd
    refine ⟨hm, ?_, ?_⟩
    · intro hp
      simp only at hp
      simp only [hp, if_true] at hh hd
      exact ⟨hbuf hp, by simp only; omega, by simp only; omega⟩
    · intro hp
      simp only at hp
      simp only [hp, if_false] at hh hd
      exact ⟨by simp only; omega, by simp only; omega⟩


mutual
/-- the cell tree satisfies what hashing relies on: level masks below 8, pruned branches complete -/
def TreeOK : Cell → Prop
  | .mk ty mask bits refs =>
    mask < 8 ∧ (ty = tyPruned → 2 + LevelMask.hashIndex mask * 34 ≤ (bits.length + 7) / 8) ∧ TreeOKList refs
def TreeOKList : List Cell → Prop
  | [] => True
  | c :: cs => TreeOK c ∧ TreeOKList cs
end

/-- the Go buffer holds the data bytes and is padded with zero bytes up to the cell capacity (128 bytes) -/
theorem parsedBuf_length (bits : List Bool) :
    (bits.length + 7) / 8 ≤ (parsedBuf bits).length ∧ bufBytes ≤ (parsedBuf bits).length := by
  simp only [parsedBuf, List.length_append, List.length_replicate, Boc.bitsToBytes_length]
  omega

mutual
theorem Cell.info_ok (H : List UInt8 → List UInt8) : (c : Cell) → TreeOK c →
    (∀ p, Cell.info H c ≠ .panic p) ∧ ∀ i, Cell.info H c = .ok i → InfoOK i
  | .mk ty mask bits refs, h => by
    obtain ⟨hm, hp, hl⟩ := (by simpa [TreeOK] using h : mask < 8 ∧ (ty = tyPruned → _) ∧ TreeOKList refs)
    have ⟨hnp, hok⟩ := Cell.infoList_ok H refs hl
    unfold Cell.info
    cases hcs : Cell.infoList H refs with
    | panic q => exact absurd hcs (hnp q)
    | err e => exact ⟨fun p => by simp [bind, Outcome.bind], fun i hi => by simp [bind, Outcome.bind] at hi⟩
    | ok cs =>
      simp only [bind, Outcome.bind]
      exact computeInfo_ok H ty mask bits (parsedBuf bits) cs hm (hok cs hcs)
        (fun h => Nat.le_trans (hp h) (parsedBuf_length bits).1)
theorem Cell.infoList_ok (H : List UInt8 → List UInt8) : (cs : List Cell) → TreeOKList cs →
    (∀ p, Cell.infoList H cs ≠ .panic p) ∧ ∀ is, Cell.infoList H cs = .ok is → ∀ i ∈ is, InfoOK i
  | [], _ => by
    unfold Cell.infoList
    exact ⟨fun p => by simp, fun is his i hi => by simp only [Outcome.ok.injEq] at his; subst his; simp at hi⟩
  | c :: cs, h => by
    obtain ⟨hc, hcs⟩ := (by simpa [TreeOKList] using h : TreeOK c ∧ TreeOKList cs)
    have ⟨hnp1, hok1⟩ := Cell.info_ok H c hc
    have ⟨hnp2, hok2⟩ := Cell.infoList_ok H cs hcs
    unfold Cell.infoList
    cases h1 : Cell.info H c with
    | panic q => exact absurd h1 (hnp1 q)
    | err e => exact ⟨fun p => by simp [bind, Outcome.bind], fun is his => by simp [bind, Outcome.bind] at his⟩
    | ok i1 =>
      cases h2 : Cell.infoList H cs with
      | panic q => exact absurd h2 (hnp2 q)
      | err e => exact ⟨fun p => by simp [bind, Outcome.bind], fun is his => by simp [bind, Outcome.bind] at his⟩
      | ok is2 =>
        simp only [bind, Outcome.bind, pure]
        refine ⟨fun p => by simp, ?_⟩
        intro is his i hi
        simp only [Outcome.ok.injEq] at his
        subst his
        rcases List.mem_cons.1 hi with rfl | hi
        · exact hok1 _ h1
        · exact hok2 _ h2 i hi
end

/-- `Cell.Hash()` (the representation hash) never panics on such a tree -/
theorem reprHash_no_panic (H : List UInt8 → List UInt8) (c : Cell) (h : TreeOK c) : ∀ p, c.reprHash H ≠ .panic p := by
  intro p
  have ⟨hnp, hok⟩ := Cell.info_ok H c h
  unfold Cell.reprHash
  cases hi : Cell.info H c with
  | panic q => exact absurd hi (hnp q)
  | err e => simp [bind, Outcome.bind]
  | ok i =>
    simp only [bind, Outcome.bind]
    exact hashAt_no_panic i (hok i hi) 3 p

theorem mapM_treeOK {α} (f : α → Option Cell) (l : List α) (cs : List Cell) (h : l.mapM f = some cs)
    (hf : ∀ x ∈ l, ∀ c, f x = some c → TreeOK c) : TreeOKList cs := by
  induction l generalizing cs with
  | nil => simp at h; subst h; trivial
  | cons a l ih =>
    rw [List.mapM_cons] at h
    rcases hfa : f a with _ | c
    · simp [hfa] at h
    · rcases hml : l.mapM f with _ | cs'
      · simp [hfa, hml] at h
      · simp [hfa, hml] at h
        subst h
        exact ⟨hf a (by simp) c hfa, ih cs' hml (fun x hx => hf x (by simp [hx]))⟩

/-- the trees a sound table unfolds to satisfy `TreeOK` -/
theorem unfold_treeOK (t : Table) (hrows : ∀ i (h : i < t.size), Boc.RowOK t.size i t[i]) :
    ∀ fuel i c, Table.unfold t fuel i = some c → TreeOK c := by
  intro fuel
  induction fuel with
  | zero => intro i c h; simp [Table.unfold] at h
  | succ fuel ih =>
    intro i c h
    unfold Table.unfold at h
    rcases hti : t[i]? with _ | row
    · simp [hti] at h
    · simp only [hti] at h
      have hi : i < t.size := by
        rcases Nat.lt_or_ge i t.size with hlt | hge
        · exact hlt
        · simp [Array.getElem?_eq_none hge] at hti
      have hrow : row = t[i] := by
        rw [Array.getElem?_eq_getElem hi] at hti; exact (Option.some.inj hti).symm
      rcases hml : row.refs.mapM (fun r => if r > i then Table.unfold t fuel r else none) with _ | cs
      · simp [hml] at h
      · simp only [hml, Option.some.injEq] at h
        subst h
        have hr := hrows i hi
        rw [← hrow] at hr
        have hpr : row.ty = tyPruned → 2 + LevelMask.hashIndex row.mask * 34 ≤ (row.bits.length + 7) / 8 := hr.pruned
        simp only [TreeOK]
        refine ⟨hr.mask_lt, hpr, ?_⟩
        apply mapM_treeOK _ _ _ hml
        intro x _ c hc
        split at hc
        · exact ih x c hc
        · simp at hc

end Tongo.BocHash
